(* Proofs/SrvIsoTwoRunOdd.v - ids the server knows are ids a client may use: every stream in the table, every id
   remembered in the ring of closed streams, every stream frame waiting in the reader queue has an ODD id - the read
   loop (checkFrameWithStream) lets nothing else through. For every event list. *)
From H2V Require Import Base.Bytes Base.MachineInt Base.Result Gen.GenConsts Impl.ServerConn Proofs.SrvBase
  Proofs.SrvIsoMoves Proofs.SrvIsoSteps Proofs.SrvInvFrame.
From Coq Require Import ZArith Lia ZifyN ZifyNat ZifyBool.
Local Open Scope N_scope.

Definition oddN (n : N) : Prop := N.land n 1 = 1.

Section Odd.
Variable hstate : Type.
Variable dec_field : hstate -> N -> bytes -> dec_res hstate.
Variable enc_field : hstate -> bytes -> bytes -> bool -> bytes * hstate.
Variable enc_set_max : hstate -> N -> hstate.
Variable cfg : config.
Notation sconn := (sconn hstate).
Implicit Types c : sconn.

(* table and ring *)
Definition OT c : Prop :=
  (forall i, In i (map st_id (sc_strms c)) -> oddN i) /\ (forall e, In e (sc_ring c) -> oddN (fst e)).
(* reader queue *)
Definition OQ c : Prop := forall fr, In fr (sc_readerQ c) -> sf_sid fr <> 0 -> oddN (sf_sid fr).

Lemma OT_tv c c' : sc_strms c' = sc_strms c -> sc_ring c' = sc_ring c -> OT c -> OT c'.
Proof. intros E1 E2 [A B]. split; [rewrite E1 | rewrite E2]; assumption. Qed.
Lemma OT_hsame c c' : hsame c c' -> OT c -> OT c'.
Proof. intros H. apply OT_tv; apply H. Qed.
Lemma OT_found c id s : OT c -> strms_search (sc_strms c) id = Some s -> oddN (st_id s).
Proof. intros [A _] F. apply strms_search_In in F. destruct F as [I _]. apply A. apply in_map. exact I. Qed.
Lemma OT_head c n t : OT c -> sc_strms c = n :: t -> oddN (st_id n).
Proof. intros [A _] E. apply A. rewrite E. left. reflexivity. Qed.

Lemma OT_mark_closed c id w : oddN id -> OT c -> OT (mark_closed c id w).
Proof.
  intros O [A B]. split; [rewrite sc_strms_mark_closed; exact A|].
  intros e He. destruct (mark_closed_ring_In _ _ _ _ _ He) as [->|H]; [exact O | auto].
Qed.
Lemma OT_put c x : OT c -> OT (put c x).
Proof. intros [A B]. split; [|rewrite sc_ring_put; exact B]. unfold put. sc_cbn. rewrite strms_put_ids. exact A. Qed.
Lemma OT_close_stream c s : oddN (st_id s) -> OT c -> OT (close_stream c s).
Proof.
  intros O H. split.
  - rewrite sc_strms_close_stream. intros i Hi. apply (proj1 H). eapply iso_del_ids_incl. exact Hi.
  - rewrite sc_ring_close_stream. apply OT_mark_closed; assumption.
Qed.
Lemma OT_brk c : OT c -> OT (fst (brk c)).
Proof. apply OT_tv; sc_rw; reflexivity. Qed.
Lemma OT_brk_if (b : bool) c : OT c -> OT (fst (if b then brk c else cont c)).
Proof. destruct b; [apply OT_brk | auto]. Qed.
Lemma OT_write_reset c sid code : OT c -> OT (write_reset c sid code).
Proof. apply OT_tv; sc_rw; reflexivity. Qed.
Lemma OT_write_goaway c sid code : OT c -> OT (write_goaway c sid code).
Proof. apply OT_tv; sc_rw; reflexivity. Qed.
Lemma OT_note c o : OT c -> OT (note c o).
Proof. apply OT_tv; sc_rw; reflexivity. Qed.
Lemma OT_emit c o : OT c -> OT (emit c o).
Proof. apply OT_tv; sc_rw; reflexivity. Qed.
Lemma OT_write_error c s e : OT c -> OT (fst (write_error c s e)).
Proof. apply OT_tv; sc_rw; reflexivity. Qed.
Lemma write_error_id c s e x : snd (write_error c (Some s) e) = Some x -> st_id x = st_id s.
Proof. destruct e; cbn [write_error snd]; intro H; inversion H; reflexivity. Qed.

Lemma send_data_id c s : st_id (snd (fst (send_data c s))) = st_id s.
Proof.
  unfold send_data.
  destruct (send_data_loop (send_data_fuel (get_snd s)) c (st_id s) (get_snd s)) as [[[c1 n1] done] wr].
  cbn [fst snd]. destruct wr; reflexivity.
Qed.
Lemma OT_send_data c s : OT c -> OT (fst (fst (send_data c s))).
Proof. apply OT_hsame, hsame_send_data. Qed.
Lemma finish_request_id c s r : st_id (snd (fst (finish_request enc_field c s r))) = st_id s.
Proof.
  unfold finish_request. destruct (response_block enc_field (sc_enc c) r) as [blk e'].
  match goal with |- context [if ?b then _ else _] => destruct b end; cbn [fst snd]; [reflexivity|].
  rewrite send_data_id. destruct (rs_body r); reflexivity.
Qed.
Lemma OT_finish_request c s r : OT c -> OT (fst (fst (finish_request enc_field c s r))).
Proof. apply OT_hsame, hsame_finish_request. Qed.

Lemma handle_state_id fr s : st_id (handle_state fr s) = st_id s.
Proof. unfold handle_state. repeat match goal with |- context [if ?b then _ else _] => destruct b | |- context [match st_state ?x with _ => _ end] => destruct (st_state x) end; reflexivity. Qed.

(* ---------- header blocks: only the decoder and the discard registers ---------- *)
Definition tv c := (sc_strms c, sc_ring c).
Lemma OT_tveq c c' : tv c' = tv c -> OT c -> OT c'.
Proof. unfold tv. intro E. inversion E. apply OT_tv; assumption. Qed.

Lemma tv_discard_fragment c id fragment eh : tv (fst (discard_fragment dec_field cfg c id fragment eh)) = tv c.
Proof.
  unfold discard_fragment. destruct (discard_loop _ _ _ _ _ _) as [[[d' fields] carry] e].
  destruct e; [reflexivity|]. destruct eh; [reflexivity|]. destruct (_ && _)%bool; reflexivity.
Qed.
Lemma tv_discard_header_block c fr : tv (fst (discard_header_block dec_field cfg c fr)) = tv c.
Proof. unfold discard_header_block. rewrite tv_discard_fragment. destruct (fkind_eqb _ _); reflexivity. Qed.

Lemma handle_header_frame_tv c s fr :
  tv (fst (fst (handle_header_frame dec_field cfg c s fr))) = tv c /\
  st_id (snd (fst (handle_header_frame dec_field cfg c s fr))) = st_id s.
Proof.
  unfold handle_header_frame.
  destruct (_ && _)%bool; [split; reflexivity|]. destruct (_ && _)%bool; [split; reflexivity|].
  cbv zeta. destruct (header_loop _ _ _ _ _ _ _) as [[[d' h2] e] rest].
  destruct e as [[code|code|]|]; try (split; reflexivity).
  - match goal with |- context [discard_fragment ?a ?b ?c0 ?d ?e ?f] =>
      pose proof (tv_discard_fragment c0 d e f) as T; destruct (discard_fragment a b c0 d e f) as [c3 [de|]] end;
      cbn [fst snd] in *; (split; [exact T | reflexivity]).
  - destruct (_ && _)%bool; split; reflexivity.
Qed.

Lemma handle_frame_tv c s fr :
  tv (fst (fst (handle_frame dec_field cfg c s fr))) = tv c /\
  st_id (snd (fst (handle_frame dec_field cfg c s fr))) = st_id s.
Proof.
  assert (HH : is_hdr_kind (sf_kind fr) = true ->
    tv (fst (fst (match sf_kind fr with KHeaders | KCont =>
          if (3 <=? sstate_rank (st_state s)) && negb (continuing_headers s fr) then (c, s, Some (EGoAway c_ProtocolError))
          else let '(c1, s1, e) := handle_header_frame dec_field cfg c s fr in
            match e with
            | Some e => (c1, s1, Some e)
            | None =>
              if flag_has (sf_flags fr) FL_EH then
                let fin := match st_prev s1 with [] => true | _ => false end in
                let s2 := set_headers_finished s1 fin in
                if negb fin then (c1, s2, Some (EGoAway c_ProtocolError))
                else match validate_request_pseudo_headers s2 with Some e => (c1, s2, Some e) | None => (c1, s2, None) end
              else (c1, s1, None)
            end | _ => (c, s, None) end))) = tv c /\
    st_id (snd (fst (match sf_kind fr with KHeaders | KCont =>
          if (3 <=? sstate_rank (st_state s)) && negb (continuing_headers s fr) then (c, s, Some (EGoAway c_ProtocolError))
          else let '(c1, s1, e) := handle_header_frame dec_field cfg c s fr in
            match e with
            | Some e => (c1, s1, Some e)
            | None =>
              if flag_has (sf_flags fr) FL_EH then
                let fin := match st_prev s1 with [] => true | _ => false end in
                let s2 := set_headers_finished s1 fin in
                if negb fin then (c1, s2, Some (EGoAway c_ProtocolError))
                else match validate_request_pseudo_headers s2 with Some e => (c1, s2, Some e) | None => (c1, s2, None) end
              else (c1, s1, None)
            end | _ => (c, s, None) end))) = st_id s).
  { intros _. destruct (sf_kind fr); try (split; reflexivity);
      (destruct (_ && _)%bool; [split; reflexivity|]);
      pose proof (handle_header_frame_tv c s fr) as [T I];
      destruct (handle_header_frame dec_field cfg c s fr) as [[c1 s1] e]; cbn [fst snd] in T, I;
      cbv zeta; cbn [negb];
      repeat (match goal with |- context [if ?b then _ else _] => destruct b; cbn [negb]
                         | |- context [match ?b with Some _ => _ | None => _ end] => destruct b end);
      cbn [fst snd]; split; try exact T; try exact I. }
  unfold handle_frame. destruct (verify_state s fr); [split; reflexivity|].
  destruct (sf_kind fr) eqn:K; try (repeat (match goal with |- context [if ?b then _ else _] => destruct b end); split; reflexivity).
  - (* DATA *)
    destruct (negb _); [split; reflexivity|]. destruct (_ <=? _); [split; reflexivity|]. cbv zeta.
    destruct (_ && _)%bool; cbn [fst snd]; (split; [|reflexivity]); unfold tv; sc_rw; reflexivity.
  - apply HH. reflexivity.
  - apply HH. reflexivity.
Qed.

(* ---------- the stream loop ---------- *)
Lemma OT_after_frame c s fr wc : OT c -> oddN (st_id s) -> OT (fst (after_frame cfg c s fr wc)).
Proof.
  intros H O. unfold after_frame. cbv zeta.
  match goal with |- context [let '(c2, s2) := ?X in _] =>
    assert (M : OT (fst X) /\ st_id (snd X) = st_id s) end.
  { destruct (_ && _ && _)%bool.
    - destruct (_ && _)%bool; cbn [fst snd]; (split; [|apply handle_state_id]); [apply OT_write_reset | apply OT_note]; exact H.
    - destruct (_ && _ && _)%bool.
      + pose proof (OT_send_data c (handle_state fr s) H) as T. pose proof (send_data_id c (handle_state fr s)) as I.
        destruct (send_data c (handle_state fr s)) as [[c1 s2] fin]. cbn [fst snd] in *. split; [exact T|].
        rewrite <- (handle_state_id fr s), <- I. destruct fin; reflexivity.
      + cbn [fst snd]. split; [exact H | apply handle_state_id]. }
  match goal with |- context [let '(c2, s2) := ?X in _] => destruct X as [c2 s2] end. cbn [fst snd] in M.
  destruct M as [H2 I2]. apply OT_brk_if.
  destruct (sstate_eqb _ _); [apply OT_close_stream; [rewrite I2; exact O|]|]; apply OT_put; exact H2.
Qed.

Lemma OT_flush_loop ids : forall c done, OT c -> OT (fst (flush_loop c ids done)).
Proof.
  induction ids as [|id t IH]; intros c done H; cbn [flush_loop]; [exact H|].
  destruct (strms_search (sc_strms c) id) as [s|]; [|apply IH, H].
  destruct (_ && _ && _)%bool; [|apply IH, H].
  pose proof (OT_send_data c s H) as T. destruct (send_data c s) as [[c1 s1] fin]. cbn [fst] in T.
  apply IH. apply OT_put. exact T.
Qed.
Lemma OT_close_all ids : forall c, OT c -> OT (close_all c ids).
Proof.
  induction ids as [|id t IH]; intros c H; cbn [close_all]; [exact H|].
  destruct (strms_search (sc_strms c) id) as [s|] eqn:F; [|apply IH, H].
  apply IH. apply OT_close_stream; [|exact H]. cbn [st_id set_state]. eapply OT_found; eassumption.
Qed.
Lemma OT_flush_streams c : OT c -> OT (flush_streams c).
Proof.
  intro H. unfold flush_streams. pose proof (OT_flush_loop (map st_id (sc_strms c)) c [] H) as T.
  destruct (flush_loop c (map st_id (sc_strms c)) []) as [c1 done]. cbn [fst] in T. apply OT_close_all, T.
Qed.
Lemma OT_implicit_close fuel : forall c sid, OT c -> OT (implicit_close fuel c sid).
Proof.
  induction fuel as [|fuel IH]; intros c sid H; cbn [implicit_close]; [exact H|].
  destruct (sc_strms c) as [|n t] eqn:E; [exact H|]. destruct (_ && _ && _)%bool; [|exact H].
  apply IH. apply OT_write_reset. apply OT_close_stream; [|exact H]. cbn [st_id set_state set_weReset].
  eapply OT_head; eassumption.
Qed.
Lemma OT_close_heads n : forall c, OT c -> OT (close_heads n c).
Proof.
  induction n as [|n IH]; intros c H; cbn [close_heads]; [exact H|].
  destruct (sc_strms c) as [|s t] eqn:E; [exact H|]. apply IH. apply OT_close_stream.
  - cbn [st_id set_state set_weReset]. eapply OT_head; eassumption.
  - apply OT_write_reset, H.
Qed.
Lemma OT_sl_timer c : OT c -> OT (fst (sl_timer cfg c)).
Proof. intro H. unfold sl_timer. destruct (_ <=? _)%Z; cbn [cont fst]; [exact H | apply OT_close_heads, H]. Qed.

Lemma OT_sl_done c sid r : OT c -> OT (fst (sl_done enc_field cfg c sid r)).
Proof.
  intro H. unfold sl_done. destruct (take_stream _ _) as [[s rest]|].
  - cbn [cont fst]. revert H. apply OT_hsame. eapply hsame_trans; [apply hsame_upd_gone | apply hsame_release_stream].
  - destruct (strms_search (sc_strms c) sid) as [s|] eqn:F; [|exact H]. destruct (negb _); [exact H|].
    pose proof (OT_found _ _ _ H F) as O.
    set (s1 := set_flags s (st_responded s) false (st_abandoned s)).
    pose proof (OT_finish_request c s1 r H) as T. pose proof (finish_request_id c s1 r) as I.
    destruct (finish_request enc_field c s1 r) as [[c1 s2] fin]. cbn [fst snd] in T, I. cbv zeta.
    match goal with |- context [if ?b then brk ?x else cont ?x] => apply (OT_brk_if b x) end.
    destruct fin; [apply OT_close_stream; [cbn [st_id set_state]; rewrite I; exact O|]|]; apply OT_put, T.
Qed.

Lemma OT_discard_or_break (r : sconn * option h2err) : OT (fst r) -> OT (fst (discard_or_break r)).
Proof.
  destruct r as [c1 [e|]]; cbn [fst discard_or_break]; intro H; [|exact H].
  destruct e; apply OT_brk; try apply OT_write_error; try apply OT_note; exact H.
Qed.
Lemma OT_discard_header_block c fr : OT c -> OT (fst (discard_or_break (discard_header_block dec_field cfg c fr))).
Proof. intro H. apply OT_discard_or_break. revert H. apply OT_tveq, tv_discard_header_block. Qed.

Lemma OT_ftail_rest c s e fr wc : OT c -> oddN (st_id s) -> OT (fst (ftail_rest cfg c s e fr wc)).
Proof.
  intros H O. unfold ftail_rest. destruct e as [e|]; [|apply OT_after_frame; assumption].
  pose proof (OT_write_error c (Some s) e H) as T. pose proof (write_error_id c s e) as I.
  destruct (write_error c (Some s) e) as [c4 s4]. cbn [fst snd] in T, I.
  assert (O5 : oddN (st_id (match s4 with Some x => set_state x SClosed | None => set_state s SClosed end))).
  { destruct s4 as [x|]; cbn [st_id set_state]; [rewrite (I x eq_refl)|]; exact O. }
  destruct e as [code|code|].
  - destruct (negb _); [apply OT_brk, OT_put, T | apply OT_after_frame; assumption].
  - apply OT_after_frame; assumption.
  - apply OT_brk, OT_note, H.
Qed.
Lemma OT_ftail c s fr wc : OT c -> oddN (st_id s) -> OT (fst (ftail dec_field cfg c s fr wc)).
Proof.
  intros H O. unfold ftail. pose proof (handle_frame_tv c s fr) as [T I].
  destruct (handle_frame dec_field cfg c s fr) as [[c3 s3] e]. cbn [fst snd] in T, I.
  apply OT_ftail_rest; [revert H; apply OT_tveq, T | rewrite I; exact O].
Qed.
Lemma OT_fwork c s fr wc : OT c -> oddN (st_id s) -> OT (fst (fwork dec_field cfg c s fr wc)).
Proof.
  intros H O. unfold fwork. cbv zeta. destruct (fkind_eqb _ _); [|apply OT_ftail; assumption].
  destruct (get_previous_headers _) as [p|].
  - destruct (negb _).
    + pose proof (OT_write_error c (Some p) (EGoAway c_ProtocolError) H) as T.
      destruct (write_error c (Some p) (EGoAway c_ProtocolError)) as [c2 p']. cbn [fst] in T. cbn [cont fst].
      destruct p'; [apply OT_put|]; exact T.
    + apply OT_ftail; [apply OT_implicit_close, H | exact O].
  - apply OT_ftail; [apply OT_implicit_close, H | exact O].
Qed.

Lemma OT_sl_frame c fr : OT c -> (sf_sid fr <> 0 -> oddN (sf_sid fr)) ->
  OT (fst (sl_frame dec_field enc_set_max cfg c fr)).
Proof.
  intros H OF. unfold sl_frame.
  destruct (sf_sid fr =? 0) eqn:Z0.
  { destruct (sf_kind fr); try exact H.
    - (* SETTINGS *)
      set (c0 := if sf_set_hastable fr then upd_enc c (enc_set_max (sc_enc c) (sf_set_table fr)) else c).
      assert (H0 : OT c0) by (subst c0; destruct (sf_set_hastable fr); [revert H; apply OT_tv; reflexivity | exact H]).
      destruct (sf_set_haswin fr); [|apply OT_emit, H0].
      cbv zeta.
      match goal with |- context [let '(aa, bb) := ?B in _] =>
        assert (BS : exists l', fst B = [] ++ l' /\ Forall2 (tr 0 false) (sc_strms (upd_initWin c0 (signed 32 (sf_set_win fr)))) l')
          by (apply (bumpall_tr 0 false (signed 32 (sf_set_win fr) - sc_initWin c0)));
        destruct B as [lB over] end.
      destruct BS as (lq & E & F2). cbn [fst app] in E. subst lB.
      assert (H1 : OT (upd_strms (upd_initWin c0 (signed 32 (sf_set_win fr))) lq)).
      { split; [|apply H0]. sc_cbn. rewrite (Forall2_tr_ids _ _ _ _ F2). sc_cbn. apply H0. }
      destruct over; [apply OT_brk, OT_write_goaway, H1 | apply OT_flush_streams, OT_emit, H1].
    - (* WINDOW_UPDATE *)
      cbv zeta. assert (H1 : OT (upd_clientWindow c (sc_clientWindow c + Z.of_N (sf_inc fr)))) by (revert H; apply OT_tv; reflexivity).
      destruct (_ <? _)%Z; [apply OT_brk, OT_write_goaway, H1 | apply OT_flush_streams, H1]. }
  assert (O : oddN (sf_sid fr)) by (apply OF; lia).
  destruct (_ && _ && _)%bool; [apply OT_discard_header_block, H|].
  cbv zeta.
  change (match ?pre with inl r => r | inr (c1, s) => _ end) with
    (match pre with inl r => r | inr (c1, s) => fwork dec_field cfg c1 s fr (sc_closing c) end).
  destruct (if sf_sid fr <=? sc_lastID c then strms_search (sc_strms c) (sf_sid fr) else None) as [s|] eqn:Found.
  { assert (SS : strms_search (sc_strms c) (sf_sid fr) = Some s) by (destruct (_ <=? _); [exact Found | discriminate]).
    apply OT_fwork; [exact H | eapply OT_found; eassumption]. }
  destruct (fkind_eqb (sf_kind fr) KRst).
  { destruct (_ && _)%bool; [apply OT_write_goaway, H | exact H]. }
  destruct (in_ring c (sf_sid fr)).
  { destruct (sf_kind fr); cbn [cont fst]; try exact H; try (apply OT_write_goaway, H);
      destruct (match ring_find c (sf_sid fr) with Some b => b | None => false end);
      try (apply OT_write_goaway, H); try apply OT_discard_header_block, H.
    revert H. apply OT_hsame, hsame_credit_conn_window. }
  destruct (fkind_eqb (sf_kind fr) KPriority).
  { destruct (sf_dep fr =? sf_sid fr); cbn [cont fst]; [apply OT_write_reset, H | exact H]. }
  destruct (_ && _)%bool; [apply OT_write_goaway, H|].
  set (c0 := if fkind_eqb (sf_kind fr) KHeaders then upd_highestID c (sf_sid fr) else c).
  assert (H0 : OT c0) by (subst c0; destruct (fkind_eqb _ _); [revert H; apply OT_tv; reflexivity | exact H]).
  destruct (_ && _)%bool.
  { apply OT_discard_header_block. apply OT_mark_closed; [exact O | apply OT_write_reset, H0]. }
  destruct (_ <? _); [apply OT_write_goaway, H0|].
  destruct (_ && _)%bool.
  { apply OT_discard_header_block. apply OT_mark_closed; [exact O | apply OT_write_reset, H0]. }
  set (c1 := if fkind_eqb (sf_kind fr) KHeaders then upd_lastID c0 (sf_sid fr) else c0).
  assert (H1 : OT c1) by (subst c1; destruct (fkind_eqb _ _); [revert H0; apply OT_tv; reflexivity | exact H0]).
  apply OT_fwork; [|exact O].
  set (s := set_orig_started _ _ _).
  assert (H2 : OT (upd_strms c1 (sc_strms c1 ++ [s]))).
  { split; [|apply H1]. sc_cbn. rewrite map_app. intros i Hi. apply in_app_or in Hi. destruct Hi as [Hi|[<-|[]]]; [apply H1, Hi | exact O]. }
  destruct (fkind_eqb _ _); [revert H2; apply OT_tv; reflexivity | exact H2].
Qed.

(* ---------- the read loop: what it forwards ---------- *)
Lemma OQ_same c c' : sc_readerQ c' = sc_readerQ c -> OQ c -> OQ c'.
Proof. unfold OQ. intros ->. auto. Qed.
Lemma OQ_forward c fr : (sf_sid fr <> 0 -> oddN (sf_sid fr)) -> OQ c -> OQ (forward c fr).
Proof.
  intros O H. unfold forward. destruct (sc_sl_done c); [revert H; apply OQ_same; reflexivity|].
  unfold OQ. sc_cbn. intros f Hf. apply in_app_or in Hf. destruct Hf as [Hf|[<-|[]]]; [apply H, Hf | exact O].
Qed.
Lemma OQ_rl_step c i : OQ c -> OQ (rl_step cfg c i).
Proof.
  intro H. unfold rl_step. destruct i as [fr| |[code|]|]; try (revert H; apply OQ_same; sc_rw; reflexivity).
  - set (r := if negb (sc_expectCont c =? 0) then _ else _).
    assert (Q : match r with inl c' => OQ c' | inr c1 => OQ c1 end).
    { subst r. repeat match goal with |- context [if ?b then _ else _] => destruct b end;
        revert H; apply OQ_same; sc_rw; reflexivity. }
    destruct r as [c'|c1]; [exact Q|].
    destruct (negb (sf_sid fr =? 0)) eqn:Z.
    + destruct (check_frame_with_stream fr) as [e|] eqn:CK.
      * revert Q. apply OQ_same. rewrite write_error_fst. destruct e; sc_rw; reflexivity.
      * apply OQ_forward; [|exact Q]. intros _. unfold check_frame_with_stream in CK.
        destruct (N.land (sf_sid fr) 1 =? 0) eqn:E; [discriminate|]. unfold oddN.
        apply N.eqb_neq in E. pose proof (N.land_ones (sf_sid fr) 1) as L. change (N.ones 1) with 1 in L. change (2 ^ 1) with 2 in L.
        pose proof (N.mod_upper_bound (sf_sid fr) 2 ltac:(lia)) as U. lia.
    + assert (Z' : sf_sid fr = 0) by (destruct (sf_sid fr =? 0) eqn:E; [apply N.eqb_eq in E; exact E | discriminate]).
      destruct (sf_kind fr); repeat match goal with |- context [if ?b then _ else _] => destruct b end;
        try exact Q; try (apply OQ_forward; [intro; contradiction | exact Q]);
        revert Q; apply OQ_same; sc_rw; reflexivity.
  - destruct (negb _); revert H; apply OQ_same; sc_rw; reflexivity.
Qed.

(* ---------- every step, every run ---------- *)
Notation step := (step dec_field enc_field enc_set_max cfg).
Definition OI c : Prop := OT c /\ OQ c.

Lemma slview_tv c c' : slview _ c' = slview _ c -> tv c' = tv c.
Proof. unfold slview, tv. intro E. inversion E. reflexivity. Qed.

Theorem OI_step c e : OI c -> OI (step c e).
Proof.
  intros [HT HQ]. destruct e as [i| |sid r|t| | | |].
  - split.
    + revert HT. apply OT_tveq, slview_tv. apply (read_loop_event_frame _ dec_field enc_field enc_set_max cfg).
    + rewrite step_EvRL. destruct (sc_rl_done c); [exact HQ | apply OQ_rl_step, HQ].
  - assert (QQ : OQ (step c EvSL)).
    { destruct (stream_loop_event_frame _ dec_field enc_field enc_set_max cfg c EvSL I) as (_ & _ & [E|[fr E]]).
      - revert HQ. apply OQ_same, E.
      - unfold OQ in *. intros f Hf. apply HQ. rewrite E. right. exact Hf. }
    split; [|exact QQ]. rewrite step_EvSL. destruct (sc_sl_done c); [exact HT|].
    destruct (sc_readerQ c) as [|fr q] eqn:RQ.
    + destruct (sc_rl_done c); [|exact HT]. revert HT. apply OT_tv; reflexivity.
    + apply OT_sl_frame; [revert HT; apply OT_tv; reflexivity|]. apply HQ. rewrite RQ. left. reflexivity.
  - split.
    + rewrite step_EvDone. destruct (sc_sl_done c); [exact HT | apply OT_sl_done, HT].
    + destruct (stream_loop_event_frame _ dec_field enc_field enc_set_max cfg c (EvDone sid r) I) as (_ & _ & [E|[fr E]]).
      * revert HQ. apply OQ_same, E.
      * unfold OQ in *. intros f Hf. apply HQ. rewrite E. right. exact Hf.
  - rewrite step_EvClock. destruct (_ <? _)%Z; [|split; assumption].
    split; [revert HT; apply OT_tv; reflexivity | revert HQ; apply OQ_same; reflexivity].
  - split.
    + rewrite step_EvTimer. destruct (sc_sl_done c); [exact HT | apply OT_sl_timer, HT].
    + destruct (stream_loop_event_frame _ dec_field enc_field enc_set_max cfg c EvTimer I) as (_ & _ & [E|[fr E]]).
      * revert HQ. apply OQ_same, E.
      * unfold OQ in *. intros f Hf. apply HQ. rewrite E. right. exact Hf.
  - rewrite step_EvIdle. split; [revert HT; apply OT_tv; sc_cbn; sc_rw; reflexivity | revert HQ; apply OQ_same; sc_cbn; sc_rw; reflexivity].
  - rewrite step_EvCloser. destruct (_ && _)%bool; [|split; assumption].
    split; [apply OT_brk, HT | revert HQ; apply OQ_same; sc_rw; reflexivity].
  - rewrite step_EvWriteFail. split; [revert HT; apply OT_tv; reflexivity | revert HQ; apply OQ_same; reflexivity].
Qed.

Theorem OI_run h0 evs : OI (run dec_field enc_field enc_set_max cfg h0 evs).
Proof.
  apply run_ind; [|intros c e H; apply OI_step, H].
  split; [split|]; cbn; intros ? [].
Qed.

(* an id remembered in the ring is odd, in every reachable state *)
Theorem ring_ids_odd h0 evs id b :
  ring_find (run dec_field enc_field enc_set_max cfg h0 evs) id = Some b -> oddN id.
Proof.
  intro F. destruct (OI_run h0 evs) as [[_ B] _]. unfold ring_find in F.
  destruct (find _ _) as [e|] eqn:E; [|discriminate]. apply find_some in E. destruct E as [I Q].
  apply N.eqb_eq in Q. subst id. apply B, I.
Qed.

End Odd.
