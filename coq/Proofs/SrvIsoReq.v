(* Proofs/SrvIsoReq.v - C01 (a), part 1: what the handler is given.
   Pure part: the request record that the field-by-field loop (header_field, folded by hfold of
   Proofs/SrvIsoRef.v) builds from a decoded field list is the list read as a request: the pseudo-header
   values, the regular fields in order. *)
From H2V Require Import Base.Bytes Base.MachineInt Base.Result Gen.GenConsts Impl.ServerConn Proofs.SrvBase
  Proofs.SrvIsoRef.
From Coq Require Import ZArith Lia ZifyN ZifyNat ZifyBool.
Local Open Scope N_scope.

Lemma iso_bytes_eqb_eq : forall a b, bytes_eqb a b = true <-> a = b.
Proof.
  induction a as [|x a IH]; destruct b as [|y b]; cbn [bytes_eqb]; split; intro H; try discriminate; try reflexivity.
  - apply andb_prop in H. destruct H as [H1 H2]. apply IH in H2. f_equal; [lia | assumption].
  - inversion H; subst. rewrite N.eqb_refl. cbn [andb]. apply IH. reflexivity.
Qed.

(* ---------- a field list read as a request ---------- *)
Definition regular_fields (fs : list (bytes * bytes)) : list (bytes * bytes) :=
  filter (fun kv => negb (is_pseudo (fst kv))) fs.

(* the value of the (first) field called name *)
Definition field_val (name : bytes) (fs : list (bytes * bytes)) : option bytes :=
  match find (fun kv => bytes_eqb (fst kv) name) fs with Some kv => Some (snd kv) | None => None end.

Definition opt_or (o : option bytes) (d : bytes) : bytes := match o with Some v => v | None => d end.

(* the request a complete, accepted header list stands for (r0: what the stream had before - empty_req for a
   new stream) *)
Definition request_of (r0 : request) (fs : list (bytes * bytes)) : request :=
  mkReq (opt_or (field_val S_method fs) (rq_method r0)) (opt_or (field_val S_path fs) (rq_uri r0))
        (opt_or (field_val S_scheme fs) (rq_scheme r0))
        (match field_val S_authority fs with Some v => Some v | None => rq_authority r0 end)
        (rq_fields r0 ++ regular_fields fs) (rq_body r0).

Ltac fin := try (intro HH); match goal with HH : inr _ = inr _ |- _ => inversion HH; subst; cbn end.

Section Req.
Variable cfg : config.

(* one accepted field *)
Lemma header_field_accept h k v h' : header_field cfg h k v = inr h' ->
  (is_pseudo k = false /\ hd_req h' = rq_add_field (hd_req h) k v /\
   hd_pMethod h' = hd_pMethod h /\ hd_pPath h' = hd_pPath h /\ hd_pScheme h' = hd_pScheme h /\ hd_pAuth h' = hd_pAuth h /\
   hd_regularSeen h' = true /\ hd_path h' = hd_path h) \/
  (is_pseudo k = true /\ hd_regularSeen h = false /\ hd_regularSeen h' = false /\
   ((k = S_method /\ hd_pMethod h = false /\ hd_pMethod h' = true /\ hd_req h' = rq_set_method (hd_req h) v /\
     hd_pPath h' = hd_pPath h /\ hd_pScheme h' = hd_pScheme h /\ hd_pAuth h' = hd_pAuth h /\ hd_path h' = hd_path h) \/
    (k = S_path /\ hd_pPath h = false /\ hd_pPath h' = true /\ hd_req h' = rq_set_uri (hd_req h) v /\ hd_path h' = v /\
     hd_pMethod h' = hd_pMethod h /\ hd_pScheme h' = hd_pScheme h /\ hd_pAuth h' = hd_pAuth h) \/
    (k = S_scheme /\ hd_pScheme h = false /\ hd_pScheme h' = true /\ hd_req h' = rq_set_scheme (hd_req h) v /\
     hd_pMethod h' = hd_pMethod h /\ hd_pPath h' = hd_pPath h /\ hd_pAuth h' = hd_pAuth h /\ hd_path h' = hd_path h) \/
    (k = S_authority /\ hd_pAuth h = false /\ hd_pAuth h' = true /\ hd_req h' = rq_set_authority (hd_req h) v /\
     hd_pMethod h' = hd_pMethod h /\ hd_pPath h' = hd_pPath h /\ hd_pScheme h' = hd_pScheme h /\ hd_path h' = hd_path h))).
Proof.
  unfold header_field. cbv zeta.
  cbn [hd_pMethod hd_pPath hd_pScheme hd_pAuth hd_regularSeen hd_contentLength hd_hasCL hd_blockFields hd_path hd_req
       hd_headersFinished hd_prev hd_headerListSize].
  destruct (_ && _)%bool; [discriminate|]. destruct (has_upper_case k); [discriminate|].
  destruct (is_pseudo k) eqn:PK.
  - cbn [hd_regularSeen]. destruct (hd_regularSeen h) eqn:RS; [discriminate|]. right. split; [reflexivity|]. split; [reflexivity|].
    destruct (bytes_eqb k S_method) eqn:K1.
    { apply iso_bytes_eqb_eq in K1. cbn [hd_pMethod]. destruct (hd_pMethod h) eqn:PM; [discriminate|].
      fin. split; [reflexivity|]. left. repeat split; auto. }
    destruct (bytes_eqb k S_path) eqn:K2.
    { apply iso_bytes_eqb_eq in K2. cbn [hd_pPath]. destruct (hd_pPath h) eqn:PP; [discriminate|].
      fin. split; [reflexivity|]. right. left. repeat split; auto. }
    destruct (bytes_eqb k S_scheme) eqn:K3.
    { apply iso_bytes_eqb_eq in K3. cbn [hd_pScheme]. destruct (hd_pScheme h) eqn:PS; [discriminate|].
      fin. split; [reflexivity|]. right. right. left. repeat split; auto. }
    destruct (bytes_eqb k S_authority) eqn:K4; [|discriminate].
    apply iso_bytes_eqb_eq in K4. cbn [hd_pAuth]. destruct (hd_pAuth h) eqn:PA; [discriminate|].
    fin. split; [reflexivity|]. right. right. right. repeat split; auto.
  - destruct (is_connection_specific k); [discriminate|]. destruct (_ && _)%bool; [discriminate|].
    left. split; [reflexivity|].
    destruct (bytes_eqb k S_content_length).
    + destruct (parse_uint v); [|discriminate]. destruct (_ && _)%bool; [discriminate|]. destruct (_ && _)%bool; [discriminate|].
      fin. repeat split; auto.
    + fin. repeat split; auto.
Qed.

Lemma is_pseudo_names : is_pseudo S_method = true /\ is_pseudo S_path = true /\ is_pseudo S_scheme = true /\ is_pseudo S_authority = true.
Proof. repeat split. Qed.

(* the regular fields, in order; the body is not touched *)
Lemma hfold_fields fs : forall h hF, hfold cfg h fs = Some hF ->
  rq_fields (hd_req hF) = rq_fields (hd_req h) ++ regular_fields fs /\ rq_body (hd_req hF) = rq_body (hd_req h).
Proof.
  induction fs as [|[k v] t IH]; intros h hF; cbn [hfold regular_fields filter fst].
  - intro H; inversion H; subst. rewrite app_nil_r. auto.
  - destruct (header_field cfg h k v) as [|h1] eqn:HF; [discriminate|]. intro H. destruct (IH _ _ H) as [E1 E2].
    fold (regular_fields t). rewrite E1, E2.
    destruct (header_field_accept _ _ _ _ HF) as [(PK & RQ & _)|(PK & _ & _ & C)].
    + rewrite PK, RQ. cbn [negb rq_add_field rq_fields rq_body]. rewrite <- app_assoc. auto.
    + rewrite PK. cbn [negb]. destruct C as [C|[C|[C|C]]]; decompose [and] C;
        match goal with E : hd_req h1 = _ |- _ => rewrite E end; cbn; auto.
Qed.

(* one pseudo-header: a flag pf (seen), a value pv *)
Section Slot.
Variable name : bytes.
Variable pf : hdr -> bool.
Variable pv : hdr -> option bytes.
Variable slot_step : forall h k v h', header_field cfg h k v = inr h' ->
  (k = name -> pf h = false /\ pf h' = true /\ pv h' = Some v) /\ (k <> name -> pf h' = pf h /\ pv h' = pv h).

Lemma slot_fold fs : forall h hF, hfold cfg h fs = Some hF ->
  (pf h = true -> field_val name fs = None /\ pv hF = pv h /\ pf hF = true) /\
  (pf h = false -> match field_val name fs with
                   | Some v => pv hF = Some v /\ pf hF = true
                   | None => pv hF = pv h /\ pf hF = false
                   end).
Proof.
  induction fs as [|[k v] t IH]; intros h hF; cbn [hfold].
  - intro H; inversion H; subst. unfold field_val. cbn [find]. auto.
  - destruct (header_field cfg h k v) as [|h1] eqn:HF; [discriminate|]. intro H.
    destruct (slot_step _ _ _ _ HF) as [S1 S2]. destruct (IH _ _ H) as [I1 I2].
    unfold field_val in *. cbn [find fst snd].
    destruct (bytes_eqb k name) eqn:KN.
    + apply iso_bytes_eqb_eq in KN. destruct (S1 KN) as (F0 & F1 & V1). split; [congruence|]. intros _.
      destruct (I1 F1) as (_ & Vh & Fh). cbn [snd]. split; congruence.
    + assert (KN' : k <> name) by (intro E; apply iso_bytes_eqb_eq in E; congruence).
      destruct (S2 KN') as [Fe Ve]. rewrite Fe in I1, I2. rewrite Ve in I1, I2. auto.
Qed.
End Slot.

Lemma names_distinct : S_method <> S_path /\ S_method <> S_scheme /\ S_method <> S_authority /\ S_path <> S_scheme /\
  S_path <> S_authority /\ S_scheme <> S_authority.
Proof. repeat split; discriminate. Qed.

Ltac slot_tac HF :=
  destruct (header_field_accept _ _ _ _ HF) as [(PK & RQ & E1 & E2 & E3 & E4 & _ & E6)|(PK & _ & _ & C)];
  [split; [intro; subst; discriminate PK | intros _; rewrite ?RQ, ?E1, ?E2, ?E3, ?E4, ?E6; auto]
  |destruct C as [C|[C|[C|C]]]; decompose [and] C; subst; split; intro;
   try (exfalso; congruence); try discriminate;
   repeat match goal with E : hd_req _ = _ |- _ => rewrite E end; cbn; auto; try (split; congruence)].

Lemma slot_method h k v h' : header_field cfg h k v = inr h' ->
  (k = S_method -> hd_pMethod h = false /\ hd_pMethod h' = true /\ Some (rq_method (hd_req h')) = Some v) /\
  (k <> S_method -> hd_pMethod h' = hd_pMethod h /\ Some (rq_method (hd_req h')) = Some (rq_method (hd_req h))).
Proof. intro HF. slot_tac HF. Qed.

Lemma slot_path h k v h' : header_field cfg h k v = inr h' ->
  (k = S_path -> hd_pPath h = false /\ hd_pPath h' = true /\ Some (rq_uri (hd_req h')) = Some v) /\
  (k <> S_path -> hd_pPath h' = hd_pPath h /\ Some (rq_uri (hd_req h')) = Some (rq_uri (hd_req h))).
Proof. intro HF. slot_tac HF. Qed.

Lemma slot_hpath h k v h' : header_field cfg h k v = inr h' ->
  (k = S_path -> hd_pPath h = false /\ hd_pPath h' = true /\ Some (hd_path h') = Some v) /\
  (k <> S_path -> hd_pPath h' = hd_pPath h /\ Some (hd_path h') = Some (hd_path h)).
Proof. intro HF. slot_tac HF. Qed.

Lemma slot_scheme h k v h' : header_field cfg h k v = inr h' ->
  (k = S_scheme -> hd_pScheme h = false /\ hd_pScheme h' = true /\ Some (rq_scheme (hd_req h')) = Some v) /\
  (k <> S_scheme -> hd_pScheme h' = hd_pScheme h /\ Some (rq_scheme (hd_req h')) = Some (rq_scheme (hd_req h))).
Proof. intro HF. slot_tac HF. Qed.

Lemma slot_authority h k v h' : header_field cfg h k v = inr h' ->
  (k = S_authority -> hd_pAuth h = false /\ hd_pAuth h' = true /\ rq_authority (hd_req h') = Some v) /\
  (k <> S_authority -> hd_pAuth h' = hd_pAuth h /\ rq_authority (hd_req h') = rq_authority (hd_req h)).
Proof. intro HF. slot_tac HF. Qed.

Definition is_some (o : option bytes) : bool := match o with Some _ => true | None => false end.

(* C01 (a), the pure part: a field list accepted field by field, starting with no pseudo-header seen, gives the
   request it spells; the flags say which pseudo-headers were present *)
Theorem hfold_request h fs hF : hfold cfg h fs = Some hF ->
  hd_pMethod h = false -> hd_pPath h = false -> hd_pScheme h = false -> hd_pAuth h = false ->
  hd_req hF = request_of (hd_req h) fs /\
  hd_pMethod hF = is_some (field_val S_method fs) /\ hd_pPath hF = is_some (field_val S_path fs) /\
  hd_pScheme hF = is_some (field_val S_scheme fs) /\ hd_pAuth hF = is_some (field_val S_authority fs) /\
  hd_path hF = opt_or (field_val S_path fs) (hd_path h).
Proof.
  intros HF M0 P0 S0 A0.
  destruct (hfold_fields _ _ _ HF) as [EF EB].
  destruct (slot_fold S_method hd_pMethod (fun x => Some (rq_method (hd_req x))) slot_method _ _ _ HF) as [_ SM].
  destruct (slot_fold S_path hd_pPath (fun x => Some (rq_uri (hd_req x))) slot_path _ _ _ HF) as [_ SP].
  destruct (slot_fold S_path hd_pPath (fun x => Some (hd_path x)) slot_hpath _ _ _ HF) as [_ SH].
  destruct (slot_fold S_scheme hd_pScheme (fun x => Some (rq_scheme (hd_req x))) slot_scheme _ _ _ HF) as [_ SS].
  destruct (slot_fold S_authority hd_pAuth (fun x => rq_authority (hd_req x)) slot_authority _ _ _ HF) as [_ SA].
  specialize (SM M0). specialize (SP P0). specialize (SH P0). specialize (SS S0). specialize (SA A0).
  unfold request_of.
  destruct (field_val S_method fs); destruct (field_val S_path fs); destruct (field_val S_scheme fs);
    destruct (field_val S_authority fs); cbn [opt_or is_some];
    destruct SM as [SM1 SM2]; destruct SP as [SP1 SP2]; destruct SH as [SH1 SH2]; destruct SS as [SS1 SS2]; destruct SA as [SA1 SA2];
    inversion SM1; inversion SP1; inversion SH1; inversion SS1;
    (split; [destruct (hd_req hF); cbn in *; congruence | repeat split; congruence]).
Qed.

(* trailers (and anything after a regular field): only regular fields are accepted, they are appended *)
Lemma hfold_regular fs : forall h hF, hfold cfg h fs = Some hF -> hd_regularSeen h = true ->
  regular_fields fs = fs /\ hd_req hF = mkReq (rq_method (hd_req h)) (rq_uri (hd_req h)) (rq_scheme (hd_req h))
                                           (rq_authority (hd_req h)) (rq_fields (hd_req h) ++ fs) (rq_body (hd_req h)) /\
  hd_pMethod hF = hd_pMethod h /\ hd_pPath hF = hd_pPath h /\ hd_pScheme hF = hd_pScheme h /\ hd_pAuth hF = hd_pAuth h /\
  hd_path hF = hd_path h.
Proof.
  induction fs as [|[k v] t IH]; intros h hF; cbn [hfold regular_fields filter fst].
  - intros H _. inversion H; subst. rewrite app_nil_r. destruct (hd_req hF); cbn. repeat split; reflexivity.
  - destruct (header_field cfg h k v) as [|h1] eqn:HF; [discriminate|]. intros H RS.
    destruct (header_field_accept _ _ _ _ HF) as [(PK & RQ & E1 & E2 & E3 & E4 & RS1 & E6)|(PK & RS0 & _)]; [|congruence].
    destruct (IH _ _ H RS1) as (R1 & R2 & F1 & F2 & F3 & F4 & F5).
    rewrite PK. cbn [negb]. fold (regular_fields t). rewrite R1. split; [reflexivity|].
    rewrite R2, RQ. cbn [rq_add_field rq_method rq_uri rq_scheme rq_authority rq_fields rq_body].
    rewrite <- app_assoc. cbn [app]. repeat split; congruence.
Qed.

End Req.

(* ---------- the steps of a request on its own stream (see also hf_out in Proofs/SrvIsoHdr.v for HEADERS /
   CONTINUATION: the stream's header state becomes hfold over the reference-decoded fields) ---------- *)
Section Own.
Set Default Proof Using "Type".
Variable hstate : Type.
Variable dec_field : hstate -> N -> bytes -> dec_res hstate.
Variable cfg : config.
Notation sconn := (sconn hstate).
Implicit Types c : sconn.

(* DATA on an open stream whose headers are complete, within the body limit: the payload (padding excluded) is
   appended to the body; the windows are credited for the whole frame (padding included) *)
Lemma handle_frame_data_ok c s fr :
  sf_kind fr = KData -> st_headersFinished s = true -> st_state s = SOpen ->
  ((0 <? cf_maxBody cfg) && (cf_maxBody cfg <? st_recvBody s + Z.of_N (len (sf_payload fr))))%Z = false ->
  handle_frame dec_field cfg c s fr =
  (consume_recv_window cfg c (set_recv s (st_recvBody s + Z.of_N (len (sf_payload fr)))%Z (rq_append_body (st_req s) (sf_payload fr)))
                       fr (Z.of_N (sf_len fr)),
   set_recv s (st_recvBody s + Z.of_N (len (sf_payload fr)))%Z (rq_append_body (st_req s) (sf_payload fr)), None).
Proof.
  intros K HF ST LIM. unfold handle_frame, verify_state. rewrite ST, K, HF. cbn [negb sstate_rank].
  change (3 <=? 2) with false. cbv zeta. rewrite LIM. reflexivity.
Qed.

(* the request is complete (the stream is half-closed (remote), its headers are finished, content-length agrees):
   the handler is started with exactly the request collected so far *)
Lemma after_frame_dispatch c s fr wc :
  st_state (handle_state fr s) = SHalfClosed -> st_headersFinished s = true -> st_responded s = false ->
  (st_hasCL s && negb (st_recvBody s =? st_contentLength s)%Z)%bool = false ->
  after_frame cfg c s fr wc =
  (let s2 := set_flags (set_flags (handle_state fr s) true (st_handlerRunning s) (st_abandoned s)) true true (st_abandoned s) in
   let c3 := put (note c (ODispatch (st_id s) (st_req s))) s2 in
   if wc && can_close_after_goaway c3 then brk c3 else cont c3).
Proof.
  intros HS HF R CL. unfold after_frame.
  assert (E : forall x, handle_state fr s = x -> st_headersFinished x = st_headersFinished s /\ st_responded x = st_responded s /\
              st_hasCL x = st_hasCL s /\ st_recvBody x = st_recvBody s /\ st_contentLength x = st_contentLength s /\
              st_id x = st_id s /\ st_req x = st_req s /\ st_handlerRunning x = st_handlerRunning s /\ st_abandoned x = st_abandoned s).
  { intros x <-. unfold handle_state. destruct (fkind_eqb _ _); cbn [set_state st_state];
    repeat match goal with
           | |- context [match st_state ?y with _ => _ end] => destruct (st_state y)
           | |- context [if ?b then _ else _] => destruct b
           end; repeat split. }
  destruct (E _ eq_refl) as (E1 & E2 & E3 & E4 & E5 & E6 & E7 & E8 & E9).
  set (s1 := handle_state fr s) in *.
  unfold sstate_eqb. rewrite HS, E1, E2, HF, R. cbn [sstate_rank negb andb]. change (3 =? 3) with true. cbn [andb].
  cbn [set_flags st_hasCL st_recvBody st_contentLength st_id st_req st_state st_handlerRunning st_abandoned].
  rewrite E3, E4, E5, CL, E6, E7, E8, E9.
  cbn [set_flags st_state]. rewrite HS. cbn [sstate_rank]. change (3 =? 4) with false. reflexivity.
Qed.

End Own.
