(* C03 (d): the specification is self-consistent. Decoding what any conforming encoder may emit
   gives the meaning of the representations it chose. The round trips of the primitive encodings
   are in Proofs/HpackEncSpecRT.v (specification level only); this file only adapts the
   hypothesis of the statement. *)
From Coq Require Import List NArith ZArith Bool Lia.
From H2V Require Import Base.Bytes Spec.Rfc7541Huffman Spec.Rfc7541 Impl.Hpack
     Proofs.HpackDefs Proofs.HpackEncSpecRT.
Import ListNotations.
Local Open Scope N_scope.

Lemma repr_wf_of_ok r : repr_ok r = true ->
  match r with
  | Literal _ nr _ _ v => len v < 2 ^ 32 /\ match nr with NameLit n => len n < 2 ^ 32 | _ => True end
  | _ => True
  end -> repr_wf r.
Proof.
  assert (P : 2 ^ 32 < 2 ^ 63) by (apply N.pow_lt_mono_r; lia).
  destruct r as [i | m [i | name] hname hval value | n]; cbn [repr_ok nameref_ok repr_wf]; intros Hok Hlen.
  - apply N.ltb_lt in Hok. lia.
  - apply andb_prop in Hok. destruct Hok as [Hi Hv]. apply andb_prop in Hi. destruct Hi as [H0 H1].
    apply N.ltb_lt in H0, H1. unfold str_wf. split; [lia|]. split; [exact Hv | tauto].
  - apply andb_prop in Hok. destruct Hok as [Hn Hv]. unfold str_wf. tauto.
  - apply N.ltb_lt in Hok. lia.
Qed.

Theorem spec_self_consistent : forall t rs, forallb repr_ok rs = true ->
  (forall r, In r rs -> match r with
                        | Literal _ nr _ _ v => len v < 2 ^ 32 /\ match nr with NameLit n => len n < 2 ^ 32 | _ => True end
                        | _ => True end) ->
  spec_decode_block t (spec_enc_block rs) = spec_sem t rs.
Proof.
  intros t rs Hok Hlen. apply spec_decode_enc_block. apply Forall_forall. intros r Hin.
  rewrite forallb_forall in Hok. apply repr_wf_of_ok; [apply Hok; exact Hin | apply Hlen; exact Hin].
Qed.
