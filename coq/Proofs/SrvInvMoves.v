(* Proofs/SrvInvMoves.v - every step of the stream loop is a sequence of a dozen primitive "moves".

   The stream loop's step functions (sl_frame, sl_done, sl_timer) are big; the structural invariants
   (slots, stream table, closed-stream ring, GOAWAY/last-stream-id, ownership of stream objects) only look at a
   few components of the connection.  Here each step function is decomposed ONCE into a sequence of moves, each
   with explicit premises; an invariant is then proved by a dozen small cases (one per move) instead of a walk
   through sl_frame.

   Tracked components ("core"): sc_strms sc_gone sc_open sc_ring sc_lastID sc_highestID sc_closing sc_closeRef sc_expectCont
   sc_readerQ sc_rl_done sc_sl_done sc_closer sc_wl_dead sc_now, and sc_out.
   Untracked (a `lite` move may change them at will): sc_initWin sc_oldest sc_clientWindow sc_currentWindow
   sc_enc sc_dec sc_discardID sc_discardFields; sc_discardPrev may change too, but only within the bound dp_ok
   (header bytes carried over <= MaxHeaderListSize). An error path that ends the loop is replayed as
   GOAWAY / panic note, break, and then one `mv_post` move (quiet_core: tracked components and output unchanged).
   This file: is_frame, sloc, same_core / lite / quiet_core, the error classes of the frame handlers (good_err,
   disc_err, sl_codes), and the lite / quiet lemmas of the helpers that never touch the tracked components.

   The section is generic in the HPACK coder and in a per-stream predicate Q (with closure hypotheses
   named HQ_xxx), so that value-level invariants of table streams ride along. *)
From H2V Require Import Base.Bytes Base.MachineInt Base.Result Gen.GenConsts Impl.ServerConn Proofs.SrvBase.
From Coq Require Import ZArith Lia ZifyN ZifyNat ZifyBool.
Local Open Scope N_scope.

(* outputs that are frames for the peer, GOAWAY excepted *)
Definition is_frame (o : outev) : Prop :=
  match o with
  | OHeaders _ _ _ | OData _ _ _ | ORst _ _ | OWinUpd _ _ | OSettingsAck | OPingAck _ => True
  | _ => False
  end.

(* what a write-back may not change in a table stream *)
Definition sloc (a b : stream) : Prop :=
  st_id b = st_id a /\ st_orig b = st_orig a /\ st_handlerRunning b = st_handlerRunning a /\
  (st_responded a = true -> st_responded b = true).

Lemma sloc_refl a : sloc a a.
Proof. repeat split; auto. Qed.
Lemma sloc_trans a b c : sloc a b -> sloc b c -> sloc a c.
Proof. intros (A1 & A2 & A3 & A4) (B1 & B2 & B3 & B4). repeat split; try congruence. auto. Qed.

(* the bound on header bytes carried over between two frames of a block *)
Definition dp_ok (cfg : config) (b : bytes) : Prop :=
  (0 < cf_maxHeaderList cfg -> Z.of_N (len b) <= cf_maxHeaderList cfg)%Z.

Lemma dp_ok_nil cfg : dp_ok cfg [].
Proof. unfold dp_ok. cbn. lia. Qed.
Lemma dp_ok_check cfg b :
  ((0 <? cf_maxHeaderList cfg) && (cf_maxHeaderList cfg <? Z.of_N (len b)))%Z = false -> dp_ok cfg b.
Proof.
  intros H HL. apply andb_false_iff in H. destruct H as [A|A]; apply Z.ltb_ge in A;
    [exfalso; apply (Z.lt_irrefl 0), (Z.lt_le_trans _ _ _ HL A) | exact A].
Qed.

Section Core.
Variable hstate : Type.
Variable cfg : config.
Notation sconn := (sconn hstate).
Implicit Types c : sconn.

Definition same_core (c c' : sconn) : Prop :=
  sc_strms c' = sc_strms c /\ sc_gone c' = sc_gone c /\ sc_open c' = sc_open c /\ sc_ring c' = sc_ring c /\
  sc_lastID c' = sc_lastID c /\ sc_highestID c' = sc_highestID c /\ sc_closing c' = sc_closing c /\ sc_closeRef c' = sc_closeRef c /\
  sc_expectCont c' = sc_expectCont c /\ sc_readerQ c' = sc_readerQ c /\ sc_rl_done c' = sc_rl_done c /\
  sc_sl_done c' = sc_sl_done c /\ sc_closer c' = sc_closer c /\ sc_wl_dead c' = sc_wl_dead c /\ sc_now c' = sc_now c.

(* a lite step: the tracked components stay, only frames are queued, and the carried-over bytes of a discarded block
   stay within the bound *)
Definition lite (c c' : sconn) : Prop :=
  same_core c c' /\ (exists l, sc_out c' = l ++ sc_out c /\ Forall is_frame l) /\
  (dp_ok cfg (sc_discardPrev c) -> dp_ok cfg (sc_discardPrev c')).

(* the same without the bound and without output: what an error path may leave behind before the loop ends *)
Definition quiet_core (c c' : sconn) : Prop := same_core c c' /\ sc_out c' = sc_out c.

Lemma same_core_refl c : same_core c c.
Proof. repeat split. Qed.
Lemma same_core_trans a b c : same_core a b -> same_core b c -> same_core a c.
Proof. unfold same_core. intros H1 H2. decompose [and] H1. decompose [and] H2. repeat split; congruence. Qed.

Lemma lite_refl c : lite c c.
Proof. split; [apply same_core_refl|]. split; [|auto]. exists []. split; [reflexivity | constructor]. Qed.
Lemma lite_trans a b c : lite a b -> lite b c -> lite a c.
Proof.
  intros (H1 & (l1 & E1 & F1) & D1) (H2 & (l2 & E2 & F2) & D2). split; [eapply same_core_trans; eassumption|].
  split; [|auto].
  exists (l2 ++ l1). split; [rewrite E2, E1, app_assoc; reflexivity | apply Forall_app; split; assumption].
Qed.
Lemma quiet_refl c : quiet_core c c.
Proof. split; [apply same_core_refl | reflexivity]. Qed.
Lemma quiet_trans a b c : quiet_core a b -> quiet_core b c -> quiet_core a c.
Proof. intros [H1 E1] [H2 E2]. split; [eapply same_core_trans; eassumption | congruence]. Qed.

Lemma lite_sl_done a b : lite a b -> sc_sl_done b = sc_sl_done a.
Proof. intros [H _]. unfold same_core in H. tauto. Qed.
Lemma lite_strms a b : lite a b -> sc_strms b = sc_strms a.
Proof. intros [H _]. unfold same_core in H. tauto. Qed.
Lemma lite_lastID a b : lite a b -> sc_lastID b = sc_lastID a.
Proof. intros [H _]. unfold same_core in H. tauto. Qed.
Lemma lite_highestID a b : lite a b -> sc_highestID b = sc_highestID a.
Proof. intros [H _]. unfold same_core in H. tauto. Qed.
Lemma lite_wl_dead a b : lite a b -> sc_wl_dead b = sc_wl_dead a.
Proof. intros [H _]. unfold same_core in H. tauto. Qed.
Lemma lite_closing a b : lite a b -> sc_closing b = sc_closing a.
Proof. intros [H _]. unfold same_core in H. tauto. Qed.
Lemma lite_ring a b : lite a b -> sc_ring b = sc_ring a.
Proof. intros [H _]. unfold same_core in H. tauto. Qed.
Lemma lite_open a b : lite a b -> sc_open b = sc_open a.
Proof. intros [H _]. unfold same_core in H. tauto. Qed.
Lemma lite_gone a b : lite a b -> sc_gone b = sc_gone a.
Proof. intros [H _]. unfold same_core in H. tauto. Qed.
Lemma lite_closeRef a b : lite a b -> sc_closeRef b = sc_closeRef a.
Proof. intros [H _]. unfold same_core in H. tauto. Qed.

(* a change of untracked components only *)
Lemma lite_core c c' : same_core c c' -> sc_out c' = sc_out c ->
  (dp_ok cfg (sc_discardPrev c) -> dp_ok cfg (sc_discardPrev c')) -> lite c c'.
Proof. intros H E D. split; [assumption|]. split; [|assumption]. exists []. split; [assumption | constructor]. Qed.

Lemma lite_out c c' : lite c c' -> exists l, sc_out c' = l ++ sc_out c /\ Forall is_frame l.
Proof. intros (_ & H & _). exact H. Qed.
Lemma lite_dp c c' : lite c c' -> dp_ok cfg (sc_discardPrev c) -> dp_ok cfg (sc_discardPrev c').
Proof. intros (_ & _ & H). exact H. Qed.

Lemma lite_emit c o : is_frame o -> sc_sl_done c = false -> lite c (emit c o).
Proof.
  intros Ho Hd. split; [|split].
  - unfold same_core. sc_rw. repeat split.
  - rewrite sc_out_emit, Hd. destruct (sc_wl_dead c).
    + exists []. split; [reflexivity | constructor].
    + exists [o]. split; [reflexivity | repeat constructor; assumption].
  - sc_rw. auto.
Qed.

End Core.
Arguments same_core {hstate}. Arguments lite {hstate}. Arguments quiet_core {hstate}.

Ltac core_tac := unfold same_core; sc_cbn; repeat split; reflexivity.
(* chain lite steps *)
Ltac lite_step := eapply lite_trans; [|].

(* ---------- which errors the frame handlers can return ---------- *)
Section Errs.
Variable hstate : Type.
Variable dec_field : hstate -> N -> bytes -> dec_res hstate.
Variable cfg : config.

(* the codes of the GOAWAYs the stream loop sends on its own account *)
Definition sl_codes : list N :=
  [c_ProtocolError; c_FlowControlError; c_StreamClosedError; c_CompressionError; c_EnhanceYourCalm; c_InternalError].

Lemma sl_codes_nonzero code : In code sl_codes -> (code =? c_NoError) = false.
Proof. cbn. intros [<-|[<-|[<-|[<-|[<-|[<-|[]]]]]]]; reflexivity. Qed.

(* a GOAWAY error carries one of these codes (never NO_ERROR); a panic comes from the HPACK decoder only *)
Definition good_err (e : h2err) : Prop :=
  match e with
  | EGoAway code => In code sl_codes
  | EReset _ => True
  | EPanic => exists d n b, dec_field d n b = DPanic hstate
  end.
Definition good_oerr (e : option h2err) : Prop := match e with Some e => good_err e | None => True end.
(* the errors of the discarding decoder: never a stream error *)
Definition disc_err (e : h2err) : Prop :=
  match e with
  | EGoAway code => In code sl_codes
  | EReset _ => False
  | EPanic => exists d n b, dec_field d n b = DPanic hstate
  end.
Definition disc_oerr (e : option h2err) : Prop := match e with Some e => disc_err e | None => True end.

Lemma disc_good e : disc_oerr e -> good_oerr e.
Proof. destruct e as [[| |]|]; cbn; tauto. Qed.

Lemma good_goaway code : existsb (N.eqb code) sl_codes = true -> good_err (EGoAway code).
Proof. intro H. apply existsb_exists in H. destruct H as (x & I & E). cbn [good_err]. replace code with x by lia. exact I. Qed.
Lemma disc_goaway code : existsb (N.eqb code) sl_codes = true -> disc_err (EGoAway code).
Proof. exact (good_goaway code). Qed.

Lemma header_field_err h k v e : header_field cfg h k v = inl e -> good_err e.
Proof.
  unfold header_field.
  repeat match goal with
         | |- (if ?b then _ else _) = _ -> _ => destruct b
         | |- match ?x with Some _ => _ | None => _ end = _ -> _ => destruct x
         | |- match (if ?b then _ else _) with inl _ => _ | inr _ => _ end = _ -> _ => destruct b
         | |- match match ?x with Some _ => _ | None => _ end with inl _ => _ | inr _ => _ end = _ -> _ => destruct x
         | |- (let (_, _) := ?p in _) = _ -> _ => destruct p
         end;
  intro H; inversion H; subst; try exact I; apply good_goaway; reflexivity.
Qed.

Lemma header_loop_err fuel : forall eh d h b d' h' e rest,
  header_loop dec_field fuel cfg eh d h b = (d', h', Some e, rest) -> good_err e.
Proof.
  induction fuel as [|fuel IH]; intros eh d h b d' h' e rest; cbn [header_loop].
  - intro H; inversion H; subst. apply good_goaway; reflexivity.
  - destruct b as [|b0 b]; [discriminate|].
    destruct (dec_field d (hd_blockFields h) (b0 :: b)) as [k v rest0 st|st|st|st|] eqn:D.
    + destruct (header_field cfg h k v) eqn:HF.
      * intro H; inversion H; subst. eapply header_field_err; eassumption.
      * apply IH.
    + discriminate.
    + destruct (negb eh); [discriminate|]. intro H; inversion H; subst. apply good_goaway; reflexivity.
    + intro H; inversion H; subst. apply good_goaway; reflexivity.
    + intro H; inversion H; subst. cbn. eauto.
Qed.

Lemma discard_loop_err fuel : forall eh d n b d' n' carry e,
  discard_loop dec_field fuel eh d n b = (d', n', carry, Some e) -> disc_err e.
Proof.
  induction fuel as [|fuel IH]; intros eh d n b d' n' carry e; cbn [discard_loop].
  - intro H; inversion H; subst. apply disc_goaway; reflexivity.
  - destruct b as [|b0 b]; [discriminate|].
    destruct (dec_field d n (b0 :: b)) as [k v rest0 st|st|st|st|] eqn:D.
    + apply IH.
    + discriminate.
    + destruct (negb eh); [discriminate|]. intro H; inversion H; subst. apply disc_goaway; reflexivity.
    + intro H; inversion H; subst. apply disc_goaway; reflexivity.
    + intro H; inversion H; subst. cbn. eauto.
Qed.

Lemma discard_fragment_err (c : sconn hstate) id frag eh : disc_oerr (snd (discard_fragment dec_field cfg c id frag eh)).
Proof.
  unfold discard_fragment.
  destruct (discard_loop dec_field _ eh (sc_dec c) (sc_discardFields c) _) as [[[d' fields] carry] e] eqn:DL.
  destruct e as [e|]; cbn [snd].
  - eapply discard_loop_err; eassumption.
  - destruct eh; cbn [snd]; [exact I|]. destruct (_ && _)%bool; cbn [snd]; [apply disc_goaway; reflexivity | exact I].
Qed.

Lemma discard_header_block_err (c : sconn hstate) fr : disc_oerr (snd (discard_header_block dec_field cfg c fr)).
Proof. unfold discard_header_block. apply discard_fragment_err. Qed.

Lemma handle_header_frame_err (c : sconn hstate) s fr : good_oerr (snd (handle_header_frame dec_field cfg c s fr)).
Proof.
  unfold handle_header_frame.
  destruct (_ && _)%bool; [apply good_goaway; reflexivity|]. destruct (_ && _)%bool; [apply good_goaway; reflexivity|].
  destruct (header_loop dec_field _ cfg _ (sc_dec c) _ _) as [[[d' h2] e] rest] eqn:HL.
  destruct e as [e|].
  - pose proof (header_loop_err _ _ _ _ _ _ _ _ _ HL) as G.
    destruct e as [code|code|]; cbn [snd]; try exact G.
    match goal with |- context [discard_fragment ?a ?b ?c0 ?d ?e ?f] =>
      pose proof (disc_good _ (discard_fragment_err c0 d e f)) as L; destruct (discard_fragment a b c0 d e f) as [c3 [de|]] end;
    cbn [snd] in *; [exact L | exact I].
  - destruct (_ && _)%bool; cbn [snd]; [apply good_goaway; reflexivity | exact I].
Qed.

Lemma verify_state_err s fr e : verify_state s fr = Some e -> good_err e.
Proof.
  unfold verify_state. destruct (st_state s); try discriminate;
  repeat match goal with |- (if ?b then _ else _) = _ -> _ => destruct b end;
  intro H; inversion H; subst; apply good_goaway; reflexivity.
Qed.

Lemma handle_frame_err (c : sconn hstate) s fr : good_oerr (snd (handle_frame dec_field cfg c s fr)).
Proof.
  unfold handle_frame. destruct (verify_state s fr) eqn:V; [eapply verify_state_err; eassumption|].
  pose proof (handle_header_frame_err c s fr) as LH.
  match goal with |- context [match sf_kind fr with KHeaders => ?X | _ => _ end] => set (hb := X) end.
  assert (HH : good_oerr (snd hb)).
  { subst hb. destruct (_ && _)%bool; [apply good_goaway; reflexivity|].
    destruct (handle_header_frame dec_field cfg c s fr) as [[c1 s1] e]. cbn [snd] in LH.
    destruct e; [exact LH|]. destruct (flag_has (sf_flags fr) FL_EH); [|exact I].
    cbv zeta. destruct (negb _); [apply good_goaway; reflexivity|].
    unfold validate_request_pseudo_headers.
    destruct (_ || _)%bool; [exact I|]. destruct (st_path _); exact I. }
  clearbody hb.
  destruct (sf_kind fr); try exact HH; try (apply good_goaway; reflexivity);
  repeat match goal with |- context [if ?b then _ else _] => destruct b end; cbn [snd good_oerr good_err];
  try exact I; apply good_goaway; reflexivity.
Qed.

End Errs.
Arguments good_err {hstate}. Arguments good_oerr {hstate}. Arguments disc_err {hstate}. Arguments disc_oerr {hstate}.
Ltac in_codes := cbn [sl_codes In]; tauto.

Section Lite.
Variable hstate : Type.
Variable dec_field : hstate -> N -> bytes -> dec_res hstate.
Variable enc_field : hstate -> bytes -> bytes -> bool -> bytes * hstate.
Variable enc_set_max : hstate -> N -> hstate.
Variable cfg : config.
Notation sconn := (sconn hstate).
Notation lite := (lite cfg).
Implicit Types c : sconn.

Lemma lite_upd_dec c d : lite c (upd_dec c d).
Proof. apply lite_core; [core_tac | reflexivity | auto]. Qed.
Lemma lite_upd_enc c d : lite c (upd_enc c d).
Proof. apply lite_core; [core_tac | reflexivity | auto]. Qed.
Lemma lite_upd_discard c a b n : dp_ok cfg b -> lite c (upd_discard c a b n).
Proof. intro D. apply lite_core; [core_tac | reflexivity | auto]. Qed.
Lemma quiet_upd_discard c a b n : quiet_core c (upd_discard c a b n).
Proof. split; [core_tac | reflexivity]. Qed.
Lemma quiet_upd_dec c d : quiet_core c (upd_dec c d).
Proof. split; [core_tac | reflexivity]. Qed.
Lemma lite_upd_clientWindow c n : lite c (upd_clientWindow c n).
Proof. apply lite_core; [core_tac | reflexivity | auto]. Qed.
Lemma lite_upd_currentWindow c n : lite c (upd_currentWindow c n).
Proof. apply lite_core; [core_tac | reflexivity | auto]. Qed.
Lemma lite_upd_initWin c n : lite c (upd_initWin c n).
Proof. apply lite_core; [core_tac | reflexivity | auto]. Qed.

Lemma lite_write_reset c sid code : sc_sl_done c = false -> lite c (write_reset c sid code).
Proof. intro H. apply lite_emit; [exact I | assumption]. Qed.

Lemma lite_write_window_update c sid inc : sc_sl_done c = false -> lite c (write_window_update c sid inc).
Proof. intro H. apply lite_emit; [exact I | assumption]. Qed.

Lemma lite_credit_conn_window c n : sc_sl_done c = false -> lite c (credit_conn_window cfg c n).
Proof.
  intro H. unfold credit_conn_window. destruct (n <=? 0)%Z; [apply lite_refl|].
  destruct (_ <? _)%Z.
  - eapply lite_trans; [apply lite_upd_currentWindow|]. apply lite_write_window_update. exact H.
  - apply lite_upd_currentWindow.
Qed.

Lemma lite_consume_recv_window c s fr n : sc_sl_done c = false -> lite c (consume_recv_window cfg c s fr n).
Proof.
  intro H. unfold consume_recv_window. destruct (n <=? 0)%Z; [apply lite_refl|].
  destruct (flag_has (sf_flags fr) FL_ES).
  - apply lite_credit_conn_window. exact H.
  - eapply lite_trans; [apply lite_write_window_update; exact H|].
    apply lite_credit_conn_window. unfold write_window_update. rewrite sc_sl_done_emit. exact H.
Qed.

Lemma quiet_discard_fragment c id frag eh : quiet_core c (fst (discard_fragment dec_field cfg c id frag eh)).
Proof.
  unfold discard_fragment.
  destruct (discard_loop dec_field _ eh (sc_dec c) (sc_discardFields c) _) as [[[d' fields] carry] e].
  destruct e as [e|]; [|destruct eh; [|destruct (_ && _)%bool]]; cbn [fst];
    (eapply quiet_trans; [apply quiet_upd_dec | apply quiet_upd_discard]).
Qed.

(* without an error, what is stored is within the bound *)
Lemma lite_discard_fragment c id frag eh :
  snd (discard_fragment dec_field cfg c id frag eh) = None -> lite c (fst (discard_fragment dec_field cfg c id frag eh)).
Proof.
  unfold discard_fragment.
  destruct (discard_loop dec_field _ eh (sc_dec c) (sc_discardFields c) _) as [[[d' fields] carry] e].
  destruct e as [e|]; [discriminate|].
  destruct eh; cbn [fst snd].
  - intros _. eapply lite_trans; [apply lite_upd_dec | apply lite_upd_discard, dp_ok_nil].
  - destruct (_ && _)%bool eqn:Lim; cbn [fst snd]; [discriminate|]. intros _.
    eapply lite_trans; [apply lite_upd_dec | apply lite_upd_discard, dp_ok_check; exact Lim].
Qed.

Lemma quiet_discard_header_block c fr : quiet_core c (fst (discard_header_block dec_field cfg c fr)).
Proof.
  unfold discard_header_block. destruct (fkind_eqb (sf_kind fr) KCont); [apply quiet_discard_fragment|].
  eapply quiet_trans; [apply quiet_upd_discard | apply quiet_discard_fragment].
Qed.

Lemma lite_discard_header_block c fr :
  snd (discard_header_block dec_field cfg c fr) = None -> lite c (fst (discard_header_block dec_field cfg c fr)).
Proof.
  unfold discard_header_block. destruct (fkind_eqb (sf_kind fr) KCont); [apply lite_discard_fragment|].
  intro H. eapply lite_trans; [apply lite_upd_discard, dp_ok_nil | apply lite_discard_fragment; exact H].
Qed.

(* a frame handler's error that does not end the connection *)
Definition soft_err (e : option h2err) : Prop := match e with None | Some (EReset _) => True | _ => False end.

Lemma quiet_handle_header_frame c s fr : quiet_core c (fst (fst (handle_header_frame dec_field cfg c s fr))).
Proof.
  unfold handle_header_frame.
  destruct (_ && _)%bool; [apply quiet_refl|]. destruct (_ && _)%bool; [apply quiet_refl|].
  destruct (header_loop dec_field _ cfg _ (sc_dec c) _ _) as [[[d' h2] e] rest].
  destruct e as [[code|code|]|].
  - cbn [fst]. apply quiet_upd_dec.
  - match goal with |- context [discard_fragment ?a ?b ?c0 ?d ?e ?f] =>
      pose proof (quiet_discard_fragment c0 d e f) as L; destruct (discard_fragment a b c0 d e f) as [c3 [de|]] end;
    cbn [fst] in *; (eapply quiet_trans; [apply quiet_upd_dec|]; eapply quiet_trans; [apply quiet_upd_discard | exact L]).
  - cbn [fst]. apply quiet_upd_dec.
  - destruct (_ && _)%bool; cbn [fst]; apply quiet_upd_dec.
Qed.

Lemma lite_handle_header_frame c s fr :
  soft_err (snd (handle_header_frame dec_field cfg c s fr)) ->
  lite c (fst (fst (handle_header_frame dec_field cfg c s fr))).
Proof.
  unfold handle_header_frame.
  destruct (_ && _)%bool; [intros _; apply lite_refl|]. destruct (_ && _)%bool; [intros _; apply lite_refl|].
  destruct (header_loop dec_field _ cfg _ (sc_dec c) _ _) as [[[d' h2] e] rest].
  destruct e as [[code|code|]|].
  - cbn [fst snd]. intros _. apply lite_upd_dec.
  - match goal with |- context [discard_fragment ?a ?b ?c0 ?d ?e ?f] =>
      pose proof (lite_discard_fragment c0 d e f) as L; pose proof (discard_fragment_err _ dec_field cfg c0 d e f) as DE;
      destruct (discard_fragment a b c0 d e f) as [c3 [de|]] end;
    cbn [fst snd disc_oerr] in *.
    + (* the discarding decoder failed: that error is returned, and it is never a stream error *)
      intro SE. exfalso. destruct de; cbn in SE, DE; contradiction.
    + intros _. eapply lite_trans; [apply lite_upd_dec|]. eapply lite_trans; [apply lite_upd_discard, dp_ok_nil | exact (L eq_refl)].
  - cbn [fst snd]. intros _. apply lite_upd_dec.
  - destruct (_ && _)%bool; cbn [fst snd]; intros _; apply lite_upd_dec.
Qed.

(* the frame handler's shape, shared by the next two lemmas: P holds of handle_frame's connection when it holds of
   the kinds of result *)
Lemma handle_frame_conn (P : sconn -> option h2err -> Prop) c s fr :
  (forall e, P c e) ->
  (let r := handle_header_frame dec_field cfg c s fr in
   forall e, (e = snd r \/ snd r = None) -> P (fst (fst r)) e) ->
  (P (credit_conn_window cfg c (Z.of_N (sf_len fr))) (Some (EReset c_EnhanceYourCalm))) ->
  (forall s1, P (consume_recv_window cfg c s1 fr (Z.of_N (sf_len fr))) None) ->
  P (fst (fst (handle_frame dec_field cfg c s fr))) (snd (handle_frame dec_field cfg c s fr)).
Proof.
  intros PC PH PD1 PD2. unfold handle_frame. destruct (verify_state s fr); [apply PC|].
  match goal with |- context [match sf_kind fr with KHeaders => ?X | _ => _ end] => set (hb := X) end.
  assert (HH : P (fst (fst hb)) (snd hb)).
  { subst hb. destruct (_ && _)%bool; [apply PC|]. cbv zeta in PH.
    destruct (handle_header_frame dec_field cfg c s fr) as [[c1 s1] e]. cbn [fst snd] in PH.
    destruct e; [apply PH; left; reflexivity|]. destruct (flag_has (sf_flags fr) FL_EH); [|apply PH; auto].
    cbv zeta. destruct (negb _); [apply PH; auto|].
    destruct (validate_request_pseudo_headers _); cbn [fst snd]; apply PH; auto. }
  clearbody hb.
  destruct (sf_kind fr); try apply PC; try exact HH.
  - destruct (negb _); [apply PC|]. destruct (3 <=? _); [apply PC|].
    destruct (_ && _)%bool; cbn [fst snd]; [apply PD1 | apply PD2].
  - destruct (_ && _)%bool; [apply PC|]. destruct (_ =? _); apply PC.
  - destruct (sstate_eqb _ _); apply PC.
  - destruct (sstate_eqb _ _); [apply PC|]. destruct (_ =? _); [apply PC|].
    destruct (_ <? _)%Z; apply PC.
Qed.

Lemma lite_handle_frame c s fr : sc_sl_done c = false ->
  soft_err (snd (handle_frame dec_field cfg c s fr)) -> lite c (fst (fst (handle_frame dec_field cfg c s fr))).
Proof.
  intro Hd. apply (handle_frame_conn (fun c' e => soft_err e -> lite c c')).
  - intros e _. apply lite_refl.
  - cbv zeta. intros e [-> | E] SE; apply lite_handle_header_frame; [exact SE | rewrite E; exact I].
  - intros _. apply lite_credit_conn_window. exact Hd.
  - intros s1 _. apply lite_consume_recv_window. exact Hd.
Qed.

(* an error that ends the connection leaves no output behind *)
Lemma quiet_handle_frame c s fr :
  ~ soft_err (snd (handle_frame dec_field cfg c s fr)) -> quiet_core c (fst (fst (handle_frame dec_field cfg c s fr))).
Proof.
  apply (handle_frame_conn (fun c' e => ~ soft_err e -> quiet_core c c')).
  - intros e _. apply quiet_refl.
  - cbv zeta. intros e _ _. apply quiet_handle_header_frame.
  - intro H. exfalso. apply H. exact I.
  - intros s1 H. exfalso. apply H. exact I.
Qed.

Lemma lite_send_data_loop fuel : forall c sid n, sc_sl_done c = false ->
  lite c (fst (fst (fst (send_data_loop fuel c sid n)))).
Proof.
  induction fuel as [|fuel IH]; intros c sid n Hd; cbn [send_data_loop]; [apply lite_refl|].
  assert (GO : forall c0 n0, sc_sl_done c0 = false -> lite c0 (fst (fst (fst
     (let avail := zmin (sn_window n0) (sc_clientWindow c0) in
      if (avail <=? 0)%Z then (c0, n0, false, false)
      else
        let step := zmin (zmin (Z.of_N maxDataFrameSize) avail) (Z.of_N (len (sn_pending n0))) in
        let chunk := takeN (Z.to_N step) (sn_pending n0) in
        let rest := dropN (Z.to_N step) (sn_pending n0) in
        let e := sn_pendingEnd n0 && match rest with [] => true | _ => false end in
        let c1 := emit c0 (OData sid e chunk) in
        let c2 := upd_clientWindow c1 (sc_clientWindow c1 - step) in
        let n' := mkSnd (sn_window n0 - step) rest (sn_pendingEnd n0) (sn_bodyStream n0) (sn_bodySize n0) (sn_bodyRead n0) in
        if e then (c2, n', true, false) else send_data_loop fuel c2 sid n'))))).
  { intros c0 n0 H0. cbv zeta. destruct (_ <=? 0)%Z; [apply lite_refl|].
    match goal with |- context [emit c0 ?o] => set (oo := o) end.
    assert (L1 : lite c0 (upd_clientWindow (emit c0 oo)
       (sc_clientWindow (emit c0 oo) - zmin (zmin (Z.of_N maxDataFrameSize) (zmin (sn_window n0) (sc_clientWindow c0))) (Z.of_N (len (sn_pending n0)))))).
    { eapply lite_trans; [apply (lite_emit _ cfg c0 oo I H0) | apply lite_upd_clientWindow]. }
    destruct (_ && _)%bool; cbn [fst]; [exact L1|].
    eapply lite_trans; [exact L1|]. apply IH. sc_cbn. rewrite sc_sl_done_emit. exact H0. }
  destruct (sn_pending n) eqn:EP.
  - destruct (sn_bodyStream n); [|apply lite_refl].
    destruct (refill_pending n) as [n1|].
    + destruct (sn_pending n1) eqn:EP1.
      * cbn [fst]. destruct (sn_pendingEnd n1); [apply lite_emit; [exact I | exact Hd] | apply lite_refl].
      * rewrite <- EP1. apply GO. exact Hd.
    + cbn [fst]. apply lite_write_reset. exact Hd.
  - rewrite <- EP. apply GO. exact Hd.
Qed.

Lemma lite_send_data c s : sc_sl_done c = false -> lite c (fst (fst (send_data c s))).
Proof.
  intro Hd. unfold send_data.
  pose proof (lite_send_data_loop (send_data_fuel (get_snd s)) c (st_id s) (get_snd s) Hd) as L.
  destruct (send_data_loop _ c (st_id s) (get_snd s)) as [[[c1 n1] dn] wr]. exact L.
Qed.

Lemma lite_finish_request c s r : sc_sl_done c = false -> lite c (fst (fst (finish_request enc_field c s r))).
Proof.
  intro Hd. unfold finish_request. destruct (response_block enc_field (sc_enc c) r) as [blk e'].
  match goal with |- context [emit (upd_enc c e') ?o] => set (oo := o) end.
  assert (L1 : lite c (emit (upd_enc c e') oo)).
  { eapply lite_trans; [apply lite_upd_enc | apply (lite_emit _ cfg (upd_enc c e') oo I Hd)]. }
  destruct (negb _); [exact L1|].
  eapply lite_trans; [exact L1 | apply lite_send_data]. rewrite sc_sl_done_emit. exact Hd.
Qed.

End Lite.
