(* Proofs/SrvInvMoves.v - every step of the stream loop is a sequence of a dozen primitive "moves".

   The stream loop's step functions (sl_frame, sl_done, sl_timer) are big; the structural invariants
   (slots, stream table, closed-stream ring, GOAWAY/last-stream-id, ownership of stream objects) only look at a
   few components of the connection.  Here each step function is decomposed ONCE into a sequence of moves, each
   with explicit premises; an invariant is then proved by a dozen small cases (one per move) instead of a walk
   through sl_frame.

   Tracked components ("core"): sc_strms sc_gone sc_open sc_ring sc_lastID sc_highestID sc_closing sc_closeRef sc_expectCont
   sc_readerQ sc_rl_done sc_sl_done sc_closer sc_wl_dead sc_now, and sc_out.
   Untracked (a `lite` move may change them at will): sc_initWin sc_oldest sc_clientWindow sc_currentWindow
   sc_enc sc_dec sc_discardID sc_discardPrev sc_discardFields.

   The section is generic in the HPACK coder and in a per-stream predicate Q (with closure hypotheses
   named HQ_xxx), so that value-level invariants of table streams ride along. *)
From H2V Require Import Base.Bytes Base.MachineInt Base.Result Gen.GenConsts Impl.ServerConn Proofs.SrvBase.
From Coq Require Import ZArith Lia ZifyN ZifyNat ZifyBool.
Local Open Scope N_scope.

(* outputs that are frames for the peer, GOAWAY excepted *)
Definition is_frame (o : outev) : Prop :=
  match o with
  | OHeaders _ _ _ | OData _ _ _ | ORst _ _ | OWinUpd _ _ | OSettingsAck | OPingAck _ => True
  | _ => False
  end.

(* what a write-back may not change in a table stream *)
Definition sloc (a b : stream) : Prop :=
  st_id b = st_id a /\ st_orig b = st_orig a /\ st_handlerRunning b = st_handlerRunning a /\
  (st_responded a = true -> st_responded b = true).

Lemma sloc_refl a : sloc a a.
Proof. repeat split; auto. Qed.
Lemma sloc_trans a b c : sloc a b -> sloc b c -> sloc a c.
Proof. intros (A1 & A2 & A3 & A4) (B1 & B2 & B3 & B4). repeat split; try congruence. auto. Qed.

Section Core.
Variable hstate : Type.
Notation sconn := (sconn hstate).
Implicit Types c : sconn.

Definition same_core (c c' : sconn) : Prop :=
  sc_strms c' = sc_strms c /\ sc_gone c' = sc_gone c /\ sc_open c' = sc_open c /\ sc_ring c' = sc_ring c /\
  sc_lastID c' = sc_lastID c /\ sc_highestID c' = sc_highestID c /\ sc_closing c' = sc_closing c /\ sc_closeRef c' = sc_closeRef c /\
  sc_expectCont c' = sc_expectCont c /\ sc_readerQ c' = sc_readerQ c /\ sc_rl_done c' = sc_rl_done c /\
  sc_sl_done c' = sc_sl_done c /\ sc_closer c' = sc_closer c /\ sc_wl_dead c' = sc_wl_dead c /\ sc_now c' = sc_now c.

Definition lite (c c' : sconn) : Prop :=
  same_core c c' /\ exists l, sc_out c' = l ++ sc_out c /\ Forall is_frame l.

Lemma same_core_refl c : same_core c c.
Proof. repeat split. Qed.
Lemma same_core_trans a b c : same_core a b -> same_core b c -> same_core a c.
Proof. unfold same_core. intros H1 H2. decompose [and] H1. decompose [and] H2. repeat split; congruence. Qed.

Lemma lite_refl c : lite c c.
Proof. split; [apply same_core_refl|]. exists []. split; [reflexivity | constructor]. Qed.
Lemma lite_trans a b c : lite a b -> lite b c -> lite a c.
Proof.
  intros [H1 (l1 & E1 & F1)] [H2 (l2 & E2 & F2)]. split; [eapply same_core_trans; eassumption|].
  exists (l2 ++ l1). split; [rewrite E2, E1, app_assoc; reflexivity | apply Forall_app; split; assumption].
Qed.

Lemma lite_sl_done a b : lite a b -> sc_sl_done b = sc_sl_done a.
Proof. intros [H _]. unfold same_core in H. tauto. Qed.
Lemma lite_strms a b : lite a b -> sc_strms b = sc_strms a.
Proof. intros [H _]. unfold same_core in H. tauto. Qed.
Lemma lite_lastID a b : lite a b -> sc_lastID b = sc_lastID a.
Proof. intros [H _]. unfold same_core in H. tauto. Qed.
Lemma lite_highestID a b : lite a b -> sc_highestID b = sc_highestID a.
Proof. intros [H _]. unfold same_core in H. tauto. Qed.
Lemma lite_wl_dead a b : lite a b -> sc_wl_dead b = sc_wl_dead a.
Proof. intros [H _]. unfold same_core in H. tauto. Qed.
Lemma lite_closing a b : lite a b -> sc_closing b = sc_closing a.
Proof. intros [H _]. unfold same_core in H. tauto. Qed.
Lemma lite_ring a b : lite a b -> sc_ring b = sc_ring a.
Proof. intros [H _]. unfold same_core in H. tauto. Qed.
Lemma lite_open a b : lite a b -> sc_open b = sc_open a.
Proof. intros [H _]. unfold same_core in H. tauto. Qed.
Lemma lite_gone a b : lite a b -> sc_gone b = sc_gone a.
Proof. intros [H _]. unfold same_core in H. tauto. Qed.
Lemma lite_closeRef a b : lite a b -> sc_closeRef b = sc_closeRef a.
Proof. intros [H _]. unfold same_core in H. tauto. Qed.

(* a change of untracked components only *)
Lemma lite_core c c' : same_core c c' -> sc_out c' = sc_out c -> lite c c'.
Proof. intros H E. split; [assumption|]. exists []. split; [assumption | constructor]. Qed.

Lemma lite_emit c o : is_frame o -> sc_sl_done c = false -> lite c (emit c o).
Proof.
  intros Ho Hd. split.
  - unfold same_core. sc_rw. repeat split.
  - rewrite sc_out_emit, Hd. destruct (sc_wl_dead c).
    + exists []. split; [reflexivity | constructor].
    + exists [o]. split; [reflexivity | repeat constructor; assumption].
Qed.

End Core.
Arguments same_core {hstate}. Arguments lite {hstate}.

Ltac core_tac := unfold same_core; sc_cbn; repeat split; reflexivity.
(* chain lite steps *)
Ltac lite_step := eapply lite_trans; [|].

Section Lite.
Variable hstate : Type.
Variable dec_field : hstate -> N -> bytes -> dec_res hstate.
Variable enc_field : hstate -> bytes -> bytes -> bool -> bytes * hstate.
Variable enc_set_max : hstate -> N -> hstate.
Variable cfg : config.
Notation sconn := (sconn hstate).
Implicit Types c : sconn.

Lemma lite_upd_dec c d : lite c (upd_dec c d).
Proof. apply lite_core; [core_tac | reflexivity]. Qed.
Lemma lite_upd_enc c d : lite c (upd_enc c d).
Proof. apply lite_core; [core_tac | reflexivity]. Qed.
Lemma lite_upd_discard c a b n : lite c (upd_discard c a b n).
Proof. apply lite_core; [core_tac | reflexivity]. Qed.
Lemma lite_upd_clientWindow c n : lite c (upd_clientWindow c n).
Proof. apply lite_core; [core_tac | reflexivity]. Qed.
Lemma lite_upd_currentWindow c n : lite c (upd_currentWindow c n).
Proof. apply lite_core; [core_tac | reflexivity]. Qed.
Lemma lite_upd_initWin c n : lite c (upd_initWin c n).
Proof. apply lite_core; [core_tac | reflexivity]. Qed.

Lemma lite_write_reset c sid code : sc_sl_done c = false -> lite c (write_reset c sid code).
Proof. intro H. apply lite_emit; [exact I | assumption]. Qed.

Lemma lite_write_window_update c sid inc : sc_sl_done c = false -> lite c (write_window_update c sid inc).
Proof. intro H. apply lite_emit; [exact I | assumption]. Qed.

Lemma lite_credit_conn_window c n : sc_sl_done c = false -> lite c (credit_conn_window cfg c n).
Proof.
  intro H. unfold credit_conn_window. destruct (n <=? 0)%Z; [apply lite_refl|].
  destruct (_ <? _)%Z.
  - eapply lite_trans; [apply lite_upd_currentWindow|]. apply lite_write_window_update. exact H.
  - apply lite_upd_currentWindow.
Qed.

Lemma lite_consume_recv_window c s fr n : sc_sl_done c = false -> lite c (consume_recv_window cfg c s fr n).
Proof.
  intro H. unfold consume_recv_window. destruct (n <=? 0)%Z; [apply lite_refl|].
  destruct (flag_has (sf_flags fr) FL_ES).
  - apply lite_credit_conn_window. exact H.
  - eapply lite_trans; [apply lite_write_window_update; exact H|].
    apply lite_credit_conn_window. unfold write_window_update. rewrite sc_sl_done_emit. exact H.
Qed.

Lemma lite_discard_fragment c id frag eh : lite c (fst (discard_fragment dec_field cfg c id frag eh)).
Proof.
  unfold discard_fragment.
  destruct (discard_loop dec_field _ eh (sc_dec c) (sc_discardFields c) _) as [[[d' fields] carry] e].
  destruct e as [e|].
  - cbn [fst]. eapply lite_trans; [apply lite_upd_dec | apply lite_upd_discard].
  - destruct eh; cbn [fst].
    + eapply lite_trans; [apply lite_upd_dec | apply lite_upd_discard].
    + destruct (_ && _)%bool; cbn [fst]; (eapply lite_trans; [apply lite_upd_dec | apply lite_upd_discard]).
Qed.

Lemma lite_discard_header_block c fr : lite c (fst (discard_header_block dec_field cfg c fr)).
Proof.
  unfold discard_header_block. destruct (fkind_eqb (sf_kind fr) KCont); [apply lite_discard_fragment|].
  eapply lite_trans; [apply lite_upd_discard | apply lite_discard_fragment].
Qed.

Lemma lite_handle_header_frame c s fr : lite c (fst (fst (handle_header_frame dec_field cfg c s fr))).
Proof.
  unfold handle_header_frame.
  destruct (_ && _)%bool; [apply lite_refl|]. destruct (_ && _)%bool; [apply lite_refl|].
  destruct (header_loop dec_field _ cfg _ (sc_dec c) _ _) as [[[d' h2] e] rest].
  destruct e as [[code|code|]|].
  - cbn [fst]. apply lite_upd_dec.
  - match goal with |- context [discard_fragment ?a ?b ?c0 ?d ?e ?f] =>
      pose proof (lite_discard_fragment c0 d e f) as L; destruct (discard_fragment a b c0 d e f) as [c3 [de|]] end;
    cbn [fst] in *; (eapply lite_trans; [apply lite_upd_dec|]; eapply lite_trans; [apply lite_upd_discard | exact L]).
  - cbn [fst]. apply lite_upd_dec.
  - destruct (_ && _)%bool; cbn [fst]; apply lite_upd_dec.
Qed.

Lemma lite_handle_frame c s fr : sc_sl_done c = false -> lite c (fst (fst (handle_frame dec_field cfg c s fr))).
Proof.
  intro Hd. unfold handle_frame. destruct (verify_state s fr); [apply lite_refl|].
  pose proof (lite_handle_header_frame c s fr) as LH.
  match goal with |- context [match sf_kind fr with KHeaders => ?X | _ => _ end] => set (hb := X) end.
  assert (HH : lite c (fst (fst hb))).
  { subst hb. destruct (_ && _)%bool; [apply lite_refl|].
    destruct (handle_header_frame dec_field cfg c s fr) as [[c1 s1] e]. cbn [fst] in LH.
    destruct e; [exact LH|]. destruct (flag_has (sf_flags fr) FL_EH); [|exact LH].
    cbv zeta. destruct (negb _); [exact LH|]. destruct (validate_request_pseudo_headers _); exact LH. }
  clearbody hb.
  destruct (sf_kind fr); try apply lite_refl; try exact HH.
  - (* DATA *)
    destruct (negb _); [apply lite_refl|]. destruct (3 <=? _); [apply lite_refl|].
    destruct (_ && _)%bool; cbn [fst].
    + apply lite_credit_conn_window. exact Hd.
    + apply lite_consume_recv_window. exact Hd.
  - destruct (_ && _)%bool; [apply lite_refl|]. destruct (_ =? _); apply lite_refl.
  - destruct (sstate_eqb _ _); apply lite_refl.
  - destruct (sstate_eqb _ _); [apply lite_refl|]. destruct (_ =? _); [apply lite_refl|].
    destruct (_ <? _)%Z; apply lite_refl.
Qed.

Lemma lite_send_data_loop fuel : forall c sid n, sc_sl_done c = false ->
  lite c (fst (fst (fst (send_data_loop fuel c sid n)))).
Proof.
  induction fuel as [|fuel IH]; intros c sid n Hd; cbn [send_data_loop]; [apply lite_refl|].
  assert (GO : forall c0 n0, sc_sl_done c0 = false -> lite c0 (fst (fst (fst
     (let avail := zmin (sn_window n0) (sc_clientWindow c0) in
      if (avail <=? 0)%Z then (c0, n0, false, false)
      else
        let step := zmin (zmin (Z.of_N maxDataFrameSize) avail) (Z.of_N (len (sn_pending n0))) in
        let chunk := takeN (Z.to_N step) (sn_pending n0) in
        let rest := dropN (Z.to_N step) (sn_pending n0) in
        let e := sn_pendingEnd n0 && match rest with [] => true | _ => false end in
        let c1 := emit c0 (OData sid e chunk) in
        let c2 := upd_clientWindow c1 (sc_clientWindow c1 - step) in
        let n' := mkSnd (sn_window n0 - step) rest (sn_pendingEnd n0) (sn_bodyStream n0) (sn_bodySize n0) (sn_bodyRead n0) in
        if e then (c2, n', true, false) else send_data_loop fuel c2 sid n'))))).
  { intros c0 n0 H0. cbv zeta. destruct (_ <=? 0)%Z; [apply lite_refl|].
    match goal with |- context [emit c0 ?o] => set (oo := o) end.
    assert (L1 : lite c0 (upd_clientWindow (emit c0 oo)
       (sc_clientWindow (emit c0 oo) - zmin (zmin (Z.of_N maxDataFrameSize) (zmin (sn_window n0) (sc_clientWindow c0))) (Z.of_N (len (sn_pending n0)))))).
    { eapply lite_trans; [apply (lite_emit _ c0 oo I H0) | apply lite_upd_clientWindow]. }
    destruct (_ && _)%bool; cbn [fst]; [exact L1|].
    eapply lite_trans; [exact L1|]. apply IH. sc_cbn. rewrite sc_sl_done_emit. exact H0. }
  destruct (sn_pending n) eqn:EP.
  - destruct (sn_bodyStream n); [|apply lite_refl].
    destruct (refill_pending n) as [n1|].
    + destruct (sn_pending n1) eqn:EP1.
      * cbn [fst]. destruct (sn_pendingEnd n1); [apply lite_emit; [exact I | exact Hd] | apply lite_refl].
      * rewrite <- EP1. apply GO. exact Hd.
    + cbn [fst]. apply lite_write_reset. exact Hd.
  - rewrite <- EP. apply GO. exact Hd.
Qed.

Lemma lite_send_data c s : sc_sl_done c = false -> lite c (fst (fst (send_data c s))).
Proof.
  intro Hd. unfold send_data.
  pose proof (lite_send_data_loop (send_data_fuel (get_snd s)) c (st_id s) (get_snd s) Hd) as L.
  destruct (send_data_loop _ c (st_id s) (get_snd s)) as [[[c1 n1] dn] wr]. exact L.
Qed.

Lemma lite_finish_request c s r : sc_sl_done c = false -> lite c (fst (fst (finish_request enc_field c s r))).
Proof.
  intro Hd. unfold finish_request. destruct (response_block enc_field (sc_enc c) r) as [blk e'].
  match goal with |- context [emit (upd_enc c e') ?o] => set (oo := o) end.
  assert (L1 : lite c (emit (upd_enc c e') oo)).
  { eapply lite_trans; [apply lite_upd_enc | apply (lite_emit _ (upd_enc c e') oo I Hd)]. }
  destruct (negb _); [exact L1|].
  eapply lite_trans; [exact L1 | apply lite_send_data]. rewrite sc_sl_done_emit. exact Hd.
Qed.

End Lite.
