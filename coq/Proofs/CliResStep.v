(* Proofs/CliResStep.v - C12/C11, part 2: the event handlers (callers, timers, Close, writeRequest) and the invariant
   `inv` = st_ok /\ an_ok over all event lists. *)
From H2V Require Import Base.Bytes Base.MachineInt Base.Result Gen.GenConsts Impl.ServerConn Impl.ClientConn Proofs.CliBase Proofs.CliResInv.
From Coq Require Import ZArith Lia ZifyN ZifyNat ZifyBool List Bool.
Import ListNotations.
Local Open Scope N_scope.

Section Put.
Context {hstate : Type} {CP : cparams} {NR : cplain CP}.
Implicit Types c : cconn hstate.

Lemma get_put_same c x x' : cl_ctx_get c (ct_tag x') = Some x -> cl_ctx_get (cl_ctx_put c x') (ct_tag x') = Some x'.
Proof. intro G. rewrite cl_ctx_get_put, N.eqb_refl, G. reflexivity. Qed.
Lemma get_put_other c x' t : t <> ct_tag x' -> cl_ctx_get (cl_ctx_put c x') t = cl_ctx_get c t.
Proof. intro G. rewrite cl_ctx_get_put. replace (t =? ct_tag x') with false by lia. reflexivity. Qed.

(* a caller's (or a timer's) step on its own Ctx: what it has to respect *)
Lemma st_ok_put c x x' : st_ok c -> cl_ctx_get c (ct_tag x') = Some x ->
  ct_sid x' = ct_sid x -> ct_conn x' = ct_conn x -> ct_lckStuck x' = false -> ct_resolved x' = ct_returned x' ->
  (ct_returned x' = true -> ct_err x' = None /\ ct_done x' = true) ->
  st_ok (cl_ctx_put c x').
Proof.
  intros S G Hs Hc Hl Hr Hret.
  assert (L : forall t y', cl_ctx_get (cl_ctx_put c x') t = Some y' ->
              (t = ct_tag x' /\ y' = x') \/ (t <> ct_tag x' /\ cl_ctx_get c t = Some y')).
  { intros t y' H. rewrite cl_ctx_get_put in H. destruct (t =? ct_tag x') eqn:E.
    - left. replace t with (ct_tag x') in * by lia. rewrite G in H. inversion H. auto.
    - right. split; [lia | exact H]. }
  assert (L2 : forall t y, cl_ctx_get c t = Some y -> exists y', cl_ctx_get (cl_ctx_put c x') t = Some y' /\
                ct_sid y' = ct_sid y /\ ct_conn y' = ct_conn y).
  { intros t y H. rewrite cl_ctx_get_put. destruct (t =? ct_tag x') eqn:E.
    - replace t with (ct_tag x') in * by lia. rewrite H. exists x'. rewrite G in H. inversion H; subst y. auto.
    - exists y. auto. }
  constructor; try apply S.
  - rewrite tags_cl_ctx_put. apply S.
  - split; [|apply S]. intros t y' H. destruct (L _ _ H) as [[_ ->]|[_ H']]; [exact Hl | apply (proj1 (s_nostuck _ S) _ _ H')].
  - intros t I. destruct (s_inQ _ S t I) as (y & Gy & A & B). destruct (L2 _ _ Gy) as (y' & Gy' & A' & B'). exists y'. rewrite A', B'. auto.
  - intros id t I. destruct (s_rq _ S id t I) as (y & Gy & A & B & C). destruct (L2 _ _ Gy) as (y' & Gy' & A' & B'). exists y'. rewrite A', B'. auto.
  - intros t y' H. destruct (L _ _ H) as [[_ ->]|[_ H']]; [auto | apply (s_ret _ S _ _ H')].
  - intros t y' H. destruct (L _ _ H) as [[_ ->]|[_ H']]; [rewrite Hs, Hc; apply (s_sid _ S _ _ G) | apply (s_sid _ S _ _ H')].
  - intros t t' y1 y1' H1 H1'.
    assert (B : forall t y', cl_ctx_get (cl_ctx_put c x') t = Some y' -> exists y, cl_ctx_get c t = Some y /\ ct_sid y' = ct_sid y).
    { intros u y' H. destruct (L _ _ H) as [[-> ->]|[_ H']]; [exists x; auto | exists y'; auto]. }
    destruct (B _ _ H1) as (y & Gy & ->). destruct (B _ _ H1') as (y' & Gy' & ->). apply (s_sid_unique _ S _ _ _ _ Gy Gy').
  - intros pb Hpb. destruct (s_pb _ S _ Hpb) as (A & y & Gy & B). split; [exact A|].
    destruct (L2 _ _ Gy) as (y' & Gy' & A' & _). exists y'. rewrite A'. auto.
Qed.

Lemma an_ok_put c x x' : an_ok c -> cl_ctx_get c (ct_tag x') = Some x ->
  (answered x = true -> answered x' = true) -> (ct_done x' = true -> answered x' = true) ->
  (ct_fired x' = true -> answered x' = true) ->
  (cc_wl_done c = true -> In (ct_tag x') (cc_inQ c) -> ct_writing x' = true \/ answered x' = true) ->
  ct_finished x' = ct_finished x ->
  an_ok (cl_ctx_put c x').
Proof.
  intros A G Ha Hd Hf Hw Hfin.
  assert (L : forall t y', cl_ctx_get (cl_ctx_put c x') t = Some y' ->
              (t = ct_tag x' /\ y' = x') \/ (t <> ct_tag x' /\ cl_ctx_get c t = Some y')).
  { intros t y' H. rewrite cl_ctx_get_put in H. destruct (t =? ct_tag x') eqn:E.
    - left. replace t with (ct_tag x') in * by lia. rewrite G in H. inversion H. auto.
    - right. split; [lia | exact H]. }
  constructor.
  - intros t y' H N. destruct (L _ _ H) as [[-> ->]|[_ H']]; [apply Ha, (a_dropped _ A _ _ G N) | apply (a_dropped _ A _ _ H' N)].
  - intros t y' H D. destruct (L _ _ H) as [[-> ->]|[_ H']]; [auto | apply (a_done _ A _ _ H' D)].
  - intros t y' H D. destruct (L _ _ H) as [[-> ->]|[_ H']]; [auto | apply (a_fired _ A _ _ H' D)].
  - intros W t y' I H. destruct (L _ _ H) as [[-> ->]|[_ H']]; [auto | apply (a_wl _ A W _ _ I H')].
  - intros t y' H F. destruct (L _ _ H) as [[-> ->]|[_ H']]; [rewrite Hfin in F; apply (a_fin _ A _ _ G F) | apply (a_fin _ A _ _ H' F)].
Qed.

End Put.

Section Events.
Context {hstate : Type} {CP : cparams} {NR : cplain CP}.
Implicit Types c : cconn hstate.
Variable cfg : cl_config.

Definition inv c : Prop := st_ok c /\ an_ok c.

Lemma inv_effo P c c' : inv c -> effo P c c' -> inv c'.
Proof. intros [S A] E. split; [eapply st_ok_eff; [exact S | apply E] | eapply an_ok_effo; eassumption]. Qed.

Definition any_item (o : coutev) : Prop := True.

(* ----- Conn.Write, second select ----- *)
Lemma inv_submit_check c tag : inv c -> inv (cl_submit_check c tag).
Proof.
  intros [S A]. unfold cl_submit_check. destruct (cl_ctx_get c tag) as [x|] eqn:G; [|split; assumption].
  destruct (ct_writing x) eqn:W; [|split; assumption]. cbn [negb].
  destruct (cl_ctxs_get_In _ _ _ G) as [_ T]. set (x1 := ctu_writing x false).
  assert (G1 : cl_ctx_get c (ct_tag x1) = Some x) by (cbn; rewrite T; exact G).
  pose proof (s_ret _ S _ _ G) as [R1 R2]. pose proof (proj1 (s_nostuck _ S) _ _ G) as LK.
  assert (K1 : cc_closed c = false \/ ct_sid x <> 0 -> inv (cl_ctx_put c x1)).
  { intro K. split.
    - apply st_ok_put with x; auto.
    - apply an_ok_put with x; auto.
      + intro D. apply (a_done _ A _ _ G D).
      + intro D. apply (a_fired _ A _ _ G D).
      + intros WD I. exfalso. destruct K as [K|K]; [destruct (s_wl_done _ S WD); congruence|].
        cbn in I. rewrite T in I. destruct (s_inQ _ S _ I) as (y & Gy & Hy & _). congruence. }
  destruct (cc_closed c) eqn:CL; cbn [negb]; [|apply K1; auto].
  cbn [ct_lckStuck x1 ctu_writing]. rewrite LK. cbn [ct_sid x1 ctu_writing].
  destruct (ct_sid x =? 0) eqn:Z; [|apply K1; right; lia].
  set (x2 := cl_ctx_resolve (ctu_done x1 true) (cl_close_err c)).
  pose proof (cev_resolve (CP:=cp_any) (ctu_done x1 true) (cl_close_err c) Logic.I) as V. fold x2 in V.
  assert (G2 : cl_ctx_get c (ct_tag x2) = Some x) by (rewrite (cev_tag _ _ V); exact G1).
  assert (A2 : answered x2 = true) by (apply answered_resolve'; cbn; exact R1).
  split.
  - apply st_ok_put with x; auto.
    + rewrite (cev_sid _ _ V). reflexivity.
    + rewrite (cev_conn _ _ V). reflexivity.
    + rewrite (cev_lckStuck _ _ V). exact LK.
    + rewrite (cev_resolved _ _ V), (cev_returned _ _ V). exact R1.
    + rewrite (cev_returned _ _ V), (cev_done _ _ V). cbn. intro R. split; [|reflexivity].
      destruct (cev_err _ _ V) as [F|(_ & F & _)]; [rewrite F; cbn; apply (R2 R) | cbn in F; congruence].
  - apply an_ok_put with x; auto. unfold x2. rewrite finished_resolve. reflexivity.
Qed.

(* ----- the cancel timer ----- *)
Lemma inv_timeout_fire c tag : inv c -> inv (cl_timeout_fire c tag).
Proof.
  intros [S A]. unfold cl_timeout_fire. destruct (cl_ctx_get c tag) as [x|] eqn:G; [|split; assumption].
  destruct (ct_armed x && negb (ct_fired x)); [|split; assumption].
  destruct (cl_ctxs_get_In _ _ _ G) as [_ T]. pose proof (s_ret _ S _ _ G) as [R1 R2]. pose proof (proj1 (s_nostuck _ S) _ _ G) as LK.
  set (x2 := cl_ctx_resolve (ctu_fired x true) CETimeout).
  pose proof (cev_resolve (CP:=cp_any) (ctu_fired x true) CETimeout Logic.I) as V. fold x2 in V.
  assert (G2 : cl_ctx_get c (ct_tag x2) = Some x) by (rewrite (cev_tag _ _ V); cbn; rewrite T; exact G).
  assert (A2 : answered x2 = true) by (apply answered_resolve'; cbn; exact R1).
  split.
  - apply st_ok_put with x; auto.
    + rewrite (cev_sid _ _ V). reflexivity.
    + rewrite (cev_conn _ _ V). reflexivity.
    + rewrite (cev_lckStuck _ _ V). exact LK.
    + rewrite (cev_resolved _ _ V), (cev_returned _ _ V). exact R1.
    + rewrite (cev_returned _ _ V), (cev_done _ _ V). cbn. intro R. split; [|apply (R2 R)].
      destruct (cev_err _ _ V) as [F|(_ & F & _)]; [rewrite F; cbn; apply (R2 R) | cbn in F; congruence].
  - apply an_ok_put with x; auto. unfold x2. rewrite finished_resolve. reflexivity.
Qed.

Lemma inv_timeout_cancel c tag : inv c -> inv (cl_timeout_cancel c tag).
Proof.
  intros [S A]. unfold cl_timeout_cancel. destruct (cl_ctx_get c tag) as [x|] eqn:G; [|split; assumption].
  destruct (ct_fired x) eqn:F; [|split; assumption]. destruct (ct_cancelled x); [split; assumption|]. cbn [negb andb].
  destruct (cl_ctxs_get_In _ _ _ G) as [_ T]. pose proof (s_ret _ S _ _ G) as [R1 R2]. pose proof (proj1 (s_nostuck _ S) _ _ G) as LK.
  set (x1 := ctu_cancelled x true). set (c1 := cl_ctx_put c x1).
  assert (G1 : cl_ctx_get c (ct_tag x1) = Some x) by (cbn; rewrite T; exact G).
  assert (I1 : inv c1).
  { split; [apply st_ok_put with x; auto | apply an_ok_put with x; auto].
    - intro D. apply (a_done _ A _ _ G D).
    - intro D. apply (a_fired _ A _ _ G D).
    - intros WD I. cbn in I. rewrite T in I. apply (a_wl _ A WD _ _ I G). }
  destruct (negb (ct_conn x) || (ct_sid x =? 0)) eqn:K; [exact I1|].
  destruct I1 as [S1 A1].
  destruct (effo_delete_pending any_item (fun _ _ => I) 3 c1 (ct_sid x) (s_nostuck _ S1)) as [E2 F2].
  pose proof (cc_inQ_cl_delete_pending _ c1 3 [] (ct_sid x)) as I2. pose proof (cc_reqQueued_cl_delete_pending _ c1 3 [] (ct_sid x)) as Q2.
  destruct (cl_delete_pending 3 [] c1 (ct_sid x)) as [c2 stuck]. cbn [fst snd] in *. subst stuck.
  pose proof (inv_effo _ _ _ (conj S1 A1) E2) as [S2 A2].
  apply (inv_effo any_item c2); [split; assumption|].
  eapply effo_trans; [|apply effo_cancel_stream].
  split; [apply eff_take_req_count|].
  (* the entry taken off the table is this Ctx's, and its timer has answered it *)
  intros t H N.
  assert (G1' : cl_ctx_get c1 tag = Some x1) by (unfold c1; rewrite <- T; apply (get_put_same c x x1 G1)).
  destruct (e_ctx _ _ _ (proj1 E2) _ _ G1') as (x2 & G2 & V2).
  assert (Ht : t = tag).
  { destruct H as [H|H]; [exfalso; apply N; left; rewrite cc_inQ_cl_take_req_count; exact H|].
    apply in_map_iff in H. destruct H as ([i u] & Hu & J). cbn [snd] in Hu. subst u.
    destruct (i =? ct_sid x) eqn:Ei.
    - replace i with (ct_sid x) in J by lia. destruct (s_rq _ S2 _ _ J) as (y & Gy & Hy & _).
      apply (s_sid_unique _ S2 _ _ _ _ Gy G2); [rewrite (cev_sid _ _ V2); cbn; exact Hy | rewrite Hy; lia].
    - exfalso. apply N. right. rewrite cc_reqQueued_cl_take_req_count. apply in_map_iff. exists (i, t). split; [reflexivity|].
      apply filter_In. cbn [fst]. rewrite Ei. auto. }
  subst t. exists x2. unfold cl_ctx_get. rewrite cc_ctxs_cl_take_req_count. split; [exact G2|].
  apply (a_fired _ A2 _ _ G2). rewrite (cev_fired _ _ V2). cbn. exact F.
Qed.

(* ----- the caller receives ----- *)
Lemma inv_receive c tag : inv c -> inv (cl_receive c tag).
Proof.
  intros [S A]. unfold cl_receive. destruct (cl_ctx_get c tag) as [x|] eqn:G; [|split; assumption].
  destruct (ct_returned x) eqn:R; [split; assumption|]. destruct (ct_err x) as [e|] eqn:E; [|split; assumption].
  destruct (cl_ctxs_get_In _ _ _ G) as [_ T]. pose proof (proj1 (s_nostuck _ S) _ _ G) as LK.
  cbv zeta. cbn [ct_lckStuck ctu_armed ctu_err]. rewrite LK.
  set (x2 := ctu_pooled _ _).
  assert (G2 : cl_ctx_get c (ct_tag x2) = Some x) by (cbn; rewrite T; exact G).
  assert (I2 : inv (cl_ctx_put c x2)).
  { split; [apply st_ok_put with x; auto | apply an_ok_put with x; auto]. }
  set (c2 := cl_note (cl_ctx_put c x2) _).
  assert (I3 : inv c2) by (apply (inv_effo any_item _ _ I2), effo_note; exact I).
  destruct (_ && ct_finished _); [|exact I3]. apply (inv_effo any_item _ _ I3), effo_note. exact I.
Qed.

(* ----- Close, a failing socket ----- *)
Lemma effo_close_call (P : coutev -> Prop) c : effo P c (cl_close_call c).
Proof.
  unfold cl_close_call, cl_close_begin. destruct (cc_closed c) eqn:CL; [apply effo_refl|].
  apply effo_keep; [|reflexivity|reflexivity]. apply (eff_frame' P c _ []); try reflexivity; auto;
    try (apply same_filter; reflexivity); try (apply pending_same; reflexivity).
Qed.

Lemma effo_close_finish (P : coutev -> Prop) c : (forall o, benign o = true -> P o) -> effo P c (cl_close_finish c).
Proof.
  intro Pben. unfold cl_close_finish. destruct (cc_closing c); [|apply effo_refl]. unfold cl_close_net.
  destruct (cl_can_write c).
  - apply (effo_frame P c _ [COGoAway 0 c_NoError]); try reflexivity; auto; try (apply pending_same; reflexivity);
      try (repeat constructor; apply Pben; reflexivity).
  - apply (effo_frame P c _ []); try reflexivity; auto; try (apply pending_same; reflexivity).
Qed.

Lemma effo_write_fail (P : coutev -> Prop) c : effo P c (ccu_writeFail c true).
Proof. apply (effo_frame P c _ []); try reflexivity; auto; try (apply pending_same; reflexivity). Qed.

End Events.

Lemma NoDup_snoc {A} (l : list A) a : NoDup l -> ~ In a l -> NoDup (l ++ [a]).
Proof.
  induction l as [|b l IH]; cbn [app]; intros ND NI; [repeat constructor; auto|].
  inversion ND; subst. constructor.
  - rewrite in_app_iff. cbn [In]. intros [H|[H|[]]]; [auto | apply NI; left; auto].
  - apply IH; [assumption|]. intro H. apply NI. right. exact H.
Qed.

Section Admit.
Context {hstate : Type} {CP : cparams} {NR : cplain CP}.
Implicit Types c : cconn hstate.

(* roundTripOnce hands a new Ctx to the connection *)
Lemma inv_add c c' y : inv c -> cl_ctx_get c (ct_tag y) = None ->
  (forall t, cl_ctx_get c' t = if t =? ct_tag y then Some y else cl_ctx_get c t) ->
  map ct_tag (cc_ctxs c') = map ct_tag (cc_ctxs c) ++ [ct_tag y] ->
  (cc_inQ c' = cc_inQ c /\ answered y = true \/ cc_inQ c' = cc_inQ c ++ [ct_tag y] /\ ct_writing y = true) ->
  cc_reqQueued c' = cc_reqQueued c -> cc_nextID c' = cc_nextID c -> cc_wl_done c' = cc_wl_done c ->
  cc_rl_done c' = cc_rl_done c -> cc_closed c' = cc_closed c -> cc_rl_stuck c' = cc_rl_stuck c ->
  cc_wl_stuck c' = cc_wl_stuck c -> cc_outQ c' = cc_outQ c -> cc_pending c' = cc_pending c ->
  cc_hdrErr c' = cc_hdrErr c -> cc_lastErr c' = cc_lastErr c ->
  ct_sid y = 0 -> ct_conn y = false -> ct_lckStuck y = false -> ct_resolved y = false -> ct_returned y = false ->
  ct_done y = false -> ct_fired y = false -> ct_finished y = false -> inv c'.
Proof.
  intros [S A] GN L TG IQ RQ NX WD RD CL RS WS OQ PD HE HL Hs Hc Hl Hr Hret Hd Hf Hfin.
  assert (NT : ~ In (ct_tag y) (map ct_tag (cc_ctxs c))) by (apply cl_ctxs_get_None_tags; exact GN).
  assert (OLD : forall t x, cl_ctx_get c t = Some x -> cl_ctx_get c' t = Some x).
  { intros t x G. rewrite L. destruct (t =? ct_tag y) eqn:E; [|exact G]. apply N.eqb_eq in E. subst t. congruence. }
  assert (NEW : forall t x, cl_ctx_get c' t = Some x -> (t = ct_tag y /\ x = y) \/ (t <> ct_tag y /\ cl_ctx_get c t = Some x)).
  { intros t x G. rewrite L in G. destruct (t =? ct_tag y) eqn:E;
      [left; split; [apply N.eqb_eq, E | inversion G; reflexivity] | right; split; [apply N.eqb_neq, E | exact G]]. }
  assert (NQ : ~ In (ct_tag y) (cc_inQ c)). { intro I. destruct (s_inQ _ S _ I) as (x & G & _). congruence. }
  split.
  - constructor.
    + rewrite TG. apply NoDup_snoc; [apply S | exact NT].
    + split; [|rewrite RS, WS; apply S]. intros t x G. destruct (NEW _ _ G) as [[_ ->]|[_ G']]; [exact Hl | apply (proj1 (s_nostuck _ S) _ _ G')].
    + destruct IQ as [[Q _]|[Q _]]; rewrite Q; [apply S|]. apply NoDup_snoc; [apply S | exact NQ].
    + intros t I. assert (J : In t (cc_inQ c) \/ t = ct_tag y).
      { destruct IQ as [[Q _]|[Q _]]; rewrite Q in I; [auto|]. apply in_app_iff in I. cbn [In] in I. destruct I as [I|[I|[]]]; auto. }
      destruct J as [J | ->]; [destruct (s_inQ _ S _ J) as (x & G & R); exists x; split; [apply OLD, G | exact R]|].
      exists y. rewrite L, N.eqb_refl. auto.
    + rewrite RQ. apply S.
    + rewrite RQ. apply S.
    + intros id t I. rewrite RQ in I. destruct (s_rq _ S _ _ I) as (x & G & R). exists x. rewrite NX. split; [apply OLD, G | exact R].
    + intros t x G. destruct (NEW _ _ G) as [[_ ->]|[_ G']]; [rewrite Hr, Hret; split; [reflexivity | discriminate] | apply (s_ret _ S _ _ G')].
    + intros t x G. rewrite NX. destruct (NEW _ _ G) as [[_ ->]|[_ G']]; [rewrite Hs; split; [apply S | auto] | apply (s_sid _ S _ _ G')].
    + intros t t' x x' G G' E Z. destruct (NEW _ _ G) as [[_ ->]|[_ G1]]; [congruence|].
      destruct (NEW _ _ G') as [[_ ->]|[_ G1']]; [congruence | apply (s_sid_unique _ S _ _ _ _ G1 G1' E Z)].
    + rewrite NX. apply S.
    + rewrite WD, CL, RQ. apply S.
    + rewrite RD, CL. apply S.
    + rewrite OQ. apply S.
    + rewrite HE. apply S.
    + rewrite HL. apply S.
    + rewrite PD, NX, RQ. apply S.
    + rewrite PD. intros pb Hpb. destruct (s_pb _ S _ Hpb) as (A1 & x & Gx & Sx). split; [exact A1|]. exists x. split; [apply OLD, Gx | exact Sx].
    + rewrite PD. apply S.
  - assert (HB : forall t, held c t -> held c' t).
    { intros t [H|H]; [left | right; rewrite RQ; exact H]. destruct IQ as [[Q _]|[Q _]]; rewrite Q; [exact H | apply in_app_iff; auto]. }
    constructor.
    + intros t x G N. destruct (NEW _ _ G) as [[-> ->]|[_ G']].
      * destruct IQ as [[_ Q]|[Q _]]; [exact Q|]. exfalso. apply N. left. rewrite Q. apply in_app_iff. right. left. reflexivity.
      * apply (a_dropped _ A _ _ G'). intro H. apply N, HB, H.
    + intros t x G D. destruct (NEW _ _ G) as [[_ ->]|[_ G']]; [congruence | apply (a_done _ A _ _ G' D)].
    + intros t x G D. destruct (NEW _ _ G) as [[_ ->]|[_ G']]; [congruence | apply (a_fired _ A _ _ G' D)].
    + rewrite WD. intros W t x I G. destruct (NEW _ _ G) as [[-> ->]|[NE G']].
      * destruct IQ as [[_ Q]|[_ Q]]; auto.
      * apply (a_wl _ A W t x); [|exact G']. destruct IQ as [[Q _]|[Q _]]; rewrite Q in I; [exact I|].
        apply in_app_iff in I. cbn [In] in I. destruct I as [I|[I|[]]]; [exact I | congruence].
    + intros t x G F. destruct (NEW _ _ G) as [[_ ->]|[NE G']]; [congruence|]. destruct (a_fin _ A _ _ G' F) as [NH NP]. split.
      * intro H. apply NH. destruct H as [H|H]; [left | right; rewrite RQ in H; exact H].
        destruct IQ as [[Q _]|[Q _]]; rewrite Q in H; [exact H|]. apply in_app_iff in H. cbn [In] in H. destruct H as [H|[H|[]]]; [exact H | congruence].
      * rewrite PD. exact NP.
Qed.

End Admit.

Section Submit.
Context {hstate : Type} {CP : cparams} {NR : cplain CP}.
Implicit Types c : cconn hstate.
Variable cfg : cl_config.

Lemma inv_submit c tag rq q : inv c -> inv (cl_submit cfg c tag rq q).
Proof.
  intro I. unfold cl_submit. destruct (cl_ctx_get c tag) eqn:GN; [exact I|].
  set (new := cl_new_ctx tag rq (ccf_armTimers cfg)). set (c1 := ccu_ctxs c (cc_ctxs c ++ [new])).
  assert (G1 : forall t, cl_ctx_get c1 t = if t =? tag then Some new else cl_ctx_get c t).
  { intro t. unfold cl_ctx_get, c1. cbn [cc_ctxs ccu_ctxs]. rewrite cl_ctxs_get_app. cbn [cl_ctxs_get ct_tag new cl_new_ctx].
    destruct (t =? tag) eqn:E.
    - apply N.eqb_eq in E. subst t. unfold cl_ctx_get in GN. rewrite GN, N.eqb_refl. reflexivity.
    - rewrite N.eqb_sym, E. destruct (cl_ctxs_get (cc_ctxs c) t); reflexivity. }
  destruct (cc_closed c1 && negb q).
  - (* case <-c.done *)
    set (y := cl_ctx_resolve new (cl_close_err c1)).
    assert (Ty : ct_tag y = tag) by (unfold y; rewrite ct_tag_cl_ctx_resolve; reflexivity).
    pose proof (cev_resolve (CP:=cp_any) new (cl_close_err c1) Logic.I) as V. fold y in V.
    apply (inv_add c (cl_resolve c1 tag (cl_close_err c1)) y I); try (rewrite Ty; exact GN).
    + intro t. rewrite cl_ctx_get_resolve, G1, Ty. destruct (t =? tag); reflexivity.
    + rewrite tags_cl_resolve. unfold c1. cbn [cc_ctxs ccu_ctxs]. rewrite map_app, Ty. reflexivity.
    + left. split; [rewrite cc_inQ_cl_resolve; reflexivity | apply answered_resolve; reflexivity].
    + rewrite cc_reqQueued_cl_resolve; reflexivity.
    + rewrite cc_nextID_cl_resolve; reflexivity.
    + rewrite cc_wl_done_cl_resolve; reflexivity.
    + rewrite cc_rl_done_cl_resolve; reflexivity.
    + rewrite cc_closed_cl_resolve; reflexivity.
    + rewrite cc_rl_stuck_cl_resolve; reflexivity.
    + rewrite cc_wl_stuck_cl_resolve; reflexivity.
    + rewrite cc_outQ_cl_resolve; reflexivity.
    + rewrite cc_pending_cl_resolve; reflexivity.
    + rewrite cc_hdrErr_cl_resolve; reflexivity.
    + rewrite cc_lastErr_cl_resolve; reflexivity.
    + rewrite (cev_sid _ _ V). reflexivity.
    + rewrite (cev_conn _ _ V). reflexivity.
    + rewrite (cev_lckStuck _ _ V). reflexivity.
    + rewrite (cev_resolved _ _ V). reflexivity.
    + rewrite (cev_returned _ _ V). reflexivity.
    + rewrite (cev_done _ _ V). reflexivity.
    + rewrite (cev_fired _ _ V). reflexivity.
    + unfold y. rewrite finished_resolve. reflexivity.
  - (* case c.in <- r *)
    set (y := ctu_writing new true).
    apply (inv_add c (cl_ctx_upd (ccu_inQ c1 (cc_inQ c1 ++ [tag])) tag (fun x => ctu_writing x true)) y I); try reflexivity; try exact GN.
    + intro t. rewrite cl_ctx_get_upd by reflexivity. unfold cl_ctx_get at 1 2. cbn [cc_ctxs ccu_inQ]. fold (cl_ctx_get c1 t).
      rewrite G1. cbn [ct_tag y ctu_writing new cl_new_ctx]. destruct (t =? tag); reflexivity.
    + rewrite tags_cl_ctx_upd. cbn [cc_ctxs ccu_inQ c1 ccu_ctxs]. rewrite map_app. reflexivity.
    + right. split; [rewrite cc_inQ_cl_ctx_upd; reflexivity | reflexivity].
    + rewrite cc_reqQueued_cl_ctx_upd; reflexivity.
    + rewrite cc_nextID_cl_ctx_upd; reflexivity.
    + rewrite cc_wl_done_cl_ctx_upd; reflexivity.
    + rewrite cc_rl_done_cl_ctx_upd; reflexivity.
    + rewrite cc_closed_cl_ctx_upd; reflexivity.
    + rewrite cc_rl_stuck_cl_ctx_upd; reflexivity.
    + rewrite cc_wl_stuck_cl_ctx_upd; reflexivity.
    + rewrite cc_outQ_cl_ctx_upd; reflexivity.
    + rewrite cc_pending_cl_ctx_upd; reflexivity.
    + rewrite cc_hdrErr_cl_ctx_upd; reflexivity.
    + rewrite cc_lastErr_cl_ctx_upd; reflexivity.
Qed.

End Submit.

Section WLIn.
Context {hstate : Type} {CP : cparams} {NR : cplain CP}.
Implicit Types c : cconn hstate.

(* writeRequest takes a Ctx off the queue and gives it a stream: conn.Store, streamID, queueReq *)
Lemma inv_admit c c' x tag q l : inv c -> cc_inQ c = tag :: q -> cl_ctx_get c tag = Some x -> cc_wl_done c = false ->
  let x' := ctu_sid (ctu_conn x true) (cc_nextID c) in
  (forall t, cl_ctx_get c' t = if t =? tag then Some x' else cl_ctx_get c t) ->
  map ct_tag (cc_ctxs c') = map ct_tag (cc_ctxs c) -> cc_inQ c' = q ->
  cc_reqQueued c' = cc_reqQueued c ++ [(cc_nextID c, tag)] -> cc_nextID c' = cc_nextID c + 2 ->
  cc_wl_done c' = cc_wl_done c -> cc_rl_done c' = cc_rl_done c -> cc_closed c' = cc_closed c ->
  cc_rl_stuck c' = cc_rl_stuck c -> cc_wl_stuck c' = cc_wl_stuck c -> cc_outQ c' = cc_outQ c ->
  cc_hdrErr c' = cc_hdrErr c -> cc_lastErr c' = cc_lastErr c ->
  cc_pending c' = cc_pending c ++ l -> (forall pb, In pb l -> pb_id pb = cc_nextID c /\ pb_tag pb = tag) -> (length l <= 1)%nat ->
  inv c'.
Proof.
  intros [St A] IQ G WD x' L TG IQ' RQ NX WD' RD CL RS WS OQ HE HLe PD PL LL.
  assert (PNDl : NoDup (map pb_id (cc_pending c'))).
  { rewrite PD, map_app. destruct l as [|p [|p2 l2]]; [rewrite app_nil_r; apply St | | cbn in LL; lia].
    apply NoDup_snoc; [apply St|]. intro J. apply in_map_iff in J. destruct J as (pb & E & J). destruct (s_pending _ St _ J) as [Lt _].
    destruct (PL p (or_introl eq_refl)) as [Hp _]. cbn [map] in E. rewrite Hp in E. rewrite E in Lt. clear - Lt. lia. }
  destruct (cl_ctxs_get_In _ _ _ G) as [_ Tx].
  assert (ND : ~ In tag q /\ NoDup q). { pose proof (s_inQ_nodup _ St) as H. rewrite IQ in H. inversion H. auto. }
  destruct (s_inQ _ St tag) as (x0 & G0 & Sx & Cx); [rewrite IQ; left; reflexivity|]. rewrite G in G0. inversion G0; subst x0. clear G0.
  assert (OLD : forall t y, t <> tag -> cl_ctx_get c t = Some y -> cl_ctx_get c' t = Some y).
  { intros t y NE Gy. rewrite L. apply N.eqb_neq in NE. rewrite NE. exact Gy. }
  assert (NEW : forall t y, cl_ctx_get c' t = Some y -> (t = tag /\ y = x') \/ (t <> tag /\ cl_ctx_get c t = Some y)).
  { intros t y Gy. rewrite L in Gy. destruct (t =? tag) eqn:E;
      [left; split; [apply N.eqb_eq, E | inversion Gy; reflexivity] | right; split; [apply N.eqb_neq, E | exact Gy]]. }
  assert (TR : forall id, ~ In (id, tag) (cc_reqQueued c)).
  { intros id J. destruct (s_rq _ St _ _ J) as (y & Gy & Hy & _ & Z & _). rewrite G in Gy. inversion Gy; subst y. congruence. }
  assert (Gx' : cl_ctx_get c' tag = Some x') by (rewrite L, N.eqb_refl; reflexivity).
  split.
  - constructor.
    + rewrite TG. apply St.
    + split; [|rewrite RS, WS; apply St]. intros t y Gy. destruct (NEW _ _ Gy) as [[_ ->]|[_ Gy']];
        [cbn; apply (proj1 (s_nostuck _ St) _ _ G) | apply (proj1 (s_nostuck _ St) _ _ Gy')].
    + rewrite IQ'. apply ND.
    + intros t J. rewrite IQ' in J. assert (NE : t <> tag) by (intro; subst t; apply (proj1 ND), J).
      destruct (s_inQ _ St t) as (y & Gy & R); [rewrite IQ; right; exact J|]. exists y. split; [apply OLD; assumption | exact R].
    + rewrite RQ, map_app. cbn [map fst]. apply NoDup_snoc; [apply St|]. intro J. apply in_map_iff in J.
      destruct J as ([i u] & Hi & J). cbn [fst] in Hi. subst i. destruct (s_rq _ St _ _ J) as (_ & _ & _ & _ & _ & Lt). clear - Lt. lia.
    + rewrite RQ, map_app. cbn [map snd]. apply NoDup_snoc; [apply St|]. intro J. apply in_map_iff in J.
      destruct J as ([i u] & Hu & J). cbn [snd] in Hu. subst u. apply (TR _ J).
    + intros id t J. rewrite RQ in J. apply in_app_iff in J. destruct J as [J|[J|[]]].
      * destruct (s_rq _ St _ _ J) as (y & Gy & R1 & R2 & R3 & R4). exists y. rewrite NX.
        split; [apply OLD; [intro; subst t; apply (TR _ J) | exact Gy] | repeat split; auto; clear - R4; lia].
      * inversion J; subst id t. exists x'. rewrite NX. pose proof (s_next _ St) as H0. cbn. repeat split; auto; clear - H0; lia.
    + intros t y Gy. destruct (NEW _ _ Gy) as [[_ ->]|[_ Gy']]; [cbn; apply (s_ret _ St _ _ G) | apply (s_ret _ St _ _ Gy')].
    + intros t y Gy. rewrite NX. destruct (NEW _ _ Gy) as [[_ ->]|[_ Gy']].
      * cbn. split; [clear; lia | discriminate].
      * destruct (s_sid _ St _ _ Gy') as [Lt ?]. split; [clear - Lt; lia | assumption].
    + intros t t' y y' Gy Gy' E Z.
      assert (K : forall u z, u <> tag -> cl_ctx_get c u = Some z -> ct_sid z <> cc_nextID c).
      { intros u z _ Gz. destruct (s_sid _ St _ _ Gz) as [Lt _]. clear - Lt. lia. }
      destruct (NEW _ _ Gy) as [[-> ->]|[NE Gy1]]; destruct (NEW _ _ Gy') as [[-> ->]|[NE' Gy1']]; try reflexivity.
      * exfalso. cbn in E. apply (K _ _ NE' Gy1'). congruence.
      * exfalso. cbn in E. apply (K _ _ NE Gy1). congruence.
      * apply (s_sid_unique _ St _ _ _ _ Gy1 Gy1' E Z).
    + rewrite NX. pose proof (s_next _ St) as H0. clear - H0. lia.
    + rewrite WD', WD. discriminate.
    + rewrite RD, CL. apply St.
    + rewrite OQ. apply St.
    + rewrite HE. apply St.
    + rewrite HLe. apply St.
    + intros pb J. rewrite PD in J. rewrite NX, RQ. apply in_app_iff in J. destruct J as [J|J].
      * destruct (s_pending _ St _ J) as [Lt U]. split; [clear - Lt; lia|]. intros t K. apply in_app_iff in K. destruct K as [K|[K|[]]]; [apply U, K|].
        inversion K as [[E1 E2]]. clear - Lt E1. lia.
      * destruct (PL _ J) as [Hi Ht]. rewrite Hi, Ht. split; [clear; lia|]. intros t K. apply in_app_iff in K. destruct K as [K|[K|[]]].
        -- destruct (s_rq _ St _ _ K) as (_ & _ & _ & _ & _ & Lt). clear - Lt. lia.
        -- inversion K. reflexivity.
    + intros pb J. rewrite PD in J. apply in_app_iff in J. destruct J as [J|J].
      * destruct (s_pb _ St _ J) as (A1 & y & Gy & Sy). split; [exact A1|].
        destruct (N.eq_dec (pb_tag pb) tag) as [E|NE].
        -- exfalso. rewrite E, G in Gy. inversion Gy; subst y. congruence.
        -- exists y. split; [apply OLD; assumption | exact Sy].
      * destruct (PL _ J) as [Hi Ht]. rewrite Hi, Ht. pose proof (s_next _ St) as H0. split; [clear - H0; lia|]. exists x'. split; [exact Gx' | reflexivity].
    + exact PNDl.
  - assert (HB : forall t, t <> tag -> held c t -> held c' t).
    { intros t NE [H|H]; [left | right; rewrite RQ, map_app; apply in_app_iff; left; exact H].
      rewrite IQ' . rewrite IQ in H. destruct H as [H|H]; [congruence | exact H]. }
    assert (AN : answered x' = answered x) by reflexivity.
    constructor.
    + intros t y Gy N. destruct (NEW _ _ Gy) as [[-> ->]|[NE Gy']].
      * exfalso. apply N. right. rewrite RQ, map_app. apply in_app_iff. right. left. reflexivity.
      * apply (a_dropped _ A _ _ Gy'). intro H. apply N, HB; assumption.
    + intros t y Gy D. destruct (NEW _ _ Gy) as [[_ ->]|[_ Gy']]; [rewrite AN; apply (a_done _ A _ _ G D) | apply (a_done _ A _ _ Gy' D)].
    + intros t y Gy D. destruct (NEW _ _ Gy) as [[_ ->]|[_ Gy']]; [rewrite AN; apply (a_fired _ A _ _ G D) | apply (a_fired _ A _ _ Gy' D)].
    + rewrite WD', WD. discriminate.
    + intros t y Gy F. destruct (NEW _ _ Gy) as [[-> ->]|[NE Gy']].
      * exfalso. apply (proj1 (a_fin _ A _ _ G F)). left. rewrite IQ. left. reflexivity.
      * destruct (a_fin _ A _ _ Gy' F) as [NH NP]. split.
        -- intro H. apply NH. destruct H as [H|H].
           ++ left. rewrite IQ. right. rewrite IQ' in H. exact H.
           ++ right. rewrite RQ, map_app in H. apply in_app_iff in H. destruct H as [H|[H|[]]]; [exact H | cbn in H; congruence].
        -- intros pb J. rewrite PD in J. apply in_app_iff in J. destruct J as [J|J]; [apply NP, J|]. destruct (PL _ J) as [_ Ht]. congruence.
Qed.

End WLIn.

Section WLIn2.
Context {hstate : Type} {CP : cparams} {NR : cplain CP}.
Implicit Types c : cconn hstate.
Variable enc_field : hstate -> bytes -> bytes -> bool -> bytes * hstate.
Variable enc_set_max : hstate -> N -> hstate.
Variable cfg : cl_config.

Lemma eff_dequeue P c tag q : st_ok c -> cc_inQ c = tag :: q -> eff P c (ccu_inQ c q).
Proof.
  intros St IQ. apply (eff_frame' P c _ []); try reflexivity; auto; try (apply same_filter; reflexivity); try (apply pending_same; reflexivity).
  exists (fun t => negb (t =? tag)). cbn [cc_inQ ccu_inQ]. rewrite IQ. cbn [filter]. rewrite N.eqb_refl. cbn [negb].
  pose proof (s_inQ_nodup _ St) as ND. rewrite IQ in ND. inversion ND as [|? ? NI _]; subst. clear - NI.
  induction q as [|a q IH]; cbn [filter]; [reflexivity|]. destruct (a =? tag) eqn:E.
  - exfalso. apply NI. left. apply N.eqb_eq, E.
  - cbn [negb]. f_equal. apply IH. intro H. apply NI. right. exact H.
Qed.

(* the dequeued Ctx is answered on the spot *)
Lemma effo_dequeue_resolve P c tag q e : Eok 0 e -> st_ok c -> cc_inQ c = tag :: q -> effo P c (cl_resolve (ccu_inQ c q) tag e).
Proof.
  intros He St IQ. pose proof (eff_dequeue P c tag q St IQ) as E0. split.
  { eapply eff_trans; [exact E0|]. apply eff_ctx_upd'. intros x0 G0. split; [|apply finished_resolve]. apply cev_resolve.
    destruct (s_inQ _ St tag) as (x & G & Sx & _); [rewrite IQ; left; reflexivity|].
    destruct (e_ctx _ _ _ E0 _ _ G) as (x0' & G0' & V0). rewrite G0 in G0'. inversion G0'; subst x0'.
    rewrite (cev_sid _ _ V0), Sx. exact He. }
  intros t H N.
  assert (Ht : t = tag).
  { destruct H as [H|H].
    - rewrite IQ in H. destruct H as [H|H]; [auto|]. exfalso. apply N. left. rewrite cc_inQ_cl_resolve. exact H.
    - exfalso. apply N. right. rewrite cc_reqQueued_cl_resolve. exact H. }
  subst t. destruct (s_inQ _ St tag) as (x & G & _); [rewrite IQ; left; reflexivity|].
  destruct (e_ctx _ _ _ E0 _ _ G) as (x0 & G0 & _). rewrite cl_ctx_get_resolve, N.eqb_refl, G0. eexists. split; [reflexivity|].
  apply answered_resolve'. apply (s_ret _ (st_ok_eff _ _ _ St E0) _ _ G0).
Qed.

(* it had been taken back by its caller, who answered it *)
Lemma effo_dequeue_done P c tag q x : st_ok c -> an_ok c -> cc_inQ c = tag :: q -> cl_ctx_get c tag = Some x -> ct_done x = true ->
  effo P c (ccu_inQ c q).
Proof.
  intros St A IQ G D. split; [apply (eff_dequeue P c tag q St IQ)|]. intros t H N.
  assert (Ht : t = tag).
  { destruct H as [H|H].
    - rewrite IQ in H. destruct H as [H|H]; [auto|]. exfalso. apply N. left. exact H.
    - exfalso. apply N. right. exact H. }
  subst t. exists x. split; [exact G | apply (a_done _ A _ _ G D)].
Qed.

(* the state right after writeRequest has given the Ctx of tag a stream (conn.Store, streamID, queueReq, pending body):
   nothing written yet *)
Record admitted c c6 (x : cctx) (tag : N) (q : list N) (l : list cpending) : Prop := mkAdmitted {
  ad_inQ : cc_inQ c = tag :: q;
  ad_get : cl_ctx_get c tag = Some x;
  ad_done : ct_done x = false;
  ad_sid0 : ct_sid x = 0;
  ad_goAway : cc_goAway c = false;
  ad_room : cc_nextID c <= cl_maxStreamID;
  ad_ctx : forall t, cl_ctx_get c6 t = if t =? tag then Some (ctu_sid (ctu_conn x true) (cc_nextID c)) else cl_ctx_get c t;
  ad_tags : map ct_tag (cc_ctxs c6) = map ct_tag (cc_ctxs c);
  ad_inQ' : cc_inQ c6 = q;
  ad_rq : cc_reqQueued c6 = cc_reqQueued c ++ [(cc_nextID c, tag)];
  ad_next : cc_nextID c6 = cc_nextID c + 2;
  ad_wl_done : cc_wl_done c6 = cc_wl_done c;
  ad_rl_done : cc_rl_done c6 = cc_rl_done c;
  ad_closed : cc_closed c6 = cc_closed c;
  ad_rl_stuck : cc_rl_stuck c6 = cc_rl_stuck c;
  ad_wl_stuck : cc_wl_stuck c6 = cc_wl_stuck c;
  ad_outQ : cc_outQ c6 = cc_outQ c;
  ad_hdrErr : cc_hdrErr c6 = cc_hdrErr c;
  ad_lastErr : cc_lastErr c6 = cc_lastErr c;
  ad_hdrStream : cc_hdrStream c6 = cc_hdrStream c;
  ad_hdrStatus : cc_hdrStatus c6 = cc_hdrStatus c;
  ad_hdrEndStream : cc_hdrEndStream c6 = cc_hdrEndStream c;
  ad_goAway' : cc_goAway c6 = cc_goAway c;
  ad_closeRef : cc_closeRef c6 = cc_closeRef c;
  ad_out : cc_out c6 = cc_out c;
  ad_pending : cc_pending c6 = cc_pending c ++ l;
  ad_l : forall pb, In pb l -> pb_id pb = cc_nextID c /\ pb_tag pb = tag;
  ad_len : (length l <= 1)%nat
}.

Lemma inv_admitted c c6 x tag q l : inv c -> cc_wl_done c = false -> admitted c c6 x tag q l -> inv c6.
Proof. intros Hi WD []. eapply inv_admit; eassumption. Qed.

(* case <-c.in, taken apart *)
Lemma wl_in_cases (P : coutev -> Prop) c tag q : (forall o, benign o = true -> P o) ->
  (cc_goAway c = false -> forall x, cl_ctx_get c tag = Some x -> ct_done x = false -> forall es blk, P (COHeaders (cc_nextID c) es blk)) ->
  inv c -> cc_inQ c = tag :: q -> cc_wl_done c = false ->
  ((exists x, cl_ctx_get c tag = Some x /\ ct_done x = true) /\ cl_can_open_stream c = true /\
   effo P c (cl_wl_in enc_field enc_set_max cfg c) /\
   eff P (ccu_inQ c q) (cl_wl_in enc_field enc_set_max cfg c)) \/
  (cl_can_open_stream c = false /\ cl_wl_in enc_field enc_set_max cfg c = cl_resolve (ccu_inQ c q) tag CENoStreams) \/
  (exists c6 x l, admitted c c6 x tag q l /\ effo P c6 (cl_wl_in enc_field enc_set_max cfg c)).
Proof.
  intros Pben Phdr [St A] IQ WD. unfold cl_wl_in. rewrite IQ. set (c0 := ccu_inQ c q). unfold cl_write_request.
  destruct (cl_can_open_stream c0) eqn:CO; cbn [negb].
  2:{ right. left. split; [exact CO | reflexivity]. }
  destruct (s_inQ _ St tag) as (x & G & Sx & Cx); [rewrite IQ; left; reflexivity|].
  assert (G0 : cl_ctx_get c0 tag = Some x) by exact G. rewrite G0.
  rewrite (proj1 (s_nostuck _ St) _ _ G).
  destruct (ct_done x) eqn:D.
  { left. split; [exists x; auto|]. pose proof (effo_dequeue_done P c tag q x St A IQ G D) as E0.
    pose proof (effo_wl_after cfg P Pben (ccu_inQ c q) (st_ok_eff _ _ _ St (proj1 E0))) as E1.
    split; [exact CO|]. split; [eapply effo_trans; [exact E0 | exact E1] | exact (proj1 E1)]. }
  right. right.
  unfold cl_can_open_stream in CO. apply andb_true_iff in CO. destruct CO as [CO _]. apply andb_true_iff in CO. destruct CO as [GA NXm].
  assert (GA0 : cc_goAway c = false) by (cbn [cc_goAway c0 ccu_inQ] in GA; destruct (cc_goAway c); [discriminate | reflexivity]).
  assert (NXle : cc_nextID c <= cl_maxStreamID) by (cbn [cc_nextID c0 ccu_inQ] in NXm; clear - NXm; lia).
  cbv zeta. set (c1 := if negb (cc_encTableSize c0 =? cc_encTableSeen c0) then _ else c0).
  assert (NX1 : cc_nextID c1 = cc_nextID c) by (unfold c1; destruct (negb (cc_encTableSize c0 =? cc_encTableSeen c0)); reflexivity).
  rewrite !NX1. replace (cl_maxStreamID <? cc_nextID c) with false by (clear - NXle; lia).
  set (id := cc_nextID c) in *.
  destruct (cl_request_block enc_field (cc_enc (ccu_nextID c1 (u32 (id + 2)))) (ct_req x)) as [blk e'].
  set (x' := ctu_sid (ctu_conn x true) id).
  set (c5 := ccu_open _ _).
  replace (cc_goAway c5) with false by (unfold c5, c1; destruct (negb (cc_encTableSize c0 =? cc_encTableSeen c0)); cbn; symmetry; exact GA0).
  set (hasBody := match cq_body (ct_req x) with CStream _ _ => true | CBuf b => negb (cl_is_nil b) end).
  set (c6 := if hasBody then _ else c5).
  assert (U32 : u32 (id + 2) = id + 2).
  { unfold u32, wrap. apply N.mod_small. unfold cl_maxStreamID in NXle. clear - NXle. unfold id. lia. }
  destruct (cl_ctxs_get_In _ _ _ G) as [_ Tx].
  set (l := if hasBody
            then [match cq_body (ct_req x) with
                  | CStream reads size => mkCPB id tag [] (cc_streamWindow c5) (Some reads) size 0 (size =? 0)%Z
                  | CBuf b => mkCPB id tag b (cc_streamWindow c5) None (-1) 0 false
                  end] else []).
  assert (AD : admitted c c6 x tag q l).
  { constructor; try assumption; unfold l, c6, c5, c1, hasBody; destruct (negb (cc_encTableSize c0 =? cc_encTableSeen c0));
      destruct (match cq_body (ct_req x) with CStream _ _ => true | CBuf b => negb (cl_is_nil b) end);
      cbn [cc_ctxs cc_inQ cc_reqQueued cc_nextID cc_wl_done cc_rl_done cc_closed cc_rl_stuck cc_wl_stuck cc_outQ cc_pending
           cc_hdrErr cc_lastErr cc_hdrStream cc_hdrStatus cc_hdrEndStream cc_goAway cc_closeRef cc_out
           ccu_pending ccu_open ccu_reqQueued ccu_enc ccu_nextID ccu_encTableSeen ccu_inQ c0 cl_ctx_put ccu_ctxs];
      try reflexivity; try (rewrite U32; reflexivity); try (rewrite app_nil_r; reflexivity);
      try (intro t; unfold cl_ctx_get; cbn [cc_ctxs ccu_pending ccu_open ccu_reqQueued ccu_enc ccu_nextID ccu_encTableSeen ccu_inQ cl_ctx_put ccu_ctxs c0];
           rewrite cl_ctxs_get_put; unfold x'; cbn [ct_tag ctu_sid ctu_conn]; rewrite Tx; destruct (t =? tag) eqn:E; [apply N.eqb_eq in E; subst t; unfold cl_ctx_get in G; rewrite G|]; reflexivity);
      try (rewrite cl_ctxs_put_tags; reflexivity);
      try (intros pb [<-|[]]; destruct (cq_body (ct_req x)); split; reflexivity);
      try (intros pb []); try (cbn [length]; clear; lia). }
  exists c6, x, l. split; [exact AD|].
  pose proof (inv_admitted c c6 x tag q l (conj St A) WD AD) as [S6 A6].
  assert (EW : Eall CEWrite) by (apply Eall_nr; [reflexivity | discriminate]).
  destruct (cl_can_write c6) eqn:CW.
  - (* HEADERS written *)
    set (c7 := cl_note c6 _).
    assert (E7 : effo P c6 c7) by (apply effo_note, (Phdr GA0 x G D)).
    pose proof (st_ok_eff _ _ _ S6 (proj1 E7)) as S7.
    destruct hasBody.
    2:{ eapply effo_trans; [exact E7 | apply effo_wl_after; [exact Pben | exact S7]]. }
    destruct (effo_send_pending P Pben (cl_send_fuel c7 id) c7 id S7) as [E8 N8].
    destruct (cl_send_pending (cl_send_fuel c7 id) c7 id) as [c8 r]. cbn [fst snd] in *.
    pose proof (st_ok_eff _ _ _ S7 (proj1 E8)) as S8.
    destruct r; [| | contradiction].
    + eapply effo_trans; [exact E7|]. eapply effo_trans; [exact E8 | apply effo_wl_after; [exact Pben | exact S8]].
    + eapply effo_trans; [exact E7|]. eapply effo_trans; [exact E8|].
      assert (E9 : effo P c8 (cl_resolve c8 tag CEWrite)) by (apply effo_resolve, EW).
      eapply effo_trans; [exact E9 | apply effo_wl_exit; [exact Pben | exact EW | discriminate | apply (st_ok_eff _ _ _ S8 (proj1 E9))]].
  - (* the write failed *)
    set (c7 := cl_take_req_count (cl_set_last_err c6 CEWrite) id).
    assert (E7 : eff P c6 c7) by (apply (eff_trans _ _ (cl_set_last_err c6 CEWrite)); [apply eff_set_last_err; discriminate | apply eff_take_req_count]).
    pose proof (st_ok_eff _ _ _ S6 E7) as S7.
    destruct (eff_delete_pending P Pben 1 c7 id (s_nostuck _ S7)) as [E8 F8].
    pose proof (cc_inQ_cl_delete_pending _ c7 1 [] id) as I8. pose proof (cc_reqQueued_cl_delete_pending _ c7 1 [] id) as Q8.
    destruct (cl_delete_pending 1 [] c7 id) as [c8 stuck]. cbn [fst snd] in *. subst stuck.
    assert (E9 : effo P c6 (cl_resolve c8 tag CEWrite)).
    { split; [eapply eff_trans; [exact E7|]; eapply eff_trans; [exact E8 | apply eff_resolve, EW]|].
      assert (R6 : In (id, tag) (cc_reqQueued c6)) by (rewrite (ad_rq _ _ _ _ _ _ AD); apply in_app_iff; right; left; reflexivity).
      apply (obl_take_resolve P c6 c8 id tag (fun y => y) CEWrite S6 (eff_trans _ _ _ _ E7 E8)); auto.
      + rewrite I8. unfold c7. rewrite cc_inQ_cl_take_req_count, cc_inQ_cl_set_last_err. reflexivity.
      + rewrite Q8. unfold c7. rewrite cc_reqQueued_cl_take_req_count, cc_reqQueued_cl_set_last_err. reflexivity.
      + intros t J. pose proof (cl_req_find_NoDup _ _ _ (s_rq_ids _ S6) J). pose proof (cl_req_find_NoDup _ _ _ (s_rq_ids _ S6) R6). congruence. }
    eapply effo_trans; [exact E9 | apply effo_wl_exit; [exact Pben | exact EW | discriminate | apply (st_ok_eff _ _ _ S6 (proj1 E9))]].
Qed.

End WLIn2.

Section WLIn3.
Context {hstate : Type}.
Implicit Types c : cconn hstate.
Variable enc_field : hstate -> bytes -> bytes -> bool -> bytes * hstate.
Variable enc_set_max : hstate -> N -> hstate.
Variable cfg : cl_config.

Lemma inv_wl_in c : inv c -> cc_wl_done c = false -> inv (cl_wl_in enc_field enc_set_max cfg c).
Proof.
  intros Hi WD. destruct (cc_inQ c) as [|tag q] eqn:IQ; [unfold cl_wl_in; rewrite IQ; exact Hi|].
  destruct (wl_in_cases (CP:=cp_any) enc_field enc_set_max cfg any_item c tag q (fun _ _ => Logic.I) (fun _ _ _ _ _ _ => Logic.I) Hi IQ WD)
    as [[_ [_ [E _]]]|[[_ ->]|(c6 & x & l & AD & E)]].
  - apply (inv_effo _ _ _ Hi E).
  - apply (inv_effo (CP:=cp_any) any_item c _ Hi). apply (effo_dequeue_resolve (CP:=cp_any)); [exact Logic.I | apply Hi | exact IQ].
  - apply (inv_effo _ _ _ (inv_admitted c c6 x tag q l Hi WD AD) E).
Qed.

End WLIn3.

(* ---------- every reachable state ---------- *)
Section InvRun.
Context {hstate : Type}.
Variable dec_field : hstate -> N -> bytes -> dec_res hstate.
Variable enc_field : hstate -> bytes -> bytes -> bool -> bytes * hstate.
Variable enc_set_max : hstate -> N -> hstate.
Variable cfg : cl_config.
Variable h0 : hstate.
Variable first : bytes.
Implicit Types c : cconn hstate.

Notation step := (cl_step dec_field enc_field enc_set_max cfg).
Notation run := (cl_run dec_field enc_field enc_set_max cfg h0 first).

Lemma inv_empty c : cc_ctxs c = [] -> cc_inQ c = [] -> cc_reqQueued c = [] -> cc_pending c = [] -> cc_outQ c = [] ->
  cc_hdrErr c = None -> cc_lastErr c <> Some CENil -> cc_rl_stuck c = false -> cc_wl_stuck c = false -> 0 < cc_nextID c ->
  (cc_wl_done c = true -> cc_closed c = true) -> (cc_rl_done c = true -> cc_closed c = true) -> inv c.
Proof.
  intros H1 H2 H3 H4 H5 HE HL H6 H7 H8 H9 H10.
  assert (G : forall t, cl_ctx_get c t = None) by (intro t; unfold cl_ctx_get; rewrite H1; reflexivity).
  split; constructor; try (intros t x Gx; rewrite G in Gx; discriminate); try (intros t t' x x' Gx; rewrite G in Gx; discriminate).
  - rewrite H1. constructor.
  - split; [intros t x Gx; rewrite G in Gx; discriminate | auto].
  - rewrite H2. constructor.
  - rewrite H2. intros t [].
  - rewrite H3. constructor.
  - rewrite H3. constructor.
  - rewrite H3. intros id t [].
  - exact H8.
  - auto.
  - exact H10.
  - rewrite H5. constructor.
  - rewrite HE. intros e He. discriminate.
  - exact HL.
  - rewrite H4. intros pb [].
  - rewrite H4. intros pb [].
  - rewrite H4. constructor.
Qed.

Lemma inv_init : inv (cl_init enc_set_max h0 first).
Proof.
  unfold cl_init. destruct (cl_settings_deserialize false first); apply inv_empty; try reflexivity; cbn; auto; discriminate.
Qed.

Lemma inv_step c e : inv c -> inv (step c e).
Proof.
  intro Hi. destruct e; cbn [cl_step].
  - apply inv_submit, Hi.
  - apply inv_submit_check, Hi.
  - unfold cl_wl_live. destruct (cc_wl_done c) eqn:W; cbn [negb andb]; [exact Hi|]. destruct (negb (cc_wl_stuck c)); [|exact Hi].
    apply inv_wl_in; assumption.
  - destruct (cl_wl_live c); [|exact Hi]. apply (inv_effo (CP:=cp_any) any_item c _ Hi), effo_wl_out; [exact (fun _ _ => I) | apply Hi].
  - destruct (cl_wl_live c); [|exact Hi]. apply (inv_effo (CP:=cp_any) any_item c _ Hi), effo_wl_win; [exact (fun _ _ => I) | apply Hi].
  - destruct (cl_wl_live c); [|exact Hi]. apply (inv_effo (CP:=cp_any) any_item c _ Hi), effo_wl_ping; [exact (fun _ _ => I) | apply Hi].
  - destruct (cl_wl_live c); [|exact Hi]. apply (inv_effo (CP:=cp_any) any_item c _ Hi), effo_wl_done; [exact (fun _ _ => I) | apply Hi].
  - destruct (cl_rl_live c); [|exact Hi]. apply (inv_effo (CP:=cp_any) any_item c _ Hi), effo_rl_step; try (apply Hi); try (intros; exact I).
  - apply inv_timeout_fire, Hi.
  - apply (inv_timeout_cancel (CP:=cp_any)), Hi.
  - apply (inv_receive (CP:=cp_any)), Hi.
  - apply (inv_effo (CP:=cp_any) any_item c _ Hi), effo_close_call.
  - apply (inv_effo (CP:=cp_any) any_item c _ Hi), effo_close_finish. exact (fun _ _ => I).
  - apply (inv_effo (CP:=cp_any) any_item c _ Hi), effo_write_fail.
Qed.

Theorem inv_run evs : inv (run evs).
Proof. apply cl_run_ind; [apply inv_init | intros; apply inv_step; assumption]. Qed.

Lemma inv_reachable c : cl_reachable dec_field enc_field enc_set_max cfg h0 first c -> inv c.
Proof. intro R. destruct (cl_reachable_run _ _ _ _ _ _ _ _ R) as [evs ->]. apply inv_run. Qed.

End InvRun.
