(* Proofs/SrvMsgDefs.v - vocabulary for C20 (request well-formedness, server half) and C18 (SETTINGS, server half).
   Definitions only (plus the few computation lemmas that make them usable).

   - classify / vstep / vrun : the validation that `header_field` performs, as an automaton over eight flags
   - fields_loop             : `header_field` folded over a decoded field list (no decoder, no connection)
   - frag_dec / block_dec    : "the decoder, run over these fragments, yields exactly these fields" for the abstract
                               `dec_field` (the relation C03 discharges for the instance)
   - req_frames / lockstep   : the frames of one request, HEADERS CONTINUATION* DATA* [HEADERS CONTINUATION*]
   - vacc2                   : the verdict of the automaton on header list + trailers + DATA length
                               (shown equal to wf_request in SrvMsgPure.v)
   - within_limits           : the size policy (cf_maxHeaderList, cf_maxBody) under which validity decides *)
From H2V Require Import Base.Bytes Base.MachineInt Base.Result Gen.GenConsts Impl.ServerConn Spec.Http2Messages
     Proofs.SrvBase.
From Coq Require Import ZArith Lia ZifyN ZifyNat ZifyBool.
Local Open Scope N_scope.

(* ---------- field names by what the server does with them ---------- *)
Inductive cls : Type :=
| KUpper | KMethod | KPath | KScheme | KAuth | KBadPseudo | KConn | KTe | KCL | KPlain.

Definition classify (k : bytes) : cls :=
  if has_upper_case k then KUpper
  else if ServerConn.is_pseudo k then
    if bytes_eqb k S_method then KMethod
    else if bytes_eqb k S_path then KPath
    else if bytes_eqb k S_scheme then KScheme
    else if bytes_eqb k S_authority then KAuth
    else KBadPseudo
  else if is_connection_specific k then KConn
  else if bytes_eqb k S_te then KTe
  else if bytes_eqb k S_content_length then KCL
  else KPlain.

(* the part of a stream's header state that validation reads and writes *)
Record vst : Type := mkV {
  v_m : bool; v_s : bool; v_p : bool; v_a : bool;   (* :method :scheme :path :authority seen *)
  v_r : bool;                                       (* a regular field seen *)
  v_cl : Z; v_has : bool;                           (* content-length *)
  v_path : bytes
}.

Definition vabs (h : hdr) : vst :=
  mkV (hd_pMethod h) (hd_pScheme h) (hd_pPath h) (hd_pAuth h) (hd_regularSeen h) (hd_contentLength h) (hd_hasCL h) (hd_path h).

Definition v0 : vst := mkV false false false false false 0 false [].

Definition body_over (cfg : config) (n : Z) : bool := ((0 <? cf_maxBody cfg) && (cf_maxBody cfg <? n))%Z.
Definition list_over (cfg : config) (n : Z) : bool := ((0 <? cf_maxHeaderList cfg) && (cf_maxHeaderList cfg <? n))%Z.

(* one field: inl code = RST_STREAM(code) *)
Definition vstep (cfg : config) (st : vst) (c : cls) (v : bytes) : N + vst :=
  let reg (cl : Z) (has : bool) := mkV (v_m st) (v_s st) (v_p st) (v_a st) true cl has (v_path st) in
  match c with
  | KUpper | KBadPseudo | KConn => inl c_ProtocolError
  | KMethod => if v_r st || v_m st then inl c_ProtocolError
               else inr (mkV true (v_s st) (v_p st) (v_a st) (v_r st) (v_cl st) (v_has st) (v_path st))
  | KPath => if v_r st || v_p st then inl c_ProtocolError
             else inr (mkV (v_m st) (v_s st) true (v_a st) (v_r st) (v_cl st) (v_has st) v)
  | KScheme => if v_r st || v_s st then inl c_ProtocolError
               else inr (mkV (v_m st) true (v_p st) (v_a st) (v_r st) (v_cl st) (v_has st) (v_path st))
  | KAuth => if v_r st || v_a st then inl c_ProtocolError
             else inr (mkV (v_m st) (v_s st) (v_p st) true (v_r st) (v_cl st) (v_has st) (v_path st))
  | KTe => if bytes_eqb v S_trailers then inr (reg (v_cl st) (v_has st)) else inl c_ProtocolError
  | KCL => match parse_uint v with
           | Some n => if body_over cfg n then inl c_EnhanceYourCalm
                       else if v_has st && negb (n =? v_cl st)%Z then inl c_ProtocolError
                       else inr (reg n true)
           | None => inl c_ProtocolError
           end
  | KPlain => inr (reg (v_cl st) (v_has st))
  end.

Fixpoint vrun (cfg : config) (st : vst) (fs : list field) : N + vst :=
  match fs with
  | [] => inr st
  | (k, v) :: t => match vstep cfg st (classify k) v with inl c => inl c | inr st' => vrun cfg st' t end
  end.

(* the request being assembled *)
Definition req_step (r : request) (f : field) : request :=
  match classify (fst f) with
  | KMethod => rq_set_method r (snd f)
  | KPath => rq_set_uri r (snd f)
  | KScheme => rq_set_scheme r (snd f)
  | KAuth => rq_set_authority r (snd f)
  | KTe | KCL | KPlain => rq_add_field r (fst f) (snd f)
  | _ => r
  end.
Definition req_fold (r : request) (fs : list field) : request := fold_left req_step fs r.

(* RFC 7540 6.5.2: the size of a header list *)
Definition fsize (fs : list field) : Z :=
  fold_right (fun f acc => (Z.of_N (len (fst f)) + Z.of_N (len (snd f)) + 32 + acc)%Z) 0%Z fs.

(* ---------- header_field folded over a field list ---------- *)
Fixpoint fields_loop (cfg : config) (h : hdr) (fs : list field) : h2err + hdr :=
  match fs with
  | [] => inr h
  | (k, v) :: t => match header_field cfg h k v with inl e => inl e | inr h' => fields_loop cfg h' t end
  end.

Definition hdr_of (h : hdr) (st : vst) (size : Z) (nf : N) (rq : request) : hdr :=
  mkHdr (hd_headersFinished h) (hd_prev h) (v_m st) (v_s st) (v_p st) (v_a st) (v_r st) (v_cl st) (v_has st)
        size nf (v_path st) rq.

(* ---------- the decoder's output, for the abstract dec_field ---------- *)
Section Dec.
Variable hstate : Type.
Variable dec_field : hstate -> N -> bytes -> dec_res hstate.

(* one frame's worth of block: the decoder, started in state d with n fields of the block already counted, run
   over b, yields the fields fs, ends in state d' with n' fields counted, and leaves `carry` undecoded (a field
   cut by the frame boundary; possible only when END_HEADERS is not set).
   Every decoded field consumes input (C03_next_field_progress for the instance). *)
Inductive frag_dec (eh : bool) : hstate -> N -> bytes -> list field -> hstate -> N -> bytes -> Prop :=
| fd_nil d n : frag_dec eh d n [] [] d n []
| fd_none d n b d' : b <> [] -> dec_field d n b = DNone hstate d' -> frag_dec eh d n b [] d' n []
| fd_short d n b d' : b <> [] -> eh = false -> dec_field d n b = DShort hstate d' -> frag_dec eh d n b [] d' n b
| fd_field d n b k v rest d1 fs d' n' carry :
    b <> [] -> dec_field d n b = DField hstate k v rest d1 -> (length rest < length b)%nat ->
    frag_dec eh d1 (n + 1) rest fs d' n' carry ->
    frag_dec eh d n b ((k, v) :: fs) d' n' carry.

(* a whole block cut into fragments (HEADERS, then CONTINUATIONs; END_HEADERS on the last one): the fields, the final
   decoder state, and what was carried over each frame boundary.
   block_dec d n prev frags fs d' carries *)
Inductive block_dec : hstate -> N -> bytes -> list bytes -> list field -> hstate -> list bytes -> Prop :=
| bd_last d n prev frag fs d' n' :
    frag_dec true d n (prev ++ frag) fs d' n' [] -> block_dec d n prev [frag] fs d' []
| bd_more d n prev frag frags fs1 d1 n1 carry fs2 d' carries :
    frags <> [] ->
    frag_dec false d n (prev ++ frag) fs1 d1 n1 carry ->
    block_dec d1 n1 carry frags fs2 d' carries ->
    block_dec d n prev (frag :: frags) (fs1 ++ fs2) d' (carry :: carries).

(* "dec_field run over the block yields exactly fs" *)
Definition decodes (d : hstate) (frags : list bytes) (fs : list field) (d' : hstate) (carries : list bytes) : Prop :=
  block_dec d 0 [] frags fs d' carries.

End Dec.
Arguments frag_dec {hstate}.
Arguments block_dec {hstate}.
Arguments decodes {hstate}.

(* ---------- the frames of one request ---------- *)
Definition fl_of (es eh : bool) : N := (if es then FL_ES else 0) + (if eh then FL_EH else 0).

Definition headers_frame (sid : N) (es eh : bool) (frag : bytes) : sframe :=
  mkSFrame KHeaders (fl_of es eh) sid (len frag) frag 0 0 0 false 0 false 0.
Definition cont_frame (sid : N) (eh : bool) (frag : bytes) : sframe :=
  mkSFrame KCont (fl_of false eh) sid (len frag) frag 0 0 0 false 0 false 0.
Definition data_frame (sid : N) (es : bool) (d : bytes) : sframe :=
  mkSFrame KData (fl_of es false) sid (len d) d 0 0 0 false 0 false 0.

Definition is_nil {A} (l : list A) : bool := match l with [] => true | _ => false end.

Fixpoint cont_frames (sid : N) (frags : list bytes) : list sframe :=
  match frags with
  | [] => []
  | f :: rest => cont_frame sid (is_nil rest) f :: cont_frames sid rest
  end.
Definition block_frames (sid : N) (es : bool) (frags : list bytes) : list sframe :=
  match frags with
  | [] => []
  | f :: rest => headers_frame sid es (is_nil rest) f :: cont_frames sid rest
  end.
Fixpoint data_frames (sid : N) (es : bool) (chunks : list bytes) : list sframe :=
  match chunks with
  | [] => []
  | d :: rest => data_frame sid (es && is_nil rest) d :: data_frames sid es rest
  end.

(* END_STREAM goes on the trailers' HEADERS frame, else on the last DATA frame, else on the HEADERS frame *)
Definition req_frames (sid : N) (hfrags : list bytes) (chunks : list bytes) (tfrags : option (list bytes)) : list sframe :=
  match tfrags with
  | Some tf => block_frames sid false hfrags ++ data_frames sid false chunks ++ block_frames sid true tf
  | None => block_frames sid (is_nil chunks) hfrags ++ data_frames sid true chunks
  end.

(* the peer sends a frame, the read loop takes it, the stream loop takes it *)
Definition lockstep (frs : list sframe) : list event := flat_map (fun f => [EvRL (RFrame f); EvSL]) frs.

Definition body_of (chunks : list bytes) : bytes := concat chunks.

(* ---------- the validation of a whole request, as the model performs it ---------- *)
Definition v_valid (st : vst) : bool := v_m st && v_s st && v_p st && negb (is_nil (v_path st)).
Definition v_cl_ok (st : vst) (datalen : N) : bool := if v_has st then (Z.of_N datalen =? v_cl st)%Z else true.
(* a trailer block starts with "regular field seen" set *)
Definition v_setr (st : vst) : vst := mkV (v_m st) (v_s st) (v_p st) (v_a st) true (v_cl st) (v_has st) (v_path st).

Definition vacc (cfg : config) (st : vst) (fs : list field) (datalen : N) : bool :=
  match vrun cfg st fs with inr st' => v_cl_ok st' datalen | inl _ => false end.
Definition vacc2 (cfg : config) (st : vst) (fs tr : list field) (datalen : N) : bool :=
  match vrun cfg st fs with inr st1 => v_valid st1 && vacc cfg (v_setr st1) tr datalen | inl _ => false end.

(* ---------- the size policy ---------- *)
(* header list (trailers included: the count runs over the whole stream), every carried-over partial field, the body *)
Definition within_limits (cfg : config) (fields trailers : list field) (carries : list bytes) (datalen : N) : bool :=
  negb (list_over cfg (fsize (fields ++ trailers)))
  && forallb (fun c => negb (list_over cfg (Z.of_N (len c)))) carries
  && negb (body_over cfg (Z.of_N datalen)).
