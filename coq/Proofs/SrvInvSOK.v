(* Proofs/SrvInvSOK.v - the per-stream invariant behind C13 (d)(e): what is known of the request a table stream has
   accumulated: body length, header-list size, buffered header bytes. It is closed under everything the stream loop
   does to a stream (Qclosed), so it holds of every table stream while the loop runs and of every dispatched request. *)
From H2V Require Import Base.Bytes Base.MachineInt Base.Result Gen.GenConsts Impl.ServerConn Proofs.SrvBase
  Proofs.SrvInvMoves Proofs.SrvInvDecomp.
From Coq Require Import ZArith Lia ZifyN ZifyNat ZifyBool.
Local Open Scope N_scope.

(* RFC 7540 6.5.2: the size of a header field is name + value + 32 *)
Definition hsz (k v : bytes) : Z := (Z.of_N (len k) + Z.of_N (len v) + 32)%Z.
Definition fields_size (l : list (bytes * bytes)) : Z := fold_right (fun kv acc => (hsz (fst kv) (snd kv) + acc)%Z) 0%Z l.
Definition psize (present : bool) (k v : bytes) : Z := if present then hsz k v else 0%Z.
Definition auth_of (r : request) : bytes := match rq_authority r with Some a => a | None => [] end.

(* the header list a stream has decoded so far: its regular fields (trailers included) and the pseudo-headers seen *)
Definition hdr_list_size (h : hdr) : Z :=
  (fields_size (rq_fields (hd_req h)) + psize (hd_pMethod h) S_method (rq_method (hd_req h)) +
   psize (hd_pPath h) S_path (rq_uri (hd_req h)) + psize (hd_pScheme h) S_scheme (rq_scheme (hd_req h)) +
   psize (hd_pAuth h) S_authority (auth_of (hd_req h)))%Z.

(* the header list of a complete request, from the request alone *)
Definition req_list_size (r : request) : Z :=
  (fields_size (rq_fields r) + hsz S_method (rq_method r) + hsz S_path (rq_uri r) + hsz S_scheme (rq_scheme r) +
   match rq_authority r with Some a => hsz S_authority a | None => 0 end)%Z.

Lemma fields_size_app l k v : fields_size (l ++ [(k, v)]) = (fields_size l + hsz k v)%Z.
Proof. unfold fields_size. induction l as [|x l IH]; cbn [app fold_right fst snd]; [lia|]. rewrite IH. lia. Qed.

Lemma bytes_eqb_true a : forall b, bytes_eqb a b = true -> a = b.
Proof.
  induction a as [|x a IH]; intros [|y b]; cbn [bytes_eqb]; try discriminate; [reflexivity|].
  intro H. apply andb_prop in H. destruct H as [H1 H2]. f_equal; [lia | auto].
Qed.

Section SOK.
Variable hstate : Type.
Variable dec_field : hstate -> N -> bytes -> dec_res hstate.
Variable cfg : config.
Notation L := (cf_maxHeaderList cfg).

(* the part about the header list, without the carried-over bytes *)
Record HK0 (h : hdr) : Prop := mkHK0 {
  hk_size : hd_headerListSize h = hdr_list_size h;
  hk_lim : (0 < L -> hd_headerListSize h <= L)%Z;
  hk_auth : hd_pAuth h = match rq_authority (hd_req h) with Some _ => true | None => false end
}.

Record SOK (s : stream) : Prop := mkSOK {
  so_hdr : HK0 (get_hdr s);
  so_prev : (0 < L -> Z.of_N (len (st_prev s)) <= L)%Z;
  so_body : (Z.of_N (len (rq_body (st_req s))) <= st_recvBody s)%Z;
  so_body_lim : (0 < cf_maxBody cfg -> Z.of_N (len (rq_body (st_req s))) <= cf_maxBody cfg)%Z;
  so_flags : st_state s <> SClosed -> st_headersFinished s = true ->
             st_pMethod s = true /\ st_pScheme s = true /\ st_pPath s = true
}.

(* ---------- one field ---------- *)
Ltac hk_simpl :=
  unfold hdr_list_size, auth_of in *;
  cbn [hd_req hd_pMethod hd_pPath hd_pScheme hd_pAuth hd_headerListSize hd_prev hd_headersFinished
       rq_fields rq_method rq_uri rq_scheme rq_authority rq_body
       rq_set_method rq_set_uri rq_set_scheme rq_set_authority rq_add_field auth_of psize] in *.

Lemma header_field_ok h k v h' : HK0 h -> header_field cfg h k v = inr h' ->
  HK0 h' /\ hd_prev h' = hd_prev h /\ hd_headersFinished h' = hd_headersFinished h /\
  rq_body (hd_req h') = rq_body (hd_req h).
Proof.
  intros [Hs Hl Ha]. unfold header_field.
  set (size := (hd_headerListSize h + Z.of_N (len k) + Z.of_N (len v) + 32)%Z).
  assert (SZ : size = (hd_headerListSize h + hsz k v)%Z) by (unfold size, hsz; lia).
  destruct ((0 <? L) && (L <? size))%Z eqn:Lim; [discriminate|].
  assert (HL : (0 < L -> size <= L)%Z).
  { intro H0. apply andb_false_iff in Lim. destruct Lim as [A|A]; apply Z.ltb_ge in A; [exfalso; apply (Z.lt_irrefl 0), (Z.lt_le_trans _ _ _ H0 A) | exact A]. }
  clearbody size. clear Lim.
  destruct (has_upper_case k); [discriminate|].
  destruct (is_pseudo k).
  - cbn [hd_regularSeen]. destruct (hd_regularSeen h); [discriminate|].
    destruct (bytes_eqb k S_method) eqn:E1.
    { apply bytes_eqb_true in E1. subst k. cbn [hd_pMethod]. destruct (hd_pMethod h) eqn:P; [discriminate|].
      intro H; inversion H; subst h'; clear H. split; [|repeat split]. constructor; hk_simpl; try assumption.
      rewrite P in Hs. hk_simpl. lia. }
    destruct (bytes_eqb k S_path) eqn:E2.
    { apply bytes_eqb_true in E2. subst k. cbn [hd_pPath]. destruct (hd_pPath h) eqn:P; [discriminate|].
      intro H; inversion H; subst h'; clear H. split; [|repeat split]. constructor; hk_simpl; try assumption.
      rewrite P in Hs. hk_simpl. lia. }
    destruct (bytes_eqb k S_scheme) eqn:E3.
    { apply bytes_eqb_true in E3. subst k. cbn [hd_pScheme]. destruct (hd_pScheme h) eqn:P; [discriminate|].
      intro H; inversion H; subst h'; clear H. split; [|repeat split]. constructor; hk_simpl; try assumption.
      rewrite P in Hs. hk_simpl. lia. }
    destruct (bytes_eqb k S_authority) eqn:E4; [|discriminate].
    { apply bytes_eqb_true in E4. subst k. cbn [hd_pAuth]. destruct (hd_pAuth h) eqn:P; [discriminate|].
      intro H; inversion H; subst h'; clear H. split; [|repeat split]. constructor; hk_simpl; try reflexivity; try assumption.
      rewrite P in Hs. hk_simpl. lia. }
  - destruct (is_connection_specific k); [discriminate|]. destruct (_ && _)%bool; [discriminate|].
    match goal with |- match ?cl with inl _ => _ | inr _ => _ end = _ -> _ => destruct cl as [e|[n hascl]] end; [discriminate|].
    intro H; inversion H; subst h'; clear H. split; [|repeat split]. constructor; hk_simpl; try assumption.
    rewrite fields_size_app. lia.
Qed.

(* ---------- the decoding loop ---------- *)
Lemma header_loop_ok fuel : forall eh d h b d' h' e rest,
  HK0 h -> hd_prev h = [] -> hd_headersFinished h = false ->
  header_loop dec_field fuel cfg eh d h b = (d', h', e, rest) ->
  HK0 h' /\ hd_headersFinished h' = false /\ rq_body (hd_req h') = rq_body (hd_req h) /\
  (e <> None -> hd_prev h' = []).
Proof.
  induction fuel as [|fuel IH]; intros eh d h b d' h' e rest HK HP HF; cbn [header_loop].
  - intro H; inversion H; subst. auto.
  - destruct b as [|b0 b]; [intro H; inversion H; subst; auto|].
    destruct (dec_field d (hd_blockFields h) (b0 :: b)) as [k v rest0 st|st|st|st|] eqn:D.
    + destruct (header_field cfg h k v) as [er|h1] eqn:HFd.
      * intro H; inversion H; subst. auto.
      * destruct (header_field_ok _ _ _ _ HK HFd) as (K1 & P1 & F1 & B1). intro H.
        destruct (IH _ _ _ _ _ _ _ _ K1 (eq_trans P1 HP) (eq_trans F1 HF) H) as (K2 & F2 & B2 & P2).
        split; [exact K2|]. split; [exact F2|]. split; [congruence | exact P2].
    + intro H; inversion H; subst. auto.
    + destruct (negb eh).
      * intro H; inversion H; subst. split; [destruct HK; constructor; assumption|]. split; [assumption|]. split; [reflexivity|]. intro N. congruence.
      * intro H; inversion H; subst. auto.
    + intro H; inversion H; subst. auto.
    + intro H; inversion H; subst. auto.
Qed.

(* a stream after set_hdr *)
Lemma get_hdr_set_hdr s h : get_hdr (set_hdr s h) = h.
Proof. destruct h. reflexivity. Qed.

(* what a stream error leaves behind is closed: only the header and body facts matter *)
Lemma SOK_closed_of s x :
  HK0 (get_hdr x) -> st_prev x = [] \/ st_prev x = st_prev s -> st_req x = st_req s \/ rq_body (st_req x) = rq_body (st_req s) ->
  (st_recvBody s <= st_recvBody x)%Z -> SOK s -> st_state x = SClosed -> SOK x.
Proof.
  intros HK HP HR HV [K P B BL FL] HC. constructor.
  - assumption.
  - destruct HP as [-> | ->]; [cbn; lia | assumption].
  - destruct HR as [-> | ->]; lia.
  - destruct HR as [-> | ->]; assumption.
  - congruence.
Qed.

Lemma handle_header_frame_ok (c : sconn hstate) s fr c1 s1 e : SOK s ->
  handle_header_frame dec_field cfg c s fr = (c1, s1, e) ->
  (forall code, e <> Some (EGoAway code)) ->
  HK0 (get_hdr s1) /\ st_headersFinished s1 = false /\ rq_body (st_req s1) = rq_body (st_req s) /\
  st_recvBody s1 = st_recvBody s /\ st_state s1 = st_state s /\
  (e = None -> (0 < L -> Z.of_N (len (st_prev s1)) <= L)%Z) /\ (e <> None -> st_prev s1 = []).
Proof.
  intros [K P B BL FL] H NG. unfold handle_header_frame in H.
  destruct (_ && _)%bool; [inversion H; subst; exfalso; eapply NG; reflexivity|].
  destruct (_ && _)%bool; [inversion H; subst; exfalso; eapply NG; reflexivity|].
  set (h0 := get_hdr s) in *.
  match type of H with context [header_loop dec_field ?f cfg ?eh ?d ?h1 ?b] =>
    destruct (header_loop dec_field f cfg eh d h1 b) as [[[d' h2] e2] rest] eqn:HL;
    assert (K1 : HK0 h1) by (destruct K; constructor; assumption);
    destruct (header_loop_ok _ _ _ _ _ _ _ _ _ K1 eq_refl eq_refl HL) as (K2 & F2 & B2 & P2)
  end.
  cbn [hd_req] in B2.
  assert (COMMON : forall (cc : sconn hstate) ee, (cc, set_hdr s h2, ee) = (c1, s1, e) ->
            HK0 (get_hdr s1) /\ st_headersFinished s1 = false /\ rq_body (st_req s1) = rq_body (st_req s) /\
            st_recvBody s1 = st_recvBody s /\ st_state s1 = st_state s).
  { intros cc ee E. inversion E; subst. rewrite get_hdr_set_hdr. split; [exact K2|]. split; [exact F2|].
    split; [exact B2|]. split; reflexivity. }
  assert (FIN : forall (cc : sconn hstate) ee, ee <> None -> e2 <> None -> (cc, set_hdr s h2, ee) = (c1, s1, e) ->
            HK0 (get_hdr s1) /\ st_headersFinished s1 = false /\ rq_body (st_req s1) = rq_body (st_req s) /\
            st_recvBody s1 = st_recvBody s /\ st_state s1 = st_state s /\
            (e = None -> (0 < L -> Z.of_N (len (st_prev s1)) <= L)%Z) /\ (e <> None -> st_prev s1 = [])).
  { intros cc ee NE NE2 E. destruct (COMMON _ _ E) as (A1 & A2 & A3 & A4 & A5). inversion E; subst.
    split; [exact A1|]. split; [exact A2|]. split; [exact A3|]. split; [exact A4|]. split; [exact A5|].
    split; [intro; contradiction | intros _; exact (P2 NE2)]. }
  destruct e2 as [[code|code|]|].
  - inversion H; subst. exfalso. eapply NG. reflexivity.
  - match type of H with context [discard_fragment ?a ?b ?c0 ?d ?e ?f] => destruct (discard_fragment a b c0 d e f) as [c3 [de|]] end;
      (eapply FIN; [| |exact H]; discriminate).
  - eapply FIN; [| |exact H]; discriminate.
  - destruct ((0 <? L) && (L <? Z.of_N (len (hd_prev h2))))%Z eqn:Lim.
    + inversion H; subst. exfalso. eapply NG. reflexivity.
    + destruct (COMMON _ _ H) as (A1 & A2 & A3 & A4 & A5). inversion H; subst.
      split; [exact A1|]. split; [exact A2|]. split; [exact A3|]. split; [exact A4|]. split; [exact A5|].
      split; [|intro N; contradiction].
      intros _ HL0. apply andb_false_iff in Lim. destruct Lim as [A|A]; apply Z.ltb_ge in A;
        [exfalso; apply (Z.lt_irrefl 0), (Z.lt_le_trans _ _ _ HL0 A) | exact A].
Qed.

Lemma SOK_get_hdr_eq s x : get_hdr x = get_hdr s -> st_recvBody x = st_recvBody s -> st_state x = st_state s \/ st_state x = SClosed ->
  SOK s -> SOK x.
Proof.
  intros E ER ES [K P B BL FL].
  assert (E1 : st_prev x = st_prev s) by (apply (f_equal hd_prev) in E; exact E).
  assert (E2 : st_req x = st_req s) by (apply (f_equal hd_req) in E; exact E).
  assert (E3 : st_headersFinished x = st_headersFinished s) by (apply (f_equal hd_headersFinished) in E; exact E).
  assert (E4 : st_pMethod x = st_pMethod s) by (apply (f_equal hd_pMethod) in E; exact E).
  assert (E5 : st_pScheme x = st_pScheme s) by (apply (f_equal hd_pScheme) in E; exact E).
  assert (E6 : st_pPath x = st_pPath s) by (apply (f_equal hd_pPath) in E; exact E).
  constructor; rewrite ?E, ?E1, ?E2, ?ER, ?E3, ?E4, ?E5, ?E6; try assumption.
  destruct ES as [-> | ->]; [assumption | congruence].
Qed.

Lemma SOK_new id w k t : SOK (set_orig_started (new_stream id w) k t).
Proof.
  constructor; cbn; try lia; try discriminate.
  constructor; cbn; [reflexivity | lia | reflexivity].
Qed.
Lemma SOK_set_state_closed s : SOK s -> SOK (set_state s SClosed).
Proof. apply SOK_get_hdr_eq; auto. Qed.
Lemma SOK_set_weReset s : SOK s -> SOK (set_weReset s).
Proof. apply SOK_get_hdr_eq; auto. Qed.
Lemma SOK_set_flags s a b d : SOK s -> SOK (set_flags s a b d).
Proof. apply SOK_get_hdr_eq; auto. Qed.
Lemma SOK_set_window s w : SOK s -> SOK (set_window s w).
Proof. apply SOK_get_hdr_eq; auto. Qed.
Lemma SOK_set_snd s n : SOK s -> SOK (set_snd s n).
Proof. apply SOK_get_hdr_eq; auto. Qed.

Lemma SOK_handle_state fr s : SOK s -> SOK (handle_state fr s).
Proof.
  intro H. unfold handle_state.
  assert (H0 : SOK (if fkind_eqb (sf_kind fr) KRst then set_state s SClosed else s))
    by (destruct (fkind_eqb (sf_kind fr) KRst); auto using SOK_set_state_closed).
  set (s0 := if fkind_eqb (sf_kind fr) KRst then set_state s SClosed else s) in *. clearbody s0.
  (* any change of state that does not leave SClosed keeps the invariant *)
  assert (ST : forall st, st_state s0 <> SClosed -> SOK (set_state s0 st)).
  { intros st NC. destruct H0 as [K P B BL FL]. constructor; try assumption. intros _. apply FL. assumption. }
  destruct (st_state s0) eqn:E; repeat match goal with |- context [if ?b then _ else _] => destruct b end;
    try assumption; try (apply ST; congruence); auto using SOK_set_state_closed.
Qed.

(* ---------- handle_frame ---------- *)
Lemma SOK_frame (c : sconn hstate) s fr c' s' e : SOK s -> handle_frame dec_field cfg c s fr = (c', s', e) ->
  match e with
  | None => SOK s'
  | Some (EReset _) => SOK (set_state (set_weReset s') SClosed)
  | _ => True
  end.
Proof.
  intros HS H. unfold handle_frame in H.
  destruct (verify_state s fr) as [ve|] eqn:V.
  { assert (G : exists code, ve = EGoAway code).
    { unfold verify_state in V.
      destruct (st_state s); try discriminate; repeat match type of V with (if ?b then _ else _) = _ => destruct b end;
        inversion V; subst; eauto. }
    destruct G as (code & ->). inversion H; subst. exact I. }
  assert (SAME : forall ee, (c, s, ee) = (c', s', e) ->
            match e with None => SOK s' | Some (EReset _) => SOK (set_state (set_weReset s') SClosed) | _ => True end).
  { intros ee E. inversion E; subst. destruct e as [[| |]|]; auto using SOK_set_state_closed, SOK_set_weReset. }
  assert (HDRS : (if (3 <=? sstate_rank (st_state s)) && negb (continuing_headers s fr)
     then (c, s, Some (EGoAway c_ProtocolError))
     else
      let '(c1, s1, e) := handle_header_frame dec_field cfg c s fr in
      match e with
      | Some e0 => (c1, s1, Some e0)
      | None =>
          if flag_has (sf_flags fr) FL_EH
          then
           let fin := match st_prev s1 with [] => true | _ :: _ => false end in
           let s2 := set_headers_finished s1 fin in
           if negb fin
           then (c1, s2, Some (EGoAway c_ProtocolError))
           else match validate_request_pseudo_headers s2 with
                | Some e0 => (c1, s2, Some e0)
                | None => (c1, s2, None)
                end
          else (c1, s1, None)
      end) = (c', s', e) ->
      match e with None => SOK s' | Some (EReset _) => SOK (set_state (set_weReset s') SClosed) | _ => True end).
  { clear H. intro H. destruct (_ && _)%bool; [inversion H; subst; exact I|].
    destruct (handle_header_frame dec_field cfg c s fr) as [[c1 s1] e1] eqn:HH.
    assert (OK1 := fun NG => handle_header_frame_ok c s fr c1 s1 e1 HS HH NG).
    destruct e1 as [e1|].
    - inversion H; subst. destruct e1 as [code|code|]; try exact I.
      destruct OK1 as (A1 & A2 & A3 & A4 & A5 & A6 & A7); [intros; discriminate|].
      destruct HS as [K P B BL FL]. constructor; cbn; try assumption.
      + rewrite A7 by discriminate. cbn. lia.
      + rewrite A3, A4. assumption.
      + rewrite A3. assumption.
      + congruence.
    - destruct OK1 as (A1 & A2 & A3 & A4 & A5 & A6 & A7); [intros; discriminate|].
      assert (S1 : SOK s1).
      { destruct HS as [K P B BL FL]. constructor; try assumption; try (rewrite ?A3, ?A4; assumption); [auto | congruence]. }
      destruct (flag_has (sf_flags fr) FL_EH); [|inversion H; subst; exact S1].
      cbv zeta in H. destruct (st_prev s1) eqn:PV; cbn [negb] in H; [|inversion H; subst; exact I].
      set (s2 := set_headers_finished s1 true) in *.
      assert (G2 : get_hdr s2 = let h := get_hdr s1 in mkHdr true (hd_prev h) (hd_pMethod h) (hd_pScheme h) (hd_pPath h) (hd_pAuth h)
                     (hd_regularSeen h) (hd_contentLength h) (hd_hasCL h) (hd_headerListSize h) (hd_blockFields h) (hd_path h) (hd_req h))
        by reflexivity.
      assert (S2c : SOK (set_state (set_weReset s2) SClosed)).
      { destruct S1 as [K P B BL FL]. constructor; cbn; try assumption; [|congruence].
        destruct K as [K1 K2 K3]. constructor; assumption. }
      unfold validate_request_pseudo_headers in H.
      destruct (negb (st_pMethod s2) || negb (st_pScheme s2) || negb (st_pPath s2))%bool eqn:FLG.
      + inversion H; subst. exact S2c.
      + destruct (st_path s2); inversion H; subst; [exact S2c|].
        destruct S1 as [K P B BL FL]. constructor; cbn; try assumption.
        * destruct K as [K1 K2 K3]. constructor; assumption.
        * intros _ _. cbn in FLG. destruct (st_pMethod s1), (st_pScheme s1), (st_pPath s1); try discriminate; auto. }
  destruct (sf_kind fr) eqn:KD; try (inversion H; subst; exact I); try (apply HDRS; exact H).
  - (* DATA *)
    destruct (negb _); [inversion H; subst; exact I|]. destruct (3 <=? _); [inversion H; subst; exact I|].
    destruct HS as [K P B BL FL].
    assert (PL : (0 <= Z.of_N (len (sf_payload fr)))%Z) by lia.
    destruct ((0 <? cf_maxBody cfg) && (cf_maxBody cfg <? st_recvBody s + Z.of_N (len (sf_payload fr))))%Z eqn:Lim.
    + inversion H; subst. constructor; cbn; try assumption; [lia | congruence].
    + inversion H; subst. constructor; cbn; try assumption.
      * destruct K as [K1 K2 K3]. constructor; assumption.
      * unfold len in *. rewrite app_length. lia.
      * intro HB. unfold len in *. rewrite app_length. apply andb_false_iff in Lim. destruct Lim; lia.
  - destruct (_ && _)%bool; [apply (SAME _ H)|]. destruct (_ =? _); apply (SAME _ H).
  - destruct (sstate_eqb _ _); apply (SAME _ H).
  - destruct (sstate_eqb _ _); [apply (SAME _ H)|]. destruct (_ =? _); [apply (SAME _ H)|].
    destruct (_ <? _)%Z; inversion H; subst; auto using SOK_set_state_closed, SOK_set_weReset, SOK_set_window.
Qed.

Theorem SOK_closed : Qclosed hstate dec_field cfg SOK.
Proof.
  constructor.
  - apply SOK_new.
  - apply SOK_set_state_closed.
  - apply SOK_handle_state.
  - apply SOK_set_weReset.
  - apply SOK_set_flags.
  - apply SOK_set_window.
  - apply SOK_set_snd.
  - apply SOK_frame.
Qed.

End SOK.
