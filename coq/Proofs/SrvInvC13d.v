(* Proofs/SrvInvC13d.v - the statements of Props/C13.v (d)(e): what a handler is given, and the buffered header bytes. *)
From H2V Require Import Base.Bytes Base.MachineInt Base.Result Gen.GenConsts Impl.ServerConn Proofs.SrvBase
  Proofs.SrvInvMoves Proofs.SrvInvDecomp Proofs.SrvInvSteps Proofs.SrvInvSlots Proofs.SrvInvOut Proofs.SrvInvSOK.
From Coq Require Import ZArith Lia ZifyN ZifyNat ZifyBool.
Local Open Scope N_scope.

Section Carry.
Variable hstate : Type.
Variable dec_field : hstate -> N -> bytes -> dec_res hstate.
Variable cfg : config.

(* the carry-over of a header block that is being thrown away (sc_discardPrev): the function that stores it refuses a
   carry-over above the limit (the caller then ends the connection) *)
Theorem discard_fragment_carry (c : sconn hstate) id frag eh :
  snd (discard_fragment dec_field cfg c id frag eh) = None -> (0 < cf_maxHeaderList cfg)%Z ->
  (Z.of_N (len (sc_discardPrev (fst (discard_fragment dec_field cfg c id frag eh)))) <= cf_maxHeaderList cfg)%Z.
Proof.
  unfold discard_fragment.
  destruct (discard_loop dec_field _ eh (sc_dec c) (sc_discardFields c) _) as [[[d' fields] carry] e].
  destruct e; [discriminate|]. destruct eh; cbn [fst snd]; [intros _ HL; cbn; lia|].
  destruct ((0 <? cf_maxHeaderList cfg) && (cf_maxHeaderList cfg <? Z.of_N (len carry)))%Z eqn:Lim; cbn [fst snd]; [discriminate|].
  intros _ HL. cbn [sc_discardPrev upd_discard]. apply andb_false_iff in Lim. destruct Lim as [A|A]; apply Z.ltb_ge in A;
    [exfalso; apply (Z.lt_irrefl 0), (Z.lt_le_trans _ _ _ HL A) | exact A].
Qed.

End Carry.

Section C13d.
Variable hstate : Type.
Variable dec_field : hstate -> N -> bytes -> dec_res hstate.
Variable enc_field : hstate -> bytes -> bytes -> bool -> bytes * hstate.
Variable enc_set_max : hstate -> N -> hstate.
Variable cfg : config.
Variable h0 : hstate.
Notation run := (run dec_field enc_field enc_set_max cfg h0).
Notation Q := (SOK cfg).

Lemma SIO_SOK evs : SI cfg Q (run evs) /\ OI hstate dec_field Q (run evs).
Proof. apply SIO_run. apply SOK_closed. Qed.

(* a stream that is dispatchable has a complete, valid request: its header-list size is that of the request *)
Lemma dispatchable_size s : SOK cfg s -> dispatchable s ->
  st_headerListSize s = req_list_size (st_req s) /\
  (0 < cf_maxHeaderList cfg -> req_list_size (st_req s) <= cf_maxHeaderList cfg)%Z /\
  (0 < cf_maxBody cfg -> Z.of_N (len (rq_body (st_req s))) <= cf_maxBody cfg)%Z.
Proof.
  intros [K P B BL FL] (DS & DF & _).
  destruct FL as (F1 & F2 & F3); [congruence | assumption|].
  destruct K as [K1 K2 K3]. unfold hdr_list_size in K1. cbn [get_hdr hd_req hd_pMethod hd_pPath hd_pScheme hd_pAuth hd_headerListSize] in K1, K2, K3.
  rewrite F1, F2, F3 in K1. unfold psize, auth_of in K1.
  assert (E : st_headerListSize s = req_list_size (st_req s)).
  { rewrite K1. unfold req_list_size. rewrite K3. destruct (rq_authority (st_req s)); lia. }
  split; [exact E|]. split; [rewrite <- E; exact K2 | exact BL].
Qed.

(* (d) every request handed to a handler: its body is within MaxRequestBodySize, and its header list - all fields of
   all its header blocks, trailers included, plus the pseudo-headers, each counted name + value + 32 - is within
   MaxHeaderListSize (each limit when it is > 0) *)
Theorem dispatch_bounds evs sid rq : In (ODispatch sid rq) (trace (run evs)) ->
  (0 < cf_maxBody cfg -> Z.of_N (len (rq_body rq)) <= cf_maxBody cfg)%Z /\
  (0 < cf_maxHeaderList cfg -> req_list_size rq <= cf_maxHeaderList cfg)%Z.
Proof.
  intro H. apply trace_In in H. destruct (SIO_SOK evs) as [_ HO].
  destruct (oi_disp _ _ _ _ HO _ _ H) as [_ (s & Qs & Ds & ->)].
  destruct (dispatchable_size s Qs Ds) as (_ & A & B). split; assumption.
Qed.

(* (e) header bytes carried over between the frames of a block: while the stream loop runs, every stream of the table
   holds at most MaxHeaderListSize of them (a longer carry-over ends the connection with ENHANCE_YOUR_CALM in the same
   step: it exceeds the limit by less than the one frame that brought it), and the size accumulated so far is within
   the limit too *)
Theorem table_streams_ok evs :
  let c := run evs in
  sc_sl_done c = false -> Forall (SOK cfg) (sc_strms c).
Proof. intros c Hd. destruct (SIO_SOK evs) as [HS _]. apply (si_Q _ _ _ _ HS Hd). Qed.

Theorem prev_bound evs s :
  let c := run evs in
  sc_sl_done c = false -> In s (sc_strms c) -> (0 < cf_maxHeaderList cfg)%Z ->
  (Z.of_N (len (st_prev s)) <= cf_maxHeaderList cfg)%Z /\ (st_headerListSize s <= cf_maxHeaderList cfg)%Z.
Proof.
  intros c Hd I HL. pose proof (table_streams_ok evs Hd) as F. rewrite Forall_forall in F.
  destruct (F s I) as [[K1 K2 K3] P _ _ _]. split; [apply P; assumption | apply K2; assumption].
Qed.

(* the carry-over of a header block that is decoded only to be thrown away (sc_discardPrev) is within the limit while
   the stream loop runs *)
Definition DI (c : sconn hstate) : Prop := sc_sl_done c = false -> dp_ok cfg (sc_discardPrev c).

Lemma sc_discardPrev_close_stream (c : sconn hstate) x :
  sc_discardPrev (close_stream c x) = sc_discardPrev c \/ sc_discardPrev (close_stream c x) = st_prev x.
Proof.
  rewrite close_stream_eq. cbv zeta. unfold close_discard, release_stream, note, mark_closed.
  repeat match goal with |- context [if ?b then _ else _] => destruct b end; sc_cbn; auto.
Qed.

Lemma DI_mv o a b : mv hstate dec_field cfg Q o a b -> SI cfg Q a -> DI a -> DI b.
Proof.
  intros M HS HD. unfold DI in *. destruct M; sc_rw; try (intros _; apply HD; assumption); try discriminate.
  - intros _. apply (lite_dp _ _ _ _ H0). apply HD. assumption.
  - intros _. destruct (sc_discardPrev_close_stream c x) as [-> | ->]; [apply HD; assumption|].
    unfold dp_ok. apply (so_prev cfg x). apply H2. pose proof (si_Q _ _ _ _ HS H) as F. rewrite Forall_forall in F. apply F.
    apply strms_search_In in H0. tauto.
  - intros _. apply (lite_dp _ _ _ _ H0). apply HD. assumption.
  - destruct H0 as [SC _]. unfold same_core in SC. decompose [and] SC. intro Hd. congruence.
Qed.

Lemma DI_omv pc a b : omv hstate pc a b -> DI a -> DI b.
Proof.
  intros M HD. unfold DI in *. destruct M; sc_rw; try exact HD; try discriminate.
Qed.

Theorem discard_prev_bound evs :
  let c := run evs in
  sc_sl_done c = false -> (0 < cf_maxHeaderList cfg)%Z -> (Z.of_N (len (sc_discardPrev c)) <= cf_maxHeaderList cfg)%Z.
Proof.
  intros c.
  assert (H : SI cfg Q c /\ DI c).
  { unfold c. apply (inv_run hstate dec_field enc_field enc_set_max cfg Q (SOK_closed _ dec_field cfg) (fun c => SI cfg Q c /\ DI c)).
    - intros c0 [H _]. eapply SI_ids_ok; eassumption.
    - intros pc a b M [H1 H2]. split; [eapply SI_gmv; eassumption|].
      destruct M; [eapply DI_mv | eapply DI_omv]; eassumption.
    - split; [apply (SI_init _ dec_field enc_field enc_set_max)|]. intros _. apply dp_ok_nil. }
  destruct H as [_ HD]. intros Hd HL. exact (HD Hd HL).
Qed.

End C13d.
