(* Proofs/SrvFlowCEarly.v - C06 completion: nothing of a response is queued before the handler has returned it.
   For every event list, while the stream loop runs: a table stream whose response is not being sent (not answered
   yet, or its handler still running) has no HEADERS or DATA frame in the trace and no body stream attached; a
   handler that runs has been dispatched; a table stream in state closed means the connection is closing. *)
From H2V Require Import Base.Bytes Base.MachineInt Base.Result Gen.GenConsts Impl.ServerConn Proofs.SrvBase
  Spec.FlowLedger Proofs.SrvFlowLedger Proofs.SrvFlowDefs Proofs.SrvFlowSend Proofs.SrvFlowEff Proofs.SrvFlowSafe
  Proofs.SrvFlowSafeB Proofs.SrvFlowSafeC Proofs.SrvFlowEs Proofs.SrvFlowRecv Proofs.SrvFlowStall Proofs.SrvFlowCDecomp
  Proofs.SrvFlowCMono Proofs.SrvFlowCView.
From Coq Require Import ZArith Lia ZifyN ZifyNat ZifyBool List.
Import ListNotations.
Local Open Scope N_scope.
Set Default Proof Using "Type".

(* the response of the stream is being sent: answered, and the handler has returned *)
Definition phase (s : stream) : bool := st_responded s && negb (st_handlerRunning s).

Section Early.
Variable hstate : Type.
Variable dec_field : hstate -> N -> bytes -> dec_res hstate.
Variable enc_field : hstate -> bytes -> bytes -> bool -> bytes * hstate.
Variable enc_set_max : hstate -> N -> hstate.
Variable cfg : config.
Notation sconn := (sconn hstate).
Implicit Types c : sconn.
Notation Sim := (SimX hstate None).

(* a working copy *)
Definition PSw c (s : stream) : Prop :=
  (st_handlerRunning s = true -> st_responded s = true) /\
  (phase s = false -> st_bodyStream s = None /\ rf (st_id s) (sc_out c) = []).
(* a stream of the table *)
Definition PS c (s : stream) : Prop := PSw c s /\ (st_state s = SClosed -> sc_closing c = true).

Definition NE c : Prop :=
  (forall s, In s (sc_strms c) -> PS c s) /\ (forall sid, sc_highestID c < sid -> rf sid (sc_out c) = []).

Definition closing_mono c c' : Prop := sc_closing c = true -> sc_closing c' = true.

Lemma PSw_fields c a b : st_id b = st_id a -> st_responded b = st_responded a -> st_handlerRunning b = st_handlerRunning a ->
  st_bodyStream b = st_bodyStream a -> PSw c a -> PSw c b.
Proof. unfold PSw, phase. intros -> -> -> ->. auto. Qed.

Lemma PSw_rf c c' s : (phase s = false -> rf (st_id s) (sc_out c') = rf (st_id s) (sc_out c)) -> PSw c s -> PSw c' s.
Proof. intros E [A B]. split; [exact A|]. intro P. rewrite (E P). auto. Qed.

Lemma PS_rf c c' s : (phase s = false -> rf (st_id s) (sc_out c') = rf (st_id s) (sc_out c)) -> closing_mono c c' -> PS c s -> PS c' s.
Proof. intros E M [A B]. split; [eapply PSw_rf; eassumption | auto]. Qed.

(* the table shrinks or stays, the trace grows by frames on stream i (or by none: i = None) *)
Lemma NE_step (i : option N) c c' :
  (forall s, In s (sc_strms c') -> In s (sc_strms c) /\ Some (st_id s) <> i) ->
  sc_highestID c <= sc_highestID c' -> closing_mono c c' ->
  (forall sid, Some sid <> i -> rf sid (sc_out c') = rf sid (sc_out c)) ->
  (forall sid, i = Some sid -> sid <= sc_highestID c) ->
  NE c -> NE c'.
Proof.
  intros HS HH HC HR HI [A B]. split.
  - intros s Hs. destruct (HS s Hs) as [Hin Hne]. eapply PS_rf; [intros _; apply HR, Hne | exact HC | apply A, Hin].
  - intros sid Hsid. rewrite HR; [apply B; flia|]. intro E. symmetry in E. specialize (HI _ E). flia.
Qed.

Lemma NE_noframe c c' : (forall s, In s (sc_strms c') -> In s (sc_strms c)) -> sc_highestID c <= sc_highestID c' ->
  closing_mono c c' -> out_ext noframe_out c c' -> NE c -> NE c'.
Proof.
  intros HS HH HC (new & E & F). apply (NE_step None); auto; try discriminate.
  - intros s Hs. split; [auto | discriminate].
  - intros sid _. rewrite E, rf_app, (rf_noframe _ _ F). reflexivity.
Qed.

Lemma NE_Quiet c c' : Quiet c c' -> NE c -> NE c'.
Proof.
  intro Q. apply NE_noframe; [rewrite (q_strms _ _ _ Q); auto | apply Q | exact (q_closing _ _ _ Q) | apply out_quiet_noframe, Q].
Qed.
Lemma NE_Closes c c' : Closes c c' -> NE c -> NE c'.
Proof.
  intro Q. apply NE_noframe; [apply Dels_In, Q | rewrite (cl_highestID _ _ _ Q); flia | exact (f_closing _ _ _ (cl_frame _ _ _ Q)) | apply out_quiet_noframe, Q].
Qed.
Lemma NE_Recv c c' : Recv c c' -> NE c -> NE c'.
Proof.
  intro Q. apply NE_noframe; [rewrite (rv_strms _ _ _ Q); auto | rewrite (rv_highestID _ _ _ Q); flia | unfold closing_mono; rewrite (rv_closing _ _ _ Q); auto|].
  eapply out_ext_weaken; [apply winupd_noframe | apply Q].
Qed.

Lemma rf_emit_noframe c o sid : noframe_out o -> rf sid (sc_out (emit c o)) = rf sid (sc_out c).
Proof.
  intro H. destruct (emit_cases _ c o) as (pre & E & Hpre). rewrite E, rf_app, rf_noframe; [reflexivity|].
  destruct Hpre as [->|[->| ->]]; repeat constructor; exact H.
Qed.

Lemma PSw_Keeps c c' s : Keeps hstate (st_id s) c c' -> PSw c s -> PSw c' s.
Proof. intro K. apply PSw_rf. intros _. apply K. Qed.

Lemma phase_flags a b : st_responded b = st_responded a -> st_handlerRunning b = st_handlerRunning a -> phase b = phase a.
Proof. unfold phase. intros -> ->. reflexivity. Qed.

(* writing back the stream that was worked on, after frames on it have been queued *)
Lemma NE_put c c2 s2 : NoDup (map st_id (sc_strms c)) -> st_id s2 <= sc_highestID c -> NE c ->
  sc_strms c2 = sc_strms c -> sc_highestID c2 = sc_highestID c -> closing_mono c c2 -> ext_on hstate (st_id s2) c c2 ->
  PS c2 s2 -> NE (put c2 s2).
Proof.
  intros ND Hid [A B] E1 E2 HC O P2. split.
  - intros x Hx. unfold put in Hx. sc_cbn_in Hx. rewrite E1 in Hx. apply strms_put_In_strong in Hx; [|exact ND].
    destruct Hx as [->|[Hx NEq]].
    + destruct P2 as [[P1 P2] P3]. split; [split; [exact P1|] | exact P3]. intro X. unfold put. sc_cbn. auto.
    + eapply PS_rf; [| |apply A, Hx].
      * intros _. unfold put. sc_cbn. eapply ext_on_rf; [exact O | congruence].
      * unfold closing_mono, put. sc_cbn. exact HC.
  - unfold put. sc_cbn. rewrite E2. intros sid Hs. rewrite (ext_on_rf _ _ _ _ _ O) by flia. auto.
Qed.

Lemma NE_close c c2 s2 : NoDup (map st_id (sc_strms c)) -> st_id s2 <= sc_highestID c -> NE c ->
  sc_strms c2 = sc_strms c -> sc_highestID c2 = sc_highestID c -> closing_mono c c2 -> ext_on hstate (st_id s2) c c2 ->
  NE (close_stream (put c2 s2) s2).
Proof.
  intros ND Hid [A B] E1 E2 HC O.
  assert (O2 : ext_on hstate (st_id s2) c (close_stream (put c2 s2) s2)).
  { eapply ext_on_trans; [exact O|]. eapply ext_on_trans; [apply (ext_on_same _ _ c2 (put c2 s2)); reflexivity|].
    apply ext_on_quiet, close_stream_out. }
  assert (C2 : closing_mono c (close_stream (put c2 s2) s2)).
  { unfold closing_mono. rewrite sc_closing_close_stream. unfold put. sc_cbn. exact HC. }
  split.
  - intros x Hx. rewrite sc_strms_close_stream in Hx. unfold put in Hx. sc_cbn_in Hx. rewrite E1 in Hx.
    assert (ND' : NoDup (map st_id (strms_put (sc_strms c) s2))) by (rewrite strms_put_ids; exact ND).
    pose proof (strms_del_not_In _ _ _ ND' Hx) as NEq. apply del_put_In in Hx.
    eapply PS_rf; [| exact C2 | apply A, Hx]. intros _. eapply ext_on_rf; [exact O2 | congruence].
  - rewrite sc_highestID_close_stream. unfold put. sc_cbn. rewrite E2. intros sid Hs. rewrite (ext_on_rf _ _ _ _ _ O2) by flia. auto.
Qed.

Lemma send_data_closing c s : closing_mono c (fst (fst (send_data c s))).
Proof. exact (f_closing _ _ _ (proj1 (send_data_NoCredit _ c s))). Qed.

Lemma sstate_eqb_closed x : sstate_eqb x SClosed = false -> x <> SClosed.
Proof. intros H ->. discriminate. Qed.

Lemma after_frame_NE c s fr wc : NoDup (map st_id (sc_strms c)) -> st_id s <= sc_highestID c -> NE c -> PSw c s ->
  NE (fst (after_frame cfg c s fr wc)).
Proof.
  intros ND Hid H P. unfold after_frame. cbv zeta.
  destruct (handle_state_eff fr s) as ((I1 & _ & _ & _ & _ & B1 & _) & R1 & Ru1 & _).
  set (s1 := handle_state fr s) in *.
  assert (P1 : PSw c s1) by (eapply PSw_fields; eassumption).
  match goal with |- context [let '(c2, s2) := ?X in _] =>
    assert (M : sc_strms (fst X) = sc_strms c /\ sc_highestID (fst X) = sc_highestID c /\ closing_mono c (fst X) /\
                ext_on hstate (st_id s) c (fst X) /\ PSw (fst X) (snd X) /\ st_id (snd X) = st_id s) end.
  { destruct (sstate_eqb (st_state s1) SHalfClosed && st_headersFinished s1 && negb (st_responded s1)) eqn:C1.
    - assert (NR : st_responded s1 = false).
      { apply Bool.andb_true_iff in C1. destruct C1 as [_ C1]. destruct (st_responded s1); [discriminate | reflexivity]. }
      assert (PF : phase s1 = false) by (unfold phase; rewrite NR; reflexivity).
      destruct P1 as [P1a P1b]. destruct (P1b PF) as [BS RF].
      match goal with |- context [if ?b then _ else _] => destruct b end; cbn [fst snd].
      + rewrite sc_strms_write_reset, sc_highestID_write_reset. split; [reflexivity|]. split; [reflexivity|].
        split; [unfold closing_mono; rewrite sc_closing_write_reset; auto|].
        split; [apply ext_on_quiet, (q_out _ _ _ (Quiet_write_reset _ c _ _))|]. split; [|exact I1].
        split; [reflexivity|]. intros _. split; [exact BS|]. cbn [st_id set_state set_weReset set_flags].
        erewrite k_rf; [exact RF|]. apply Keeps_Quiet, Quiet_write_reset.
      + split; [reflexivity|]. split; [reflexivity|]. split; [unfold closing_mono; auto|].
        split; [apply ext_on_quiet, (q_out _ _ _ (Quiet_note _ c (ODispatch _ _) I))|]. split; [|exact I1].
        split; [reflexivity|]. intros _. split; [exact BS|]. cbn [st_id set_flags].
        erewrite k_rf; [exact RF|]. apply Keeps_Quiet, (Quiet_note _ c (ODispatch _ _) I).
    - destruct (st_responded s1 && negb (st_handlerRunning s1) && has_more_to_send s1) eqn:C2.
      + assert (PT : phase s1 = true).
        { apply Bool.andb_true_iff in C2. destruct C2 as [C2 _]. exact C2. }
        destruct (send_data_stream _ c s1) as (A1 & A2 & A3 & A4 & A5 & A6 & A7). pose proof (send_data_closing c s1) as A8.
        cbv zeta in *. destruct (send_data c s1) as [[c1 s2] fin]. cbn [fst snd] in *.
        split; [exact A5|]. split; [exact A6|]. split; [exact A8|]. split; [rewrite <- I1; exact A7|].
        assert (PT2 : phase (if fin then set_state s2 SClosed else s2) = true).
        { rewrite <- PT. destruct fin; apply phase_flags; assumption. }
        split; [|destruct fin; cbn [st_id set_state]; congruence].
        split; [|rewrite PT2; discriminate].
        intro X. unfold phase in PT2. destruct (st_responded (if fin then set_state s2 SClosed else s2)); [reflexivity | discriminate].
      + cbn [fst snd]. split; [reflexivity|]. split; [reflexivity|]. split; [unfold closing_mono; auto|].
        split; [apply ext_on_refl|]. split; [exact P1 | exact I1]. }
  match goal with |- context [let '(c2, s2) := ?X in _] => destruct X as [c2 s2] end. cbn [fst snd] in M.
  destruct M as (E1 & E2 & HC & O & P2 & I2). rewrite <- I2 in O, Hid.
  assert (G : NE (if sstate_eqb (st_state s2) SClosed then close_stream (put c2 s2) s2 else put c2 s2)).
  { destruct (sstate_eqb (st_state s2) SClosed) eqn:CLS.
    - eapply NE_close; eassumption.
    - eapply NE_put; try eassumption. split; [exact P2|]. intro X. apply sstate_eqb_closed in CLS. contradiction. }
  match goal with |- context [if ?b then brk ?x else cont ?x] => destruct b end; cbn [fst cont]; [|exact G].
  eapply NE_Quiet; [apply Quiet_brk | exact G].
Qed.

Lemma flush_loop_NE ids : forall c done, NoDup (map st_id (sc_strms c)) -> (forall s, In s (sc_strms c) -> st_id s <= sc_highestID c) ->
  NE c -> NE (fst (flush_loop c ids done)).
Proof.
  induction ids as [|id t IH]; intros c done ND HI H; cbn [flush_loop]; [exact H|].
  destruct (strms_search (sc_strms c) id) as [s|] eqn:F; [|apply IH; assumption].
  destruct (st_responded s && negb (st_handlerRunning s) && has_more_to_send s) eqn:W; [|apply IH; assumption].
  apply strms_search_In in F. destruct F as [Hin Hid].
  assert (PT : phase s = true) by (apply Bool.andb_true_iff in W; destruct W as [W _]; exact W).
  destruct (send_data_stream _ c s) as (A1 & A2 & A3 & A4 & A5 & A6 & A7). pose proof (send_data_closing c s) as A8.
  cbv zeta in *. destruct (send_data c s) as [[c1 s1] fin]. cbn [fst snd] in *.
  assert (PT1 : phase s1 = true) by (rewrite <- PT; apply phase_flags; assumption).
  destruct (proj1 H s Hin) as [[Pa Pb] Pc].
  assert (G : NE (put c1 s1)).
  { eapply NE_put; try eassumption; [rewrite A1; apply HI, Hin | rewrite A1; exact A7|].
    split; [split|].
    - rewrite A3, A4. exact Pa.
    - rewrite PT1. discriminate.
    - rewrite A2. intro X. apply A8, Pc, X. }
  apply IH; [unfold put; sc_cbn; rewrite strms_put_ids, A5; exact ND | | exact G].
  unfold put. sc_cbn. rewrite A6. intros x Hx. assert (I : In (st_id x) (map st_id (strms_put (sc_strms c1) s1))) by (apply in_map; exact Hx).
  rewrite strms_put_ids, A5 in I. apply in_map_iff in I. destruct I as (x0 & <- & H0). apply HI, H0.
Qed.

Lemma flush_streams_NE c : NoDup (map st_id (sc_strms c)) -> (forall s, In s (sc_strms c) -> st_id s <= sc_highestID c) ->
  NE c -> NE (flush_streams c).
Proof.
  intros ND HI H. unfold flush_streams. pose proof (flush_loop_NE (map st_id (sc_strms c)) c [] ND HI H) as G.
  destruct (flush_loop c (map st_id (sc_strms c)) []) as [c1 done]. cbn [fst] in G.
  eapply NE_Closes; [apply close_all_Closes | exact G].
Qed.

Lemma PS_new c fr : (forall sid, sc_highestID c < sid -> rf sid (sc_out c) = []) -> sc_highestID c < sf_sid fr ->
  forall c', sc_out c' = sc_out c -> PS c' (new_strm c fr).
Proof.
  intros B HI c' E. unfold PS, PSw, new_strm. cbn. rewrite E. split; [split; [discriminate|]|discriminate].
  intros _. split; [reflexivity | apply B, HI].
Qed.

Lemma Origin_NE c fr c1 s : Origin c fr c1 s -> NE c -> NE c1 /\ PSw c1 s.
Proof.
  intros O [A B]. destruct O as [s LE F | KH FD HI LA].
  - split; [split; assumption|]. apply strms_search_In in F. apply A, F.
  - pose proof (PS_new c fr B HI) as PN. split; [split|].
    + sc_cbn. intros x Hx. apply in_app_or in Hx. destruct Hx as [Hx|[<-|[]]]; [|apply PN; reflexivity].
      eapply PS_rf; [| |apply A, Hx]; [intros _; reflexivity | unfold closing_mono; sc_cbn; auto].
    + sc_cbn. intros sid Hs. apply B. flia.
    + apply PN. reflexivity.
Qed.

Lemma HFok_PSw c2 s fr cX sX : HFok dec_field cfg c2 s fr cX sX -> PSw c2 s -> PSw cX sX /\ st_id sX = st_id s.
Proof.
  intros HF P.
  destruct (HFok_eff _ dec_field cfg c2 s fr cX sX HF) as (c3 & s3 & R & Q & _ & SS & _ & SW & RX & RuX).
  destruct SS as (i3 & _ & _ & _ & _ & _ & b3 & _ & _ & r3 & ru3 & _).
  destruct SW as (iX & _ & _ & _ & _ & bX & _).
  assert (IX : st_id sX = st_id s) by congruence.
  split; [|exact IX].
  eapply PSw_fields; [exact IX | congruence | congruence | congruence|].
  eapply PSw_Keeps; [|exact P]. eapply Keeps_trans; [apply Keeps_Recv, R | apply Keeps_Quiet, Q].
Qed.

Lemma sl_frame_NE c fr L : Sim c L -> NE c ->
  sc_sl_done (fst (sl_frame dec_field enc_set_max cfg c fr)) = true \/ NE (fst (sl_frame dec_field enc_set_max cfg c fr)).
Proof.
  intros S H.
  destruct (sl_frame_SLF _ dec_field enc_set_max cfg c fr)
    as [c' Q D P3 | c' F O SD | Z K HW c0 newInit delta Fa | Z K W | NZ K | c1 s p NZ Or KH Hp | c1 s c2 cX sX NZ Or CL HF].
  - right. eapply NE_Quiet; eassumption.
  - left. exact SD.
  - right. pose proof (settings_Sim _ enc_set_max c fr L S) as S2. cbv zeta in S2. fold newInit delta in S2. subst c0.
    destruct (settings_c0_fields _ enc_set_max c fr) as (E1 & E2 & E3 & E4 & E5 & E6). destruct H as [A B].
    set (cS := emit (upd_strms (upd_initWin (settings_c0 enc_set_max c fr) newInit) (map (bump delta) (sc_strms c))) OSettingsAck) in *.
    assert (RFS : forall sid, rf sid (sc_out cS) = rf sid (sc_out c)).
    { intro sid. unfold cS. rewrite rf_emit_noframe by reflexivity. sc_cbn. rewrite E6. reflexivity. }
    assert (CLS : sc_closing cS = sc_closing c).
    { unfold cS. rewrite sc_closing_emit. sc_cbn. unfold settings_c0. destruct (sf_set_hastable fr); reflexivity. }
    apply flush_streams_NE; [apply (sim_nodup _ _ _ _ S2) | |].
    + intros x Hx. pose proof (sim_le _ _ _ _ S2 x Hx). pose proof (sim_hi _ _ _ _ S2). flia.
    + split.
      * unfold cS at 1. rewrite sc_strms_emit. sc_cbn. intros x Hx. apply in_map_iff in Hx. destruct Hx as (x0 & <- & H0).
        destruct (A x0 H0) as [PW PC]. split.
        -- apply (PSw_fields cS x0 (bump delta x0)); try reflexivity. eapply PSw_rf; [|exact PW]. intros _. apply RFS.
        -- cbn [bump st_state set_window]. intro X. rewrite CLS. apply PC, X.
      * unfold cS at 1. rewrite sc_highestID_emit. sc_cbn. rewrite E5. intros sid Hs. rewrite RFS. apply B, Hs.
  - right. apply flush_streams_NE; [apply (sim_nodup _ _ _ _ S) | |].
    + sc_cbn. intros x Hx. pose proof (sim_le _ _ _ _ S x Hx). pose proof (sim_hi _ _ _ _ S). flia.
    + revert H. apply NE_noframe; sc_cbn; auto; [flia | unfold closing_mono; auto | apply out_ext_same; reflexivity].
  - right. eapply NE_Recv; [apply Recv_credit | exact H].
  - right. destruct (Origin_NE _ _ _ _ Or H) as [[A B] _]. split.
    + unfold put. sc_cbn. rewrite sc_strms_write_goaway. intros x Hx. apply strms_put_In in Hx.
      assert (KQ : forall y, PS c1 y -> PSw (upd_strms (write_goaway c1 (st_id p) c_ProtocolError) (strms_put (sc_strms c1) (set_state p SClosed))) y).
      { intros y [PW _]. eapply PSw_rf; [|exact PW]. intros _.
        apply (k_rf _ _ _ _ (Keeps_Quiet _ (st_id y) _ _ (Quiet_write_goaway _ c1 (st_id p) c_ProtocolError))). }
      destruct Hx as [->|Hx]; (split; [|intros _; sc_cbn; apply sc_closing_write_goaway]).
      * eapply PSw_fields with (a := p); try reflexivity. apply KQ, A, Hp.
      * apply KQ, A, Hx.
    + unfold put. sc_cbn. rewrite sc_highestID_write_goaway. intros sid Hs.
      rewrite (k_rf _ _ _ _ (Keeps_Quiet _ sid _ _ (Quiet_write_goaway _ c1 (st_id p) c_ProtocolError))). apply B, Hs.
  - destruct (Origin_NE _ _ _ _ Or H) as [H1 P1].
    destruct (after_pre_Sim _ dec_field cfg c fr c1 s c2 cX sX L S NZ Or CL HF) as (SX & _ & LeX & IX & _).
    destruct (HFok_eff _ dec_field cfg c2 s fr cX sX HF) as (c3 & s3 & R & Q & _).
    assert (HX : NE cX).
    { eapply NE_Quiet; [exact Q|]. eapply NE_Recv; [exact R|]. eapply NE_Closes; eassumption. }
    assert (P2 : PSw c2 s).
    { eapply PSw_rf; [|exact P1]. intros _. destruct (out_quiet_noframe _ _ _ (cl_out _ _ _ CL)) as (new & E & Fn).
      rewrite E, rf_app, (rf_noframe _ _ Fn). reflexivity. }
    destruct (HFok_PSw _ _ _ _ _ HF P2) as [PX _].
    right. apply after_frame_NE; [apply (sim_nodup _ _ _ _ SX) | | exact HX | exact PX].
    pose proof (sim_hi _ _ _ _ SX). flia.
Qed.

Lemma sl_done_NE c sid r L : Sim c L -> NE c -> NE (fst (sl_done enc_field cfg c sid r)).
Proof.
  intros S H. unfold sl_done.
  destruct (take_stream (sc_gone c) sid) as [[s rest]|].
  - cbn [fst cont].
    assert (Q : Quiet c (release_stream (upd_gone c rest) (set_flags s (st_responded s) false true))).
    { eapply Quiet_trans; [|apply Quiet_release_stream].
      constructor; sc_cbn; first [reflexivity | flia | (left; reflexivity) | (intro; assumption) | (apply out_ext_same; reflexivity)]. }
    eapply NE_Quiet; eassumption.
  - destruct (strms_search (sc_strms c) sid) as [s|] eqn:F; [|exact H].
    destruct (negb (st_handlerRunning s)) eqn:RU; [exact H|].
    apply strms_search_In in F. destruct F as [Hin Hid].
    set (s1 := set_flags s (st_responded s) false (st_abandoned s)).
    destruct (proj1 H s Hin) as [[Pa Pb] Pc].
    assert (RS : st_responded s = true) by (apply Pa; destruct (st_handlerRunning s); [reflexivity | discriminate]).
    destruct (finish_request_stream _ enc_field c s1 r) as (A1 & A2 & A3 & A4 & A5 & A6 & A7). cbv zeta in *.
    assert (A8 : closing_mono c (fst (fst (finish_request enc_field c s1 r)))).
    { exact (f_closing _ _ _ (proj1 (finish_request_NoCredit _ enc_field c s1 r))). }
    destruct (finish_request enc_field c s1 r) as [[c1 s2] fin]. cbn [fst snd] in *.
    assert (Hle : st_id s2 <= sc_highestID c).
    { rewrite A1. subst s1. cbn [st_id set_flags]. pose proof (sim_le _ _ _ _ S s Hin). pose proof (sim_hi _ _ _ _ S). flia. }
    assert (O : ext_on hstate (st_id s2) c c1) by (rewrite A1; exact A7).
    match goal with |- context [if ?b then brk ?x else cont ?x] => assert (G : NE x) end.
    { destruct fin.
      - apply (NE_close c c1 (set_state s2 SClosed)); try assumption. apply (sim_nodup _ _ _ _ S).
      - eapply NE_put; try eassumption; [apply (sim_nodup _ _ _ _ S)|].
        assert (PT : phase s2 = true) by (unfold phase; rewrite A3, A4; subst s1; cbn [st_responded st_handlerRunning set_flags]; rewrite RS; reflexivity).
        split; [split|].
        + rewrite A3. intros _. exact RS.
        + rewrite PT. discriminate.
        + rewrite A2. subst s1. cbn [st_state set_flags]. intro X. apply A8, Pc, X. }
    match goal with |- context [if ?b then brk ?x else cont ?x] => destruct b end; cbn [fst cont]; [|exact G].
    eapply NE_Quiet; [apply Quiet_brk | exact G].
Qed.

Variable h0 : hstate.
Notation step := (step dec_field enc_field enc_set_max cfg).
Notation Inv := (Inv hstate).

Definition NEInv c : Prop := sc_sl_done c = true \/ NE c.

Lemma step_NE c e L : Inv c L -> NEInv c -> NEInv (step c e).
Proof.
  intros HI H. pose proof (step_Mono _ dec_field enc_field enc_set_max cfg c e) as M.
  destruct (sc_sl_done c) eqn:SD; [left; apply (m_sl _ _ _ M SD)|].
  destruct H as [H|H]; [congruence|]. destruct HI as [HI|S]; [congruence|].
  destruct e as [i| |sid r|t| | | |].
  - rewrite step_EvRL. destruct (sc_rl_done c); [right; exact H|].
    destruct (rl_step_eff _ cfg c i) as [[r1 r2 r3 r4 r5 r6 r7 r8 r9 r10] _]. right. revert H.
    apply NE_noframe; [rewrite r1; auto | rewrite r6; flia | exact r9 | apply out_quiet_noframe, r10].
  - rewrite step_EvSL, SD. destruct (sc_readerQ c) as [|fr q].
    + destruct (sc_rl_done c); [left; reflexivity | right; exact H].
    + apply (sl_frame_NE (upd_readerQ c q) fr L); [eapply SimX_same; [..|exact S]; reflexivity|].
      revert H. apply NE_noframe; sc_cbn; auto; [flia | unfold closing_mono; auto | apply out_ext_same; reflexivity].
  - rewrite step_EvDone, SD. right. eapply sl_done_NE; eassumption.
  - rewrite step_EvClock. destruct (sc_now c <? t)%Z; [|right; exact H]. right. revert H.
    apply NE_noframe; sc_cbn; auto; [flia | unfold closing_mono; auto | apply out_ext_same; reflexivity].
  - rewrite step_EvTimer, SD. right. unfold sl_timer.
    destruct (cf_maxRequestTime cfg <=? 0)%Z; cbn [fst cont]; [exact H|].
    eapply NE_Closes; [apply close_heads_Closes | exact H].
  - rewrite step_EvIdle. right.
    assert (Q : Quiet c (upd_closer (write_goaway c 0 c_NoError) true)).
    { eapply Quiet_trans; [apply Quiet_write_goaway|].
      constructor; sc_cbn; first [reflexivity | flia | (left; reflexivity) | (intro; assumption) | (apply out_ext_same; reflexivity)]. }
    eapply NE_Quiet; eassumption.
  - rewrite step_EvCloser. destruct (sc_closer c && negb (sc_sl_done c)); [left; reflexivity | right; exact H].
  - rewrite step_EvWriteFail. right. revert H.
    apply NE_noframe; sc_cbn; auto; [flia | unfold closing_mono; auto | apply out_ext_same; reflexivity].
Qed.

Lemma NE_from evs : forall c L, Inv c L -> NEInv c -> NEInv (run_from dec_field enc_field enc_set_max cfg c evs).
Proof.
  induction evs as [|e evs IH]; intros c L HI H; [exact H|]. rewrite run_from_cons.
  destruct (StepOK_tl _ dec_field enc_field enc_set_max cfg c e L HI) as (_ & HI' & _).
  eapply IH; [exact HI' | eapply step_NE; eassumption].
Qed.

Theorem NE_run evs : NEInv (run dec_field enc_field enc_set_max cfg h0 evs).
Proof.
  rewrite run_eq. eapply NE_from; [apply Inv_init|]. right. split; [intros s [] | intros sid _; reflexivity].
Qed.

End Early.
