(* Proofs/SrvFlowExamples.v - concrete event lists for the examples of Props/C06.v and Props/C14.v. *)
From H2V Require Import Base.Bytes Base.MachineInt Base.Result Gen.GenConsts Impl.Hpack Impl.ServerConn Impl.ServerInst
  Proofs.SrvBase Spec.FlowLedger Proofs.SrvFlowDefs.
From Coq Require Import ZArith List.
Import ListNotations.
Local Open Scope N_scope.

Definition ex_cfg : config := mkCfg 100 1048576 4194304 0 4194304.        (* the harness configuration *)
Definition ex_cfg_small : config := mkCfg 100 1048576 4194304 0 100000.   (* a small receive window, to see a top-up *)

(* frames; the HPACK block 82 84 87 is ":method GET, :path /, :scheme https" *)
Definition fHeaders (sid flags : N) : sframe := mkSFrame KHeaders flags sid 3 [0x82; 0x84; 0x87] 0 0 0 false 4096 false 65535.
Definition fSettingsWin (win : N) : sframe := mkSFrame KSettings 0 0 6 [] 0 0 0 false 4096 true win.
Definition fWinUpd (sid inc : N) : sframe := mkSFrame KWinUpd 0 sid 4 [] 0 0 inc false 4096 false 65535.
Definition fData (sid flags : N) (payload : bytes) (wirelen : N) : sframe :=
  mkSFrame KData flags sid wirelen payload 0 0 0 false 4096 false 65535.
Definition body (n : nat) : bytes := repeat 97 n.
Definition resp (n : nat) : response := mkResp 200 [] (BBuffered (body n)).

(* a request on stream 1; the peer lowers INITIAL_WINDOW_SIZE to 10 before the 30-byte response is ready, grants 5,
   lowers the setting to 0 (the stream window goes to -10), grants 12 and then 100 *)
Definition ex_send : list event :=
  [ EvRL (RFrame (fHeaders 1 5)); EvSL;
    EvRL (RFrame (fSettingsWin 10)); EvSL;
    EvDone 1 (resp 30);
    EvRL (RFrame (fWinUpd 1 5)); EvSL;
    EvRL (RFrame (fSettingsWin 0)); EvSL;
    EvRL (RFrame (fWinUpd 1 12)); EvSL;
    EvRL (RFrame (fWinUpd 1 100)); EvSL ].

(* the same up to the moment the response is blocked on the stream window *)
Definition ex_blocked : list event := firstn 5 ex_send.

(* a 20000-byte response: two DATA frames, 16384 + 3616 *)
Definition ex_big : list event := [ EvRL (RFrame (fHeaders 1 5)); EvSL; EvDone 1 (resp 20000) ].

(* an upload on stream 1 in four padded DATA frames (payload "a", 16384 bytes on the wire), the last one with
   END_STREAM; with maxWindow = 100000 the fourth one takes the receive window below half *)
Definition ex_upload : list event :=
  [ EvRL (RFrame (fHeaders 1 4)); EvSL;
    EvRL (RFrame (fData 1 0 [97] 16384)); EvSL;
    EvRL (RFrame (fData 1 0 [97] 16384)); EvSL;
    EvRL (RFrame (fData 1 0 [97] 16384)); EvRL (RFrame (fData 1 1 [97] 16384)); EvSL; EvSL ].

(* short forms of the trace *)
Inductive bo : Type :=
| BH (sid : N) (es : bool) | BD (sid : N) (es : bool) (n : N) | BR (sid code : N) | BG (last code : N)
| BW (sid : N) (inc : Z) | BSA | BDisp (sid : N) | BRel (sid : N) | BX (a b : N) | BOther.
Definition brief (o : outev) : bo :=
  match o with
  | OHeaders s e _ => BH s e | OData s e p => BD s e (len p) | ORst s c => BR s c | OGoAway l c => BG l c
  | OWinUpd s i => BW s i | OSettingsAck => BSA | ODispatch s _ => BDisp s | ORelease s _ => BRel s | OExit a b => BX a b
  | _ => BOther
  end.
Definition srv_brief (cfg : config) (evs : list event) : list bo := map brief (srv_trace (srv_run cfg evs)).

Definition srv_timeline (cfg : config) (evs : list event) : list levent :=
  timeline hpack_state srv_dec_field srv_enc_field set_max_table_size cfg srv_init_hpack evs.
Definition srv_rtimeline (cfg : config) (evs : list event) : list revent :=
  rtimeline hpack_state srv_dec_field srv_enc_field set_max_table_size cfg srv_init_hpack evs.

(* a lowering SETTINGS frame still waiting in sc.reader when the handler returns *)
Definition ex_inflight : list event :=
  [ EvRL (RFrame (fHeaders 1 5)); EvSL; EvRL (RFrame (fSettingsWin 0)); EvDone 1 (resp 10); EvSL ].
Definition srv_timeline_rl (cfg : config) (evs : list event) : list levent :=
  timeline_rl hpack_state srv_dec_field srv_enc_field set_max_table_size cfg srv_init_hpack evs.
