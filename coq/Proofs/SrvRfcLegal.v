(* Proofs/SrvRfcLegal.v - C08 (b), the part that follows from (a): a frame the table lets take effect is
   processed, or draws one of the few errors the table lists next to "process" for its type. *)
From H2V Require Import Base.Bytes Base.MachineInt Base.Result Gen.GenConsts Impl.ServerConn.
From H2V Require Import Proofs.SrvBase Proofs.SrvRfcDefs Proofs.SrvRfcThm.
From Coq Require Import ZArith Lia.
Local Open Scope N_scope.

(* the codes of the resets a server may decide on for reasons of its own (RS.policy), and of the connection errors a
   header block may end in (RS.block_errors) *)
Definition policy_code (c : N) : bool :=
  (c =? c_RefusedStreamError) || (c =? c_EnhanceYourCalm) || (c =? c_StreamCanceled) || (c =? c_InternalError) || (c =? c_ProtocolError).
Definition block_code (c : N) : bool :=
  (c =? c_CompressionError) || (c =? c_EnhanceYourCalm) || (c =? c_InternalError) || (c =? c_ProtocolError).

Definition is_rst_frame (f : RS.frame) : bool := match RS.f_kind f with RS.RST_STREAM => true | _ => false end.

(* what the table lists next to "process" *)
Definition side_verdict (f : RS.frame) (v : RS.verdict) : bool :=
  match v with
  | RS.VProcess | RS.VIgnore => true
  | RS.PE c => policy_code c && negb (is_rst_frame f)
  | RS.SE c => (c =? c_FlowControlError) && match RS.f_kind f with RS.DATA | RS.WINDOW_UPDATE => true | _ => false end
  | RS.CE c =>
    match RS.f_kind f with
    | RS.HEADERS | RS.CONTINUATION => block_code c
    | RS.SETTINGS | RS.WINDOW_UPDATE => c =? c_FlowControlError
    | RS.GOAWAY => c =? c_NoError
    | _ => false
    end
  end.

(* ... and the reactions that leaves: the frame is processed (or a PRIORITY frame ignored), or
   - the stream is reset for a reason of the server's own (never in answer to RST_STREAM), or for flow control;
   - the connection ends only for what a header block can end in (HEADERS, CONTINUATION), for flow control (DATA,
     WINDOW_UPDATE, SETTINGS), or because the peer said GOAWAY;
   so never STREAM_CLOSED or FRAME_SIZE_ERROR, and no connection error at all on RST_STREAM, PRIORITY or PING. *)
Definition mild (f : RS.frame) (r : RS.reaction) : bool :=
  match r with
  | RS.Process | RS.Ignore => true
  | RS.StreamErr c =>
    negb (is_rst_frame f) &&
    (policy_code c || ((c =? c_FlowControlError) && match RS.f_kind f with RS.DATA | RS.WINDOW_UPDATE => true | _ => false end))
  | RS.ConnErr c =>
    match RS.f_kind f with
    | RS.HEADERS | RS.CONTINUATION => block_code c
    | RS.DATA | RS.WINDOW_UPDATE | RS.SETTINGS => c =? c_FlowControlError
    | RS.GOAWAY => c =? c_NoError
    | _ => false
    end
  | RS.ConnClose =>
    match RS.f_kind f with
    | RS.HEADERS | RS.CONTINUATION | RS.DATA | RS.WINDOW_UPDATE | RS.SETTINGS | RS.GOAWAY => true
    | _ => false
    end
  end.

(* for the full statement of (b): the codes of all these *)
Definition stream_limit_code (c : N) : bool := policy_code c || (c =? c_FlowControlError).
Definition conn_limit_code (c : N) : bool := block_code c || (c =? c_FlowControlError) || (c =? c_NoError).

Lemma may_process_side_verdicts s f : RS.may_process s (RS.Frame f) = true -> forallb (side_verdict f) (RS.verdicts s (RS.Frame f)) = true.
Proof.
  unfold RS.may_process. cbn [RS.verdicts].
  destruct f as [k sid es eh self inc]. cbn [RS.f_kind RS.f_sid].
  destruct (RS.block s) as [b|].
  - destruct k; try (cbn; discriminate). destruct (sid =? b); [|cbn; discriminate].
    unfold RS.on_stream, RS.by_state. cbn [RS.f_kind RS.f_sid RS.f_es RS.f_self RS.f_inc].
    destruct (RS.st_of s sid) as [| | | |[| | |]]; cbn; try discriminate; reflexivity.
  - destruct k; try (cbn; discriminate);
      (destruct (sid =? 0);
       [ unfold RS.on_connection; cbn [RS.f_kind RS.f_inc]; try (cbn; discriminate); try reflexivity;
         try (destruct (inc =? 0); cbn; try discriminate; reflexivity)
       | try (cbn; discriminate);
         unfold RS.on_stream, RS.by_state, RS.priority_frame, RS.window_update; cbn [RS.f_kind RS.f_sid RS.f_es RS.f_self RS.f_inc];
         destruct (RS.st_of s sid) as [| | | |[| | |]]; try (cbn; discriminate);
         repeat match goal with
                | |- context [if ?b then _ else _] => destruct b
                end; cbn; try discriminate; reflexivity ]).
Qed.

Lemma side_verdict_mild f v r : side_verdict f v = true -> RS.admits v r = true -> mild f r = true.
Proof.
  destruct v as [| |c|c|c], r as [| |c'|c'|]; cbn [side_verdict RS.admits mild]; try discriminate; try reflexivity; intros L E;
    try (apply N.eqb_eq in E; subst c').
  - (* SE, StreamErr *) apply andb_true_iff in L. destruct L as [L1 L2]. rewrite L1, L2.
    destruct (RS.f_kind f) eqn:K; try discriminate; unfold is_rst_frame; rewrite K; cbn; apply orb_true_r.
  - (* SE, ConnErr *) apply andb_true_iff in L. destruct L as [L1 L2]. destruct (RS.f_kind f); try discriminate; exact L1.
  - (* SE, ConnClose *) apply andb_true_iff in L. destruct L as [L1 L2]. destruct (RS.f_kind f); try discriminate; reflexivity.
  - (* CE, ConnErr *) destruct (RS.f_kind f); try discriminate; exact L.
  - (* CE, ConnClose *) destruct (RS.f_kind f); try discriminate; reflexivity.
  - (* PE, StreamErr *) apply andb_true_iff in L. destruct L as [L1 L2]. rewrite L1, L2. reflexivity.
Qed.

Lemma may_process_mild s f r : RS.may_process s (RS.Frame f) = true -> RS.dead s = false -> RS.goaway s = false ->
  RS.allowed s (RS.Frame f) r = true -> mild f r = true.
Proof.
  intros MP D Ga A. unfold RS.allowed in A. rewrite D, Ga in A. cbn [andb] in A. rewrite !orb_false_r in A.
  apply existsb_exists in A. destruct A as (v & Hin & Ha).
  pose proof (may_process_side_verdicts s f MP) as F. rewrite forallb_forall in F. exact (side_verdict_mild f v r (F v Hin) Ha).
Qed.

(* ---------- the ingredients of the full statement of (b) (Props/C08.v) ---------- *)

Definition frame_of_item (it : item) : list sframe := match it with IIn (RFrame f) => [f] | _ => [] end.
(* frames on client stream ids below 512 (the ring of closed streams never forgets) or on stream 0, no GOAWAY frame;
   handler completions *)
Definition only_frames_and_completions (its : list item) : bool :=
  forallb (fun it => match it with
                     | IIn (RFrame f) => ((N.odd (sf_sid f) && (sf_sid f <? 512)) || (sf_sid f =? 0)) &&
                                         negb (match sf_kind f with KGoAway => true | _ => false end)
                     | IDone _ _ => true
                     | _ => false
                     end) its.
(* the server raised no error of the discretionary classes *)
Definition no_limit_error (o : outev) : bool :=
  match strip_late o with
  | ORst _ code => negb (stream_limit_code code)
  | OGoAway _ code => negb (stream_limit_code code || conn_limit_code code)
  | _ => true
  end.
Definition no_error_at_all (o : outev) : bool :=
  match strip_late o with ORst _ _ | OGoAway _ _ | OExit _ _ | OPanic _ _ => false | _ => true end.

Section Legal.
Variable hstate : Type.
Variable dec_field : hstate -> N -> bytes -> dec_res hstate.
Variable enc_field : hstate -> bytes -> bytes -> bool -> bytes * hstate.
Variable enc_set_max : hstate -> N -> hstate.
Variable cfg : config.
Variable h0 : hstate.
Notation feed := (feed hstate dec_field enc_field enc_set_max cfg).
Notation run_items := (run_items hstate dec_field enc_field enc_set_max cfg).
Notation c_init := (init_conn cfg h0).

(* along a lockstep run: a frame the table lets take effect in the specification state reached so far (connection
   not in error, no GOAWAY sent), outside the known deviations, is processed, ignored, or answered with one of the
   errors `mild` lists *)
Theorem legal_reaction_class its :
  forall pre fr post, its = pre ++ IIn (RFrame fr) :: post ->
    let c := fst (run_items c_init RS.init pre) in
    let s := snd (run_items c_init RS.init pre) in
    sc_sl_done c = false -> RS.dead s = false -> RS.goaway s = false ->
    RS.may_process s (RS.Frame (abs_frame fr)) = true -> known_deviation hstate c s (RFrame fr) = false ->
    mild (abs_frame fr) (resolve s (RS.Frame (abs_frame fr)) (reaction_of hstate c (RFrame fr) (feed c (IIn (RFrame fr))))) = true.
Proof.
  intros pre fr post E c s Hsl D Ga MP KD.
  destruct (reactions_allowed hstate dec_field enc_field enc_set_max cfg h0 its) as [_ H].
  specialize (H pre (IIn (RFrame fr)) post E Hsl). fold c s in H. destruct H as [H|H]; [|congruence].
  unfold item_ok in H. exact (may_process_mild s _ _ MP D Ga H).
Qed.

End Legal.
