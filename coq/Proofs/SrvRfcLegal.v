(* Proofs/SrvRfcLegal.v - C08 (b), the part that follows from (a): a frame the table lets take effect
   never draws an error of a class other than the ones the RFC leaves to the server's discretion
   (refusal, limits, decoding, flow control). *)
From H2V Require Import Base.Bytes Base.MachineInt Base.Result Gen.GenConsts Impl.ServerConn.
From H2V Require Import Proofs.SrvBase Proofs.SrvRfcDefs Proofs.SrvRfcThm.
From Coq Require Import ZArith Lia.
Local Open Scope N_scope.

(* the codes of the errors a server may raise for reasons of its own (RS.policy, RS.block_errors, flow control;
   NO_ERROR when the peer says GOAWAY) *)
Definition stream_limit_code (c : N) : bool :=
  (c =? c_RefusedStreamError) || (c =? c_EnhanceYourCalm) || (c =? c_StreamCanceled) || (c =? c_InternalError) ||
  (c =? c_ProtocolError) || (c =? c_FlowControlError).
Definition conn_limit_code (c : N) : bool :=
  (c =? c_CompressionError) || (c =? c_EnhanceYourCalm) || (c =? c_InternalError) || (c =? c_FlowControlError) || (c =? c_NoError).

Definition limit_verdict (v : RS.verdict) : bool :=
  match v with
  | RS.VProcess | RS.VIgnore => true
  | RS.SE c => stream_limit_code c
  | RS.CE c => conn_limit_code c
  end.

(* Process, Ignore, or an error of these classes (5.4.1: any of them may be escalated, or delivered by closing) *)
Definition mild (r : RS.reaction) : bool :=
  match r with
  | RS.Process | RS.Ignore | RS.ConnClose => true
  | RS.StreamErr c => stream_limit_code c
  | RS.ConnErr c => stream_limit_code c || conn_limit_code c
  end.

Lemma may_process_limit_verdicts s i : RS.may_process s i = true -> forallb limit_verdict (RS.verdicts s i) = true.
Proof.
  unfold RS.may_process. destruct i as [f| |code|]; cbn [RS.verdicts]; try (cbn; discriminate).
  - destruct f as [k sid es eh self inc]. cbn [RS.f_kind RS.f_sid].
    destruct (RS.block s) as [b|].
    + destruct k; try (cbn; discriminate). destruct (sid =? b); [|cbn; discriminate].
      unfold RS.on_stream, RS.by_state. cbn [RS.f_kind RS.f_sid RS.f_es RS.f_self RS.f_inc].
      destruct (RS.st_of s sid) as [| | | |[| | |]]; cbn; try discriminate; reflexivity.
    + destruct k; try (cbn; discriminate);
        (destruct (sid =? 0);
         [ unfold RS.on_connection; cbn [RS.f_kind RS.f_inc]; try (cbn; discriminate); try reflexivity;
           try (destruct (inc =? 0); cbn; try discriminate; reflexivity)
         | try (cbn; discriminate);
           unfold RS.on_stream, RS.by_state, RS.priority_frame, RS.window_update; cbn [RS.f_kind RS.f_sid RS.f_es RS.f_self RS.f_inc];
           destruct (RS.st_of s sid) as [| | | |[| | |]]; try (cbn; discriminate);
           repeat match goal with
                  | |- context [if ?b then _ else _] => destruct b
                  end; cbn; try discriminate; reflexivity ]).
  - destruct (RS.block s); cbn; discriminate.
Qed.

Lemma limit_verdict_mild v r : limit_verdict v = true -> RS.admits v r = true -> mild r = true.
Proof.
  destruct v as [| |c|c], r as [| |c'|c'|]; cbn; try discriminate; try reflexivity; intros L E; apply N.eqb_eq in E; subst c'; rewrite L; try reflexivity.
  apply orb_true_r.
Qed.

Lemma may_process_mild s i r : RS.may_process s i = true -> RS.dead s = false -> RS.allowed s i r = true -> mild r = true.
Proof.
  intros MP D A. unfold RS.allowed in A. rewrite D in A. cbn [andb] in A. rewrite orb_false_r in A.
  apply orb_true_iff in A. destruct A as [A|A].
  - apply existsb_exists in A. destruct A as (v & Hin & Ha).
    pose proof (may_process_limit_verdicts s i MP) as F. rewrite forallb_forall in F. exact (limit_verdict_mild v r (F v Hin) Ha).
  - destruct r; try (rewrite andb_false_r in A; discriminate). reflexivity.
Qed.

Section Legal.
Variable hstate : Type.
Variable dec_field : hstate -> N -> bytes -> dec_res hstate.
Variable enc_field : hstate -> bytes -> bytes -> bool -> bytes * hstate.
Variable enc_set_max : hstate -> N -> hstate.
Variable cfg : config.
Variable h0 : hstate.
Notation feed := (feed hstate dec_field enc_field enc_set_max cfg).
Notation run_items := (run_items hstate dec_field enc_field enc_set_max cfg).
Notation c_init := (init_conn cfg h0).

(* along a lockstep run: an input the table lets take effect in the specification state reached so far
   (connection not yet in error), outside the known deviations, is processed, ignored, or answered with an
   error of the discretionary classes *)
Theorem legal_reaction_class its :
  forall pre i post, its = pre ++ IIn i :: post ->
    let c := fst (run_items c_init RS.init pre) in
    let s := snd (run_items c_init RS.init pre) in
    sc_sl_done c = false -> RS.dead s = false ->
    RS.may_process s (abs_input i) = true -> known_deviation hstate c s i = false ->
    mild (resolve s (abs_input i) (reaction_of hstate c i (feed c (IIn i)))) = true.
Proof.
  intros pre i post E c s Hsl D MP KD.
  destruct (reactions_allowed hstate dec_field enc_field enc_set_max cfg h0 its) as [_ H].
  specialize (H pre (IIn i) post E Hsl). fold c s in H. destruct H as [H|H]; [|congruence].
  unfold item_ok in H. exact (may_process_mild s _ _ MP D H).
Qed.

End Legal.
