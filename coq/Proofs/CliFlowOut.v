(* Proofs/CliFlowOut.v - what the moves of Proofs/CliFlowMoves.v add to the trace; invariants by closure under
   the moves; the run as a ledger history (C07) for any HPACK coder. *)
From H2V Require Import Base.Bytes Base.MachineInt Base.Result Gen.GenConsts Impl.ServerConn Impl.ClientConn
     Proofs.CliDefs Spec.FlowLedger Proofs.SrvFlowLedger Proofs.CliFlowMoves.
From Coq Require Import ZArith Lia ZifyN ZifyNat ZifyBool List Bool.
Import ListNotations.
Local Open Scope N_scope.
Set Default Proof Using "Type".

(* ---------- the tables ---------- *)

Lemma pend_get_In l id p : cl_pend_get l id = Some p -> In p l /\ pb_id p = id.
Proof.
  induction l as [|q t IH]; cbn [cl_pend_get]; [discriminate|].
  destruct (pb_id q =? id) eqn:E.
  - intro H. inversion H; subst. split; [left; reflexivity | apply N.eqb_eq; exact E].
  - intro H. destruct (IH H). split; [right; assumption | assumption].
Qed.

Lemma pend_get_None l id : cl_pend_get l id = None -> forall p, In p l -> pb_id p <> id.
Proof.
  induction l as [|q t IH]; cbn [cl_pend_get]; [intros _ p []|].
  destruct (pb_id q =? id) eqn:E; [discriminate|]. intros H p [->|HI]; [apply N.eqb_neq; exact E | apply IH; assumption].
Qed.

Lemma pend_del_In l id p : In p (cl_pend_del l id) -> In p l.
Proof.
  induction l as [|q t IH]; cbn [cl_pend_del]; [auto|].
  destruct (pb_id q =? id); [intro; right; assumption|]. intros [->|H]; [left; reflexivity | right; auto].
Qed.

Lemma pend_del_ids_incl l id x : In x (map pb_id (cl_pend_del l id)) -> In x (map pb_id l).
Proof.
  induction l as [|q t IH]; cbn [cl_pend_del map]; [auto|].
  destruct (pb_id q =? id); cbn [map]; [intro; right; assumption|]. intros [->|H]; [left; reflexivity | right; auto].
Qed.

Lemma pend_del_NoDup l id : NoDup (map pb_id l) -> NoDup (map pb_id (cl_pend_del l id)).
Proof.
  induction l as [|q t IH]; cbn [cl_pend_del map]; [auto|]. intro H. inversion H; subst.
  destruct (pb_id q =? id); [assumption|]. cbn [map]. constructor; [|auto].
  intro X. apply pend_del_ids_incl in X. contradiction.
Qed.

Lemma pend_del_not_In l id p : NoDup (map pb_id l) -> In p (cl_pend_del l id) -> pb_id p <> id.
Proof.
  induction l as [|q t IH]; cbn [cl_pend_del map]; [intros _ []|]. intro H. inversion H; subst.
  destruct (pb_id q =? id) eqn:E.
  - apply N.eqb_eq in E. subst id. intros HI X. apply H2. rewrite <- X. apply in_map. exact HI.
  - intros [->|HI]; [apply N.eqb_neq; exact E | auto].
Qed.

Lemma pend_put_ids l x : map pb_id (cl_pend_put l x) = map pb_id l.
Proof.
  induction l as [|q t IH]; cbn [cl_pend_put map]; [reflexivity|].
  destruct (pb_id q =? pb_id x) eqn:E; cbn [map]; [apply N.eqb_eq in E; congruence | rewrite IH; reflexivity].
Qed.

Lemma pend_put_In l x p : NoDup (map pb_id l) -> In p (cl_pend_put l x) -> p = x \/ (In p l /\ pb_id p <> pb_id x).
Proof.
  induction l as [|q t IH]; cbn [cl_pend_put map]; [intros _ []|]. intro H. inversion H; subst.
  destruct (pb_id q =? pb_id x) eqn:E.
  - apply N.eqb_eq in E. intros [->|HI]; [left; reflexivity|]. right. split; [right; assumption|].
    intro X. apply H2. rewrite E, <- X. apply in_map. exact HI.
  - intros [->|HI]; [right; split; [left; reflexivity | apply N.eqb_neq; exact E]|].
    destruct (IH H3 HI) as [->|[A B]]; [left; reflexivity | right; split; [right; assumption | assumption]].
Qed.

Lemma pend_get_put_same l x : cl_pend_get l (pb_id x) <> None -> cl_pend_get (cl_pend_put l x) (pb_id x) = Some x.
Proof.
  induction l as [|q t IH]; cbn [cl_pend_get cl_pend_put]; [congruence|].
  destruct (pb_id q =? pb_id x) eqn:E; cbn [cl_pend_get]; [rewrite N.eqb_refl; reflexivity | rewrite E; exact IH].
Qed.

Lemma pend_get_put_other l x id : id <> pb_id x -> cl_pend_get (cl_pend_put l x) id = cl_pend_get l id.
Proof.
  intro NE. induction l as [|q t IH]; cbn [cl_pend_get cl_pend_put]; [reflexivity|].
  destruct (pb_id q =? pb_id x) eqn:E; cbn [cl_pend_get].
  - apply N.eqb_eq in E. rewrite <- E in NE.
    destruct (pb_id x =? id) eqn:E1; [apply N.eqb_eq in E1; congruence|].
    destruct (pb_id q =? id) eqn:E2; [apply N.eqb_eq in E2; congruence | reflexivity].
  - destruct (pb_id q =? id); [reflexivity | exact IH].
Qed.

Lemma pend_get_del_same l id : NoDup (map pb_id l) -> cl_pend_get (cl_pend_del l id) id = None.
Proof.
  intro ND. destruct (cl_pend_get (cl_pend_del l id) id) as [p|] eqn:G; [|reflexivity].
  apply pend_get_In in G. destruct G as [HI E]. exfalso. exact (pend_del_not_In l id p ND HI E).
Qed.

Lemma pend_get_del_other l id x : x <> id -> cl_pend_get (cl_pend_del l id) x = cl_pend_get l x.
Proof.
  intro NE. induction l as [|q t IH]; cbn [cl_pend_get cl_pend_del]; [reflexivity|].
  destruct (pb_id q =? id) eqn:E.
  - apply N.eqb_eq in E. destruct (pb_id q =? x) eqn:E2; [apply N.eqb_eq in E2; congruence | reflexivity].
  - cbn [cl_pend_get]. destruct (pb_id q =? x); [reflexivity | exact IH].
Qed.

Lemma pend_del_absent l id : (forall p, In p l -> pb_id p <> id) -> cl_pend_del l id = l.
Proof.
  induction l as [|q t IH]; cbn [cl_pend_del]; [reflexivity|]. intro H.
  destruct (pb_id q =? id) eqn:E; [apply N.eqb_eq in E; exfalso; exact (H q (or_introl eq_refl) E)|].
  rewrite IH; [reflexivity|]. intros p HI. apply H. right. exact HI.
Qed.

Lemma pend_del_app_last l pb : (forall p, In p l -> pb_id p <> pb_id pb) -> cl_pend_del (l ++ [pb]) (pb_id pb) = l.
Proof.
  induction l as [|q t IH]; cbn [cl_pend_del app]; intro H.
  - rewrite N.eqb_refl. reflexivity.
  - destruct (pb_id q =? pb_id pb) eqn:E; [apply N.eqb_eq in E; exfalso; exact (H q (or_introl eq_refl) E)|].
    rewrite IH; [reflexivity|]. intros p HI. apply H. right. exact HI.
Qed.

Section Out.
Variable hstate : Type.
Variable dec_field : hstate -> N -> bytes -> dec_res hstate.
Variable enc_field : hstate -> bytes -> bytes -> bool -> bytes * hstate.
Variable enc_set_max : hstate -> N -> hstate.
Variable cfg : cl_config.
Variable h0 : hstate.
Variable first : bytes.
Notation cconn := (cconn hstate).
Notation move := (move hstate).
Notation apply := (apply hstate enc_field enc_set_max).
Notation valid := (valid hstate).
Notation mvs := (mvs enc_field enc_set_max).
Notation step := (cl_step dec_field enc_field enc_set_max cfg).
Notation run := (cl_run dec_field enc_field enc_set_max cfg h0 first).
Notation init := (cl_init enc_set_max h0 first).

(* ---------- invariants by closure under the moves ---------- *)

Lemma mvs_inv (I : cconn -> Prop) :
  (forall m c, valid m c -> I c -> I (apply m c)) -> forall c ms c', mvs c ms c' -> I c -> I c'.
Proof. intros H c ms c' M. induction M; auto. Qed.

Lemma step_inv (I : cconn -> Prop) :
  (forall m c, valid m c -> I c -> I (apply m c)) -> forall c e, I c -> I (step c e).
Proof.
  intros H c e HI. destruct (step_D hstate dec_field enc_field enc_set_max cfg c e) as (ms & M & _ & _).
  exact (mvs_inv I H _ _ _ M HI).
Qed.

Definition run_from (c : cconn) (evs : list cevent) : cconn := fold_left step evs c.

Lemma run_from_app c a b : run_from c (a ++ b) = run_from (run_from c a) b.
Proof. apply fold_left_app. Qed.

Lemma run_inv (I : cconn -> Prop) :
  I init -> (forall m c, valid m c -> I c -> I (apply m c)) -> forall evs, I (run evs).
Proof.
  intros H0 H evs. unfold cl_run. generalize init H0. induction evs as [|e t IH]; intros c HI; cbn [fold_left]; [exact HI|].
  apply IH. apply step_inv; assumption.
Qed.

Lemma run_from_inv (I : cconn -> Prop) :
  (forall m c, valid m c -> I c -> I (apply m c)) -> forall evs c, I c -> I (run_from c evs).
Proof.
  intros H evs. induction evs as [|e t IH]; intros c HI; cbn [run_from fold_left]; [exact HI|].
  apply IH. apply step_inv; assumption.
Qed.

(* ---------- what a move adds to the trace, oldest first ---------- *)

Definition items (m : move) (c : cconn) : list coutev :=
  match m with
  | MNote o => if quietb o then [o] else []
  | MWlWrite => match cc_outQ c with o :: _ => [o] | [] => [] end
  | MWlReset id => [CORst id c_InternalError]
  | MSend id wr =>
    match cl_pend_get (cc_pending c) id with
    | Some pb => if wr then cl_write_data (cc_maxFrame c) id (cs_chunk c pb) (cs_end c pb) else []
    | None => []
    end
  | MHeaders blk opb => [COHeaders (cc_nextID c) (match opb with Some _ => false | None => true end) blk]
  | _ => []
  end.

Lemma out_notes (c : cconn) l : cc_out (cl_notes c l) = rev l ++ cc_out c.
Proof.
  revert c. induction l as [|o t IH]; intro c; cbn [cl_notes rev app]; [reflexivity|].
  rewrite IH. cbn [cl_note cc_out ccu_out]. rewrite <- app_assoc. reflexivity.
Qed.

Lemma out_apply m (c : cconn) : cc_out (apply m c) = rev (items m c) ++ cc_out c.
Proof.
  destruct m; cbn [apply items]; try reflexivity.
  - destruct (quietb o); reflexivity.
  - unfold cl_take_req_count. destruct (cl_req_find _ _); reflexivity.
  - destruct (pushb o); [|reflexivity]. unfold cl_write_out. destruct (cc_closed c); reflexivity.
  - destruct (cc_outQ c); reflexivity.
  - unfold recv_data, cl_update_window, cl_write_out. cc_cbn.
    repeat match goal with |- context [if ?b then _ else _] => destruct b end; reflexivity.
  - destruct (cl_settings_deserialize false payload); [|reflexivity].
    unfold cl_handle_settings, cl_apply_initial_window, cl_signal_window, cl_write_out. cc_cbn.
    repeat match goal with |- context [if ?b then _ else _] => destruct b end; reflexivity.
  - unfold cl_add_window, cl_signal_window. destruct (sid =? 0); [reflexivity|].
    destruct (cl_pend_get _ _); reflexivity.
  - destruct (cl_pend_get _ _) as [pb|]; [|reflexivity]. destruct (cl_refill pb); reflexivity.
  - destruct (cl_pend_get _ _) as [pb|]; [|reflexivity]. destruct wr; [|unfold cs_conn; destruct (cs_end c pb); reflexivity].
    rewrite out_notes. unfold cs_conn. destruct (cs_end c pb); reflexivity.
  - (* MSendBack *)
    destruct (cl_pend_get _ _) as [pb|]; [|reflexivity]. sb_cases c pb; reflexivity.
  - destruct (negb _); reflexivity.
  - destruct opb; reflexivity.
Qed.

Fixpoint mitems (c : cconn) (ms : list move) : list coutev :=
  match ms with
  | [] => []
  | m :: t => items m c ++ mitems (apply m c) t
  end.

Lemma mvs_out c ms c' : mvs c ms c' -> cc_out c' = rev (mitems c ms) ++ cc_out c.
Proof.
  induction 1; cbn [mitems]; [reflexivity|]. rewrite IHmvs, out_apply, rev_app_distr, <- app_assoc. reflexivity.
Qed.

(* what a step added to the trace, oldest first (cli_new of Proofs/CliDefs.v, for any coder) *)
Definition g_new (c c' : cconn) : list coutev :=
  rev (firstn (length (cc_out c') - length (cc_out c)) (cc_out c')).

Lemma g_new_ext (c c' : cconn) new : cc_out c' = rev new ++ cc_out c -> g_new c c' = new.
Proof.
  intro H. unfold g_new. rewrite H, app_length.
  rewrite Nat.add_sub. rewrite <- (Nat.add_0_r (length (rev new))).
  rewrite firstn_app_2. cbn [firstn]. rewrite app_nil_r. apply rev_involutive.
Qed.

Lemma mvs_new c ms c' : mvs c ms c' -> g_new c c' = mitems c ms.
Proof. intro M. apply g_new_ext. apply mvs_out. exact M. Qed.

End Out.
