(* No connection is leaked by the pool (Impl/ClientPool.v): every connection the client ever made is in its list or
   closed, in every reachable state; so once Client.Close has run every connection the client ever made is closed. *)
From Coq Require Import List NArith Bool Lia.
From H2V Require Import Impl.ClientPool Proofs.PoolThms.
Import ListNotations.
Open Scope N_scope.

Definition Kept (p : pool) : Prop := forall c, In c (pl_stat p) -> In (plc_id c) (pl_conns p) \/ plc_closed c = true.

Lemma find_of_In st c : NoDup (map plc_id st) -> In c st -> pl_find st (plc_id c) = Some c.
Proof.
  induction st as [|x r IH]; cbn [map pl_find In]; intros N H; [destruct H|].
  inversion N as [|? ? Hn Hr]; subst. destruct H as [E|H].
  - subst x. rewrite N.eqb_refl. reflexivity.
  - destruct (N.eqb_spec (plc_id x) (plc_id c)) as [E|E]; [|exact (IH Hr H)].
    exfalso. apply Hn. rewrite E. apply in_map. exact H.
Qed.

Lemma In_set st id f c : In c (pl_set st id f) -> In c st \/ exists c0, In c0 st /\ plc_id c0 = id /\ c = f c0.
Proof.
  induction st as [|x r IH]; cbn [pl_set In]; [tauto|].
  destruct (N.eqb_spec (plc_id x) id) as [E|E]; cbn [In].
  - intros [H|H]; [right; exists x; auto | left; right; exact H].
  - intros [H|H]; [left; left; exact H|]. destruct (IH H) as [A|(c0 & A & B & C)]; [left; right; exact A | right; exists c0; auto].
Qed.

Lemma Kept_init : Kept pl_init.
Proof. intros c []. Qed.

Lemma Kept_create p d q c o : Kept p -> pl_create_conn p d = (q, c, o) -> Kept q.
Proof.
  intros K H. destruct d; cbn [pl_create_conn] in H; inversion H; subst; clear H; intros x Hx; cbn [pl_stat pl_conns] in *.
  - destruct Hx as [E|Hx]; [subst x; left; left; reflexivity|]. destruct (K x Hx) as [A|A]; [left; right; exact A | right; exact A].
  - exact (K x Hx).
  - exact (K x Hx).
Qed.

Lemma Kept_set_closed p id : Kept p -> Kept (pl_upd_stat p (pl_set (pl_stat p) id pl_mark_closed)).
Proof.
  intros K x Hx. cbn [pl_upd_stat pl_stat pl_conns] in *. destruct (In_set _ _ _ _ Hx) as [A|(c0 & A & B & C)]; [exact (K x A)|].
  subst x. right. reflexivity.
Qed.

Lemma Kept_set_can p id b : Kept p -> Kept (pl_upd_stat p (pl_set (pl_stat p) id (pl_mark_can b))).
Proof.
  intros K x Hx. cbn [pl_upd_stat pl_stat pl_conns] in *. destruct (In_set _ _ _ _ Hx) as [A|(c0 & A & B & C)]; [exact (K x A)|].
  subst x. cbn [pl_mark_can plc_id plc_closed]. exact (K c0 A).
Qed.

Lemma Kept_upd_closing p l : Kept p -> Kept (pl_upd_closing p l).
Proof. intros K x Hx. exact (K x Hx). Qed.

(* the list may lose connections that read as closed *)
Lemma Kept_upd_conns p l : Inv p -> Kept p ->
  (forall id, In id (pl_conns p) -> In id l \/ pl_is_closed p id = true) -> Kept (pl_upd_conns p l).
Proof.
  intros I K H x Hx. cbn [pl_upd_conns pl_stat pl_conns] in *. destruct (K x Hx) as [A|A]; [|right; exact A].
  destruct (H _ A) as [B|B]; [left; exact B|]. right. unfold pl_is_closed in B.
  rewrite (find_of_In _ _ (inv_ids p I) Hx) in B. exact B.
Qed.

Lemma walk_loses_closed p l l' f id : pl_walk p l = (l', f) -> In id l -> In id l' \/ pl_is_closed p id = true.
Proof.
  revert l' f. induction l as [|x r IH]; cbn [pl_walk In]; intros l' f W H; [destruct H|].
  destruct (pl_is_closed p x) eqn:C.
  - destruct H as [E|H]; [subst; right; exact C | exact (IH _ _ W H)].
  - destruct (pl_can_open p x).
    + inversion W; subst. left. exact H.
    + destruct (pl_walk p r) as [r' f'] eqn:W'. inversion W; subst. destruct H as [E|H]; [left; left; exact E|].
      destruct (IH _ _ eq_refl H) as [A|A]; [left; right; exact A | right; exact A].
Qed.

Lemma Kept_pick p d q r o : Inv p -> Kept p -> pl_pick_conn p d = (q, r, o) -> Kept q.
Proof.
  intros I K H. unfold pl_pick_conn in H. destruct (pl_closed p); [inversion H; subst; exact K|].
  destruct (pl_walk p (pl_conns p)) as [l f] eqn:W.
  assert (K1 : Kept (pl_upd_conns p l)).
  { apply Kept_upd_conns; [exact I | exact K | intros id Hi; eapply walk_loses_closed; eassumption]. }
  destruct f as [id|]; [inversion H; subst; exact K1|].
  destruct (pl_create_conn (pl_upd_conns p l) d) as [[p2 c] o2] eqn:C. inversion H; subst. eapply Kept_create; eassumption.
Qed.

Lemma remove_keeps l id x : In x l -> x <> id -> In x (pl_remove l id).
Proof.
  induction l as [|y r IH]; cbn [pl_remove In]; [tauto|]. intros [E|H] Hn.
  - subst y. destruct (N.eqb_spec x id); [contradiction|]. left. reflexivity.
  - destruct (N.eqb y id); [exact H | right; exact (IH H Hn)].
Qed.

Lemma Kept_on_dropped p id d q o : Inv p -> Kept p -> pl_is_closed p id = true -> pl_on_dropped p id d = (q, o) -> Kept q.
Proof.
  intros I K C H. unfold pl_on_dropped in H. destruct (pl_closed p); [inversion H; subst; exact K|].
  destruct (pl_mem (pl_conns p) id); [|inversion H; subst; exact K].
  destruct (pl_create_conn (pl_upd_conns p (pl_remove (pl_conns p) id)) d) as [[p1 c] o1] eqn:E. inversion H; subst.
  eapply Kept_create; [|exact E]. apply Kept_upd_conns; [exact I | exact K|].
  intros x Hx. destruct (N.eq_dec x id) as [X|X]; [subst; right; exact C | left; apply remove_keeps; assumption].
Qed.

Lemma Kept_close_all p l q o : Kept p -> pl_close_all p l = (q, o) -> Kept q.
Proof.
  revert p q o. induction l as [|id r IH]; cbn [pl_close_all]; intros p q o K H; [inversion H; subst; exact K|].
  destruct (pl_is_closed p id); [exact (IH _ _ _ K H)|].
  destruct (pl_close_all (pl_upd_stat p (pl_set (pl_stat p) id pl_mark_closed)) r) as [p1 o1] eqn:R. inversion H; subst.
  exact (IH _ _ _ (Kept_set_closed p id K) R).
Qed.

Lemma Kept_step p e : Inv p -> Kept p -> Kept (pl_state_of (pl_step p e)).
Proof.
  intros I K. unfold pl_state_of. destruct e as [d|id b|id|id d|]; cbn [pl_step].
  - destruct (pl_pick_conn p d) as [[q r] o] eqn:H. cbn [fst]. eapply Kept_pick; eassumption.
  - cbn [fst]. apply Kept_set_can. exact K.
  - destruct (pl_close_begin p id) as [q o] eqn:H. cbn [fst]. unfold pl_close_begin in H.
    destruct (pl_find (pl_stat p) id) as [c|]; [|inversion H; subst; exact K].
    destruct (plc_closed c); inversion H; subst; [exact K|]. apply Kept_upd_closing. apply Kept_set_closed. exact K.
  - destruct (pl_close_end p id d) as [q o] eqn:H. cbn [fst]. unfold pl_close_end in H.
    destruct (pl_mem (pl_closing p) id) eqn:M; [|inversion H; subst; exact K].
    apply pl_mem_In in M. destruct (inv_closing p I id M) as [_ C].
    refine (Kept_on_dropped (pl_upd_closing p (pl_remove (pl_closing p) id)) id d q o _ _ C H).
    + apply Inv_upd_closing; [exact I|]. intros x Hx. apply (inv_closing p I). eapply pl_remove_In; exact Hx.
    + apply Kept_upd_closing. exact K.
  - destruct (pl_client_close p) as [q o] eqn:H. cbn [fst]. unfold pl_client_close in H. destruct (pl_closed p); [inversion H; subst; exact K|].
    (* the list is emptied: every listed connection is closed by close_all, the others were closed already *)
    destruct (close_all_fields _ _ _ _ H) as (_ & B & _ & _ & E & F & G). cbn [pl_conns pl_stat] in *.
    intros x Hx. right.
    assert (N : NoDup (map plc_id (pl_stat q))) by (rewrite E; exact (inv_ids p I)).
    assert (C : pl_is_closed q (plc_id x) = true).
    { assert (Hx' : In (plc_id x) (map plc_id (pl_stat p))) by (rewrite <- E; apply in_map; exact Hx).
      destruct (pl_find_In_Some _ _ Hx') as [c0 F0]. 
      assert (In0 : In c0 (pl_stat p)).
      { clear -F0. induction (pl_stat p) as [|y r IH]; cbn [pl_find] in F0; [discriminate|].
        destruct (N.eqb (plc_id y) (plc_id x)); [inversion F0; left; reflexivity | right; exact (IH F0)]. }
      assert (Id0 : plc_id c0 = plc_id x).
      { clear -F0. induction (pl_stat p) as [|y r IH]; cbn [pl_find] in F0; [discriminate|].
        destruct (N.eqb_spec (plc_id y) (plc_id x)) as [Y|Y]; [inversion F0; subst; exact Y | exact (IH F0)]. }
      destruct (K c0 In0) as [A|A].
      - apply G. rewrite <- Id0. exact A.
      - apply F. unfold pl_is_closed. cbn [pl_stat]. rewrite F0. exact A. }
    unfold pl_is_closed in C. rewrite (find_of_In _ _ N Hx) in C. exact C.
Qed.

Lemma Kept_run_from p evs : Inv p -> Kept p -> Kept (pl_run_from p evs).
Proof.
  revert p. induction evs as [|e r IH]; intros p I K; [exact K|]. cbn [pl_run_from fold_left].
  apply IH; [apply Inv_step; exact I | apply Kept_step; assumption].
Qed.

Theorem kept_run evs : Kept (pl_run evs).
Proof. apply Kept_run_from; [exact Inv_init | exact Kept_init]. Qed.

(* once Client.Close has run, every connection the client ever made is closed - and stays so, whatever happens next *)
Theorem no_leak_after_close evs c : pl_closed (pl_run evs) = true -> In c (pl_stat (pl_run evs)) -> plc_closed c = true.
Proof.
  intros Hc Hx. destruct (kept_run evs c Hx) as [A|A]; [|exact A].
  rewrite (inv_closed_empty _ (Inv_run evs) Hc) in A. destruct A.
Qed.
