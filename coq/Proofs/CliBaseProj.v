(* Proofs/CliBaseProj.v - the mechanical part of the shared base for proofs about Impl/ClientConn.v: implicit arguments,
   the cc_cbn / cc_unf tactics, projection lemmas for the generated setters, frame lemmas for the small helpers, and the
   rewrite database `cc`. Generated parts are rebuilt in place by tools/gen_clibase.sh. Import Proofs/CliBase.v (which
   re-exports this file), not this one. OWNER: the CliRes agent; do not edit by hand. *)
From H2V Require Import Base.Bytes Base.MachineInt Base.Result Gen.GenConsts Impl.ServerConn Impl.ClientConn.
From Coq Require Import ZArith Lia ZifyN ZifyNat ZifyBool List.
Import ListNotations.
Local Open Scope N_scope.

(* ---------- implicit arguments ---------- *)
(* BEGIN GENERATED args (tools/gen_clibase.sh) *)
Arguments ccu_ctxs {hstate}. Arguments ccu_nextID {hstate}. Arguments ccu_open {hstate}. Arguments ccu_maxStreams {hstate}. Arguments ccu_maxFrame {hstate}. Arguments ccu_goAway {hstate}.
Arguments ccu_closed {hstate}. Arguments ccu_closing {hstate}. Arguments ccu_netClosed {hstate}. Arguments ccu_writeFail {hstate}. Arguments ccu_enc {hstate}. Arguments ccu_encTableSize {hstate}.
Arguments ccu_encTableSeen {hstate}. Arguments ccu_dec {hstate}. Arguments ccu_currentWindow {hstate}. Arguments ccu_serverS {hstate}. Arguments ccu_hdrStream {hstate}. Arguments ccu_hdrPrev {hstate}.
Arguments ccu_hdrFields {hstate}. Arguments ccu_hdrEndStream {hstate}. Arguments ccu_hdrRegularSeen {hstate}. Arguments ccu_hdrStatus {hstate}. Arguments ccu_hdrErr {hstate}. Arguments ccu_stateClosed {hstate}.
Arguments ccu_closeRef {hstate}. Arguments ccu_reqQueued {hstate}. Arguments ccu_pending {hstate}. Arguments ccu_connWindow {hstate}. Arguments ccu_streamWindow {hstate}. Arguments ccu_inQ {hstate}.
Arguments ccu_outQ {hstate}. Arguments ccu_winCh {hstate}. Arguments ccu_lastErr {hstate}. Arguments ccu_unacks {hstate}. Arguments ccu_rl_done {hstate}. Arguments ccu_wl_done {hstate}.
Arguments ccu_rl_stuck {hstate}. Arguments ccu_wl_stuck {hstate}. Arguments ccu_out {hstate}. Arguments cl_note {hstate}. Arguments cl_notes {hstate}. Arguments cl_can_write {hstate}.
Arguments cl_ctx_get {hstate}. Arguments cl_ctx_put {hstate}. Arguments cl_ctx_upd {hstate}. Arguments cl_resolve {hstate}. Arguments cl_resolve_all {hstate}. Arguments cl_set_last_err {hstate}.
Arguments cl_close_err {hstate}. Arguments cl_req_del {hstate}. Arguments cl_take_req_count {hstate}. Arguments cl_write_out {hstate}. Arguments cl_signal_window {hstate}. Arguments cl_close_begin {hstate}.
Arguments cl_close_net {hstate}. Arguments cl_conn_close {hstate}. Arguments cl_acquire_for {hstate}. Arguments cl_go_stuck {hstate}. Arguments cl_close_body {hstate}. Arguments cl_delete_pending {hstate}.
Arguments cl_cancel_stream {hstate}. Arguments cl_apply_initial_window {hstate}. Arguments cl_add_window {hstate}. Arguments cl_send_pending {hstate}. Arguments cl_send_fuel {hstate}. Arguments cl_flush_pending {hstate}.
Arguments cl_pending_order {hstate}. Arguments cl_can_open_stream {hstate}. Arguments cl_enc_req_fields {hstate}. Arguments cl_request_block {hstate}. Arguments cl_write_request {hstate}. Arguments cl_wl_exit {hstate}.
Arguments cl_wl_after {hstate}. Arguments cl_wl_in {hstate}. Arguments cl_wl_out {hstate}. Arguments cl_wl_win {hstate}. Arguments cl_wl_ping {hstate}. Arguments cl_wl_done {hstate}.
Arguments cl_rl_exit {hstate}. Arguments cl_rl_fail {hstate}. Arguments cl_rl_panic {hstate}. Arguments cl_handle_settings {hstate}. Arguments cl_finish {hstate}. Arguments cl_gone_away {hstate}.
Arguments cl_goaway_fail {hstate}. Arguments cl_goaway {hstate}. Arguments cl_update_window {hstate}. Arguments cl_hdr_loop {hstate}. Arguments cl_read_header_fragment {hstate}. Arguments cl_read_stream {hstate}.
Arguments cl_dispatch {hstate}. Arguments cl_rl_frame {hstate}. Arguments cl_rl_step {hstate}. Arguments cl_submit {hstate}. Arguments cl_submit_check {hstate}. Arguments cl_receive {hstate}.
Arguments cl_timeout_fire {hstate}. Arguments cl_timeout_cancel {hstate}. Arguments cl_close_call {hstate}. Arguments cl_close_finish {hstate}. Arguments cl_wl_live {hstate}. Arguments cl_rl_live {hstate}.
Arguments cl_step {hstate}. Arguments cl_init {hstate}. Arguments cl_run {hstate}. Arguments cl_trace {hstate}. Arguments mkCConn {hstate}. Arguments cc_ctxs {hstate}.
Arguments cc_nextID {hstate}. Arguments cc_open {hstate}. Arguments cc_maxStreams {hstate}. Arguments cc_maxFrame {hstate}. Arguments cc_goAway {hstate}. Arguments cc_closed {hstate}.
Arguments cc_closing {hstate}. Arguments cc_netClosed {hstate}. Arguments cc_writeFail {hstate}. Arguments cc_enc {hstate}. Arguments cc_encTableSize {hstate}. Arguments cc_encTableSeen {hstate}.
Arguments cc_dec {hstate}. Arguments cc_currentWindow {hstate}. Arguments cc_serverS {hstate}. Arguments cc_hdrStream {hstate}. Arguments cc_hdrPrev {hstate}. Arguments cc_hdrFields {hstate}.
Arguments cc_hdrEndStream {hstate}. Arguments cc_hdrRegularSeen {hstate}. Arguments cc_hdrStatus {hstate}. Arguments cc_hdrErr {hstate}. Arguments cc_stateClosed {hstate}. Arguments cc_closeRef {hstate}.
Arguments cc_reqQueued {hstate}. Arguments cc_pending {hstate}. Arguments cc_connWindow {hstate}. Arguments cc_streamWindow {hstate}. Arguments cc_inQ {hstate}. Arguments cc_outQ {hstate}.
Arguments cc_winCh {hstate}. Arguments cc_lastErr {hstate}. Arguments cc_unacks {hstate}. Arguments cc_rl_done {hstate}. Arguments cc_wl_done {hstate}. Arguments cc_rl_stuck {hstate}.
Arguments cc_wl_stuck {hstate}. Arguments cc_out {hstate}.
(* END GENERATED args *)

(* ---------- tactics ---------- *)
(* BEGIN GENERATED tactics (tools/gen_clibase.sh) *)
Ltac cc_cbn := cbn [cc_ctxs cc_nextID cc_open cc_maxStreams cc_maxFrame cc_goAway cc_closed cc_closing cc_netClosed cc_writeFail cc_enc cc_encTableSize cc_encTableSeen cc_dec cc_currentWindow cc_serverS cc_hdrStream cc_hdrPrev cc_hdrFields cc_hdrEndStream cc_hdrRegularSeen cc_hdrStatus cc_hdrErr cc_stateClosed cc_closeRef cc_reqQueued cc_pending cc_connWindow cc_streamWindow cc_inQ cc_outQ cc_winCh cc_lastErr cc_unacks cc_rl_done cc_wl_done cc_rl_stuck cc_wl_stuck cc_out ccu_ctxs ccu_nextID ccu_open ccu_maxStreams ccu_maxFrame ccu_goAway ccu_closed ccu_closing ccu_netClosed ccu_writeFail ccu_enc ccu_encTableSize ccu_encTableSeen ccu_dec ccu_currentWindow ccu_serverS ccu_hdrStream ccu_hdrPrev ccu_hdrFields ccu_hdrEndStream ccu_hdrRegularSeen ccu_hdrStatus ccu_hdrErr ccu_stateClosed ccu_closeRef ccu_reqQueued ccu_pending ccu_connWindow ccu_streamWindow ccu_inQ ccu_outQ ccu_winCh ccu_lastErr ccu_unacks ccu_rl_done ccu_wl_done ccu_rl_stuck ccu_wl_stuck ccu_out ct_tag ct_req ct_resp ct_sid ct_conn ct_done ct_resolved ct_finished ct_err ct_armed ct_fired ct_cancelled ct_gotStatus ct_bodyClosed ct_writing ct_returned ct_pooled ct_lckStuck ctu_tag ctu_req ctu_resp ctu_sid ctu_conn ctu_done ctu_resolved ctu_finished ctu_err ctu_armed ctu_fired ctu_cancelled ctu_gotStatus ctu_bodyClosed ctu_writing ctu_returned ctu_pooled ctu_lckStuck pb_id pb_tag pb_body pb_window pb_stream pb_size pb_read pb_drained pbu_id pbu_tag pbu_body pbu_window pbu_stream pbu_size pbu_read pbu_drained fst snd].
Ltac cc_cbn_in H := cbn [cc_ctxs cc_nextID cc_open cc_maxStreams cc_maxFrame cc_goAway cc_closed cc_closing cc_netClosed cc_writeFail cc_enc cc_encTableSize cc_encTableSeen cc_dec cc_currentWindow cc_serverS cc_hdrStream cc_hdrPrev cc_hdrFields cc_hdrEndStream cc_hdrRegularSeen cc_hdrStatus cc_hdrErr cc_stateClosed cc_closeRef cc_reqQueued cc_pending cc_connWindow cc_streamWindow cc_inQ cc_outQ cc_winCh cc_lastErr cc_unacks cc_rl_done cc_wl_done cc_rl_stuck cc_wl_stuck cc_out ccu_ctxs ccu_nextID ccu_open ccu_maxStreams ccu_maxFrame ccu_goAway ccu_closed ccu_closing ccu_netClosed ccu_writeFail ccu_enc ccu_encTableSize ccu_encTableSeen ccu_dec ccu_currentWindow ccu_serverS ccu_hdrStream ccu_hdrPrev ccu_hdrFields ccu_hdrEndStream ccu_hdrRegularSeen ccu_hdrStatus ccu_hdrErr ccu_stateClosed ccu_closeRef ccu_reqQueued ccu_pending ccu_connWindow ccu_streamWindow ccu_inQ ccu_outQ ccu_winCh ccu_lastErr ccu_unacks ccu_rl_done ccu_wl_done ccu_rl_stuck ccu_wl_stuck ccu_out ct_tag ct_req ct_resp ct_sid ct_conn ct_done ct_resolved ct_finished ct_err ct_armed ct_fired ct_cancelled ct_gotStatus ct_bodyClosed ct_writing ct_returned ct_pooled ct_lckStuck ctu_tag ctu_req ctu_resp ctu_sid ctu_conn ctu_done ctu_resolved ctu_finished ctu_err ctu_armed ctu_fired ctu_cancelled ctu_gotStatus ctu_bodyClosed ctu_writing ctu_returned ctu_pooled ctu_lckStuck pb_id pb_tag pb_body pb_window pb_stream pb_size pb_read pb_drained pbu_id pbu_tag pbu_body pbu_window pbu_stream pbu_size pbu_read pbu_drained fst snd] in H.
Ltac cc_cbn_all := cbn [cc_ctxs cc_nextID cc_open cc_maxStreams cc_maxFrame cc_goAway cc_closed cc_closing cc_netClosed cc_writeFail cc_enc cc_encTableSize cc_encTableSeen cc_dec cc_currentWindow cc_serverS cc_hdrStream cc_hdrPrev cc_hdrFields cc_hdrEndStream cc_hdrRegularSeen cc_hdrStatus cc_hdrErr cc_stateClosed cc_closeRef cc_reqQueued cc_pending cc_connWindow cc_streamWindow cc_inQ cc_outQ cc_winCh cc_lastErr cc_unacks cc_rl_done cc_wl_done cc_rl_stuck cc_wl_stuck cc_out ccu_ctxs ccu_nextID ccu_open ccu_maxStreams ccu_maxFrame ccu_goAway ccu_closed ccu_closing ccu_netClosed ccu_writeFail ccu_enc ccu_encTableSize ccu_encTableSeen ccu_dec ccu_currentWindow ccu_serverS ccu_hdrStream ccu_hdrPrev ccu_hdrFields ccu_hdrEndStream ccu_hdrRegularSeen ccu_hdrStatus ccu_hdrErr ccu_stateClosed ccu_closeRef ccu_reqQueued ccu_pending ccu_connWindow ccu_streamWindow ccu_inQ ccu_outQ ccu_winCh ccu_lastErr ccu_unacks ccu_rl_done ccu_wl_done ccu_rl_stuck ccu_wl_stuck ccu_out ct_tag ct_req ct_resp ct_sid ct_conn ct_done ct_resolved ct_finished ct_err ct_armed ct_fired ct_cancelled ct_gotStatus ct_bodyClosed ct_writing ct_returned ct_pooled ct_lckStuck ctu_tag ctu_req ctu_resp ctu_sid ctu_conn ctu_done ctu_resolved ctu_finished ctu_err ctu_armed ctu_fired ctu_cancelled ctu_gotStatus ctu_bodyClosed ctu_writing ctu_returned ctu_pooled ctu_lckStuck pb_id pb_tag pb_body pb_window pb_stream pb_size pb_read pb_drained pbu_id pbu_tag pbu_body pbu_window pbu_stream pbu_size pbu_read pbu_drained fst snd] in *.
(* END GENERATED tactics *)
Ltac cc_rw := autorewrite with cc.
Ltac cc_rw_in H := autorewrite with cc in H.

(* split every `if`/`match` scrutinee that blocks the goal, one at a time *)
Ltac cc_split_ifs :=
  repeat match goal with
         | |- context [if ?b then _ else _] => destruct b eqn:?
         | |- context [match ?s with Some _ => _ | None => _ end] => destruct s eqn:?
         | |- context [match ?s with CLOk => _ | CLRefused => _ | CLSelf => _ | CLBlocked => _ end] => destruct s eqn:?
         | |- context [let '(_, _) := ?p in _] => destruct p eqn:?
         end.

(* ---------- eq lemmas for the recursive helpers (what they change, as one setter) ---------- *)
Section Eqs.
Variable hstate : Type.
Implicit Types c : cconn hstate.

Lemma ccu_ctxs_same c : ccu_ctxs c (cc_ctxs c) = c.
Proof. destruct c; reflexivity. Qed.
Lemma ccu_out_same c : ccu_out c (cc_out c) = c.
Proof. destruct c; reflexivity. Qed.
Lemma ccu_ctxs_ccu_ctxs c l l' : ccu_ctxs (ccu_ctxs c l) l' = ccu_ctxs c l'.
Proof. reflexivity. Qed.
Lemma ccu_out_ccu_out c l l' : ccu_out (ccu_out c l) l' = ccu_out c l'.
Proof. reflexivity. Qed.

Lemma cl_notes_eq c l : cl_notes c l = ccu_out c (rev l ++ cc_out c).
Proof.
  revert c. induction l as [|o t IH]; intro c; cbn [cl_notes rev app]; [symmetry; apply ccu_out_same|].
  rewrite IH. unfold cl_note. cbn [cc_out ccu_out]. rewrite <- app_assoc. reflexivity.
Qed.

Lemma cl_ctx_upd_eq c tag f : cl_ctx_upd c tag f = ccu_ctxs c (cc_ctxs (cl_ctx_upd c tag f)).
Proof. unfold cl_ctx_upd, cl_ctx_put. destruct (cl_ctx_get c tag); [reflexivity | symmetry; apply ccu_ctxs_same]. Qed.

Lemma cl_resolve_eq c tag e : cl_resolve c tag e = ccu_ctxs c (cc_ctxs (cl_resolve c tag e)).
Proof. apply cl_ctx_upd_eq. Qed.

Lemma cl_resolve_all_eq c tags e : cl_resolve_all c tags e = ccu_ctxs c (cc_ctxs (cl_resolve_all c tags e)).
Proof.
  revert c. induction tags as [|t r IH]; intro c; cbn [cl_resolve_all]; [symmetry; apply ccu_ctxs_same|].
  rewrite IH at 1. rewrite cl_resolve_eq at 1. reflexivity.
Qed.

Lemma cl_stuck_fold_eq c held :
  fold_left (fun c t => cl_ctx_upd c t (fun x => ctu_lckStuck x true)) held c =
  ccu_ctxs c (cc_ctxs (fold_left (fun c t => cl_ctx_upd c t (fun x => ctu_lckStuck x true)) held c)).
Proof.
  revert c. induction held as [|t r IH]; intro c; cbn [fold_left]; [symmetry; apply ccu_ctxs_same|].
  rewrite IH at 1. rewrite cl_ctx_upd_eq at 1. reflexivity.
Qed.

End Eqs.

Ltac cc_unf :=
  unfold cl_finish, cl_handle_settings, cl_update_window, cl_add_window, cl_apply_initial_window, cl_cancel_stream,
         cl_delete_pending, cl_close_body, cl_go_stuck, cl_conn_close, cl_close_net, cl_close_begin, cl_signal_window,
         cl_write_out, cl_take_req_count, cl_req_del, cl_set_last_err, cl_can_write;
  try rewrite cl_notes_eq; try rewrite cl_resolve_all_eq;
  try match goal with
      | |- context [fold_left (fun c0 t0 => cl_ctx_upd c0 t0 (fun x0 => ctu_lckStuck x0 true)) ?h ?c] =>
        rewrite (cl_stuck_fold_eq _ c h);
        generalize (cc_ctxs (fold_left (fun c0 t0 => cl_ctx_upd c0 t0 (fun x0 => ctu_lckStuck x0 true)) h c)); intro
      end;
  unfold cl_resolve, cl_ctx_upd, cl_ctx_put, cl_note;
  cc_split_ifs; cc_cbn; first [reflexivity | congruence].

Section Proj.
Variable hstate : Type.
(* BEGIN GENERATED upd (tools/gen_clibase.sh) *)
Lemma cc_ctxs_ccu_ctxs (c : cconn hstate) v : cc_ctxs (ccu_ctxs c v) = v. Proof. reflexivity. Qed.
Lemma cc_nextID_ccu_ctxs (c : cconn hstate) v : cc_nextID (ccu_ctxs c v) = cc_nextID c. Proof. reflexivity. Qed.
Lemma cc_open_ccu_ctxs (c : cconn hstate) v : cc_open (ccu_ctxs c v) = cc_open c. Proof. reflexivity. Qed.
Lemma cc_maxStreams_ccu_ctxs (c : cconn hstate) v : cc_maxStreams (ccu_ctxs c v) = cc_maxStreams c. Proof. reflexivity. Qed.
Lemma cc_maxFrame_ccu_ctxs (c : cconn hstate) v : cc_maxFrame (ccu_ctxs c v) = cc_maxFrame c. Proof. reflexivity. Qed.
Lemma cc_goAway_ccu_ctxs (c : cconn hstate) v : cc_goAway (ccu_ctxs c v) = cc_goAway c. Proof. reflexivity. Qed.
Lemma cc_closed_ccu_ctxs (c : cconn hstate) v : cc_closed (ccu_ctxs c v) = cc_closed c. Proof. reflexivity. Qed.
Lemma cc_closing_ccu_ctxs (c : cconn hstate) v : cc_closing (ccu_ctxs c v) = cc_closing c. Proof. reflexivity. Qed.
Lemma cc_netClosed_ccu_ctxs (c : cconn hstate) v : cc_netClosed (ccu_ctxs c v) = cc_netClosed c. Proof. reflexivity. Qed.
Lemma cc_writeFail_ccu_ctxs (c : cconn hstate) v : cc_writeFail (ccu_ctxs c v) = cc_writeFail c. Proof. reflexivity. Qed.
Lemma cc_enc_ccu_ctxs (c : cconn hstate) v : cc_enc (ccu_ctxs c v) = cc_enc c. Proof. reflexivity. Qed.
Lemma cc_encTableSize_ccu_ctxs (c : cconn hstate) v : cc_encTableSize (ccu_ctxs c v) = cc_encTableSize c. Proof. reflexivity. Qed.
Lemma cc_encTableSeen_ccu_ctxs (c : cconn hstate) v : cc_encTableSeen (ccu_ctxs c v) = cc_encTableSeen c. Proof. reflexivity. Qed.
Lemma cc_dec_ccu_ctxs (c : cconn hstate) v : cc_dec (ccu_ctxs c v) = cc_dec c. Proof. reflexivity. Qed.
Lemma cc_currentWindow_ccu_ctxs (c : cconn hstate) v : cc_currentWindow (ccu_ctxs c v) = cc_currentWindow c. Proof. reflexivity. Qed.
Lemma cc_serverS_ccu_ctxs (c : cconn hstate) v : cc_serverS (ccu_ctxs c v) = cc_serverS c. Proof. reflexivity. Qed.
Lemma cc_hdrStream_ccu_ctxs (c : cconn hstate) v : cc_hdrStream (ccu_ctxs c v) = cc_hdrStream c. Proof. reflexivity. Qed.
Lemma cc_hdrPrev_ccu_ctxs (c : cconn hstate) v : cc_hdrPrev (ccu_ctxs c v) = cc_hdrPrev c. Proof. reflexivity. Qed.
Lemma cc_hdrFields_ccu_ctxs (c : cconn hstate) v : cc_hdrFields (ccu_ctxs c v) = cc_hdrFields c. Proof. reflexivity. Qed.
Lemma cc_hdrEndStream_ccu_ctxs (c : cconn hstate) v : cc_hdrEndStream (ccu_ctxs c v) = cc_hdrEndStream c. Proof. reflexivity. Qed.
Lemma cc_hdrRegularSeen_ccu_ctxs (c : cconn hstate) v : cc_hdrRegularSeen (ccu_ctxs c v) = cc_hdrRegularSeen c. Proof. reflexivity. Qed.
Lemma cc_hdrStatus_ccu_ctxs (c : cconn hstate) v : cc_hdrStatus (ccu_ctxs c v) = cc_hdrStatus c. Proof. reflexivity. Qed.
Lemma cc_hdrErr_ccu_ctxs (c : cconn hstate) v : cc_hdrErr (ccu_ctxs c v) = cc_hdrErr c. Proof. reflexivity. Qed.
Lemma cc_stateClosed_ccu_ctxs (c : cconn hstate) v : cc_stateClosed (ccu_ctxs c v) = cc_stateClosed c. Proof. reflexivity. Qed.
Lemma cc_closeRef_ccu_ctxs (c : cconn hstate) v : cc_closeRef (ccu_ctxs c v) = cc_closeRef c. Proof. reflexivity. Qed.
Lemma cc_reqQueued_ccu_ctxs (c : cconn hstate) v : cc_reqQueued (ccu_ctxs c v) = cc_reqQueued c. Proof. reflexivity. Qed.
Lemma cc_pending_ccu_ctxs (c : cconn hstate) v : cc_pending (ccu_ctxs c v) = cc_pending c. Proof. reflexivity. Qed.
Lemma cc_connWindow_ccu_ctxs (c : cconn hstate) v : cc_connWindow (ccu_ctxs c v) = cc_connWindow c. Proof. reflexivity. Qed.
Lemma cc_streamWindow_ccu_ctxs (c : cconn hstate) v : cc_streamWindow (ccu_ctxs c v) = cc_streamWindow c. Proof. reflexivity. Qed.
Lemma cc_inQ_ccu_ctxs (c : cconn hstate) v : cc_inQ (ccu_ctxs c v) = cc_inQ c. Proof. reflexivity. Qed.
Lemma cc_outQ_ccu_ctxs (c : cconn hstate) v : cc_outQ (ccu_ctxs c v) = cc_outQ c. Proof. reflexivity. Qed.
Lemma cc_winCh_ccu_ctxs (c : cconn hstate) v : cc_winCh (ccu_ctxs c v) = cc_winCh c. Proof. reflexivity. Qed.
Lemma cc_lastErr_ccu_ctxs (c : cconn hstate) v : cc_lastErr (ccu_ctxs c v) = cc_lastErr c. Proof. reflexivity. Qed.
Lemma cc_unacks_ccu_ctxs (c : cconn hstate) v : cc_unacks (ccu_ctxs c v) = cc_unacks c. Proof. reflexivity. Qed.
Lemma cc_rl_done_ccu_ctxs (c : cconn hstate) v : cc_rl_done (ccu_ctxs c v) = cc_rl_done c. Proof. reflexivity. Qed.
Lemma cc_wl_done_ccu_ctxs (c : cconn hstate) v : cc_wl_done (ccu_ctxs c v) = cc_wl_done c. Proof. reflexivity. Qed.
Lemma cc_rl_stuck_ccu_ctxs (c : cconn hstate) v : cc_rl_stuck (ccu_ctxs c v) = cc_rl_stuck c. Proof. reflexivity. Qed.
Lemma cc_wl_stuck_ccu_ctxs (c : cconn hstate) v : cc_wl_stuck (ccu_ctxs c v) = cc_wl_stuck c. Proof. reflexivity. Qed.
Lemma cc_out_ccu_ctxs (c : cconn hstate) v : cc_out (ccu_ctxs c v) = cc_out c. Proof. reflexivity. Qed.
Lemma cc_ctxs_ccu_nextID (c : cconn hstate) v : cc_ctxs (ccu_nextID c v) = cc_ctxs c. Proof. reflexivity. Qed.
Lemma cc_nextID_ccu_nextID (c : cconn hstate) v : cc_nextID (ccu_nextID c v) = v. Proof. reflexivity. Qed.
Lemma cc_open_ccu_nextID (c : cconn hstate) v : cc_open (ccu_nextID c v) = cc_open c. Proof. reflexivity. Qed.
Lemma cc_maxStreams_ccu_nextID (c : cconn hstate) v : cc_maxStreams (ccu_nextID c v) = cc_maxStreams c. Proof. reflexivity. Qed.
Lemma cc_maxFrame_ccu_nextID (c : cconn hstate) v : cc_maxFrame (ccu_nextID c v) = cc_maxFrame c. Proof. reflexivity. Qed.
Lemma cc_goAway_ccu_nextID (c : cconn hstate) v : cc_goAway (ccu_nextID c v) = cc_goAway c. Proof. reflexivity. Qed.
Lemma cc_closed_ccu_nextID (c : cconn hstate) v : cc_closed (ccu_nextID c v) = cc_closed c. Proof. reflexivity. Qed.
Lemma cc_closing_ccu_nextID (c : cconn hstate) v : cc_closing (ccu_nextID c v) = cc_closing c. Proof. reflexivity. Qed.
Lemma cc_netClosed_ccu_nextID (c : cconn hstate) v : cc_netClosed (ccu_nextID c v) = cc_netClosed c. Proof. reflexivity. Qed.
Lemma cc_writeFail_ccu_nextID (c : cconn hstate) v : cc_writeFail (ccu_nextID c v) = cc_writeFail c. Proof. reflexivity. Qed.
Lemma cc_enc_ccu_nextID (c : cconn hstate) v : cc_enc (ccu_nextID c v) = cc_enc c. Proof. reflexivity. Qed.
Lemma cc_encTableSize_ccu_nextID (c : cconn hstate) v : cc_encTableSize (ccu_nextID c v) = cc_encTableSize c. Proof. reflexivity. Qed.
Lemma cc_encTableSeen_ccu_nextID (c : cconn hstate) v : cc_encTableSeen (ccu_nextID c v) = cc_encTableSeen c. Proof. reflexivity. Qed.
Lemma cc_dec_ccu_nextID (c : cconn hstate) v : cc_dec (ccu_nextID c v) = cc_dec c. Proof. reflexivity. Qed.
Lemma cc_currentWindow_ccu_nextID (c : cconn hstate) v : cc_currentWindow (ccu_nextID c v) = cc_currentWindow c. Proof. reflexivity. Qed.
Lemma cc_serverS_ccu_nextID (c : cconn hstate) v : cc_serverS (ccu_nextID c v) = cc_serverS c. Proof. reflexivity. Qed.
Lemma cc_hdrStream_ccu_nextID (c : cconn hstate) v : cc_hdrStream (ccu_nextID c v) = cc_hdrStream c. Proof. reflexivity. Qed.
Lemma cc_hdrPrev_ccu_nextID (c : cconn hstate) v : cc_hdrPrev (ccu_nextID c v) = cc_hdrPrev c. Proof. reflexivity. Qed.
Lemma cc_hdrFields_ccu_nextID (c : cconn hstate) v : cc_hdrFields (ccu_nextID c v) = cc_hdrFields c. Proof. reflexivity. Qed.
Lemma cc_hdrEndStream_ccu_nextID (c : cconn hstate) v : cc_hdrEndStream (ccu_nextID c v) = cc_hdrEndStream c. Proof. reflexivity. Qed.
Lemma cc_hdrRegularSeen_ccu_nextID (c : cconn hstate) v : cc_hdrRegularSeen (ccu_nextID c v) = cc_hdrRegularSeen c. Proof. reflexivity. Qed.
Lemma cc_hdrStatus_ccu_nextID (c : cconn hstate) v : cc_hdrStatus (ccu_nextID c v) = cc_hdrStatus c. Proof. reflexivity. Qed.
Lemma cc_hdrErr_ccu_nextID (c : cconn hstate) v : cc_hdrErr (ccu_nextID c v) = cc_hdrErr c. Proof. reflexivity. Qed.
Lemma cc_stateClosed_ccu_nextID (c : cconn hstate) v : cc_stateClosed (ccu_nextID c v) = cc_stateClosed c. Proof. reflexivity. Qed.
Lemma cc_closeRef_ccu_nextID (c : cconn hstate) v : cc_closeRef (ccu_nextID c v) = cc_closeRef c. Proof. reflexivity. Qed.
Lemma cc_reqQueued_ccu_nextID (c : cconn hstate) v : cc_reqQueued (ccu_nextID c v) = cc_reqQueued c. Proof. reflexivity. Qed.
Lemma cc_pending_ccu_nextID (c : cconn hstate) v : cc_pending (ccu_nextID c v) = cc_pending c. Proof. reflexivity. Qed.
Lemma cc_connWindow_ccu_nextID (c : cconn hstate) v : cc_connWindow (ccu_nextID c v) = cc_connWindow c. Proof. reflexivity. Qed.
Lemma cc_streamWindow_ccu_nextID (c : cconn hstate) v : cc_streamWindow (ccu_nextID c v) = cc_streamWindow c. Proof. reflexivity. Qed.
Lemma cc_inQ_ccu_nextID (c : cconn hstate) v : cc_inQ (ccu_nextID c v) = cc_inQ c. Proof. reflexivity. Qed.
Lemma cc_outQ_ccu_nextID (c : cconn hstate) v : cc_outQ (ccu_nextID c v) = cc_outQ c. Proof. reflexivity. Qed.
Lemma cc_winCh_ccu_nextID (c : cconn hstate) v : cc_winCh (ccu_nextID c v) = cc_winCh c. Proof. reflexivity. Qed.
Lemma cc_lastErr_ccu_nextID (c : cconn hstate) v : cc_lastErr (ccu_nextID c v) = cc_lastErr c. Proof. reflexivity. Qed.
Lemma cc_unacks_ccu_nextID (c : cconn hstate) v : cc_unacks (ccu_nextID c v) = cc_unacks c. Proof. reflexivity. Qed.
Lemma cc_rl_done_ccu_nextID (c : cconn hstate) v : cc_rl_done (ccu_nextID c v) = cc_rl_done c. Proof. reflexivity. Qed.
Lemma cc_wl_done_ccu_nextID (c : cconn hstate) v : cc_wl_done (ccu_nextID c v) = cc_wl_done c. Proof. reflexivity. Qed.
Lemma cc_rl_stuck_ccu_nextID (c : cconn hstate) v : cc_rl_stuck (ccu_nextID c v) = cc_rl_stuck c. Proof. reflexivity. Qed.
Lemma cc_wl_stuck_ccu_nextID (c : cconn hstate) v : cc_wl_stuck (ccu_nextID c v) = cc_wl_stuck c. Proof. reflexivity. Qed.
Lemma cc_out_ccu_nextID (c : cconn hstate) v : cc_out (ccu_nextID c v) = cc_out c. Proof. reflexivity. Qed.
Lemma cc_ctxs_ccu_open (c : cconn hstate) v : cc_ctxs (ccu_open c v) = cc_ctxs c. Proof. reflexivity. Qed.
Lemma cc_nextID_ccu_open (c : cconn hstate) v : cc_nextID (ccu_open c v) = cc_nextID c. Proof. reflexivity. Qed.
Lemma cc_open_ccu_open (c : cconn hstate) v : cc_open (ccu_open c v) = v. Proof. reflexivity. Qed.
Lemma cc_maxStreams_ccu_open (c : cconn hstate) v : cc_maxStreams (ccu_open c v) = cc_maxStreams c. Proof. reflexivity. Qed.
Lemma cc_maxFrame_ccu_open (c : cconn hstate) v : cc_maxFrame (ccu_open c v) = cc_maxFrame c. Proof. reflexivity. Qed.
Lemma cc_goAway_ccu_open (c : cconn hstate) v : cc_goAway (ccu_open c v) = cc_goAway c. Proof. reflexivity. Qed.
Lemma cc_closed_ccu_open (c : cconn hstate) v : cc_closed (ccu_open c v) = cc_closed c. Proof. reflexivity. Qed.
Lemma cc_closing_ccu_open (c : cconn hstate) v : cc_closing (ccu_open c v) = cc_closing c. Proof. reflexivity. Qed.
Lemma cc_netClosed_ccu_open (c : cconn hstate) v : cc_netClosed (ccu_open c v) = cc_netClosed c. Proof. reflexivity. Qed.
Lemma cc_writeFail_ccu_open (c : cconn hstate) v : cc_writeFail (ccu_open c v) = cc_writeFail c. Proof. reflexivity. Qed.
Lemma cc_enc_ccu_open (c : cconn hstate) v : cc_enc (ccu_open c v) = cc_enc c. Proof. reflexivity. Qed.
Lemma cc_encTableSize_ccu_open (c : cconn hstate) v : cc_encTableSize (ccu_open c v) = cc_encTableSize c. Proof. reflexivity. Qed.
Lemma cc_encTableSeen_ccu_open (c : cconn hstate) v : cc_encTableSeen (ccu_open c v) = cc_encTableSeen c. Proof. reflexivity. Qed.
Lemma cc_dec_ccu_open (c : cconn hstate) v : cc_dec (ccu_open c v) = cc_dec c. Proof. reflexivity. Qed.
Lemma cc_currentWindow_ccu_open (c : cconn hstate) v : cc_currentWindow (ccu_open c v) = cc_currentWindow c. Proof. reflexivity. Qed.
Lemma cc_serverS_ccu_open (c : cconn hstate) v : cc_serverS (ccu_open c v) = cc_serverS c. Proof. reflexivity. Qed.
Lemma cc_hdrStream_ccu_open (c : cconn hstate) v : cc_hdrStream (ccu_open c v) = cc_hdrStream c. Proof. reflexivity. Qed.
Lemma cc_hdrPrev_ccu_open (c : cconn hstate) v : cc_hdrPrev (ccu_open c v) = cc_hdrPrev c. Proof. reflexivity. Qed.
Lemma cc_hdrFields_ccu_open (c : cconn hstate) v : cc_hdrFields (ccu_open c v) = cc_hdrFields c. Proof. reflexivity. Qed.
Lemma cc_hdrEndStream_ccu_open (c : cconn hstate) v : cc_hdrEndStream (ccu_open c v) = cc_hdrEndStream c. Proof. reflexivity. Qed.
Lemma cc_hdrRegularSeen_ccu_open (c : cconn hstate) v : cc_hdrRegularSeen (ccu_open c v) = cc_hdrRegularSeen c. Proof. reflexivity. Qed.
Lemma cc_hdrStatus_ccu_open (c : cconn hstate) v : cc_hdrStatus (ccu_open c v) = cc_hdrStatus c. Proof. reflexivity. Qed.
Lemma cc_hdrErr_ccu_open (c : cconn hstate) v : cc_hdrErr (ccu_open c v) = cc_hdrErr c. Proof. reflexivity. Qed.
Lemma cc_stateClosed_ccu_open (c : cconn hstate) v : cc_stateClosed (ccu_open c v) = cc_stateClosed c. Proof. reflexivity. Qed.
Lemma cc_closeRef_ccu_open (c : cconn hstate) v : cc_closeRef (ccu_open c v) = cc_closeRef c. Proof. reflexivity. Qed.
Lemma cc_reqQueued_ccu_open (c : cconn hstate) v : cc_reqQueued (ccu_open c v) = cc_reqQueued c. Proof. reflexivity. Qed.
Lemma cc_pending_ccu_open (c : cconn hstate) v : cc_pending (ccu_open c v) = cc_pending c. Proof. reflexivity. Qed.
Lemma cc_connWindow_ccu_open (c : cconn hstate) v : cc_connWindow (ccu_open c v) = cc_connWindow c. Proof. reflexivity. Qed.
Lemma cc_streamWindow_ccu_open (c : cconn hstate) v : cc_streamWindow (ccu_open c v) = cc_streamWindow c. Proof. reflexivity. Qed.
Lemma cc_inQ_ccu_open (c : cconn hstate) v : cc_inQ (ccu_open c v) = cc_inQ c. Proof. reflexivity. Qed.
Lemma cc_outQ_ccu_open (c : cconn hstate) v : cc_outQ (ccu_open c v) = cc_outQ c. Proof. reflexivity. Qed.
Lemma cc_winCh_ccu_open (c : cconn hstate) v : cc_winCh (ccu_open c v) = cc_winCh c. Proof. reflexivity. Qed.
Lemma cc_lastErr_ccu_open (c : cconn hstate) v : cc_lastErr (ccu_open c v) = cc_lastErr c. Proof. reflexivity. Qed.
Lemma cc_unacks_ccu_open (c : cconn hstate) v : cc_unacks (ccu_open c v) = cc_unacks c. Proof. reflexivity. Qed.
Lemma cc_rl_done_ccu_open (c : cconn hstate) v : cc_rl_done (ccu_open c v) = cc_rl_done c. Proof. reflexivity. Qed.
Lemma cc_wl_done_ccu_open (c : cconn hstate) v : cc_wl_done (ccu_open c v) = cc_wl_done c. Proof. reflexivity. Qed.
Lemma cc_rl_stuck_ccu_open (c : cconn hstate) v : cc_rl_stuck (ccu_open c v) = cc_rl_stuck c. Proof. reflexivity. Qed.
Lemma cc_wl_stuck_ccu_open (c : cconn hstate) v : cc_wl_stuck (ccu_open c v) = cc_wl_stuck c. Proof. reflexivity. Qed.
Lemma cc_out_ccu_open (c : cconn hstate) v : cc_out (ccu_open c v) = cc_out c. Proof. reflexivity. Qed.
Lemma cc_ctxs_ccu_maxStreams (c : cconn hstate) v : cc_ctxs (ccu_maxStreams c v) = cc_ctxs c. Proof. reflexivity. Qed.
Lemma cc_nextID_ccu_maxStreams (c : cconn hstate) v : cc_nextID (ccu_maxStreams c v) = cc_nextID c. Proof. reflexivity. Qed.
Lemma cc_open_ccu_maxStreams (c : cconn hstate) v : cc_open (ccu_maxStreams c v) = cc_open c. Proof. reflexivity. Qed.
Lemma cc_maxStreams_ccu_maxStreams (c : cconn hstate) v : cc_maxStreams (ccu_maxStreams c v) = v. Proof. reflexivity. Qed.
Lemma cc_maxFrame_ccu_maxStreams (c : cconn hstate) v : cc_maxFrame (ccu_maxStreams c v) = cc_maxFrame c. Proof. reflexivity. Qed.
Lemma cc_goAway_ccu_maxStreams (c : cconn hstate) v : cc_goAway (ccu_maxStreams c v) = cc_goAway c. Proof. reflexivity. Qed.
Lemma cc_closed_ccu_maxStreams (c : cconn hstate) v : cc_closed (ccu_maxStreams c v) = cc_closed c. Proof. reflexivity. Qed.
Lemma cc_closing_ccu_maxStreams (c : cconn hstate) v : cc_closing (ccu_maxStreams c v) = cc_closing c. Proof. reflexivity. Qed.
Lemma cc_netClosed_ccu_maxStreams (c : cconn hstate) v : cc_netClosed (ccu_maxStreams c v) = cc_netClosed c. Proof. reflexivity. Qed.
Lemma cc_writeFail_ccu_maxStreams (c : cconn hstate) v : cc_writeFail (ccu_maxStreams c v) = cc_writeFail c. Proof. reflexivity. Qed.
Lemma cc_enc_ccu_maxStreams (c : cconn hstate) v : cc_enc (ccu_maxStreams c v) = cc_enc c. Proof. reflexivity. Qed.
Lemma cc_encTableSize_ccu_maxStreams (c : cconn hstate) v : cc_encTableSize (ccu_maxStreams c v) = cc_encTableSize c. Proof. reflexivity. Qed.
Lemma cc_encTableSeen_ccu_maxStreams (c : cconn hstate) v : cc_encTableSeen (ccu_maxStreams c v) = cc_encTableSeen c. Proof. reflexivity. Qed.
Lemma cc_dec_ccu_maxStreams (c : cconn hstate) v : cc_dec (ccu_maxStreams c v) = cc_dec c. Proof. reflexivity. Qed.
Lemma cc_currentWindow_ccu_maxStreams (c : cconn hstate) v : cc_currentWindow (ccu_maxStreams c v) = cc_currentWindow c. Proof. reflexivity. Qed.
Lemma cc_serverS_ccu_maxStreams (c : cconn hstate) v : cc_serverS (ccu_maxStreams c v) = cc_serverS c. Proof. reflexivity. Qed.
Lemma cc_hdrStream_ccu_maxStreams (c : cconn hstate) v : cc_hdrStream (ccu_maxStreams c v) = cc_hdrStream c. Proof. reflexivity. Qed.
Lemma cc_hdrPrev_ccu_maxStreams (c : cconn hstate) v : cc_hdrPrev (ccu_maxStreams c v) = cc_hdrPrev c. Proof. reflexivity. Qed.
Lemma cc_hdrFields_ccu_maxStreams (c : cconn hstate) v : cc_hdrFields (ccu_maxStreams c v) = cc_hdrFields c. Proof. reflexivity. Qed.
Lemma cc_hdrEndStream_ccu_maxStreams (c : cconn hstate) v : cc_hdrEndStream (ccu_maxStreams c v) = cc_hdrEndStream c. Proof. reflexivity. Qed.
Lemma cc_hdrRegularSeen_ccu_maxStreams (c : cconn hstate) v : cc_hdrRegularSeen (ccu_maxStreams c v) = cc_hdrRegularSeen c. Proof. reflexivity. Qed.
Lemma cc_hdrStatus_ccu_maxStreams (c : cconn hstate) v : cc_hdrStatus (ccu_maxStreams c v) = cc_hdrStatus c. Proof. reflexivity. Qed.
Lemma cc_hdrErr_ccu_maxStreams (c : cconn hstate) v : cc_hdrErr (ccu_maxStreams c v) = cc_hdrErr c. Proof. reflexivity. Qed.
Lemma cc_stateClosed_ccu_maxStreams (c : cconn hstate) v : cc_stateClosed (ccu_maxStreams c v) = cc_stateClosed c. Proof. reflexivity. Qed.
Lemma cc_closeRef_ccu_maxStreams (c : cconn hstate) v : cc_closeRef (ccu_maxStreams c v) = cc_closeRef c. Proof. reflexivity. Qed.
Lemma cc_reqQueued_ccu_maxStreams (c : cconn hstate) v : cc_reqQueued (ccu_maxStreams c v) = cc_reqQueued c. Proof. reflexivity. Qed.
Lemma cc_pending_ccu_maxStreams (c : cconn hstate) v : cc_pending (ccu_maxStreams c v) = cc_pending c. Proof. reflexivity. Qed.
Lemma cc_connWindow_ccu_maxStreams (c : cconn hstate) v : cc_connWindow (ccu_maxStreams c v) = cc_connWindow c. Proof. reflexivity. Qed.
Lemma cc_streamWindow_ccu_maxStreams (c : cconn hstate) v : cc_streamWindow (ccu_maxStreams c v) = cc_streamWindow c. Proof. reflexivity. Qed.
Lemma cc_inQ_ccu_maxStreams (c : cconn hstate) v : cc_inQ (ccu_maxStreams c v) = cc_inQ c. Proof. reflexivity. Qed.
Lemma cc_outQ_ccu_maxStreams (c : cconn hstate) v : cc_outQ (ccu_maxStreams c v) = cc_outQ c. Proof. reflexivity. Qed.
Lemma cc_winCh_ccu_maxStreams (c : cconn hstate) v : cc_winCh (ccu_maxStreams c v) = cc_winCh c. Proof. reflexivity. Qed.
Lemma cc_lastErr_ccu_maxStreams (c : cconn hstate) v : cc_lastErr (ccu_maxStreams c v) = cc_lastErr c. Proof. reflexivity. Qed.
Lemma cc_unacks_ccu_maxStreams (c : cconn hstate) v : cc_unacks (ccu_maxStreams c v) = cc_unacks c. Proof. reflexivity. Qed.
Lemma cc_rl_done_ccu_maxStreams (c : cconn hstate) v : cc_rl_done (ccu_maxStreams c v) = cc_rl_done c. Proof. reflexivity. Qed.
Lemma cc_wl_done_ccu_maxStreams (c : cconn hstate) v : cc_wl_done (ccu_maxStreams c v) = cc_wl_done c. Proof. reflexivity. Qed.
Lemma cc_rl_stuck_ccu_maxStreams (c : cconn hstate) v : cc_rl_stuck (ccu_maxStreams c v) = cc_rl_stuck c. Proof. reflexivity. Qed.
Lemma cc_wl_stuck_ccu_maxStreams (c : cconn hstate) v : cc_wl_stuck (ccu_maxStreams c v) = cc_wl_stuck c. Proof. reflexivity. Qed.
Lemma cc_out_ccu_maxStreams (c : cconn hstate) v : cc_out (ccu_maxStreams c v) = cc_out c. Proof. reflexivity. Qed.
Lemma cc_ctxs_ccu_maxFrame (c : cconn hstate) v : cc_ctxs (ccu_maxFrame c v) = cc_ctxs c. Proof. reflexivity. Qed.
Lemma cc_nextID_ccu_maxFrame (c : cconn hstate) v : cc_nextID (ccu_maxFrame c v) = cc_nextID c. Proof. reflexivity. Qed.
Lemma cc_open_ccu_maxFrame (c : cconn hstate) v : cc_open (ccu_maxFrame c v) = cc_open c. Proof. reflexivity. Qed.
Lemma cc_maxStreams_ccu_maxFrame (c : cconn hstate) v : cc_maxStreams (ccu_maxFrame c v) = cc_maxStreams c. Proof. reflexivity. Qed.
Lemma cc_maxFrame_ccu_maxFrame (c : cconn hstate) v : cc_maxFrame (ccu_maxFrame c v) = v. Proof. reflexivity. Qed.
Lemma cc_goAway_ccu_maxFrame (c : cconn hstate) v : cc_goAway (ccu_maxFrame c v) = cc_goAway c. Proof. reflexivity. Qed.
Lemma cc_closed_ccu_maxFrame (c : cconn hstate) v : cc_closed (ccu_maxFrame c v) = cc_closed c. Proof. reflexivity. Qed.
Lemma cc_closing_ccu_maxFrame (c : cconn hstate) v : cc_closing (ccu_maxFrame c v) = cc_closing c. Proof. reflexivity. Qed.
Lemma cc_netClosed_ccu_maxFrame (c : cconn hstate) v : cc_netClosed (ccu_maxFrame c v) = cc_netClosed c. Proof. reflexivity. Qed.
Lemma cc_writeFail_ccu_maxFrame (c : cconn hstate) v : cc_writeFail (ccu_maxFrame c v) = cc_writeFail c. Proof. reflexivity. Qed.
Lemma cc_enc_ccu_maxFrame (c : cconn hstate) v : cc_enc (ccu_maxFrame c v) = cc_enc c. Proof. reflexivity. Qed.
Lemma cc_encTableSize_ccu_maxFrame (c : cconn hstate) v : cc_encTableSize (ccu_maxFrame c v) = cc_encTableSize c. Proof. reflexivity. Qed.
Lemma cc_encTableSeen_ccu_maxFrame (c : cconn hstate) v : cc_encTableSeen (ccu_maxFrame c v) = cc_encTableSeen c. Proof. reflexivity. Qed.
Lemma cc_dec_ccu_maxFrame (c : cconn hstate) v : cc_dec (ccu_maxFrame c v) = cc_dec c. Proof. reflexivity. Qed.
Lemma cc_currentWindow_ccu_maxFrame (c : cconn hstate) v : cc_currentWindow (ccu_maxFrame c v) = cc_currentWindow c. Proof. reflexivity. Qed.
Lemma cc_serverS_ccu_maxFrame (c : cconn hstate) v : cc_serverS (ccu_maxFrame c v) = cc_serverS c. Proof. reflexivity. Qed.
Lemma cc_hdrStream_ccu_maxFrame (c : cconn hstate) v : cc_hdrStream (ccu_maxFrame c v) = cc_hdrStream c. Proof. reflexivity. Qed.
Lemma cc_hdrPrev_ccu_maxFrame (c : cconn hstate) v : cc_hdrPrev (ccu_maxFrame c v) = cc_hdrPrev c. Proof. reflexivity. Qed.
Lemma cc_hdrFields_ccu_maxFrame (c : cconn hstate) v : cc_hdrFields (ccu_maxFrame c v) = cc_hdrFields c. Proof. reflexivity. Qed.
Lemma cc_hdrEndStream_ccu_maxFrame (c : cconn hstate) v : cc_hdrEndStream (ccu_maxFrame c v) = cc_hdrEndStream c. Proof. reflexivity. Qed.
Lemma cc_hdrRegularSeen_ccu_maxFrame (c : cconn hstate) v : cc_hdrRegularSeen (ccu_maxFrame c v) = cc_hdrRegularSeen c. Proof. reflexivity. Qed.
Lemma cc_hdrStatus_ccu_maxFrame (c : cconn hstate) v : cc_hdrStatus (ccu_maxFrame c v) = cc_hdrStatus c. Proof. reflexivity. Qed.
Lemma cc_hdrErr_ccu_maxFrame (c : cconn hstate) v : cc_hdrErr (ccu_maxFrame c v) = cc_hdrErr c. Proof. reflexivity. Qed.
Lemma cc_stateClosed_ccu_maxFrame (c : cconn hstate) v : cc_stateClosed (ccu_maxFrame c v) = cc_stateClosed c. Proof. reflexivity. Qed.
Lemma cc_closeRef_ccu_maxFrame (c : cconn hstate) v : cc_closeRef (ccu_maxFrame c v) = cc_closeRef c. Proof. reflexivity. Qed.
Lemma cc_reqQueued_ccu_maxFrame (c : cconn hstate) v : cc_reqQueued (ccu_maxFrame c v) = cc_reqQueued c. Proof. reflexivity. Qed.
Lemma cc_pending_ccu_maxFrame (c : cconn hstate) v : cc_pending (ccu_maxFrame c v) = cc_pending c. Proof. reflexivity. Qed.
Lemma cc_connWindow_ccu_maxFrame (c : cconn hstate) v : cc_connWindow (ccu_maxFrame c v) = cc_connWindow c. Proof. reflexivity. Qed.
Lemma cc_streamWindow_ccu_maxFrame (c : cconn hstate) v : cc_streamWindow (ccu_maxFrame c v) = cc_streamWindow c. Proof. reflexivity. Qed.
Lemma cc_inQ_ccu_maxFrame (c : cconn hstate) v : cc_inQ (ccu_maxFrame c v) = cc_inQ c. Proof. reflexivity. Qed.
Lemma cc_outQ_ccu_maxFrame (c : cconn hstate) v : cc_outQ (ccu_maxFrame c v) = cc_outQ c. Proof. reflexivity. Qed.
Lemma cc_winCh_ccu_maxFrame (c : cconn hstate) v : cc_winCh (ccu_maxFrame c v) = cc_winCh c. Proof. reflexivity. Qed.
Lemma cc_lastErr_ccu_maxFrame (c : cconn hstate) v : cc_lastErr (ccu_maxFrame c v) = cc_lastErr c. Proof. reflexivity. Qed.
Lemma cc_unacks_ccu_maxFrame (c : cconn hstate) v : cc_unacks (ccu_maxFrame c v) = cc_unacks c. Proof. reflexivity. Qed.
Lemma cc_rl_done_ccu_maxFrame (c : cconn hstate) v : cc_rl_done (ccu_maxFrame c v) = cc_rl_done c. Proof. reflexivity. Qed.
Lemma cc_wl_done_ccu_maxFrame (c : cconn hstate) v : cc_wl_done (ccu_maxFrame c v) = cc_wl_done c. Proof. reflexivity. Qed.
Lemma cc_rl_stuck_ccu_maxFrame (c : cconn hstate) v : cc_rl_stuck (ccu_maxFrame c v) = cc_rl_stuck c. Proof. reflexivity. Qed.
Lemma cc_wl_stuck_ccu_maxFrame (c : cconn hstate) v : cc_wl_stuck (ccu_maxFrame c v) = cc_wl_stuck c. Proof. reflexivity. Qed.
Lemma cc_out_ccu_maxFrame (c : cconn hstate) v : cc_out (ccu_maxFrame c v) = cc_out c. Proof. reflexivity. Qed.
Lemma cc_ctxs_ccu_goAway (c : cconn hstate) v : cc_ctxs (ccu_goAway c v) = cc_ctxs c. Proof. reflexivity. Qed.
Lemma cc_nextID_ccu_goAway (c : cconn hstate) v : cc_nextID (ccu_goAway c v) = cc_nextID c. Proof. reflexivity. Qed.
Lemma cc_open_ccu_goAway (c : cconn hstate) v : cc_open (ccu_goAway c v) = cc_open c. Proof. reflexivity. Qed.
Lemma cc_maxStreams_ccu_goAway (c : cconn hstate) v : cc_maxStreams (ccu_goAway c v) = cc_maxStreams c. Proof. reflexivity. Qed.
Lemma cc_maxFrame_ccu_goAway (c : cconn hstate) v : cc_maxFrame (ccu_goAway c v) = cc_maxFrame c. Proof. reflexivity. Qed.
Lemma cc_goAway_ccu_goAway (c : cconn hstate) v : cc_goAway (ccu_goAway c v) = v. Proof. reflexivity. Qed.
Lemma cc_closed_ccu_goAway (c : cconn hstate) v : cc_closed (ccu_goAway c v) = cc_closed c. Proof. reflexivity. Qed.
Lemma cc_closing_ccu_goAway (c : cconn hstate) v : cc_closing (ccu_goAway c v) = cc_closing c. Proof. reflexivity. Qed.
Lemma cc_netClosed_ccu_goAway (c : cconn hstate) v : cc_netClosed (ccu_goAway c v) = cc_netClosed c. Proof. reflexivity. Qed.
Lemma cc_writeFail_ccu_goAway (c : cconn hstate) v : cc_writeFail (ccu_goAway c v) = cc_writeFail c. Proof. reflexivity. Qed.
Lemma cc_enc_ccu_goAway (c : cconn hstate) v : cc_enc (ccu_goAway c v) = cc_enc c. Proof. reflexivity. Qed.
Lemma cc_encTableSize_ccu_goAway (c : cconn hstate) v : cc_encTableSize (ccu_goAway c v) = cc_encTableSize c. Proof. reflexivity. Qed.
Lemma cc_encTableSeen_ccu_goAway (c : cconn hstate) v : cc_encTableSeen (ccu_goAway c v) = cc_encTableSeen c. Proof. reflexivity. Qed.
Lemma cc_dec_ccu_goAway (c : cconn hstate) v : cc_dec (ccu_goAway c v) = cc_dec c. Proof. reflexivity. Qed.
Lemma cc_currentWindow_ccu_goAway (c : cconn hstate) v : cc_currentWindow (ccu_goAway c v) = cc_currentWindow c. Proof. reflexivity. Qed.
Lemma cc_serverS_ccu_goAway (c : cconn hstate) v : cc_serverS (ccu_goAway c v) = cc_serverS c. Proof. reflexivity. Qed.
Lemma cc_hdrStream_ccu_goAway (c : cconn hstate) v : cc_hdrStream (ccu_goAway c v) = cc_hdrStream c. Proof. reflexivity. Qed.
Lemma cc_hdrPrev_ccu_goAway (c : cconn hstate) v : cc_hdrPrev (ccu_goAway c v) = cc_hdrPrev c. Proof. reflexivity. Qed.
Lemma cc_hdrFields_ccu_goAway (c : cconn hstate) v : cc_hdrFields (ccu_goAway c v) = cc_hdrFields c. Proof. reflexivity. Qed.
Lemma cc_hdrEndStream_ccu_goAway (c : cconn hstate) v : cc_hdrEndStream (ccu_goAway c v) = cc_hdrEndStream c. Proof. reflexivity. Qed.
Lemma cc_hdrRegularSeen_ccu_goAway (c : cconn hstate) v : cc_hdrRegularSeen (ccu_goAway c v) = cc_hdrRegularSeen c. Proof. reflexivity. Qed.
Lemma cc_hdrStatus_ccu_goAway (c : cconn hstate) v : cc_hdrStatus (ccu_goAway c v) = cc_hdrStatus c. Proof. reflexivity. Qed.
Lemma cc_hdrErr_ccu_goAway (c : cconn hstate) v : cc_hdrErr (ccu_goAway c v) = cc_hdrErr c. Proof. reflexivity. Qed.
Lemma cc_stateClosed_ccu_goAway (c : cconn hstate) v : cc_stateClosed (ccu_goAway c v) = cc_stateClosed c. Proof. reflexivity. Qed.
Lemma cc_closeRef_ccu_goAway (c : cconn hstate) v : cc_closeRef (ccu_goAway c v) = cc_closeRef c. Proof. reflexivity. Qed.
Lemma cc_reqQueued_ccu_goAway (c : cconn hstate) v : cc_reqQueued (ccu_goAway c v) = cc_reqQueued c. Proof. reflexivity. Qed.
Lemma cc_pending_ccu_goAway (c : cconn hstate) v : cc_pending (ccu_goAway c v) = cc_pending c. Proof. reflexivity. Qed.
Lemma cc_connWindow_ccu_goAway (c : cconn hstate) v : cc_connWindow (ccu_goAway c v) = cc_connWindow c. Proof. reflexivity. Qed.
Lemma cc_streamWindow_ccu_goAway (c : cconn hstate) v : cc_streamWindow (ccu_goAway c v) = cc_streamWindow c. Proof. reflexivity. Qed.
Lemma cc_inQ_ccu_goAway (c : cconn hstate) v : cc_inQ (ccu_goAway c v) = cc_inQ c. Proof. reflexivity. Qed.
Lemma cc_outQ_ccu_goAway (c : cconn hstate) v : cc_outQ (ccu_goAway c v) = cc_outQ c. Proof. reflexivity. Qed.
Lemma cc_winCh_ccu_goAway (c : cconn hstate) v : cc_winCh (ccu_goAway c v) = cc_winCh c. Proof. reflexivity. Qed.
Lemma cc_lastErr_ccu_goAway (c : cconn hstate) v : cc_lastErr (ccu_goAway c v) = cc_lastErr c. Proof. reflexivity. Qed.
Lemma cc_unacks_ccu_goAway (c : cconn hstate) v : cc_unacks (ccu_goAway c v) = cc_unacks c. Proof. reflexivity. Qed.
Lemma cc_rl_done_ccu_goAway (c : cconn hstate) v : cc_rl_done (ccu_goAway c v) = cc_rl_done c. Proof. reflexivity. Qed.
Lemma cc_wl_done_ccu_goAway (c : cconn hstate) v : cc_wl_done (ccu_goAway c v) = cc_wl_done c. Proof. reflexivity. Qed.
Lemma cc_rl_stuck_ccu_goAway (c : cconn hstate) v : cc_rl_stuck (ccu_goAway c v) = cc_rl_stuck c. Proof. reflexivity. Qed.
Lemma cc_wl_stuck_ccu_goAway (c : cconn hstate) v : cc_wl_stuck (ccu_goAway c v) = cc_wl_stuck c. Proof. reflexivity. Qed.
Lemma cc_out_ccu_goAway (c : cconn hstate) v : cc_out (ccu_goAway c v) = cc_out c. Proof. reflexivity. Qed.
Lemma cc_ctxs_ccu_closed (c : cconn hstate) v : cc_ctxs (ccu_closed c v) = cc_ctxs c. Proof. reflexivity. Qed.
Lemma cc_nextID_ccu_closed (c : cconn hstate) v : cc_nextID (ccu_closed c v) = cc_nextID c. Proof. reflexivity. Qed.
Lemma cc_open_ccu_closed (c : cconn hstate) v : cc_open (ccu_closed c v) = cc_open c. Proof. reflexivity. Qed.
Lemma cc_maxStreams_ccu_closed (c : cconn hstate) v : cc_maxStreams (ccu_closed c v) = cc_maxStreams c. Proof. reflexivity. Qed.
Lemma cc_maxFrame_ccu_closed (c : cconn hstate) v : cc_maxFrame (ccu_closed c v) = cc_maxFrame c. Proof. reflexivity. Qed.
Lemma cc_goAway_ccu_closed (c : cconn hstate) v : cc_goAway (ccu_closed c v) = cc_goAway c. Proof. reflexivity. Qed.
Lemma cc_closed_ccu_closed (c : cconn hstate) v : cc_closed (ccu_closed c v) = v. Proof. reflexivity. Qed.
Lemma cc_closing_ccu_closed (c : cconn hstate) v : cc_closing (ccu_closed c v) = cc_closing c. Proof. reflexivity. Qed.
Lemma cc_netClosed_ccu_closed (c : cconn hstate) v : cc_netClosed (ccu_closed c v) = cc_netClosed c. Proof. reflexivity. Qed.
Lemma cc_writeFail_ccu_closed (c : cconn hstate) v : cc_writeFail (ccu_closed c v) = cc_writeFail c. Proof. reflexivity. Qed.
Lemma cc_enc_ccu_closed (c : cconn hstate) v : cc_enc (ccu_closed c v) = cc_enc c. Proof. reflexivity. Qed.
Lemma cc_encTableSize_ccu_closed (c : cconn hstate) v : cc_encTableSize (ccu_closed c v) = cc_encTableSize c. Proof. reflexivity. Qed.
Lemma cc_encTableSeen_ccu_closed (c : cconn hstate) v : cc_encTableSeen (ccu_closed c v) = cc_encTableSeen c. Proof. reflexivity. Qed.
Lemma cc_dec_ccu_closed (c : cconn hstate) v : cc_dec (ccu_closed c v) = cc_dec c. Proof. reflexivity. Qed.
Lemma cc_currentWindow_ccu_closed (c : cconn hstate) v : cc_currentWindow (ccu_closed c v) = cc_currentWindow c. Proof. reflexivity. Qed.
Lemma cc_serverS_ccu_closed (c : cconn hstate) v : cc_serverS (ccu_closed c v) = cc_serverS c. Proof. reflexivity. Qed.
Lemma cc_hdrStream_ccu_closed (c : cconn hstate) v : cc_hdrStream (ccu_closed c v) = cc_hdrStream c. Proof. reflexivity. Qed.
Lemma cc_hdrPrev_ccu_closed (c : cconn hstate) v : cc_hdrPrev (ccu_closed c v) = cc_hdrPrev c. Proof. reflexivity. Qed.
Lemma cc_hdrFields_ccu_closed (c : cconn hstate) v : cc_hdrFields (ccu_closed c v) = cc_hdrFields c. Proof. reflexivity. Qed.
Lemma cc_hdrEndStream_ccu_closed (c : cconn hstate) v : cc_hdrEndStream (ccu_closed c v) = cc_hdrEndStream c. Proof. reflexivity. Qed.
Lemma cc_hdrRegularSeen_ccu_closed (c : cconn hstate) v : cc_hdrRegularSeen (ccu_closed c v) = cc_hdrRegularSeen c. Proof. reflexivity. Qed.
Lemma cc_hdrStatus_ccu_closed (c : cconn hstate) v : cc_hdrStatus (ccu_closed c v) = cc_hdrStatus c. Proof. reflexivity. Qed.
Lemma cc_hdrErr_ccu_closed (c : cconn hstate) v : cc_hdrErr (ccu_closed c v) = cc_hdrErr c. Proof. reflexivity. Qed.
Lemma cc_stateClosed_ccu_closed (c : cconn hstate) v : cc_stateClosed (ccu_closed c v) = cc_stateClosed c. Proof. reflexivity. Qed.
Lemma cc_closeRef_ccu_closed (c : cconn hstate) v : cc_closeRef (ccu_closed c v) = cc_closeRef c. Proof. reflexivity. Qed.
Lemma cc_reqQueued_ccu_closed (c : cconn hstate) v : cc_reqQueued (ccu_closed c v) = cc_reqQueued c. Proof. reflexivity. Qed.
Lemma cc_pending_ccu_closed (c : cconn hstate) v : cc_pending (ccu_closed c v) = cc_pending c. Proof. reflexivity. Qed.
Lemma cc_connWindow_ccu_closed (c : cconn hstate) v : cc_connWindow (ccu_closed c v) = cc_connWindow c. Proof. reflexivity. Qed.
Lemma cc_streamWindow_ccu_closed (c : cconn hstate) v : cc_streamWindow (ccu_closed c v) = cc_streamWindow c. Proof. reflexivity. Qed.
Lemma cc_inQ_ccu_closed (c : cconn hstate) v : cc_inQ (ccu_closed c v) = cc_inQ c. Proof. reflexivity. Qed.
Lemma cc_outQ_ccu_closed (c : cconn hstate) v : cc_outQ (ccu_closed c v) = cc_outQ c. Proof. reflexivity. Qed.
Lemma cc_winCh_ccu_closed (c : cconn hstate) v : cc_winCh (ccu_closed c v) = cc_winCh c. Proof. reflexivity. Qed.
Lemma cc_lastErr_ccu_closed (c : cconn hstate) v : cc_lastErr (ccu_closed c v) = cc_lastErr c. Proof. reflexivity. Qed.
Lemma cc_unacks_ccu_closed (c : cconn hstate) v : cc_unacks (ccu_closed c v) = cc_unacks c. Proof. reflexivity. Qed.
Lemma cc_rl_done_ccu_closed (c : cconn hstate) v : cc_rl_done (ccu_closed c v) = cc_rl_done c. Proof. reflexivity. Qed.
Lemma cc_wl_done_ccu_closed (c : cconn hstate) v : cc_wl_done (ccu_closed c v) = cc_wl_done c. Proof. reflexivity. Qed.
Lemma cc_rl_stuck_ccu_closed (c : cconn hstate) v : cc_rl_stuck (ccu_closed c v) = cc_rl_stuck c. Proof. reflexivity. Qed.
Lemma cc_wl_stuck_ccu_closed (c : cconn hstate) v : cc_wl_stuck (ccu_closed c v) = cc_wl_stuck c. Proof. reflexivity. Qed.
Lemma cc_out_ccu_closed (c : cconn hstate) v : cc_out (ccu_closed c v) = cc_out c. Proof. reflexivity. Qed.
Lemma cc_ctxs_ccu_closing (c : cconn hstate) v : cc_ctxs (ccu_closing c v) = cc_ctxs c. Proof. reflexivity. Qed.
Lemma cc_nextID_ccu_closing (c : cconn hstate) v : cc_nextID (ccu_closing c v) = cc_nextID c. Proof. reflexivity. Qed.
Lemma cc_open_ccu_closing (c : cconn hstate) v : cc_open (ccu_closing c v) = cc_open c. Proof. reflexivity. Qed.
Lemma cc_maxStreams_ccu_closing (c : cconn hstate) v : cc_maxStreams (ccu_closing c v) = cc_maxStreams c. Proof. reflexivity. Qed.
Lemma cc_maxFrame_ccu_closing (c : cconn hstate) v : cc_maxFrame (ccu_closing c v) = cc_maxFrame c. Proof. reflexivity. Qed.
Lemma cc_goAway_ccu_closing (c : cconn hstate) v : cc_goAway (ccu_closing c v) = cc_goAway c. Proof. reflexivity. Qed.
Lemma cc_closed_ccu_closing (c : cconn hstate) v : cc_closed (ccu_closing c v) = cc_closed c. Proof. reflexivity. Qed.
Lemma cc_closing_ccu_closing (c : cconn hstate) v : cc_closing (ccu_closing c v) = v. Proof. reflexivity. Qed.
Lemma cc_netClosed_ccu_closing (c : cconn hstate) v : cc_netClosed (ccu_closing c v) = cc_netClosed c. Proof. reflexivity. Qed.
Lemma cc_writeFail_ccu_closing (c : cconn hstate) v : cc_writeFail (ccu_closing c v) = cc_writeFail c. Proof. reflexivity. Qed.
Lemma cc_enc_ccu_closing (c : cconn hstate) v : cc_enc (ccu_closing c v) = cc_enc c. Proof. reflexivity. Qed.
Lemma cc_encTableSize_ccu_closing (c : cconn hstate) v : cc_encTableSize (ccu_closing c v) = cc_encTableSize c. Proof. reflexivity. Qed.
Lemma cc_encTableSeen_ccu_closing (c : cconn hstate) v : cc_encTableSeen (ccu_closing c v) = cc_encTableSeen c. Proof. reflexivity. Qed.
Lemma cc_dec_ccu_closing (c : cconn hstate) v : cc_dec (ccu_closing c v) = cc_dec c. Proof. reflexivity. Qed.
Lemma cc_currentWindow_ccu_closing (c : cconn hstate) v : cc_currentWindow (ccu_closing c v) = cc_currentWindow c. Proof. reflexivity. Qed.
Lemma cc_serverS_ccu_closing (c : cconn hstate) v : cc_serverS (ccu_closing c v) = cc_serverS c. Proof. reflexivity. Qed.
Lemma cc_hdrStream_ccu_closing (c : cconn hstate) v : cc_hdrStream (ccu_closing c v) = cc_hdrStream c. Proof. reflexivity. Qed.
Lemma cc_hdrPrev_ccu_closing (c : cconn hstate) v : cc_hdrPrev (ccu_closing c v) = cc_hdrPrev c. Proof. reflexivity. Qed.
Lemma cc_hdrFields_ccu_closing (c : cconn hstate) v : cc_hdrFields (ccu_closing c v) = cc_hdrFields c. Proof. reflexivity. Qed.
Lemma cc_hdrEndStream_ccu_closing (c : cconn hstate) v : cc_hdrEndStream (ccu_closing c v) = cc_hdrEndStream c. Proof. reflexivity. Qed.
Lemma cc_hdrRegularSeen_ccu_closing (c : cconn hstate) v : cc_hdrRegularSeen (ccu_closing c v) = cc_hdrRegularSeen c. Proof. reflexivity. Qed.
Lemma cc_hdrStatus_ccu_closing (c : cconn hstate) v : cc_hdrStatus (ccu_closing c v) = cc_hdrStatus c. Proof. reflexivity. Qed.
Lemma cc_hdrErr_ccu_closing (c : cconn hstate) v : cc_hdrErr (ccu_closing c v) = cc_hdrErr c. Proof. reflexivity. Qed.
Lemma cc_stateClosed_ccu_closing (c : cconn hstate) v : cc_stateClosed (ccu_closing c v) = cc_stateClosed c. Proof. reflexivity. Qed.
Lemma cc_closeRef_ccu_closing (c : cconn hstate) v : cc_closeRef (ccu_closing c v) = cc_closeRef c. Proof. reflexivity. Qed.
Lemma cc_reqQueued_ccu_closing (c : cconn hstate) v : cc_reqQueued (ccu_closing c v) = cc_reqQueued c. Proof. reflexivity. Qed.
Lemma cc_pending_ccu_closing (c : cconn hstate) v : cc_pending (ccu_closing c v) = cc_pending c. Proof. reflexivity. Qed.
Lemma cc_connWindow_ccu_closing (c : cconn hstate) v : cc_connWindow (ccu_closing c v) = cc_connWindow c. Proof. reflexivity. Qed.
Lemma cc_streamWindow_ccu_closing (c : cconn hstate) v : cc_streamWindow (ccu_closing c v) = cc_streamWindow c. Proof. reflexivity. Qed.
Lemma cc_inQ_ccu_closing (c : cconn hstate) v : cc_inQ (ccu_closing c v) = cc_inQ c. Proof. reflexivity. Qed.
Lemma cc_outQ_ccu_closing (c : cconn hstate) v : cc_outQ (ccu_closing c v) = cc_outQ c. Proof. reflexivity. Qed.
Lemma cc_winCh_ccu_closing (c : cconn hstate) v : cc_winCh (ccu_closing c v) = cc_winCh c. Proof. reflexivity. Qed.
Lemma cc_lastErr_ccu_closing (c : cconn hstate) v : cc_lastErr (ccu_closing c v) = cc_lastErr c. Proof. reflexivity. Qed.
Lemma cc_unacks_ccu_closing (c : cconn hstate) v : cc_unacks (ccu_closing c v) = cc_unacks c. Proof. reflexivity. Qed.
Lemma cc_rl_done_ccu_closing (c : cconn hstate) v : cc_rl_done (ccu_closing c v) = cc_rl_done c. Proof. reflexivity. Qed.
Lemma cc_wl_done_ccu_closing (c : cconn hstate) v : cc_wl_done (ccu_closing c v) = cc_wl_done c. Proof. reflexivity. Qed.
Lemma cc_rl_stuck_ccu_closing (c : cconn hstate) v : cc_rl_stuck (ccu_closing c v) = cc_rl_stuck c. Proof. reflexivity. Qed.
Lemma cc_wl_stuck_ccu_closing (c : cconn hstate) v : cc_wl_stuck (ccu_closing c v) = cc_wl_stuck c. Proof. reflexivity. Qed.
Lemma cc_out_ccu_closing (c : cconn hstate) v : cc_out (ccu_closing c v) = cc_out c. Proof. reflexivity. Qed.
Lemma cc_ctxs_ccu_netClosed (c : cconn hstate) v : cc_ctxs (ccu_netClosed c v) = cc_ctxs c. Proof. reflexivity. Qed.
Lemma cc_nextID_ccu_netClosed (c : cconn hstate) v : cc_nextID (ccu_netClosed c v) = cc_nextID c. Proof. reflexivity. Qed.
Lemma cc_open_ccu_netClosed (c : cconn hstate) v : cc_open (ccu_netClosed c v) = cc_open c. Proof. reflexivity. Qed.
Lemma cc_maxStreams_ccu_netClosed (c : cconn hstate) v : cc_maxStreams (ccu_netClosed c v) = cc_maxStreams c. Proof. reflexivity. Qed.
Lemma cc_maxFrame_ccu_netClosed (c : cconn hstate) v : cc_maxFrame (ccu_netClosed c v) = cc_maxFrame c. Proof. reflexivity. Qed.
Lemma cc_goAway_ccu_netClosed (c : cconn hstate) v : cc_goAway (ccu_netClosed c v) = cc_goAway c. Proof. reflexivity. Qed.
Lemma cc_closed_ccu_netClosed (c : cconn hstate) v : cc_closed (ccu_netClosed c v) = cc_closed c. Proof. reflexivity. Qed.
Lemma cc_closing_ccu_netClosed (c : cconn hstate) v : cc_closing (ccu_netClosed c v) = cc_closing c. Proof. reflexivity. Qed.
Lemma cc_netClosed_ccu_netClosed (c : cconn hstate) v : cc_netClosed (ccu_netClosed c v) = v. Proof. reflexivity. Qed.
Lemma cc_writeFail_ccu_netClosed (c : cconn hstate) v : cc_writeFail (ccu_netClosed c v) = cc_writeFail c. Proof. reflexivity. Qed.
Lemma cc_enc_ccu_netClosed (c : cconn hstate) v : cc_enc (ccu_netClosed c v) = cc_enc c. Proof. reflexivity. Qed.
Lemma cc_encTableSize_ccu_netClosed (c : cconn hstate) v : cc_encTableSize (ccu_netClosed c v) = cc_encTableSize c. Proof. reflexivity. Qed.
Lemma cc_encTableSeen_ccu_netClosed (c : cconn hstate) v : cc_encTableSeen (ccu_netClosed c v) = cc_encTableSeen c. Proof. reflexivity. Qed.
Lemma cc_dec_ccu_netClosed (c : cconn hstate) v : cc_dec (ccu_netClosed c v) = cc_dec c. Proof. reflexivity. Qed.
Lemma cc_currentWindow_ccu_netClosed (c : cconn hstate) v : cc_currentWindow (ccu_netClosed c v) = cc_currentWindow c. Proof. reflexivity. Qed.
Lemma cc_serverS_ccu_netClosed (c : cconn hstate) v : cc_serverS (ccu_netClosed c v) = cc_serverS c. Proof. reflexivity. Qed.
Lemma cc_hdrStream_ccu_netClosed (c : cconn hstate) v : cc_hdrStream (ccu_netClosed c v) = cc_hdrStream c. Proof. reflexivity. Qed.
Lemma cc_hdrPrev_ccu_netClosed (c : cconn hstate) v : cc_hdrPrev (ccu_netClosed c v) = cc_hdrPrev c. Proof. reflexivity. Qed.
Lemma cc_hdrFields_ccu_netClosed (c : cconn hstate) v : cc_hdrFields (ccu_netClosed c v) = cc_hdrFields c. Proof. reflexivity. Qed.
Lemma cc_hdrEndStream_ccu_netClosed (c : cconn hstate) v : cc_hdrEndStream (ccu_netClosed c v) = cc_hdrEndStream c. Proof. reflexivity. Qed.
Lemma cc_hdrRegularSeen_ccu_netClosed (c : cconn hstate) v : cc_hdrRegularSeen (ccu_netClosed c v) = cc_hdrRegularSeen c. Proof. reflexivity. Qed.
Lemma cc_hdrStatus_ccu_netClosed (c : cconn hstate) v : cc_hdrStatus (ccu_netClosed c v) = cc_hdrStatus c. Proof. reflexivity. Qed.
Lemma cc_hdrErr_ccu_netClosed (c : cconn hstate) v : cc_hdrErr (ccu_netClosed c v) = cc_hdrErr c. Proof. reflexivity. Qed.
Lemma cc_stateClosed_ccu_netClosed (c : cconn hstate) v : cc_stateClosed (ccu_netClosed c v) = cc_stateClosed c. Proof. reflexivity. Qed.
Lemma cc_closeRef_ccu_netClosed (c : cconn hstate) v : cc_closeRef (ccu_netClosed c v) = cc_closeRef c. Proof. reflexivity. Qed.
Lemma cc_reqQueued_ccu_netClosed (c : cconn hstate) v : cc_reqQueued (ccu_netClosed c v) = cc_reqQueued c. Proof. reflexivity. Qed.
Lemma cc_pending_ccu_netClosed (c : cconn hstate) v : cc_pending (ccu_netClosed c v) = cc_pending c. Proof. reflexivity. Qed.
Lemma cc_connWindow_ccu_netClosed (c : cconn hstate) v : cc_connWindow (ccu_netClosed c v) = cc_connWindow c. Proof. reflexivity. Qed.
Lemma cc_streamWindow_ccu_netClosed (c : cconn hstate) v : cc_streamWindow (ccu_netClosed c v) = cc_streamWindow c. Proof. reflexivity. Qed.
Lemma cc_inQ_ccu_netClosed (c : cconn hstate) v : cc_inQ (ccu_netClosed c v) = cc_inQ c. Proof. reflexivity. Qed.
Lemma cc_outQ_ccu_netClosed (c : cconn hstate) v : cc_outQ (ccu_netClosed c v) = cc_outQ c. Proof. reflexivity. Qed.
Lemma cc_winCh_ccu_netClosed (c : cconn hstate) v : cc_winCh (ccu_netClosed c v) = cc_winCh c. Proof. reflexivity. Qed.
Lemma cc_lastErr_ccu_netClosed (c : cconn hstate) v : cc_lastErr (ccu_netClosed c v) = cc_lastErr c. Proof. reflexivity. Qed.
Lemma cc_unacks_ccu_netClosed (c : cconn hstate) v : cc_unacks (ccu_netClosed c v) = cc_unacks c. Proof. reflexivity. Qed.
Lemma cc_rl_done_ccu_netClosed (c : cconn hstate) v : cc_rl_done (ccu_netClosed c v) = cc_rl_done c. Proof. reflexivity. Qed.
Lemma cc_wl_done_ccu_netClosed (c : cconn hstate) v : cc_wl_done (ccu_netClosed c v) = cc_wl_done c. Proof. reflexivity. Qed.
Lemma cc_rl_stuck_ccu_netClosed (c : cconn hstate) v : cc_rl_stuck (ccu_netClosed c v) = cc_rl_stuck c. Proof. reflexivity. Qed.
Lemma cc_wl_stuck_ccu_netClosed (c : cconn hstate) v : cc_wl_stuck (ccu_netClosed c v) = cc_wl_stuck c. Proof. reflexivity. Qed.
Lemma cc_out_ccu_netClosed (c : cconn hstate) v : cc_out (ccu_netClosed c v) = cc_out c. Proof. reflexivity. Qed.
Lemma cc_ctxs_ccu_writeFail (c : cconn hstate) v : cc_ctxs (ccu_writeFail c v) = cc_ctxs c. Proof. reflexivity. Qed.
Lemma cc_nextID_ccu_writeFail (c : cconn hstate) v : cc_nextID (ccu_writeFail c v) = cc_nextID c. Proof. reflexivity. Qed.
Lemma cc_open_ccu_writeFail (c : cconn hstate) v : cc_open (ccu_writeFail c v) = cc_open c. Proof. reflexivity. Qed.
Lemma cc_maxStreams_ccu_writeFail (c : cconn hstate) v : cc_maxStreams (ccu_writeFail c v) = cc_maxStreams c. Proof. reflexivity. Qed.
Lemma cc_maxFrame_ccu_writeFail (c : cconn hstate) v : cc_maxFrame (ccu_writeFail c v) = cc_maxFrame c. Proof. reflexivity. Qed.
Lemma cc_goAway_ccu_writeFail (c : cconn hstate) v : cc_goAway (ccu_writeFail c v) = cc_goAway c. Proof. reflexivity. Qed.
Lemma cc_closed_ccu_writeFail (c : cconn hstate) v : cc_closed (ccu_writeFail c v) = cc_closed c. Proof. reflexivity. Qed.
Lemma cc_closing_ccu_writeFail (c : cconn hstate) v : cc_closing (ccu_writeFail c v) = cc_closing c. Proof. reflexivity. Qed.
Lemma cc_netClosed_ccu_writeFail (c : cconn hstate) v : cc_netClosed (ccu_writeFail c v) = cc_netClosed c. Proof. reflexivity. Qed.
Lemma cc_writeFail_ccu_writeFail (c : cconn hstate) v : cc_writeFail (ccu_writeFail c v) = v. Proof. reflexivity. Qed.
Lemma cc_enc_ccu_writeFail (c : cconn hstate) v : cc_enc (ccu_writeFail c v) = cc_enc c. Proof. reflexivity. Qed.
Lemma cc_encTableSize_ccu_writeFail (c : cconn hstate) v : cc_encTableSize (ccu_writeFail c v) = cc_encTableSize c. Proof. reflexivity. Qed.
Lemma cc_encTableSeen_ccu_writeFail (c : cconn hstate) v : cc_encTableSeen (ccu_writeFail c v) = cc_encTableSeen c. Proof. reflexivity. Qed.
Lemma cc_dec_ccu_writeFail (c : cconn hstate) v : cc_dec (ccu_writeFail c v) = cc_dec c. Proof. reflexivity. Qed.
Lemma cc_currentWindow_ccu_writeFail (c : cconn hstate) v : cc_currentWindow (ccu_writeFail c v) = cc_currentWindow c. Proof. reflexivity. Qed.
Lemma cc_serverS_ccu_writeFail (c : cconn hstate) v : cc_serverS (ccu_writeFail c v) = cc_serverS c. Proof. reflexivity. Qed.
Lemma cc_hdrStream_ccu_writeFail (c : cconn hstate) v : cc_hdrStream (ccu_writeFail c v) = cc_hdrStream c. Proof. reflexivity. Qed.
Lemma cc_hdrPrev_ccu_writeFail (c : cconn hstate) v : cc_hdrPrev (ccu_writeFail c v) = cc_hdrPrev c. Proof. reflexivity. Qed.
Lemma cc_hdrFields_ccu_writeFail (c : cconn hstate) v : cc_hdrFields (ccu_writeFail c v) = cc_hdrFields c. Proof. reflexivity. Qed.
Lemma cc_hdrEndStream_ccu_writeFail (c : cconn hstate) v : cc_hdrEndStream (ccu_writeFail c v) = cc_hdrEndStream c. Proof. reflexivity. Qed.
Lemma cc_hdrRegularSeen_ccu_writeFail (c : cconn hstate) v : cc_hdrRegularSeen (ccu_writeFail c v) = cc_hdrRegularSeen c. Proof. reflexivity. Qed.
Lemma cc_hdrStatus_ccu_writeFail (c : cconn hstate) v : cc_hdrStatus (ccu_writeFail c v) = cc_hdrStatus c. Proof. reflexivity. Qed.
Lemma cc_hdrErr_ccu_writeFail (c : cconn hstate) v : cc_hdrErr (ccu_writeFail c v) = cc_hdrErr c. Proof. reflexivity. Qed.
Lemma cc_stateClosed_ccu_writeFail (c : cconn hstate) v : cc_stateClosed (ccu_writeFail c v) = cc_stateClosed c. Proof. reflexivity. Qed.
Lemma cc_closeRef_ccu_writeFail (c : cconn hstate) v : cc_closeRef (ccu_writeFail c v) = cc_closeRef c. Proof. reflexivity. Qed.
Lemma cc_reqQueued_ccu_writeFail (c : cconn hstate) v : cc_reqQueued (ccu_writeFail c v) = cc_reqQueued c. Proof. reflexivity. Qed.
Lemma cc_pending_ccu_writeFail (c : cconn hstate) v : cc_pending (ccu_writeFail c v) = cc_pending c. Proof. reflexivity. Qed.
Lemma cc_connWindow_ccu_writeFail (c : cconn hstate) v : cc_connWindow (ccu_writeFail c v) = cc_connWindow c. Proof. reflexivity. Qed.
Lemma cc_streamWindow_ccu_writeFail (c : cconn hstate) v : cc_streamWindow (ccu_writeFail c v) = cc_streamWindow c. Proof. reflexivity. Qed.
Lemma cc_inQ_ccu_writeFail (c : cconn hstate) v : cc_inQ (ccu_writeFail c v) = cc_inQ c. Proof. reflexivity. Qed.
Lemma cc_outQ_ccu_writeFail (c : cconn hstate) v : cc_outQ (ccu_writeFail c v) = cc_outQ c. Proof. reflexivity. Qed.
Lemma cc_winCh_ccu_writeFail (c : cconn hstate) v : cc_winCh (ccu_writeFail c v) = cc_winCh c. Proof. reflexivity. Qed.
Lemma cc_lastErr_ccu_writeFail (c : cconn hstate) v : cc_lastErr (ccu_writeFail c v) = cc_lastErr c. Proof. reflexivity. Qed.
Lemma cc_unacks_ccu_writeFail (c : cconn hstate) v : cc_unacks (ccu_writeFail c v) = cc_unacks c. Proof. reflexivity. Qed.
Lemma cc_rl_done_ccu_writeFail (c : cconn hstate) v : cc_rl_done (ccu_writeFail c v) = cc_rl_done c. Proof. reflexivity. Qed.
Lemma cc_wl_done_ccu_writeFail (c : cconn hstate) v : cc_wl_done (ccu_writeFail c v) = cc_wl_done c. Proof. reflexivity. Qed.
Lemma cc_rl_stuck_ccu_writeFail (c : cconn hstate) v : cc_rl_stuck (ccu_writeFail c v) = cc_rl_stuck c. Proof. reflexivity. Qed.
Lemma cc_wl_stuck_ccu_writeFail (c : cconn hstate) v : cc_wl_stuck (ccu_writeFail c v) = cc_wl_stuck c. Proof. reflexivity. Qed.
Lemma cc_out_ccu_writeFail (c : cconn hstate) v : cc_out (ccu_writeFail c v) = cc_out c. Proof. reflexivity. Qed.
Lemma cc_ctxs_ccu_enc (c : cconn hstate) v : cc_ctxs (ccu_enc c v) = cc_ctxs c. Proof. reflexivity. Qed.
Lemma cc_nextID_ccu_enc (c : cconn hstate) v : cc_nextID (ccu_enc c v) = cc_nextID c. Proof. reflexivity. Qed.
Lemma cc_open_ccu_enc (c : cconn hstate) v : cc_open (ccu_enc c v) = cc_open c. Proof. reflexivity. Qed.
Lemma cc_maxStreams_ccu_enc (c : cconn hstate) v : cc_maxStreams (ccu_enc c v) = cc_maxStreams c. Proof. reflexivity. Qed.
Lemma cc_maxFrame_ccu_enc (c : cconn hstate) v : cc_maxFrame (ccu_enc c v) = cc_maxFrame c. Proof. reflexivity. Qed.
Lemma cc_goAway_ccu_enc (c : cconn hstate) v : cc_goAway (ccu_enc c v) = cc_goAway c. Proof. reflexivity. Qed.
Lemma cc_closed_ccu_enc (c : cconn hstate) v : cc_closed (ccu_enc c v) = cc_closed c. Proof. reflexivity. Qed.
Lemma cc_closing_ccu_enc (c : cconn hstate) v : cc_closing (ccu_enc c v) = cc_closing c. Proof. reflexivity. Qed.
Lemma cc_netClosed_ccu_enc (c : cconn hstate) v : cc_netClosed (ccu_enc c v) = cc_netClosed c. Proof. reflexivity. Qed.
Lemma cc_writeFail_ccu_enc (c : cconn hstate) v : cc_writeFail (ccu_enc c v) = cc_writeFail c. Proof. reflexivity. Qed.
Lemma cc_enc_ccu_enc (c : cconn hstate) v : cc_enc (ccu_enc c v) = v. Proof. reflexivity. Qed.
Lemma cc_encTableSize_ccu_enc (c : cconn hstate) v : cc_encTableSize (ccu_enc c v) = cc_encTableSize c. Proof. reflexivity. Qed.
Lemma cc_encTableSeen_ccu_enc (c : cconn hstate) v : cc_encTableSeen (ccu_enc c v) = cc_encTableSeen c. Proof. reflexivity. Qed.
Lemma cc_dec_ccu_enc (c : cconn hstate) v : cc_dec (ccu_enc c v) = cc_dec c. Proof. reflexivity. Qed.
Lemma cc_currentWindow_ccu_enc (c : cconn hstate) v : cc_currentWindow (ccu_enc c v) = cc_currentWindow c. Proof. reflexivity. Qed.
Lemma cc_serverS_ccu_enc (c : cconn hstate) v : cc_serverS (ccu_enc c v) = cc_serverS c. Proof. reflexivity. Qed.
Lemma cc_hdrStream_ccu_enc (c : cconn hstate) v : cc_hdrStream (ccu_enc c v) = cc_hdrStream c. Proof. reflexivity. Qed.
Lemma cc_hdrPrev_ccu_enc (c : cconn hstate) v : cc_hdrPrev (ccu_enc c v) = cc_hdrPrev c. Proof. reflexivity. Qed.
Lemma cc_hdrFields_ccu_enc (c : cconn hstate) v : cc_hdrFields (ccu_enc c v) = cc_hdrFields c. Proof. reflexivity. Qed.
Lemma cc_hdrEndStream_ccu_enc (c : cconn hstate) v : cc_hdrEndStream (ccu_enc c v) = cc_hdrEndStream c. Proof. reflexivity. Qed.
Lemma cc_hdrRegularSeen_ccu_enc (c : cconn hstate) v : cc_hdrRegularSeen (ccu_enc c v) = cc_hdrRegularSeen c. Proof. reflexivity. Qed.
Lemma cc_hdrStatus_ccu_enc (c : cconn hstate) v : cc_hdrStatus (ccu_enc c v) = cc_hdrStatus c. Proof. reflexivity. Qed.
Lemma cc_hdrErr_ccu_enc (c : cconn hstate) v : cc_hdrErr (ccu_enc c v) = cc_hdrErr c. Proof. reflexivity. Qed.
Lemma cc_stateClosed_ccu_enc (c : cconn hstate) v : cc_stateClosed (ccu_enc c v) = cc_stateClosed c. Proof. reflexivity. Qed.
Lemma cc_closeRef_ccu_enc (c : cconn hstate) v : cc_closeRef (ccu_enc c v) = cc_closeRef c. Proof. reflexivity. Qed.
Lemma cc_reqQueued_ccu_enc (c : cconn hstate) v : cc_reqQueued (ccu_enc c v) = cc_reqQueued c. Proof. reflexivity. Qed.
Lemma cc_pending_ccu_enc (c : cconn hstate) v : cc_pending (ccu_enc c v) = cc_pending c. Proof. reflexivity. Qed.
Lemma cc_connWindow_ccu_enc (c : cconn hstate) v : cc_connWindow (ccu_enc c v) = cc_connWindow c. Proof. reflexivity. Qed.
Lemma cc_streamWindow_ccu_enc (c : cconn hstate) v : cc_streamWindow (ccu_enc c v) = cc_streamWindow c. Proof. reflexivity. Qed.
Lemma cc_inQ_ccu_enc (c : cconn hstate) v : cc_inQ (ccu_enc c v) = cc_inQ c. Proof. reflexivity. Qed.
Lemma cc_outQ_ccu_enc (c : cconn hstate) v : cc_outQ (ccu_enc c v) = cc_outQ c. Proof. reflexivity. Qed.
Lemma cc_winCh_ccu_enc (c : cconn hstate) v : cc_winCh (ccu_enc c v) = cc_winCh c. Proof. reflexivity. Qed.
Lemma cc_lastErr_ccu_enc (c : cconn hstate) v : cc_lastErr (ccu_enc c v) = cc_lastErr c. Proof. reflexivity. Qed.
Lemma cc_unacks_ccu_enc (c : cconn hstate) v : cc_unacks (ccu_enc c v) = cc_unacks c. Proof. reflexivity. Qed.
Lemma cc_rl_done_ccu_enc (c : cconn hstate) v : cc_rl_done (ccu_enc c v) = cc_rl_done c. Proof. reflexivity. Qed.
Lemma cc_wl_done_ccu_enc (c : cconn hstate) v : cc_wl_done (ccu_enc c v) = cc_wl_done c. Proof. reflexivity. Qed.
Lemma cc_rl_stuck_ccu_enc (c : cconn hstate) v : cc_rl_stuck (ccu_enc c v) = cc_rl_stuck c. Proof. reflexivity. Qed.
Lemma cc_wl_stuck_ccu_enc (c : cconn hstate) v : cc_wl_stuck (ccu_enc c v) = cc_wl_stuck c. Proof. reflexivity. Qed.
Lemma cc_out_ccu_enc (c : cconn hstate) v : cc_out (ccu_enc c v) = cc_out c. Proof. reflexivity. Qed.
Lemma cc_ctxs_ccu_encTableSize (c : cconn hstate) v : cc_ctxs (ccu_encTableSize c v) = cc_ctxs c. Proof. reflexivity. Qed.
Lemma cc_nextID_ccu_encTableSize (c : cconn hstate) v : cc_nextID (ccu_encTableSize c v) = cc_nextID c. Proof. reflexivity. Qed.
Lemma cc_open_ccu_encTableSize (c : cconn hstate) v : cc_open (ccu_encTableSize c v) = cc_open c. Proof. reflexivity. Qed.
Lemma cc_maxStreams_ccu_encTableSize (c : cconn hstate) v : cc_maxStreams (ccu_encTableSize c v) = cc_maxStreams c. Proof. reflexivity. Qed.
Lemma cc_maxFrame_ccu_encTableSize (c : cconn hstate) v : cc_maxFrame (ccu_encTableSize c v) = cc_maxFrame c. Proof. reflexivity. Qed.
Lemma cc_goAway_ccu_encTableSize (c : cconn hstate) v : cc_goAway (ccu_encTableSize c v) = cc_goAway c. Proof. reflexivity. Qed.
Lemma cc_closed_ccu_encTableSize (c : cconn hstate) v : cc_closed (ccu_encTableSize c v) = cc_closed c. Proof. reflexivity. Qed.
Lemma cc_closing_ccu_encTableSize (c : cconn hstate) v : cc_closing (ccu_encTableSize c v) = cc_closing c. Proof. reflexivity. Qed.
Lemma cc_netClosed_ccu_encTableSize (c : cconn hstate) v : cc_netClosed (ccu_encTableSize c v) = cc_netClosed c. Proof. reflexivity. Qed.
Lemma cc_writeFail_ccu_encTableSize (c : cconn hstate) v : cc_writeFail (ccu_encTableSize c v) = cc_writeFail c. Proof. reflexivity. Qed.
Lemma cc_enc_ccu_encTableSize (c : cconn hstate) v : cc_enc (ccu_encTableSize c v) = cc_enc c. Proof. reflexivity. Qed.
Lemma cc_encTableSize_ccu_encTableSize (c : cconn hstate) v : cc_encTableSize (ccu_encTableSize c v) = v. Proof. reflexivity. Qed.
Lemma cc_encTableSeen_ccu_encTableSize (c : cconn hstate) v : cc_encTableSeen (ccu_encTableSize c v) = cc_encTableSeen c. Proof. reflexivity. Qed.
Lemma cc_dec_ccu_encTableSize (c : cconn hstate) v : cc_dec (ccu_encTableSize c v) = cc_dec c. Proof. reflexivity. Qed.
Lemma cc_currentWindow_ccu_encTableSize (c : cconn hstate) v : cc_currentWindow (ccu_encTableSize c v) = cc_currentWindow c. Proof. reflexivity. Qed.
Lemma cc_serverS_ccu_encTableSize (c : cconn hstate) v : cc_serverS (ccu_encTableSize c v) = cc_serverS c. Proof. reflexivity. Qed.
Lemma cc_hdrStream_ccu_encTableSize (c : cconn hstate) v : cc_hdrStream (ccu_encTableSize c v) = cc_hdrStream c. Proof. reflexivity. Qed.
Lemma cc_hdrPrev_ccu_encTableSize (c : cconn hstate) v : cc_hdrPrev (ccu_encTableSize c v) = cc_hdrPrev c. Proof. reflexivity. Qed.
Lemma cc_hdrFields_ccu_encTableSize (c : cconn hstate) v : cc_hdrFields (ccu_encTableSize c v) = cc_hdrFields c. Proof. reflexivity. Qed.
Lemma cc_hdrEndStream_ccu_encTableSize (c : cconn hstate) v : cc_hdrEndStream (ccu_encTableSize c v) = cc_hdrEndStream c. Proof. reflexivity. Qed.
Lemma cc_hdrRegularSeen_ccu_encTableSize (c : cconn hstate) v : cc_hdrRegularSeen (ccu_encTableSize c v) = cc_hdrRegularSeen c. Proof. reflexivity. Qed.
Lemma cc_hdrStatus_ccu_encTableSize (c : cconn hstate) v : cc_hdrStatus (ccu_encTableSize c v) = cc_hdrStatus c. Proof. reflexivity. Qed.
Lemma cc_hdrErr_ccu_encTableSize (c : cconn hstate) v : cc_hdrErr (ccu_encTableSize c v) = cc_hdrErr c. Proof. reflexivity. Qed.
Lemma cc_stateClosed_ccu_encTableSize (c : cconn hstate) v : cc_stateClosed (ccu_encTableSize c v) = cc_stateClosed c. Proof. reflexivity. Qed.
Lemma cc_closeRef_ccu_encTableSize (c : cconn hstate) v : cc_closeRef (ccu_encTableSize c v) = cc_closeRef c. Proof. reflexivity. Qed.
Lemma cc_reqQueued_ccu_encTableSize (c : cconn hstate) v : cc_reqQueued (ccu_encTableSize c v) = cc_reqQueued c. Proof. reflexivity. Qed.
Lemma cc_pending_ccu_encTableSize (c : cconn hstate) v : cc_pending (ccu_encTableSize c v) = cc_pending c. Proof. reflexivity. Qed.
Lemma cc_connWindow_ccu_encTableSize (c : cconn hstate) v : cc_connWindow (ccu_encTableSize c v) = cc_connWindow c. Proof. reflexivity. Qed.
Lemma cc_streamWindow_ccu_encTableSize (c : cconn hstate) v : cc_streamWindow (ccu_encTableSize c v) = cc_streamWindow c. Proof. reflexivity. Qed.
Lemma cc_inQ_ccu_encTableSize (c : cconn hstate) v : cc_inQ (ccu_encTableSize c v) = cc_inQ c. Proof. reflexivity. Qed.
Lemma cc_outQ_ccu_encTableSize (c : cconn hstate) v : cc_outQ (ccu_encTableSize c v) = cc_outQ c. Proof. reflexivity. Qed.
Lemma cc_winCh_ccu_encTableSize (c : cconn hstate) v : cc_winCh (ccu_encTableSize c v) = cc_winCh c. Proof. reflexivity. Qed.
Lemma cc_lastErr_ccu_encTableSize (c : cconn hstate) v : cc_lastErr (ccu_encTableSize c v) = cc_lastErr c. Proof. reflexivity. Qed.
Lemma cc_unacks_ccu_encTableSize (c : cconn hstate) v : cc_unacks (ccu_encTableSize c v) = cc_unacks c. Proof. reflexivity. Qed.
Lemma cc_rl_done_ccu_encTableSize (c : cconn hstate) v : cc_rl_done (ccu_encTableSize c v) = cc_rl_done c. Proof. reflexivity. Qed.
Lemma cc_wl_done_ccu_encTableSize (c : cconn hstate) v : cc_wl_done (ccu_encTableSize c v) = cc_wl_done c. Proof. reflexivity. Qed.
Lemma cc_rl_stuck_ccu_encTableSize (c : cconn hstate) v : cc_rl_stuck (ccu_encTableSize c v) = cc_rl_stuck c. Proof. reflexivity. Qed.
Lemma cc_wl_stuck_ccu_encTableSize (c : cconn hstate) v : cc_wl_stuck (ccu_encTableSize c v) = cc_wl_stuck c. Proof. reflexivity. Qed.
Lemma cc_out_ccu_encTableSize (c : cconn hstate) v : cc_out (ccu_encTableSize c v) = cc_out c. Proof. reflexivity. Qed.
Lemma cc_ctxs_ccu_encTableSeen (c : cconn hstate) v : cc_ctxs (ccu_encTableSeen c v) = cc_ctxs c. Proof. reflexivity. Qed.
Lemma cc_nextID_ccu_encTableSeen (c : cconn hstate) v : cc_nextID (ccu_encTableSeen c v) = cc_nextID c. Proof. reflexivity. Qed.
Lemma cc_open_ccu_encTableSeen (c : cconn hstate) v : cc_open (ccu_encTableSeen c v) = cc_open c. Proof. reflexivity. Qed.
Lemma cc_maxStreams_ccu_encTableSeen (c : cconn hstate) v : cc_maxStreams (ccu_encTableSeen c v) = cc_maxStreams c. Proof. reflexivity. Qed.
Lemma cc_maxFrame_ccu_encTableSeen (c : cconn hstate) v : cc_maxFrame (ccu_encTableSeen c v) = cc_maxFrame c. Proof. reflexivity. Qed.
Lemma cc_goAway_ccu_encTableSeen (c : cconn hstate) v : cc_goAway (ccu_encTableSeen c v) = cc_goAway c. Proof. reflexivity. Qed.
Lemma cc_closed_ccu_encTableSeen (c : cconn hstate) v : cc_closed (ccu_encTableSeen c v) = cc_closed c. Proof. reflexivity. Qed.
Lemma cc_closing_ccu_encTableSeen (c : cconn hstate) v : cc_closing (ccu_encTableSeen c v) = cc_closing c. Proof. reflexivity. Qed.
Lemma cc_netClosed_ccu_encTableSeen (c : cconn hstate) v : cc_netClosed (ccu_encTableSeen c v) = cc_netClosed c. Proof. reflexivity. Qed.
Lemma cc_writeFail_ccu_encTableSeen (c : cconn hstate) v : cc_writeFail (ccu_encTableSeen c v) = cc_writeFail c. Proof. reflexivity. Qed.
Lemma cc_enc_ccu_encTableSeen (c : cconn hstate) v : cc_enc (ccu_encTableSeen c v) = cc_enc c. Proof. reflexivity. Qed.
Lemma cc_encTableSize_ccu_encTableSeen (c : cconn hstate) v : cc_encTableSize (ccu_encTableSeen c v) = cc_encTableSize c. Proof. reflexivity. Qed.
Lemma cc_encTableSeen_ccu_encTableSeen (c : cconn hstate) v : cc_encTableSeen (ccu_encTableSeen c v) = v. Proof. reflexivity. Qed.
Lemma cc_dec_ccu_encTableSeen (c : cconn hstate) v : cc_dec (ccu_encTableSeen c v) = cc_dec c. Proof. reflexivity. Qed.
Lemma cc_currentWindow_ccu_encTableSeen (c : cconn hstate) v : cc_currentWindow (ccu_encTableSeen c v) = cc_currentWindow c. Proof. reflexivity. Qed.
Lemma cc_serverS_ccu_encTableSeen (c : cconn hstate) v : cc_serverS (ccu_encTableSeen c v) = cc_serverS c. Proof. reflexivity. Qed.
Lemma cc_hdrStream_ccu_encTableSeen (c : cconn hstate) v : cc_hdrStream (ccu_encTableSeen c v) = cc_hdrStream c. Proof. reflexivity. Qed.
Lemma cc_hdrPrev_ccu_encTableSeen (c : cconn hstate) v : cc_hdrPrev (ccu_encTableSeen c v) = cc_hdrPrev c. Proof. reflexivity. Qed.
Lemma cc_hdrFields_ccu_encTableSeen (c : cconn hstate) v : cc_hdrFields (ccu_encTableSeen c v) = cc_hdrFields c. Proof. reflexivity. Qed.
Lemma cc_hdrEndStream_ccu_encTableSeen (c : cconn hstate) v : cc_hdrEndStream (ccu_encTableSeen c v) = cc_hdrEndStream c. Proof. reflexivity. Qed.
Lemma cc_hdrRegularSeen_ccu_encTableSeen (c : cconn hstate) v : cc_hdrRegularSeen (ccu_encTableSeen c v) = cc_hdrRegularSeen c. Proof. reflexivity. Qed.
Lemma cc_hdrStatus_ccu_encTableSeen (c : cconn hstate) v : cc_hdrStatus (ccu_encTableSeen c v) = cc_hdrStatus c. Proof. reflexivity. Qed.
Lemma cc_hdrErr_ccu_encTableSeen (c : cconn hstate) v : cc_hdrErr (ccu_encTableSeen c v) = cc_hdrErr c. Proof. reflexivity. Qed.
Lemma cc_stateClosed_ccu_encTableSeen (c : cconn hstate) v : cc_stateClosed (ccu_encTableSeen c v) = cc_stateClosed c. Proof. reflexivity. Qed.
Lemma cc_closeRef_ccu_encTableSeen (c : cconn hstate) v : cc_closeRef (ccu_encTableSeen c v) = cc_closeRef c. Proof. reflexivity. Qed.
Lemma cc_reqQueued_ccu_encTableSeen (c : cconn hstate) v : cc_reqQueued (ccu_encTableSeen c v) = cc_reqQueued c. Proof. reflexivity. Qed.
Lemma cc_pending_ccu_encTableSeen (c : cconn hstate) v : cc_pending (ccu_encTableSeen c v) = cc_pending c. Proof. reflexivity. Qed.
Lemma cc_connWindow_ccu_encTableSeen (c : cconn hstate) v : cc_connWindow (ccu_encTableSeen c v) = cc_connWindow c. Proof. reflexivity. Qed.
Lemma cc_streamWindow_ccu_encTableSeen (c : cconn hstate) v : cc_streamWindow (ccu_encTableSeen c v) = cc_streamWindow c. Proof. reflexivity. Qed.
Lemma cc_inQ_ccu_encTableSeen (c : cconn hstate) v : cc_inQ (ccu_encTableSeen c v) = cc_inQ c. Proof. reflexivity. Qed.
Lemma cc_outQ_ccu_encTableSeen (c : cconn hstate) v : cc_outQ (ccu_encTableSeen c v) = cc_outQ c. Proof. reflexivity. Qed.
Lemma cc_winCh_ccu_encTableSeen (c : cconn hstate) v : cc_winCh (ccu_encTableSeen c v) = cc_winCh c. Proof. reflexivity. Qed.
Lemma cc_lastErr_ccu_encTableSeen (c : cconn hstate) v : cc_lastErr (ccu_encTableSeen c v) = cc_lastErr c. Proof. reflexivity. Qed.
Lemma cc_unacks_ccu_encTableSeen (c : cconn hstate) v : cc_unacks (ccu_encTableSeen c v) = cc_unacks c. Proof. reflexivity. Qed.
Lemma cc_rl_done_ccu_encTableSeen (c : cconn hstate) v : cc_rl_done (ccu_encTableSeen c v) = cc_rl_done c. Proof. reflexivity. Qed.
Lemma cc_wl_done_ccu_encTableSeen (c : cconn hstate) v : cc_wl_done (ccu_encTableSeen c v) = cc_wl_done c. Proof. reflexivity. Qed.
Lemma cc_rl_stuck_ccu_encTableSeen (c : cconn hstate) v : cc_rl_stuck (ccu_encTableSeen c v) = cc_rl_stuck c. Proof. reflexivity. Qed.
Lemma cc_wl_stuck_ccu_encTableSeen (c : cconn hstate) v : cc_wl_stuck (ccu_encTableSeen c v) = cc_wl_stuck c. Proof. reflexivity. Qed.
Lemma cc_out_ccu_encTableSeen (c : cconn hstate) v : cc_out (ccu_encTableSeen c v) = cc_out c. Proof. reflexivity. Qed.
Lemma cc_ctxs_ccu_dec (c : cconn hstate) v : cc_ctxs (ccu_dec c v) = cc_ctxs c. Proof. reflexivity. Qed.
Lemma cc_nextID_ccu_dec (c : cconn hstate) v : cc_nextID (ccu_dec c v) = cc_nextID c. Proof. reflexivity. Qed.
Lemma cc_open_ccu_dec (c : cconn hstate) v : cc_open (ccu_dec c v) = cc_open c. Proof. reflexivity. Qed.
Lemma cc_maxStreams_ccu_dec (c : cconn hstate) v : cc_maxStreams (ccu_dec c v) = cc_maxStreams c. Proof. reflexivity. Qed.
Lemma cc_maxFrame_ccu_dec (c : cconn hstate) v : cc_maxFrame (ccu_dec c v) = cc_maxFrame c. Proof. reflexivity. Qed.
Lemma cc_goAway_ccu_dec (c : cconn hstate) v : cc_goAway (ccu_dec c v) = cc_goAway c. Proof. reflexivity. Qed.
Lemma cc_closed_ccu_dec (c : cconn hstate) v : cc_closed (ccu_dec c v) = cc_closed c. Proof. reflexivity. Qed.
Lemma cc_closing_ccu_dec (c : cconn hstate) v : cc_closing (ccu_dec c v) = cc_closing c. Proof. reflexivity. Qed.
Lemma cc_netClosed_ccu_dec (c : cconn hstate) v : cc_netClosed (ccu_dec c v) = cc_netClosed c. Proof. reflexivity. Qed.
Lemma cc_writeFail_ccu_dec (c : cconn hstate) v : cc_writeFail (ccu_dec c v) = cc_writeFail c. Proof. reflexivity. Qed.
Lemma cc_enc_ccu_dec (c : cconn hstate) v : cc_enc (ccu_dec c v) = cc_enc c. Proof. reflexivity. Qed.
Lemma cc_encTableSize_ccu_dec (c : cconn hstate) v : cc_encTableSize (ccu_dec c v) = cc_encTableSize c. Proof. reflexivity. Qed.
Lemma cc_encTableSeen_ccu_dec (c : cconn hstate) v : cc_encTableSeen (ccu_dec c v) = cc_encTableSeen c. Proof. reflexivity. Qed.
Lemma cc_dec_ccu_dec (c : cconn hstate) v : cc_dec (ccu_dec c v) = v. Proof. reflexivity. Qed.
Lemma cc_currentWindow_ccu_dec (c : cconn hstate) v : cc_currentWindow (ccu_dec c v) = cc_currentWindow c. Proof. reflexivity. Qed.
Lemma cc_serverS_ccu_dec (c : cconn hstate) v : cc_serverS (ccu_dec c v) = cc_serverS c. Proof. reflexivity. Qed.
Lemma cc_hdrStream_ccu_dec (c : cconn hstate) v : cc_hdrStream (ccu_dec c v) = cc_hdrStream c. Proof. reflexivity. Qed.
Lemma cc_hdrPrev_ccu_dec (c : cconn hstate) v : cc_hdrPrev (ccu_dec c v) = cc_hdrPrev c. Proof. reflexivity. Qed.
Lemma cc_hdrFields_ccu_dec (c : cconn hstate) v : cc_hdrFields (ccu_dec c v) = cc_hdrFields c. Proof. reflexivity. Qed.
Lemma cc_hdrEndStream_ccu_dec (c : cconn hstate) v : cc_hdrEndStream (ccu_dec c v) = cc_hdrEndStream c. Proof. reflexivity. Qed.
Lemma cc_hdrRegularSeen_ccu_dec (c : cconn hstate) v : cc_hdrRegularSeen (ccu_dec c v) = cc_hdrRegularSeen c. Proof. reflexivity. Qed.
Lemma cc_hdrStatus_ccu_dec (c : cconn hstate) v : cc_hdrStatus (ccu_dec c v) = cc_hdrStatus c. Proof. reflexivity. Qed.
Lemma cc_hdrErr_ccu_dec (c : cconn hstate) v : cc_hdrErr (ccu_dec c v) = cc_hdrErr c. Proof. reflexivity. Qed.
Lemma cc_stateClosed_ccu_dec (c : cconn hstate) v : cc_stateClosed (ccu_dec c v) = cc_stateClosed c. Proof. reflexivity. Qed.
Lemma cc_closeRef_ccu_dec (c : cconn hstate) v : cc_closeRef (ccu_dec c v) = cc_closeRef c. Proof. reflexivity. Qed.
Lemma cc_reqQueued_ccu_dec (c : cconn hstate) v : cc_reqQueued (ccu_dec c v) = cc_reqQueued c. Proof. reflexivity. Qed.
Lemma cc_pending_ccu_dec (c : cconn hstate) v : cc_pending (ccu_dec c v) = cc_pending c. Proof. reflexivity. Qed.
Lemma cc_connWindow_ccu_dec (c : cconn hstate) v : cc_connWindow (ccu_dec c v) = cc_connWindow c. Proof. reflexivity. Qed.
Lemma cc_streamWindow_ccu_dec (c : cconn hstate) v : cc_streamWindow (ccu_dec c v) = cc_streamWindow c. Proof. reflexivity. Qed.
Lemma cc_inQ_ccu_dec (c : cconn hstate) v : cc_inQ (ccu_dec c v) = cc_inQ c. Proof. reflexivity. Qed.
Lemma cc_outQ_ccu_dec (c : cconn hstate) v : cc_outQ (ccu_dec c v) = cc_outQ c. Proof. reflexivity. Qed.
Lemma cc_winCh_ccu_dec (c : cconn hstate) v : cc_winCh (ccu_dec c v) = cc_winCh c. Proof. reflexivity. Qed.
Lemma cc_lastErr_ccu_dec (c : cconn hstate) v : cc_lastErr (ccu_dec c v) = cc_lastErr c. Proof. reflexivity. Qed.
Lemma cc_unacks_ccu_dec (c : cconn hstate) v : cc_unacks (ccu_dec c v) = cc_unacks c. Proof. reflexivity. Qed.
Lemma cc_rl_done_ccu_dec (c : cconn hstate) v : cc_rl_done (ccu_dec c v) = cc_rl_done c. Proof. reflexivity. Qed.
Lemma cc_wl_done_ccu_dec (c : cconn hstate) v : cc_wl_done (ccu_dec c v) = cc_wl_done c. Proof. reflexivity. Qed.
Lemma cc_rl_stuck_ccu_dec (c : cconn hstate) v : cc_rl_stuck (ccu_dec c v) = cc_rl_stuck c. Proof. reflexivity. Qed.
Lemma cc_wl_stuck_ccu_dec (c : cconn hstate) v : cc_wl_stuck (ccu_dec c v) = cc_wl_stuck c. Proof. reflexivity. Qed.
Lemma cc_out_ccu_dec (c : cconn hstate) v : cc_out (ccu_dec c v) = cc_out c. Proof. reflexivity. Qed.
Lemma cc_ctxs_ccu_currentWindow (c : cconn hstate) v : cc_ctxs (ccu_currentWindow c v) = cc_ctxs c. Proof. reflexivity. Qed.
Lemma cc_nextID_ccu_currentWindow (c : cconn hstate) v : cc_nextID (ccu_currentWindow c v) = cc_nextID c. Proof. reflexivity. Qed.
Lemma cc_open_ccu_currentWindow (c : cconn hstate) v : cc_open (ccu_currentWindow c v) = cc_open c. Proof. reflexivity. Qed.
Lemma cc_maxStreams_ccu_currentWindow (c : cconn hstate) v : cc_maxStreams (ccu_currentWindow c v) = cc_maxStreams c. Proof. reflexivity. Qed.
Lemma cc_maxFrame_ccu_currentWindow (c : cconn hstate) v : cc_maxFrame (ccu_currentWindow c v) = cc_maxFrame c. Proof. reflexivity. Qed.
Lemma cc_goAway_ccu_currentWindow (c : cconn hstate) v : cc_goAway (ccu_currentWindow c v) = cc_goAway c. Proof. reflexivity. Qed.
Lemma cc_closed_ccu_currentWindow (c : cconn hstate) v : cc_closed (ccu_currentWindow c v) = cc_closed c. Proof. reflexivity. Qed.
Lemma cc_closing_ccu_currentWindow (c : cconn hstate) v : cc_closing (ccu_currentWindow c v) = cc_closing c. Proof. reflexivity. Qed.
Lemma cc_netClosed_ccu_currentWindow (c : cconn hstate) v : cc_netClosed (ccu_currentWindow c v) = cc_netClosed c. Proof. reflexivity. Qed.
Lemma cc_writeFail_ccu_currentWindow (c : cconn hstate) v : cc_writeFail (ccu_currentWindow c v) = cc_writeFail c. Proof. reflexivity. Qed.
Lemma cc_enc_ccu_currentWindow (c : cconn hstate) v : cc_enc (ccu_currentWindow c v) = cc_enc c. Proof. reflexivity. Qed.
Lemma cc_encTableSize_ccu_currentWindow (c : cconn hstate) v : cc_encTableSize (ccu_currentWindow c v) = cc_encTableSize c. Proof. reflexivity. Qed.
Lemma cc_encTableSeen_ccu_currentWindow (c : cconn hstate) v : cc_encTableSeen (ccu_currentWindow c v) = cc_encTableSeen c. Proof. reflexivity. Qed.
Lemma cc_dec_ccu_currentWindow (c : cconn hstate) v : cc_dec (ccu_currentWindow c v) = cc_dec c. Proof. reflexivity. Qed.
Lemma cc_currentWindow_ccu_currentWindow (c : cconn hstate) v : cc_currentWindow (ccu_currentWindow c v) = v. Proof. reflexivity. Qed.
Lemma cc_serverS_ccu_currentWindow (c : cconn hstate) v : cc_serverS (ccu_currentWindow c v) = cc_serverS c. Proof. reflexivity. Qed.
Lemma cc_hdrStream_ccu_currentWindow (c : cconn hstate) v : cc_hdrStream (ccu_currentWindow c v) = cc_hdrStream c. Proof. reflexivity. Qed.
Lemma cc_hdrPrev_ccu_currentWindow (c : cconn hstate) v : cc_hdrPrev (ccu_currentWindow c v) = cc_hdrPrev c. Proof. reflexivity. Qed.
Lemma cc_hdrFields_ccu_currentWindow (c : cconn hstate) v : cc_hdrFields (ccu_currentWindow c v) = cc_hdrFields c. Proof. reflexivity. Qed.
Lemma cc_hdrEndStream_ccu_currentWindow (c : cconn hstate) v : cc_hdrEndStream (ccu_currentWindow c v) = cc_hdrEndStream c. Proof. reflexivity. Qed.
Lemma cc_hdrRegularSeen_ccu_currentWindow (c : cconn hstate) v : cc_hdrRegularSeen (ccu_currentWindow c v) = cc_hdrRegularSeen c. Proof. reflexivity. Qed.
Lemma cc_hdrStatus_ccu_currentWindow (c : cconn hstate) v : cc_hdrStatus (ccu_currentWindow c v) = cc_hdrStatus c. Proof. reflexivity. Qed.
Lemma cc_hdrErr_ccu_currentWindow (c : cconn hstate) v : cc_hdrErr (ccu_currentWindow c v) = cc_hdrErr c. Proof. reflexivity. Qed.
Lemma cc_stateClosed_ccu_currentWindow (c : cconn hstate) v : cc_stateClosed (ccu_currentWindow c v) = cc_stateClosed c. Proof. reflexivity. Qed.
Lemma cc_closeRef_ccu_currentWindow (c : cconn hstate) v : cc_closeRef (ccu_currentWindow c v) = cc_closeRef c. Proof. reflexivity. Qed.
Lemma cc_reqQueued_ccu_currentWindow (c : cconn hstate) v : cc_reqQueued (ccu_currentWindow c v) = cc_reqQueued c. Proof. reflexivity. Qed.
Lemma cc_pending_ccu_currentWindow (c : cconn hstate) v : cc_pending (ccu_currentWindow c v) = cc_pending c. Proof. reflexivity. Qed.
Lemma cc_connWindow_ccu_currentWindow (c : cconn hstate) v : cc_connWindow (ccu_currentWindow c v) = cc_connWindow c. Proof. reflexivity. Qed.
Lemma cc_streamWindow_ccu_currentWindow (c : cconn hstate) v : cc_streamWindow (ccu_currentWindow c v) = cc_streamWindow c. Proof. reflexivity. Qed.
Lemma cc_inQ_ccu_currentWindow (c : cconn hstate) v : cc_inQ (ccu_currentWindow c v) = cc_inQ c. Proof. reflexivity. Qed.
Lemma cc_outQ_ccu_currentWindow (c : cconn hstate) v : cc_outQ (ccu_currentWindow c v) = cc_outQ c. Proof. reflexivity. Qed.
Lemma cc_winCh_ccu_currentWindow (c : cconn hstate) v : cc_winCh (ccu_currentWindow c v) = cc_winCh c. Proof. reflexivity. Qed.
Lemma cc_lastErr_ccu_currentWindow (c : cconn hstate) v : cc_lastErr (ccu_currentWindow c v) = cc_lastErr c. Proof. reflexivity. Qed.
Lemma cc_unacks_ccu_currentWindow (c : cconn hstate) v : cc_unacks (ccu_currentWindow c v) = cc_unacks c. Proof. reflexivity. Qed.
Lemma cc_rl_done_ccu_currentWindow (c : cconn hstate) v : cc_rl_done (ccu_currentWindow c v) = cc_rl_done c. Proof. reflexivity. Qed.
Lemma cc_wl_done_ccu_currentWindow (c : cconn hstate) v : cc_wl_done (ccu_currentWindow c v) = cc_wl_done c. Proof. reflexivity. Qed.
Lemma cc_rl_stuck_ccu_currentWindow (c : cconn hstate) v : cc_rl_stuck (ccu_currentWindow c v) = cc_rl_stuck c. Proof. reflexivity. Qed.
Lemma cc_wl_stuck_ccu_currentWindow (c : cconn hstate) v : cc_wl_stuck (ccu_currentWindow c v) = cc_wl_stuck c. Proof. reflexivity. Qed.
Lemma cc_out_ccu_currentWindow (c : cconn hstate) v : cc_out (ccu_currentWindow c v) = cc_out c. Proof. reflexivity. Qed.
Lemma cc_ctxs_ccu_serverS (c : cconn hstate) v : cc_ctxs (ccu_serverS c v) = cc_ctxs c. Proof. reflexivity. Qed.
Lemma cc_nextID_ccu_serverS (c : cconn hstate) v : cc_nextID (ccu_serverS c v) = cc_nextID c. Proof. reflexivity. Qed.
Lemma cc_open_ccu_serverS (c : cconn hstate) v : cc_open (ccu_serverS c v) = cc_open c. Proof. reflexivity. Qed.
Lemma cc_maxStreams_ccu_serverS (c : cconn hstate) v : cc_maxStreams (ccu_serverS c v) = cc_maxStreams c. Proof. reflexivity. Qed.
Lemma cc_maxFrame_ccu_serverS (c : cconn hstate) v : cc_maxFrame (ccu_serverS c v) = cc_maxFrame c. Proof. reflexivity. Qed.
Lemma cc_goAway_ccu_serverS (c : cconn hstate) v : cc_goAway (ccu_serverS c v) = cc_goAway c. Proof. reflexivity. Qed.
Lemma cc_closed_ccu_serverS (c : cconn hstate) v : cc_closed (ccu_serverS c v) = cc_closed c. Proof. reflexivity. Qed.
Lemma cc_closing_ccu_serverS (c : cconn hstate) v : cc_closing (ccu_serverS c v) = cc_closing c. Proof. reflexivity. Qed.
Lemma cc_netClosed_ccu_serverS (c : cconn hstate) v : cc_netClosed (ccu_serverS c v) = cc_netClosed c. Proof. reflexivity. Qed.
Lemma cc_writeFail_ccu_serverS (c : cconn hstate) v : cc_writeFail (ccu_serverS c v) = cc_writeFail c. Proof. reflexivity. Qed.
Lemma cc_enc_ccu_serverS (c : cconn hstate) v : cc_enc (ccu_serverS c v) = cc_enc c. Proof. reflexivity. Qed.
Lemma cc_encTableSize_ccu_serverS (c : cconn hstate) v : cc_encTableSize (ccu_serverS c v) = cc_encTableSize c. Proof. reflexivity. Qed.
Lemma cc_encTableSeen_ccu_serverS (c : cconn hstate) v : cc_encTableSeen (ccu_serverS c v) = cc_encTableSeen c. Proof. reflexivity. Qed.
Lemma cc_dec_ccu_serverS (c : cconn hstate) v : cc_dec (ccu_serverS c v) = cc_dec c. Proof. reflexivity. Qed.
Lemma cc_currentWindow_ccu_serverS (c : cconn hstate) v : cc_currentWindow (ccu_serverS c v) = cc_currentWindow c. Proof. reflexivity. Qed.
Lemma cc_serverS_ccu_serverS (c : cconn hstate) v : cc_serverS (ccu_serverS c v) = v. Proof. reflexivity. Qed.
Lemma cc_hdrStream_ccu_serverS (c : cconn hstate) v : cc_hdrStream (ccu_serverS c v) = cc_hdrStream c. Proof. reflexivity. Qed.
Lemma cc_hdrPrev_ccu_serverS (c : cconn hstate) v : cc_hdrPrev (ccu_serverS c v) = cc_hdrPrev c. Proof. reflexivity. Qed.
Lemma cc_hdrFields_ccu_serverS (c : cconn hstate) v : cc_hdrFields (ccu_serverS c v) = cc_hdrFields c. Proof. reflexivity. Qed.
Lemma cc_hdrEndStream_ccu_serverS (c : cconn hstate) v : cc_hdrEndStream (ccu_serverS c v) = cc_hdrEndStream c. Proof. reflexivity. Qed.
Lemma cc_hdrRegularSeen_ccu_serverS (c : cconn hstate) v : cc_hdrRegularSeen (ccu_serverS c v) = cc_hdrRegularSeen c. Proof. reflexivity. Qed.
Lemma cc_hdrStatus_ccu_serverS (c : cconn hstate) v : cc_hdrStatus (ccu_serverS c v) = cc_hdrStatus c. Proof. reflexivity. Qed.
Lemma cc_hdrErr_ccu_serverS (c : cconn hstate) v : cc_hdrErr (ccu_serverS c v) = cc_hdrErr c. Proof. reflexivity. Qed.
Lemma cc_stateClosed_ccu_serverS (c : cconn hstate) v : cc_stateClosed (ccu_serverS c v) = cc_stateClosed c. Proof. reflexivity. Qed.
Lemma cc_closeRef_ccu_serverS (c : cconn hstate) v : cc_closeRef (ccu_serverS c v) = cc_closeRef c. Proof. reflexivity. Qed.
Lemma cc_reqQueued_ccu_serverS (c : cconn hstate) v : cc_reqQueued (ccu_serverS c v) = cc_reqQueued c. Proof. reflexivity. Qed.
Lemma cc_pending_ccu_serverS (c : cconn hstate) v : cc_pending (ccu_serverS c v) = cc_pending c. Proof. reflexivity. Qed.
Lemma cc_connWindow_ccu_serverS (c : cconn hstate) v : cc_connWindow (ccu_serverS c v) = cc_connWindow c. Proof. reflexivity. Qed.
Lemma cc_streamWindow_ccu_serverS (c : cconn hstate) v : cc_streamWindow (ccu_serverS c v) = cc_streamWindow c. Proof. reflexivity. Qed.
Lemma cc_inQ_ccu_serverS (c : cconn hstate) v : cc_inQ (ccu_serverS c v) = cc_inQ c. Proof. reflexivity. Qed.
Lemma cc_outQ_ccu_serverS (c : cconn hstate) v : cc_outQ (ccu_serverS c v) = cc_outQ c. Proof. reflexivity. Qed.
Lemma cc_winCh_ccu_serverS (c : cconn hstate) v : cc_winCh (ccu_serverS c v) = cc_winCh c. Proof. reflexivity. Qed.
Lemma cc_lastErr_ccu_serverS (c : cconn hstate) v : cc_lastErr (ccu_serverS c v) = cc_lastErr c. Proof. reflexivity. Qed.
Lemma cc_unacks_ccu_serverS (c : cconn hstate) v : cc_unacks (ccu_serverS c v) = cc_unacks c. Proof. reflexivity. Qed.
Lemma cc_rl_done_ccu_serverS (c : cconn hstate) v : cc_rl_done (ccu_serverS c v) = cc_rl_done c. Proof. reflexivity. Qed.
Lemma cc_wl_done_ccu_serverS (c : cconn hstate) v : cc_wl_done (ccu_serverS c v) = cc_wl_done c. Proof. reflexivity. Qed.
Lemma cc_rl_stuck_ccu_serverS (c : cconn hstate) v : cc_rl_stuck (ccu_serverS c v) = cc_rl_stuck c. Proof. reflexivity. Qed.
Lemma cc_wl_stuck_ccu_serverS (c : cconn hstate) v : cc_wl_stuck (ccu_serverS c v) = cc_wl_stuck c. Proof. reflexivity. Qed.
Lemma cc_out_ccu_serverS (c : cconn hstate) v : cc_out (ccu_serverS c v) = cc_out c. Proof. reflexivity. Qed.
Lemma cc_ctxs_ccu_hdrStream (c : cconn hstate) v : cc_ctxs (ccu_hdrStream c v) = cc_ctxs c. Proof. reflexivity. Qed.
Lemma cc_nextID_ccu_hdrStream (c : cconn hstate) v : cc_nextID (ccu_hdrStream c v) = cc_nextID c. Proof. reflexivity. Qed.
Lemma cc_open_ccu_hdrStream (c : cconn hstate) v : cc_open (ccu_hdrStream c v) = cc_open c. Proof. reflexivity. Qed.
Lemma cc_maxStreams_ccu_hdrStream (c : cconn hstate) v : cc_maxStreams (ccu_hdrStream c v) = cc_maxStreams c. Proof. reflexivity. Qed.
Lemma cc_maxFrame_ccu_hdrStream (c : cconn hstate) v : cc_maxFrame (ccu_hdrStream c v) = cc_maxFrame c. Proof. reflexivity. Qed.
Lemma cc_goAway_ccu_hdrStream (c : cconn hstate) v : cc_goAway (ccu_hdrStream c v) = cc_goAway c. Proof. reflexivity. Qed.
Lemma cc_closed_ccu_hdrStream (c : cconn hstate) v : cc_closed (ccu_hdrStream c v) = cc_closed c. Proof. reflexivity. Qed.
Lemma cc_closing_ccu_hdrStream (c : cconn hstate) v : cc_closing (ccu_hdrStream c v) = cc_closing c. Proof. reflexivity. Qed.
Lemma cc_netClosed_ccu_hdrStream (c : cconn hstate) v : cc_netClosed (ccu_hdrStream c v) = cc_netClosed c. Proof. reflexivity. Qed.
Lemma cc_writeFail_ccu_hdrStream (c : cconn hstate) v : cc_writeFail (ccu_hdrStream c v) = cc_writeFail c. Proof. reflexivity. Qed.
Lemma cc_enc_ccu_hdrStream (c : cconn hstate) v : cc_enc (ccu_hdrStream c v) = cc_enc c. Proof. reflexivity. Qed.
Lemma cc_encTableSize_ccu_hdrStream (c : cconn hstate) v : cc_encTableSize (ccu_hdrStream c v) = cc_encTableSize c. Proof. reflexivity. Qed.
Lemma cc_encTableSeen_ccu_hdrStream (c : cconn hstate) v : cc_encTableSeen (ccu_hdrStream c v) = cc_encTableSeen c. Proof. reflexivity. Qed.
Lemma cc_dec_ccu_hdrStream (c : cconn hstate) v : cc_dec (ccu_hdrStream c v) = cc_dec c. Proof. reflexivity. Qed.
Lemma cc_currentWindow_ccu_hdrStream (c : cconn hstate) v : cc_currentWindow (ccu_hdrStream c v) = cc_currentWindow c. Proof. reflexivity. Qed.
Lemma cc_serverS_ccu_hdrStream (c : cconn hstate) v : cc_serverS (ccu_hdrStream c v) = cc_serverS c. Proof. reflexivity. Qed.
Lemma cc_hdrStream_ccu_hdrStream (c : cconn hstate) v : cc_hdrStream (ccu_hdrStream c v) = v. Proof. reflexivity. Qed.
Lemma cc_hdrPrev_ccu_hdrStream (c : cconn hstate) v : cc_hdrPrev (ccu_hdrStream c v) = cc_hdrPrev c. Proof. reflexivity. Qed.
Lemma cc_hdrFields_ccu_hdrStream (c : cconn hstate) v : cc_hdrFields (ccu_hdrStream c v) = cc_hdrFields c. Proof. reflexivity. Qed.
Lemma cc_hdrEndStream_ccu_hdrStream (c : cconn hstate) v : cc_hdrEndStream (ccu_hdrStream c v) = cc_hdrEndStream c. Proof. reflexivity. Qed.
Lemma cc_hdrRegularSeen_ccu_hdrStream (c : cconn hstate) v : cc_hdrRegularSeen (ccu_hdrStream c v) = cc_hdrRegularSeen c. Proof. reflexivity. Qed.
Lemma cc_hdrStatus_ccu_hdrStream (c : cconn hstate) v : cc_hdrStatus (ccu_hdrStream c v) = cc_hdrStatus c. Proof. reflexivity. Qed.
Lemma cc_hdrErr_ccu_hdrStream (c : cconn hstate) v : cc_hdrErr (ccu_hdrStream c v) = cc_hdrErr c. Proof. reflexivity. Qed.
Lemma cc_stateClosed_ccu_hdrStream (c : cconn hstate) v : cc_stateClosed (ccu_hdrStream c v) = cc_stateClosed c. Proof. reflexivity. Qed.
Lemma cc_closeRef_ccu_hdrStream (c : cconn hstate) v : cc_closeRef (ccu_hdrStream c v) = cc_closeRef c. Proof. reflexivity. Qed.
Lemma cc_reqQueued_ccu_hdrStream (c : cconn hstate) v : cc_reqQueued (ccu_hdrStream c v) = cc_reqQueued c. Proof. reflexivity. Qed.
Lemma cc_pending_ccu_hdrStream (c : cconn hstate) v : cc_pending (ccu_hdrStream c v) = cc_pending c. Proof. reflexivity. Qed.
Lemma cc_connWindow_ccu_hdrStream (c : cconn hstate) v : cc_connWindow (ccu_hdrStream c v) = cc_connWindow c. Proof. reflexivity. Qed.
Lemma cc_streamWindow_ccu_hdrStream (c : cconn hstate) v : cc_streamWindow (ccu_hdrStream c v) = cc_streamWindow c. Proof. reflexivity. Qed.
Lemma cc_inQ_ccu_hdrStream (c : cconn hstate) v : cc_inQ (ccu_hdrStream c v) = cc_inQ c. Proof. reflexivity. Qed.
Lemma cc_outQ_ccu_hdrStream (c : cconn hstate) v : cc_outQ (ccu_hdrStream c v) = cc_outQ c. Proof. reflexivity. Qed.
Lemma cc_winCh_ccu_hdrStream (c : cconn hstate) v : cc_winCh (ccu_hdrStream c v) = cc_winCh c. Proof. reflexivity. Qed.
Lemma cc_lastErr_ccu_hdrStream (c : cconn hstate) v : cc_lastErr (ccu_hdrStream c v) = cc_lastErr c. Proof. reflexivity. Qed.
Lemma cc_unacks_ccu_hdrStream (c : cconn hstate) v : cc_unacks (ccu_hdrStream c v) = cc_unacks c. Proof. reflexivity. Qed.
Lemma cc_rl_done_ccu_hdrStream (c : cconn hstate) v : cc_rl_done (ccu_hdrStream c v) = cc_rl_done c. Proof. reflexivity. Qed.
Lemma cc_wl_done_ccu_hdrStream (c : cconn hstate) v : cc_wl_done (ccu_hdrStream c v) = cc_wl_done c. Proof. reflexivity. Qed.
Lemma cc_rl_stuck_ccu_hdrStream (c : cconn hstate) v : cc_rl_stuck (ccu_hdrStream c v) = cc_rl_stuck c. Proof. reflexivity. Qed.
Lemma cc_wl_stuck_ccu_hdrStream (c : cconn hstate) v : cc_wl_stuck (ccu_hdrStream c v) = cc_wl_stuck c. Proof. reflexivity. Qed.
Lemma cc_out_ccu_hdrStream (c : cconn hstate) v : cc_out (ccu_hdrStream c v) = cc_out c. Proof. reflexivity. Qed.
Lemma cc_ctxs_ccu_hdrPrev (c : cconn hstate) v : cc_ctxs (ccu_hdrPrev c v) = cc_ctxs c. Proof. reflexivity. Qed.
Lemma cc_nextID_ccu_hdrPrev (c : cconn hstate) v : cc_nextID (ccu_hdrPrev c v) = cc_nextID c. Proof. reflexivity. Qed.
Lemma cc_open_ccu_hdrPrev (c : cconn hstate) v : cc_open (ccu_hdrPrev c v) = cc_open c. Proof. reflexivity. Qed.
Lemma cc_maxStreams_ccu_hdrPrev (c : cconn hstate) v : cc_maxStreams (ccu_hdrPrev c v) = cc_maxStreams c. Proof. reflexivity. Qed.
Lemma cc_maxFrame_ccu_hdrPrev (c : cconn hstate) v : cc_maxFrame (ccu_hdrPrev c v) = cc_maxFrame c. Proof. reflexivity. Qed.
Lemma cc_goAway_ccu_hdrPrev (c : cconn hstate) v : cc_goAway (ccu_hdrPrev c v) = cc_goAway c. Proof. reflexivity. Qed.
Lemma cc_closed_ccu_hdrPrev (c : cconn hstate) v : cc_closed (ccu_hdrPrev c v) = cc_closed c. Proof. reflexivity. Qed.
Lemma cc_closing_ccu_hdrPrev (c : cconn hstate) v : cc_closing (ccu_hdrPrev c v) = cc_closing c. Proof. reflexivity. Qed.
Lemma cc_netClosed_ccu_hdrPrev (c : cconn hstate) v : cc_netClosed (ccu_hdrPrev c v) = cc_netClosed c. Proof. reflexivity. Qed.
Lemma cc_writeFail_ccu_hdrPrev (c : cconn hstate) v : cc_writeFail (ccu_hdrPrev c v) = cc_writeFail c. Proof. reflexivity. Qed.
Lemma cc_enc_ccu_hdrPrev (c : cconn hstate) v : cc_enc (ccu_hdrPrev c v) = cc_enc c. Proof. reflexivity. Qed.
Lemma cc_encTableSize_ccu_hdrPrev (c : cconn hstate) v : cc_encTableSize (ccu_hdrPrev c v) = cc_encTableSize c. Proof. reflexivity. Qed.
Lemma cc_encTableSeen_ccu_hdrPrev (c : cconn hstate) v : cc_encTableSeen (ccu_hdrPrev c v) = cc_encTableSeen c. Proof. reflexivity. Qed.
Lemma cc_dec_ccu_hdrPrev (c : cconn hstate) v : cc_dec (ccu_hdrPrev c v) = cc_dec c. Proof. reflexivity. Qed.
Lemma cc_currentWindow_ccu_hdrPrev (c : cconn hstate) v : cc_currentWindow (ccu_hdrPrev c v) = cc_currentWindow c. Proof. reflexivity. Qed.
Lemma cc_serverS_ccu_hdrPrev (c : cconn hstate) v : cc_serverS (ccu_hdrPrev c v) = cc_serverS c. Proof. reflexivity. Qed.
Lemma cc_hdrStream_ccu_hdrPrev (c : cconn hstate) v : cc_hdrStream (ccu_hdrPrev c v) = cc_hdrStream c. Proof. reflexivity. Qed.
Lemma cc_hdrPrev_ccu_hdrPrev (c : cconn hstate) v : cc_hdrPrev (ccu_hdrPrev c v) = v. Proof. reflexivity. Qed.
Lemma cc_hdrFields_ccu_hdrPrev (c : cconn hstate) v : cc_hdrFields (ccu_hdrPrev c v) = cc_hdrFields c. Proof. reflexivity. Qed.
Lemma cc_hdrEndStream_ccu_hdrPrev (c : cconn hstate) v : cc_hdrEndStream (ccu_hdrPrev c v) = cc_hdrEndStream c. Proof. reflexivity. Qed.
Lemma cc_hdrRegularSeen_ccu_hdrPrev (c : cconn hstate) v : cc_hdrRegularSeen (ccu_hdrPrev c v) = cc_hdrRegularSeen c. Proof. reflexivity. Qed.
Lemma cc_hdrStatus_ccu_hdrPrev (c : cconn hstate) v : cc_hdrStatus (ccu_hdrPrev c v) = cc_hdrStatus c. Proof. reflexivity. Qed.
Lemma cc_hdrErr_ccu_hdrPrev (c : cconn hstate) v : cc_hdrErr (ccu_hdrPrev c v) = cc_hdrErr c. Proof. reflexivity. Qed.
Lemma cc_stateClosed_ccu_hdrPrev (c : cconn hstate) v : cc_stateClosed (ccu_hdrPrev c v) = cc_stateClosed c. Proof. reflexivity. Qed.
Lemma cc_closeRef_ccu_hdrPrev (c : cconn hstate) v : cc_closeRef (ccu_hdrPrev c v) = cc_closeRef c. Proof. reflexivity. Qed.
Lemma cc_reqQueued_ccu_hdrPrev (c : cconn hstate) v : cc_reqQueued (ccu_hdrPrev c v) = cc_reqQueued c. Proof. reflexivity. Qed.
Lemma cc_pending_ccu_hdrPrev (c : cconn hstate) v : cc_pending (ccu_hdrPrev c v) = cc_pending c. Proof. reflexivity. Qed.
Lemma cc_connWindow_ccu_hdrPrev (c : cconn hstate) v : cc_connWindow (ccu_hdrPrev c v) = cc_connWindow c. Proof. reflexivity. Qed.
Lemma cc_streamWindow_ccu_hdrPrev (c : cconn hstate) v : cc_streamWindow (ccu_hdrPrev c v) = cc_streamWindow c. Proof. reflexivity. Qed.
Lemma cc_inQ_ccu_hdrPrev (c : cconn hstate) v : cc_inQ (ccu_hdrPrev c v) = cc_inQ c. Proof. reflexivity. Qed.
Lemma cc_outQ_ccu_hdrPrev (c : cconn hstate) v : cc_outQ (ccu_hdrPrev c v) = cc_outQ c. Proof. reflexivity. Qed.
Lemma cc_winCh_ccu_hdrPrev (c : cconn hstate) v : cc_winCh (ccu_hdrPrev c v) = cc_winCh c. Proof. reflexivity. Qed.
Lemma cc_lastErr_ccu_hdrPrev (c : cconn hstate) v : cc_lastErr (ccu_hdrPrev c v) = cc_lastErr c. Proof. reflexivity. Qed.
Lemma cc_unacks_ccu_hdrPrev (c : cconn hstate) v : cc_unacks (ccu_hdrPrev c v) = cc_unacks c. Proof. reflexivity. Qed.
Lemma cc_rl_done_ccu_hdrPrev (c : cconn hstate) v : cc_rl_done (ccu_hdrPrev c v) = cc_rl_done c. Proof. reflexivity. Qed.
Lemma cc_wl_done_ccu_hdrPrev (c : cconn hstate) v : cc_wl_done (ccu_hdrPrev c v) = cc_wl_done c. Proof. reflexivity. Qed.
Lemma cc_rl_stuck_ccu_hdrPrev (c : cconn hstate) v : cc_rl_stuck (ccu_hdrPrev c v) = cc_rl_stuck c. Proof. reflexivity. Qed.
Lemma cc_wl_stuck_ccu_hdrPrev (c : cconn hstate) v : cc_wl_stuck (ccu_hdrPrev c v) = cc_wl_stuck c. Proof. reflexivity. Qed.
Lemma cc_out_ccu_hdrPrev (c : cconn hstate) v : cc_out (ccu_hdrPrev c v) = cc_out c. Proof. reflexivity. Qed.
Lemma cc_ctxs_ccu_hdrFields (c : cconn hstate) v : cc_ctxs (ccu_hdrFields c v) = cc_ctxs c. Proof. reflexivity. Qed.
Lemma cc_nextID_ccu_hdrFields (c : cconn hstate) v : cc_nextID (ccu_hdrFields c v) = cc_nextID c. Proof. reflexivity. Qed.
Lemma cc_open_ccu_hdrFields (c : cconn hstate) v : cc_open (ccu_hdrFields c v) = cc_open c. Proof. reflexivity. Qed.
Lemma cc_maxStreams_ccu_hdrFields (c : cconn hstate) v : cc_maxStreams (ccu_hdrFields c v) = cc_maxStreams c. Proof. reflexivity. Qed.
Lemma cc_maxFrame_ccu_hdrFields (c : cconn hstate) v : cc_maxFrame (ccu_hdrFields c v) = cc_maxFrame c. Proof. reflexivity. Qed.
Lemma cc_goAway_ccu_hdrFields (c : cconn hstate) v : cc_goAway (ccu_hdrFields c v) = cc_goAway c. Proof. reflexivity. Qed.
Lemma cc_closed_ccu_hdrFields (c : cconn hstate) v : cc_closed (ccu_hdrFields c v) = cc_closed c. Proof. reflexivity. Qed.
Lemma cc_closing_ccu_hdrFields (c : cconn hstate) v : cc_closing (ccu_hdrFields c v) = cc_closing c. Proof. reflexivity. Qed.
Lemma cc_netClosed_ccu_hdrFields (c : cconn hstate) v : cc_netClosed (ccu_hdrFields c v) = cc_netClosed c. Proof. reflexivity. Qed.
Lemma cc_writeFail_ccu_hdrFields (c : cconn hstate) v : cc_writeFail (ccu_hdrFields c v) = cc_writeFail c. Proof. reflexivity. Qed.
Lemma cc_enc_ccu_hdrFields (c : cconn hstate) v : cc_enc (ccu_hdrFields c v) = cc_enc c. Proof. reflexivity. Qed.
Lemma cc_encTableSize_ccu_hdrFields (c : cconn hstate) v : cc_encTableSize (ccu_hdrFields c v) = cc_encTableSize c. Proof. reflexivity. Qed.
Lemma cc_encTableSeen_ccu_hdrFields (c : cconn hstate) v : cc_encTableSeen (ccu_hdrFields c v) = cc_encTableSeen c. Proof. reflexivity. Qed.
Lemma cc_dec_ccu_hdrFields (c : cconn hstate) v : cc_dec (ccu_hdrFields c v) = cc_dec c. Proof. reflexivity. Qed.
Lemma cc_currentWindow_ccu_hdrFields (c : cconn hstate) v : cc_currentWindow (ccu_hdrFields c v) = cc_currentWindow c. Proof. reflexivity. Qed.
Lemma cc_serverS_ccu_hdrFields (c : cconn hstate) v : cc_serverS (ccu_hdrFields c v) = cc_serverS c. Proof. reflexivity. Qed.
Lemma cc_hdrStream_ccu_hdrFields (c : cconn hstate) v : cc_hdrStream (ccu_hdrFields c v) = cc_hdrStream c. Proof. reflexivity. Qed.
Lemma cc_hdrPrev_ccu_hdrFields (c : cconn hstate) v : cc_hdrPrev (ccu_hdrFields c v) = cc_hdrPrev c. Proof. reflexivity. Qed.
Lemma cc_hdrFields_ccu_hdrFields (c : cconn hstate) v : cc_hdrFields (ccu_hdrFields c v) = v. Proof. reflexivity. Qed.
Lemma cc_hdrEndStream_ccu_hdrFields (c : cconn hstate) v : cc_hdrEndStream (ccu_hdrFields c v) = cc_hdrEndStream c. Proof. reflexivity. Qed.
Lemma cc_hdrRegularSeen_ccu_hdrFields (c : cconn hstate) v : cc_hdrRegularSeen (ccu_hdrFields c v) = cc_hdrRegularSeen c. Proof. reflexivity. Qed.
Lemma cc_hdrStatus_ccu_hdrFields (c : cconn hstate) v : cc_hdrStatus (ccu_hdrFields c v) = cc_hdrStatus c. Proof. reflexivity. Qed.
Lemma cc_hdrErr_ccu_hdrFields (c : cconn hstate) v : cc_hdrErr (ccu_hdrFields c v) = cc_hdrErr c. Proof. reflexivity. Qed.
Lemma cc_stateClosed_ccu_hdrFields (c : cconn hstate) v : cc_stateClosed (ccu_hdrFields c v) = cc_stateClosed c. Proof. reflexivity. Qed.
Lemma cc_closeRef_ccu_hdrFields (c : cconn hstate) v : cc_closeRef (ccu_hdrFields c v) = cc_closeRef c. Proof. reflexivity. Qed.
Lemma cc_reqQueued_ccu_hdrFields (c : cconn hstate) v : cc_reqQueued (ccu_hdrFields c v) = cc_reqQueued c. Proof. reflexivity. Qed.
Lemma cc_pending_ccu_hdrFields (c : cconn hstate) v : cc_pending (ccu_hdrFields c v) = cc_pending c. Proof. reflexivity. Qed.
Lemma cc_connWindow_ccu_hdrFields (c : cconn hstate) v : cc_connWindow (ccu_hdrFields c v) = cc_connWindow c. Proof. reflexivity. Qed.
Lemma cc_streamWindow_ccu_hdrFields (c : cconn hstate) v : cc_streamWindow (ccu_hdrFields c v) = cc_streamWindow c. Proof. reflexivity. Qed.
Lemma cc_inQ_ccu_hdrFields (c : cconn hstate) v : cc_inQ (ccu_hdrFields c v) = cc_inQ c. Proof. reflexivity. Qed.
Lemma cc_outQ_ccu_hdrFields (c : cconn hstate) v : cc_outQ (ccu_hdrFields c v) = cc_outQ c. Proof. reflexivity. Qed.
Lemma cc_winCh_ccu_hdrFields (c : cconn hstate) v : cc_winCh (ccu_hdrFields c v) = cc_winCh c. Proof. reflexivity. Qed.
Lemma cc_lastErr_ccu_hdrFields (c : cconn hstate) v : cc_lastErr (ccu_hdrFields c v) = cc_lastErr c. Proof. reflexivity. Qed.
Lemma cc_unacks_ccu_hdrFields (c : cconn hstate) v : cc_unacks (ccu_hdrFields c v) = cc_unacks c. Proof. reflexivity. Qed.
Lemma cc_rl_done_ccu_hdrFields (c : cconn hstate) v : cc_rl_done (ccu_hdrFields c v) = cc_rl_done c. Proof. reflexivity. Qed.
Lemma cc_wl_done_ccu_hdrFields (c : cconn hstate) v : cc_wl_done (ccu_hdrFields c v) = cc_wl_done c. Proof. reflexivity. Qed.
Lemma cc_rl_stuck_ccu_hdrFields (c : cconn hstate) v : cc_rl_stuck (ccu_hdrFields c v) = cc_rl_stuck c. Proof. reflexivity. Qed.
Lemma cc_wl_stuck_ccu_hdrFields (c : cconn hstate) v : cc_wl_stuck (ccu_hdrFields c v) = cc_wl_stuck c. Proof. reflexivity. Qed.
Lemma cc_out_ccu_hdrFields (c : cconn hstate) v : cc_out (ccu_hdrFields c v) = cc_out c. Proof. reflexivity. Qed.
Lemma cc_ctxs_ccu_hdrEndStream (c : cconn hstate) v : cc_ctxs (ccu_hdrEndStream c v) = cc_ctxs c. Proof. reflexivity. Qed.
Lemma cc_nextID_ccu_hdrEndStream (c : cconn hstate) v : cc_nextID (ccu_hdrEndStream c v) = cc_nextID c. Proof. reflexivity. Qed.
Lemma cc_open_ccu_hdrEndStream (c : cconn hstate) v : cc_open (ccu_hdrEndStream c v) = cc_open c. Proof. reflexivity. Qed.
Lemma cc_maxStreams_ccu_hdrEndStream (c : cconn hstate) v : cc_maxStreams (ccu_hdrEndStream c v) = cc_maxStreams c. Proof. reflexivity. Qed.
Lemma cc_maxFrame_ccu_hdrEndStream (c : cconn hstate) v : cc_maxFrame (ccu_hdrEndStream c v) = cc_maxFrame c. Proof. reflexivity. Qed.
Lemma cc_goAway_ccu_hdrEndStream (c : cconn hstate) v : cc_goAway (ccu_hdrEndStream c v) = cc_goAway c. Proof. reflexivity. Qed.
Lemma cc_closed_ccu_hdrEndStream (c : cconn hstate) v : cc_closed (ccu_hdrEndStream c v) = cc_closed c. Proof. reflexivity. Qed.
Lemma cc_closing_ccu_hdrEndStream (c : cconn hstate) v : cc_closing (ccu_hdrEndStream c v) = cc_closing c. Proof. reflexivity. Qed.
Lemma cc_netClosed_ccu_hdrEndStream (c : cconn hstate) v : cc_netClosed (ccu_hdrEndStream c v) = cc_netClosed c. Proof. reflexivity. Qed.
Lemma cc_writeFail_ccu_hdrEndStream (c : cconn hstate) v : cc_writeFail (ccu_hdrEndStream c v) = cc_writeFail c. Proof. reflexivity. Qed.
Lemma cc_enc_ccu_hdrEndStream (c : cconn hstate) v : cc_enc (ccu_hdrEndStream c v) = cc_enc c. Proof. reflexivity. Qed.
Lemma cc_encTableSize_ccu_hdrEndStream (c : cconn hstate) v : cc_encTableSize (ccu_hdrEndStream c v) = cc_encTableSize c. Proof. reflexivity. Qed.
Lemma cc_encTableSeen_ccu_hdrEndStream (c : cconn hstate) v : cc_encTableSeen (ccu_hdrEndStream c v) = cc_encTableSeen c. Proof. reflexivity. Qed.
Lemma cc_dec_ccu_hdrEndStream (c : cconn hstate) v : cc_dec (ccu_hdrEndStream c v) = cc_dec c. Proof. reflexivity. Qed.
Lemma cc_currentWindow_ccu_hdrEndStream (c : cconn hstate) v : cc_currentWindow (ccu_hdrEndStream c v) = cc_currentWindow c. Proof. reflexivity. Qed.
Lemma cc_serverS_ccu_hdrEndStream (c : cconn hstate) v : cc_serverS (ccu_hdrEndStream c v) = cc_serverS c. Proof. reflexivity. Qed.
Lemma cc_hdrStream_ccu_hdrEndStream (c : cconn hstate) v : cc_hdrStream (ccu_hdrEndStream c v) = cc_hdrStream c. Proof. reflexivity. Qed.
Lemma cc_hdrPrev_ccu_hdrEndStream (c : cconn hstate) v : cc_hdrPrev (ccu_hdrEndStream c v) = cc_hdrPrev c. Proof. reflexivity. Qed.
Lemma cc_hdrFields_ccu_hdrEndStream (c : cconn hstate) v : cc_hdrFields (ccu_hdrEndStream c v) = cc_hdrFields c. Proof. reflexivity. Qed.
Lemma cc_hdrEndStream_ccu_hdrEndStream (c : cconn hstate) v : cc_hdrEndStream (ccu_hdrEndStream c v) = v. Proof. reflexivity. Qed.
Lemma cc_hdrRegularSeen_ccu_hdrEndStream (c : cconn hstate) v : cc_hdrRegularSeen (ccu_hdrEndStream c v) = cc_hdrRegularSeen c. Proof. reflexivity. Qed.
Lemma cc_hdrStatus_ccu_hdrEndStream (c : cconn hstate) v : cc_hdrStatus (ccu_hdrEndStream c v) = cc_hdrStatus c. Proof. reflexivity. Qed.
Lemma cc_hdrErr_ccu_hdrEndStream (c : cconn hstate) v : cc_hdrErr (ccu_hdrEndStream c v) = cc_hdrErr c. Proof. reflexivity. Qed.
Lemma cc_stateClosed_ccu_hdrEndStream (c : cconn hstate) v : cc_stateClosed (ccu_hdrEndStream c v) = cc_stateClosed c. Proof. reflexivity. Qed.
Lemma cc_closeRef_ccu_hdrEndStream (c : cconn hstate) v : cc_closeRef (ccu_hdrEndStream c v) = cc_closeRef c. Proof. reflexivity. Qed.
Lemma cc_reqQueued_ccu_hdrEndStream (c : cconn hstate) v : cc_reqQueued (ccu_hdrEndStream c v) = cc_reqQueued c. Proof. reflexivity. Qed.
Lemma cc_pending_ccu_hdrEndStream (c : cconn hstate) v : cc_pending (ccu_hdrEndStream c v) = cc_pending c. Proof. reflexivity. Qed.
Lemma cc_connWindow_ccu_hdrEndStream (c : cconn hstate) v : cc_connWindow (ccu_hdrEndStream c v) = cc_connWindow c. Proof. reflexivity. Qed.
Lemma cc_streamWindow_ccu_hdrEndStream (c : cconn hstate) v : cc_streamWindow (ccu_hdrEndStream c v) = cc_streamWindow c. Proof. reflexivity. Qed.
Lemma cc_inQ_ccu_hdrEndStream (c : cconn hstate) v : cc_inQ (ccu_hdrEndStream c v) = cc_inQ c. Proof. reflexivity. Qed.
Lemma cc_outQ_ccu_hdrEndStream (c : cconn hstate) v : cc_outQ (ccu_hdrEndStream c v) = cc_outQ c. Proof. reflexivity. Qed.
Lemma cc_winCh_ccu_hdrEndStream (c : cconn hstate) v : cc_winCh (ccu_hdrEndStream c v) = cc_winCh c. Proof. reflexivity. Qed.
Lemma cc_lastErr_ccu_hdrEndStream (c : cconn hstate) v : cc_lastErr (ccu_hdrEndStream c v) = cc_lastErr c. Proof. reflexivity. Qed.
Lemma cc_unacks_ccu_hdrEndStream (c : cconn hstate) v : cc_unacks (ccu_hdrEndStream c v) = cc_unacks c. Proof. reflexivity. Qed.
Lemma cc_rl_done_ccu_hdrEndStream (c : cconn hstate) v : cc_rl_done (ccu_hdrEndStream c v) = cc_rl_done c. Proof. reflexivity. Qed.
Lemma cc_wl_done_ccu_hdrEndStream (c : cconn hstate) v : cc_wl_done (ccu_hdrEndStream c v) = cc_wl_done c. Proof. reflexivity. Qed.
Lemma cc_rl_stuck_ccu_hdrEndStream (c : cconn hstate) v : cc_rl_stuck (ccu_hdrEndStream c v) = cc_rl_stuck c. Proof. reflexivity. Qed.
Lemma cc_wl_stuck_ccu_hdrEndStream (c : cconn hstate) v : cc_wl_stuck (ccu_hdrEndStream c v) = cc_wl_stuck c. Proof. reflexivity. Qed.
Lemma cc_out_ccu_hdrEndStream (c : cconn hstate) v : cc_out (ccu_hdrEndStream c v) = cc_out c. Proof. reflexivity. Qed.
Lemma cc_ctxs_ccu_hdrRegularSeen (c : cconn hstate) v : cc_ctxs (ccu_hdrRegularSeen c v) = cc_ctxs c. Proof. reflexivity. Qed.
Lemma cc_nextID_ccu_hdrRegularSeen (c : cconn hstate) v : cc_nextID (ccu_hdrRegularSeen c v) = cc_nextID c. Proof. reflexivity. Qed.
Lemma cc_open_ccu_hdrRegularSeen (c : cconn hstate) v : cc_open (ccu_hdrRegularSeen c v) = cc_open c. Proof. reflexivity. Qed.
Lemma cc_maxStreams_ccu_hdrRegularSeen (c : cconn hstate) v : cc_maxStreams (ccu_hdrRegularSeen c v) = cc_maxStreams c. Proof. reflexivity. Qed.
Lemma cc_maxFrame_ccu_hdrRegularSeen (c : cconn hstate) v : cc_maxFrame (ccu_hdrRegularSeen c v) = cc_maxFrame c. Proof. reflexivity. Qed.
Lemma cc_goAway_ccu_hdrRegularSeen (c : cconn hstate) v : cc_goAway (ccu_hdrRegularSeen c v) = cc_goAway c. Proof. reflexivity. Qed.
Lemma cc_closed_ccu_hdrRegularSeen (c : cconn hstate) v : cc_closed (ccu_hdrRegularSeen c v) = cc_closed c. Proof. reflexivity. Qed.
Lemma cc_closing_ccu_hdrRegularSeen (c : cconn hstate) v : cc_closing (ccu_hdrRegularSeen c v) = cc_closing c. Proof. reflexivity. Qed.
Lemma cc_netClosed_ccu_hdrRegularSeen (c : cconn hstate) v : cc_netClosed (ccu_hdrRegularSeen c v) = cc_netClosed c. Proof. reflexivity. Qed.
Lemma cc_writeFail_ccu_hdrRegularSeen (c : cconn hstate) v : cc_writeFail (ccu_hdrRegularSeen c v) = cc_writeFail c. Proof. reflexivity. Qed.
Lemma cc_enc_ccu_hdrRegularSeen (c : cconn hstate) v : cc_enc (ccu_hdrRegularSeen c v) = cc_enc c. Proof. reflexivity. Qed.
Lemma cc_encTableSize_ccu_hdrRegularSeen (c : cconn hstate) v : cc_encTableSize (ccu_hdrRegularSeen c v) = cc_encTableSize c. Proof. reflexivity. Qed.
Lemma cc_encTableSeen_ccu_hdrRegularSeen (c : cconn hstate) v : cc_encTableSeen (ccu_hdrRegularSeen c v) = cc_encTableSeen c. Proof. reflexivity. Qed.
Lemma cc_dec_ccu_hdrRegularSeen (c : cconn hstate) v : cc_dec (ccu_hdrRegularSeen c v) = cc_dec c. Proof. reflexivity. Qed.
Lemma cc_currentWindow_ccu_hdrRegularSeen (c : cconn hstate) v : cc_currentWindow (ccu_hdrRegularSeen c v) = cc_currentWindow c. Proof. reflexivity. Qed.
Lemma cc_serverS_ccu_hdrRegularSeen (c : cconn hstate) v : cc_serverS (ccu_hdrRegularSeen c v) = cc_serverS c. Proof. reflexivity. Qed.
Lemma cc_hdrStream_ccu_hdrRegularSeen (c : cconn hstate) v : cc_hdrStream (ccu_hdrRegularSeen c v) = cc_hdrStream c. Proof. reflexivity. Qed.
Lemma cc_hdrPrev_ccu_hdrRegularSeen (c : cconn hstate) v : cc_hdrPrev (ccu_hdrRegularSeen c v) = cc_hdrPrev c. Proof. reflexivity. Qed.
Lemma cc_hdrFields_ccu_hdrRegularSeen (c : cconn hstate) v : cc_hdrFields (ccu_hdrRegularSeen c v) = cc_hdrFields c. Proof. reflexivity. Qed.
Lemma cc_hdrEndStream_ccu_hdrRegularSeen (c : cconn hstate) v : cc_hdrEndStream (ccu_hdrRegularSeen c v) = cc_hdrEndStream c. Proof. reflexivity. Qed.
Lemma cc_hdrRegularSeen_ccu_hdrRegularSeen (c : cconn hstate) v : cc_hdrRegularSeen (ccu_hdrRegularSeen c v) = v. Proof. reflexivity. Qed.
Lemma cc_hdrStatus_ccu_hdrRegularSeen (c : cconn hstate) v : cc_hdrStatus (ccu_hdrRegularSeen c v) = cc_hdrStatus c. Proof. reflexivity. Qed.
Lemma cc_hdrErr_ccu_hdrRegularSeen (c : cconn hstate) v : cc_hdrErr (ccu_hdrRegularSeen c v) = cc_hdrErr c. Proof. reflexivity. Qed.
Lemma cc_stateClosed_ccu_hdrRegularSeen (c : cconn hstate) v : cc_stateClosed (ccu_hdrRegularSeen c v) = cc_stateClosed c. Proof. reflexivity. Qed.
Lemma cc_closeRef_ccu_hdrRegularSeen (c : cconn hstate) v : cc_closeRef (ccu_hdrRegularSeen c v) = cc_closeRef c. Proof. reflexivity. Qed.
Lemma cc_reqQueued_ccu_hdrRegularSeen (c : cconn hstate) v : cc_reqQueued (ccu_hdrRegularSeen c v) = cc_reqQueued c. Proof. reflexivity. Qed.
Lemma cc_pending_ccu_hdrRegularSeen (c : cconn hstate) v : cc_pending (ccu_hdrRegularSeen c v) = cc_pending c. Proof. reflexivity. Qed.
Lemma cc_connWindow_ccu_hdrRegularSeen (c : cconn hstate) v : cc_connWindow (ccu_hdrRegularSeen c v) = cc_connWindow c. Proof. reflexivity. Qed.
Lemma cc_streamWindow_ccu_hdrRegularSeen (c : cconn hstate) v : cc_streamWindow (ccu_hdrRegularSeen c v) = cc_streamWindow c. Proof. reflexivity. Qed.
Lemma cc_inQ_ccu_hdrRegularSeen (c : cconn hstate) v : cc_inQ (ccu_hdrRegularSeen c v) = cc_inQ c. Proof. reflexivity. Qed.
Lemma cc_outQ_ccu_hdrRegularSeen (c : cconn hstate) v : cc_outQ (ccu_hdrRegularSeen c v) = cc_outQ c. Proof. reflexivity. Qed.
Lemma cc_winCh_ccu_hdrRegularSeen (c : cconn hstate) v : cc_winCh (ccu_hdrRegularSeen c v) = cc_winCh c. Proof. reflexivity. Qed.
Lemma cc_lastErr_ccu_hdrRegularSeen (c : cconn hstate) v : cc_lastErr (ccu_hdrRegularSeen c v) = cc_lastErr c. Proof. reflexivity. Qed.
Lemma cc_unacks_ccu_hdrRegularSeen (c : cconn hstate) v : cc_unacks (ccu_hdrRegularSeen c v) = cc_unacks c. Proof. reflexivity. Qed.
Lemma cc_rl_done_ccu_hdrRegularSeen (c : cconn hstate) v : cc_rl_done (ccu_hdrRegularSeen c v) = cc_rl_done c. Proof. reflexivity. Qed.
Lemma cc_wl_done_ccu_hdrRegularSeen (c : cconn hstate) v : cc_wl_done (ccu_hdrRegularSeen c v) = cc_wl_done c. Proof. reflexivity. Qed.
Lemma cc_rl_stuck_ccu_hdrRegularSeen (c : cconn hstate) v : cc_rl_stuck (ccu_hdrRegularSeen c v) = cc_rl_stuck c. Proof. reflexivity. Qed.
Lemma cc_wl_stuck_ccu_hdrRegularSeen (c : cconn hstate) v : cc_wl_stuck (ccu_hdrRegularSeen c v) = cc_wl_stuck c. Proof. reflexivity. Qed.
Lemma cc_out_ccu_hdrRegularSeen (c : cconn hstate) v : cc_out (ccu_hdrRegularSeen c v) = cc_out c. Proof. reflexivity. Qed.
Lemma cc_ctxs_ccu_hdrStatus (c : cconn hstate) v : cc_ctxs (ccu_hdrStatus c v) = cc_ctxs c. Proof. reflexivity. Qed.
Lemma cc_nextID_ccu_hdrStatus (c : cconn hstate) v : cc_nextID (ccu_hdrStatus c v) = cc_nextID c. Proof. reflexivity. Qed.
Lemma cc_open_ccu_hdrStatus (c : cconn hstate) v : cc_open (ccu_hdrStatus c v) = cc_open c. Proof. reflexivity. Qed.
Lemma cc_maxStreams_ccu_hdrStatus (c : cconn hstate) v : cc_maxStreams (ccu_hdrStatus c v) = cc_maxStreams c. Proof. reflexivity. Qed.
Lemma cc_maxFrame_ccu_hdrStatus (c : cconn hstate) v : cc_maxFrame (ccu_hdrStatus c v) = cc_maxFrame c. Proof. reflexivity. Qed.
Lemma cc_goAway_ccu_hdrStatus (c : cconn hstate) v : cc_goAway (ccu_hdrStatus c v) = cc_goAway c. Proof. reflexivity. Qed.
Lemma cc_closed_ccu_hdrStatus (c : cconn hstate) v : cc_closed (ccu_hdrStatus c v) = cc_closed c. Proof. reflexivity. Qed.
Lemma cc_closing_ccu_hdrStatus (c : cconn hstate) v : cc_closing (ccu_hdrStatus c v) = cc_closing c. Proof. reflexivity. Qed.
Lemma cc_netClosed_ccu_hdrStatus (c : cconn hstate) v : cc_netClosed (ccu_hdrStatus c v) = cc_netClosed c. Proof. reflexivity. Qed.
Lemma cc_writeFail_ccu_hdrStatus (c : cconn hstate) v : cc_writeFail (ccu_hdrStatus c v) = cc_writeFail c. Proof. reflexivity. Qed.
Lemma cc_enc_ccu_hdrStatus (c : cconn hstate) v : cc_enc (ccu_hdrStatus c v) = cc_enc c. Proof. reflexivity. Qed.
Lemma cc_encTableSize_ccu_hdrStatus (c : cconn hstate) v : cc_encTableSize (ccu_hdrStatus c v) = cc_encTableSize c. Proof. reflexivity. Qed.
Lemma cc_encTableSeen_ccu_hdrStatus (c : cconn hstate) v : cc_encTableSeen (ccu_hdrStatus c v) = cc_encTableSeen c. Proof. reflexivity. Qed.
Lemma cc_dec_ccu_hdrStatus (c : cconn hstate) v : cc_dec (ccu_hdrStatus c v) = cc_dec c. Proof. reflexivity. Qed.
Lemma cc_currentWindow_ccu_hdrStatus (c : cconn hstate) v : cc_currentWindow (ccu_hdrStatus c v) = cc_currentWindow c. Proof. reflexivity. Qed.
Lemma cc_serverS_ccu_hdrStatus (c : cconn hstate) v : cc_serverS (ccu_hdrStatus c v) = cc_serverS c. Proof. reflexivity. Qed.
Lemma cc_hdrStream_ccu_hdrStatus (c : cconn hstate) v : cc_hdrStream (ccu_hdrStatus c v) = cc_hdrStream c. Proof. reflexivity. Qed.
Lemma cc_hdrPrev_ccu_hdrStatus (c : cconn hstate) v : cc_hdrPrev (ccu_hdrStatus c v) = cc_hdrPrev c. Proof. reflexivity. Qed.
Lemma cc_hdrFields_ccu_hdrStatus (c : cconn hstate) v : cc_hdrFields (ccu_hdrStatus c v) = cc_hdrFields c. Proof. reflexivity. Qed.
Lemma cc_hdrEndStream_ccu_hdrStatus (c : cconn hstate) v : cc_hdrEndStream (ccu_hdrStatus c v) = cc_hdrEndStream c. Proof. reflexivity. Qed.
Lemma cc_hdrRegularSeen_ccu_hdrStatus (c : cconn hstate) v : cc_hdrRegularSeen (ccu_hdrStatus c v) = cc_hdrRegularSeen c. Proof. reflexivity. Qed.
Lemma cc_hdrStatus_ccu_hdrStatus (c : cconn hstate) v : cc_hdrStatus (ccu_hdrStatus c v) = v. Proof. reflexivity. Qed.
Lemma cc_hdrErr_ccu_hdrStatus (c : cconn hstate) v : cc_hdrErr (ccu_hdrStatus c v) = cc_hdrErr c. Proof. reflexivity. Qed.
Lemma cc_stateClosed_ccu_hdrStatus (c : cconn hstate) v : cc_stateClosed (ccu_hdrStatus c v) = cc_stateClosed c. Proof. reflexivity. Qed.
Lemma cc_closeRef_ccu_hdrStatus (c : cconn hstate) v : cc_closeRef (ccu_hdrStatus c v) = cc_closeRef c. Proof. reflexivity. Qed.
Lemma cc_reqQueued_ccu_hdrStatus (c : cconn hstate) v : cc_reqQueued (ccu_hdrStatus c v) = cc_reqQueued c. Proof. reflexivity. Qed.
Lemma cc_pending_ccu_hdrStatus (c : cconn hstate) v : cc_pending (ccu_hdrStatus c v) = cc_pending c. Proof. reflexivity. Qed.
Lemma cc_connWindow_ccu_hdrStatus (c : cconn hstate) v : cc_connWindow (ccu_hdrStatus c v) = cc_connWindow c. Proof. reflexivity. Qed.
Lemma cc_streamWindow_ccu_hdrStatus (c : cconn hstate) v : cc_streamWindow (ccu_hdrStatus c v) = cc_streamWindow c. Proof. reflexivity. Qed.
Lemma cc_inQ_ccu_hdrStatus (c : cconn hstate) v : cc_inQ (ccu_hdrStatus c v) = cc_inQ c. Proof. reflexivity. Qed.
Lemma cc_outQ_ccu_hdrStatus (c : cconn hstate) v : cc_outQ (ccu_hdrStatus c v) = cc_outQ c. Proof. reflexivity. Qed.
Lemma cc_winCh_ccu_hdrStatus (c : cconn hstate) v : cc_winCh (ccu_hdrStatus c v) = cc_winCh c. Proof. reflexivity. Qed.
Lemma cc_lastErr_ccu_hdrStatus (c : cconn hstate) v : cc_lastErr (ccu_hdrStatus c v) = cc_lastErr c. Proof. reflexivity. Qed.
Lemma cc_unacks_ccu_hdrStatus (c : cconn hstate) v : cc_unacks (ccu_hdrStatus c v) = cc_unacks c. Proof. reflexivity. Qed.
Lemma cc_rl_done_ccu_hdrStatus (c : cconn hstate) v : cc_rl_done (ccu_hdrStatus c v) = cc_rl_done c. Proof. reflexivity. Qed.
Lemma cc_wl_done_ccu_hdrStatus (c : cconn hstate) v : cc_wl_done (ccu_hdrStatus c v) = cc_wl_done c. Proof. reflexivity. Qed.
Lemma cc_rl_stuck_ccu_hdrStatus (c : cconn hstate) v : cc_rl_stuck (ccu_hdrStatus c v) = cc_rl_stuck c. Proof. reflexivity. Qed.
Lemma cc_wl_stuck_ccu_hdrStatus (c : cconn hstate) v : cc_wl_stuck (ccu_hdrStatus c v) = cc_wl_stuck c. Proof. reflexivity. Qed.
Lemma cc_out_ccu_hdrStatus (c : cconn hstate) v : cc_out (ccu_hdrStatus c v) = cc_out c. Proof. reflexivity. Qed.
Lemma cc_ctxs_ccu_hdrErr (c : cconn hstate) v : cc_ctxs (ccu_hdrErr c v) = cc_ctxs c. Proof. reflexivity. Qed.
Lemma cc_nextID_ccu_hdrErr (c : cconn hstate) v : cc_nextID (ccu_hdrErr c v) = cc_nextID c. Proof. reflexivity. Qed.
Lemma cc_open_ccu_hdrErr (c : cconn hstate) v : cc_open (ccu_hdrErr c v) = cc_open c. Proof. reflexivity. Qed.
Lemma cc_maxStreams_ccu_hdrErr (c : cconn hstate) v : cc_maxStreams (ccu_hdrErr c v) = cc_maxStreams c. Proof. reflexivity. Qed.
Lemma cc_maxFrame_ccu_hdrErr (c : cconn hstate) v : cc_maxFrame (ccu_hdrErr c v) = cc_maxFrame c. Proof. reflexivity. Qed.
Lemma cc_goAway_ccu_hdrErr (c : cconn hstate) v : cc_goAway (ccu_hdrErr c v) = cc_goAway c. Proof. reflexivity. Qed.
Lemma cc_closed_ccu_hdrErr (c : cconn hstate) v : cc_closed (ccu_hdrErr c v) = cc_closed c. Proof. reflexivity. Qed.
Lemma cc_closing_ccu_hdrErr (c : cconn hstate) v : cc_closing (ccu_hdrErr c v) = cc_closing c. Proof. reflexivity. Qed.
Lemma cc_netClosed_ccu_hdrErr (c : cconn hstate) v : cc_netClosed (ccu_hdrErr c v) = cc_netClosed c. Proof. reflexivity. Qed.
Lemma cc_writeFail_ccu_hdrErr (c : cconn hstate) v : cc_writeFail (ccu_hdrErr c v) = cc_writeFail c. Proof. reflexivity. Qed.
Lemma cc_enc_ccu_hdrErr (c : cconn hstate) v : cc_enc (ccu_hdrErr c v) = cc_enc c. Proof. reflexivity. Qed.
Lemma cc_encTableSize_ccu_hdrErr (c : cconn hstate) v : cc_encTableSize (ccu_hdrErr c v) = cc_encTableSize c. Proof. reflexivity. Qed.
Lemma cc_encTableSeen_ccu_hdrErr (c : cconn hstate) v : cc_encTableSeen (ccu_hdrErr c v) = cc_encTableSeen c. Proof. reflexivity. Qed.
Lemma cc_dec_ccu_hdrErr (c : cconn hstate) v : cc_dec (ccu_hdrErr c v) = cc_dec c. Proof. reflexivity. Qed.
Lemma cc_currentWindow_ccu_hdrErr (c : cconn hstate) v : cc_currentWindow (ccu_hdrErr c v) = cc_currentWindow c. Proof. reflexivity. Qed.
Lemma cc_serverS_ccu_hdrErr (c : cconn hstate) v : cc_serverS (ccu_hdrErr c v) = cc_serverS c. Proof. reflexivity. Qed.
Lemma cc_hdrStream_ccu_hdrErr (c : cconn hstate) v : cc_hdrStream (ccu_hdrErr c v) = cc_hdrStream c. Proof. reflexivity. Qed.
Lemma cc_hdrPrev_ccu_hdrErr (c : cconn hstate) v : cc_hdrPrev (ccu_hdrErr c v) = cc_hdrPrev c. Proof. reflexivity. Qed.
Lemma cc_hdrFields_ccu_hdrErr (c : cconn hstate) v : cc_hdrFields (ccu_hdrErr c v) = cc_hdrFields c. Proof. reflexivity. Qed.
Lemma cc_hdrEndStream_ccu_hdrErr (c : cconn hstate) v : cc_hdrEndStream (ccu_hdrErr c v) = cc_hdrEndStream c. Proof. reflexivity. Qed.
Lemma cc_hdrRegularSeen_ccu_hdrErr (c : cconn hstate) v : cc_hdrRegularSeen (ccu_hdrErr c v) = cc_hdrRegularSeen c. Proof. reflexivity. Qed.
Lemma cc_hdrStatus_ccu_hdrErr (c : cconn hstate) v : cc_hdrStatus (ccu_hdrErr c v) = cc_hdrStatus c. Proof. reflexivity. Qed.
Lemma cc_hdrErr_ccu_hdrErr (c : cconn hstate) v : cc_hdrErr (ccu_hdrErr c v) = v. Proof. reflexivity. Qed.
Lemma cc_stateClosed_ccu_hdrErr (c : cconn hstate) v : cc_stateClosed (ccu_hdrErr c v) = cc_stateClosed c. Proof. reflexivity. Qed.
Lemma cc_closeRef_ccu_hdrErr (c : cconn hstate) v : cc_closeRef (ccu_hdrErr c v) = cc_closeRef c. Proof. reflexivity. Qed.
Lemma cc_reqQueued_ccu_hdrErr (c : cconn hstate) v : cc_reqQueued (ccu_hdrErr c v) = cc_reqQueued c. Proof. reflexivity. Qed.
Lemma cc_pending_ccu_hdrErr (c : cconn hstate) v : cc_pending (ccu_hdrErr c v) = cc_pending c. Proof. reflexivity. Qed.
Lemma cc_connWindow_ccu_hdrErr (c : cconn hstate) v : cc_connWindow (ccu_hdrErr c v) = cc_connWindow c. Proof. reflexivity. Qed.
Lemma cc_streamWindow_ccu_hdrErr (c : cconn hstate) v : cc_streamWindow (ccu_hdrErr c v) = cc_streamWindow c. Proof. reflexivity. Qed.
Lemma cc_inQ_ccu_hdrErr (c : cconn hstate) v : cc_inQ (ccu_hdrErr c v) = cc_inQ c. Proof. reflexivity. Qed.
Lemma cc_outQ_ccu_hdrErr (c : cconn hstate) v : cc_outQ (ccu_hdrErr c v) = cc_outQ c. Proof. reflexivity. Qed.
Lemma cc_winCh_ccu_hdrErr (c : cconn hstate) v : cc_winCh (ccu_hdrErr c v) = cc_winCh c. Proof. reflexivity. Qed.
Lemma cc_lastErr_ccu_hdrErr (c : cconn hstate) v : cc_lastErr (ccu_hdrErr c v) = cc_lastErr c. Proof. reflexivity. Qed.
Lemma cc_unacks_ccu_hdrErr (c : cconn hstate) v : cc_unacks (ccu_hdrErr c v) = cc_unacks c. Proof. reflexivity. Qed.
Lemma cc_rl_done_ccu_hdrErr (c : cconn hstate) v : cc_rl_done (ccu_hdrErr c v) = cc_rl_done c. Proof. reflexivity. Qed.
Lemma cc_wl_done_ccu_hdrErr (c : cconn hstate) v : cc_wl_done (ccu_hdrErr c v) = cc_wl_done c. Proof. reflexivity. Qed.
Lemma cc_rl_stuck_ccu_hdrErr (c : cconn hstate) v : cc_rl_stuck (ccu_hdrErr c v) = cc_rl_stuck c. Proof. reflexivity. Qed.
Lemma cc_wl_stuck_ccu_hdrErr (c : cconn hstate) v : cc_wl_stuck (ccu_hdrErr c v) = cc_wl_stuck c. Proof. reflexivity. Qed.
Lemma cc_out_ccu_hdrErr (c : cconn hstate) v : cc_out (ccu_hdrErr c v) = cc_out c. Proof. reflexivity. Qed.
Lemma cc_ctxs_ccu_stateClosed (c : cconn hstate) v : cc_ctxs (ccu_stateClosed c v) = cc_ctxs c. Proof. reflexivity. Qed.
Lemma cc_nextID_ccu_stateClosed (c : cconn hstate) v : cc_nextID (ccu_stateClosed c v) = cc_nextID c. Proof. reflexivity. Qed.
Lemma cc_open_ccu_stateClosed (c : cconn hstate) v : cc_open (ccu_stateClosed c v) = cc_open c. Proof. reflexivity. Qed.
Lemma cc_maxStreams_ccu_stateClosed (c : cconn hstate) v : cc_maxStreams (ccu_stateClosed c v) = cc_maxStreams c. Proof. reflexivity. Qed.
Lemma cc_maxFrame_ccu_stateClosed (c : cconn hstate) v : cc_maxFrame (ccu_stateClosed c v) = cc_maxFrame c. Proof. reflexivity. Qed.
Lemma cc_goAway_ccu_stateClosed (c : cconn hstate) v : cc_goAway (ccu_stateClosed c v) = cc_goAway c. Proof. reflexivity. Qed.
Lemma cc_closed_ccu_stateClosed (c : cconn hstate) v : cc_closed (ccu_stateClosed c v) = cc_closed c. Proof. reflexivity. Qed.
Lemma cc_closing_ccu_stateClosed (c : cconn hstate) v : cc_closing (ccu_stateClosed c v) = cc_closing c. Proof. reflexivity. Qed.
Lemma cc_netClosed_ccu_stateClosed (c : cconn hstate) v : cc_netClosed (ccu_stateClosed c v) = cc_netClosed c. Proof. reflexivity. Qed.
Lemma cc_writeFail_ccu_stateClosed (c : cconn hstate) v : cc_writeFail (ccu_stateClosed c v) = cc_writeFail c. Proof. reflexivity. Qed.
Lemma cc_enc_ccu_stateClosed (c : cconn hstate) v : cc_enc (ccu_stateClosed c v) = cc_enc c. Proof. reflexivity. Qed.
Lemma cc_encTableSize_ccu_stateClosed (c : cconn hstate) v : cc_encTableSize (ccu_stateClosed c v) = cc_encTableSize c. Proof. reflexivity. Qed.
Lemma cc_encTableSeen_ccu_stateClosed (c : cconn hstate) v : cc_encTableSeen (ccu_stateClosed c v) = cc_encTableSeen c. Proof. reflexivity. Qed.
Lemma cc_dec_ccu_stateClosed (c : cconn hstate) v : cc_dec (ccu_stateClosed c v) = cc_dec c. Proof. reflexivity. Qed.
Lemma cc_currentWindow_ccu_stateClosed (c : cconn hstate) v : cc_currentWindow (ccu_stateClosed c v) = cc_currentWindow c. Proof. reflexivity. Qed.
Lemma cc_serverS_ccu_stateClosed (c : cconn hstate) v : cc_serverS (ccu_stateClosed c v) = cc_serverS c. Proof. reflexivity. Qed.
Lemma cc_hdrStream_ccu_stateClosed (c : cconn hstate) v : cc_hdrStream (ccu_stateClosed c v) = cc_hdrStream c. Proof. reflexivity. Qed.
Lemma cc_hdrPrev_ccu_stateClosed (c : cconn hstate) v : cc_hdrPrev (ccu_stateClosed c v) = cc_hdrPrev c. Proof. reflexivity. Qed.
Lemma cc_hdrFields_ccu_stateClosed (c : cconn hstate) v : cc_hdrFields (ccu_stateClosed c v) = cc_hdrFields c. Proof. reflexivity. Qed.
Lemma cc_hdrEndStream_ccu_stateClosed (c : cconn hstate) v : cc_hdrEndStream (ccu_stateClosed c v) = cc_hdrEndStream c. Proof. reflexivity. Qed.
Lemma cc_hdrRegularSeen_ccu_stateClosed (c : cconn hstate) v : cc_hdrRegularSeen (ccu_stateClosed c v) = cc_hdrRegularSeen c. Proof. reflexivity. Qed.
Lemma cc_hdrStatus_ccu_stateClosed (c : cconn hstate) v : cc_hdrStatus (ccu_stateClosed c v) = cc_hdrStatus c. Proof. reflexivity. Qed.
Lemma cc_hdrErr_ccu_stateClosed (c : cconn hstate) v : cc_hdrErr (ccu_stateClosed c v) = cc_hdrErr c. Proof. reflexivity. Qed.
Lemma cc_stateClosed_ccu_stateClosed (c : cconn hstate) v : cc_stateClosed (ccu_stateClosed c v) = v. Proof. reflexivity. Qed.
Lemma cc_closeRef_ccu_stateClosed (c : cconn hstate) v : cc_closeRef (ccu_stateClosed c v) = cc_closeRef c. Proof. reflexivity. Qed.
Lemma cc_reqQueued_ccu_stateClosed (c : cconn hstate) v : cc_reqQueued (ccu_stateClosed c v) = cc_reqQueued c. Proof. reflexivity. Qed.
Lemma cc_pending_ccu_stateClosed (c : cconn hstate) v : cc_pending (ccu_stateClosed c v) = cc_pending c. Proof. reflexivity. Qed.
Lemma cc_connWindow_ccu_stateClosed (c : cconn hstate) v : cc_connWindow (ccu_stateClosed c v) = cc_connWindow c. Proof. reflexivity. Qed.
Lemma cc_streamWindow_ccu_stateClosed (c : cconn hstate) v : cc_streamWindow (ccu_stateClosed c v) = cc_streamWindow c. Proof. reflexivity. Qed.
Lemma cc_inQ_ccu_stateClosed (c : cconn hstate) v : cc_inQ (ccu_stateClosed c v) = cc_inQ c. Proof. reflexivity. Qed.
Lemma cc_outQ_ccu_stateClosed (c : cconn hstate) v : cc_outQ (ccu_stateClosed c v) = cc_outQ c. Proof. reflexivity. Qed.
Lemma cc_winCh_ccu_stateClosed (c : cconn hstate) v : cc_winCh (ccu_stateClosed c v) = cc_winCh c. Proof. reflexivity. Qed.
Lemma cc_lastErr_ccu_stateClosed (c : cconn hstate) v : cc_lastErr (ccu_stateClosed c v) = cc_lastErr c. Proof. reflexivity. Qed.
Lemma cc_unacks_ccu_stateClosed (c : cconn hstate) v : cc_unacks (ccu_stateClosed c v) = cc_unacks c. Proof. reflexivity. Qed.
Lemma cc_rl_done_ccu_stateClosed (c : cconn hstate) v : cc_rl_done (ccu_stateClosed c v) = cc_rl_done c. Proof. reflexivity. Qed.
Lemma cc_wl_done_ccu_stateClosed (c : cconn hstate) v : cc_wl_done (ccu_stateClosed c v) = cc_wl_done c. Proof. reflexivity. Qed.
Lemma cc_rl_stuck_ccu_stateClosed (c : cconn hstate) v : cc_rl_stuck (ccu_stateClosed c v) = cc_rl_stuck c. Proof. reflexivity. Qed.
Lemma cc_wl_stuck_ccu_stateClosed (c : cconn hstate) v : cc_wl_stuck (ccu_stateClosed c v) = cc_wl_stuck c. Proof. reflexivity. Qed.
Lemma cc_out_ccu_stateClosed (c : cconn hstate) v : cc_out (ccu_stateClosed c v) = cc_out c. Proof. reflexivity. Qed.
Lemma cc_ctxs_ccu_closeRef (c : cconn hstate) v : cc_ctxs (ccu_closeRef c v) = cc_ctxs c. Proof. reflexivity. Qed.
Lemma cc_nextID_ccu_closeRef (c : cconn hstate) v : cc_nextID (ccu_closeRef c v) = cc_nextID c. Proof. reflexivity. Qed.
Lemma cc_open_ccu_closeRef (c : cconn hstate) v : cc_open (ccu_closeRef c v) = cc_open c. Proof. reflexivity. Qed.
Lemma cc_maxStreams_ccu_closeRef (c : cconn hstate) v : cc_maxStreams (ccu_closeRef c v) = cc_maxStreams c. Proof. reflexivity. Qed.
Lemma cc_maxFrame_ccu_closeRef (c : cconn hstate) v : cc_maxFrame (ccu_closeRef c v) = cc_maxFrame c. Proof. reflexivity. Qed.
Lemma cc_goAway_ccu_closeRef (c : cconn hstate) v : cc_goAway (ccu_closeRef c v) = cc_goAway c. Proof. reflexivity. Qed.
Lemma cc_closed_ccu_closeRef (c : cconn hstate) v : cc_closed (ccu_closeRef c v) = cc_closed c. Proof. reflexivity. Qed.
Lemma cc_closing_ccu_closeRef (c : cconn hstate) v : cc_closing (ccu_closeRef c v) = cc_closing c. Proof. reflexivity. Qed.
Lemma cc_netClosed_ccu_closeRef (c : cconn hstate) v : cc_netClosed (ccu_closeRef c v) = cc_netClosed c. Proof. reflexivity. Qed.
Lemma cc_writeFail_ccu_closeRef (c : cconn hstate) v : cc_writeFail (ccu_closeRef c v) = cc_writeFail c. Proof. reflexivity. Qed.
Lemma cc_enc_ccu_closeRef (c : cconn hstate) v : cc_enc (ccu_closeRef c v) = cc_enc c. Proof. reflexivity. Qed.
Lemma cc_encTableSize_ccu_closeRef (c : cconn hstate) v : cc_encTableSize (ccu_closeRef c v) = cc_encTableSize c. Proof. reflexivity. Qed.
Lemma cc_encTableSeen_ccu_closeRef (c : cconn hstate) v : cc_encTableSeen (ccu_closeRef c v) = cc_encTableSeen c. Proof. reflexivity. Qed.
Lemma cc_dec_ccu_closeRef (c : cconn hstate) v : cc_dec (ccu_closeRef c v) = cc_dec c. Proof. reflexivity. Qed.
Lemma cc_currentWindow_ccu_closeRef (c : cconn hstate) v : cc_currentWindow (ccu_closeRef c v) = cc_currentWindow c. Proof. reflexivity. Qed.
Lemma cc_serverS_ccu_closeRef (c : cconn hstate) v : cc_serverS (ccu_closeRef c v) = cc_serverS c. Proof. reflexivity. Qed.
Lemma cc_hdrStream_ccu_closeRef (c : cconn hstate) v : cc_hdrStream (ccu_closeRef c v) = cc_hdrStream c. Proof. reflexivity. Qed.
Lemma cc_hdrPrev_ccu_closeRef (c : cconn hstate) v : cc_hdrPrev (ccu_closeRef c v) = cc_hdrPrev c. Proof. reflexivity. Qed.
Lemma cc_hdrFields_ccu_closeRef (c : cconn hstate) v : cc_hdrFields (ccu_closeRef c v) = cc_hdrFields c. Proof. reflexivity. Qed.
Lemma cc_hdrEndStream_ccu_closeRef (c : cconn hstate) v : cc_hdrEndStream (ccu_closeRef c v) = cc_hdrEndStream c. Proof. reflexivity. Qed.
Lemma cc_hdrRegularSeen_ccu_closeRef (c : cconn hstate) v : cc_hdrRegularSeen (ccu_closeRef c v) = cc_hdrRegularSeen c. Proof. reflexivity. Qed.
Lemma cc_hdrStatus_ccu_closeRef (c : cconn hstate) v : cc_hdrStatus (ccu_closeRef c v) = cc_hdrStatus c. Proof. reflexivity. Qed.
Lemma cc_hdrErr_ccu_closeRef (c : cconn hstate) v : cc_hdrErr (ccu_closeRef c v) = cc_hdrErr c. Proof. reflexivity. Qed.
Lemma cc_stateClosed_ccu_closeRef (c : cconn hstate) v : cc_stateClosed (ccu_closeRef c v) = cc_stateClosed c. Proof. reflexivity. Qed.
Lemma cc_closeRef_ccu_closeRef (c : cconn hstate) v : cc_closeRef (ccu_closeRef c v) = v. Proof. reflexivity. Qed.
Lemma cc_reqQueued_ccu_closeRef (c : cconn hstate) v : cc_reqQueued (ccu_closeRef c v) = cc_reqQueued c. Proof. reflexivity. Qed.
Lemma cc_pending_ccu_closeRef (c : cconn hstate) v : cc_pending (ccu_closeRef c v) = cc_pending c. Proof. reflexivity. Qed.
Lemma cc_connWindow_ccu_closeRef (c : cconn hstate) v : cc_connWindow (ccu_closeRef c v) = cc_connWindow c. Proof. reflexivity. Qed.
Lemma cc_streamWindow_ccu_closeRef (c : cconn hstate) v : cc_streamWindow (ccu_closeRef c v) = cc_streamWindow c. Proof. reflexivity. Qed.
Lemma cc_inQ_ccu_closeRef (c : cconn hstate) v : cc_inQ (ccu_closeRef c v) = cc_inQ c. Proof. reflexivity. Qed.
Lemma cc_outQ_ccu_closeRef (c : cconn hstate) v : cc_outQ (ccu_closeRef c v) = cc_outQ c. Proof. reflexivity. Qed.
Lemma cc_winCh_ccu_closeRef (c : cconn hstate) v : cc_winCh (ccu_closeRef c v) = cc_winCh c. Proof. reflexivity. Qed.
Lemma cc_lastErr_ccu_closeRef (c : cconn hstate) v : cc_lastErr (ccu_closeRef c v) = cc_lastErr c. Proof. reflexivity. Qed.
Lemma cc_unacks_ccu_closeRef (c : cconn hstate) v : cc_unacks (ccu_closeRef c v) = cc_unacks c. Proof. reflexivity. Qed.
Lemma cc_rl_done_ccu_closeRef (c : cconn hstate) v : cc_rl_done (ccu_closeRef c v) = cc_rl_done c. Proof. reflexivity. Qed.
Lemma cc_wl_done_ccu_closeRef (c : cconn hstate) v : cc_wl_done (ccu_closeRef c v) = cc_wl_done c. Proof. reflexivity. Qed.
Lemma cc_rl_stuck_ccu_closeRef (c : cconn hstate) v : cc_rl_stuck (ccu_closeRef c v) = cc_rl_stuck c. Proof. reflexivity. Qed.
Lemma cc_wl_stuck_ccu_closeRef (c : cconn hstate) v : cc_wl_stuck (ccu_closeRef c v) = cc_wl_stuck c. Proof. reflexivity. Qed.
Lemma cc_out_ccu_closeRef (c : cconn hstate) v : cc_out (ccu_closeRef c v) = cc_out c. Proof. reflexivity. Qed.
Lemma cc_ctxs_ccu_reqQueued (c : cconn hstate) v : cc_ctxs (ccu_reqQueued c v) = cc_ctxs c. Proof. reflexivity. Qed.
Lemma cc_nextID_ccu_reqQueued (c : cconn hstate) v : cc_nextID (ccu_reqQueued c v) = cc_nextID c. Proof. reflexivity. Qed.
Lemma cc_open_ccu_reqQueued (c : cconn hstate) v : cc_open (ccu_reqQueued c v) = cc_open c. Proof. reflexivity. Qed.
Lemma cc_maxStreams_ccu_reqQueued (c : cconn hstate) v : cc_maxStreams (ccu_reqQueued c v) = cc_maxStreams c. Proof. reflexivity. Qed.
Lemma cc_maxFrame_ccu_reqQueued (c : cconn hstate) v : cc_maxFrame (ccu_reqQueued c v) = cc_maxFrame c. Proof. reflexivity. Qed.
Lemma cc_goAway_ccu_reqQueued (c : cconn hstate) v : cc_goAway (ccu_reqQueued c v) = cc_goAway c. Proof. reflexivity. Qed.
Lemma cc_closed_ccu_reqQueued (c : cconn hstate) v : cc_closed (ccu_reqQueued c v) = cc_closed c. Proof. reflexivity. Qed.
Lemma cc_closing_ccu_reqQueued (c : cconn hstate) v : cc_closing (ccu_reqQueued c v) = cc_closing c. Proof. reflexivity. Qed.
Lemma cc_netClosed_ccu_reqQueued (c : cconn hstate) v : cc_netClosed (ccu_reqQueued c v) = cc_netClosed c. Proof. reflexivity. Qed.
Lemma cc_writeFail_ccu_reqQueued (c : cconn hstate) v : cc_writeFail (ccu_reqQueued c v) = cc_writeFail c. Proof. reflexivity. Qed.
Lemma cc_enc_ccu_reqQueued (c : cconn hstate) v : cc_enc (ccu_reqQueued c v) = cc_enc c. Proof. reflexivity. Qed.
Lemma cc_encTableSize_ccu_reqQueued (c : cconn hstate) v : cc_encTableSize (ccu_reqQueued c v) = cc_encTableSize c. Proof. reflexivity. Qed.
Lemma cc_encTableSeen_ccu_reqQueued (c : cconn hstate) v : cc_encTableSeen (ccu_reqQueued c v) = cc_encTableSeen c. Proof. reflexivity. Qed.
Lemma cc_dec_ccu_reqQueued (c : cconn hstate) v : cc_dec (ccu_reqQueued c v) = cc_dec c. Proof. reflexivity. Qed.
Lemma cc_currentWindow_ccu_reqQueued (c : cconn hstate) v : cc_currentWindow (ccu_reqQueued c v) = cc_currentWindow c. Proof. reflexivity. Qed.
Lemma cc_serverS_ccu_reqQueued (c : cconn hstate) v : cc_serverS (ccu_reqQueued c v) = cc_serverS c. Proof. reflexivity. Qed.
Lemma cc_hdrStream_ccu_reqQueued (c : cconn hstate) v : cc_hdrStream (ccu_reqQueued c v) = cc_hdrStream c. Proof. reflexivity. Qed.
Lemma cc_hdrPrev_ccu_reqQueued (c : cconn hstate) v : cc_hdrPrev (ccu_reqQueued c v) = cc_hdrPrev c. Proof. reflexivity. Qed.
Lemma cc_hdrFields_ccu_reqQueued (c : cconn hstate) v : cc_hdrFields (ccu_reqQueued c v) = cc_hdrFields c. Proof. reflexivity. Qed.
Lemma cc_hdrEndStream_ccu_reqQueued (c : cconn hstate) v : cc_hdrEndStream (ccu_reqQueued c v) = cc_hdrEndStream c. Proof. reflexivity. Qed.
Lemma cc_hdrRegularSeen_ccu_reqQueued (c : cconn hstate) v : cc_hdrRegularSeen (ccu_reqQueued c v) = cc_hdrRegularSeen c. Proof. reflexivity. Qed.
Lemma cc_hdrStatus_ccu_reqQueued (c : cconn hstate) v : cc_hdrStatus (ccu_reqQueued c v) = cc_hdrStatus c. Proof. reflexivity. Qed.
Lemma cc_hdrErr_ccu_reqQueued (c : cconn hstate) v : cc_hdrErr (ccu_reqQueued c v) = cc_hdrErr c. Proof. reflexivity. Qed.
Lemma cc_stateClosed_ccu_reqQueued (c : cconn hstate) v : cc_stateClosed (ccu_reqQueued c v) = cc_stateClosed c. Proof. reflexivity. Qed.
Lemma cc_closeRef_ccu_reqQueued (c : cconn hstate) v : cc_closeRef (ccu_reqQueued c v) = cc_closeRef c. Proof. reflexivity. Qed.
Lemma cc_reqQueued_ccu_reqQueued (c : cconn hstate) v : cc_reqQueued (ccu_reqQueued c v) = v. Proof. reflexivity. Qed.
Lemma cc_pending_ccu_reqQueued (c : cconn hstate) v : cc_pending (ccu_reqQueued c v) = cc_pending c. Proof. reflexivity. Qed.
Lemma cc_connWindow_ccu_reqQueued (c : cconn hstate) v : cc_connWindow (ccu_reqQueued c v) = cc_connWindow c. Proof. reflexivity. Qed.
Lemma cc_streamWindow_ccu_reqQueued (c : cconn hstate) v : cc_streamWindow (ccu_reqQueued c v) = cc_streamWindow c. Proof. reflexivity. Qed.
Lemma cc_inQ_ccu_reqQueued (c : cconn hstate) v : cc_inQ (ccu_reqQueued c v) = cc_inQ c. Proof. reflexivity. Qed.
Lemma cc_outQ_ccu_reqQueued (c : cconn hstate) v : cc_outQ (ccu_reqQueued c v) = cc_outQ c. Proof. reflexivity. Qed.
Lemma cc_winCh_ccu_reqQueued (c : cconn hstate) v : cc_winCh (ccu_reqQueued c v) = cc_winCh c. Proof. reflexivity. Qed.
Lemma cc_lastErr_ccu_reqQueued (c : cconn hstate) v : cc_lastErr (ccu_reqQueued c v) = cc_lastErr c. Proof. reflexivity. Qed.
Lemma cc_unacks_ccu_reqQueued (c : cconn hstate) v : cc_unacks (ccu_reqQueued c v) = cc_unacks c. Proof. reflexivity. Qed.
Lemma cc_rl_done_ccu_reqQueued (c : cconn hstate) v : cc_rl_done (ccu_reqQueued c v) = cc_rl_done c. Proof. reflexivity. Qed.
Lemma cc_wl_done_ccu_reqQueued (c : cconn hstate) v : cc_wl_done (ccu_reqQueued c v) = cc_wl_done c. Proof. reflexivity. Qed.
Lemma cc_rl_stuck_ccu_reqQueued (c : cconn hstate) v : cc_rl_stuck (ccu_reqQueued c v) = cc_rl_stuck c. Proof. reflexivity. Qed.
Lemma cc_wl_stuck_ccu_reqQueued (c : cconn hstate) v : cc_wl_stuck (ccu_reqQueued c v) = cc_wl_stuck c. Proof. reflexivity. Qed.
Lemma cc_out_ccu_reqQueued (c : cconn hstate) v : cc_out (ccu_reqQueued c v) = cc_out c. Proof. reflexivity. Qed.
Lemma cc_ctxs_ccu_pending (c : cconn hstate) v : cc_ctxs (ccu_pending c v) = cc_ctxs c. Proof. reflexivity. Qed.
Lemma cc_nextID_ccu_pending (c : cconn hstate) v : cc_nextID (ccu_pending c v) = cc_nextID c. Proof. reflexivity. Qed.
Lemma cc_open_ccu_pending (c : cconn hstate) v : cc_open (ccu_pending c v) = cc_open c. Proof. reflexivity. Qed.
Lemma cc_maxStreams_ccu_pending (c : cconn hstate) v : cc_maxStreams (ccu_pending c v) = cc_maxStreams c. Proof. reflexivity. Qed.
Lemma cc_maxFrame_ccu_pending (c : cconn hstate) v : cc_maxFrame (ccu_pending c v) = cc_maxFrame c. Proof. reflexivity. Qed.
Lemma cc_goAway_ccu_pending (c : cconn hstate) v : cc_goAway (ccu_pending c v) = cc_goAway c. Proof. reflexivity. Qed.
Lemma cc_closed_ccu_pending (c : cconn hstate) v : cc_closed (ccu_pending c v) = cc_closed c. Proof. reflexivity. Qed.
Lemma cc_closing_ccu_pending (c : cconn hstate) v : cc_closing (ccu_pending c v) = cc_closing c. Proof. reflexivity. Qed.
Lemma cc_netClosed_ccu_pending (c : cconn hstate) v : cc_netClosed (ccu_pending c v) = cc_netClosed c. Proof. reflexivity. Qed.
Lemma cc_writeFail_ccu_pending (c : cconn hstate) v : cc_writeFail (ccu_pending c v) = cc_writeFail c. Proof. reflexivity. Qed.
Lemma cc_enc_ccu_pending (c : cconn hstate) v : cc_enc (ccu_pending c v) = cc_enc c. Proof. reflexivity. Qed.
Lemma cc_encTableSize_ccu_pending (c : cconn hstate) v : cc_encTableSize (ccu_pending c v) = cc_encTableSize c. Proof. reflexivity. Qed.
Lemma cc_encTableSeen_ccu_pending (c : cconn hstate) v : cc_encTableSeen (ccu_pending c v) = cc_encTableSeen c. Proof. reflexivity. Qed.
Lemma cc_dec_ccu_pending (c : cconn hstate) v : cc_dec (ccu_pending c v) = cc_dec c. Proof. reflexivity. Qed.
Lemma cc_currentWindow_ccu_pending (c : cconn hstate) v : cc_currentWindow (ccu_pending c v) = cc_currentWindow c. Proof. reflexivity. Qed.
Lemma cc_serverS_ccu_pending (c : cconn hstate) v : cc_serverS (ccu_pending c v) = cc_serverS c. Proof. reflexivity. Qed.
Lemma cc_hdrStream_ccu_pending (c : cconn hstate) v : cc_hdrStream (ccu_pending c v) = cc_hdrStream c. Proof. reflexivity. Qed.
Lemma cc_hdrPrev_ccu_pending (c : cconn hstate) v : cc_hdrPrev (ccu_pending c v) = cc_hdrPrev c. Proof. reflexivity. Qed.
Lemma cc_hdrFields_ccu_pending (c : cconn hstate) v : cc_hdrFields (ccu_pending c v) = cc_hdrFields c. Proof. reflexivity. Qed.
Lemma cc_hdrEndStream_ccu_pending (c : cconn hstate) v : cc_hdrEndStream (ccu_pending c v) = cc_hdrEndStream c. Proof. reflexivity. Qed.
Lemma cc_hdrRegularSeen_ccu_pending (c : cconn hstate) v : cc_hdrRegularSeen (ccu_pending c v) = cc_hdrRegularSeen c. Proof. reflexivity. Qed.
Lemma cc_hdrStatus_ccu_pending (c : cconn hstate) v : cc_hdrStatus (ccu_pending c v) = cc_hdrStatus c. Proof. reflexivity. Qed.
Lemma cc_hdrErr_ccu_pending (c : cconn hstate) v : cc_hdrErr (ccu_pending c v) = cc_hdrErr c. Proof. reflexivity. Qed.
Lemma cc_stateClosed_ccu_pending (c : cconn hstate) v : cc_stateClosed (ccu_pending c v) = cc_stateClosed c. Proof. reflexivity. Qed.
Lemma cc_closeRef_ccu_pending (c : cconn hstate) v : cc_closeRef (ccu_pending c v) = cc_closeRef c. Proof. reflexivity. Qed.
Lemma cc_reqQueued_ccu_pending (c : cconn hstate) v : cc_reqQueued (ccu_pending c v) = cc_reqQueued c. Proof. reflexivity. Qed.
Lemma cc_pending_ccu_pending (c : cconn hstate) v : cc_pending (ccu_pending c v) = v. Proof. reflexivity. Qed.
Lemma cc_connWindow_ccu_pending (c : cconn hstate) v : cc_connWindow (ccu_pending c v) = cc_connWindow c. Proof. reflexivity. Qed.
Lemma cc_streamWindow_ccu_pending (c : cconn hstate) v : cc_streamWindow (ccu_pending c v) = cc_streamWindow c. Proof. reflexivity. Qed.
Lemma cc_inQ_ccu_pending (c : cconn hstate) v : cc_inQ (ccu_pending c v) = cc_inQ c. Proof. reflexivity. Qed.
Lemma cc_outQ_ccu_pending (c : cconn hstate) v : cc_outQ (ccu_pending c v) = cc_outQ c. Proof. reflexivity. Qed.
Lemma cc_winCh_ccu_pending (c : cconn hstate) v : cc_winCh (ccu_pending c v) = cc_winCh c. Proof. reflexivity. Qed.
Lemma cc_lastErr_ccu_pending (c : cconn hstate) v : cc_lastErr (ccu_pending c v) = cc_lastErr c. Proof. reflexivity. Qed.
Lemma cc_unacks_ccu_pending (c : cconn hstate) v : cc_unacks (ccu_pending c v) = cc_unacks c. Proof. reflexivity. Qed.
Lemma cc_rl_done_ccu_pending (c : cconn hstate) v : cc_rl_done (ccu_pending c v) = cc_rl_done c. Proof. reflexivity. Qed.
Lemma cc_wl_done_ccu_pending (c : cconn hstate) v : cc_wl_done (ccu_pending c v) = cc_wl_done c. Proof. reflexivity. Qed.
Lemma cc_rl_stuck_ccu_pending (c : cconn hstate) v : cc_rl_stuck (ccu_pending c v) = cc_rl_stuck c. Proof. reflexivity. Qed.
Lemma cc_wl_stuck_ccu_pending (c : cconn hstate) v : cc_wl_stuck (ccu_pending c v) = cc_wl_stuck c. Proof. reflexivity. Qed.
Lemma cc_out_ccu_pending (c : cconn hstate) v : cc_out (ccu_pending c v) = cc_out c. Proof. reflexivity. Qed.
Lemma cc_ctxs_ccu_connWindow (c : cconn hstate) v : cc_ctxs (ccu_connWindow c v) = cc_ctxs c. Proof. reflexivity. Qed.
Lemma cc_nextID_ccu_connWindow (c : cconn hstate) v : cc_nextID (ccu_connWindow c v) = cc_nextID c. Proof. reflexivity. Qed.
Lemma cc_open_ccu_connWindow (c : cconn hstate) v : cc_open (ccu_connWindow c v) = cc_open c. Proof. reflexivity. Qed.
Lemma cc_maxStreams_ccu_connWindow (c : cconn hstate) v : cc_maxStreams (ccu_connWindow c v) = cc_maxStreams c. Proof. reflexivity. Qed.
Lemma cc_maxFrame_ccu_connWindow (c : cconn hstate) v : cc_maxFrame (ccu_connWindow c v) = cc_maxFrame c. Proof. reflexivity. Qed.
Lemma cc_goAway_ccu_connWindow (c : cconn hstate) v : cc_goAway (ccu_connWindow c v) = cc_goAway c. Proof. reflexivity. Qed.
Lemma cc_closed_ccu_connWindow (c : cconn hstate) v : cc_closed (ccu_connWindow c v) = cc_closed c. Proof. reflexivity. Qed.
Lemma cc_closing_ccu_connWindow (c : cconn hstate) v : cc_closing (ccu_connWindow c v) = cc_closing c. Proof. reflexivity. Qed.
Lemma cc_netClosed_ccu_connWindow (c : cconn hstate) v : cc_netClosed (ccu_connWindow c v) = cc_netClosed c. Proof. reflexivity. Qed.
Lemma cc_writeFail_ccu_connWindow (c : cconn hstate) v : cc_writeFail (ccu_connWindow c v) = cc_writeFail c. Proof. reflexivity. Qed.
Lemma cc_enc_ccu_connWindow (c : cconn hstate) v : cc_enc (ccu_connWindow c v) = cc_enc c. Proof. reflexivity. Qed.
Lemma cc_encTableSize_ccu_connWindow (c : cconn hstate) v : cc_encTableSize (ccu_connWindow c v) = cc_encTableSize c. Proof. reflexivity. Qed.
Lemma cc_encTableSeen_ccu_connWindow (c : cconn hstate) v : cc_encTableSeen (ccu_connWindow c v) = cc_encTableSeen c. Proof. reflexivity. Qed.
Lemma cc_dec_ccu_connWindow (c : cconn hstate) v : cc_dec (ccu_connWindow c v) = cc_dec c. Proof. reflexivity. Qed.
Lemma cc_currentWindow_ccu_connWindow (c : cconn hstate) v : cc_currentWindow (ccu_connWindow c v) = cc_currentWindow c. Proof. reflexivity. Qed.
Lemma cc_serverS_ccu_connWindow (c : cconn hstate) v : cc_serverS (ccu_connWindow c v) = cc_serverS c. Proof. reflexivity. Qed.
Lemma cc_hdrStream_ccu_connWindow (c : cconn hstate) v : cc_hdrStream (ccu_connWindow c v) = cc_hdrStream c. Proof. reflexivity. Qed.
Lemma cc_hdrPrev_ccu_connWindow (c : cconn hstate) v : cc_hdrPrev (ccu_connWindow c v) = cc_hdrPrev c. Proof. reflexivity. Qed.
Lemma cc_hdrFields_ccu_connWindow (c : cconn hstate) v : cc_hdrFields (ccu_connWindow c v) = cc_hdrFields c. Proof. reflexivity. Qed.
Lemma cc_hdrEndStream_ccu_connWindow (c : cconn hstate) v : cc_hdrEndStream (ccu_connWindow c v) = cc_hdrEndStream c. Proof. reflexivity. Qed.
Lemma cc_hdrRegularSeen_ccu_connWindow (c : cconn hstate) v : cc_hdrRegularSeen (ccu_connWindow c v) = cc_hdrRegularSeen c. Proof. reflexivity. Qed.
Lemma cc_hdrStatus_ccu_connWindow (c : cconn hstate) v : cc_hdrStatus (ccu_connWindow c v) = cc_hdrStatus c. Proof. reflexivity. Qed.
Lemma cc_hdrErr_ccu_connWindow (c : cconn hstate) v : cc_hdrErr (ccu_connWindow c v) = cc_hdrErr c. Proof. reflexivity. Qed.
Lemma cc_stateClosed_ccu_connWindow (c : cconn hstate) v : cc_stateClosed (ccu_connWindow c v) = cc_stateClosed c. Proof. reflexivity. Qed.
Lemma cc_closeRef_ccu_connWindow (c : cconn hstate) v : cc_closeRef (ccu_connWindow c v) = cc_closeRef c. Proof. reflexivity. Qed.
Lemma cc_reqQueued_ccu_connWindow (c : cconn hstate) v : cc_reqQueued (ccu_connWindow c v) = cc_reqQueued c. Proof. reflexivity. Qed.
Lemma cc_pending_ccu_connWindow (c : cconn hstate) v : cc_pending (ccu_connWindow c v) = cc_pending c. Proof. reflexivity. Qed.
Lemma cc_connWindow_ccu_connWindow (c : cconn hstate) v : cc_connWindow (ccu_connWindow c v) = v. Proof. reflexivity. Qed.
Lemma cc_streamWindow_ccu_connWindow (c : cconn hstate) v : cc_streamWindow (ccu_connWindow c v) = cc_streamWindow c. Proof. reflexivity. Qed.
Lemma cc_inQ_ccu_connWindow (c : cconn hstate) v : cc_inQ (ccu_connWindow c v) = cc_inQ c. Proof. reflexivity. Qed.
Lemma cc_outQ_ccu_connWindow (c : cconn hstate) v : cc_outQ (ccu_connWindow c v) = cc_outQ c. Proof. reflexivity. Qed.
Lemma cc_winCh_ccu_connWindow (c : cconn hstate) v : cc_winCh (ccu_connWindow c v) = cc_winCh c. Proof. reflexivity. Qed.
Lemma cc_lastErr_ccu_connWindow (c : cconn hstate) v : cc_lastErr (ccu_connWindow c v) = cc_lastErr c. Proof. reflexivity. Qed.
Lemma cc_unacks_ccu_connWindow (c : cconn hstate) v : cc_unacks (ccu_connWindow c v) = cc_unacks c. Proof. reflexivity. Qed.
Lemma cc_rl_done_ccu_connWindow (c : cconn hstate) v : cc_rl_done (ccu_connWindow c v) = cc_rl_done c. Proof. reflexivity. Qed.
Lemma cc_wl_done_ccu_connWindow (c : cconn hstate) v : cc_wl_done (ccu_connWindow c v) = cc_wl_done c. Proof. reflexivity. Qed.
Lemma cc_rl_stuck_ccu_connWindow (c : cconn hstate) v : cc_rl_stuck (ccu_connWindow c v) = cc_rl_stuck c. Proof. reflexivity. Qed.
Lemma cc_wl_stuck_ccu_connWindow (c : cconn hstate) v : cc_wl_stuck (ccu_connWindow c v) = cc_wl_stuck c. Proof. reflexivity. Qed.
Lemma cc_out_ccu_connWindow (c : cconn hstate) v : cc_out (ccu_connWindow c v) = cc_out c. Proof. reflexivity. Qed.
Lemma cc_ctxs_ccu_streamWindow (c : cconn hstate) v : cc_ctxs (ccu_streamWindow c v) = cc_ctxs c. Proof. reflexivity. Qed.
Lemma cc_nextID_ccu_streamWindow (c : cconn hstate) v : cc_nextID (ccu_streamWindow c v) = cc_nextID c. Proof. reflexivity. Qed.
Lemma cc_open_ccu_streamWindow (c : cconn hstate) v : cc_open (ccu_streamWindow c v) = cc_open c. Proof. reflexivity. Qed.
Lemma cc_maxStreams_ccu_streamWindow (c : cconn hstate) v : cc_maxStreams (ccu_streamWindow c v) = cc_maxStreams c. Proof. reflexivity. Qed.
Lemma cc_maxFrame_ccu_streamWindow (c : cconn hstate) v : cc_maxFrame (ccu_streamWindow c v) = cc_maxFrame c. Proof. reflexivity. Qed.
Lemma cc_goAway_ccu_streamWindow (c : cconn hstate) v : cc_goAway (ccu_streamWindow c v) = cc_goAway c. Proof. reflexivity. Qed.
Lemma cc_closed_ccu_streamWindow (c : cconn hstate) v : cc_closed (ccu_streamWindow c v) = cc_closed c. Proof. reflexivity. Qed.
Lemma cc_closing_ccu_streamWindow (c : cconn hstate) v : cc_closing (ccu_streamWindow c v) = cc_closing c. Proof. reflexivity. Qed.
Lemma cc_netClosed_ccu_streamWindow (c : cconn hstate) v : cc_netClosed (ccu_streamWindow c v) = cc_netClosed c. Proof. reflexivity. Qed.
Lemma cc_writeFail_ccu_streamWindow (c : cconn hstate) v : cc_writeFail (ccu_streamWindow c v) = cc_writeFail c. Proof. reflexivity. Qed.
Lemma cc_enc_ccu_streamWindow (c : cconn hstate) v : cc_enc (ccu_streamWindow c v) = cc_enc c. Proof. reflexivity. Qed.
Lemma cc_encTableSize_ccu_streamWindow (c : cconn hstate) v : cc_encTableSize (ccu_streamWindow c v) = cc_encTableSize c. Proof. reflexivity. Qed.
Lemma cc_encTableSeen_ccu_streamWindow (c : cconn hstate) v : cc_encTableSeen (ccu_streamWindow c v) = cc_encTableSeen c. Proof. reflexivity. Qed.
Lemma cc_dec_ccu_streamWindow (c : cconn hstate) v : cc_dec (ccu_streamWindow c v) = cc_dec c. Proof. reflexivity. Qed.
Lemma cc_currentWindow_ccu_streamWindow (c : cconn hstate) v : cc_currentWindow (ccu_streamWindow c v) = cc_currentWindow c. Proof. reflexivity. Qed.
Lemma cc_serverS_ccu_streamWindow (c : cconn hstate) v : cc_serverS (ccu_streamWindow c v) = cc_serverS c. Proof. reflexivity. Qed.
Lemma cc_hdrStream_ccu_streamWindow (c : cconn hstate) v : cc_hdrStream (ccu_streamWindow c v) = cc_hdrStream c. Proof. reflexivity. Qed.
Lemma cc_hdrPrev_ccu_streamWindow (c : cconn hstate) v : cc_hdrPrev (ccu_streamWindow c v) = cc_hdrPrev c. Proof. reflexivity. Qed.
Lemma cc_hdrFields_ccu_streamWindow (c : cconn hstate) v : cc_hdrFields (ccu_streamWindow c v) = cc_hdrFields c. Proof. reflexivity. Qed.
Lemma cc_hdrEndStream_ccu_streamWindow (c : cconn hstate) v : cc_hdrEndStream (ccu_streamWindow c v) = cc_hdrEndStream c. Proof. reflexivity. Qed.
Lemma cc_hdrRegularSeen_ccu_streamWindow (c : cconn hstate) v : cc_hdrRegularSeen (ccu_streamWindow c v) = cc_hdrRegularSeen c. Proof. reflexivity. Qed.
Lemma cc_hdrStatus_ccu_streamWindow (c : cconn hstate) v : cc_hdrStatus (ccu_streamWindow c v) = cc_hdrStatus c. Proof. reflexivity. Qed.
Lemma cc_hdrErr_ccu_streamWindow (c : cconn hstate) v : cc_hdrErr (ccu_streamWindow c v) = cc_hdrErr c. Proof. reflexivity. Qed.
Lemma cc_stateClosed_ccu_streamWindow (c : cconn hstate) v : cc_stateClosed (ccu_streamWindow c v) = cc_stateClosed c. Proof. reflexivity. Qed.
Lemma cc_closeRef_ccu_streamWindow (c : cconn hstate) v : cc_closeRef (ccu_streamWindow c v) = cc_closeRef c. Proof. reflexivity. Qed.
Lemma cc_reqQueued_ccu_streamWindow (c : cconn hstate) v : cc_reqQueued (ccu_streamWindow c v) = cc_reqQueued c. Proof. reflexivity. Qed.
Lemma cc_pending_ccu_streamWindow (c : cconn hstate) v : cc_pending (ccu_streamWindow c v) = cc_pending c. Proof. reflexivity. Qed.
Lemma cc_connWindow_ccu_streamWindow (c : cconn hstate) v : cc_connWindow (ccu_streamWindow c v) = cc_connWindow c. Proof. reflexivity. Qed.
Lemma cc_streamWindow_ccu_streamWindow (c : cconn hstate) v : cc_streamWindow (ccu_streamWindow c v) = v. Proof. reflexivity. Qed.
Lemma cc_inQ_ccu_streamWindow (c : cconn hstate) v : cc_inQ (ccu_streamWindow c v) = cc_inQ c. Proof. reflexivity. Qed.
Lemma cc_outQ_ccu_streamWindow (c : cconn hstate) v : cc_outQ (ccu_streamWindow c v) = cc_outQ c. Proof. reflexivity. Qed.
Lemma cc_winCh_ccu_streamWindow (c : cconn hstate) v : cc_winCh (ccu_streamWindow c v) = cc_winCh c. Proof. reflexivity. Qed.
Lemma cc_lastErr_ccu_streamWindow (c : cconn hstate) v : cc_lastErr (ccu_streamWindow c v) = cc_lastErr c. Proof. reflexivity. Qed.
Lemma cc_unacks_ccu_streamWindow (c : cconn hstate) v : cc_unacks (ccu_streamWindow c v) = cc_unacks c. Proof. reflexivity. Qed.
Lemma cc_rl_done_ccu_streamWindow (c : cconn hstate) v : cc_rl_done (ccu_streamWindow c v) = cc_rl_done c. Proof. reflexivity. Qed.
Lemma cc_wl_done_ccu_streamWindow (c : cconn hstate) v : cc_wl_done (ccu_streamWindow c v) = cc_wl_done c. Proof. reflexivity. Qed.
Lemma cc_rl_stuck_ccu_streamWindow (c : cconn hstate) v : cc_rl_stuck (ccu_streamWindow c v) = cc_rl_stuck c. Proof. reflexivity. Qed.
Lemma cc_wl_stuck_ccu_streamWindow (c : cconn hstate) v : cc_wl_stuck (ccu_streamWindow c v) = cc_wl_stuck c. Proof. reflexivity. Qed.
Lemma cc_out_ccu_streamWindow (c : cconn hstate) v : cc_out (ccu_streamWindow c v) = cc_out c. Proof. reflexivity. Qed.
Lemma cc_ctxs_ccu_inQ (c : cconn hstate) v : cc_ctxs (ccu_inQ c v) = cc_ctxs c. Proof. reflexivity. Qed.
Lemma cc_nextID_ccu_inQ (c : cconn hstate) v : cc_nextID (ccu_inQ c v) = cc_nextID c. Proof. reflexivity. Qed.
Lemma cc_open_ccu_inQ (c : cconn hstate) v : cc_open (ccu_inQ c v) = cc_open c. Proof. reflexivity. Qed.
Lemma cc_maxStreams_ccu_inQ (c : cconn hstate) v : cc_maxStreams (ccu_inQ c v) = cc_maxStreams c. Proof. reflexivity. Qed.
Lemma cc_maxFrame_ccu_inQ (c : cconn hstate) v : cc_maxFrame (ccu_inQ c v) = cc_maxFrame c. Proof. reflexivity. Qed.
Lemma cc_goAway_ccu_inQ (c : cconn hstate) v : cc_goAway (ccu_inQ c v) = cc_goAway c. Proof. reflexivity. Qed.
Lemma cc_closed_ccu_inQ (c : cconn hstate) v : cc_closed (ccu_inQ c v) = cc_closed c. Proof. reflexivity. Qed.
Lemma cc_closing_ccu_inQ (c : cconn hstate) v : cc_closing (ccu_inQ c v) = cc_closing c. Proof. reflexivity. Qed.
Lemma cc_netClosed_ccu_inQ (c : cconn hstate) v : cc_netClosed (ccu_inQ c v) = cc_netClosed c. Proof. reflexivity. Qed.
Lemma cc_writeFail_ccu_inQ (c : cconn hstate) v : cc_writeFail (ccu_inQ c v) = cc_writeFail c. Proof. reflexivity. Qed.
Lemma cc_enc_ccu_inQ (c : cconn hstate) v : cc_enc (ccu_inQ c v) = cc_enc c. Proof. reflexivity. Qed.
Lemma cc_encTableSize_ccu_inQ (c : cconn hstate) v : cc_encTableSize (ccu_inQ c v) = cc_encTableSize c. Proof. reflexivity. Qed.
Lemma cc_encTableSeen_ccu_inQ (c : cconn hstate) v : cc_encTableSeen (ccu_inQ c v) = cc_encTableSeen c. Proof. reflexivity. Qed.
Lemma cc_dec_ccu_inQ (c : cconn hstate) v : cc_dec (ccu_inQ c v) = cc_dec c. Proof. reflexivity. Qed.
Lemma cc_currentWindow_ccu_inQ (c : cconn hstate) v : cc_currentWindow (ccu_inQ c v) = cc_currentWindow c. Proof. reflexivity. Qed.
Lemma cc_serverS_ccu_inQ (c : cconn hstate) v : cc_serverS (ccu_inQ c v) = cc_serverS c. Proof. reflexivity. Qed.
Lemma cc_hdrStream_ccu_inQ (c : cconn hstate) v : cc_hdrStream (ccu_inQ c v) = cc_hdrStream c. Proof. reflexivity. Qed.
Lemma cc_hdrPrev_ccu_inQ (c : cconn hstate) v : cc_hdrPrev (ccu_inQ c v) = cc_hdrPrev c. Proof. reflexivity. Qed.
Lemma cc_hdrFields_ccu_inQ (c : cconn hstate) v : cc_hdrFields (ccu_inQ c v) = cc_hdrFields c. Proof. reflexivity. Qed.
Lemma cc_hdrEndStream_ccu_inQ (c : cconn hstate) v : cc_hdrEndStream (ccu_inQ c v) = cc_hdrEndStream c. Proof. reflexivity. Qed.
Lemma cc_hdrRegularSeen_ccu_inQ (c : cconn hstate) v : cc_hdrRegularSeen (ccu_inQ c v) = cc_hdrRegularSeen c. Proof. reflexivity. Qed.
Lemma cc_hdrStatus_ccu_inQ (c : cconn hstate) v : cc_hdrStatus (ccu_inQ c v) = cc_hdrStatus c. Proof. reflexivity. Qed.
Lemma cc_hdrErr_ccu_inQ (c : cconn hstate) v : cc_hdrErr (ccu_inQ c v) = cc_hdrErr c. Proof. reflexivity. Qed.
Lemma cc_stateClosed_ccu_inQ (c : cconn hstate) v : cc_stateClosed (ccu_inQ c v) = cc_stateClosed c. Proof. reflexivity. Qed.
Lemma cc_closeRef_ccu_inQ (c : cconn hstate) v : cc_closeRef (ccu_inQ c v) = cc_closeRef c. Proof. reflexivity. Qed.
Lemma cc_reqQueued_ccu_inQ (c : cconn hstate) v : cc_reqQueued (ccu_inQ c v) = cc_reqQueued c. Proof. reflexivity. Qed.
Lemma cc_pending_ccu_inQ (c : cconn hstate) v : cc_pending (ccu_inQ c v) = cc_pending c. Proof. reflexivity. Qed.
Lemma cc_connWindow_ccu_inQ (c : cconn hstate) v : cc_connWindow (ccu_inQ c v) = cc_connWindow c. Proof. reflexivity. Qed.
Lemma cc_streamWindow_ccu_inQ (c : cconn hstate) v : cc_streamWindow (ccu_inQ c v) = cc_streamWindow c. Proof. reflexivity. Qed.
Lemma cc_inQ_ccu_inQ (c : cconn hstate) v : cc_inQ (ccu_inQ c v) = v. Proof. reflexivity. Qed.
Lemma cc_outQ_ccu_inQ (c : cconn hstate) v : cc_outQ (ccu_inQ c v) = cc_outQ c. Proof. reflexivity. Qed.
Lemma cc_winCh_ccu_inQ (c : cconn hstate) v : cc_winCh (ccu_inQ c v) = cc_winCh c. Proof. reflexivity. Qed.
Lemma cc_lastErr_ccu_inQ (c : cconn hstate) v : cc_lastErr (ccu_inQ c v) = cc_lastErr c. Proof. reflexivity. Qed.
Lemma cc_unacks_ccu_inQ (c : cconn hstate) v : cc_unacks (ccu_inQ c v) = cc_unacks c. Proof. reflexivity. Qed.
Lemma cc_rl_done_ccu_inQ (c : cconn hstate) v : cc_rl_done (ccu_inQ c v) = cc_rl_done c. Proof. reflexivity. Qed.
Lemma cc_wl_done_ccu_inQ (c : cconn hstate) v : cc_wl_done (ccu_inQ c v) = cc_wl_done c. Proof. reflexivity. Qed.
Lemma cc_rl_stuck_ccu_inQ (c : cconn hstate) v : cc_rl_stuck (ccu_inQ c v) = cc_rl_stuck c. Proof. reflexivity. Qed.
Lemma cc_wl_stuck_ccu_inQ (c : cconn hstate) v : cc_wl_stuck (ccu_inQ c v) = cc_wl_stuck c. Proof. reflexivity. Qed.
Lemma cc_out_ccu_inQ (c : cconn hstate) v : cc_out (ccu_inQ c v) = cc_out c. Proof. reflexivity. Qed.
Lemma cc_ctxs_ccu_outQ (c : cconn hstate) v : cc_ctxs (ccu_outQ c v) = cc_ctxs c. Proof. reflexivity. Qed.
Lemma cc_nextID_ccu_outQ (c : cconn hstate) v : cc_nextID (ccu_outQ c v) = cc_nextID c. Proof. reflexivity. Qed.
Lemma cc_open_ccu_outQ (c : cconn hstate) v : cc_open (ccu_outQ c v) = cc_open c. Proof. reflexivity. Qed.
Lemma cc_maxStreams_ccu_outQ (c : cconn hstate) v : cc_maxStreams (ccu_outQ c v) = cc_maxStreams c. Proof. reflexivity. Qed.
Lemma cc_maxFrame_ccu_outQ (c : cconn hstate) v : cc_maxFrame (ccu_outQ c v) = cc_maxFrame c. Proof. reflexivity. Qed.
Lemma cc_goAway_ccu_outQ (c : cconn hstate) v : cc_goAway (ccu_outQ c v) = cc_goAway c. Proof. reflexivity. Qed.
Lemma cc_closed_ccu_outQ (c : cconn hstate) v : cc_closed (ccu_outQ c v) = cc_closed c. Proof. reflexivity. Qed.
Lemma cc_closing_ccu_outQ (c : cconn hstate) v : cc_closing (ccu_outQ c v) = cc_closing c. Proof. reflexivity. Qed.
Lemma cc_netClosed_ccu_outQ (c : cconn hstate) v : cc_netClosed (ccu_outQ c v) = cc_netClosed c. Proof. reflexivity. Qed.
Lemma cc_writeFail_ccu_outQ (c : cconn hstate) v : cc_writeFail (ccu_outQ c v) = cc_writeFail c. Proof. reflexivity. Qed.
Lemma cc_enc_ccu_outQ (c : cconn hstate) v : cc_enc (ccu_outQ c v) = cc_enc c. Proof. reflexivity. Qed.
Lemma cc_encTableSize_ccu_outQ (c : cconn hstate) v : cc_encTableSize (ccu_outQ c v) = cc_encTableSize c. Proof. reflexivity. Qed.
Lemma cc_encTableSeen_ccu_outQ (c : cconn hstate) v : cc_encTableSeen (ccu_outQ c v) = cc_encTableSeen c. Proof. reflexivity. Qed.
Lemma cc_dec_ccu_outQ (c : cconn hstate) v : cc_dec (ccu_outQ c v) = cc_dec c. Proof. reflexivity. Qed.
Lemma cc_currentWindow_ccu_outQ (c : cconn hstate) v : cc_currentWindow (ccu_outQ c v) = cc_currentWindow c. Proof. reflexivity. Qed.
Lemma cc_serverS_ccu_outQ (c : cconn hstate) v : cc_serverS (ccu_outQ c v) = cc_serverS c. Proof. reflexivity. Qed.
Lemma cc_hdrStream_ccu_outQ (c : cconn hstate) v : cc_hdrStream (ccu_outQ c v) = cc_hdrStream c. Proof. reflexivity. Qed.
Lemma cc_hdrPrev_ccu_outQ (c : cconn hstate) v : cc_hdrPrev (ccu_outQ c v) = cc_hdrPrev c. Proof. reflexivity. Qed.
Lemma cc_hdrFields_ccu_outQ (c : cconn hstate) v : cc_hdrFields (ccu_outQ c v) = cc_hdrFields c. Proof. reflexivity. Qed.
Lemma cc_hdrEndStream_ccu_outQ (c : cconn hstate) v : cc_hdrEndStream (ccu_outQ c v) = cc_hdrEndStream c. Proof. reflexivity. Qed.
Lemma cc_hdrRegularSeen_ccu_outQ (c : cconn hstate) v : cc_hdrRegularSeen (ccu_outQ c v) = cc_hdrRegularSeen c. Proof. reflexivity. Qed.
Lemma cc_hdrStatus_ccu_outQ (c : cconn hstate) v : cc_hdrStatus (ccu_outQ c v) = cc_hdrStatus c. Proof. reflexivity. Qed.
Lemma cc_hdrErr_ccu_outQ (c : cconn hstate) v : cc_hdrErr (ccu_outQ c v) = cc_hdrErr c. Proof. reflexivity. Qed.
Lemma cc_stateClosed_ccu_outQ (c : cconn hstate) v : cc_stateClosed (ccu_outQ c v) = cc_stateClosed c. Proof. reflexivity. Qed.
Lemma cc_closeRef_ccu_outQ (c : cconn hstate) v : cc_closeRef (ccu_outQ c v) = cc_closeRef c. Proof. reflexivity. Qed.
Lemma cc_reqQueued_ccu_outQ (c : cconn hstate) v : cc_reqQueued (ccu_outQ c v) = cc_reqQueued c. Proof. reflexivity. Qed.
Lemma cc_pending_ccu_outQ (c : cconn hstate) v : cc_pending (ccu_outQ c v) = cc_pending c. Proof. reflexivity. Qed.
Lemma cc_connWindow_ccu_outQ (c : cconn hstate) v : cc_connWindow (ccu_outQ c v) = cc_connWindow c. Proof. reflexivity. Qed.
Lemma cc_streamWindow_ccu_outQ (c : cconn hstate) v : cc_streamWindow (ccu_outQ c v) = cc_streamWindow c. Proof. reflexivity. Qed.
Lemma cc_inQ_ccu_outQ (c : cconn hstate) v : cc_inQ (ccu_outQ c v) = cc_inQ c. Proof. reflexivity. Qed.
Lemma cc_outQ_ccu_outQ (c : cconn hstate) v : cc_outQ (ccu_outQ c v) = v. Proof. reflexivity. Qed.
Lemma cc_winCh_ccu_outQ (c : cconn hstate) v : cc_winCh (ccu_outQ c v) = cc_winCh c. Proof. reflexivity. Qed.
Lemma cc_lastErr_ccu_outQ (c : cconn hstate) v : cc_lastErr (ccu_outQ c v) = cc_lastErr c. Proof. reflexivity. Qed.
Lemma cc_unacks_ccu_outQ (c : cconn hstate) v : cc_unacks (ccu_outQ c v) = cc_unacks c. Proof. reflexivity. Qed.
Lemma cc_rl_done_ccu_outQ (c : cconn hstate) v : cc_rl_done (ccu_outQ c v) = cc_rl_done c. Proof. reflexivity. Qed.
Lemma cc_wl_done_ccu_outQ (c : cconn hstate) v : cc_wl_done (ccu_outQ c v) = cc_wl_done c. Proof. reflexivity. Qed.
Lemma cc_rl_stuck_ccu_outQ (c : cconn hstate) v : cc_rl_stuck (ccu_outQ c v) = cc_rl_stuck c. Proof. reflexivity. Qed.
Lemma cc_wl_stuck_ccu_outQ (c : cconn hstate) v : cc_wl_stuck (ccu_outQ c v) = cc_wl_stuck c. Proof. reflexivity. Qed.
Lemma cc_out_ccu_outQ (c : cconn hstate) v : cc_out (ccu_outQ c v) = cc_out c. Proof. reflexivity. Qed.
Lemma cc_ctxs_ccu_winCh (c : cconn hstate) v : cc_ctxs (ccu_winCh c v) = cc_ctxs c. Proof. reflexivity. Qed.
Lemma cc_nextID_ccu_winCh (c : cconn hstate) v : cc_nextID (ccu_winCh c v) = cc_nextID c. Proof. reflexivity. Qed.
Lemma cc_open_ccu_winCh (c : cconn hstate) v : cc_open (ccu_winCh c v) = cc_open c. Proof. reflexivity. Qed.
Lemma cc_maxStreams_ccu_winCh (c : cconn hstate) v : cc_maxStreams (ccu_winCh c v) = cc_maxStreams c. Proof. reflexivity. Qed.
Lemma cc_maxFrame_ccu_winCh (c : cconn hstate) v : cc_maxFrame (ccu_winCh c v) = cc_maxFrame c. Proof. reflexivity. Qed.
Lemma cc_goAway_ccu_winCh (c : cconn hstate) v : cc_goAway (ccu_winCh c v) = cc_goAway c. Proof. reflexivity. Qed.
Lemma cc_closed_ccu_winCh (c : cconn hstate) v : cc_closed (ccu_winCh c v) = cc_closed c. Proof. reflexivity. Qed.
Lemma cc_closing_ccu_winCh (c : cconn hstate) v : cc_closing (ccu_winCh c v) = cc_closing c. Proof. reflexivity. Qed.
Lemma cc_netClosed_ccu_winCh (c : cconn hstate) v : cc_netClosed (ccu_winCh c v) = cc_netClosed c. Proof. reflexivity. Qed.
Lemma cc_writeFail_ccu_winCh (c : cconn hstate) v : cc_writeFail (ccu_winCh c v) = cc_writeFail c. Proof. reflexivity. Qed.
Lemma cc_enc_ccu_winCh (c : cconn hstate) v : cc_enc (ccu_winCh c v) = cc_enc c. Proof. reflexivity. Qed.
Lemma cc_encTableSize_ccu_winCh (c : cconn hstate) v : cc_encTableSize (ccu_winCh c v) = cc_encTableSize c. Proof. reflexivity. Qed.
Lemma cc_encTableSeen_ccu_winCh (c : cconn hstate) v : cc_encTableSeen (ccu_winCh c v) = cc_encTableSeen c. Proof. reflexivity. Qed.
Lemma cc_dec_ccu_winCh (c : cconn hstate) v : cc_dec (ccu_winCh c v) = cc_dec c. Proof. reflexivity. Qed.
Lemma cc_currentWindow_ccu_winCh (c : cconn hstate) v : cc_currentWindow (ccu_winCh c v) = cc_currentWindow c. Proof. reflexivity. Qed.
Lemma cc_serverS_ccu_winCh (c : cconn hstate) v : cc_serverS (ccu_winCh c v) = cc_serverS c. Proof. reflexivity. Qed.
Lemma cc_hdrStream_ccu_winCh (c : cconn hstate) v : cc_hdrStream (ccu_winCh c v) = cc_hdrStream c. Proof. reflexivity. Qed.
Lemma cc_hdrPrev_ccu_winCh (c : cconn hstate) v : cc_hdrPrev (ccu_winCh c v) = cc_hdrPrev c. Proof. reflexivity. Qed.
Lemma cc_hdrFields_ccu_winCh (c : cconn hstate) v : cc_hdrFields (ccu_winCh c v) = cc_hdrFields c. Proof. reflexivity. Qed.
Lemma cc_hdrEndStream_ccu_winCh (c : cconn hstate) v : cc_hdrEndStream (ccu_winCh c v) = cc_hdrEndStream c. Proof. reflexivity. Qed.
Lemma cc_hdrRegularSeen_ccu_winCh (c : cconn hstate) v : cc_hdrRegularSeen (ccu_winCh c v) = cc_hdrRegularSeen c. Proof. reflexivity. Qed.
Lemma cc_hdrStatus_ccu_winCh (c : cconn hstate) v : cc_hdrStatus (ccu_winCh c v) = cc_hdrStatus c. Proof. reflexivity. Qed.
Lemma cc_hdrErr_ccu_winCh (c : cconn hstate) v : cc_hdrErr (ccu_winCh c v) = cc_hdrErr c. Proof. reflexivity. Qed.
Lemma cc_stateClosed_ccu_winCh (c : cconn hstate) v : cc_stateClosed (ccu_winCh c v) = cc_stateClosed c. Proof. reflexivity. Qed.
Lemma cc_closeRef_ccu_winCh (c : cconn hstate) v : cc_closeRef (ccu_winCh c v) = cc_closeRef c. Proof. reflexivity. Qed.
Lemma cc_reqQueued_ccu_winCh (c : cconn hstate) v : cc_reqQueued (ccu_winCh c v) = cc_reqQueued c. Proof. reflexivity. Qed.
Lemma cc_pending_ccu_winCh (c : cconn hstate) v : cc_pending (ccu_winCh c v) = cc_pending c. Proof. reflexivity. Qed.
Lemma cc_connWindow_ccu_winCh (c : cconn hstate) v : cc_connWindow (ccu_winCh c v) = cc_connWindow c. Proof. reflexivity. Qed.
Lemma cc_streamWindow_ccu_winCh (c : cconn hstate) v : cc_streamWindow (ccu_winCh c v) = cc_streamWindow c. Proof. reflexivity. Qed.
Lemma cc_inQ_ccu_winCh (c : cconn hstate) v : cc_inQ (ccu_winCh c v) = cc_inQ c. Proof. reflexivity. Qed.
Lemma cc_outQ_ccu_winCh (c : cconn hstate) v : cc_outQ (ccu_winCh c v) = cc_outQ c. Proof. reflexivity. Qed.
Lemma cc_winCh_ccu_winCh (c : cconn hstate) v : cc_winCh (ccu_winCh c v) = v. Proof. reflexivity. Qed.
Lemma cc_lastErr_ccu_winCh (c : cconn hstate) v : cc_lastErr (ccu_winCh c v) = cc_lastErr c. Proof. reflexivity. Qed.
Lemma cc_unacks_ccu_winCh (c : cconn hstate) v : cc_unacks (ccu_winCh c v) = cc_unacks c. Proof. reflexivity. Qed.
Lemma cc_rl_done_ccu_winCh (c : cconn hstate) v : cc_rl_done (ccu_winCh c v) = cc_rl_done c. Proof. reflexivity. Qed.
Lemma cc_wl_done_ccu_winCh (c : cconn hstate) v : cc_wl_done (ccu_winCh c v) = cc_wl_done c. Proof. reflexivity. Qed.
Lemma cc_rl_stuck_ccu_winCh (c : cconn hstate) v : cc_rl_stuck (ccu_winCh c v) = cc_rl_stuck c. Proof. reflexivity. Qed.
Lemma cc_wl_stuck_ccu_winCh (c : cconn hstate) v : cc_wl_stuck (ccu_winCh c v) = cc_wl_stuck c. Proof. reflexivity. Qed.
Lemma cc_out_ccu_winCh (c : cconn hstate) v : cc_out (ccu_winCh c v) = cc_out c. Proof. reflexivity. Qed.
Lemma cc_ctxs_ccu_lastErr (c : cconn hstate) v : cc_ctxs (ccu_lastErr c v) = cc_ctxs c. Proof. reflexivity. Qed.
Lemma cc_nextID_ccu_lastErr (c : cconn hstate) v : cc_nextID (ccu_lastErr c v) = cc_nextID c. Proof. reflexivity. Qed.
Lemma cc_open_ccu_lastErr (c : cconn hstate) v : cc_open (ccu_lastErr c v) = cc_open c. Proof. reflexivity. Qed.
Lemma cc_maxStreams_ccu_lastErr (c : cconn hstate) v : cc_maxStreams (ccu_lastErr c v) = cc_maxStreams c. Proof. reflexivity. Qed.
Lemma cc_maxFrame_ccu_lastErr (c : cconn hstate) v : cc_maxFrame (ccu_lastErr c v) = cc_maxFrame c. Proof. reflexivity. Qed.
Lemma cc_goAway_ccu_lastErr (c : cconn hstate) v : cc_goAway (ccu_lastErr c v) = cc_goAway c. Proof. reflexivity. Qed.
Lemma cc_closed_ccu_lastErr (c : cconn hstate) v : cc_closed (ccu_lastErr c v) = cc_closed c. Proof. reflexivity. Qed.
Lemma cc_closing_ccu_lastErr (c : cconn hstate) v : cc_closing (ccu_lastErr c v) = cc_closing c. Proof. reflexivity. Qed.
Lemma cc_netClosed_ccu_lastErr (c : cconn hstate) v : cc_netClosed (ccu_lastErr c v) = cc_netClosed c. Proof. reflexivity. Qed.
Lemma cc_writeFail_ccu_lastErr (c : cconn hstate) v : cc_writeFail (ccu_lastErr c v) = cc_writeFail c. Proof. reflexivity. Qed.
Lemma cc_enc_ccu_lastErr (c : cconn hstate) v : cc_enc (ccu_lastErr c v) = cc_enc c. Proof. reflexivity. Qed.
Lemma cc_encTableSize_ccu_lastErr (c : cconn hstate) v : cc_encTableSize (ccu_lastErr c v) = cc_encTableSize c. Proof. reflexivity. Qed.
Lemma cc_encTableSeen_ccu_lastErr (c : cconn hstate) v : cc_encTableSeen (ccu_lastErr c v) = cc_encTableSeen c. Proof. reflexivity. Qed.
Lemma cc_dec_ccu_lastErr (c : cconn hstate) v : cc_dec (ccu_lastErr c v) = cc_dec c. Proof. reflexivity. Qed.
Lemma cc_currentWindow_ccu_lastErr (c : cconn hstate) v : cc_currentWindow (ccu_lastErr c v) = cc_currentWindow c. Proof. reflexivity. Qed.
Lemma cc_serverS_ccu_lastErr (c : cconn hstate) v : cc_serverS (ccu_lastErr c v) = cc_serverS c. Proof. reflexivity. Qed.
Lemma cc_hdrStream_ccu_lastErr (c : cconn hstate) v : cc_hdrStream (ccu_lastErr c v) = cc_hdrStream c. Proof. reflexivity. Qed.
Lemma cc_hdrPrev_ccu_lastErr (c : cconn hstate) v : cc_hdrPrev (ccu_lastErr c v) = cc_hdrPrev c. Proof. reflexivity. Qed.
Lemma cc_hdrFields_ccu_lastErr (c : cconn hstate) v : cc_hdrFields (ccu_lastErr c v) = cc_hdrFields c. Proof. reflexivity. Qed.
Lemma cc_hdrEndStream_ccu_lastErr (c : cconn hstate) v : cc_hdrEndStream (ccu_lastErr c v) = cc_hdrEndStream c. Proof. reflexivity. Qed.
Lemma cc_hdrRegularSeen_ccu_lastErr (c : cconn hstate) v : cc_hdrRegularSeen (ccu_lastErr c v) = cc_hdrRegularSeen c. Proof. reflexivity. Qed.
Lemma cc_hdrStatus_ccu_lastErr (c : cconn hstate) v : cc_hdrStatus (ccu_lastErr c v) = cc_hdrStatus c. Proof. reflexivity. Qed.
Lemma cc_hdrErr_ccu_lastErr (c : cconn hstate) v : cc_hdrErr (ccu_lastErr c v) = cc_hdrErr c. Proof. reflexivity. Qed.
Lemma cc_stateClosed_ccu_lastErr (c : cconn hstate) v : cc_stateClosed (ccu_lastErr c v) = cc_stateClosed c. Proof. reflexivity. Qed.
Lemma cc_closeRef_ccu_lastErr (c : cconn hstate) v : cc_closeRef (ccu_lastErr c v) = cc_closeRef c. Proof. reflexivity. Qed.
Lemma cc_reqQueued_ccu_lastErr (c : cconn hstate) v : cc_reqQueued (ccu_lastErr c v) = cc_reqQueued c. Proof. reflexivity. Qed.
Lemma cc_pending_ccu_lastErr (c : cconn hstate) v : cc_pending (ccu_lastErr c v) = cc_pending c. Proof. reflexivity. Qed.
Lemma cc_connWindow_ccu_lastErr (c : cconn hstate) v : cc_connWindow (ccu_lastErr c v) = cc_connWindow c. Proof. reflexivity. Qed.
Lemma cc_streamWindow_ccu_lastErr (c : cconn hstate) v : cc_streamWindow (ccu_lastErr c v) = cc_streamWindow c. Proof. reflexivity. Qed.
Lemma cc_inQ_ccu_lastErr (c : cconn hstate) v : cc_inQ (ccu_lastErr c v) = cc_inQ c. Proof. reflexivity. Qed.
Lemma cc_outQ_ccu_lastErr (c : cconn hstate) v : cc_outQ (ccu_lastErr c v) = cc_outQ c. Proof. reflexivity. Qed.
Lemma cc_winCh_ccu_lastErr (c : cconn hstate) v : cc_winCh (ccu_lastErr c v) = cc_winCh c. Proof. reflexivity. Qed.
Lemma cc_lastErr_ccu_lastErr (c : cconn hstate) v : cc_lastErr (ccu_lastErr c v) = v. Proof. reflexivity. Qed.
Lemma cc_unacks_ccu_lastErr (c : cconn hstate) v : cc_unacks (ccu_lastErr c v) = cc_unacks c. Proof. reflexivity. Qed.
Lemma cc_rl_done_ccu_lastErr (c : cconn hstate) v : cc_rl_done (ccu_lastErr c v) = cc_rl_done c. Proof. reflexivity. Qed.
Lemma cc_wl_done_ccu_lastErr (c : cconn hstate) v : cc_wl_done (ccu_lastErr c v) = cc_wl_done c. Proof. reflexivity. Qed.
Lemma cc_rl_stuck_ccu_lastErr (c : cconn hstate) v : cc_rl_stuck (ccu_lastErr c v) = cc_rl_stuck c. Proof. reflexivity. Qed.
Lemma cc_wl_stuck_ccu_lastErr (c : cconn hstate) v : cc_wl_stuck (ccu_lastErr c v) = cc_wl_stuck c. Proof. reflexivity. Qed.
Lemma cc_out_ccu_lastErr (c : cconn hstate) v : cc_out (ccu_lastErr c v) = cc_out c. Proof. reflexivity. Qed.
Lemma cc_ctxs_ccu_unacks (c : cconn hstate) v : cc_ctxs (ccu_unacks c v) = cc_ctxs c. Proof. reflexivity. Qed.
Lemma cc_nextID_ccu_unacks (c : cconn hstate) v : cc_nextID (ccu_unacks c v) = cc_nextID c. Proof. reflexivity. Qed.
Lemma cc_open_ccu_unacks (c : cconn hstate) v : cc_open (ccu_unacks c v) = cc_open c. Proof. reflexivity. Qed.
Lemma cc_maxStreams_ccu_unacks (c : cconn hstate) v : cc_maxStreams (ccu_unacks c v) = cc_maxStreams c. Proof. reflexivity. Qed.
Lemma cc_maxFrame_ccu_unacks (c : cconn hstate) v : cc_maxFrame (ccu_unacks c v) = cc_maxFrame c. Proof. reflexivity. Qed.
Lemma cc_goAway_ccu_unacks (c : cconn hstate) v : cc_goAway (ccu_unacks c v) = cc_goAway c. Proof. reflexivity. Qed.
Lemma cc_closed_ccu_unacks (c : cconn hstate) v : cc_closed (ccu_unacks c v) = cc_closed c. Proof. reflexivity. Qed.
Lemma cc_closing_ccu_unacks (c : cconn hstate) v : cc_closing (ccu_unacks c v) = cc_closing c. Proof. reflexivity. Qed.
Lemma cc_netClosed_ccu_unacks (c : cconn hstate) v : cc_netClosed (ccu_unacks c v) = cc_netClosed c. Proof. reflexivity. Qed.
Lemma cc_writeFail_ccu_unacks (c : cconn hstate) v : cc_writeFail (ccu_unacks c v) = cc_writeFail c. Proof. reflexivity. Qed.
Lemma cc_enc_ccu_unacks (c : cconn hstate) v : cc_enc (ccu_unacks c v) = cc_enc c. Proof. reflexivity. Qed.
Lemma cc_encTableSize_ccu_unacks (c : cconn hstate) v : cc_encTableSize (ccu_unacks c v) = cc_encTableSize c. Proof. reflexivity. Qed.
Lemma cc_encTableSeen_ccu_unacks (c : cconn hstate) v : cc_encTableSeen (ccu_unacks c v) = cc_encTableSeen c. Proof. reflexivity. Qed.
Lemma cc_dec_ccu_unacks (c : cconn hstate) v : cc_dec (ccu_unacks c v) = cc_dec c. Proof. reflexivity. Qed.
Lemma cc_currentWindow_ccu_unacks (c : cconn hstate) v : cc_currentWindow (ccu_unacks c v) = cc_currentWindow c. Proof. reflexivity. Qed.
Lemma cc_serverS_ccu_unacks (c : cconn hstate) v : cc_serverS (ccu_unacks c v) = cc_serverS c. Proof. reflexivity. Qed.
Lemma cc_hdrStream_ccu_unacks (c : cconn hstate) v : cc_hdrStream (ccu_unacks c v) = cc_hdrStream c. Proof. reflexivity. Qed.
Lemma cc_hdrPrev_ccu_unacks (c : cconn hstate) v : cc_hdrPrev (ccu_unacks c v) = cc_hdrPrev c. Proof. reflexivity. Qed.
Lemma cc_hdrFields_ccu_unacks (c : cconn hstate) v : cc_hdrFields (ccu_unacks c v) = cc_hdrFields c. Proof. reflexivity. Qed.
Lemma cc_hdrEndStream_ccu_unacks (c : cconn hstate) v : cc_hdrEndStream (ccu_unacks c v) = cc_hdrEndStream c. Proof. reflexivity. Qed.
Lemma cc_hdrRegularSeen_ccu_unacks (c : cconn hstate) v : cc_hdrRegularSeen (ccu_unacks c v) = cc_hdrRegularSeen c. Proof. reflexivity. Qed.
Lemma cc_hdrStatus_ccu_unacks (c : cconn hstate) v : cc_hdrStatus (ccu_unacks c v) = cc_hdrStatus c. Proof. reflexivity. Qed.
Lemma cc_hdrErr_ccu_unacks (c : cconn hstate) v : cc_hdrErr (ccu_unacks c v) = cc_hdrErr c. Proof. reflexivity. Qed.
Lemma cc_stateClosed_ccu_unacks (c : cconn hstate) v : cc_stateClosed (ccu_unacks c v) = cc_stateClosed c. Proof. reflexivity. Qed.
Lemma cc_closeRef_ccu_unacks (c : cconn hstate) v : cc_closeRef (ccu_unacks c v) = cc_closeRef c. Proof. reflexivity. Qed.
Lemma cc_reqQueued_ccu_unacks (c : cconn hstate) v : cc_reqQueued (ccu_unacks c v) = cc_reqQueued c. Proof. reflexivity. Qed.
Lemma cc_pending_ccu_unacks (c : cconn hstate) v : cc_pending (ccu_unacks c v) = cc_pending c. Proof. reflexivity. Qed.
Lemma cc_connWindow_ccu_unacks (c : cconn hstate) v : cc_connWindow (ccu_unacks c v) = cc_connWindow c. Proof. reflexivity. Qed.
Lemma cc_streamWindow_ccu_unacks (c : cconn hstate) v : cc_streamWindow (ccu_unacks c v) = cc_streamWindow c. Proof. reflexivity. Qed.
Lemma cc_inQ_ccu_unacks (c : cconn hstate) v : cc_inQ (ccu_unacks c v) = cc_inQ c. Proof. reflexivity. Qed.
Lemma cc_outQ_ccu_unacks (c : cconn hstate) v : cc_outQ (ccu_unacks c v) = cc_outQ c. Proof. reflexivity. Qed.
Lemma cc_winCh_ccu_unacks (c : cconn hstate) v : cc_winCh (ccu_unacks c v) = cc_winCh c. Proof. reflexivity. Qed.
Lemma cc_lastErr_ccu_unacks (c : cconn hstate) v : cc_lastErr (ccu_unacks c v) = cc_lastErr c. Proof. reflexivity. Qed.
Lemma cc_unacks_ccu_unacks (c : cconn hstate) v : cc_unacks (ccu_unacks c v) = v. Proof. reflexivity. Qed.
Lemma cc_rl_done_ccu_unacks (c : cconn hstate) v : cc_rl_done (ccu_unacks c v) = cc_rl_done c. Proof. reflexivity. Qed.
Lemma cc_wl_done_ccu_unacks (c : cconn hstate) v : cc_wl_done (ccu_unacks c v) = cc_wl_done c. Proof. reflexivity. Qed.
Lemma cc_rl_stuck_ccu_unacks (c : cconn hstate) v : cc_rl_stuck (ccu_unacks c v) = cc_rl_stuck c. Proof. reflexivity. Qed.
Lemma cc_wl_stuck_ccu_unacks (c : cconn hstate) v : cc_wl_stuck (ccu_unacks c v) = cc_wl_stuck c. Proof. reflexivity. Qed.
Lemma cc_out_ccu_unacks (c : cconn hstate) v : cc_out (ccu_unacks c v) = cc_out c. Proof. reflexivity. Qed.
Lemma cc_ctxs_ccu_rl_done (c : cconn hstate) v : cc_ctxs (ccu_rl_done c v) = cc_ctxs c. Proof. reflexivity. Qed.
Lemma cc_nextID_ccu_rl_done (c : cconn hstate) v : cc_nextID (ccu_rl_done c v) = cc_nextID c. Proof. reflexivity. Qed.
Lemma cc_open_ccu_rl_done (c : cconn hstate) v : cc_open (ccu_rl_done c v) = cc_open c. Proof. reflexivity. Qed.
Lemma cc_maxStreams_ccu_rl_done (c : cconn hstate) v : cc_maxStreams (ccu_rl_done c v) = cc_maxStreams c. Proof. reflexivity. Qed.
Lemma cc_maxFrame_ccu_rl_done (c : cconn hstate) v : cc_maxFrame (ccu_rl_done c v) = cc_maxFrame c. Proof. reflexivity. Qed.
Lemma cc_goAway_ccu_rl_done (c : cconn hstate) v : cc_goAway (ccu_rl_done c v) = cc_goAway c. Proof. reflexivity. Qed.
Lemma cc_closed_ccu_rl_done (c : cconn hstate) v : cc_closed (ccu_rl_done c v) = cc_closed c. Proof. reflexivity. Qed.
Lemma cc_closing_ccu_rl_done (c : cconn hstate) v : cc_closing (ccu_rl_done c v) = cc_closing c. Proof. reflexivity. Qed.
Lemma cc_netClosed_ccu_rl_done (c : cconn hstate) v : cc_netClosed (ccu_rl_done c v) = cc_netClosed c. Proof. reflexivity. Qed.
Lemma cc_writeFail_ccu_rl_done (c : cconn hstate) v : cc_writeFail (ccu_rl_done c v) = cc_writeFail c. Proof. reflexivity. Qed.
Lemma cc_enc_ccu_rl_done (c : cconn hstate) v : cc_enc (ccu_rl_done c v) = cc_enc c. Proof. reflexivity. Qed.
Lemma cc_encTableSize_ccu_rl_done (c : cconn hstate) v : cc_encTableSize (ccu_rl_done c v) = cc_encTableSize c. Proof. reflexivity. Qed.
Lemma cc_encTableSeen_ccu_rl_done (c : cconn hstate) v : cc_encTableSeen (ccu_rl_done c v) = cc_encTableSeen c. Proof. reflexivity. Qed.
Lemma cc_dec_ccu_rl_done (c : cconn hstate) v : cc_dec (ccu_rl_done c v) = cc_dec c. Proof. reflexivity. Qed.
Lemma cc_currentWindow_ccu_rl_done (c : cconn hstate) v : cc_currentWindow (ccu_rl_done c v) = cc_currentWindow c. Proof. reflexivity. Qed.
Lemma cc_serverS_ccu_rl_done (c : cconn hstate) v : cc_serverS (ccu_rl_done c v) = cc_serverS c. Proof. reflexivity. Qed.
Lemma cc_hdrStream_ccu_rl_done (c : cconn hstate) v : cc_hdrStream (ccu_rl_done c v) = cc_hdrStream c. Proof. reflexivity. Qed.
Lemma cc_hdrPrev_ccu_rl_done (c : cconn hstate) v : cc_hdrPrev (ccu_rl_done c v) = cc_hdrPrev c. Proof. reflexivity. Qed.
Lemma cc_hdrFields_ccu_rl_done (c : cconn hstate) v : cc_hdrFields (ccu_rl_done c v) = cc_hdrFields c. Proof. reflexivity. Qed.
Lemma cc_hdrEndStream_ccu_rl_done (c : cconn hstate) v : cc_hdrEndStream (ccu_rl_done c v) = cc_hdrEndStream c. Proof. reflexivity. Qed.
Lemma cc_hdrRegularSeen_ccu_rl_done (c : cconn hstate) v : cc_hdrRegularSeen (ccu_rl_done c v) = cc_hdrRegularSeen c. Proof. reflexivity. Qed.
Lemma cc_hdrStatus_ccu_rl_done (c : cconn hstate) v : cc_hdrStatus (ccu_rl_done c v) = cc_hdrStatus c. Proof. reflexivity. Qed.
Lemma cc_hdrErr_ccu_rl_done (c : cconn hstate) v : cc_hdrErr (ccu_rl_done c v) = cc_hdrErr c. Proof. reflexivity. Qed.
Lemma cc_stateClosed_ccu_rl_done (c : cconn hstate) v : cc_stateClosed (ccu_rl_done c v) = cc_stateClosed c. Proof. reflexivity. Qed.
Lemma cc_closeRef_ccu_rl_done (c : cconn hstate) v : cc_closeRef (ccu_rl_done c v) = cc_closeRef c. Proof. reflexivity. Qed.
Lemma cc_reqQueued_ccu_rl_done (c : cconn hstate) v : cc_reqQueued (ccu_rl_done c v) = cc_reqQueued c. Proof. reflexivity. Qed.
Lemma cc_pending_ccu_rl_done (c : cconn hstate) v : cc_pending (ccu_rl_done c v) = cc_pending c. Proof. reflexivity. Qed.
Lemma cc_connWindow_ccu_rl_done (c : cconn hstate) v : cc_connWindow (ccu_rl_done c v) = cc_connWindow c. Proof. reflexivity. Qed.
Lemma cc_streamWindow_ccu_rl_done (c : cconn hstate) v : cc_streamWindow (ccu_rl_done c v) = cc_streamWindow c. Proof. reflexivity. Qed.
Lemma cc_inQ_ccu_rl_done (c : cconn hstate) v : cc_inQ (ccu_rl_done c v) = cc_inQ c. Proof. reflexivity. Qed.
Lemma cc_outQ_ccu_rl_done (c : cconn hstate) v : cc_outQ (ccu_rl_done c v) = cc_outQ c. Proof. reflexivity. Qed.
Lemma cc_winCh_ccu_rl_done (c : cconn hstate) v : cc_winCh (ccu_rl_done c v) = cc_winCh c. Proof. reflexivity. Qed.
Lemma cc_lastErr_ccu_rl_done (c : cconn hstate) v : cc_lastErr (ccu_rl_done c v) = cc_lastErr c. Proof. reflexivity. Qed.
Lemma cc_unacks_ccu_rl_done (c : cconn hstate) v : cc_unacks (ccu_rl_done c v) = cc_unacks c. Proof. reflexivity. Qed.
Lemma cc_rl_done_ccu_rl_done (c : cconn hstate) v : cc_rl_done (ccu_rl_done c v) = v. Proof. reflexivity. Qed.
Lemma cc_wl_done_ccu_rl_done (c : cconn hstate) v : cc_wl_done (ccu_rl_done c v) = cc_wl_done c. Proof. reflexivity. Qed.
Lemma cc_rl_stuck_ccu_rl_done (c : cconn hstate) v : cc_rl_stuck (ccu_rl_done c v) = cc_rl_stuck c. Proof. reflexivity. Qed.
Lemma cc_wl_stuck_ccu_rl_done (c : cconn hstate) v : cc_wl_stuck (ccu_rl_done c v) = cc_wl_stuck c. Proof. reflexivity. Qed.
Lemma cc_out_ccu_rl_done (c : cconn hstate) v : cc_out (ccu_rl_done c v) = cc_out c. Proof. reflexivity. Qed.
Lemma cc_ctxs_ccu_wl_done (c : cconn hstate) v : cc_ctxs (ccu_wl_done c v) = cc_ctxs c. Proof. reflexivity. Qed.
Lemma cc_nextID_ccu_wl_done (c : cconn hstate) v : cc_nextID (ccu_wl_done c v) = cc_nextID c. Proof. reflexivity. Qed.
Lemma cc_open_ccu_wl_done (c : cconn hstate) v : cc_open (ccu_wl_done c v) = cc_open c. Proof. reflexivity. Qed.
Lemma cc_maxStreams_ccu_wl_done (c : cconn hstate) v : cc_maxStreams (ccu_wl_done c v) = cc_maxStreams c. Proof. reflexivity. Qed.
Lemma cc_maxFrame_ccu_wl_done (c : cconn hstate) v : cc_maxFrame (ccu_wl_done c v) = cc_maxFrame c. Proof. reflexivity. Qed.
Lemma cc_goAway_ccu_wl_done (c : cconn hstate) v : cc_goAway (ccu_wl_done c v) = cc_goAway c. Proof. reflexivity. Qed.
Lemma cc_closed_ccu_wl_done (c : cconn hstate) v : cc_closed (ccu_wl_done c v) = cc_closed c. Proof. reflexivity. Qed.
Lemma cc_closing_ccu_wl_done (c : cconn hstate) v : cc_closing (ccu_wl_done c v) = cc_closing c. Proof. reflexivity. Qed.
Lemma cc_netClosed_ccu_wl_done (c : cconn hstate) v : cc_netClosed (ccu_wl_done c v) = cc_netClosed c. Proof. reflexivity. Qed.
Lemma cc_writeFail_ccu_wl_done (c : cconn hstate) v : cc_writeFail (ccu_wl_done c v) = cc_writeFail c. Proof. reflexivity. Qed.
Lemma cc_enc_ccu_wl_done (c : cconn hstate) v : cc_enc (ccu_wl_done c v) = cc_enc c. Proof. reflexivity. Qed.
Lemma cc_encTableSize_ccu_wl_done (c : cconn hstate) v : cc_encTableSize (ccu_wl_done c v) = cc_encTableSize c. Proof. reflexivity. Qed.
Lemma cc_encTableSeen_ccu_wl_done (c : cconn hstate) v : cc_encTableSeen (ccu_wl_done c v) = cc_encTableSeen c. Proof. reflexivity. Qed.
Lemma cc_dec_ccu_wl_done (c : cconn hstate) v : cc_dec (ccu_wl_done c v) = cc_dec c. Proof. reflexivity. Qed.
Lemma cc_currentWindow_ccu_wl_done (c : cconn hstate) v : cc_currentWindow (ccu_wl_done c v) = cc_currentWindow c. Proof. reflexivity. Qed.
Lemma cc_serverS_ccu_wl_done (c : cconn hstate) v : cc_serverS (ccu_wl_done c v) = cc_serverS c. Proof. reflexivity. Qed.
Lemma cc_hdrStream_ccu_wl_done (c : cconn hstate) v : cc_hdrStream (ccu_wl_done c v) = cc_hdrStream c. Proof. reflexivity. Qed.
Lemma cc_hdrPrev_ccu_wl_done (c : cconn hstate) v : cc_hdrPrev (ccu_wl_done c v) = cc_hdrPrev c. Proof. reflexivity. Qed.
Lemma cc_hdrFields_ccu_wl_done (c : cconn hstate) v : cc_hdrFields (ccu_wl_done c v) = cc_hdrFields c. Proof. reflexivity. Qed.
Lemma cc_hdrEndStream_ccu_wl_done (c : cconn hstate) v : cc_hdrEndStream (ccu_wl_done c v) = cc_hdrEndStream c. Proof. reflexivity. Qed.
Lemma cc_hdrRegularSeen_ccu_wl_done (c : cconn hstate) v : cc_hdrRegularSeen (ccu_wl_done c v) = cc_hdrRegularSeen c. Proof. reflexivity. Qed.
Lemma cc_hdrStatus_ccu_wl_done (c : cconn hstate) v : cc_hdrStatus (ccu_wl_done c v) = cc_hdrStatus c. Proof. reflexivity. Qed.
Lemma cc_hdrErr_ccu_wl_done (c : cconn hstate) v : cc_hdrErr (ccu_wl_done c v) = cc_hdrErr c. Proof. reflexivity. Qed.
Lemma cc_stateClosed_ccu_wl_done (c : cconn hstate) v : cc_stateClosed (ccu_wl_done c v) = cc_stateClosed c. Proof. reflexivity. Qed.
Lemma cc_closeRef_ccu_wl_done (c : cconn hstate) v : cc_closeRef (ccu_wl_done c v) = cc_closeRef c. Proof. reflexivity. Qed.
Lemma cc_reqQueued_ccu_wl_done (c : cconn hstate) v : cc_reqQueued (ccu_wl_done c v) = cc_reqQueued c. Proof. reflexivity. Qed.
Lemma cc_pending_ccu_wl_done (c : cconn hstate) v : cc_pending (ccu_wl_done c v) = cc_pending c. Proof. reflexivity. Qed.
Lemma cc_connWindow_ccu_wl_done (c : cconn hstate) v : cc_connWindow (ccu_wl_done c v) = cc_connWindow c. Proof. reflexivity. Qed.
Lemma cc_streamWindow_ccu_wl_done (c : cconn hstate) v : cc_streamWindow (ccu_wl_done c v) = cc_streamWindow c. Proof. reflexivity. Qed.
Lemma cc_inQ_ccu_wl_done (c : cconn hstate) v : cc_inQ (ccu_wl_done c v) = cc_inQ c. Proof. reflexivity. Qed.
Lemma cc_outQ_ccu_wl_done (c : cconn hstate) v : cc_outQ (ccu_wl_done c v) = cc_outQ c. Proof. reflexivity. Qed.
Lemma cc_winCh_ccu_wl_done (c : cconn hstate) v : cc_winCh (ccu_wl_done c v) = cc_winCh c. Proof. reflexivity. Qed.
Lemma cc_lastErr_ccu_wl_done (c : cconn hstate) v : cc_lastErr (ccu_wl_done c v) = cc_lastErr c. Proof. reflexivity. Qed.
Lemma cc_unacks_ccu_wl_done (c : cconn hstate) v : cc_unacks (ccu_wl_done c v) = cc_unacks c. Proof. reflexivity. Qed.
Lemma cc_rl_done_ccu_wl_done (c : cconn hstate) v : cc_rl_done (ccu_wl_done c v) = cc_rl_done c. Proof. reflexivity. Qed.
Lemma cc_wl_done_ccu_wl_done (c : cconn hstate) v : cc_wl_done (ccu_wl_done c v) = v. Proof. reflexivity. Qed.
Lemma cc_rl_stuck_ccu_wl_done (c : cconn hstate) v : cc_rl_stuck (ccu_wl_done c v) = cc_rl_stuck c. Proof. reflexivity. Qed.
Lemma cc_wl_stuck_ccu_wl_done (c : cconn hstate) v : cc_wl_stuck (ccu_wl_done c v) = cc_wl_stuck c. Proof. reflexivity. Qed.
Lemma cc_out_ccu_wl_done (c : cconn hstate) v : cc_out (ccu_wl_done c v) = cc_out c. Proof. reflexivity. Qed.
Lemma cc_ctxs_ccu_rl_stuck (c : cconn hstate) v : cc_ctxs (ccu_rl_stuck c v) = cc_ctxs c. Proof. reflexivity. Qed.
Lemma cc_nextID_ccu_rl_stuck (c : cconn hstate) v : cc_nextID (ccu_rl_stuck c v) = cc_nextID c. Proof. reflexivity. Qed.
Lemma cc_open_ccu_rl_stuck (c : cconn hstate) v : cc_open (ccu_rl_stuck c v) = cc_open c. Proof. reflexivity. Qed.
Lemma cc_maxStreams_ccu_rl_stuck (c : cconn hstate) v : cc_maxStreams (ccu_rl_stuck c v) = cc_maxStreams c. Proof. reflexivity. Qed.
Lemma cc_maxFrame_ccu_rl_stuck (c : cconn hstate) v : cc_maxFrame (ccu_rl_stuck c v) = cc_maxFrame c. Proof. reflexivity. Qed.
Lemma cc_goAway_ccu_rl_stuck (c : cconn hstate) v : cc_goAway (ccu_rl_stuck c v) = cc_goAway c. Proof. reflexivity. Qed.
Lemma cc_closed_ccu_rl_stuck (c : cconn hstate) v : cc_closed (ccu_rl_stuck c v) = cc_closed c. Proof. reflexivity. Qed.
Lemma cc_closing_ccu_rl_stuck (c : cconn hstate) v : cc_closing (ccu_rl_stuck c v) = cc_closing c. Proof. reflexivity. Qed.
Lemma cc_netClosed_ccu_rl_stuck (c : cconn hstate) v : cc_netClosed (ccu_rl_stuck c v) = cc_netClosed c. Proof. reflexivity. Qed.
Lemma cc_writeFail_ccu_rl_stuck (c : cconn hstate) v : cc_writeFail (ccu_rl_stuck c v) = cc_writeFail c. Proof. reflexivity. Qed.
Lemma cc_enc_ccu_rl_stuck (c : cconn hstate) v : cc_enc (ccu_rl_stuck c v) = cc_enc c. Proof. reflexivity. Qed.
Lemma cc_encTableSize_ccu_rl_stuck (c : cconn hstate) v : cc_encTableSize (ccu_rl_stuck c v) = cc_encTableSize c. Proof. reflexivity. Qed.
Lemma cc_encTableSeen_ccu_rl_stuck (c : cconn hstate) v : cc_encTableSeen (ccu_rl_stuck c v) = cc_encTableSeen c. Proof. reflexivity. Qed.
Lemma cc_dec_ccu_rl_stuck (c : cconn hstate) v : cc_dec (ccu_rl_stuck c v) = cc_dec c. Proof. reflexivity. Qed.
Lemma cc_currentWindow_ccu_rl_stuck (c : cconn hstate) v : cc_currentWindow (ccu_rl_stuck c v) = cc_currentWindow c. Proof. reflexivity. Qed.
Lemma cc_serverS_ccu_rl_stuck (c : cconn hstate) v : cc_serverS (ccu_rl_stuck c v) = cc_serverS c. Proof. reflexivity. Qed.
Lemma cc_hdrStream_ccu_rl_stuck (c : cconn hstate) v : cc_hdrStream (ccu_rl_stuck c v) = cc_hdrStream c. Proof. reflexivity. Qed.
Lemma cc_hdrPrev_ccu_rl_stuck (c : cconn hstate) v : cc_hdrPrev (ccu_rl_stuck c v) = cc_hdrPrev c. Proof. reflexivity. Qed.
Lemma cc_hdrFields_ccu_rl_stuck (c : cconn hstate) v : cc_hdrFields (ccu_rl_stuck c v) = cc_hdrFields c. Proof. reflexivity. Qed.
Lemma cc_hdrEndStream_ccu_rl_stuck (c : cconn hstate) v : cc_hdrEndStream (ccu_rl_stuck c v) = cc_hdrEndStream c. Proof. reflexivity. Qed.
Lemma cc_hdrRegularSeen_ccu_rl_stuck (c : cconn hstate) v : cc_hdrRegularSeen (ccu_rl_stuck c v) = cc_hdrRegularSeen c. Proof. reflexivity. Qed.
Lemma cc_hdrStatus_ccu_rl_stuck (c : cconn hstate) v : cc_hdrStatus (ccu_rl_stuck c v) = cc_hdrStatus c. Proof. reflexivity. Qed.
Lemma cc_hdrErr_ccu_rl_stuck (c : cconn hstate) v : cc_hdrErr (ccu_rl_stuck c v) = cc_hdrErr c. Proof. reflexivity. Qed.
Lemma cc_stateClosed_ccu_rl_stuck (c : cconn hstate) v : cc_stateClosed (ccu_rl_stuck c v) = cc_stateClosed c. Proof. reflexivity. Qed.
Lemma cc_closeRef_ccu_rl_stuck (c : cconn hstate) v : cc_closeRef (ccu_rl_stuck c v) = cc_closeRef c. Proof. reflexivity. Qed.
Lemma cc_reqQueued_ccu_rl_stuck (c : cconn hstate) v : cc_reqQueued (ccu_rl_stuck c v) = cc_reqQueued c. Proof. reflexivity. Qed.
Lemma cc_pending_ccu_rl_stuck (c : cconn hstate) v : cc_pending (ccu_rl_stuck c v) = cc_pending c. Proof. reflexivity. Qed.
Lemma cc_connWindow_ccu_rl_stuck (c : cconn hstate) v : cc_connWindow (ccu_rl_stuck c v) = cc_connWindow c. Proof. reflexivity. Qed.
Lemma cc_streamWindow_ccu_rl_stuck (c : cconn hstate) v : cc_streamWindow (ccu_rl_stuck c v) = cc_streamWindow c. Proof. reflexivity. Qed.
Lemma cc_inQ_ccu_rl_stuck (c : cconn hstate) v : cc_inQ (ccu_rl_stuck c v) = cc_inQ c. Proof. reflexivity. Qed.
Lemma cc_outQ_ccu_rl_stuck (c : cconn hstate) v : cc_outQ (ccu_rl_stuck c v) = cc_outQ c. Proof. reflexivity. Qed.
Lemma cc_winCh_ccu_rl_stuck (c : cconn hstate) v : cc_winCh (ccu_rl_stuck c v) = cc_winCh c. Proof. reflexivity. Qed.
Lemma cc_lastErr_ccu_rl_stuck (c : cconn hstate) v : cc_lastErr (ccu_rl_stuck c v) = cc_lastErr c. Proof. reflexivity. Qed.
Lemma cc_unacks_ccu_rl_stuck (c : cconn hstate) v : cc_unacks (ccu_rl_stuck c v) = cc_unacks c. Proof. reflexivity. Qed.
Lemma cc_rl_done_ccu_rl_stuck (c : cconn hstate) v : cc_rl_done (ccu_rl_stuck c v) = cc_rl_done c. Proof. reflexivity. Qed.
Lemma cc_wl_done_ccu_rl_stuck (c : cconn hstate) v : cc_wl_done (ccu_rl_stuck c v) = cc_wl_done c. Proof. reflexivity. Qed.
Lemma cc_rl_stuck_ccu_rl_stuck (c : cconn hstate) v : cc_rl_stuck (ccu_rl_stuck c v) = v. Proof. reflexivity. Qed.
Lemma cc_wl_stuck_ccu_rl_stuck (c : cconn hstate) v : cc_wl_stuck (ccu_rl_stuck c v) = cc_wl_stuck c. Proof. reflexivity. Qed.
Lemma cc_out_ccu_rl_stuck (c : cconn hstate) v : cc_out (ccu_rl_stuck c v) = cc_out c. Proof. reflexivity. Qed.
Lemma cc_ctxs_ccu_wl_stuck (c : cconn hstate) v : cc_ctxs (ccu_wl_stuck c v) = cc_ctxs c. Proof. reflexivity. Qed.
Lemma cc_nextID_ccu_wl_stuck (c : cconn hstate) v : cc_nextID (ccu_wl_stuck c v) = cc_nextID c. Proof. reflexivity. Qed.
Lemma cc_open_ccu_wl_stuck (c : cconn hstate) v : cc_open (ccu_wl_stuck c v) = cc_open c. Proof. reflexivity. Qed.
Lemma cc_maxStreams_ccu_wl_stuck (c : cconn hstate) v : cc_maxStreams (ccu_wl_stuck c v) = cc_maxStreams c. Proof. reflexivity. Qed.
Lemma cc_maxFrame_ccu_wl_stuck (c : cconn hstate) v : cc_maxFrame (ccu_wl_stuck c v) = cc_maxFrame c. Proof. reflexivity. Qed.
Lemma cc_goAway_ccu_wl_stuck (c : cconn hstate) v : cc_goAway (ccu_wl_stuck c v) = cc_goAway c. Proof. reflexivity. Qed.
Lemma cc_closed_ccu_wl_stuck (c : cconn hstate) v : cc_closed (ccu_wl_stuck c v) = cc_closed c. Proof. reflexivity. Qed.
Lemma cc_closing_ccu_wl_stuck (c : cconn hstate) v : cc_closing (ccu_wl_stuck c v) = cc_closing c. Proof. reflexivity. Qed.
Lemma cc_netClosed_ccu_wl_stuck (c : cconn hstate) v : cc_netClosed (ccu_wl_stuck c v) = cc_netClosed c. Proof. reflexivity. Qed.
Lemma cc_writeFail_ccu_wl_stuck (c : cconn hstate) v : cc_writeFail (ccu_wl_stuck c v) = cc_writeFail c. Proof. reflexivity. Qed.
Lemma cc_enc_ccu_wl_stuck (c : cconn hstate) v : cc_enc (ccu_wl_stuck c v) = cc_enc c. Proof. reflexivity. Qed.
Lemma cc_encTableSize_ccu_wl_stuck (c : cconn hstate) v : cc_encTableSize (ccu_wl_stuck c v) = cc_encTableSize c. Proof. reflexivity. Qed.
Lemma cc_encTableSeen_ccu_wl_stuck (c : cconn hstate) v : cc_encTableSeen (ccu_wl_stuck c v) = cc_encTableSeen c. Proof. reflexivity. Qed.
Lemma cc_dec_ccu_wl_stuck (c : cconn hstate) v : cc_dec (ccu_wl_stuck c v) = cc_dec c. Proof. reflexivity. Qed.
Lemma cc_currentWindow_ccu_wl_stuck (c : cconn hstate) v : cc_currentWindow (ccu_wl_stuck c v) = cc_currentWindow c. Proof. reflexivity. Qed.
Lemma cc_serverS_ccu_wl_stuck (c : cconn hstate) v : cc_serverS (ccu_wl_stuck c v) = cc_serverS c. Proof. reflexivity. Qed.
Lemma cc_hdrStream_ccu_wl_stuck (c : cconn hstate) v : cc_hdrStream (ccu_wl_stuck c v) = cc_hdrStream c. Proof. reflexivity. Qed.
Lemma cc_hdrPrev_ccu_wl_stuck (c : cconn hstate) v : cc_hdrPrev (ccu_wl_stuck c v) = cc_hdrPrev c. Proof. reflexivity. Qed.
Lemma cc_hdrFields_ccu_wl_stuck (c : cconn hstate) v : cc_hdrFields (ccu_wl_stuck c v) = cc_hdrFields c. Proof. reflexivity. Qed.
Lemma cc_hdrEndStream_ccu_wl_stuck (c : cconn hstate) v : cc_hdrEndStream (ccu_wl_stuck c v) = cc_hdrEndStream c. Proof. reflexivity. Qed.
Lemma cc_hdrRegularSeen_ccu_wl_stuck (c : cconn hstate) v : cc_hdrRegularSeen (ccu_wl_stuck c v) = cc_hdrRegularSeen c. Proof. reflexivity. Qed.
Lemma cc_hdrStatus_ccu_wl_stuck (c : cconn hstate) v : cc_hdrStatus (ccu_wl_stuck c v) = cc_hdrStatus c. Proof. reflexivity. Qed.
Lemma cc_hdrErr_ccu_wl_stuck (c : cconn hstate) v : cc_hdrErr (ccu_wl_stuck c v) = cc_hdrErr c. Proof. reflexivity. Qed.
Lemma cc_stateClosed_ccu_wl_stuck (c : cconn hstate) v : cc_stateClosed (ccu_wl_stuck c v) = cc_stateClosed c. Proof. reflexivity. Qed.
Lemma cc_closeRef_ccu_wl_stuck (c : cconn hstate) v : cc_closeRef (ccu_wl_stuck c v) = cc_closeRef c. Proof. reflexivity. Qed.
Lemma cc_reqQueued_ccu_wl_stuck (c : cconn hstate) v : cc_reqQueued (ccu_wl_stuck c v) = cc_reqQueued c. Proof. reflexivity. Qed.
Lemma cc_pending_ccu_wl_stuck (c : cconn hstate) v : cc_pending (ccu_wl_stuck c v) = cc_pending c. Proof. reflexivity. Qed.
Lemma cc_connWindow_ccu_wl_stuck (c : cconn hstate) v : cc_connWindow (ccu_wl_stuck c v) = cc_connWindow c. Proof. reflexivity. Qed.
Lemma cc_streamWindow_ccu_wl_stuck (c : cconn hstate) v : cc_streamWindow (ccu_wl_stuck c v) = cc_streamWindow c. Proof. reflexivity. Qed.
Lemma cc_inQ_ccu_wl_stuck (c : cconn hstate) v : cc_inQ (ccu_wl_stuck c v) = cc_inQ c. Proof. reflexivity. Qed.
Lemma cc_outQ_ccu_wl_stuck (c : cconn hstate) v : cc_outQ (ccu_wl_stuck c v) = cc_outQ c. Proof. reflexivity. Qed.
Lemma cc_winCh_ccu_wl_stuck (c : cconn hstate) v : cc_winCh (ccu_wl_stuck c v) = cc_winCh c. Proof. reflexivity. Qed.
Lemma cc_lastErr_ccu_wl_stuck (c : cconn hstate) v : cc_lastErr (ccu_wl_stuck c v) = cc_lastErr c. Proof. reflexivity. Qed.
Lemma cc_unacks_ccu_wl_stuck (c : cconn hstate) v : cc_unacks (ccu_wl_stuck c v) = cc_unacks c. Proof. reflexivity. Qed.
Lemma cc_rl_done_ccu_wl_stuck (c : cconn hstate) v : cc_rl_done (ccu_wl_stuck c v) = cc_rl_done c. Proof. reflexivity. Qed.
Lemma cc_wl_done_ccu_wl_stuck (c : cconn hstate) v : cc_wl_done (ccu_wl_stuck c v) = cc_wl_done c. Proof. reflexivity. Qed.
Lemma cc_rl_stuck_ccu_wl_stuck (c : cconn hstate) v : cc_rl_stuck (ccu_wl_stuck c v) = cc_rl_stuck c. Proof. reflexivity. Qed.
Lemma cc_wl_stuck_ccu_wl_stuck (c : cconn hstate) v : cc_wl_stuck (ccu_wl_stuck c v) = v. Proof. reflexivity. Qed.
Lemma cc_out_ccu_wl_stuck (c : cconn hstate) v : cc_out (ccu_wl_stuck c v) = cc_out c. Proof. reflexivity. Qed.
Lemma cc_ctxs_ccu_out (c : cconn hstate) v : cc_ctxs (ccu_out c v) = cc_ctxs c. Proof. reflexivity. Qed.
Lemma cc_nextID_ccu_out (c : cconn hstate) v : cc_nextID (ccu_out c v) = cc_nextID c. Proof. reflexivity. Qed.
Lemma cc_open_ccu_out (c : cconn hstate) v : cc_open (ccu_out c v) = cc_open c. Proof. reflexivity. Qed.
Lemma cc_maxStreams_ccu_out (c : cconn hstate) v : cc_maxStreams (ccu_out c v) = cc_maxStreams c. Proof. reflexivity. Qed.
Lemma cc_maxFrame_ccu_out (c : cconn hstate) v : cc_maxFrame (ccu_out c v) = cc_maxFrame c. Proof. reflexivity. Qed.
Lemma cc_goAway_ccu_out (c : cconn hstate) v : cc_goAway (ccu_out c v) = cc_goAway c. Proof. reflexivity. Qed.
Lemma cc_closed_ccu_out (c : cconn hstate) v : cc_closed (ccu_out c v) = cc_closed c. Proof. reflexivity. Qed.
Lemma cc_closing_ccu_out (c : cconn hstate) v : cc_closing (ccu_out c v) = cc_closing c. Proof. reflexivity. Qed.
Lemma cc_netClosed_ccu_out (c : cconn hstate) v : cc_netClosed (ccu_out c v) = cc_netClosed c. Proof. reflexivity. Qed.
Lemma cc_writeFail_ccu_out (c : cconn hstate) v : cc_writeFail (ccu_out c v) = cc_writeFail c. Proof. reflexivity. Qed.
Lemma cc_enc_ccu_out (c : cconn hstate) v : cc_enc (ccu_out c v) = cc_enc c. Proof. reflexivity. Qed.
Lemma cc_encTableSize_ccu_out (c : cconn hstate) v : cc_encTableSize (ccu_out c v) = cc_encTableSize c. Proof. reflexivity. Qed.
Lemma cc_encTableSeen_ccu_out (c : cconn hstate) v : cc_encTableSeen (ccu_out c v) = cc_encTableSeen c. Proof. reflexivity. Qed.
Lemma cc_dec_ccu_out (c : cconn hstate) v : cc_dec (ccu_out c v) = cc_dec c. Proof. reflexivity. Qed.
Lemma cc_currentWindow_ccu_out (c : cconn hstate) v : cc_currentWindow (ccu_out c v) = cc_currentWindow c. Proof. reflexivity. Qed.
Lemma cc_serverS_ccu_out (c : cconn hstate) v : cc_serverS (ccu_out c v) = cc_serverS c. Proof. reflexivity. Qed.
Lemma cc_hdrStream_ccu_out (c : cconn hstate) v : cc_hdrStream (ccu_out c v) = cc_hdrStream c. Proof. reflexivity. Qed.
Lemma cc_hdrPrev_ccu_out (c : cconn hstate) v : cc_hdrPrev (ccu_out c v) = cc_hdrPrev c. Proof. reflexivity. Qed.
Lemma cc_hdrFields_ccu_out (c : cconn hstate) v : cc_hdrFields (ccu_out c v) = cc_hdrFields c. Proof. reflexivity. Qed.
Lemma cc_hdrEndStream_ccu_out (c : cconn hstate) v : cc_hdrEndStream (ccu_out c v) = cc_hdrEndStream c. Proof. reflexivity. Qed.
Lemma cc_hdrRegularSeen_ccu_out (c : cconn hstate) v : cc_hdrRegularSeen (ccu_out c v) = cc_hdrRegularSeen c. Proof. reflexivity. Qed.
Lemma cc_hdrStatus_ccu_out (c : cconn hstate) v : cc_hdrStatus (ccu_out c v) = cc_hdrStatus c. Proof. reflexivity. Qed.
Lemma cc_hdrErr_ccu_out (c : cconn hstate) v : cc_hdrErr (ccu_out c v) = cc_hdrErr c. Proof. reflexivity. Qed.
Lemma cc_stateClosed_ccu_out (c : cconn hstate) v : cc_stateClosed (ccu_out c v) = cc_stateClosed c. Proof. reflexivity. Qed.
Lemma cc_closeRef_ccu_out (c : cconn hstate) v : cc_closeRef (ccu_out c v) = cc_closeRef c. Proof. reflexivity. Qed.
Lemma cc_reqQueued_ccu_out (c : cconn hstate) v : cc_reqQueued (ccu_out c v) = cc_reqQueued c. Proof. reflexivity. Qed.
Lemma cc_pending_ccu_out (c : cconn hstate) v : cc_pending (ccu_out c v) = cc_pending c. Proof. reflexivity. Qed.
Lemma cc_connWindow_ccu_out (c : cconn hstate) v : cc_connWindow (ccu_out c v) = cc_connWindow c. Proof. reflexivity. Qed.
Lemma cc_streamWindow_ccu_out (c : cconn hstate) v : cc_streamWindow (ccu_out c v) = cc_streamWindow c. Proof. reflexivity. Qed.
Lemma cc_inQ_ccu_out (c : cconn hstate) v : cc_inQ (ccu_out c v) = cc_inQ c. Proof. reflexivity. Qed.
Lemma cc_outQ_ccu_out (c : cconn hstate) v : cc_outQ (ccu_out c v) = cc_outQ c. Proof. reflexivity. Qed.
Lemma cc_winCh_ccu_out (c : cconn hstate) v : cc_winCh (ccu_out c v) = cc_winCh c. Proof. reflexivity. Qed.
Lemma cc_lastErr_ccu_out (c : cconn hstate) v : cc_lastErr (ccu_out c v) = cc_lastErr c. Proof. reflexivity. Qed.
Lemma cc_unacks_ccu_out (c : cconn hstate) v : cc_unacks (ccu_out c v) = cc_unacks c. Proof. reflexivity. Qed.
Lemma cc_rl_done_ccu_out (c : cconn hstate) v : cc_rl_done (ccu_out c v) = cc_rl_done c. Proof. reflexivity. Qed.
Lemma cc_wl_done_ccu_out (c : cconn hstate) v : cc_wl_done (ccu_out c v) = cc_wl_done c. Proof. reflexivity. Qed.
Lemma cc_rl_stuck_ccu_out (c : cconn hstate) v : cc_rl_stuck (ccu_out c v) = cc_rl_stuck c. Proof. reflexivity. Qed.
Lemma cc_wl_stuck_ccu_out (c : cconn hstate) v : cc_wl_stuck (ccu_out c v) = cc_wl_stuck c. Proof. reflexivity. Qed.
Lemma cc_out_ccu_out (c : cconn hstate) v : cc_out (ccu_out c v) = v. Proof. reflexivity. Qed.
Lemma ct_tag_ctu_tag (x : cctx) v : ct_tag (ctu_tag x v) = v. Proof. reflexivity. Qed.
Lemma ct_req_ctu_tag (x : cctx) v : ct_req (ctu_tag x v) = ct_req x. Proof. reflexivity. Qed.
Lemma ct_resp_ctu_tag (x : cctx) v : ct_resp (ctu_tag x v) = ct_resp x. Proof. reflexivity. Qed.
Lemma ct_sid_ctu_tag (x : cctx) v : ct_sid (ctu_tag x v) = ct_sid x. Proof. reflexivity. Qed.
Lemma ct_conn_ctu_tag (x : cctx) v : ct_conn (ctu_tag x v) = ct_conn x. Proof. reflexivity. Qed.
Lemma ct_done_ctu_tag (x : cctx) v : ct_done (ctu_tag x v) = ct_done x. Proof. reflexivity. Qed.
Lemma ct_resolved_ctu_tag (x : cctx) v : ct_resolved (ctu_tag x v) = ct_resolved x. Proof. reflexivity. Qed.
Lemma ct_finished_ctu_tag (x : cctx) v : ct_finished (ctu_tag x v) = ct_finished x. Proof. reflexivity. Qed.
Lemma ct_err_ctu_tag (x : cctx) v : ct_err (ctu_tag x v) = ct_err x. Proof. reflexivity. Qed.
Lemma ct_armed_ctu_tag (x : cctx) v : ct_armed (ctu_tag x v) = ct_armed x. Proof. reflexivity. Qed.
Lemma ct_fired_ctu_tag (x : cctx) v : ct_fired (ctu_tag x v) = ct_fired x. Proof. reflexivity. Qed.
Lemma ct_cancelled_ctu_tag (x : cctx) v : ct_cancelled (ctu_tag x v) = ct_cancelled x. Proof. reflexivity. Qed.
Lemma ct_gotStatus_ctu_tag (x : cctx) v : ct_gotStatus (ctu_tag x v) = ct_gotStatus x. Proof. reflexivity. Qed.
Lemma ct_bodyClosed_ctu_tag (x : cctx) v : ct_bodyClosed (ctu_tag x v) = ct_bodyClosed x. Proof. reflexivity. Qed.
Lemma ct_writing_ctu_tag (x : cctx) v : ct_writing (ctu_tag x v) = ct_writing x. Proof. reflexivity. Qed.
Lemma ct_returned_ctu_tag (x : cctx) v : ct_returned (ctu_tag x v) = ct_returned x. Proof. reflexivity. Qed.
Lemma ct_pooled_ctu_tag (x : cctx) v : ct_pooled (ctu_tag x v) = ct_pooled x. Proof. reflexivity. Qed.
Lemma ct_lckStuck_ctu_tag (x : cctx) v : ct_lckStuck (ctu_tag x v) = ct_lckStuck x. Proof. reflexivity. Qed.
Lemma ct_tag_ctu_req (x : cctx) v : ct_tag (ctu_req x v) = ct_tag x. Proof. reflexivity. Qed.
Lemma ct_req_ctu_req (x : cctx) v : ct_req (ctu_req x v) = v. Proof. reflexivity. Qed.
Lemma ct_resp_ctu_req (x : cctx) v : ct_resp (ctu_req x v) = ct_resp x. Proof. reflexivity. Qed.
Lemma ct_sid_ctu_req (x : cctx) v : ct_sid (ctu_req x v) = ct_sid x. Proof. reflexivity. Qed.
Lemma ct_conn_ctu_req (x : cctx) v : ct_conn (ctu_req x v) = ct_conn x. Proof. reflexivity. Qed.
Lemma ct_done_ctu_req (x : cctx) v : ct_done (ctu_req x v) = ct_done x. Proof. reflexivity. Qed.
Lemma ct_resolved_ctu_req (x : cctx) v : ct_resolved (ctu_req x v) = ct_resolved x. Proof. reflexivity. Qed.
Lemma ct_finished_ctu_req (x : cctx) v : ct_finished (ctu_req x v) = ct_finished x. Proof. reflexivity. Qed.
Lemma ct_err_ctu_req (x : cctx) v : ct_err (ctu_req x v) = ct_err x. Proof. reflexivity. Qed.
Lemma ct_armed_ctu_req (x : cctx) v : ct_armed (ctu_req x v) = ct_armed x. Proof. reflexivity. Qed.
Lemma ct_fired_ctu_req (x : cctx) v : ct_fired (ctu_req x v) = ct_fired x. Proof. reflexivity. Qed.
Lemma ct_cancelled_ctu_req (x : cctx) v : ct_cancelled (ctu_req x v) = ct_cancelled x. Proof. reflexivity. Qed.
Lemma ct_gotStatus_ctu_req (x : cctx) v : ct_gotStatus (ctu_req x v) = ct_gotStatus x. Proof. reflexivity. Qed.
Lemma ct_bodyClosed_ctu_req (x : cctx) v : ct_bodyClosed (ctu_req x v) = ct_bodyClosed x. Proof. reflexivity. Qed.
Lemma ct_writing_ctu_req (x : cctx) v : ct_writing (ctu_req x v) = ct_writing x. Proof. reflexivity. Qed.
Lemma ct_returned_ctu_req (x : cctx) v : ct_returned (ctu_req x v) = ct_returned x. Proof. reflexivity. Qed.
Lemma ct_pooled_ctu_req (x : cctx) v : ct_pooled (ctu_req x v) = ct_pooled x. Proof. reflexivity. Qed.
Lemma ct_lckStuck_ctu_req (x : cctx) v : ct_lckStuck (ctu_req x v) = ct_lckStuck x. Proof. reflexivity. Qed.
Lemma ct_tag_ctu_resp (x : cctx) v : ct_tag (ctu_resp x v) = ct_tag x. Proof. reflexivity. Qed.
Lemma ct_req_ctu_resp (x : cctx) v : ct_req (ctu_resp x v) = ct_req x. Proof. reflexivity. Qed.
Lemma ct_resp_ctu_resp (x : cctx) v : ct_resp (ctu_resp x v) = v. Proof. reflexivity. Qed.
Lemma ct_sid_ctu_resp (x : cctx) v : ct_sid (ctu_resp x v) = ct_sid x. Proof. reflexivity. Qed.
Lemma ct_conn_ctu_resp (x : cctx) v : ct_conn (ctu_resp x v) = ct_conn x. Proof. reflexivity. Qed.
Lemma ct_done_ctu_resp (x : cctx) v : ct_done (ctu_resp x v) = ct_done x. Proof. reflexivity. Qed.
Lemma ct_resolved_ctu_resp (x : cctx) v : ct_resolved (ctu_resp x v) = ct_resolved x. Proof. reflexivity. Qed.
Lemma ct_finished_ctu_resp (x : cctx) v : ct_finished (ctu_resp x v) = ct_finished x. Proof. reflexivity. Qed.
Lemma ct_err_ctu_resp (x : cctx) v : ct_err (ctu_resp x v) = ct_err x. Proof. reflexivity. Qed.
Lemma ct_armed_ctu_resp (x : cctx) v : ct_armed (ctu_resp x v) = ct_armed x. Proof. reflexivity. Qed.
Lemma ct_fired_ctu_resp (x : cctx) v : ct_fired (ctu_resp x v) = ct_fired x. Proof. reflexivity. Qed.
Lemma ct_cancelled_ctu_resp (x : cctx) v : ct_cancelled (ctu_resp x v) = ct_cancelled x. Proof. reflexivity. Qed.
Lemma ct_gotStatus_ctu_resp (x : cctx) v : ct_gotStatus (ctu_resp x v) = ct_gotStatus x. Proof. reflexivity. Qed.
Lemma ct_bodyClosed_ctu_resp (x : cctx) v : ct_bodyClosed (ctu_resp x v) = ct_bodyClosed x. Proof. reflexivity. Qed.
Lemma ct_writing_ctu_resp (x : cctx) v : ct_writing (ctu_resp x v) = ct_writing x. Proof. reflexivity. Qed.
Lemma ct_returned_ctu_resp (x : cctx) v : ct_returned (ctu_resp x v) = ct_returned x. Proof. reflexivity. Qed.
Lemma ct_pooled_ctu_resp (x : cctx) v : ct_pooled (ctu_resp x v) = ct_pooled x. Proof. reflexivity. Qed.
Lemma ct_lckStuck_ctu_resp (x : cctx) v : ct_lckStuck (ctu_resp x v) = ct_lckStuck x. Proof. reflexivity. Qed.
Lemma ct_tag_ctu_sid (x : cctx) v : ct_tag (ctu_sid x v) = ct_tag x. Proof. reflexivity. Qed.
Lemma ct_req_ctu_sid (x : cctx) v : ct_req (ctu_sid x v) = ct_req x. Proof. reflexivity. Qed.
Lemma ct_resp_ctu_sid (x : cctx) v : ct_resp (ctu_sid x v) = ct_resp x. Proof. reflexivity. Qed.
Lemma ct_sid_ctu_sid (x : cctx) v : ct_sid (ctu_sid x v) = v. Proof. reflexivity. Qed.
Lemma ct_conn_ctu_sid (x : cctx) v : ct_conn (ctu_sid x v) = ct_conn x. Proof. reflexivity. Qed.
Lemma ct_done_ctu_sid (x : cctx) v : ct_done (ctu_sid x v) = ct_done x. Proof. reflexivity. Qed.
Lemma ct_resolved_ctu_sid (x : cctx) v : ct_resolved (ctu_sid x v) = ct_resolved x. Proof. reflexivity. Qed.
Lemma ct_finished_ctu_sid (x : cctx) v : ct_finished (ctu_sid x v) = ct_finished x. Proof. reflexivity. Qed.
Lemma ct_err_ctu_sid (x : cctx) v : ct_err (ctu_sid x v) = ct_err x. Proof. reflexivity. Qed.
Lemma ct_armed_ctu_sid (x : cctx) v : ct_armed (ctu_sid x v) = ct_armed x. Proof. reflexivity. Qed.
Lemma ct_fired_ctu_sid (x : cctx) v : ct_fired (ctu_sid x v) = ct_fired x. Proof. reflexivity. Qed.
Lemma ct_cancelled_ctu_sid (x : cctx) v : ct_cancelled (ctu_sid x v) = ct_cancelled x. Proof. reflexivity. Qed.
Lemma ct_gotStatus_ctu_sid (x : cctx) v : ct_gotStatus (ctu_sid x v) = ct_gotStatus x. Proof. reflexivity. Qed.
Lemma ct_bodyClosed_ctu_sid (x : cctx) v : ct_bodyClosed (ctu_sid x v) = ct_bodyClosed x. Proof. reflexivity. Qed.
Lemma ct_writing_ctu_sid (x : cctx) v : ct_writing (ctu_sid x v) = ct_writing x. Proof. reflexivity. Qed.
Lemma ct_returned_ctu_sid (x : cctx) v : ct_returned (ctu_sid x v) = ct_returned x. Proof. reflexivity. Qed.
Lemma ct_pooled_ctu_sid (x : cctx) v : ct_pooled (ctu_sid x v) = ct_pooled x. Proof. reflexivity. Qed.
Lemma ct_lckStuck_ctu_sid (x : cctx) v : ct_lckStuck (ctu_sid x v) = ct_lckStuck x. Proof. reflexivity. Qed.
Lemma ct_tag_ctu_conn (x : cctx) v : ct_tag (ctu_conn x v) = ct_tag x. Proof. reflexivity. Qed.
Lemma ct_req_ctu_conn (x : cctx) v : ct_req (ctu_conn x v) = ct_req x. Proof. reflexivity. Qed.
Lemma ct_resp_ctu_conn (x : cctx) v : ct_resp (ctu_conn x v) = ct_resp x. Proof. reflexivity. Qed.
Lemma ct_sid_ctu_conn (x : cctx) v : ct_sid (ctu_conn x v) = ct_sid x. Proof. reflexivity. Qed.
Lemma ct_conn_ctu_conn (x : cctx) v : ct_conn (ctu_conn x v) = v. Proof. reflexivity. Qed.
Lemma ct_done_ctu_conn (x : cctx) v : ct_done (ctu_conn x v) = ct_done x. Proof. reflexivity. Qed.
Lemma ct_resolved_ctu_conn (x : cctx) v : ct_resolved (ctu_conn x v) = ct_resolved x. Proof. reflexivity. Qed.
Lemma ct_finished_ctu_conn (x : cctx) v : ct_finished (ctu_conn x v) = ct_finished x. Proof. reflexivity. Qed.
Lemma ct_err_ctu_conn (x : cctx) v : ct_err (ctu_conn x v) = ct_err x. Proof. reflexivity. Qed.
Lemma ct_armed_ctu_conn (x : cctx) v : ct_armed (ctu_conn x v) = ct_armed x. Proof. reflexivity. Qed.
Lemma ct_fired_ctu_conn (x : cctx) v : ct_fired (ctu_conn x v) = ct_fired x. Proof. reflexivity. Qed.
Lemma ct_cancelled_ctu_conn (x : cctx) v : ct_cancelled (ctu_conn x v) = ct_cancelled x. Proof. reflexivity. Qed.
Lemma ct_gotStatus_ctu_conn (x : cctx) v : ct_gotStatus (ctu_conn x v) = ct_gotStatus x. Proof. reflexivity. Qed.
Lemma ct_bodyClosed_ctu_conn (x : cctx) v : ct_bodyClosed (ctu_conn x v) = ct_bodyClosed x. Proof. reflexivity. Qed.
Lemma ct_writing_ctu_conn (x : cctx) v : ct_writing (ctu_conn x v) = ct_writing x. Proof. reflexivity. Qed.
Lemma ct_returned_ctu_conn (x : cctx) v : ct_returned (ctu_conn x v) = ct_returned x. Proof. reflexivity. Qed.
Lemma ct_pooled_ctu_conn (x : cctx) v : ct_pooled (ctu_conn x v) = ct_pooled x. Proof. reflexivity. Qed.
Lemma ct_lckStuck_ctu_conn (x : cctx) v : ct_lckStuck (ctu_conn x v) = ct_lckStuck x. Proof. reflexivity. Qed.
Lemma ct_tag_ctu_done (x : cctx) v : ct_tag (ctu_done x v) = ct_tag x. Proof. reflexivity. Qed.
Lemma ct_req_ctu_done (x : cctx) v : ct_req (ctu_done x v) = ct_req x. Proof. reflexivity. Qed.
Lemma ct_resp_ctu_done (x : cctx) v : ct_resp (ctu_done x v) = ct_resp x. Proof. reflexivity. Qed.
Lemma ct_sid_ctu_done (x : cctx) v : ct_sid (ctu_done x v) = ct_sid x. Proof. reflexivity. Qed.
Lemma ct_conn_ctu_done (x : cctx) v : ct_conn (ctu_done x v) = ct_conn x. Proof. reflexivity. Qed.
Lemma ct_done_ctu_done (x : cctx) v : ct_done (ctu_done x v) = v. Proof. reflexivity. Qed.
Lemma ct_resolved_ctu_done (x : cctx) v : ct_resolved (ctu_done x v) = ct_resolved x. Proof. reflexivity. Qed.
Lemma ct_finished_ctu_done (x : cctx) v : ct_finished (ctu_done x v) = ct_finished x. Proof. reflexivity. Qed.
Lemma ct_err_ctu_done (x : cctx) v : ct_err (ctu_done x v) = ct_err x. Proof. reflexivity. Qed.
Lemma ct_armed_ctu_done (x : cctx) v : ct_armed (ctu_done x v) = ct_armed x. Proof. reflexivity. Qed.
Lemma ct_fired_ctu_done (x : cctx) v : ct_fired (ctu_done x v) = ct_fired x. Proof. reflexivity. Qed.
Lemma ct_cancelled_ctu_done (x : cctx) v : ct_cancelled (ctu_done x v) = ct_cancelled x. Proof. reflexivity. Qed.
Lemma ct_gotStatus_ctu_done (x : cctx) v : ct_gotStatus (ctu_done x v) = ct_gotStatus x. Proof. reflexivity. Qed.
Lemma ct_bodyClosed_ctu_done (x : cctx) v : ct_bodyClosed (ctu_done x v) = ct_bodyClosed x. Proof. reflexivity. Qed.
Lemma ct_writing_ctu_done (x : cctx) v : ct_writing (ctu_done x v) = ct_writing x. Proof. reflexivity. Qed.
Lemma ct_returned_ctu_done (x : cctx) v : ct_returned (ctu_done x v) = ct_returned x. Proof. reflexivity. Qed.
Lemma ct_pooled_ctu_done (x : cctx) v : ct_pooled (ctu_done x v) = ct_pooled x. Proof. reflexivity. Qed.
Lemma ct_lckStuck_ctu_done (x : cctx) v : ct_lckStuck (ctu_done x v) = ct_lckStuck x. Proof. reflexivity. Qed.
Lemma ct_tag_ctu_resolved (x : cctx) v : ct_tag (ctu_resolved x v) = ct_tag x. Proof. reflexivity. Qed.
Lemma ct_req_ctu_resolved (x : cctx) v : ct_req (ctu_resolved x v) = ct_req x. Proof. reflexivity. Qed.
Lemma ct_resp_ctu_resolved (x : cctx) v : ct_resp (ctu_resolved x v) = ct_resp x. Proof. reflexivity. Qed.
Lemma ct_sid_ctu_resolved (x : cctx) v : ct_sid (ctu_resolved x v) = ct_sid x. Proof. reflexivity. Qed.
Lemma ct_conn_ctu_resolved (x : cctx) v : ct_conn (ctu_resolved x v) = ct_conn x. Proof. reflexivity. Qed.
Lemma ct_done_ctu_resolved (x : cctx) v : ct_done (ctu_resolved x v) = ct_done x. Proof. reflexivity. Qed.
Lemma ct_resolved_ctu_resolved (x : cctx) v : ct_resolved (ctu_resolved x v) = v. Proof. reflexivity. Qed.
Lemma ct_finished_ctu_resolved (x : cctx) v : ct_finished (ctu_resolved x v) = ct_finished x. Proof. reflexivity. Qed.
Lemma ct_err_ctu_resolved (x : cctx) v : ct_err (ctu_resolved x v) = ct_err x. Proof. reflexivity. Qed.
Lemma ct_armed_ctu_resolved (x : cctx) v : ct_armed (ctu_resolved x v) = ct_armed x. Proof. reflexivity. Qed.
Lemma ct_fired_ctu_resolved (x : cctx) v : ct_fired (ctu_resolved x v) = ct_fired x. Proof. reflexivity. Qed.
Lemma ct_cancelled_ctu_resolved (x : cctx) v : ct_cancelled (ctu_resolved x v) = ct_cancelled x. Proof. reflexivity. Qed.
Lemma ct_gotStatus_ctu_resolved (x : cctx) v : ct_gotStatus (ctu_resolved x v) = ct_gotStatus x. Proof. reflexivity. Qed.
Lemma ct_bodyClosed_ctu_resolved (x : cctx) v : ct_bodyClosed (ctu_resolved x v) = ct_bodyClosed x. Proof. reflexivity. Qed.
Lemma ct_writing_ctu_resolved (x : cctx) v : ct_writing (ctu_resolved x v) = ct_writing x. Proof. reflexivity. Qed.
Lemma ct_returned_ctu_resolved (x : cctx) v : ct_returned (ctu_resolved x v) = ct_returned x. Proof. reflexivity. Qed.
Lemma ct_pooled_ctu_resolved (x : cctx) v : ct_pooled (ctu_resolved x v) = ct_pooled x. Proof. reflexivity. Qed.
Lemma ct_lckStuck_ctu_resolved (x : cctx) v : ct_lckStuck (ctu_resolved x v) = ct_lckStuck x. Proof. reflexivity. Qed.
Lemma ct_tag_ctu_finished (x : cctx) v : ct_tag (ctu_finished x v) = ct_tag x. Proof. reflexivity. Qed.
Lemma ct_req_ctu_finished (x : cctx) v : ct_req (ctu_finished x v) = ct_req x. Proof. reflexivity. Qed.
Lemma ct_resp_ctu_finished (x : cctx) v : ct_resp (ctu_finished x v) = ct_resp x. Proof. reflexivity. Qed.
Lemma ct_sid_ctu_finished (x : cctx) v : ct_sid (ctu_finished x v) = ct_sid x. Proof. reflexivity. Qed.
Lemma ct_conn_ctu_finished (x : cctx) v : ct_conn (ctu_finished x v) = ct_conn x. Proof. reflexivity. Qed.
Lemma ct_done_ctu_finished (x : cctx) v : ct_done (ctu_finished x v) = ct_done x. Proof. reflexivity. Qed.
Lemma ct_resolved_ctu_finished (x : cctx) v : ct_resolved (ctu_finished x v) = ct_resolved x. Proof. reflexivity. Qed.
Lemma ct_finished_ctu_finished (x : cctx) v : ct_finished (ctu_finished x v) = v. Proof. reflexivity. Qed.
Lemma ct_err_ctu_finished (x : cctx) v : ct_err (ctu_finished x v) = ct_err x. Proof. reflexivity. Qed.
Lemma ct_armed_ctu_finished (x : cctx) v : ct_armed (ctu_finished x v) = ct_armed x. Proof. reflexivity. Qed.
Lemma ct_fired_ctu_finished (x : cctx) v : ct_fired (ctu_finished x v) = ct_fired x. Proof. reflexivity. Qed.
Lemma ct_cancelled_ctu_finished (x : cctx) v : ct_cancelled (ctu_finished x v) = ct_cancelled x. Proof. reflexivity. Qed.
Lemma ct_gotStatus_ctu_finished (x : cctx) v : ct_gotStatus (ctu_finished x v) = ct_gotStatus x. Proof. reflexivity. Qed.
Lemma ct_bodyClosed_ctu_finished (x : cctx) v : ct_bodyClosed (ctu_finished x v) = ct_bodyClosed x. Proof. reflexivity. Qed.
Lemma ct_writing_ctu_finished (x : cctx) v : ct_writing (ctu_finished x v) = ct_writing x. Proof. reflexivity. Qed.
Lemma ct_returned_ctu_finished (x : cctx) v : ct_returned (ctu_finished x v) = ct_returned x. Proof. reflexivity. Qed.
Lemma ct_pooled_ctu_finished (x : cctx) v : ct_pooled (ctu_finished x v) = ct_pooled x. Proof. reflexivity. Qed.
Lemma ct_lckStuck_ctu_finished (x : cctx) v : ct_lckStuck (ctu_finished x v) = ct_lckStuck x. Proof. reflexivity. Qed.
Lemma ct_tag_ctu_err (x : cctx) v : ct_tag (ctu_err x v) = ct_tag x. Proof. reflexivity. Qed.
Lemma ct_req_ctu_err (x : cctx) v : ct_req (ctu_err x v) = ct_req x. Proof. reflexivity. Qed.
Lemma ct_resp_ctu_err (x : cctx) v : ct_resp (ctu_err x v) = ct_resp x. Proof. reflexivity. Qed.
Lemma ct_sid_ctu_err (x : cctx) v : ct_sid (ctu_err x v) = ct_sid x. Proof. reflexivity. Qed.
Lemma ct_conn_ctu_err (x : cctx) v : ct_conn (ctu_err x v) = ct_conn x. Proof. reflexivity. Qed.
Lemma ct_done_ctu_err (x : cctx) v : ct_done (ctu_err x v) = ct_done x. Proof. reflexivity. Qed.
Lemma ct_resolved_ctu_err (x : cctx) v : ct_resolved (ctu_err x v) = ct_resolved x. Proof. reflexivity. Qed.
Lemma ct_finished_ctu_err (x : cctx) v : ct_finished (ctu_err x v) = ct_finished x. Proof. reflexivity. Qed.
Lemma ct_err_ctu_err (x : cctx) v : ct_err (ctu_err x v) = v. Proof. reflexivity. Qed.
Lemma ct_armed_ctu_err (x : cctx) v : ct_armed (ctu_err x v) = ct_armed x. Proof. reflexivity. Qed.
Lemma ct_fired_ctu_err (x : cctx) v : ct_fired (ctu_err x v) = ct_fired x. Proof. reflexivity. Qed.
Lemma ct_cancelled_ctu_err (x : cctx) v : ct_cancelled (ctu_err x v) = ct_cancelled x. Proof. reflexivity. Qed.
Lemma ct_gotStatus_ctu_err (x : cctx) v : ct_gotStatus (ctu_err x v) = ct_gotStatus x. Proof. reflexivity. Qed.
Lemma ct_bodyClosed_ctu_err (x : cctx) v : ct_bodyClosed (ctu_err x v) = ct_bodyClosed x. Proof. reflexivity. Qed.
Lemma ct_writing_ctu_err (x : cctx) v : ct_writing (ctu_err x v) = ct_writing x. Proof. reflexivity. Qed.
Lemma ct_returned_ctu_err (x : cctx) v : ct_returned (ctu_err x v) = ct_returned x. Proof. reflexivity. Qed.
Lemma ct_pooled_ctu_err (x : cctx) v : ct_pooled (ctu_err x v) = ct_pooled x. Proof. reflexivity. Qed.
Lemma ct_lckStuck_ctu_err (x : cctx) v : ct_lckStuck (ctu_err x v) = ct_lckStuck x. Proof. reflexivity. Qed.
Lemma ct_tag_ctu_armed (x : cctx) v : ct_tag (ctu_armed x v) = ct_tag x. Proof. reflexivity. Qed.
Lemma ct_req_ctu_armed (x : cctx) v : ct_req (ctu_armed x v) = ct_req x. Proof. reflexivity. Qed.
Lemma ct_resp_ctu_armed (x : cctx) v : ct_resp (ctu_armed x v) = ct_resp x. Proof. reflexivity. Qed.
Lemma ct_sid_ctu_armed (x : cctx) v : ct_sid (ctu_armed x v) = ct_sid x. Proof. reflexivity. Qed.
Lemma ct_conn_ctu_armed (x : cctx) v : ct_conn (ctu_armed x v) = ct_conn x. Proof. reflexivity. Qed.
Lemma ct_done_ctu_armed (x : cctx) v : ct_done (ctu_armed x v) = ct_done x. Proof. reflexivity. Qed.
Lemma ct_resolved_ctu_armed (x : cctx) v : ct_resolved (ctu_armed x v) = ct_resolved x. Proof. reflexivity. Qed.
Lemma ct_finished_ctu_armed (x : cctx) v : ct_finished (ctu_armed x v) = ct_finished x. Proof. reflexivity. Qed.
Lemma ct_err_ctu_armed (x : cctx) v : ct_err (ctu_armed x v) = ct_err x. Proof. reflexivity. Qed.
Lemma ct_armed_ctu_armed (x : cctx) v : ct_armed (ctu_armed x v) = v. Proof. reflexivity. Qed.
Lemma ct_fired_ctu_armed (x : cctx) v : ct_fired (ctu_armed x v) = ct_fired x. Proof. reflexivity. Qed.
Lemma ct_cancelled_ctu_armed (x : cctx) v : ct_cancelled (ctu_armed x v) = ct_cancelled x. Proof. reflexivity. Qed.
Lemma ct_gotStatus_ctu_armed (x : cctx) v : ct_gotStatus (ctu_armed x v) = ct_gotStatus x. Proof. reflexivity. Qed.
Lemma ct_bodyClosed_ctu_armed (x : cctx) v : ct_bodyClosed (ctu_armed x v) = ct_bodyClosed x. Proof. reflexivity. Qed.
Lemma ct_writing_ctu_armed (x : cctx) v : ct_writing (ctu_armed x v) = ct_writing x. Proof. reflexivity. Qed.
Lemma ct_returned_ctu_armed (x : cctx) v : ct_returned (ctu_armed x v) = ct_returned x. Proof. reflexivity. Qed.
Lemma ct_pooled_ctu_armed (x : cctx) v : ct_pooled (ctu_armed x v) = ct_pooled x. Proof. reflexivity. Qed.
Lemma ct_lckStuck_ctu_armed (x : cctx) v : ct_lckStuck (ctu_armed x v) = ct_lckStuck x. Proof. reflexivity. Qed.
Lemma ct_tag_ctu_fired (x : cctx) v : ct_tag (ctu_fired x v) = ct_tag x. Proof. reflexivity. Qed.
Lemma ct_req_ctu_fired (x : cctx) v : ct_req (ctu_fired x v) = ct_req x. Proof. reflexivity. Qed.
Lemma ct_resp_ctu_fired (x : cctx) v : ct_resp (ctu_fired x v) = ct_resp x. Proof. reflexivity. Qed.
Lemma ct_sid_ctu_fired (x : cctx) v : ct_sid (ctu_fired x v) = ct_sid x. Proof. reflexivity. Qed.
Lemma ct_conn_ctu_fired (x : cctx) v : ct_conn (ctu_fired x v) = ct_conn x. Proof. reflexivity. Qed.
Lemma ct_done_ctu_fired (x : cctx) v : ct_done (ctu_fired x v) = ct_done x. Proof. reflexivity. Qed.
Lemma ct_resolved_ctu_fired (x : cctx) v : ct_resolved (ctu_fired x v) = ct_resolved x. Proof. reflexivity. Qed.
Lemma ct_finished_ctu_fired (x : cctx) v : ct_finished (ctu_fired x v) = ct_finished x. Proof. reflexivity. Qed.
Lemma ct_err_ctu_fired (x : cctx) v : ct_err (ctu_fired x v) = ct_err x. Proof. reflexivity. Qed.
Lemma ct_armed_ctu_fired (x : cctx) v : ct_armed (ctu_fired x v) = ct_armed x. Proof. reflexivity. Qed.
Lemma ct_fired_ctu_fired (x : cctx) v : ct_fired (ctu_fired x v) = v. Proof. reflexivity. Qed.
Lemma ct_cancelled_ctu_fired (x : cctx) v : ct_cancelled (ctu_fired x v) = ct_cancelled x. Proof. reflexivity. Qed.
Lemma ct_gotStatus_ctu_fired (x : cctx) v : ct_gotStatus (ctu_fired x v) = ct_gotStatus x. Proof. reflexivity. Qed.
Lemma ct_bodyClosed_ctu_fired (x : cctx) v : ct_bodyClosed (ctu_fired x v) = ct_bodyClosed x. Proof. reflexivity. Qed.
Lemma ct_writing_ctu_fired (x : cctx) v : ct_writing (ctu_fired x v) = ct_writing x. Proof. reflexivity. Qed.
Lemma ct_returned_ctu_fired (x : cctx) v : ct_returned (ctu_fired x v) = ct_returned x. Proof. reflexivity. Qed.
Lemma ct_pooled_ctu_fired (x : cctx) v : ct_pooled (ctu_fired x v) = ct_pooled x. Proof. reflexivity. Qed.
Lemma ct_lckStuck_ctu_fired (x : cctx) v : ct_lckStuck (ctu_fired x v) = ct_lckStuck x. Proof. reflexivity. Qed.
Lemma ct_tag_ctu_cancelled (x : cctx) v : ct_tag (ctu_cancelled x v) = ct_tag x. Proof. reflexivity. Qed.
Lemma ct_req_ctu_cancelled (x : cctx) v : ct_req (ctu_cancelled x v) = ct_req x. Proof. reflexivity. Qed.
Lemma ct_resp_ctu_cancelled (x : cctx) v : ct_resp (ctu_cancelled x v) = ct_resp x. Proof. reflexivity. Qed.
Lemma ct_sid_ctu_cancelled (x : cctx) v : ct_sid (ctu_cancelled x v) = ct_sid x. Proof. reflexivity. Qed.
Lemma ct_conn_ctu_cancelled (x : cctx) v : ct_conn (ctu_cancelled x v) = ct_conn x. Proof. reflexivity. Qed.
Lemma ct_done_ctu_cancelled (x : cctx) v : ct_done (ctu_cancelled x v) = ct_done x. Proof. reflexivity. Qed.
Lemma ct_resolved_ctu_cancelled (x : cctx) v : ct_resolved (ctu_cancelled x v) = ct_resolved x. Proof. reflexivity. Qed.
Lemma ct_finished_ctu_cancelled (x : cctx) v : ct_finished (ctu_cancelled x v) = ct_finished x. Proof. reflexivity. Qed.
Lemma ct_err_ctu_cancelled (x : cctx) v : ct_err (ctu_cancelled x v) = ct_err x. Proof. reflexivity. Qed.
Lemma ct_armed_ctu_cancelled (x : cctx) v : ct_armed (ctu_cancelled x v) = ct_armed x. Proof. reflexivity. Qed.
Lemma ct_fired_ctu_cancelled (x : cctx) v : ct_fired (ctu_cancelled x v) = ct_fired x. Proof. reflexivity. Qed.
Lemma ct_cancelled_ctu_cancelled (x : cctx) v : ct_cancelled (ctu_cancelled x v) = v. Proof. reflexivity. Qed.
Lemma ct_gotStatus_ctu_cancelled (x : cctx) v : ct_gotStatus (ctu_cancelled x v) = ct_gotStatus x. Proof. reflexivity. Qed.
Lemma ct_bodyClosed_ctu_cancelled (x : cctx) v : ct_bodyClosed (ctu_cancelled x v) = ct_bodyClosed x. Proof. reflexivity. Qed.
Lemma ct_writing_ctu_cancelled (x : cctx) v : ct_writing (ctu_cancelled x v) = ct_writing x. Proof. reflexivity. Qed.
Lemma ct_returned_ctu_cancelled (x : cctx) v : ct_returned (ctu_cancelled x v) = ct_returned x. Proof. reflexivity. Qed.
Lemma ct_pooled_ctu_cancelled (x : cctx) v : ct_pooled (ctu_cancelled x v) = ct_pooled x. Proof. reflexivity. Qed.
Lemma ct_lckStuck_ctu_cancelled (x : cctx) v : ct_lckStuck (ctu_cancelled x v) = ct_lckStuck x. Proof. reflexivity. Qed.
Lemma ct_tag_ctu_gotStatus (x : cctx) v : ct_tag (ctu_gotStatus x v) = ct_tag x. Proof. reflexivity. Qed.
Lemma ct_req_ctu_gotStatus (x : cctx) v : ct_req (ctu_gotStatus x v) = ct_req x. Proof. reflexivity. Qed.
Lemma ct_resp_ctu_gotStatus (x : cctx) v : ct_resp (ctu_gotStatus x v) = ct_resp x. Proof. reflexivity. Qed.
Lemma ct_sid_ctu_gotStatus (x : cctx) v : ct_sid (ctu_gotStatus x v) = ct_sid x. Proof. reflexivity. Qed.
Lemma ct_conn_ctu_gotStatus (x : cctx) v : ct_conn (ctu_gotStatus x v) = ct_conn x. Proof. reflexivity. Qed.
Lemma ct_done_ctu_gotStatus (x : cctx) v : ct_done (ctu_gotStatus x v) = ct_done x. Proof. reflexivity. Qed.
Lemma ct_resolved_ctu_gotStatus (x : cctx) v : ct_resolved (ctu_gotStatus x v) = ct_resolved x. Proof. reflexivity. Qed.
Lemma ct_finished_ctu_gotStatus (x : cctx) v : ct_finished (ctu_gotStatus x v) = ct_finished x. Proof. reflexivity. Qed.
Lemma ct_err_ctu_gotStatus (x : cctx) v : ct_err (ctu_gotStatus x v) = ct_err x. Proof. reflexivity. Qed.
Lemma ct_armed_ctu_gotStatus (x : cctx) v : ct_armed (ctu_gotStatus x v) = ct_armed x. Proof. reflexivity. Qed.
Lemma ct_fired_ctu_gotStatus (x : cctx) v : ct_fired (ctu_gotStatus x v) = ct_fired x. Proof. reflexivity. Qed.
Lemma ct_cancelled_ctu_gotStatus (x : cctx) v : ct_cancelled (ctu_gotStatus x v) = ct_cancelled x. Proof. reflexivity. Qed.
Lemma ct_gotStatus_ctu_gotStatus (x : cctx) v : ct_gotStatus (ctu_gotStatus x v) = v. Proof. reflexivity. Qed.
Lemma ct_bodyClosed_ctu_gotStatus (x : cctx) v : ct_bodyClosed (ctu_gotStatus x v) = ct_bodyClosed x. Proof. reflexivity. Qed.
Lemma ct_writing_ctu_gotStatus (x : cctx) v : ct_writing (ctu_gotStatus x v) = ct_writing x. Proof. reflexivity. Qed.
Lemma ct_returned_ctu_gotStatus (x : cctx) v : ct_returned (ctu_gotStatus x v) = ct_returned x. Proof. reflexivity. Qed.
Lemma ct_pooled_ctu_gotStatus (x : cctx) v : ct_pooled (ctu_gotStatus x v) = ct_pooled x. Proof. reflexivity. Qed.
Lemma ct_lckStuck_ctu_gotStatus (x : cctx) v : ct_lckStuck (ctu_gotStatus x v) = ct_lckStuck x. Proof. reflexivity. Qed.
Lemma ct_tag_ctu_bodyClosed (x : cctx) v : ct_tag (ctu_bodyClosed x v) = ct_tag x. Proof. reflexivity. Qed.
Lemma ct_req_ctu_bodyClosed (x : cctx) v : ct_req (ctu_bodyClosed x v) = ct_req x. Proof. reflexivity. Qed.
Lemma ct_resp_ctu_bodyClosed (x : cctx) v : ct_resp (ctu_bodyClosed x v) = ct_resp x. Proof. reflexivity. Qed.
Lemma ct_sid_ctu_bodyClosed (x : cctx) v : ct_sid (ctu_bodyClosed x v) = ct_sid x. Proof. reflexivity. Qed.
Lemma ct_conn_ctu_bodyClosed (x : cctx) v : ct_conn (ctu_bodyClosed x v) = ct_conn x. Proof. reflexivity. Qed.
Lemma ct_done_ctu_bodyClosed (x : cctx) v : ct_done (ctu_bodyClosed x v) = ct_done x. Proof. reflexivity. Qed.
Lemma ct_resolved_ctu_bodyClosed (x : cctx) v : ct_resolved (ctu_bodyClosed x v) = ct_resolved x. Proof. reflexivity. Qed.
Lemma ct_finished_ctu_bodyClosed (x : cctx) v : ct_finished (ctu_bodyClosed x v) = ct_finished x. Proof. reflexivity. Qed.
Lemma ct_err_ctu_bodyClosed (x : cctx) v : ct_err (ctu_bodyClosed x v) = ct_err x. Proof. reflexivity. Qed.
Lemma ct_armed_ctu_bodyClosed (x : cctx) v : ct_armed (ctu_bodyClosed x v) = ct_armed x. Proof. reflexivity. Qed.
Lemma ct_fired_ctu_bodyClosed (x : cctx) v : ct_fired (ctu_bodyClosed x v) = ct_fired x. Proof. reflexivity. Qed.
Lemma ct_cancelled_ctu_bodyClosed (x : cctx) v : ct_cancelled (ctu_bodyClosed x v) = ct_cancelled x. Proof. reflexivity. Qed.
Lemma ct_gotStatus_ctu_bodyClosed (x : cctx) v : ct_gotStatus (ctu_bodyClosed x v) = ct_gotStatus x. Proof. reflexivity. Qed.
Lemma ct_bodyClosed_ctu_bodyClosed (x : cctx) v : ct_bodyClosed (ctu_bodyClosed x v) = v. Proof. reflexivity. Qed.
Lemma ct_writing_ctu_bodyClosed (x : cctx) v : ct_writing (ctu_bodyClosed x v) = ct_writing x. Proof. reflexivity. Qed.
Lemma ct_returned_ctu_bodyClosed (x : cctx) v : ct_returned (ctu_bodyClosed x v) = ct_returned x. Proof. reflexivity. Qed.
Lemma ct_pooled_ctu_bodyClosed (x : cctx) v : ct_pooled (ctu_bodyClosed x v) = ct_pooled x. Proof. reflexivity. Qed.
Lemma ct_lckStuck_ctu_bodyClosed (x : cctx) v : ct_lckStuck (ctu_bodyClosed x v) = ct_lckStuck x. Proof. reflexivity. Qed.
Lemma ct_tag_ctu_writing (x : cctx) v : ct_tag (ctu_writing x v) = ct_tag x. Proof. reflexivity. Qed.
Lemma ct_req_ctu_writing (x : cctx) v : ct_req (ctu_writing x v) = ct_req x. Proof. reflexivity. Qed.
Lemma ct_resp_ctu_writing (x : cctx) v : ct_resp (ctu_writing x v) = ct_resp x. Proof. reflexivity. Qed.
Lemma ct_sid_ctu_writing (x : cctx) v : ct_sid (ctu_writing x v) = ct_sid x. Proof. reflexivity. Qed.
Lemma ct_conn_ctu_writing (x : cctx) v : ct_conn (ctu_writing x v) = ct_conn x. Proof. reflexivity. Qed.
Lemma ct_done_ctu_writing (x : cctx) v : ct_done (ctu_writing x v) = ct_done x. Proof. reflexivity. Qed.
Lemma ct_resolved_ctu_writing (x : cctx) v : ct_resolved (ctu_writing x v) = ct_resolved x. Proof. reflexivity. Qed.
Lemma ct_finished_ctu_writing (x : cctx) v : ct_finished (ctu_writing x v) = ct_finished x. Proof. reflexivity. Qed.
Lemma ct_err_ctu_writing (x : cctx) v : ct_err (ctu_writing x v) = ct_err x. Proof. reflexivity. Qed.
Lemma ct_armed_ctu_writing (x : cctx) v : ct_armed (ctu_writing x v) = ct_armed x. Proof. reflexivity. Qed.
Lemma ct_fired_ctu_writing (x : cctx) v : ct_fired (ctu_writing x v) = ct_fired x. Proof. reflexivity. Qed.
Lemma ct_cancelled_ctu_writing (x : cctx) v : ct_cancelled (ctu_writing x v) = ct_cancelled x. Proof. reflexivity. Qed.
Lemma ct_gotStatus_ctu_writing (x : cctx) v : ct_gotStatus (ctu_writing x v) = ct_gotStatus x. Proof. reflexivity. Qed.
Lemma ct_bodyClosed_ctu_writing (x : cctx) v : ct_bodyClosed (ctu_writing x v) = ct_bodyClosed x. Proof. reflexivity. Qed.
Lemma ct_writing_ctu_writing (x : cctx) v : ct_writing (ctu_writing x v) = v. Proof. reflexivity. Qed.
Lemma ct_returned_ctu_writing (x : cctx) v : ct_returned (ctu_writing x v) = ct_returned x. Proof. reflexivity. Qed.
Lemma ct_pooled_ctu_writing (x : cctx) v : ct_pooled (ctu_writing x v) = ct_pooled x. Proof. reflexivity. Qed.
Lemma ct_lckStuck_ctu_writing (x : cctx) v : ct_lckStuck (ctu_writing x v) = ct_lckStuck x. Proof. reflexivity. Qed.
Lemma ct_tag_ctu_returned (x : cctx) v : ct_tag (ctu_returned x v) = ct_tag x. Proof. reflexivity. Qed.
Lemma ct_req_ctu_returned (x : cctx) v : ct_req (ctu_returned x v) = ct_req x. Proof. reflexivity. Qed.
Lemma ct_resp_ctu_returned (x : cctx) v : ct_resp (ctu_returned x v) = ct_resp x. Proof. reflexivity. Qed.
Lemma ct_sid_ctu_returned (x : cctx) v : ct_sid (ctu_returned x v) = ct_sid x. Proof. reflexivity. Qed.
Lemma ct_conn_ctu_returned (x : cctx) v : ct_conn (ctu_returned x v) = ct_conn x. Proof. reflexivity. Qed.
Lemma ct_done_ctu_returned (x : cctx) v : ct_done (ctu_returned x v) = ct_done x. Proof. reflexivity. Qed.
Lemma ct_resolved_ctu_returned (x : cctx) v : ct_resolved (ctu_returned x v) = ct_resolved x. Proof. reflexivity. Qed.
Lemma ct_finished_ctu_returned (x : cctx) v : ct_finished (ctu_returned x v) = ct_finished x. Proof. reflexivity. Qed.
Lemma ct_err_ctu_returned (x : cctx) v : ct_err (ctu_returned x v) = ct_err x. Proof. reflexivity. Qed.
Lemma ct_armed_ctu_returned (x : cctx) v : ct_armed (ctu_returned x v) = ct_armed x. Proof. reflexivity. Qed.
Lemma ct_fired_ctu_returned (x : cctx) v : ct_fired (ctu_returned x v) = ct_fired x. Proof. reflexivity. Qed.
Lemma ct_cancelled_ctu_returned (x : cctx) v : ct_cancelled (ctu_returned x v) = ct_cancelled x. Proof. reflexivity. Qed.
Lemma ct_gotStatus_ctu_returned (x : cctx) v : ct_gotStatus (ctu_returned x v) = ct_gotStatus x. Proof. reflexivity. Qed.
Lemma ct_bodyClosed_ctu_returned (x : cctx) v : ct_bodyClosed (ctu_returned x v) = ct_bodyClosed x. Proof. reflexivity. Qed.
Lemma ct_writing_ctu_returned (x : cctx) v : ct_writing (ctu_returned x v) = ct_writing x. Proof. reflexivity. Qed.
Lemma ct_returned_ctu_returned (x : cctx) v : ct_returned (ctu_returned x v) = v. Proof. reflexivity. Qed.
Lemma ct_pooled_ctu_returned (x : cctx) v : ct_pooled (ctu_returned x v) = ct_pooled x. Proof. reflexivity. Qed.
Lemma ct_lckStuck_ctu_returned (x : cctx) v : ct_lckStuck (ctu_returned x v) = ct_lckStuck x. Proof. reflexivity. Qed.
Lemma ct_tag_ctu_pooled (x : cctx) v : ct_tag (ctu_pooled x v) = ct_tag x. Proof. reflexivity. Qed.
Lemma ct_req_ctu_pooled (x : cctx) v : ct_req (ctu_pooled x v) = ct_req x. Proof. reflexivity. Qed.
Lemma ct_resp_ctu_pooled (x : cctx) v : ct_resp (ctu_pooled x v) = ct_resp x. Proof. reflexivity. Qed.
Lemma ct_sid_ctu_pooled (x : cctx) v : ct_sid (ctu_pooled x v) = ct_sid x. Proof. reflexivity. Qed.
Lemma ct_conn_ctu_pooled (x : cctx) v : ct_conn (ctu_pooled x v) = ct_conn x. Proof. reflexivity. Qed.
Lemma ct_done_ctu_pooled (x : cctx) v : ct_done (ctu_pooled x v) = ct_done x. Proof. reflexivity. Qed.
Lemma ct_resolved_ctu_pooled (x : cctx) v : ct_resolved (ctu_pooled x v) = ct_resolved x. Proof. reflexivity. Qed.
Lemma ct_finished_ctu_pooled (x : cctx) v : ct_finished (ctu_pooled x v) = ct_finished x. Proof. reflexivity. Qed.
Lemma ct_err_ctu_pooled (x : cctx) v : ct_err (ctu_pooled x v) = ct_err x. Proof. reflexivity. Qed.
Lemma ct_armed_ctu_pooled (x : cctx) v : ct_armed (ctu_pooled x v) = ct_armed x. Proof. reflexivity. Qed.
Lemma ct_fired_ctu_pooled (x : cctx) v : ct_fired (ctu_pooled x v) = ct_fired x. Proof. reflexivity. Qed.
Lemma ct_cancelled_ctu_pooled (x : cctx) v : ct_cancelled (ctu_pooled x v) = ct_cancelled x. Proof. reflexivity. Qed.
Lemma ct_gotStatus_ctu_pooled (x : cctx) v : ct_gotStatus (ctu_pooled x v) = ct_gotStatus x. Proof. reflexivity. Qed.
Lemma ct_bodyClosed_ctu_pooled (x : cctx) v : ct_bodyClosed (ctu_pooled x v) = ct_bodyClosed x. Proof. reflexivity. Qed.
Lemma ct_writing_ctu_pooled (x : cctx) v : ct_writing (ctu_pooled x v) = ct_writing x. Proof. reflexivity. Qed.
Lemma ct_returned_ctu_pooled (x : cctx) v : ct_returned (ctu_pooled x v) = ct_returned x. Proof. reflexivity. Qed.
Lemma ct_pooled_ctu_pooled (x : cctx) v : ct_pooled (ctu_pooled x v) = v. Proof. reflexivity. Qed.
Lemma ct_lckStuck_ctu_pooled (x : cctx) v : ct_lckStuck (ctu_pooled x v) = ct_lckStuck x. Proof. reflexivity. Qed.
Lemma ct_tag_ctu_lckStuck (x : cctx) v : ct_tag (ctu_lckStuck x v) = ct_tag x. Proof. reflexivity. Qed.
Lemma ct_req_ctu_lckStuck (x : cctx) v : ct_req (ctu_lckStuck x v) = ct_req x. Proof. reflexivity. Qed.
Lemma ct_resp_ctu_lckStuck (x : cctx) v : ct_resp (ctu_lckStuck x v) = ct_resp x. Proof. reflexivity. Qed.
Lemma ct_sid_ctu_lckStuck (x : cctx) v : ct_sid (ctu_lckStuck x v) = ct_sid x. Proof. reflexivity. Qed.
Lemma ct_conn_ctu_lckStuck (x : cctx) v : ct_conn (ctu_lckStuck x v) = ct_conn x. Proof. reflexivity. Qed.
Lemma ct_done_ctu_lckStuck (x : cctx) v : ct_done (ctu_lckStuck x v) = ct_done x. Proof. reflexivity. Qed.
Lemma ct_resolved_ctu_lckStuck (x : cctx) v : ct_resolved (ctu_lckStuck x v) = ct_resolved x. Proof. reflexivity. Qed.
Lemma ct_finished_ctu_lckStuck (x : cctx) v : ct_finished (ctu_lckStuck x v) = ct_finished x. Proof. reflexivity. Qed.
Lemma ct_err_ctu_lckStuck (x : cctx) v : ct_err (ctu_lckStuck x v) = ct_err x. Proof. reflexivity. Qed.
Lemma ct_armed_ctu_lckStuck (x : cctx) v : ct_armed (ctu_lckStuck x v) = ct_armed x. Proof. reflexivity. Qed.
Lemma ct_fired_ctu_lckStuck (x : cctx) v : ct_fired (ctu_lckStuck x v) = ct_fired x. Proof. reflexivity. Qed.
Lemma ct_cancelled_ctu_lckStuck (x : cctx) v : ct_cancelled (ctu_lckStuck x v) = ct_cancelled x. Proof. reflexivity. Qed.
Lemma ct_gotStatus_ctu_lckStuck (x : cctx) v : ct_gotStatus (ctu_lckStuck x v) = ct_gotStatus x. Proof. reflexivity. Qed.
Lemma ct_bodyClosed_ctu_lckStuck (x : cctx) v : ct_bodyClosed (ctu_lckStuck x v) = ct_bodyClosed x. Proof. reflexivity. Qed.
Lemma ct_writing_ctu_lckStuck (x : cctx) v : ct_writing (ctu_lckStuck x v) = ct_writing x. Proof. reflexivity. Qed.
Lemma ct_returned_ctu_lckStuck (x : cctx) v : ct_returned (ctu_lckStuck x v) = ct_returned x. Proof. reflexivity. Qed.
Lemma ct_pooled_ctu_lckStuck (x : cctx) v : ct_pooled (ctu_lckStuck x v) = ct_pooled x. Proof. reflexivity. Qed.
Lemma ct_lckStuck_ctu_lckStuck (x : cctx) v : ct_lckStuck (ctu_lckStuck x v) = v. Proof. reflexivity. Qed.
Lemma pb_id_pbu_id (x : cpending) v : pb_id (pbu_id x v) = v. Proof. reflexivity. Qed.
Lemma pb_tag_pbu_id (x : cpending) v : pb_tag (pbu_id x v) = pb_tag x. Proof. reflexivity. Qed.
Lemma pb_body_pbu_id (x : cpending) v : pb_body (pbu_id x v) = pb_body x. Proof. reflexivity. Qed.
Lemma pb_window_pbu_id (x : cpending) v : pb_window (pbu_id x v) = pb_window x. Proof. reflexivity. Qed.
Lemma pb_stream_pbu_id (x : cpending) v : pb_stream (pbu_id x v) = pb_stream x. Proof. reflexivity. Qed.
Lemma pb_size_pbu_id (x : cpending) v : pb_size (pbu_id x v) = pb_size x. Proof. reflexivity. Qed.
Lemma pb_read_pbu_id (x : cpending) v : pb_read (pbu_id x v) = pb_read x. Proof. reflexivity. Qed.
Lemma pb_drained_pbu_id (x : cpending) v : pb_drained (pbu_id x v) = pb_drained x. Proof. reflexivity. Qed.
Lemma pb_id_pbu_tag (x : cpending) v : pb_id (pbu_tag x v) = pb_id x. Proof. reflexivity. Qed.
Lemma pb_tag_pbu_tag (x : cpending) v : pb_tag (pbu_tag x v) = v. Proof. reflexivity. Qed.
Lemma pb_body_pbu_tag (x : cpending) v : pb_body (pbu_tag x v) = pb_body x. Proof. reflexivity. Qed.
Lemma pb_window_pbu_tag (x : cpending) v : pb_window (pbu_tag x v) = pb_window x. Proof. reflexivity. Qed.
Lemma pb_stream_pbu_tag (x : cpending) v : pb_stream (pbu_tag x v) = pb_stream x. Proof. reflexivity. Qed.
Lemma pb_size_pbu_tag (x : cpending) v : pb_size (pbu_tag x v) = pb_size x. Proof. reflexivity. Qed.
Lemma pb_read_pbu_tag (x : cpending) v : pb_read (pbu_tag x v) = pb_read x. Proof. reflexivity. Qed.
Lemma pb_drained_pbu_tag (x : cpending) v : pb_drained (pbu_tag x v) = pb_drained x. Proof. reflexivity. Qed.
Lemma pb_id_pbu_body (x : cpending) v : pb_id (pbu_body x v) = pb_id x. Proof. reflexivity. Qed.
Lemma pb_tag_pbu_body (x : cpending) v : pb_tag (pbu_body x v) = pb_tag x. Proof. reflexivity. Qed.
Lemma pb_body_pbu_body (x : cpending) v : pb_body (pbu_body x v) = v. Proof. reflexivity. Qed.
Lemma pb_window_pbu_body (x : cpending) v : pb_window (pbu_body x v) = pb_window x. Proof. reflexivity. Qed.
Lemma pb_stream_pbu_body (x : cpending) v : pb_stream (pbu_body x v) = pb_stream x. Proof. reflexivity. Qed.
Lemma pb_size_pbu_body (x : cpending) v : pb_size (pbu_body x v) = pb_size x. Proof. reflexivity. Qed.
Lemma pb_read_pbu_body (x : cpending) v : pb_read (pbu_body x v) = pb_read x. Proof. reflexivity. Qed.
Lemma pb_drained_pbu_body (x : cpending) v : pb_drained (pbu_body x v) = pb_drained x. Proof. reflexivity. Qed.
Lemma pb_id_pbu_window (x : cpending) v : pb_id (pbu_window x v) = pb_id x. Proof. reflexivity. Qed.
Lemma pb_tag_pbu_window (x : cpending) v : pb_tag (pbu_window x v) = pb_tag x. Proof. reflexivity. Qed.
Lemma pb_body_pbu_window (x : cpending) v : pb_body (pbu_window x v) = pb_body x. Proof. reflexivity. Qed.
Lemma pb_window_pbu_window (x : cpending) v : pb_window (pbu_window x v) = v. Proof. reflexivity. Qed.
Lemma pb_stream_pbu_window (x : cpending) v : pb_stream (pbu_window x v) = pb_stream x. Proof. reflexivity. Qed.
Lemma pb_size_pbu_window (x : cpending) v : pb_size (pbu_window x v) = pb_size x. Proof. reflexivity. Qed.
Lemma pb_read_pbu_window (x : cpending) v : pb_read (pbu_window x v) = pb_read x. Proof. reflexivity. Qed.
Lemma pb_drained_pbu_window (x : cpending) v : pb_drained (pbu_window x v) = pb_drained x. Proof. reflexivity. Qed.
Lemma pb_id_pbu_stream (x : cpending) v : pb_id (pbu_stream x v) = pb_id x. Proof. reflexivity. Qed.
Lemma pb_tag_pbu_stream (x : cpending) v : pb_tag (pbu_stream x v) = pb_tag x. Proof. reflexivity. Qed.
Lemma pb_body_pbu_stream (x : cpending) v : pb_body (pbu_stream x v) = pb_body x. Proof. reflexivity. Qed.
Lemma pb_window_pbu_stream (x : cpending) v : pb_window (pbu_stream x v) = pb_window x. Proof. reflexivity. Qed.
Lemma pb_stream_pbu_stream (x : cpending) v : pb_stream (pbu_stream x v) = v. Proof. reflexivity. Qed.
Lemma pb_size_pbu_stream (x : cpending) v : pb_size (pbu_stream x v) = pb_size x. Proof. reflexivity. Qed.
Lemma pb_read_pbu_stream (x : cpending) v : pb_read (pbu_stream x v) = pb_read x. Proof. reflexivity. Qed.
Lemma pb_drained_pbu_stream (x : cpending) v : pb_drained (pbu_stream x v) = pb_drained x. Proof. reflexivity. Qed.
Lemma pb_id_pbu_size (x : cpending) v : pb_id (pbu_size x v) = pb_id x. Proof. reflexivity. Qed.
Lemma pb_tag_pbu_size (x : cpending) v : pb_tag (pbu_size x v) = pb_tag x. Proof. reflexivity. Qed.
Lemma pb_body_pbu_size (x : cpending) v : pb_body (pbu_size x v) = pb_body x. Proof. reflexivity. Qed.
Lemma pb_window_pbu_size (x : cpending) v : pb_window (pbu_size x v) = pb_window x. Proof. reflexivity. Qed.
Lemma pb_stream_pbu_size (x : cpending) v : pb_stream (pbu_size x v) = pb_stream x. Proof. reflexivity. Qed.
Lemma pb_size_pbu_size (x : cpending) v : pb_size (pbu_size x v) = v. Proof. reflexivity. Qed.
Lemma pb_read_pbu_size (x : cpending) v : pb_read (pbu_size x v) = pb_read x. Proof. reflexivity. Qed.
Lemma pb_drained_pbu_size (x : cpending) v : pb_drained (pbu_size x v) = pb_drained x. Proof. reflexivity. Qed.
Lemma pb_id_pbu_read (x : cpending) v : pb_id (pbu_read x v) = pb_id x. Proof. reflexivity. Qed.
Lemma pb_tag_pbu_read (x : cpending) v : pb_tag (pbu_read x v) = pb_tag x. Proof. reflexivity. Qed.
Lemma pb_body_pbu_read (x : cpending) v : pb_body (pbu_read x v) = pb_body x. Proof. reflexivity. Qed.
Lemma pb_window_pbu_read (x : cpending) v : pb_window (pbu_read x v) = pb_window x. Proof. reflexivity. Qed.
Lemma pb_stream_pbu_read (x : cpending) v : pb_stream (pbu_read x v) = pb_stream x. Proof. reflexivity. Qed.
Lemma pb_size_pbu_read (x : cpending) v : pb_size (pbu_read x v) = pb_size x. Proof. reflexivity. Qed.
Lemma pb_read_pbu_read (x : cpending) v : pb_read (pbu_read x v) = v. Proof. reflexivity. Qed.
Lemma pb_drained_pbu_read (x : cpending) v : pb_drained (pbu_read x v) = pb_drained x. Proof. reflexivity. Qed.
Lemma pb_id_pbu_drained (x : cpending) v : pb_id (pbu_drained x v) = pb_id x. Proof. reflexivity. Qed.
Lemma pb_tag_pbu_drained (x : cpending) v : pb_tag (pbu_drained x v) = pb_tag x. Proof. reflexivity. Qed.
Lemma pb_body_pbu_drained (x : cpending) v : pb_body (pbu_drained x v) = pb_body x. Proof. reflexivity. Qed.
Lemma pb_window_pbu_drained (x : cpending) v : pb_window (pbu_drained x v) = pb_window x. Proof. reflexivity. Qed.
Lemma pb_stream_pbu_drained (x : cpending) v : pb_stream (pbu_drained x v) = pb_stream x. Proof. reflexivity. Qed.
Lemma pb_size_pbu_drained (x : cpending) v : pb_size (pbu_drained x v) = pb_size x. Proof. reflexivity. Qed.
Lemma pb_read_pbu_drained (x : cpending) v : pb_read (pbu_drained x v) = pb_read x. Proof. reflexivity. Qed.
Lemma pb_drained_pbu_drained (x : cpending) v : pb_drained (pbu_drained x v) = v. Proof. reflexivity. Qed.
(* END GENERATED upd *)
(* BEGIN GENERATED fun (tools/gen_clibase.sh) *)
Lemma cc_ctxs_cl_note (c : cconn hstate) o : cc_ctxs (cl_note c o) = cc_ctxs c. Proof. cc_unf. Qed.
Lemma cc_nextID_cl_note (c : cconn hstate) o : cc_nextID (cl_note c o) = cc_nextID c. Proof. cc_unf. Qed.
Lemma cc_open_cl_note (c : cconn hstate) o : cc_open (cl_note c o) = cc_open c. Proof. cc_unf. Qed.
Lemma cc_maxStreams_cl_note (c : cconn hstate) o : cc_maxStreams (cl_note c o) = cc_maxStreams c. Proof. cc_unf. Qed.
Lemma cc_maxFrame_cl_note (c : cconn hstate) o : cc_maxFrame (cl_note c o) = cc_maxFrame c. Proof. cc_unf. Qed.
Lemma cc_goAway_cl_note (c : cconn hstate) o : cc_goAway (cl_note c o) = cc_goAway c. Proof. cc_unf. Qed.
Lemma cc_closed_cl_note (c : cconn hstate) o : cc_closed (cl_note c o) = cc_closed c. Proof. cc_unf. Qed.
Lemma cc_closing_cl_note (c : cconn hstate) o : cc_closing (cl_note c o) = cc_closing c. Proof. cc_unf. Qed.
Lemma cc_netClosed_cl_note (c : cconn hstate) o : cc_netClosed (cl_note c o) = cc_netClosed c. Proof. cc_unf. Qed.
Lemma cc_writeFail_cl_note (c : cconn hstate) o : cc_writeFail (cl_note c o) = cc_writeFail c. Proof. cc_unf. Qed.
Lemma cc_enc_cl_note (c : cconn hstate) o : cc_enc (cl_note c o) = cc_enc c. Proof. cc_unf. Qed.
Lemma cc_encTableSize_cl_note (c : cconn hstate) o : cc_encTableSize (cl_note c o) = cc_encTableSize c. Proof. cc_unf. Qed.
Lemma cc_encTableSeen_cl_note (c : cconn hstate) o : cc_encTableSeen (cl_note c o) = cc_encTableSeen c. Proof. cc_unf. Qed.
Lemma cc_dec_cl_note (c : cconn hstate) o : cc_dec (cl_note c o) = cc_dec c. Proof. cc_unf. Qed.
Lemma cc_currentWindow_cl_note (c : cconn hstate) o : cc_currentWindow (cl_note c o) = cc_currentWindow c. Proof. cc_unf. Qed.
Lemma cc_serverS_cl_note (c : cconn hstate) o : cc_serverS (cl_note c o) = cc_serverS c. Proof. cc_unf. Qed.
Lemma cc_hdrStream_cl_note (c : cconn hstate) o : cc_hdrStream (cl_note c o) = cc_hdrStream c. Proof. cc_unf. Qed.
Lemma cc_hdrPrev_cl_note (c : cconn hstate) o : cc_hdrPrev (cl_note c o) = cc_hdrPrev c. Proof. cc_unf. Qed.
Lemma cc_hdrFields_cl_note (c : cconn hstate) o : cc_hdrFields (cl_note c o) = cc_hdrFields c. Proof. cc_unf. Qed.
Lemma cc_hdrEndStream_cl_note (c : cconn hstate) o : cc_hdrEndStream (cl_note c o) = cc_hdrEndStream c. Proof. cc_unf. Qed.
Lemma cc_hdrRegularSeen_cl_note (c : cconn hstate) o : cc_hdrRegularSeen (cl_note c o) = cc_hdrRegularSeen c. Proof. cc_unf. Qed.
Lemma cc_hdrStatus_cl_note (c : cconn hstate) o : cc_hdrStatus (cl_note c o) = cc_hdrStatus c. Proof. cc_unf. Qed.
Lemma cc_hdrErr_cl_note (c : cconn hstate) o : cc_hdrErr (cl_note c o) = cc_hdrErr c. Proof. cc_unf. Qed.
Lemma cc_stateClosed_cl_note (c : cconn hstate) o : cc_stateClosed (cl_note c o) = cc_stateClosed c. Proof. cc_unf. Qed.
Lemma cc_closeRef_cl_note (c : cconn hstate) o : cc_closeRef (cl_note c o) = cc_closeRef c. Proof. cc_unf. Qed.
Lemma cc_reqQueued_cl_note (c : cconn hstate) o : cc_reqQueued (cl_note c o) = cc_reqQueued c. Proof. cc_unf. Qed.
Lemma cc_pending_cl_note (c : cconn hstate) o : cc_pending (cl_note c o) = cc_pending c. Proof. cc_unf. Qed.
Lemma cc_connWindow_cl_note (c : cconn hstate) o : cc_connWindow (cl_note c o) = cc_connWindow c. Proof. cc_unf. Qed.
Lemma cc_streamWindow_cl_note (c : cconn hstate) o : cc_streamWindow (cl_note c o) = cc_streamWindow c. Proof. cc_unf. Qed.
Lemma cc_inQ_cl_note (c : cconn hstate) o : cc_inQ (cl_note c o) = cc_inQ c. Proof. cc_unf. Qed.
Lemma cc_outQ_cl_note (c : cconn hstate) o : cc_outQ (cl_note c o) = cc_outQ c. Proof. cc_unf. Qed.
Lemma cc_winCh_cl_note (c : cconn hstate) o : cc_winCh (cl_note c o) = cc_winCh c. Proof. cc_unf. Qed.
Lemma cc_lastErr_cl_note (c : cconn hstate) o : cc_lastErr (cl_note c o) = cc_lastErr c. Proof. cc_unf. Qed.
Lemma cc_unacks_cl_note (c : cconn hstate) o : cc_unacks (cl_note c o) = cc_unacks c. Proof. cc_unf. Qed.
Lemma cc_rl_done_cl_note (c : cconn hstate) o : cc_rl_done (cl_note c o) = cc_rl_done c. Proof. cc_unf. Qed.
Lemma cc_wl_done_cl_note (c : cconn hstate) o : cc_wl_done (cl_note c o) = cc_wl_done c. Proof. cc_unf. Qed.
Lemma cc_rl_stuck_cl_note (c : cconn hstate) o : cc_rl_stuck (cl_note c o) = cc_rl_stuck c. Proof. cc_unf. Qed.
Lemma cc_wl_stuck_cl_note (c : cconn hstate) o : cc_wl_stuck (cl_note c o) = cc_wl_stuck c. Proof. cc_unf. Qed.
Lemma cc_ctxs_cl_notes (c : cconn hstate) l : cc_ctxs (cl_notes c l) = cc_ctxs c. Proof. cc_unf. Qed.
Lemma cc_nextID_cl_notes (c : cconn hstate) l : cc_nextID (cl_notes c l) = cc_nextID c. Proof. cc_unf. Qed.
Lemma cc_open_cl_notes (c : cconn hstate) l : cc_open (cl_notes c l) = cc_open c. Proof. cc_unf. Qed.
Lemma cc_maxStreams_cl_notes (c : cconn hstate) l : cc_maxStreams (cl_notes c l) = cc_maxStreams c. Proof. cc_unf. Qed.
Lemma cc_maxFrame_cl_notes (c : cconn hstate) l : cc_maxFrame (cl_notes c l) = cc_maxFrame c. Proof. cc_unf. Qed.
Lemma cc_goAway_cl_notes (c : cconn hstate) l : cc_goAway (cl_notes c l) = cc_goAway c. Proof. cc_unf. Qed.
Lemma cc_closed_cl_notes (c : cconn hstate) l : cc_closed (cl_notes c l) = cc_closed c. Proof. cc_unf. Qed.
Lemma cc_closing_cl_notes (c : cconn hstate) l : cc_closing (cl_notes c l) = cc_closing c. Proof. cc_unf. Qed.
Lemma cc_netClosed_cl_notes (c : cconn hstate) l : cc_netClosed (cl_notes c l) = cc_netClosed c. Proof. cc_unf. Qed.
Lemma cc_writeFail_cl_notes (c : cconn hstate) l : cc_writeFail (cl_notes c l) = cc_writeFail c. Proof. cc_unf. Qed.
Lemma cc_enc_cl_notes (c : cconn hstate) l : cc_enc (cl_notes c l) = cc_enc c. Proof. cc_unf. Qed.
Lemma cc_encTableSize_cl_notes (c : cconn hstate) l : cc_encTableSize (cl_notes c l) = cc_encTableSize c. Proof. cc_unf. Qed.
Lemma cc_encTableSeen_cl_notes (c : cconn hstate) l : cc_encTableSeen (cl_notes c l) = cc_encTableSeen c. Proof. cc_unf. Qed.
Lemma cc_dec_cl_notes (c : cconn hstate) l : cc_dec (cl_notes c l) = cc_dec c. Proof. cc_unf. Qed.
Lemma cc_currentWindow_cl_notes (c : cconn hstate) l : cc_currentWindow (cl_notes c l) = cc_currentWindow c. Proof. cc_unf. Qed.
Lemma cc_serverS_cl_notes (c : cconn hstate) l : cc_serverS (cl_notes c l) = cc_serverS c. Proof. cc_unf. Qed.
Lemma cc_hdrStream_cl_notes (c : cconn hstate) l : cc_hdrStream (cl_notes c l) = cc_hdrStream c. Proof. cc_unf. Qed.
Lemma cc_hdrPrev_cl_notes (c : cconn hstate) l : cc_hdrPrev (cl_notes c l) = cc_hdrPrev c. Proof. cc_unf. Qed.
Lemma cc_hdrFields_cl_notes (c : cconn hstate) l : cc_hdrFields (cl_notes c l) = cc_hdrFields c. Proof. cc_unf. Qed.
Lemma cc_hdrEndStream_cl_notes (c : cconn hstate) l : cc_hdrEndStream (cl_notes c l) = cc_hdrEndStream c. Proof. cc_unf. Qed.
Lemma cc_hdrRegularSeen_cl_notes (c : cconn hstate) l : cc_hdrRegularSeen (cl_notes c l) = cc_hdrRegularSeen c. Proof. cc_unf. Qed.
Lemma cc_hdrStatus_cl_notes (c : cconn hstate) l : cc_hdrStatus (cl_notes c l) = cc_hdrStatus c. Proof. cc_unf. Qed.
Lemma cc_hdrErr_cl_notes (c : cconn hstate) l : cc_hdrErr (cl_notes c l) = cc_hdrErr c. Proof. cc_unf. Qed.
Lemma cc_stateClosed_cl_notes (c : cconn hstate) l : cc_stateClosed (cl_notes c l) = cc_stateClosed c. Proof. cc_unf. Qed.
Lemma cc_closeRef_cl_notes (c : cconn hstate) l : cc_closeRef (cl_notes c l) = cc_closeRef c. Proof. cc_unf. Qed.
Lemma cc_reqQueued_cl_notes (c : cconn hstate) l : cc_reqQueued (cl_notes c l) = cc_reqQueued c. Proof. cc_unf. Qed.
Lemma cc_pending_cl_notes (c : cconn hstate) l : cc_pending (cl_notes c l) = cc_pending c. Proof. cc_unf. Qed.
Lemma cc_connWindow_cl_notes (c : cconn hstate) l : cc_connWindow (cl_notes c l) = cc_connWindow c. Proof. cc_unf. Qed.
Lemma cc_streamWindow_cl_notes (c : cconn hstate) l : cc_streamWindow (cl_notes c l) = cc_streamWindow c. Proof. cc_unf. Qed.
Lemma cc_inQ_cl_notes (c : cconn hstate) l : cc_inQ (cl_notes c l) = cc_inQ c. Proof. cc_unf. Qed.
Lemma cc_outQ_cl_notes (c : cconn hstate) l : cc_outQ (cl_notes c l) = cc_outQ c. Proof. cc_unf. Qed.
Lemma cc_winCh_cl_notes (c : cconn hstate) l : cc_winCh (cl_notes c l) = cc_winCh c. Proof. cc_unf. Qed.
Lemma cc_lastErr_cl_notes (c : cconn hstate) l : cc_lastErr (cl_notes c l) = cc_lastErr c. Proof. cc_unf. Qed.
Lemma cc_unacks_cl_notes (c : cconn hstate) l : cc_unacks (cl_notes c l) = cc_unacks c. Proof. cc_unf. Qed.
Lemma cc_rl_done_cl_notes (c : cconn hstate) l : cc_rl_done (cl_notes c l) = cc_rl_done c. Proof. cc_unf. Qed.
Lemma cc_wl_done_cl_notes (c : cconn hstate) l : cc_wl_done (cl_notes c l) = cc_wl_done c. Proof. cc_unf. Qed.
Lemma cc_rl_stuck_cl_notes (c : cconn hstate) l : cc_rl_stuck (cl_notes c l) = cc_rl_stuck c. Proof. cc_unf. Qed.
Lemma cc_wl_stuck_cl_notes (c : cconn hstate) l : cc_wl_stuck (cl_notes c l) = cc_wl_stuck c. Proof. cc_unf. Qed.
Lemma cc_nextID_cl_ctx_put (c : cconn hstate) x : cc_nextID (cl_ctx_put c x) = cc_nextID c. Proof. cc_unf. Qed.
Lemma cc_open_cl_ctx_put (c : cconn hstate) x : cc_open (cl_ctx_put c x) = cc_open c. Proof. cc_unf. Qed.
Lemma cc_maxStreams_cl_ctx_put (c : cconn hstate) x : cc_maxStreams (cl_ctx_put c x) = cc_maxStreams c. Proof. cc_unf. Qed.
Lemma cc_maxFrame_cl_ctx_put (c : cconn hstate) x : cc_maxFrame (cl_ctx_put c x) = cc_maxFrame c. Proof. cc_unf. Qed.
Lemma cc_goAway_cl_ctx_put (c : cconn hstate) x : cc_goAway (cl_ctx_put c x) = cc_goAway c. Proof. cc_unf. Qed.
Lemma cc_closed_cl_ctx_put (c : cconn hstate) x : cc_closed (cl_ctx_put c x) = cc_closed c. Proof. cc_unf. Qed.
Lemma cc_closing_cl_ctx_put (c : cconn hstate) x : cc_closing (cl_ctx_put c x) = cc_closing c. Proof. cc_unf. Qed.
Lemma cc_netClosed_cl_ctx_put (c : cconn hstate) x : cc_netClosed (cl_ctx_put c x) = cc_netClosed c. Proof. cc_unf. Qed.
Lemma cc_writeFail_cl_ctx_put (c : cconn hstate) x : cc_writeFail (cl_ctx_put c x) = cc_writeFail c. Proof. cc_unf. Qed.
Lemma cc_enc_cl_ctx_put (c : cconn hstate) x : cc_enc (cl_ctx_put c x) = cc_enc c. Proof. cc_unf. Qed.
Lemma cc_encTableSize_cl_ctx_put (c : cconn hstate) x : cc_encTableSize (cl_ctx_put c x) = cc_encTableSize c. Proof. cc_unf. Qed.
Lemma cc_encTableSeen_cl_ctx_put (c : cconn hstate) x : cc_encTableSeen (cl_ctx_put c x) = cc_encTableSeen c. Proof. cc_unf. Qed.
Lemma cc_dec_cl_ctx_put (c : cconn hstate) x : cc_dec (cl_ctx_put c x) = cc_dec c. Proof. cc_unf. Qed.
Lemma cc_currentWindow_cl_ctx_put (c : cconn hstate) x : cc_currentWindow (cl_ctx_put c x) = cc_currentWindow c. Proof. cc_unf. Qed.
Lemma cc_serverS_cl_ctx_put (c : cconn hstate) x : cc_serverS (cl_ctx_put c x) = cc_serverS c. Proof. cc_unf. Qed.
Lemma cc_hdrStream_cl_ctx_put (c : cconn hstate) x : cc_hdrStream (cl_ctx_put c x) = cc_hdrStream c. Proof. cc_unf. Qed.
Lemma cc_hdrPrev_cl_ctx_put (c : cconn hstate) x : cc_hdrPrev (cl_ctx_put c x) = cc_hdrPrev c. Proof. cc_unf. Qed.
Lemma cc_hdrFields_cl_ctx_put (c : cconn hstate) x : cc_hdrFields (cl_ctx_put c x) = cc_hdrFields c. Proof. cc_unf. Qed.
Lemma cc_hdrEndStream_cl_ctx_put (c : cconn hstate) x : cc_hdrEndStream (cl_ctx_put c x) = cc_hdrEndStream c. Proof. cc_unf. Qed.
Lemma cc_hdrRegularSeen_cl_ctx_put (c : cconn hstate) x : cc_hdrRegularSeen (cl_ctx_put c x) = cc_hdrRegularSeen c. Proof. cc_unf. Qed.
Lemma cc_hdrStatus_cl_ctx_put (c : cconn hstate) x : cc_hdrStatus (cl_ctx_put c x) = cc_hdrStatus c. Proof. cc_unf. Qed.
Lemma cc_hdrErr_cl_ctx_put (c : cconn hstate) x : cc_hdrErr (cl_ctx_put c x) = cc_hdrErr c. Proof. cc_unf. Qed.
Lemma cc_stateClosed_cl_ctx_put (c : cconn hstate) x : cc_stateClosed (cl_ctx_put c x) = cc_stateClosed c. Proof. cc_unf. Qed.
Lemma cc_closeRef_cl_ctx_put (c : cconn hstate) x : cc_closeRef (cl_ctx_put c x) = cc_closeRef c. Proof. cc_unf. Qed.
Lemma cc_reqQueued_cl_ctx_put (c : cconn hstate) x : cc_reqQueued (cl_ctx_put c x) = cc_reqQueued c. Proof. cc_unf. Qed.
Lemma cc_pending_cl_ctx_put (c : cconn hstate) x : cc_pending (cl_ctx_put c x) = cc_pending c. Proof. cc_unf. Qed.
Lemma cc_connWindow_cl_ctx_put (c : cconn hstate) x : cc_connWindow (cl_ctx_put c x) = cc_connWindow c. Proof. cc_unf. Qed.
Lemma cc_streamWindow_cl_ctx_put (c : cconn hstate) x : cc_streamWindow (cl_ctx_put c x) = cc_streamWindow c. Proof. cc_unf. Qed.
Lemma cc_inQ_cl_ctx_put (c : cconn hstate) x : cc_inQ (cl_ctx_put c x) = cc_inQ c. Proof. cc_unf. Qed.
Lemma cc_outQ_cl_ctx_put (c : cconn hstate) x : cc_outQ (cl_ctx_put c x) = cc_outQ c. Proof. cc_unf. Qed.
Lemma cc_winCh_cl_ctx_put (c : cconn hstate) x : cc_winCh (cl_ctx_put c x) = cc_winCh c. Proof. cc_unf. Qed.
Lemma cc_lastErr_cl_ctx_put (c : cconn hstate) x : cc_lastErr (cl_ctx_put c x) = cc_lastErr c. Proof. cc_unf. Qed.
Lemma cc_unacks_cl_ctx_put (c : cconn hstate) x : cc_unacks (cl_ctx_put c x) = cc_unacks c. Proof. cc_unf. Qed.
Lemma cc_rl_done_cl_ctx_put (c : cconn hstate) x : cc_rl_done (cl_ctx_put c x) = cc_rl_done c. Proof. cc_unf. Qed.
Lemma cc_wl_done_cl_ctx_put (c : cconn hstate) x : cc_wl_done (cl_ctx_put c x) = cc_wl_done c. Proof. cc_unf. Qed.
Lemma cc_rl_stuck_cl_ctx_put (c : cconn hstate) x : cc_rl_stuck (cl_ctx_put c x) = cc_rl_stuck c. Proof. cc_unf. Qed.
Lemma cc_wl_stuck_cl_ctx_put (c : cconn hstate) x : cc_wl_stuck (cl_ctx_put c x) = cc_wl_stuck c. Proof. cc_unf. Qed.
Lemma cc_out_cl_ctx_put (c : cconn hstate) x : cc_out (cl_ctx_put c x) = cc_out c. Proof. cc_unf. Qed.
Lemma cc_nextID_cl_ctx_upd (c : cconn hstate) tag f : cc_nextID (cl_ctx_upd c tag f) = cc_nextID c. Proof. cc_unf. Qed.
Lemma cc_open_cl_ctx_upd (c : cconn hstate) tag f : cc_open (cl_ctx_upd c tag f) = cc_open c. Proof. cc_unf. Qed.
Lemma cc_maxStreams_cl_ctx_upd (c : cconn hstate) tag f : cc_maxStreams (cl_ctx_upd c tag f) = cc_maxStreams c. Proof. cc_unf. Qed.
Lemma cc_maxFrame_cl_ctx_upd (c : cconn hstate) tag f : cc_maxFrame (cl_ctx_upd c tag f) = cc_maxFrame c. Proof. cc_unf. Qed.
Lemma cc_goAway_cl_ctx_upd (c : cconn hstate) tag f : cc_goAway (cl_ctx_upd c tag f) = cc_goAway c. Proof. cc_unf. Qed.
Lemma cc_closed_cl_ctx_upd (c : cconn hstate) tag f : cc_closed (cl_ctx_upd c tag f) = cc_closed c. Proof. cc_unf. Qed.
Lemma cc_closing_cl_ctx_upd (c : cconn hstate) tag f : cc_closing (cl_ctx_upd c tag f) = cc_closing c. Proof. cc_unf. Qed.
Lemma cc_netClosed_cl_ctx_upd (c : cconn hstate) tag f : cc_netClosed (cl_ctx_upd c tag f) = cc_netClosed c. Proof. cc_unf. Qed.
Lemma cc_writeFail_cl_ctx_upd (c : cconn hstate) tag f : cc_writeFail (cl_ctx_upd c tag f) = cc_writeFail c. Proof. cc_unf. Qed.
Lemma cc_enc_cl_ctx_upd (c : cconn hstate) tag f : cc_enc (cl_ctx_upd c tag f) = cc_enc c. Proof. cc_unf. Qed.
Lemma cc_encTableSize_cl_ctx_upd (c : cconn hstate) tag f : cc_encTableSize (cl_ctx_upd c tag f) = cc_encTableSize c. Proof. cc_unf. Qed.
Lemma cc_encTableSeen_cl_ctx_upd (c : cconn hstate) tag f : cc_encTableSeen (cl_ctx_upd c tag f) = cc_encTableSeen c. Proof. cc_unf. Qed.
Lemma cc_dec_cl_ctx_upd (c : cconn hstate) tag f : cc_dec (cl_ctx_upd c tag f) = cc_dec c. Proof. cc_unf. Qed.
Lemma cc_currentWindow_cl_ctx_upd (c : cconn hstate) tag f : cc_currentWindow (cl_ctx_upd c tag f) = cc_currentWindow c. Proof. cc_unf. Qed.
Lemma cc_serverS_cl_ctx_upd (c : cconn hstate) tag f : cc_serverS (cl_ctx_upd c tag f) = cc_serverS c. Proof. cc_unf. Qed.
Lemma cc_hdrStream_cl_ctx_upd (c : cconn hstate) tag f : cc_hdrStream (cl_ctx_upd c tag f) = cc_hdrStream c. Proof. cc_unf. Qed.
Lemma cc_hdrPrev_cl_ctx_upd (c : cconn hstate) tag f : cc_hdrPrev (cl_ctx_upd c tag f) = cc_hdrPrev c. Proof. cc_unf. Qed.
Lemma cc_hdrFields_cl_ctx_upd (c : cconn hstate) tag f : cc_hdrFields (cl_ctx_upd c tag f) = cc_hdrFields c. Proof. cc_unf. Qed.
Lemma cc_hdrEndStream_cl_ctx_upd (c : cconn hstate) tag f : cc_hdrEndStream (cl_ctx_upd c tag f) = cc_hdrEndStream c. Proof. cc_unf. Qed.
Lemma cc_hdrRegularSeen_cl_ctx_upd (c : cconn hstate) tag f : cc_hdrRegularSeen (cl_ctx_upd c tag f) = cc_hdrRegularSeen c. Proof. cc_unf. Qed.
Lemma cc_hdrStatus_cl_ctx_upd (c : cconn hstate) tag f : cc_hdrStatus (cl_ctx_upd c tag f) = cc_hdrStatus c. Proof. cc_unf. Qed.
Lemma cc_hdrErr_cl_ctx_upd (c : cconn hstate) tag f : cc_hdrErr (cl_ctx_upd c tag f) = cc_hdrErr c. Proof. cc_unf. Qed.
Lemma cc_stateClosed_cl_ctx_upd (c : cconn hstate) tag f : cc_stateClosed (cl_ctx_upd c tag f) = cc_stateClosed c. Proof. cc_unf. Qed.
Lemma cc_closeRef_cl_ctx_upd (c : cconn hstate) tag f : cc_closeRef (cl_ctx_upd c tag f) = cc_closeRef c. Proof. cc_unf. Qed.
Lemma cc_reqQueued_cl_ctx_upd (c : cconn hstate) tag f : cc_reqQueued (cl_ctx_upd c tag f) = cc_reqQueued c. Proof. cc_unf. Qed.
Lemma cc_pending_cl_ctx_upd (c : cconn hstate) tag f : cc_pending (cl_ctx_upd c tag f) = cc_pending c. Proof. cc_unf. Qed.
Lemma cc_connWindow_cl_ctx_upd (c : cconn hstate) tag f : cc_connWindow (cl_ctx_upd c tag f) = cc_connWindow c. Proof. cc_unf. Qed.
Lemma cc_streamWindow_cl_ctx_upd (c : cconn hstate) tag f : cc_streamWindow (cl_ctx_upd c tag f) = cc_streamWindow c. Proof. cc_unf. Qed.
Lemma cc_inQ_cl_ctx_upd (c : cconn hstate) tag f : cc_inQ (cl_ctx_upd c tag f) = cc_inQ c. Proof. cc_unf. Qed.
Lemma cc_outQ_cl_ctx_upd (c : cconn hstate) tag f : cc_outQ (cl_ctx_upd c tag f) = cc_outQ c. Proof. cc_unf. Qed.
Lemma cc_winCh_cl_ctx_upd (c : cconn hstate) tag f : cc_winCh (cl_ctx_upd c tag f) = cc_winCh c. Proof. cc_unf. Qed.
Lemma cc_lastErr_cl_ctx_upd (c : cconn hstate) tag f : cc_lastErr (cl_ctx_upd c tag f) = cc_lastErr c. Proof. cc_unf. Qed.
Lemma cc_unacks_cl_ctx_upd (c : cconn hstate) tag f : cc_unacks (cl_ctx_upd c tag f) = cc_unacks c. Proof. cc_unf. Qed.
Lemma cc_rl_done_cl_ctx_upd (c : cconn hstate) tag f : cc_rl_done (cl_ctx_upd c tag f) = cc_rl_done c. Proof. cc_unf. Qed.
Lemma cc_wl_done_cl_ctx_upd (c : cconn hstate) tag f : cc_wl_done (cl_ctx_upd c tag f) = cc_wl_done c. Proof. cc_unf. Qed.
Lemma cc_rl_stuck_cl_ctx_upd (c : cconn hstate) tag f : cc_rl_stuck (cl_ctx_upd c tag f) = cc_rl_stuck c. Proof. cc_unf. Qed.
Lemma cc_wl_stuck_cl_ctx_upd (c : cconn hstate) tag f : cc_wl_stuck (cl_ctx_upd c tag f) = cc_wl_stuck c. Proof. cc_unf. Qed.
Lemma cc_out_cl_ctx_upd (c : cconn hstate) tag f : cc_out (cl_ctx_upd c tag f) = cc_out c. Proof. cc_unf. Qed.
Lemma cc_nextID_cl_resolve (c : cconn hstate) tag e : cc_nextID (cl_resolve c tag e) = cc_nextID c. Proof. cc_unf. Qed.
Lemma cc_open_cl_resolve (c : cconn hstate) tag e : cc_open (cl_resolve c tag e) = cc_open c. Proof. cc_unf. Qed.
Lemma cc_maxStreams_cl_resolve (c : cconn hstate) tag e : cc_maxStreams (cl_resolve c tag e) = cc_maxStreams c. Proof. cc_unf. Qed.
Lemma cc_maxFrame_cl_resolve (c : cconn hstate) tag e : cc_maxFrame (cl_resolve c tag e) = cc_maxFrame c. Proof. cc_unf. Qed.
Lemma cc_goAway_cl_resolve (c : cconn hstate) tag e : cc_goAway (cl_resolve c tag e) = cc_goAway c. Proof. cc_unf. Qed.
Lemma cc_closed_cl_resolve (c : cconn hstate) tag e : cc_closed (cl_resolve c tag e) = cc_closed c. Proof. cc_unf. Qed.
Lemma cc_closing_cl_resolve (c : cconn hstate) tag e : cc_closing (cl_resolve c tag e) = cc_closing c. Proof. cc_unf. Qed.
Lemma cc_netClosed_cl_resolve (c : cconn hstate) tag e : cc_netClosed (cl_resolve c tag e) = cc_netClosed c. Proof. cc_unf. Qed.
Lemma cc_writeFail_cl_resolve (c : cconn hstate) tag e : cc_writeFail (cl_resolve c tag e) = cc_writeFail c. Proof. cc_unf. Qed.
Lemma cc_enc_cl_resolve (c : cconn hstate) tag e : cc_enc (cl_resolve c tag e) = cc_enc c. Proof. cc_unf. Qed.
Lemma cc_encTableSize_cl_resolve (c : cconn hstate) tag e : cc_encTableSize (cl_resolve c tag e) = cc_encTableSize c. Proof. cc_unf. Qed.
Lemma cc_encTableSeen_cl_resolve (c : cconn hstate) tag e : cc_encTableSeen (cl_resolve c tag e) = cc_encTableSeen c. Proof. cc_unf. Qed.
Lemma cc_dec_cl_resolve (c : cconn hstate) tag e : cc_dec (cl_resolve c tag e) = cc_dec c. Proof. cc_unf. Qed.
Lemma cc_currentWindow_cl_resolve (c : cconn hstate) tag e : cc_currentWindow (cl_resolve c tag e) = cc_currentWindow c. Proof. cc_unf. Qed.
Lemma cc_serverS_cl_resolve (c : cconn hstate) tag e : cc_serverS (cl_resolve c tag e) = cc_serverS c. Proof. cc_unf. Qed.
Lemma cc_hdrStream_cl_resolve (c : cconn hstate) tag e : cc_hdrStream (cl_resolve c tag e) = cc_hdrStream c. Proof. cc_unf. Qed.
Lemma cc_hdrPrev_cl_resolve (c : cconn hstate) tag e : cc_hdrPrev (cl_resolve c tag e) = cc_hdrPrev c. Proof. cc_unf. Qed.
Lemma cc_hdrFields_cl_resolve (c : cconn hstate) tag e : cc_hdrFields (cl_resolve c tag e) = cc_hdrFields c. Proof. cc_unf. Qed.
Lemma cc_hdrEndStream_cl_resolve (c : cconn hstate) tag e : cc_hdrEndStream (cl_resolve c tag e) = cc_hdrEndStream c. Proof. cc_unf. Qed.
Lemma cc_hdrRegularSeen_cl_resolve (c : cconn hstate) tag e : cc_hdrRegularSeen (cl_resolve c tag e) = cc_hdrRegularSeen c. Proof. cc_unf. Qed.
Lemma cc_hdrStatus_cl_resolve (c : cconn hstate) tag e : cc_hdrStatus (cl_resolve c tag e) = cc_hdrStatus c. Proof. cc_unf. Qed.
Lemma cc_hdrErr_cl_resolve (c : cconn hstate) tag e : cc_hdrErr (cl_resolve c tag e) = cc_hdrErr c. Proof. cc_unf. Qed.
Lemma cc_stateClosed_cl_resolve (c : cconn hstate) tag e : cc_stateClosed (cl_resolve c tag e) = cc_stateClosed c. Proof. cc_unf. Qed.
Lemma cc_closeRef_cl_resolve (c : cconn hstate) tag e : cc_closeRef (cl_resolve c tag e) = cc_closeRef c. Proof. cc_unf. Qed.
Lemma cc_reqQueued_cl_resolve (c : cconn hstate) tag e : cc_reqQueued (cl_resolve c tag e) = cc_reqQueued c. Proof. cc_unf. Qed.
Lemma cc_pending_cl_resolve (c : cconn hstate) tag e : cc_pending (cl_resolve c tag e) = cc_pending c. Proof. cc_unf. Qed.
Lemma cc_connWindow_cl_resolve (c : cconn hstate) tag e : cc_connWindow (cl_resolve c tag e) = cc_connWindow c. Proof. cc_unf. Qed.
Lemma cc_streamWindow_cl_resolve (c : cconn hstate) tag e : cc_streamWindow (cl_resolve c tag e) = cc_streamWindow c. Proof. cc_unf. Qed.
Lemma cc_inQ_cl_resolve (c : cconn hstate) tag e : cc_inQ (cl_resolve c tag e) = cc_inQ c. Proof. cc_unf. Qed.
Lemma cc_outQ_cl_resolve (c : cconn hstate) tag e : cc_outQ (cl_resolve c tag e) = cc_outQ c. Proof. cc_unf. Qed.
Lemma cc_winCh_cl_resolve (c : cconn hstate) tag e : cc_winCh (cl_resolve c tag e) = cc_winCh c. Proof. cc_unf. Qed.
Lemma cc_lastErr_cl_resolve (c : cconn hstate) tag e : cc_lastErr (cl_resolve c tag e) = cc_lastErr c. Proof. cc_unf. Qed.
Lemma cc_unacks_cl_resolve (c : cconn hstate) tag e : cc_unacks (cl_resolve c tag e) = cc_unacks c. Proof. cc_unf. Qed.
Lemma cc_rl_done_cl_resolve (c : cconn hstate) tag e : cc_rl_done (cl_resolve c tag e) = cc_rl_done c. Proof. cc_unf. Qed.
Lemma cc_wl_done_cl_resolve (c : cconn hstate) tag e : cc_wl_done (cl_resolve c tag e) = cc_wl_done c. Proof. cc_unf. Qed.
Lemma cc_rl_stuck_cl_resolve (c : cconn hstate) tag e : cc_rl_stuck (cl_resolve c tag e) = cc_rl_stuck c. Proof. cc_unf. Qed.
Lemma cc_wl_stuck_cl_resolve (c : cconn hstate) tag e : cc_wl_stuck (cl_resolve c tag e) = cc_wl_stuck c. Proof. cc_unf. Qed.
Lemma cc_out_cl_resolve (c : cconn hstate) tag e : cc_out (cl_resolve c tag e) = cc_out c. Proof. cc_unf. Qed.
Lemma cc_nextID_cl_resolve_all (c : cconn hstate) tags e : cc_nextID (cl_resolve_all c tags e) = cc_nextID c. Proof. cc_unf. Qed.
Lemma cc_open_cl_resolve_all (c : cconn hstate) tags e : cc_open (cl_resolve_all c tags e) = cc_open c. Proof. cc_unf. Qed.
Lemma cc_maxStreams_cl_resolve_all (c : cconn hstate) tags e : cc_maxStreams (cl_resolve_all c tags e) = cc_maxStreams c. Proof. cc_unf. Qed.
Lemma cc_maxFrame_cl_resolve_all (c : cconn hstate) tags e : cc_maxFrame (cl_resolve_all c tags e) = cc_maxFrame c. Proof. cc_unf. Qed.
Lemma cc_goAway_cl_resolve_all (c : cconn hstate) tags e : cc_goAway (cl_resolve_all c tags e) = cc_goAway c. Proof. cc_unf. Qed.
Lemma cc_closed_cl_resolve_all (c : cconn hstate) tags e : cc_closed (cl_resolve_all c tags e) = cc_closed c. Proof. cc_unf. Qed.
Lemma cc_closing_cl_resolve_all (c : cconn hstate) tags e : cc_closing (cl_resolve_all c tags e) = cc_closing c. Proof. cc_unf. Qed.
Lemma cc_netClosed_cl_resolve_all (c : cconn hstate) tags e : cc_netClosed (cl_resolve_all c tags e) = cc_netClosed c. Proof. cc_unf. Qed.
Lemma cc_writeFail_cl_resolve_all (c : cconn hstate) tags e : cc_writeFail (cl_resolve_all c tags e) = cc_writeFail c. Proof. cc_unf. Qed.
Lemma cc_enc_cl_resolve_all (c : cconn hstate) tags e : cc_enc (cl_resolve_all c tags e) = cc_enc c. Proof. cc_unf. Qed.
Lemma cc_encTableSize_cl_resolve_all (c : cconn hstate) tags e : cc_encTableSize (cl_resolve_all c tags e) = cc_encTableSize c. Proof. cc_unf. Qed.
Lemma cc_encTableSeen_cl_resolve_all (c : cconn hstate) tags e : cc_encTableSeen (cl_resolve_all c tags e) = cc_encTableSeen c. Proof. cc_unf. Qed.
Lemma cc_dec_cl_resolve_all (c : cconn hstate) tags e : cc_dec (cl_resolve_all c tags e) = cc_dec c. Proof. cc_unf. Qed.
Lemma cc_currentWindow_cl_resolve_all (c : cconn hstate) tags e : cc_currentWindow (cl_resolve_all c tags e) = cc_currentWindow c. Proof. cc_unf. Qed.
Lemma cc_serverS_cl_resolve_all (c : cconn hstate) tags e : cc_serverS (cl_resolve_all c tags e) = cc_serverS c. Proof. cc_unf. Qed.
Lemma cc_hdrStream_cl_resolve_all (c : cconn hstate) tags e : cc_hdrStream (cl_resolve_all c tags e) = cc_hdrStream c. Proof. cc_unf. Qed.
Lemma cc_hdrPrev_cl_resolve_all (c : cconn hstate) tags e : cc_hdrPrev (cl_resolve_all c tags e) = cc_hdrPrev c. Proof. cc_unf. Qed.
Lemma cc_hdrFields_cl_resolve_all (c : cconn hstate) tags e : cc_hdrFields (cl_resolve_all c tags e) = cc_hdrFields c. Proof. cc_unf. Qed.
Lemma cc_hdrEndStream_cl_resolve_all (c : cconn hstate) tags e : cc_hdrEndStream (cl_resolve_all c tags e) = cc_hdrEndStream c. Proof. cc_unf. Qed.
Lemma cc_hdrRegularSeen_cl_resolve_all (c : cconn hstate) tags e : cc_hdrRegularSeen (cl_resolve_all c tags e) = cc_hdrRegularSeen c. Proof. cc_unf. Qed.
Lemma cc_hdrStatus_cl_resolve_all (c : cconn hstate) tags e : cc_hdrStatus (cl_resolve_all c tags e) = cc_hdrStatus c. Proof. cc_unf. Qed.
Lemma cc_hdrErr_cl_resolve_all (c : cconn hstate) tags e : cc_hdrErr (cl_resolve_all c tags e) = cc_hdrErr c. Proof. cc_unf. Qed.
Lemma cc_stateClosed_cl_resolve_all (c : cconn hstate) tags e : cc_stateClosed (cl_resolve_all c tags e) = cc_stateClosed c. Proof. cc_unf. Qed.
Lemma cc_closeRef_cl_resolve_all (c : cconn hstate) tags e : cc_closeRef (cl_resolve_all c tags e) = cc_closeRef c. Proof. cc_unf. Qed.
Lemma cc_reqQueued_cl_resolve_all (c : cconn hstate) tags e : cc_reqQueued (cl_resolve_all c tags e) = cc_reqQueued c. Proof. cc_unf. Qed.
Lemma cc_pending_cl_resolve_all (c : cconn hstate) tags e : cc_pending (cl_resolve_all c tags e) = cc_pending c. Proof. cc_unf. Qed.
Lemma cc_connWindow_cl_resolve_all (c : cconn hstate) tags e : cc_connWindow (cl_resolve_all c tags e) = cc_connWindow c. Proof. cc_unf. Qed.
Lemma cc_streamWindow_cl_resolve_all (c : cconn hstate) tags e : cc_streamWindow (cl_resolve_all c tags e) = cc_streamWindow c. Proof. cc_unf. Qed.
Lemma cc_inQ_cl_resolve_all (c : cconn hstate) tags e : cc_inQ (cl_resolve_all c tags e) = cc_inQ c. Proof. cc_unf. Qed.
Lemma cc_outQ_cl_resolve_all (c : cconn hstate) tags e : cc_outQ (cl_resolve_all c tags e) = cc_outQ c. Proof. cc_unf. Qed.
Lemma cc_winCh_cl_resolve_all (c : cconn hstate) tags e : cc_winCh (cl_resolve_all c tags e) = cc_winCh c. Proof. cc_unf. Qed.
Lemma cc_lastErr_cl_resolve_all (c : cconn hstate) tags e : cc_lastErr (cl_resolve_all c tags e) = cc_lastErr c. Proof. cc_unf. Qed.
Lemma cc_unacks_cl_resolve_all (c : cconn hstate) tags e : cc_unacks (cl_resolve_all c tags e) = cc_unacks c. Proof. cc_unf. Qed.
Lemma cc_rl_done_cl_resolve_all (c : cconn hstate) tags e : cc_rl_done (cl_resolve_all c tags e) = cc_rl_done c. Proof. cc_unf. Qed.
Lemma cc_wl_done_cl_resolve_all (c : cconn hstate) tags e : cc_wl_done (cl_resolve_all c tags e) = cc_wl_done c. Proof. cc_unf. Qed.
Lemma cc_rl_stuck_cl_resolve_all (c : cconn hstate) tags e : cc_rl_stuck (cl_resolve_all c tags e) = cc_rl_stuck c. Proof. cc_unf. Qed.
Lemma cc_wl_stuck_cl_resolve_all (c : cconn hstate) tags e : cc_wl_stuck (cl_resolve_all c tags e) = cc_wl_stuck c. Proof. cc_unf. Qed.
Lemma cc_out_cl_resolve_all (c : cconn hstate) tags e : cc_out (cl_resolve_all c tags e) = cc_out c. Proof. cc_unf. Qed.
Lemma cc_ctxs_cl_set_last_err (c : cconn hstate) e : cc_ctxs (cl_set_last_err c e) = cc_ctxs c. Proof. cc_unf. Qed.
Lemma cc_nextID_cl_set_last_err (c : cconn hstate) e : cc_nextID (cl_set_last_err c e) = cc_nextID c. Proof. cc_unf. Qed.
Lemma cc_open_cl_set_last_err (c : cconn hstate) e : cc_open (cl_set_last_err c e) = cc_open c. Proof. cc_unf. Qed.
Lemma cc_maxStreams_cl_set_last_err (c : cconn hstate) e : cc_maxStreams (cl_set_last_err c e) = cc_maxStreams c. Proof. cc_unf. Qed.
Lemma cc_maxFrame_cl_set_last_err (c : cconn hstate) e : cc_maxFrame (cl_set_last_err c e) = cc_maxFrame c. Proof. cc_unf. Qed.
Lemma cc_goAway_cl_set_last_err (c : cconn hstate) e : cc_goAway (cl_set_last_err c e) = cc_goAway c. Proof. cc_unf. Qed.
Lemma cc_closed_cl_set_last_err (c : cconn hstate) e : cc_closed (cl_set_last_err c e) = cc_closed c. Proof. cc_unf. Qed.
Lemma cc_closing_cl_set_last_err (c : cconn hstate) e : cc_closing (cl_set_last_err c e) = cc_closing c. Proof. cc_unf. Qed.
Lemma cc_netClosed_cl_set_last_err (c : cconn hstate) e : cc_netClosed (cl_set_last_err c e) = cc_netClosed c. Proof. cc_unf. Qed.
Lemma cc_writeFail_cl_set_last_err (c : cconn hstate) e : cc_writeFail (cl_set_last_err c e) = cc_writeFail c. Proof. cc_unf. Qed.
Lemma cc_enc_cl_set_last_err (c : cconn hstate) e : cc_enc (cl_set_last_err c e) = cc_enc c. Proof. cc_unf. Qed.
Lemma cc_encTableSize_cl_set_last_err (c : cconn hstate) e : cc_encTableSize (cl_set_last_err c e) = cc_encTableSize c. Proof. cc_unf. Qed.
Lemma cc_encTableSeen_cl_set_last_err (c : cconn hstate) e : cc_encTableSeen (cl_set_last_err c e) = cc_encTableSeen c. Proof. cc_unf. Qed.
Lemma cc_dec_cl_set_last_err (c : cconn hstate) e : cc_dec (cl_set_last_err c e) = cc_dec c. Proof. cc_unf. Qed.
Lemma cc_currentWindow_cl_set_last_err (c : cconn hstate) e : cc_currentWindow (cl_set_last_err c e) = cc_currentWindow c. Proof. cc_unf. Qed.
Lemma cc_serverS_cl_set_last_err (c : cconn hstate) e : cc_serverS (cl_set_last_err c e) = cc_serverS c. Proof. cc_unf. Qed.
Lemma cc_hdrStream_cl_set_last_err (c : cconn hstate) e : cc_hdrStream (cl_set_last_err c e) = cc_hdrStream c. Proof. cc_unf. Qed.
Lemma cc_hdrPrev_cl_set_last_err (c : cconn hstate) e : cc_hdrPrev (cl_set_last_err c e) = cc_hdrPrev c. Proof. cc_unf. Qed.
Lemma cc_hdrFields_cl_set_last_err (c : cconn hstate) e : cc_hdrFields (cl_set_last_err c e) = cc_hdrFields c. Proof. cc_unf. Qed.
Lemma cc_hdrEndStream_cl_set_last_err (c : cconn hstate) e : cc_hdrEndStream (cl_set_last_err c e) = cc_hdrEndStream c. Proof. cc_unf. Qed.
Lemma cc_hdrRegularSeen_cl_set_last_err (c : cconn hstate) e : cc_hdrRegularSeen (cl_set_last_err c e) = cc_hdrRegularSeen c. Proof. cc_unf. Qed.
Lemma cc_hdrStatus_cl_set_last_err (c : cconn hstate) e : cc_hdrStatus (cl_set_last_err c e) = cc_hdrStatus c. Proof. cc_unf. Qed.
Lemma cc_hdrErr_cl_set_last_err (c : cconn hstate) e : cc_hdrErr (cl_set_last_err c e) = cc_hdrErr c. Proof. cc_unf. Qed.
Lemma cc_stateClosed_cl_set_last_err (c : cconn hstate) e : cc_stateClosed (cl_set_last_err c e) = cc_stateClosed c. Proof. cc_unf. Qed.
Lemma cc_closeRef_cl_set_last_err (c : cconn hstate) e : cc_closeRef (cl_set_last_err c e) = cc_closeRef c. Proof. cc_unf. Qed.
Lemma cc_reqQueued_cl_set_last_err (c : cconn hstate) e : cc_reqQueued (cl_set_last_err c e) = cc_reqQueued c. Proof. cc_unf. Qed.
Lemma cc_pending_cl_set_last_err (c : cconn hstate) e : cc_pending (cl_set_last_err c e) = cc_pending c. Proof. cc_unf. Qed.
Lemma cc_connWindow_cl_set_last_err (c : cconn hstate) e : cc_connWindow (cl_set_last_err c e) = cc_connWindow c. Proof. cc_unf. Qed.
Lemma cc_streamWindow_cl_set_last_err (c : cconn hstate) e : cc_streamWindow (cl_set_last_err c e) = cc_streamWindow c. Proof. cc_unf. Qed.
Lemma cc_inQ_cl_set_last_err (c : cconn hstate) e : cc_inQ (cl_set_last_err c e) = cc_inQ c. Proof. cc_unf. Qed.
Lemma cc_outQ_cl_set_last_err (c : cconn hstate) e : cc_outQ (cl_set_last_err c e) = cc_outQ c. Proof. cc_unf. Qed.
Lemma cc_winCh_cl_set_last_err (c : cconn hstate) e : cc_winCh (cl_set_last_err c e) = cc_winCh c. Proof. cc_unf. Qed.
Lemma cc_unacks_cl_set_last_err (c : cconn hstate) e : cc_unacks (cl_set_last_err c e) = cc_unacks c. Proof. cc_unf. Qed.
Lemma cc_rl_done_cl_set_last_err (c : cconn hstate) e : cc_rl_done (cl_set_last_err c e) = cc_rl_done c. Proof. cc_unf. Qed.
Lemma cc_wl_done_cl_set_last_err (c : cconn hstate) e : cc_wl_done (cl_set_last_err c e) = cc_wl_done c. Proof. cc_unf. Qed.
Lemma cc_rl_stuck_cl_set_last_err (c : cconn hstate) e : cc_rl_stuck (cl_set_last_err c e) = cc_rl_stuck c. Proof. cc_unf. Qed.
Lemma cc_wl_stuck_cl_set_last_err (c : cconn hstate) e : cc_wl_stuck (cl_set_last_err c e) = cc_wl_stuck c. Proof. cc_unf. Qed.
Lemma cc_out_cl_set_last_err (c : cconn hstate) e : cc_out (cl_set_last_err c e) = cc_out c. Proof. cc_unf. Qed.
Lemma cc_ctxs_cl_req_del (c : cconn hstate) id : cc_ctxs (cl_req_del c id) = cc_ctxs c. Proof. cc_unf. Qed.
Lemma cc_nextID_cl_req_del (c : cconn hstate) id : cc_nextID (cl_req_del c id) = cc_nextID c. Proof. cc_unf. Qed.
Lemma cc_open_cl_req_del (c : cconn hstate) id : cc_open (cl_req_del c id) = cc_open c. Proof. cc_unf. Qed.
Lemma cc_maxStreams_cl_req_del (c : cconn hstate) id : cc_maxStreams (cl_req_del c id) = cc_maxStreams c. Proof. cc_unf. Qed.
Lemma cc_maxFrame_cl_req_del (c : cconn hstate) id : cc_maxFrame (cl_req_del c id) = cc_maxFrame c. Proof. cc_unf. Qed.
Lemma cc_goAway_cl_req_del (c : cconn hstate) id : cc_goAway (cl_req_del c id) = cc_goAway c. Proof. cc_unf. Qed.
Lemma cc_closed_cl_req_del (c : cconn hstate) id : cc_closed (cl_req_del c id) = cc_closed c. Proof. cc_unf. Qed.
Lemma cc_closing_cl_req_del (c : cconn hstate) id : cc_closing (cl_req_del c id) = cc_closing c. Proof. cc_unf. Qed.
Lemma cc_netClosed_cl_req_del (c : cconn hstate) id : cc_netClosed (cl_req_del c id) = cc_netClosed c. Proof. cc_unf. Qed.
Lemma cc_writeFail_cl_req_del (c : cconn hstate) id : cc_writeFail (cl_req_del c id) = cc_writeFail c. Proof. cc_unf. Qed.
Lemma cc_enc_cl_req_del (c : cconn hstate) id : cc_enc (cl_req_del c id) = cc_enc c. Proof. cc_unf. Qed.
Lemma cc_encTableSize_cl_req_del (c : cconn hstate) id : cc_encTableSize (cl_req_del c id) = cc_encTableSize c. Proof. cc_unf. Qed.
Lemma cc_encTableSeen_cl_req_del (c : cconn hstate) id : cc_encTableSeen (cl_req_del c id) = cc_encTableSeen c. Proof. cc_unf. Qed.
Lemma cc_dec_cl_req_del (c : cconn hstate) id : cc_dec (cl_req_del c id) = cc_dec c. Proof. cc_unf. Qed.
Lemma cc_currentWindow_cl_req_del (c : cconn hstate) id : cc_currentWindow (cl_req_del c id) = cc_currentWindow c. Proof. cc_unf. Qed.
Lemma cc_serverS_cl_req_del (c : cconn hstate) id : cc_serverS (cl_req_del c id) = cc_serverS c. Proof. cc_unf. Qed.
Lemma cc_hdrStream_cl_req_del (c : cconn hstate) id : cc_hdrStream (cl_req_del c id) = cc_hdrStream c. Proof. cc_unf. Qed.
Lemma cc_hdrPrev_cl_req_del (c : cconn hstate) id : cc_hdrPrev (cl_req_del c id) = cc_hdrPrev c. Proof. cc_unf. Qed.
Lemma cc_hdrFields_cl_req_del (c : cconn hstate) id : cc_hdrFields (cl_req_del c id) = cc_hdrFields c. Proof. cc_unf. Qed.
Lemma cc_hdrEndStream_cl_req_del (c : cconn hstate) id : cc_hdrEndStream (cl_req_del c id) = cc_hdrEndStream c. Proof. cc_unf. Qed.
Lemma cc_hdrRegularSeen_cl_req_del (c : cconn hstate) id : cc_hdrRegularSeen (cl_req_del c id) = cc_hdrRegularSeen c. Proof. cc_unf. Qed.
Lemma cc_hdrStatus_cl_req_del (c : cconn hstate) id : cc_hdrStatus (cl_req_del c id) = cc_hdrStatus c. Proof. cc_unf. Qed.
Lemma cc_hdrErr_cl_req_del (c : cconn hstate) id : cc_hdrErr (cl_req_del c id) = cc_hdrErr c. Proof. cc_unf. Qed.
Lemma cc_stateClosed_cl_req_del (c : cconn hstate) id : cc_stateClosed (cl_req_del c id) = cc_stateClosed c. Proof. cc_unf. Qed.
Lemma cc_closeRef_cl_req_del (c : cconn hstate) id : cc_closeRef (cl_req_del c id) = cc_closeRef c. Proof. cc_unf. Qed.
Lemma cc_pending_cl_req_del (c : cconn hstate) id : cc_pending (cl_req_del c id) = cc_pending c. Proof. cc_unf. Qed.
Lemma cc_connWindow_cl_req_del (c : cconn hstate) id : cc_connWindow (cl_req_del c id) = cc_connWindow c. Proof. cc_unf. Qed.
Lemma cc_streamWindow_cl_req_del (c : cconn hstate) id : cc_streamWindow (cl_req_del c id) = cc_streamWindow c. Proof. cc_unf. Qed.
Lemma cc_inQ_cl_req_del (c : cconn hstate) id : cc_inQ (cl_req_del c id) = cc_inQ c. Proof. cc_unf. Qed.
Lemma cc_outQ_cl_req_del (c : cconn hstate) id : cc_outQ (cl_req_del c id) = cc_outQ c. Proof. cc_unf. Qed.
Lemma cc_winCh_cl_req_del (c : cconn hstate) id : cc_winCh (cl_req_del c id) = cc_winCh c. Proof. cc_unf. Qed.
Lemma cc_lastErr_cl_req_del (c : cconn hstate) id : cc_lastErr (cl_req_del c id) = cc_lastErr c. Proof. cc_unf. Qed.
Lemma cc_unacks_cl_req_del (c : cconn hstate) id : cc_unacks (cl_req_del c id) = cc_unacks c. Proof. cc_unf. Qed.
Lemma cc_rl_done_cl_req_del (c : cconn hstate) id : cc_rl_done (cl_req_del c id) = cc_rl_done c. Proof. cc_unf. Qed.
Lemma cc_wl_done_cl_req_del (c : cconn hstate) id : cc_wl_done (cl_req_del c id) = cc_wl_done c. Proof. cc_unf. Qed.
Lemma cc_rl_stuck_cl_req_del (c : cconn hstate) id : cc_rl_stuck (cl_req_del c id) = cc_rl_stuck c. Proof. cc_unf. Qed.
Lemma cc_wl_stuck_cl_req_del (c : cconn hstate) id : cc_wl_stuck (cl_req_del c id) = cc_wl_stuck c. Proof. cc_unf. Qed.
Lemma cc_out_cl_req_del (c : cconn hstate) id : cc_out (cl_req_del c id) = cc_out c. Proof. cc_unf. Qed.
Lemma cc_ctxs_cl_take_req_count (c : cconn hstate) id : cc_ctxs (cl_take_req_count c id) = cc_ctxs c. Proof. cc_unf. Qed.
Lemma cc_nextID_cl_take_req_count (c : cconn hstate) id : cc_nextID (cl_take_req_count c id) = cc_nextID c. Proof. cc_unf. Qed.
Lemma cc_maxStreams_cl_take_req_count (c : cconn hstate) id : cc_maxStreams (cl_take_req_count c id) = cc_maxStreams c. Proof. cc_unf. Qed.
Lemma cc_maxFrame_cl_take_req_count (c : cconn hstate) id : cc_maxFrame (cl_take_req_count c id) = cc_maxFrame c. Proof. cc_unf. Qed.
Lemma cc_goAway_cl_take_req_count (c : cconn hstate) id : cc_goAway (cl_take_req_count c id) = cc_goAway c. Proof. cc_unf. Qed.
Lemma cc_closed_cl_take_req_count (c : cconn hstate) id : cc_closed (cl_take_req_count c id) = cc_closed c. Proof. cc_unf. Qed.
Lemma cc_closing_cl_take_req_count (c : cconn hstate) id : cc_closing (cl_take_req_count c id) = cc_closing c. Proof. cc_unf. Qed.
Lemma cc_netClosed_cl_take_req_count (c : cconn hstate) id : cc_netClosed (cl_take_req_count c id) = cc_netClosed c. Proof. cc_unf. Qed.
Lemma cc_writeFail_cl_take_req_count (c : cconn hstate) id : cc_writeFail (cl_take_req_count c id) = cc_writeFail c. Proof. cc_unf. Qed.
Lemma cc_enc_cl_take_req_count (c : cconn hstate) id : cc_enc (cl_take_req_count c id) = cc_enc c. Proof. cc_unf. Qed.
Lemma cc_encTableSize_cl_take_req_count (c : cconn hstate) id : cc_encTableSize (cl_take_req_count c id) = cc_encTableSize c. Proof. cc_unf. Qed.
Lemma cc_encTableSeen_cl_take_req_count (c : cconn hstate) id : cc_encTableSeen (cl_take_req_count c id) = cc_encTableSeen c. Proof. cc_unf. Qed.
Lemma cc_dec_cl_take_req_count (c : cconn hstate) id : cc_dec (cl_take_req_count c id) = cc_dec c. Proof. cc_unf. Qed.
Lemma cc_currentWindow_cl_take_req_count (c : cconn hstate) id : cc_currentWindow (cl_take_req_count c id) = cc_currentWindow c. Proof. cc_unf. Qed.
Lemma cc_serverS_cl_take_req_count (c : cconn hstate) id : cc_serverS (cl_take_req_count c id) = cc_serverS c. Proof. cc_unf. Qed.
Lemma cc_hdrStream_cl_take_req_count (c : cconn hstate) id : cc_hdrStream (cl_take_req_count c id) = cc_hdrStream c. Proof. cc_unf. Qed.
Lemma cc_hdrPrev_cl_take_req_count (c : cconn hstate) id : cc_hdrPrev (cl_take_req_count c id) = cc_hdrPrev c. Proof. cc_unf. Qed.
Lemma cc_hdrFields_cl_take_req_count (c : cconn hstate) id : cc_hdrFields (cl_take_req_count c id) = cc_hdrFields c. Proof. cc_unf. Qed.
Lemma cc_hdrEndStream_cl_take_req_count (c : cconn hstate) id : cc_hdrEndStream (cl_take_req_count c id) = cc_hdrEndStream c. Proof. cc_unf. Qed.
Lemma cc_hdrRegularSeen_cl_take_req_count (c : cconn hstate) id : cc_hdrRegularSeen (cl_take_req_count c id) = cc_hdrRegularSeen c. Proof. cc_unf. Qed.
Lemma cc_hdrStatus_cl_take_req_count (c : cconn hstate) id : cc_hdrStatus (cl_take_req_count c id) = cc_hdrStatus c. Proof. cc_unf. Qed.
Lemma cc_hdrErr_cl_take_req_count (c : cconn hstate) id : cc_hdrErr (cl_take_req_count c id) = cc_hdrErr c. Proof. cc_unf. Qed.
Lemma cc_stateClosed_cl_take_req_count (c : cconn hstate) id : cc_stateClosed (cl_take_req_count c id) = cc_stateClosed c. Proof. cc_unf. Qed.
Lemma cc_closeRef_cl_take_req_count (c : cconn hstate) id : cc_closeRef (cl_take_req_count c id) = cc_closeRef c. Proof. cc_unf. Qed.
Lemma cc_pending_cl_take_req_count (c : cconn hstate) id : cc_pending (cl_take_req_count c id) = cc_pending c. Proof. cc_unf. Qed.
Lemma cc_connWindow_cl_take_req_count (c : cconn hstate) id : cc_connWindow (cl_take_req_count c id) = cc_connWindow c. Proof. cc_unf. Qed.
Lemma cc_streamWindow_cl_take_req_count (c : cconn hstate) id : cc_streamWindow (cl_take_req_count c id) = cc_streamWindow c. Proof. cc_unf. Qed.
Lemma cc_inQ_cl_take_req_count (c : cconn hstate) id : cc_inQ (cl_take_req_count c id) = cc_inQ c. Proof. cc_unf. Qed.
Lemma cc_outQ_cl_take_req_count (c : cconn hstate) id : cc_outQ (cl_take_req_count c id) = cc_outQ c. Proof. cc_unf. Qed.
Lemma cc_winCh_cl_take_req_count (c : cconn hstate) id : cc_winCh (cl_take_req_count c id) = cc_winCh c. Proof. cc_unf. Qed.
Lemma cc_lastErr_cl_take_req_count (c : cconn hstate) id : cc_lastErr (cl_take_req_count c id) = cc_lastErr c. Proof. cc_unf. Qed.
Lemma cc_unacks_cl_take_req_count (c : cconn hstate) id : cc_unacks (cl_take_req_count c id) = cc_unacks c. Proof. cc_unf. Qed.
Lemma cc_rl_done_cl_take_req_count (c : cconn hstate) id : cc_rl_done (cl_take_req_count c id) = cc_rl_done c. Proof. cc_unf. Qed.
Lemma cc_wl_done_cl_take_req_count (c : cconn hstate) id : cc_wl_done (cl_take_req_count c id) = cc_wl_done c. Proof. cc_unf. Qed.
Lemma cc_rl_stuck_cl_take_req_count (c : cconn hstate) id : cc_rl_stuck (cl_take_req_count c id) = cc_rl_stuck c. Proof. cc_unf. Qed.
Lemma cc_wl_stuck_cl_take_req_count (c : cconn hstate) id : cc_wl_stuck (cl_take_req_count c id) = cc_wl_stuck c. Proof. cc_unf. Qed.
Lemma cc_out_cl_take_req_count (c : cconn hstate) id : cc_out (cl_take_req_count c id) = cc_out c. Proof. cc_unf. Qed.
Lemma cc_ctxs_cl_write_out (c : cconn hstate) o : cc_ctxs (cl_write_out c o) = cc_ctxs c. Proof. cc_unf. Qed.
Lemma cc_nextID_cl_write_out (c : cconn hstate) o : cc_nextID (cl_write_out c o) = cc_nextID c. Proof. cc_unf. Qed.
Lemma cc_open_cl_write_out (c : cconn hstate) o : cc_open (cl_write_out c o) = cc_open c. Proof. cc_unf. Qed.
Lemma cc_maxStreams_cl_write_out (c : cconn hstate) o : cc_maxStreams (cl_write_out c o) = cc_maxStreams c. Proof. cc_unf. Qed.
Lemma cc_maxFrame_cl_write_out (c : cconn hstate) o : cc_maxFrame (cl_write_out c o) = cc_maxFrame c. Proof. cc_unf. Qed.
Lemma cc_goAway_cl_write_out (c : cconn hstate) o : cc_goAway (cl_write_out c o) = cc_goAway c. Proof. cc_unf. Qed.
Lemma cc_closed_cl_write_out (c : cconn hstate) o : cc_closed (cl_write_out c o) = cc_closed c. Proof. cc_unf. Qed.
Lemma cc_closing_cl_write_out (c : cconn hstate) o : cc_closing (cl_write_out c o) = cc_closing c. Proof. cc_unf. Qed.
Lemma cc_netClosed_cl_write_out (c : cconn hstate) o : cc_netClosed (cl_write_out c o) = cc_netClosed c. Proof. cc_unf. Qed.
Lemma cc_writeFail_cl_write_out (c : cconn hstate) o : cc_writeFail (cl_write_out c o) = cc_writeFail c. Proof. cc_unf. Qed.
Lemma cc_enc_cl_write_out (c : cconn hstate) o : cc_enc (cl_write_out c o) = cc_enc c. Proof. cc_unf. Qed.
Lemma cc_encTableSize_cl_write_out (c : cconn hstate) o : cc_encTableSize (cl_write_out c o) = cc_encTableSize c. Proof. cc_unf. Qed.
Lemma cc_encTableSeen_cl_write_out (c : cconn hstate) o : cc_encTableSeen (cl_write_out c o) = cc_encTableSeen c. Proof. cc_unf. Qed.
Lemma cc_dec_cl_write_out (c : cconn hstate) o : cc_dec (cl_write_out c o) = cc_dec c. Proof. cc_unf. Qed.
Lemma cc_currentWindow_cl_write_out (c : cconn hstate) o : cc_currentWindow (cl_write_out c o) = cc_currentWindow c. Proof. cc_unf. Qed.
Lemma cc_serverS_cl_write_out (c : cconn hstate) o : cc_serverS (cl_write_out c o) = cc_serverS c. Proof. cc_unf. Qed.
Lemma cc_hdrStream_cl_write_out (c : cconn hstate) o : cc_hdrStream (cl_write_out c o) = cc_hdrStream c. Proof. cc_unf. Qed.
Lemma cc_hdrPrev_cl_write_out (c : cconn hstate) o : cc_hdrPrev (cl_write_out c o) = cc_hdrPrev c. Proof. cc_unf. Qed.
Lemma cc_hdrFields_cl_write_out (c : cconn hstate) o : cc_hdrFields (cl_write_out c o) = cc_hdrFields c. Proof. cc_unf. Qed.
Lemma cc_hdrEndStream_cl_write_out (c : cconn hstate) o : cc_hdrEndStream (cl_write_out c o) = cc_hdrEndStream c. Proof. cc_unf. Qed.
Lemma cc_hdrRegularSeen_cl_write_out (c : cconn hstate) o : cc_hdrRegularSeen (cl_write_out c o) = cc_hdrRegularSeen c. Proof. cc_unf. Qed.
Lemma cc_hdrStatus_cl_write_out (c : cconn hstate) o : cc_hdrStatus (cl_write_out c o) = cc_hdrStatus c. Proof. cc_unf. Qed.
Lemma cc_hdrErr_cl_write_out (c : cconn hstate) o : cc_hdrErr (cl_write_out c o) = cc_hdrErr c. Proof. cc_unf. Qed.
Lemma cc_stateClosed_cl_write_out (c : cconn hstate) o : cc_stateClosed (cl_write_out c o) = cc_stateClosed c. Proof. cc_unf. Qed.
Lemma cc_closeRef_cl_write_out (c : cconn hstate) o : cc_closeRef (cl_write_out c o) = cc_closeRef c. Proof. cc_unf. Qed.
Lemma cc_reqQueued_cl_write_out (c : cconn hstate) o : cc_reqQueued (cl_write_out c o) = cc_reqQueued c. Proof. cc_unf. Qed.
Lemma cc_pending_cl_write_out (c : cconn hstate) o : cc_pending (cl_write_out c o) = cc_pending c. Proof. cc_unf. Qed.
Lemma cc_connWindow_cl_write_out (c : cconn hstate) o : cc_connWindow (cl_write_out c o) = cc_connWindow c. Proof. cc_unf. Qed.
Lemma cc_streamWindow_cl_write_out (c : cconn hstate) o : cc_streamWindow (cl_write_out c o) = cc_streamWindow c. Proof. cc_unf. Qed.
Lemma cc_inQ_cl_write_out (c : cconn hstate) o : cc_inQ (cl_write_out c o) = cc_inQ c. Proof. cc_unf. Qed.
Lemma cc_winCh_cl_write_out (c : cconn hstate) o : cc_winCh (cl_write_out c o) = cc_winCh c. Proof. cc_unf. Qed.
Lemma cc_lastErr_cl_write_out (c : cconn hstate) o : cc_lastErr (cl_write_out c o) = cc_lastErr c. Proof. cc_unf. Qed.
Lemma cc_unacks_cl_write_out (c : cconn hstate) o : cc_unacks (cl_write_out c o) = cc_unacks c. Proof. cc_unf. Qed.
Lemma cc_rl_done_cl_write_out (c : cconn hstate) o : cc_rl_done (cl_write_out c o) = cc_rl_done c. Proof. cc_unf. Qed.
Lemma cc_wl_done_cl_write_out (c : cconn hstate) o : cc_wl_done (cl_write_out c o) = cc_wl_done c. Proof. cc_unf. Qed.
Lemma cc_rl_stuck_cl_write_out (c : cconn hstate) o : cc_rl_stuck (cl_write_out c o) = cc_rl_stuck c. Proof. cc_unf. Qed.
Lemma cc_wl_stuck_cl_write_out (c : cconn hstate) o : cc_wl_stuck (cl_write_out c o) = cc_wl_stuck c. Proof. cc_unf. Qed.
Lemma cc_out_cl_write_out (c : cconn hstate) o : cc_out (cl_write_out c o) = cc_out c. Proof. cc_unf. Qed.
Lemma cc_ctxs_cl_signal_window (c : cconn hstate)  : cc_ctxs (cl_signal_window c) = cc_ctxs c. Proof. cc_unf. Qed.
Lemma cc_nextID_cl_signal_window (c : cconn hstate)  : cc_nextID (cl_signal_window c) = cc_nextID c. Proof. cc_unf. Qed.
Lemma cc_open_cl_signal_window (c : cconn hstate)  : cc_open (cl_signal_window c) = cc_open c. Proof. cc_unf. Qed.
Lemma cc_maxStreams_cl_signal_window (c : cconn hstate)  : cc_maxStreams (cl_signal_window c) = cc_maxStreams c. Proof. cc_unf. Qed.
Lemma cc_maxFrame_cl_signal_window (c : cconn hstate)  : cc_maxFrame (cl_signal_window c) = cc_maxFrame c. Proof. cc_unf. Qed.
Lemma cc_goAway_cl_signal_window (c : cconn hstate)  : cc_goAway (cl_signal_window c) = cc_goAway c. Proof. cc_unf. Qed.
Lemma cc_closed_cl_signal_window (c : cconn hstate)  : cc_closed (cl_signal_window c) = cc_closed c. Proof. cc_unf. Qed.
Lemma cc_closing_cl_signal_window (c : cconn hstate)  : cc_closing (cl_signal_window c) = cc_closing c. Proof. cc_unf. Qed.
Lemma cc_netClosed_cl_signal_window (c : cconn hstate)  : cc_netClosed (cl_signal_window c) = cc_netClosed c. Proof. cc_unf. Qed.
Lemma cc_writeFail_cl_signal_window (c : cconn hstate)  : cc_writeFail (cl_signal_window c) = cc_writeFail c. Proof. cc_unf. Qed.
Lemma cc_enc_cl_signal_window (c : cconn hstate)  : cc_enc (cl_signal_window c) = cc_enc c. Proof. cc_unf. Qed.
Lemma cc_encTableSize_cl_signal_window (c : cconn hstate)  : cc_encTableSize (cl_signal_window c) = cc_encTableSize c. Proof. cc_unf. Qed.
Lemma cc_encTableSeen_cl_signal_window (c : cconn hstate)  : cc_encTableSeen (cl_signal_window c) = cc_encTableSeen c. Proof. cc_unf. Qed.
Lemma cc_dec_cl_signal_window (c : cconn hstate)  : cc_dec (cl_signal_window c) = cc_dec c. Proof. cc_unf. Qed.
Lemma cc_currentWindow_cl_signal_window (c : cconn hstate)  : cc_currentWindow (cl_signal_window c) = cc_currentWindow c. Proof. cc_unf. Qed.
Lemma cc_serverS_cl_signal_window (c : cconn hstate)  : cc_serverS (cl_signal_window c) = cc_serverS c. Proof. cc_unf. Qed.
Lemma cc_hdrStream_cl_signal_window (c : cconn hstate)  : cc_hdrStream (cl_signal_window c) = cc_hdrStream c. Proof. cc_unf. Qed.
Lemma cc_hdrPrev_cl_signal_window (c : cconn hstate)  : cc_hdrPrev (cl_signal_window c) = cc_hdrPrev c. Proof. cc_unf. Qed.
Lemma cc_hdrFields_cl_signal_window (c : cconn hstate)  : cc_hdrFields (cl_signal_window c) = cc_hdrFields c. Proof. cc_unf. Qed.
Lemma cc_hdrEndStream_cl_signal_window (c : cconn hstate)  : cc_hdrEndStream (cl_signal_window c) = cc_hdrEndStream c. Proof. cc_unf. Qed.
Lemma cc_hdrRegularSeen_cl_signal_window (c : cconn hstate)  : cc_hdrRegularSeen (cl_signal_window c) = cc_hdrRegularSeen c. Proof. cc_unf. Qed.
Lemma cc_hdrStatus_cl_signal_window (c : cconn hstate)  : cc_hdrStatus (cl_signal_window c) = cc_hdrStatus c. Proof. cc_unf. Qed.
Lemma cc_hdrErr_cl_signal_window (c : cconn hstate)  : cc_hdrErr (cl_signal_window c) = cc_hdrErr c. Proof. cc_unf. Qed.
Lemma cc_stateClosed_cl_signal_window (c : cconn hstate)  : cc_stateClosed (cl_signal_window c) = cc_stateClosed c. Proof. cc_unf. Qed.
Lemma cc_closeRef_cl_signal_window (c : cconn hstate)  : cc_closeRef (cl_signal_window c) = cc_closeRef c. Proof. cc_unf. Qed.
Lemma cc_reqQueued_cl_signal_window (c : cconn hstate)  : cc_reqQueued (cl_signal_window c) = cc_reqQueued c. Proof. cc_unf. Qed.
Lemma cc_pending_cl_signal_window (c : cconn hstate)  : cc_pending (cl_signal_window c) = cc_pending c. Proof. cc_unf. Qed.
Lemma cc_connWindow_cl_signal_window (c : cconn hstate)  : cc_connWindow (cl_signal_window c) = cc_connWindow c. Proof. cc_unf. Qed.
Lemma cc_streamWindow_cl_signal_window (c : cconn hstate)  : cc_streamWindow (cl_signal_window c) = cc_streamWindow c. Proof. cc_unf. Qed.
Lemma cc_inQ_cl_signal_window (c : cconn hstate)  : cc_inQ (cl_signal_window c) = cc_inQ c. Proof. cc_unf. Qed.
Lemma cc_outQ_cl_signal_window (c : cconn hstate)  : cc_outQ (cl_signal_window c) = cc_outQ c. Proof. cc_unf. Qed.
Lemma cc_lastErr_cl_signal_window (c : cconn hstate)  : cc_lastErr (cl_signal_window c) = cc_lastErr c. Proof. cc_unf. Qed.
Lemma cc_unacks_cl_signal_window (c : cconn hstate)  : cc_unacks (cl_signal_window c) = cc_unacks c. Proof. cc_unf. Qed.
Lemma cc_rl_done_cl_signal_window (c : cconn hstate)  : cc_rl_done (cl_signal_window c) = cc_rl_done c. Proof. cc_unf. Qed.
Lemma cc_wl_done_cl_signal_window (c : cconn hstate)  : cc_wl_done (cl_signal_window c) = cc_wl_done c. Proof. cc_unf. Qed.
Lemma cc_rl_stuck_cl_signal_window (c : cconn hstate)  : cc_rl_stuck (cl_signal_window c) = cc_rl_stuck c. Proof. cc_unf. Qed.
Lemma cc_wl_stuck_cl_signal_window (c : cconn hstate)  : cc_wl_stuck (cl_signal_window c) = cc_wl_stuck c. Proof. cc_unf. Qed.
Lemma cc_out_cl_signal_window (c : cconn hstate)  : cc_out (cl_signal_window c) = cc_out c. Proof. cc_unf. Qed.
Lemma cc_ctxs_cl_close_begin (c : cconn hstate)  : cc_ctxs (fst (cl_close_begin c)) = cc_ctxs c. Proof. cc_unf. Qed.
Lemma cc_nextID_cl_close_begin (c : cconn hstate)  : cc_nextID (fst (cl_close_begin c)) = cc_nextID c. Proof. cc_unf. Qed.
Lemma cc_open_cl_close_begin (c : cconn hstate)  : cc_open (fst (cl_close_begin c)) = cc_open c. Proof. cc_unf. Qed.
Lemma cc_maxStreams_cl_close_begin (c : cconn hstate)  : cc_maxStreams (fst (cl_close_begin c)) = cc_maxStreams c. Proof. cc_unf. Qed.
Lemma cc_maxFrame_cl_close_begin (c : cconn hstate)  : cc_maxFrame (fst (cl_close_begin c)) = cc_maxFrame c. Proof. cc_unf. Qed.
Lemma cc_goAway_cl_close_begin (c : cconn hstate)  : cc_goAway (fst (cl_close_begin c)) = cc_goAway c. Proof. cc_unf. Qed.
Lemma cc_closing_cl_close_begin (c : cconn hstate)  : cc_closing (fst (cl_close_begin c)) = cc_closing c. Proof. cc_unf. Qed.
Lemma cc_netClosed_cl_close_begin (c : cconn hstate)  : cc_netClosed (fst (cl_close_begin c)) = cc_netClosed c. Proof. cc_unf. Qed.
Lemma cc_writeFail_cl_close_begin (c : cconn hstate)  : cc_writeFail (fst (cl_close_begin c)) = cc_writeFail c. Proof. cc_unf. Qed.
Lemma cc_enc_cl_close_begin (c : cconn hstate)  : cc_enc (fst (cl_close_begin c)) = cc_enc c. Proof. cc_unf. Qed.
Lemma cc_encTableSize_cl_close_begin (c : cconn hstate)  : cc_encTableSize (fst (cl_close_begin c)) = cc_encTableSize c. Proof. cc_unf. Qed.
Lemma cc_encTableSeen_cl_close_begin (c : cconn hstate)  : cc_encTableSeen (fst (cl_close_begin c)) = cc_encTableSeen c. Proof. cc_unf. Qed.
Lemma cc_dec_cl_close_begin (c : cconn hstate)  : cc_dec (fst (cl_close_begin c)) = cc_dec c. Proof. cc_unf. Qed.
Lemma cc_currentWindow_cl_close_begin (c : cconn hstate)  : cc_currentWindow (fst (cl_close_begin c)) = cc_currentWindow c. Proof. cc_unf. Qed.
Lemma cc_serverS_cl_close_begin (c : cconn hstate)  : cc_serverS (fst (cl_close_begin c)) = cc_serverS c. Proof. cc_unf. Qed.
Lemma cc_hdrStream_cl_close_begin (c : cconn hstate)  : cc_hdrStream (fst (cl_close_begin c)) = cc_hdrStream c. Proof. cc_unf. Qed.
Lemma cc_hdrPrev_cl_close_begin (c : cconn hstate)  : cc_hdrPrev (fst (cl_close_begin c)) = cc_hdrPrev c. Proof. cc_unf. Qed.
Lemma cc_hdrFields_cl_close_begin (c : cconn hstate)  : cc_hdrFields (fst (cl_close_begin c)) = cc_hdrFields c. Proof. cc_unf. Qed.
Lemma cc_hdrEndStream_cl_close_begin (c : cconn hstate)  : cc_hdrEndStream (fst (cl_close_begin c)) = cc_hdrEndStream c. Proof. cc_unf. Qed.
Lemma cc_hdrRegularSeen_cl_close_begin (c : cconn hstate)  : cc_hdrRegularSeen (fst (cl_close_begin c)) = cc_hdrRegularSeen c. Proof. cc_unf. Qed.
Lemma cc_hdrStatus_cl_close_begin (c : cconn hstate)  : cc_hdrStatus (fst (cl_close_begin c)) = cc_hdrStatus c. Proof. cc_unf. Qed.
Lemma cc_hdrErr_cl_close_begin (c : cconn hstate)  : cc_hdrErr (fst (cl_close_begin c)) = cc_hdrErr c. Proof. cc_unf. Qed.
Lemma cc_stateClosed_cl_close_begin (c : cconn hstate)  : cc_stateClosed (fst (cl_close_begin c)) = cc_stateClosed c. Proof. cc_unf. Qed.
Lemma cc_closeRef_cl_close_begin (c : cconn hstate)  : cc_closeRef (fst (cl_close_begin c)) = cc_closeRef c. Proof. cc_unf. Qed.
Lemma cc_reqQueued_cl_close_begin (c : cconn hstate)  : cc_reqQueued (fst (cl_close_begin c)) = cc_reqQueued c. Proof. cc_unf. Qed.
Lemma cc_pending_cl_close_begin (c : cconn hstate)  : cc_pending (fst (cl_close_begin c)) = cc_pending c. Proof. cc_unf. Qed.
Lemma cc_connWindow_cl_close_begin (c : cconn hstate)  : cc_connWindow (fst (cl_close_begin c)) = cc_connWindow c. Proof. cc_unf. Qed.
Lemma cc_streamWindow_cl_close_begin (c : cconn hstate)  : cc_streamWindow (fst (cl_close_begin c)) = cc_streamWindow c. Proof. cc_unf. Qed.
Lemma cc_inQ_cl_close_begin (c : cconn hstate)  : cc_inQ (fst (cl_close_begin c)) = cc_inQ c. Proof. cc_unf. Qed.
Lemma cc_outQ_cl_close_begin (c : cconn hstate)  : cc_outQ (fst (cl_close_begin c)) = cc_outQ c. Proof. cc_unf. Qed.
Lemma cc_winCh_cl_close_begin (c : cconn hstate)  : cc_winCh (fst (cl_close_begin c)) = cc_winCh c. Proof. cc_unf. Qed.
Lemma cc_lastErr_cl_close_begin (c : cconn hstate)  : cc_lastErr (fst (cl_close_begin c)) = cc_lastErr c. Proof. cc_unf. Qed.
Lemma cc_unacks_cl_close_begin (c : cconn hstate)  : cc_unacks (fst (cl_close_begin c)) = cc_unacks c. Proof. cc_unf. Qed.
Lemma cc_rl_done_cl_close_begin (c : cconn hstate)  : cc_rl_done (fst (cl_close_begin c)) = cc_rl_done c. Proof. cc_unf. Qed.
Lemma cc_wl_done_cl_close_begin (c : cconn hstate)  : cc_wl_done (fst (cl_close_begin c)) = cc_wl_done c. Proof. cc_unf. Qed.
Lemma cc_rl_stuck_cl_close_begin (c : cconn hstate)  : cc_rl_stuck (fst (cl_close_begin c)) = cc_rl_stuck c. Proof. cc_unf. Qed.
Lemma cc_wl_stuck_cl_close_begin (c : cconn hstate)  : cc_wl_stuck (fst (cl_close_begin c)) = cc_wl_stuck c. Proof. cc_unf. Qed.
Lemma cc_out_cl_close_begin (c : cconn hstate)  : cc_out (fst (cl_close_begin c)) = cc_out c. Proof. cc_unf. Qed.
Lemma cc_ctxs_cl_close_net (c : cconn hstate)  : cc_ctxs (cl_close_net c) = cc_ctxs c. Proof. cc_unf. Qed.
Lemma cc_nextID_cl_close_net (c : cconn hstate)  : cc_nextID (cl_close_net c) = cc_nextID c. Proof. cc_unf. Qed.
Lemma cc_open_cl_close_net (c : cconn hstate)  : cc_open (cl_close_net c) = cc_open c. Proof. cc_unf. Qed.
Lemma cc_maxStreams_cl_close_net (c : cconn hstate)  : cc_maxStreams (cl_close_net c) = cc_maxStreams c. Proof. cc_unf. Qed.
Lemma cc_maxFrame_cl_close_net (c : cconn hstate)  : cc_maxFrame (cl_close_net c) = cc_maxFrame c. Proof. cc_unf. Qed.
Lemma cc_goAway_cl_close_net (c : cconn hstate)  : cc_goAway (cl_close_net c) = cc_goAway c. Proof. cc_unf. Qed.
Lemma cc_closed_cl_close_net (c : cconn hstate)  : cc_closed (cl_close_net c) = cc_closed c. Proof. cc_unf. Qed.
Lemma cc_closing_cl_close_net (c : cconn hstate)  : cc_closing (cl_close_net c) = cc_closing c. Proof. cc_unf. Qed.
Lemma cc_writeFail_cl_close_net (c : cconn hstate)  : cc_writeFail (cl_close_net c) = cc_writeFail c. Proof. cc_unf. Qed.
Lemma cc_enc_cl_close_net (c : cconn hstate)  : cc_enc (cl_close_net c) = cc_enc c. Proof. cc_unf. Qed.
Lemma cc_encTableSize_cl_close_net (c : cconn hstate)  : cc_encTableSize (cl_close_net c) = cc_encTableSize c. Proof. cc_unf. Qed.
Lemma cc_encTableSeen_cl_close_net (c : cconn hstate)  : cc_encTableSeen (cl_close_net c) = cc_encTableSeen c. Proof. cc_unf. Qed.
Lemma cc_dec_cl_close_net (c : cconn hstate)  : cc_dec (cl_close_net c) = cc_dec c. Proof. cc_unf. Qed.
Lemma cc_currentWindow_cl_close_net (c : cconn hstate)  : cc_currentWindow (cl_close_net c) = cc_currentWindow c. Proof. cc_unf. Qed.
Lemma cc_serverS_cl_close_net (c : cconn hstate)  : cc_serverS (cl_close_net c) = cc_serverS c. Proof. cc_unf. Qed.
Lemma cc_hdrStream_cl_close_net (c : cconn hstate)  : cc_hdrStream (cl_close_net c) = cc_hdrStream c. Proof. cc_unf. Qed.
Lemma cc_hdrPrev_cl_close_net (c : cconn hstate)  : cc_hdrPrev (cl_close_net c) = cc_hdrPrev c. Proof. cc_unf. Qed.
Lemma cc_hdrFields_cl_close_net (c : cconn hstate)  : cc_hdrFields (cl_close_net c) = cc_hdrFields c. Proof. cc_unf. Qed.
Lemma cc_hdrEndStream_cl_close_net (c : cconn hstate)  : cc_hdrEndStream (cl_close_net c) = cc_hdrEndStream c. Proof. cc_unf. Qed.
Lemma cc_hdrRegularSeen_cl_close_net (c : cconn hstate)  : cc_hdrRegularSeen (cl_close_net c) = cc_hdrRegularSeen c. Proof. cc_unf. Qed.
Lemma cc_hdrStatus_cl_close_net (c : cconn hstate)  : cc_hdrStatus (cl_close_net c) = cc_hdrStatus c. Proof. cc_unf. Qed.
Lemma cc_hdrErr_cl_close_net (c : cconn hstate)  : cc_hdrErr (cl_close_net c) = cc_hdrErr c. Proof. cc_unf. Qed.
Lemma cc_stateClosed_cl_close_net (c : cconn hstate)  : cc_stateClosed (cl_close_net c) = cc_stateClosed c. Proof. cc_unf. Qed.
Lemma cc_closeRef_cl_close_net (c : cconn hstate)  : cc_closeRef (cl_close_net c) = cc_closeRef c. Proof. cc_unf. Qed.
Lemma cc_reqQueued_cl_close_net (c : cconn hstate)  : cc_reqQueued (cl_close_net c) = cc_reqQueued c. Proof. cc_unf. Qed.
Lemma cc_pending_cl_close_net (c : cconn hstate)  : cc_pending (cl_close_net c) = cc_pending c. Proof. cc_unf. Qed.
Lemma cc_connWindow_cl_close_net (c : cconn hstate)  : cc_connWindow (cl_close_net c) = cc_connWindow c. Proof. cc_unf. Qed.
Lemma cc_streamWindow_cl_close_net (c : cconn hstate)  : cc_streamWindow (cl_close_net c) = cc_streamWindow c. Proof. cc_unf. Qed.
Lemma cc_inQ_cl_close_net (c : cconn hstate)  : cc_inQ (cl_close_net c) = cc_inQ c. Proof. cc_unf. Qed.
Lemma cc_outQ_cl_close_net (c : cconn hstate)  : cc_outQ (cl_close_net c) = cc_outQ c. Proof. cc_unf. Qed.
Lemma cc_winCh_cl_close_net (c : cconn hstate)  : cc_winCh (cl_close_net c) = cc_winCh c. Proof. cc_unf. Qed.
Lemma cc_lastErr_cl_close_net (c : cconn hstate)  : cc_lastErr (cl_close_net c) = cc_lastErr c. Proof. cc_unf. Qed.
Lemma cc_unacks_cl_close_net (c : cconn hstate)  : cc_unacks (cl_close_net c) = cc_unacks c. Proof. cc_unf. Qed.
Lemma cc_rl_done_cl_close_net (c : cconn hstate)  : cc_rl_done (cl_close_net c) = cc_rl_done c. Proof. cc_unf. Qed.
Lemma cc_wl_done_cl_close_net (c : cconn hstate)  : cc_wl_done (cl_close_net c) = cc_wl_done c. Proof. cc_unf. Qed.
Lemma cc_rl_stuck_cl_close_net (c : cconn hstate)  : cc_rl_stuck (cl_close_net c) = cc_rl_stuck c. Proof. cc_unf. Qed.
Lemma cc_wl_stuck_cl_close_net (c : cconn hstate)  : cc_wl_stuck (cl_close_net c) = cc_wl_stuck c. Proof. cc_unf. Qed.
Lemma cc_ctxs_cl_conn_close (c : cconn hstate)  : cc_ctxs (cl_conn_close c) = cc_ctxs c. Proof. cc_unf. Qed.
Lemma cc_nextID_cl_conn_close (c : cconn hstate)  : cc_nextID (cl_conn_close c) = cc_nextID c. Proof. cc_unf. Qed.
Lemma cc_open_cl_conn_close (c : cconn hstate)  : cc_open (cl_conn_close c) = cc_open c. Proof. cc_unf. Qed.
Lemma cc_maxStreams_cl_conn_close (c : cconn hstate)  : cc_maxStreams (cl_conn_close c) = cc_maxStreams c. Proof. cc_unf. Qed.
Lemma cc_maxFrame_cl_conn_close (c : cconn hstate)  : cc_maxFrame (cl_conn_close c) = cc_maxFrame c. Proof. cc_unf. Qed.
Lemma cc_goAway_cl_conn_close (c : cconn hstate)  : cc_goAway (cl_conn_close c) = cc_goAway c. Proof. cc_unf. Qed.
Lemma cc_closing_cl_conn_close (c : cconn hstate)  : cc_closing (cl_conn_close c) = cc_closing c. Proof. cc_unf. Qed.
Lemma cc_writeFail_cl_conn_close (c : cconn hstate)  : cc_writeFail (cl_conn_close c) = cc_writeFail c. Proof. cc_unf. Qed.
Lemma cc_enc_cl_conn_close (c : cconn hstate)  : cc_enc (cl_conn_close c) = cc_enc c. Proof. cc_unf. Qed.
Lemma cc_encTableSize_cl_conn_close (c : cconn hstate)  : cc_encTableSize (cl_conn_close c) = cc_encTableSize c. Proof. cc_unf. Qed.
Lemma cc_encTableSeen_cl_conn_close (c : cconn hstate)  : cc_encTableSeen (cl_conn_close c) = cc_encTableSeen c. Proof. cc_unf. Qed.
Lemma cc_dec_cl_conn_close (c : cconn hstate)  : cc_dec (cl_conn_close c) = cc_dec c. Proof. cc_unf. Qed.
Lemma cc_currentWindow_cl_conn_close (c : cconn hstate)  : cc_currentWindow (cl_conn_close c) = cc_currentWindow c. Proof. cc_unf. Qed.
Lemma cc_serverS_cl_conn_close (c : cconn hstate)  : cc_serverS (cl_conn_close c) = cc_serverS c. Proof. cc_unf. Qed.
Lemma cc_hdrStream_cl_conn_close (c : cconn hstate)  : cc_hdrStream (cl_conn_close c) = cc_hdrStream c. Proof. cc_unf. Qed.
Lemma cc_hdrPrev_cl_conn_close (c : cconn hstate)  : cc_hdrPrev (cl_conn_close c) = cc_hdrPrev c. Proof. cc_unf. Qed.
Lemma cc_hdrFields_cl_conn_close (c : cconn hstate)  : cc_hdrFields (cl_conn_close c) = cc_hdrFields c. Proof. cc_unf. Qed.
Lemma cc_hdrEndStream_cl_conn_close (c : cconn hstate)  : cc_hdrEndStream (cl_conn_close c) = cc_hdrEndStream c. Proof. cc_unf. Qed.
Lemma cc_hdrRegularSeen_cl_conn_close (c : cconn hstate)  : cc_hdrRegularSeen (cl_conn_close c) = cc_hdrRegularSeen c. Proof. cc_unf. Qed.
Lemma cc_hdrStatus_cl_conn_close (c : cconn hstate)  : cc_hdrStatus (cl_conn_close c) = cc_hdrStatus c. Proof. cc_unf. Qed.
Lemma cc_hdrErr_cl_conn_close (c : cconn hstate)  : cc_hdrErr (cl_conn_close c) = cc_hdrErr c. Proof. cc_unf. Qed.
Lemma cc_stateClosed_cl_conn_close (c : cconn hstate)  : cc_stateClosed (cl_conn_close c) = cc_stateClosed c. Proof. cc_unf. Qed.
Lemma cc_closeRef_cl_conn_close (c : cconn hstate)  : cc_closeRef (cl_conn_close c) = cc_closeRef c. Proof. cc_unf. Qed.
Lemma cc_reqQueued_cl_conn_close (c : cconn hstate)  : cc_reqQueued (cl_conn_close c) = cc_reqQueued c. Proof. cc_unf. Qed.
Lemma cc_pending_cl_conn_close (c : cconn hstate)  : cc_pending (cl_conn_close c) = cc_pending c. Proof. cc_unf. Qed.
Lemma cc_connWindow_cl_conn_close (c : cconn hstate)  : cc_connWindow (cl_conn_close c) = cc_connWindow c. Proof. cc_unf. Qed.
Lemma cc_streamWindow_cl_conn_close (c : cconn hstate)  : cc_streamWindow (cl_conn_close c) = cc_streamWindow c. Proof. cc_unf. Qed.
Lemma cc_inQ_cl_conn_close (c : cconn hstate)  : cc_inQ (cl_conn_close c) = cc_inQ c. Proof. cc_unf. Qed.
Lemma cc_outQ_cl_conn_close (c : cconn hstate)  : cc_outQ (cl_conn_close c) = cc_outQ c. Proof. cc_unf. Qed.
Lemma cc_winCh_cl_conn_close (c : cconn hstate)  : cc_winCh (cl_conn_close c) = cc_winCh c. Proof. cc_unf. Qed.
Lemma cc_lastErr_cl_conn_close (c : cconn hstate)  : cc_lastErr (cl_conn_close c) = cc_lastErr c. Proof. cc_unf. Qed.
Lemma cc_unacks_cl_conn_close (c : cconn hstate)  : cc_unacks (cl_conn_close c) = cc_unacks c. Proof. cc_unf. Qed.
Lemma cc_rl_done_cl_conn_close (c : cconn hstate)  : cc_rl_done (cl_conn_close c) = cc_rl_done c. Proof. cc_unf. Qed.
Lemma cc_wl_done_cl_conn_close (c : cconn hstate)  : cc_wl_done (cl_conn_close c) = cc_wl_done c. Proof. cc_unf. Qed.
Lemma cc_rl_stuck_cl_conn_close (c : cconn hstate)  : cc_rl_stuck (cl_conn_close c) = cc_rl_stuck c. Proof. cc_unf. Qed.
Lemma cc_wl_stuck_cl_conn_close (c : cconn hstate)  : cc_wl_stuck (cl_conn_close c) = cc_wl_stuck c. Proof. cc_unf. Qed.
Lemma cc_nextID_cl_go_stuck (c : cconn hstate) who held self tag : cc_nextID (cl_go_stuck who held c self tag) = cc_nextID c. Proof. cc_unf. Qed.
Lemma cc_open_cl_go_stuck (c : cconn hstate) who held self tag : cc_open (cl_go_stuck who held c self tag) = cc_open c. Proof. cc_unf. Qed.
Lemma cc_maxStreams_cl_go_stuck (c : cconn hstate) who held self tag : cc_maxStreams (cl_go_stuck who held c self tag) = cc_maxStreams c. Proof. cc_unf. Qed.
Lemma cc_maxFrame_cl_go_stuck (c : cconn hstate) who held self tag : cc_maxFrame (cl_go_stuck who held c self tag) = cc_maxFrame c. Proof. cc_unf. Qed.
Lemma cc_goAway_cl_go_stuck (c : cconn hstate) who held self tag : cc_goAway (cl_go_stuck who held c self tag) = cc_goAway c. Proof. cc_unf. Qed.
Lemma cc_closed_cl_go_stuck (c : cconn hstate) who held self tag : cc_closed (cl_go_stuck who held c self tag) = cc_closed c. Proof. cc_unf. Qed.
Lemma cc_closing_cl_go_stuck (c : cconn hstate) who held self tag : cc_closing (cl_go_stuck who held c self tag) = cc_closing c. Proof. cc_unf. Qed.
Lemma cc_netClosed_cl_go_stuck (c : cconn hstate) who held self tag : cc_netClosed (cl_go_stuck who held c self tag) = cc_netClosed c. Proof. cc_unf. Qed.
Lemma cc_writeFail_cl_go_stuck (c : cconn hstate) who held self tag : cc_writeFail (cl_go_stuck who held c self tag) = cc_writeFail c. Proof. cc_unf. Qed.
Lemma cc_enc_cl_go_stuck (c : cconn hstate) who held self tag : cc_enc (cl_go_stuck who held c self tag) = cc_enc c. Proof. cc_unf. Qed.
Lemma cc_encTableSize_cl_go_stuck (c : cconn hstate) who held self tag : cc_encTableSize (cl_go_stuck who held c self tag) = cc_encTableSize c. Proof. cc_unf. Qed.
Lemma cc_encTableSeen_cl_go_stuck (c : cconn hstate) who held self tag : cc_encTableSeen (cl_go_stuck who held c self tag) = cc_encTableSeen c. Proof. cc_unf. Qed.
Lemma cc_dec_cl_go_stuck (c : cconn hstate) who held self tag : cc_dec (cl_go_stuck who held c self tag) = cc_dec c. Proof. cc_unf. Qed.
Lemma cc_currentWindow_cl_go_stuck (c : cconn hstate) who held self tag : cc_currentWindow (cl_go_stuck who held c self tag) = cc_currentWindow c. Proof. cc_unf. Qed.
Lemma cc_serverS_cl_go_stuck (c : cconn hstate) who held self tag : cc_serverS (cl_go_stuck who held c self tag) = cc_serverS c. Proof. cc_unf. Qed.
Lemma cc_hdrStream_cl_go_stuck (c : cconn hstate) who held self tag : cc_hdrStream (cl_go_stuck who held c self tag) = cc_hdrStream c. Proof. cc_unf. Qed.
Lemma cc_hdrPrev_cl_go_stuck (c : cconn hstate) who held self tag : cc_hdrPrev (cl_go_stuck who held c self tag) = cc_hdrPrev c. Proof. cc_unf. Qed.
Lemma cc_hdrFields_cl_go_stuck (c : cconn hstate) who held self tag : cc_hdrFields (cl_go_stuck who held c self tag) = cc_hdrFields c. Proof. cc_unf. Qed.
Lemma cc_hdrEndStream_cl_go_stuck (c : cconn hstate) who held self tag : cc_hdrEndStream (cl_go_stuck who held c self tag) = cc_hdrEndStream c. Proof. cc_unf. Qed.
Lemma cc_hdrRegularSeen_cl_go_stuck (c : cconn hstate) who held self tag : cc_hdrRegularSeen (cl_go_stuck who held c self tag) = cc_hdrRegularSeen c. Proof. cc_unf. Qed.
Lemma cc_hdrStatus_cl_go_stuck (c : cconn hstate) who held self tag : cc_hdrStatus (cl_go_stuck who held c self tag) = cc_hdrStatus c. Proof. cc_unf. Qed.
Lemma cc_hdrErr_cl_go_stuck (c : cconn hstate) who held self tag : cc_hdrErr (cl_go_stuck who held c self tag) = cc_hdrErr c. Proof. cc_unf. Qed.
Lemma cc_stateClosed_cl_go_stuck (c : cconn hstate) who held self tag : cc_stateClosed (cl_go_stuck who held c self tag) = cc_stateClosed c. Proof. cc_unf. Qed.
Lemma cc_closeRef_cl_go_stuck (c : cconn hstate) who held self tag : cc_closeRef (cl_go_stuck who held c self tag) = cc_closeRef c. Proof. cc_unf. Qed.
Lemma cc_reqQueued_cl_go_stuck (c : cconn hstate) who held self tag : cc_reqQueued (cl_go_stuck who held c self tag) = cc_reqQueued c. Proof. cc_unf. Qed.
Lemma cc_pending_cl_go_stuck (c : cconn hstate) who held self tag : cc_pending (cl_go_stuck who held c self tag) = cc_pending c. Proof. cc_unf. Qed.
Lemma cc_connWindow_cl_go_stuck (c : cconn hstate) who held self tag : cc_connWindow (cl_go_stuck who held c self tag) = cc_connWindow c. Proof. cc_unf. Qed.
Lemma cc_streamWindow_cl_go_stuck (c : cconn hstate) who held self tag : cc_streamWindow (cl_go_stuck who held c self tag) = cc_streamWindow c. Proof. cc_unf. Qed.
Lemma cc_inQ_cl_go_stuck (c : cconn hstate) who held self tag : cc_inQ (cl_go_stuck who held c self tag) = cc_inQ c. Proof. cc_unf. Qed.
Lemma cc_outQ_cl_go_stuck (c : cconn hstate) who held self tag : cc_outQ (cl_go_stuck who held c self tag) = cc_outQ c. Proof. cc_unf. Qed.
Lemma cc_winCh_cl_go_stuck (c : cconn hstate) who held self tag : cc_winCh (cl_go_stuck who held c self tag) = cc_winCh c. Proof. cc_unf. Qed.
Lemma cc_lastErr_cl_go_stuck (c : cconn hstate) who held self tag : cc_lastErr (cl_go_stuck who held c self tag) = cc_lastErr c. Proof. cc_unf. Qed.
Lemma cc_unacks_cl_go_stuck (c : cconn hstate) who held self tag : cc_unacks (cl_go_stuck who held c self tag) = cc_unacks c. Proof. cc_unf. Qed.
Lemma cc_rl_done_cl_go_stuck (c : cconn hstate) who held self tag : cc_rl_done (cl_go_stuck who held c self tag) = cc_rl_done c. Proof. cc_unf. Qed.
Lemma cc_wl_done_cl_go_stuck (c : cconn hstate) who held self tag : cc_wl_done (cl_go_stuck who held c self tag) = cc_wl_done c. Proof. cc_unf. Qed.
Lemma cc_nextID_cl_close_body (c : cconn hstate) pb : cc_nextID (cl_close_body c pb) = cc_nextID c. Proof. cc_unf. Qed.
Lemma cc_open_cl_close_body (c : cconn hstate) pb : cc_open (cl_close_body c pb) = cc_open c. Proof. cc_unf. Qed.
Lemma cc_maxStreams_cl_close_body (c : cconn hstate) pb : cc_maxStreams (cl_close_body c pb) = cc_maxStreams c. Proof. cc_unf. Qed.
Lemma cc_maxFrame_cl_close_body (c : cconn hstate) pb : cc_maxFrame (cl_close_body c pb) = cc_maxFrame c. Proof. cc_unf. Qed.
Lemma cc_goAway_cl_close_body (c : cconn hstate) pb : cc_goAway (cl_close_body c pb) = cc_goAway c. Proof. cc_unf. Qed.
Lemma cc_closed_cl_close_body (c : cconn hstate) pb : cc_closed (cl_close_body c pb) = cc_closed c. Proof. cc_unf. Qed.
Lemma cc_closing_cl_close_body (c : cconn hstate) pb : cc_closing (cl_close_body c pb) = cc_closing c. Proof. cc_unf. Qed.
Lemma cc_netClosed_cl_close_body (c : cconn hstate) pb : cc_netClosed (cl_close_body c pb) = cc_netClosed c. Proof. cc_unf. Qed.
Lemma cc_writeFail_cl_close_body (c : cconn hstate) pb : cc_writeFail (cl_close_body c pb) = cc_writeFail c. Proof. cc_unf. Qed.
Lemma cc_enc_cl_close_body (c : cconn hstate) pb : cc_enc (cl_close_body c pb) = cc_enc c. Proof. cc_unf. Qed.
Lemma cc_encTableSize_cl_close_body (c : cconn hstate) pb : cc_encTableSize (cl_close_body c pb) = cc_encTableSize c. Proof. cc_unf. Qed.
Lemma cc_encTableSeen_cl_close_body (c : cconn hstate) pb : cc_encTableSeen (cl_close_body c pb) = cc_encTableSeen c. Proof. cc_unf. Qed.
Lemma cc_dec_cl_close_body (c : cconn hstate) pb : cc_dec (cl_close_body c pb) = cc_dec c. Proof. cc_unf. Qed.
Lemma cc_currentWindow_cl_close_body (c : cconn hstate) pb : cc_currentWindow (cl_close_body c pb) = cc_currentWindow c. Proof. cc_unf. Qed.
Lemma cc_serverS_cl_close_body (c : cconn hstate) pb : cc_serverS (cl_close_body c pb) = cc_serverS c. Proof. cc_unf. Qed.
Lemma cc_hdrStream_cl_close_body (c : cconn hstate) pb : cc_hdrStream (cl_close_body c pb) = cc_hdrStream c. Proof. cc_unf. Qed.
Lemma cc_hdrPrev_cl_close_body (c : cconn hstate) pb : cc_hdrPrev (cl_close_body c pb) = cc_hdrPrev c. Proof. cc_unf. Qed.
Lemma cc_hdrFields_cl_close_body (c : cconn hstate) pb : cc_hdrFields (cl_close_body c pb) = cc_hdrFields c. Proof. cc_unf. Qed.
Lemma cc_hdrEndStream_cl_close_body (c : cconn hstate) pb : cc_hdrEndStream (cl_close_body c pb) = cc_hdrEndStream c. Proof. cc_unf. Qed.
Lemma cc_hdrRegularSeen_cl_close_body (c : cconn hstate) pb : cc_hdrRegularSeen (cl_close_body c pb) = cc_hdrRegularSeen c. Proof. cc_unf. Qed.
Lemma cc_hdrStatus_cl_close_body (c : cconn hstate) pb : cc_hdrStatus (cl_close_body c pb) = cc_hdrStatus c. Proof. cc_unf. Qed.
Lemma cc_hdrErr_cl_close_body (c : cconn hstate) pb : cc_hdrErr (cl_close_body c pb) = cc_hdrErr c. Proof. cc_unf. Qed.
Lemma cc_stateClosed_cl_close_body (c : cconn hstate) pb : cc_stateClosed (cl_close_body c pb) = cc_stateClosed c. Proof. cc_unf. Qed.
Lemma cc_closeRef_cl_close_body (c : cconn hstate) pb : cc_closeRef (cl_close_body c pb) = cc_closeRef c. Proof. cc_unf. Qed.
Lemma cc_reqQueued_cl_close_body (c : cconn hstate) pb : cc_reqQueued (cl_close_body c pb) = cc_reqQueued c. Proof. cc_unf. Qed.
Lemma cc_pending_cl_close_body (c : cconn hstate) pb : cc_pending (cl_close_body c pb) = cc_pending c. Proof. cc_unf. Qed.
Lemma cc_connWindow_cl_close_body (c : cconn hstate) pb : cc_connWindow (cl_close_body c pb) = cc_connWindow c. Proof. cc_unf. Qed.
Lemma cc_streamWindow_cl_close_body (c : cconn hstate) pb : cc_streamWindow (cl_close_body c pb) = cc_streamWindow c. Proof. cc_unf. Qed.
Lemma cc_inQ_cl_close_body (c : cconn hstate) pb : cc_inQ (cl_close_body c pb) = cc_inQ c. Proof. cc_unf. Qed.
Lemma cc_outQ_cl_close_body (c : cconn hstate) pb : cc_outQ (cl_close_body c pb) = cc_outQ c. Proof. cc_unf. Qed.
Lemma cc_winCh_cl_close_body (c : cconn hstate) pb : cc_winCh (cl_close_body c pb) = cc_winCh c. Proof. cc_unf. Qed.
Lemma cc_lastErr_cl_close_body (c : cconn hstate) pb : cc_lastErr (cl_close_body c pb) = cc_lastErr c. Proof. cc_unf. Qed.
Lemma cc_unacks_cl_close_body (c : cconn hstate) pb : cc_unacks (cl_close_body c pb) = cc_unacks c. Proof. cc_unf. Qed.
Lemma cc_rl_done_cl_close_body (c : cconn hstate) pb : cc_rl_done (cl_close_body c pb) = cc_rl_done c. Proof. cc_unf. Qed.
Lemma cc_wl_done_cl_close_body (c : cconn hstate) pb : cc_wl_done (cl_close_body c pb) = cc_wl_done c. Proof. cc_unf. Qed.
Lemma cc_rl_stuck_cl_close_body (c : cconn hstate) pb : cc_rl_stuck (cl_close_body c pb) = cc_rl_stuck c. Proof. cc_unf. Qed.
Lemma cc_wl_stuck_cl_close_body (c : cconn hstate) pb : cc_wl_stuck (cl_close_body c pb) = cc_wl_stuck c. Proof. cc_unf. Qed.
Lemma cc_nextID_cl_delete_pending (c : cconn hstate) who held id : cc_nextID (fst (cl_delete_pending who held c id)) = cc_nextID c. Proof. cc_unf. Qed.
Lemma cc_open_cl_delete_pending (c : cconn hstate) who held id : cc_open (fst (cl_delete_pending who held c id)) = cc_open c. Proof. cc_unf. Qed.
Lemma cc_maxStreams_cl_delete_pending (c : cconn hstate) who held id : cc_maxStreams (fst (cl_delete_pending who held c id)) = cc_maxStreams c. Proof. cc_unf. Qed.
Lemma cc_maxFrame_cl_delete_pending (c : cconn hstate) who held id : cc_maxFrame (fst (cl_delete_pending who held c id)) = cc_maxFrame c. Proof. cc_unf. Qed.
Lemma cc_goAway_cl_delete_pending (c : cconn hstate) who held id : cc_goAway (fst (cl_delete_pending who held c id)) = cc_goAway c. Proof. cc_unf. Qed.
Lemma cc_closed_cl_delete_pending (c : cconn hstate) who held id : cc_closed (fst (cl_delete_pending who held c id)) = cc_closed c. Proof. cc_unf. Qed.
Lemma cc_closing_cl_delete_pending (c : cconn hstate) who held id : cc_closing (fst (cl_delete_pending who held c id)) = cc_closing c. Proof. cc_unf. Qed.
Lemma cc_netClosed_cl_delete_pending (c : cconn hstate) who held id : cc_netClosed (fst (cl_delete_pending who held c id)) = cc_netClosed c. Proof. cc_unf. Qed.
Lemma cc_writeFail_cl_delete_pending (c : cconn hstate) who held id : cc_writeFail (fst (cl_delete_pending who held c id)) = cc_writeFail c. Proof. cc_unf. Qed.
Lemma cc_enc_cl_delete_pending (c : cconn hstate) who held id : cc_enc (fst (cl_delete_pending who held c id)) = cc_enc c. Proof. cc_unf. Qed.
Lemma cc_encTableSize_cl_delete_pending (c : cconn hstate) who held id : cc_encTableSize (fst (cl_delete_pending who held c id)) = cc_encTableSize c. Proof. cc_unf. Qed.
Lemma cc_encTableSeen_cl_delete_pending (c : cconn hstate) who held id : cc_encTableSeen (fst (cl_delete_pending who held c id)) = cc_encTableSeen c. Proof. cc_unf. Qed.
Lemma cc_dec_cl_delete_pending (c : cconn hstate) who held id : cc_dec (fst (cl_delete_pending who held c id)) = cc_dec c. Proof. cc_unf. Qed.
Lemma cc_currentWindow_cl_delete_pending (c : cconn hstate) who held id : cc_currentWindow (fst (cl_delete_pending who held c id)) = cc_currentWindow c. Proof. cc_unf. Qed.
Lemma cc_serverS_cl_delete_pending (c : cconn hstate) who held id : cc_serverS (fst (cl_delete_pending who held c id)) = cc_serverS c. Proof. cc_unf. Qed.
Lemma cc_hdrStream_cl_delete_pending (c : cconn hstate) who held id : cc_hdrStream (fst (cl_delete_pending who held c id)) = cc_hdrStream c. Proof. cc_unf. Qed.
Lemma cc_hdrPrev_cl_delete_pending (c : cconn hstate) who held id : cc_hdrPrev (fst (cl_delete_pending who held c id)) = cc_hdrPrev c. Proof. cc_unf. Qed.
Lemma cc_hdrFields_cl_delete_pending (c : cconn hstate) who held id : cc_hdrFields (fst (cl_delete_pending who held c id)) = cc_hdrFields c. Proof. cc_unf. Qed.
Lemma cc_hdrEndStream_cl_delete_pending (c : cconn hstate) who held id : cc_hdrEndStream (fst (cl_delete_pending who held c id)) = cc_hdrEndStream c. Proof. cc_unf. Qed.
Lemma cc_hdrRegularSeen_cl_delete_pending (c : cconn hstate) who held id : cc_hdrRegularSeen (fst (cl_delete_pending who held c id)) = cc_hdrRegularSeen c. Proof. cc_unf. Qed.
Lemma cc_hdrStatus_cl_delete_pending (c : cconn hstate) who held id : cc_hdrStatus (fst (cl_delete_pending who held c id)) = cc_hdrStatus c. Proof. cc_unf. Qed.
Lemma cc_hdrErr_cl_delete_pending (c : cconn hstate) who held id : cc_hdrErr (fst (cl_delete_pending who held c id)) = cc_hdrErr c. Proof. cc_unf. Qed.
Lemma cc_stateClosed_cl_delete_pending (c : cconn hstate) who held id : cc_stateClosed (fst (cl_delete_pending who held c id)) = cc_stateClosed c. Proof. cc_unf. Qed.
Lemma cc_closeRef_cl_delete_pending (c : cconn hstate) who held id : cc_closeRef (fst (cl_delete_pending who held c id)) = cc_closeRef c. Proof. cc_unf. Qed.
Lemma cc_reqQueued_cl_delete_pending (c : cconn hstate) who held id : cc_reqQueued (fst (cl_delete_pending who held c id)) = cc_reqQueued c. Proof. cc_unf. Qed.
Lemma cc_connWindow_cl_delete_pending (c : cconn hstate) who held id : cc_connWindow (fst (cl_delete_pending who held c id)) = cc_connWindow c. Proof. cc_unf. Qed.
Lemma cc_streamWindow_cl_delete_pending (c : cconn hstate) who held id : cc_streamWindow (fst (cl_delete_pending who held c id)) = cc_streamWindow c. Proof. cc_unf. Qed.
Lemma cc_inQ_cl_delete_pending (c : cconn hstate) who held id : cc_inQ (fst (cl_delete_pending who held c id)) = cc_inQ c. Proof. cc_unf. Qed.
Lemma cc_outQ_cl_delete_pending (c : cconn hstate) who held id : cc_outQ (fst (cl_delete_pending who held c id)) = cc_outQ c. Proof. cc_unf. Qed.
Lemma cc_winCh_cl_delete_pending (c : cconn hstate) who held id : cc_winCh (fst (cl_delete_pending who held c id)) = cc_winCh c. Proof. cc_unf. Qed.
Lemma cc_lastErr_cl_delete_pending (c : cconn hstate) who held id : cc_lastErr (fst (cl_delete_pending who held c id)) = cc_lastErr c. Proof. cc_unf. Qed.
Lemma cc_unacks_cl_delete_pending (c : cconn hstate) who held id : cc_unacks (fst (cl_delete_pending who held c id)) = cc_unacks c. Proof. cc_unf. Qed.
Lemma cc_rl_done_cl_delete_pending (c : cconn hstate) who held id : cc_rl_done (fst (cl_delete_pending who held c id)) = cc_rl_done c. Proof. cc_unf. Qed.
Lemma cc_wl_done_cl_delete_pending (c : cconn hstate) who held id : cc_wl_done (fst (cl_delete_pending who held c id)) = cc_wl_done c. Proof. cc_unf. Qed.
Lemma cc_ctxs_cl_cancel_stream (c : cconn hstate) id code : cc_ctxs (cl_cancel_stream c id code) = cc_ctxs c. Proof. cc_unf. Qed.
Lemma cc_nextID_cl_cancel_stream (c : cconn hstate) id code : cc_nextID (cl_cancel_stream c id code) = cc_nextID c. Proof. cc_unf. Qed.
Lemma cc_open_cl_cancel_stream (c : cconn hstate) id code : cc_open (cl_cancel_stream c id code) = cc_open c. Proof. cc_unf. Qed.
Lemma cc_maxStreams_cl_cancel_stream (c : cconn hstate) id code : cc_maxStreams (cl_cancel_stream c id code) = cc_maxStreams c. Proof. cc_unf. Qed.
Lemma cc_maxFrame_cl_cancel_stream (c : cconn hstate) id code : cc_maxFrame (cl_cancel_stream c id code) = cc_maxFrame c. Proof. cc_unf. Qed.
Lemma cc_goAway_cl_cancel_stream (c : cconn hstate) id code : cc_goAway (cl_cancel_stream c id code) = cc_goAway c. Proof. cc_unf. Qed.
Lemma cc_closed_cl_cancel_stream (c : cconn hstate) id code : cc_closed (cl_cancel_stream c id code) = cc_closed c. Proof. cc_unf. Qed.
Lemma cc_closing_cl_cancel_stream (c : cconn hstate) id code : cc_closing (cl_cancel_stream c id code) = cc_closing c. Proof. cc_unf. Qed.
Lemma cc_netClosed_cl_cancel_stream (c : cconn hstate) id code : cc_netClosed (cl_cancel_stream c id code) = cc_netClosed c. Proof. cc_unf. Qed.
Lemma cc_writeFail_cl_cancel_stream (c : cconn hstate) id code : cc_writeFail (cl_cancel_stream c id code) = cc_writeFail c. Proof. cc_unf. Qed.
Lemma cc_enc_cl_cancel_stream (c : cconn hstate) id code : cc_enc (cl_cancel_stream c id code) = cc_enc c. Proof. cc_unf. Qed.
Lemma cc_encTableSize_cl_cancel_stream (c : cconn hstate) id code : cc_encTableSize (cl_cancel_stream c id code) = cc_encTableSize c. Proof. cc_unf. Qed.
Lemma cc_encTableSeen_cl_cancel_stream (c : cconn hstate) id code : cc_encTableSeen (cl_cancel_stream c id code) = cc_encTableSeen c. Proof. cc_unf. Qed.
Lemma cc_dec_cl_cancel_stream (c : cconn hstate) id code : cc_dec (cl_cancel_stream c id code) = cc_dec c. Proof. cc_unf. Qed.
Lemma cc_currentWindow_cl_cancel_stream (c : cconn hstate) id code : cc_currentWindow (cl_cancel_stream c id code) = cc_currentWindow c. Proof. cc_unf. Qed.
Lemma cc_serverS_cl_cancel_stream (c : cconn hstate) id code : cc_serverS (cl_cancel_stream c id code) = cc_serverS c. Proof. cc_unf. Qed.
Lemma cc_hdrStream_cl_cancel_stream (c : cconn hstate) id code : cc_hdrStream (cl_cancel_stream c id code) = cc_hdrStream c. Proof. cc_unf. Qed.
Lemma cc_hdrPrev_cl_cancel_stream (c : cconn hstate) id code : cc_hdrPrev (cl_cancel_stream c id code) = cc_hdrPrev c. Proof. cc_unf. Qed.
Lemma cc_hdrFields_cl_cancel_stream (c : cconn hstate) id code : cc_hdrFields (cl_cancel_stream c id code) = cc_hdrFields c. Proof. cc_unf. Qed.
Lemma cc_hdrEndStream_cl_cancel_stream (c : cconn hstate) id code : cc_hdrEndStream (cl_cancel_stream c id code) = cc_hdrEndStream c. Proof. cc_unf. Qed.
Lemma cc_hdrRegularSeen_cl_cancel_stream (c : cconn hstate) id code : cc_hdrRegularSeen (cl_cancel_stream c id code) = cc_hdrRegularSeen c. Proof. cc_unf. Qed.
Lemma cc_hdrStatus_cl_cancel_stream (c : cconn hstate) id code : cc_hdrStatus (cl_cancel_stream c id code) = cc_hdrStatus c. Proof. cc_unf. Qed.
Lemma cc_hdrErr_cl_cancel_stream (c : cconn hstate) id code : cc_hdrErr (cl_cancel_stream c id code) = cc_hdrErr c. Proof. cc_unf. Qed.
Lemma cc_stateClosed_cl_cancel_stream (c : cconn hstate) id code : cc_stateClosed (cl_cancel_stream c id code) = cc_stateClosed c. Proof. cc_unf. Qed.
Lemma cc_closeRef_cl_cancel_stream (c : cconn hstate) id code : cc_closeRef (cl_cancel_stream c id code) = cc_closeRef c. Proof. cc_unf. Qed.
Lemma cc_reqQueued_cl_cancel_stream (c : cconn hstate) id code : cc_reqQueued (cl_cancel_stream c id code) = cc_reqQueued c. Proof. cc_unf. Qed.
Lemma cc_pending_cl_cancel_stream (c : cconn hstate) id code : cc_pending (cl_cancel_stream c id code) = cc_pending c. Proof. cc_unf. Qed.
Lemma cc_connWindow_cl_cancel_stream (c : cconn hstate) id code : cc_connWindow (cl_cancel_stream c id code) = cc_connWindow c. Proof. cc_unf. Qed.
Lemma cc_streamWindow_cl_cancel_stream (c : cconn hstate) id code : cc_streamWindow (cl_cancel_stream c id code) = cc_streamWindow c. Proof. cc_unf. Qed.
Lemma cc_inQ_cl_cancel_stream (c : cconn hstate) id code : cc_inQ (cl_cancel_stream c id code) = cc_inQ c. Proof. cc_unf. Qed.
Lemma cc_winCh_cl_cancel_stream (c : cconn hstate) id code : cc_winCh (cl_cancel_stream c id code) = cc_winCh c. Proof. cc_unf. Qed.
Lemma cc_lastErr_cl_cancel_stream (c : cconn hstate) id code : cc_lastErr (cl_cancel_stream c id code) = cc_lastErr c. Proof. cc_unf. Qed.
Lemma cc_unacks_cl_cancel_stream (c : cconn hstate) id code : cc_unacks (cl_cancel_stream c id code) = cc_unacks c. Proof. cc_unf. Qed.
Lemma cc_rl_done_cl_cancel_stream (c : cconn hstate) id code : cc_rl_done (cl_cancel_stream c id code) = cc_rl_done c. Proof. cc_unf. Qed.
Lemma cc_wl_done_cl_cancel_stream (c : cconn hstate) id code : cc_wl_done (cl_cancel_stream c id code) = cc_wl_done c. Proof. cc_unf. Qed.
Lemma cc_rl_stuck_cl_cancel_stream (c : cconn hstate) id code : cc_rl_stuck (cl_cancel_stream c id code) = cc_rl_stuck c. Proof. cc_unf. Qed.
Lemma cc_wl_stuck_cl_cancel_stream (c : cconn hstate) id code : cc_wl_stuck (cl_cancel_stream c id code) = cc_wl_stuck c. Proof. cc_unf. Qed.
Lemma cc_out_cl_cancel_stream (c : cconn hstate) id code : cc_out (cl_cancel_stream c id code) = cc_out c. Proof. cc_unf. Qed.
Lemma cc_ctxs_cl_apply_initial_window (c : cconn hstate) size : cc_ctxs (cl_apply_initial_window c size) = cc_ctxs c. Proof. cc_unf. Qed.
Lemma cc_nextID_cl_apply_initial_window (c : cconn hstate) size : cc_nextID (cl_apply_initial_window c size) = cc_nextID c. Proof. cc_unf. Qed.
Lemma cc_open_cl_apply_initial_window (c : cconn hstate) size : cc_open (cl_apply_initial_window c size) = cc_open c. Proof. cc_unf. Qed.
Lemma cc_maxStreams_cl_apply_initial_window (c : cconn hstate) size : cc_maxStreams (cl_apply_initial_window c size) = cc_maxStreams c. Proof. cc_unf. Qed.
Lemma cc_maxFrame_cl_apply_initial_window (c : cconn hstate) size : cc_maxFrame (cl_apply_initial_window c size) = cc_maxFrame c. Proof. cc_unf. Qed.
Lemma cc_goAway_cl_apply_initial_window (c : cconn hstate) size : cc_goAway (cl_apply_initial_window c size) = cc_goAway c. Proof. cc_unf. Qed.
Lemma cc_closed_cl_apply_initial_window (c : cconn hstate) size : cc_closed (cl_apply_initial_window c size) = cc_closed c. Proof. cc_unf. Qed.
Lemma cc_closing_cl_apply_initial_window (c : cconn hstate) size : cc_closing (cl_apply_initial_window c size) = cc_closing c. Proof. cc_unf. Qed.
Lemma cc_netClosed_cl_apply_initial_window (c : cconn hstate) size : cc_netClosed (cl_apply_initial_window c size) = cc_netClosed c. Proof. cc_unf. Qed.
Lemma cc_writeFail_cl_apply_initial_window (c : cconn hstate) size : cc_writeFail (cl_apply_initial_window c size) = cc_writeFail c. Proof. cc_unf. Qed.
Lemma cc_enc_cl_apply_initial_window (c : cconn hstate) size : cc_enc (cl_apply_initial_window c size) = cc_enc c. Proof. cc_unf. Qed.
Lemma cc_encTableSize_cl_apply_initial_window (c : cconn hstate) size : cc_encTableSize (cl_apply_initial_window c size) = cc_encTableSize c. Proof. cc_unf. Qed.
Lemma cc_encTableSeen_cl_apply_initial_window (c : cconn hstate) size : cc_encTableSeen (cl_apply_initial_window c size) = cc_encTableSeen c. Proof. cc_unf. Qed.
Lemma cc_dec_cl_apply_initial_window (c : cconn hstate) size : cc_dec (cl_apply_initial_window c size) = cc_dec c. Proof. cc_unf. Qed.
Lemma cc_currentWindow_cl_apply_initial_window (c : cconn hstate) size : cc_currentWindow (cl_apply_initial_window c size) = cc_currentWindow c. Proof. cc_unf. Qed.
Lemma cc_serverS_cl_apply_initial_window (c : cconn hstate) size : cc_serverS (cl_apply_initial_window c size) = cc_serverS c. Proof. cc_unf. Qed.
Lemma cc_hdrStream_cl_apply_initial_window (c : cconn hstate) size : cc_hdrStream (cl_apply_initial_window c size) = cc_hdrStream c. Proof. cc_unf. Qed.
Lemma cc_hdrPrev_cl_apply_initial_window (c : cconn hstate) size : cc_hdrPrev (cl_apply_initial_window c size) = cc_hdrPrev c. Proof. cc_unf. Qed.
Lemma cc_hdrFields_cl_apply_initial_window (c : cconn hstate) size : cc_hdrFields (cl_apply_initial_window c size) = cc_hdrFields c. Proof. cc_unf. Qed.
Lemma cc_hdrEndStream_cl_apply_initial_window (c : cconn hstate) size : cc_hdrEndStream (cl_apply_initial_window c size) = cc_hdrEndStream c. Proof. cc_unf. Qed.
Lemma cc_hdrRegularSeen_cl_apply_initial_window (c : cconn hstate) size : cc_hdrRegularSeen (cl_apply_initial_window c size) = cc_hdrRegularSeen c. Proof. cc_unf. Qed.
Lemma cc_hdrStatus_cl_apply_initial_window (c : cconn hstate) size : cc_hdrStatus (cl_apply_initial_window c size) = cc_hdrStatus c. Proof. cc_unf. Qed.
Lemma cc_hdrErr_cl_apply_initial_window (c : cconn hstate) size : cc_hdrErr (cl_apply_initial_window c size) = cc_hdrErr c. Proof. cc_unf. Qed.
Lemma cc_stateClosed_cl_apply_initial_window (c : cconn hstate) size : cc_stateClosed (cl_apply_initial_window c size) = cc_stateClosed c. Proof. cc_unf. Qed.
Lemma cc_closeRef_cl_apply_initial_window (c : cconn hstate) size : cc_closeRef (cl_apply_initial_window c size) = cc_closeRef c. Proof. cc_unf. Qed.
Lemma cc_reqQueued_cl_apply_initial_window (c : cconn hstate) size : cc_reqQueued (cl_apply_initial_window c size) = cc_reqQueued c. Proof. cc_unf. Qed.
Lemma cc_connWindow_cl_apply_initial_window (c : cconn hstate) size : cc_connWindow (cl_apply_initial_window c size) = cc_connWindow c. Proof. cc_unf. Qed.
Lemma cc_inQ_cl_apply_initial_window (c : cconn hstate) size : cc_inQ (cl_apply_initial_window c size) = cc_inQ c. Proof. cc_unf. Qed.
Lemma cc_outQ_cl_apply_initial_window (c : cconn hstate) size : cc_outQ (cl_apply_initial_window c size) = cc_outQ c. Proof. cc_unf. Qed.
Lemma cc_lastErr_cl_apply_initial_window (c : cconn hstate) size : cc_lastErr (cl_apply_initial_window c size) = cc_lastErr c. Proof. cc_unf. Qed.
Lemma cc_unacks_cl_apply_initial_window (c : cconn hstate) size : cc_unacks (cl_apply_initial_window c size) = cc_unacks c. Proof. cc_unf. Qed.
Lemma cc_rl_done_cl_apply_initial_window (c : cconn hstate) size : cc_rl_done (cl_apply_initial_window c size) = cc_rl_done c. Proof. cc_unf. Qed.
Lemma cc_wl_done_cl_apply_initial_window (c : cconn hstate) size : cc_wl_done (cl_apply_initial_window c size) = cc_wl_done c. Proof. cc_unf. Qed.
Lemma cc_rl_stuck_cl_apply_initial_window (c : cconn hstate) size : cc_rl_stuck (cl_apply_initial_window c size) = cc_rl_stuck c. Proof. cc_unf. Qed.
Lemma cc_wl_stuck_cl_apply_initial_window (c : cconn hstate) size : cc_wl_stuck (cl_apply_initial_window c size) = cc_wl_stuck c. Proof. cc_unf. Qed.
Lemma cc_out_cl_apply_initial_window (c : cconn hstate) size : cc_out (cl_apply_initial_window c size) = cc_out c. Proof. cc_unf. Qed.
Lemma cc_ctxs_cl_add_window (c : cconn hstate) sid inc : cc_ctxs (cl_add_window c sid inc) = cc_ctxs c. Proof. cc_unf. Qed.
Lemma cc_nextID_cl_add_window (c : cconn hstate) sid inc : cc_nextID (cl_add_window c sid inc) = cc_nextID c. Proof. cc_unf. Qed.
Lemma cc_open_cl_add_window (c : cconn hstate) sid inc : cc_open (cl_add_window c sid inc) = cc_open c. Proof. cc_unf. Qed.
Lemma cc_maxStreams_cl_add_window (c : cconn hstate) sid inc : cc_maxStreams (cl_add_window c sid inc) = cc_maxStreams c. Proof. cc_unf. Qed.
Lemma cc_maxFrame_cl_add_window (c : cconn hstate) sid inc : cc_maxFrame (cl_add_window c sid inc) = cc_maxFrame c. Proof. cc_unf. Qed.
Lemma cc_goAway_cl_add_window (c : cconn hstate) sid inc : cc_goAway (cl_add_window c sid inc) = cc_goAway c. Proof. cc_unf. Qed.
Lemma cc_closed_cl_add_window (c : cconn hstate) sid inc : cc_closed (cl_add_window c sid inc) = cc_closed c. Proof. cc_unf. Qed.
Lemma cc_closing_cl_add_window (c : cconn hstate) sid inc : cc_closing (cl_add_window c sid inc) = cc_closing c. Proof. cc_unf. Qed.
Lemma cc_netClosed_cl_add_window (c : cconn hstate) sid inc : cc_netClosed (cl_add_window c sid inc) = cc_netClosed c. Proof. cc_unf. Qed.
Lemma cc_writeFail_cl_add_window (c : cconn hstate) sid inc : cc_writeFail (cl_add_window c sid inc) = cc_writeFail c. Proof. cc_unf. Qed.
Lemma cc_enc_cl_add_window (c : cconn hstate) sid inc : cc_enc (cl_add_window c sid inc) = cc_enc c. Proof. cc_unf. Qed.
Lemma cc_encTableSize_cl_add_window (c : cconn hstate) sid inc : cc_encTableSize (cl_add_window c sid inc) = cc_encTableSize c. Proof. cc_unf. Qed.
Lemma cc_encTableSeen_cl_add_window (c : cconn hstate) sid inc : cc_encTableSeen (cl_add_window c sid inc) = cc_encTableSeen c. Proof. cc_unf. Qed.
Lemma cc_dec_cl_add_window (c : cconn hstate) sid inc : cc_dec (cl_add_window c sid inc) = cc_dec c. Proof. cc_unf. Qed.
Lemma cc_currentWindow_cl_add_window (c : cconn hstate) sid inc : cc_currentWindow (cl_add_window c sid inc) = cc_currentWindow c. Proof. cc_unf. Qed.
Lemma cc_serverS_cl_add_window (c : cconn hstate) sid inc : cc_serverS (cl_add_window c sid inc) = cc_serverS c. Proof. cc_unf. Qed.
Lemma cc_hdrStream_cl_add_window (c : cconn hstate) sid inc : cc_hdrStream (cl_add_window c sid inc) = cc_hdrStream c. Proof. cc_unf. Qed.
Lemma cc_hdrPrev_cl_add_window (c : cconn hstate) sid inc : cc_hdrPrev (cl_add_window c sid inc) = cc_hdrPrev c. Proof. cc_unf. Qed.
Lemma cc_hdrFields_cl_add_window (c : cconn hstate) sid inc : cc_hdrFields (cl_add_window c sid inc) = cc_hdrFields c. Proof. cc_unf. Qed.
Lemma cc_hdrEndStream_cl_add_window (c : cconn hstate) sid inc : cc_hdrEndStream (cl_add_window c sid inc) = cc_hdrEndStream c. Proof. cc_unf. Qed.
Lemma cc_hdrRegularSeen_cl_add_window (c : cconn hstate) sid inc : cc_hdrRegularSeen (cl_add_window c sid inc) = cc_hdrRegularSeen c. Proof. cc_unf. Qed.
Lemma cc_hdrStatus_cl_add_window (c : cconn hstate) sid inc : cc_hdrStatus (cl_add_window c sid inc) = cc_hdrStatus c. Proof. cc_unf. Qed.
Lemma cc_hdrErr_cl_add_window (c : cconn hstate) sid inc : cc_hdrErr (cl_add_window c sid inc) = cc_hdrErr c. Proof. cc_unf. Qed.
Lemma cc_stateClosed_cl_add_window (c : cconn hstate) sid inc : cc_stateClosed (cl_add_window c sid inc) = cc_stateClosed c. Proof. cc_unf. Qed.
Lemma cc_closeRef_cl_add_window (c : cconn hstate) sid inc : cc_closeRef (cl_add_window c sid inc) = cc_closeRef c. Proof. cc_unf. Qed.
Lemma cc_reqQueued_cl_add_window (c : cconn hstate) sid inc : cc_reqQueued (cl_add_window c sid inc) = cc_reqQueued c. Proof. cc_unf. Qed.
Lemma cc_streamWindow_cl_add_window (c : cconn hstate) sid inc : cc_streamWindow (cl_add_window c sid inc) = cc_streamWindow c. Proof. cc_unf. Qed.
Lemma cc_inQ_cl_add_window (c : cconn hstate) sid inc : cc_inQ (cl_add_window c sid inc) = cc_inQ c. Proof. cc_unf. Qed.
Lemma cc_outQ_cl_add_window (c : cconn hstate) sid inc : cc_outQ (cl_add_window c sid inc) = cc_outQ c. Proof. cc_unf. Qed.
Lemma cc_lastErr_cl_add_window (c : cconn hstate) sid inc : cc_lastErr (cl_add_window c sid inc) = cc_lastErr c. Proof. cc_unf. Qed.
Lemma cc_unacks_cl_add_window (c : cconn hstate) sid inc : cc_unacks (cl_add_window c sid inc) = cc_unacks c. Proof. cc_unf. Qed.
Lemma cc_rl_done_cl_add_window (c : cconn hstate) sid inc : cc_rl_done (cl_add_window c sid inc) = cc_rl_done c. Proof. cc_unf. Qed.
Lemma cc_wl_done_cl_add_window (c : cconn hstate) sid inc : cc_wl_done (cl_add_window c sid inc) = cc_wl_done c. Proof. cc_unf. Qed.
Lemma cc_rl_stuck_cl_add_window (c : cconn hstate) sid inc : cc_rl_stuck (cl_add_window c sid inc) = cc_rl_stuck c. Proof. cc_unf. Qed.
Lemma cc_wl_stuck_cl_add_window (c : cconn hstate) sid inc : cc_wl_stuck (cl_add_window c sid inc) = cc_wl_stuck c. Proof. cc_unf. Qed.
Lemma cc_out_cl_add_window (c : cconn hstate) sid inc : cc_out (cl_add_window c sid inc) = cc_out c. Proof. cc_unf. Qed.
Lemma cc_ctxs_cl_update_window (c : cconn hstate) sid n : cc_ctxs (cl_update_window c sid n) = cc_ctxs c. Proof. cc_unf. Qed.
Lemma cc_nextID_cl_update_window (c : cconn hstate) sid n : cc_nextID (cl_update_window c sid n) = cc_nextID c. Proof. cc_unf. Qed.
Lemma cc_open_cl_update_window (c : cconn hstate) sid n : cc_open (cl_update_window c sid n) = cc_open c. Proof. cc_unf. Qed.
Lemma cc_maxStreams_cl_update_window (c : cconn hstate) sid n : cc_maxStreams (cl_update_window c sid n) = cc_maxStreams c. Proof. cc_unf. Qed.
Lemma cc_maxFrame_cl_update_window (c : cconn hstate) sid n : cc_maxFrame (cl_update_window c sid n) = cc_maxFrame c. Proof. cc_unf. Qed.
Lemma cc_goAway_cl_update_window (c : cconn hstate) sid n : cc_goAway (cl_update_window c sid n) = cc_goAway c. Proof. cc_unf. Qed.
Lemma cc_closed_cl_update_window (c : cconn hstate) sid n : cc_closed (cl_update_window c sid n) = cc_closed c. Proof. cc_unf. Qed.
Lemma cc_closing_cl_update_window (c : cconn hstate) sid n : cc_closing (cl_update_window c sid n) = cc_closing c. Proof. cc_unf. Qed.
Lemma cc_netClosed_cl_update_window (c : cconn hstate) sid n : cc_netClosed (cl_update_window c sid n) = cc_netClosed c. Proof. cc_unf. Qed.
Lemma cc_writeFail_cl_update_window (c : cconn hstate) sid n : cc_writeFail (cl_update_window c sid n) = cc_writeFail c. Proof. cc_unf. Qed.
Lemma cc_enc_cl_update_window (c : cconn hstate) sid n : cc_enc (cl_update_window c sid n) = cc_enc c. Proof. cc_unf. Qed.
Lemma cc_encTableSize_cl_update_window (c : cconn hstate) sid n : cc_encTableSize (cl_update_window c sid n) = cc_encTableSize c. Proof. cc_unf. Qed.
Lemma cc_encTableSeen_cl_update_window (c : cconn hstate) sid n : cc_encTableSeen (cl_update_window c sid n) = cc_encTableSeen c. Proof. cc_unf. Qed.
Lemma cc_dec_cl_update_window (c : cconn hstate) sid n : cc_dec (cl_update_window c sid n) = cc_dec c. Proof. cc_unf. Qed.
Lemma cc_currentWindow_cl_update_window (c : cconn hstate) sid n : cc_currentWindow (cl_update_window c sid n) = cc_currentWindow c. Proof. cc_unf. Qed.
Lemma cc_serverS_cl_update_window (c : cconn hstate) sid n : cc_serverS (cl_update_window c sid n) = cc_serverS c. Proof. cc_unf. Qed.
Lemma cc_hdrStream_cl_update_window (c : cconn hstate) sid n : cc_hdrStream (cl_update_window c sid n) = cc_hdrStream c. Proof. cc_unf. Qed.
Lemma cc_hdrPrev_cl_update_window (c : cconn hstate) sid n : cc_hdrPrev (cl_update_window c sid n) = cc_hdrPrev c. Proof. cc_unf. Qed.
Lemma cc_hdrFields_cl_update_window (c : cconn hstate) sid n : cc_hdrFields (cl_update_window c sid n) = cc_hdrFields c. Proof. cc_unf. Qed.
Lemma cc_hdrEndStream_cl_update_window (c : cconn hstate) sid n : cc_hdrEndStream (cl_update_window c sid n) = cc_hdrEndStream c. Proof. cc_unf. Qed.
Lemma cc_hdrRegularSeen_cl_update_window (c : cconn hstate) sid n : cc_hdrRegularSeen (cl_update_window c sid n) = cc_hdrRegularSeen c. Proof. cc_unf. Qed.
Lemma cc_hdrStatus_cl_update_window (c : cconn hstate) sid n : cc_hdrStatus (cl_update_window c sid n) = cc_hdrStatus c. Proof. cc_unf. Qed.
Lemma cc_hdrErr_cl_update_window (c : cconn hstate) sid n : cc_hdrErr (cl_update_window c sid n) = cc_hdrErr c. Proof. cc_unf. Qed.
Lemma cc_stateClosed_cl_update_window (c : cconn hstate) sid n : cc_stateClosed (cl_update_window c sid n) = cc_stateClosed c. Proof. cc_unf. Qed.
Lemma cc_closeRef_cl_update_window (c : cconn hstate) sid n : cc_closeRef (cl_update_window c sid n) = cc_closeRef c. Proof. cc_unf. Qed.
Lemma cc_reqQueued_cl_update_window (c : cconn hstate) sid n : cc_reqQueued (cl_update_window c sid n) = cc_reqQueued c. Proof. cc_unf. Qed.
Lemma cc_pending_cl_update_window (c : cconn hstate) sid n : cc_pending (cl_update_window c sid n) = cc_pending c. Proof. cc_unf. Qed.
Lemma cc_connWindow_cl_update_window (c : cconn hstate) sid n : cc_connWindow (cl_update_window c sid n) = cc_connWindow c. Proof. cc_unf. Qed.
Lemma cc_streamWindow_cl_update_window (c : cconn hstate) sid n : cc_streamWindow (cl_update_window c sid n) = cc_streamWindow c. Proof. cc_unf. Qed.
Lemma cc_inQ_cl_update_window (c : cconn hstate) sid n : cc_inQ (cl_update_window c sid n) = cc_inQ c. Proof. cc_unf. Qed.
Lemma cc_winCh_cl_update_window (c : cconn hstate) sid n : cc_winCh (cl_update_window c sid n) = cc_winCh c. Proof. cc_unf. Qed.
Lemma cc_lastErr_cl_update_window (c : cconn hstate) sid n : cc_lastErr (cl_update_window c sid n) = cc_lastErr c. Proof. cc_unf. Qed.
Lemma cc_unacks_cl_update_window (c : cconn hstate) sid n : cc_unacks (cl_update_window c sid n) = cc_unacks c. Proof. cc_unf. Qed.
Lemma cc_rl_done_cl_update_window (c : cconn hstate) sid n : cc_rl_done (cl_update_window c sid n) = cc_rl_done c. Proof. cc_unf. Qed.
Lemma cc_wl_done_cl_update_window (c : cconn hstate) sid n : cc_wl_done (cl_update_window c sid n) = cc_wl_done c. Proof. cc_unf. Qed.
Lemma cc_rl_stuck_cl_update_window (c : cconn hstate) sid n : cc_rl_stuck (cl_update_window c sid n) = cc_rl_stuck c. Proof. cc_unf. Qed.
Lemma cc_wl_stuck_cl_update_window (c : cconn hstate) sid n : cc_wl_stuck (cl_update_window c sid n) = cc_wl_stuck c. Proof. cc_unf. Qed.
Lemma cc_out_cl_update_window (c : cconn hstate) sid n : cc_out (cl_update_window c sid n) = cc_out c. Proof. cc_unf. Qed.
Lemma cc_ctxs_cl_handle_settings (c : cconn hstate) st : cc_ctxs (cl_handle_settings c st) = cc_ctxs c. Proof. cc_unf. Qed.
Lemma cc_nextID_cl_handle_settings (c : cconn hstate) st : cc_nextID (cl_handle_settings c st) = cc_nextID c. Proof. cc_unf. Qed.
Lemma cc_open_cl_handle_settings (c : cconn hstate) st : cc_open (cl_handle_settings c st) = cc_open c. Proof. cc_unf. Qed.
Lemma cc_goAway_cl_handle_settings (c : cconn hstate) st : cc_goAway (cl_handle_settings c st) = cc_goAway c. Proof. cc_unf. Qed.
Lemma cc_closed_cl_handle_settings (c : cconn hstate) st : cc_closed (cl_handle_settings c st) = cc_closed c. Proof. cc_unf. Qed.
Lemma cc_closing_cl_handle_settings (c : cconn hstate) st : cc_closing (cl_handle_settings c st) = cc_closing c. Proof. cc_unf. Qed.
Lemma cc_netClosed_cl_handle_settings (c : cconn hstate) st : cc_netClosed (cl_handle_settings c st) = cc_netClosed c. Proof. cc_unf. Qed.
Lemma cc_writeFail_cl_handle_settings (c : cconn hstate) st : cc_writeFail (cl_handle_settings c st) = cc_writeFail c. Proof. cc_unf. Qed.
Lemma cc_enc_cl_handle_settings (c : cconn hstate) st : cc_enc (cl_handle_settings c st) = cc_enc c. Proof. cc_unf. Qed.
Lemma cc_encTableSeen_cl_handle_settings (c : cconn hstate) st : cc_encTableSeen (cl_handle_settings c st) = cc_encTableSeen c. Proof. cc_unf. Qed.
Lemma cc_dec_cl_handle_settings (c : cconn hstate) st : cc_dec (cl_handle_settings c st) = cc_dec c. Proof. cc_unf. Qed.
Lemma cc_currentWindow_cl_handle_settings (c : cconn hstate) st : cc_currentWindow (cl_handle_settings c st) = cc_currentWindow c. Proof. cc_unf. Qed.
Lemma cc_hdrStream_cl_handle_settings (c : cconn hstate) st : cc_hdrStream (cl_handle_settings c st) = cc_hdrStream c. Proof. cc_unf. Qed.
Lemma cc_hdrPrev_cl_handle_settings (c : cconn hstate) st : cc_hdrPrev (cl_handle_settings c st) = cc_hdrPrev c. Proof. cc_unf. Qed.
Lemma cc_hdrFields_cl_handle_settings (c : cconn hstate) st : cc_hdrFields (cl_handle_settings c st) = cc_hdrFields c. Proof. cc_unf. Qed.
Lemma cc_hdrEndStream_cl_handle_settings (c : cconn hstate) st : cc_hdrEndStream (cl_handle_settings c st) = cc_hdrEndStream c. Proof. cc_unf. Qed.
Lemma cc_hdrRegularSeen_cl_handle_settings (c : cconn hstate) st : cc_hdrRegularSeen (cl_handle_settings c st) = cc_hdrRegularSeen c. Proof. cc_unf. Qed.
Lemma cc_hdrStatus_cl_handle_settings (c : cconn hstate) st : cc_hdrStatus (cl_handle_settings c st) = cc_hdrStatus c. Proof. cc_unf. Qed.
Lemma cc_hdrErr_cl_handle_settings (c : cconn hstate) st : cc_hdrErr (cl_handle_settings c st) = cc_hdrErr c. Proof. cc_unf. Qed.
Lemma cc_stateClosed_cl_handle_settings (c : cconn hstate) st : cc_stateClosed (cl_handle_settings c st) = cc_stateClosed c. Proof. cc_unf. Qed.
Lemma cc_closeRef_cl_handle_settings (c : cconn hstate) st : cc_closeRef (cl_handle_settings c st) = cc_closeRef c. Proof. cc_unf. Qed.
Lemma cc_reqQueued_cl_handle_settings (c : cconn hstate) st : cc_reqQueued (cl_handle_settings c st) = cc_reqQueued c. Proof. cc_unf. Qed.
Lemma cc_connWindow_cl_handle_settings (c : cconn hstate) st : cc_connWindow (cl_handle_settings c st) = cc_connWindow c. Proof. cc_unf. Qed.
Lemma cc_inQ_cl_handle_settings (c : cconn hstate) st : cc_inQ (cl_handle_settings c st) = cc_inQ c. Proof. cc_unf. Qed.
Lemma cc_lastErr_cl_handle_settings (c : cconn hstate) st : cc_lastErr (cl_handle_settings c st) = cc_lastErr c. Proof. cc_unf. Qed.
Lemma cc_unacks_cl_handle_settings (c : cconn hstate) st : cc_unacks (cl_handle_settings c st) = cc_unacks c. Proof. cc_unf. Qed.
Lemma cc_rl_done_cl_handle_settings (c : cconn hstate) st : cc_rl_done (cl_handle_settings c st) = cc_rl_done c. Proof. cc_unf. Qed.
Lemma cc_wl_done_cl_handle_settings (c : cconn hstate) st : cc_wl_done (cl_handle_settings c st) = cc_wl_done c. Proof. cc_unf. Qed.
Lemma cc_rl_stuck_cl_handle_settings (c : cconn hstate) st : cc_rl_stuck (cl_handle_settings c st) = cc_rl_stuck c. Proof. cc_unf. Qed.
Lemma cc_wl_stuck_cl_handle_settings (c : cconn hstate) st : cc_wl_stuck (cl_handle_settings c st) = cc_wl_stuck c. Proof. cc_unf. Qed.
Lemma cc_out_cl_handle_settings (c : cconn hstate) st : cc_out (cl_handle_settings c st) = cc_out c. Proof. cc_unf. Qed.
Lemma cc_nextID_cl_finish (c : cconn hstate) tag id e : cc_nextID (cl_finish c tag id e) = cc_nextID c. Proof. cc_unf. Qed.
Lemma cc_maxStreams_cl_finish (c : cconn hstate) tag id e : cc_maxStreams (cl_finish c tag id e) = cc_maxStreams c. Proof. cc_unf. Qed.
Lemma cc_maxFrame_cl_finish (c : cconn hstate) tag id e : cc_maxFrame (cl_finish c tag id e) = cc_maxFrame c. Proof. cc_unf. Qed.
Lemma cc_goAway_cl_finish (c : cconn hstate) tag id e : cc_goAway (cl_finish c tag id e) = cc_goAway c. Proof. cc_unf. Qed.
Lemma cc_closed_cl_finish (c : cconn hstate) tag id e : cc_closed (cl_finish c tag id e) = cc_closed c. Proof. cc_unf. Qed.
Lemma cc_closing_cl_finish (c : cconn hstate) tag id e : cc_closing (cl_finish c tag id e) = cc_closing c. Proof. cc_unf. Qed.
Lemma cc_netClosed_cl_finish (c : cconn hstate) tag id e : cc_netClosed (cl_finish c tag id e) = cc_netClosed c. Proof. cc_unf. Qed.
Lemma cc_writeFail_cl_finish (c : cconn hstate) tag id e : cc_writeFail (cl_finish c tag id e) = cc_writeFail c. Proof. cc_unf. Qed.
Lemma cc_enc_cl_finish (c : cconn hstate) tag id e : cc_enc (cl_finish c tag id e) = cc_enc c. Proof. cc_unf. Qed.
Lemma cc_encTableSize_cl_finish (c : cconn hstate) tag id e : cc_encTableSize (cl_finish c tag id e) = cc_encTableSize c. Proof. cc_unf. Qed.
Lemma cc_encTableSeen_cl_finish (c : cconn hstate) tag id e : cc_encTableSeen (cl_finish c tag id e) = cc_encTableSeen c. Proof. cc_unf. Qed.
Lemma cc_dec_cl_finish (c : cconn hstate) tag id e : cc_dec (cl_finish c tag id e) = cc_dec c. Proof. cc_unf. Qed.
Lemma cc_currentWindow_cl_finish (c : cconn hstate) tag id e : cc_currentWindow (cl_finish c tag id e) = cc_currentWindow c. Proof. cc_unf. Qed.
Lemma cc_serverS_cl_finish (c : cconn hstate) tag id e : cc_serverS (cl_finish c tag id e) = cc_serverS c. Proof. cc_unf. Qed.
Lemma cc_hdrStream_cl_finish (c : cconn hstate) tag id e : cc_hdrStream (cl_finish c tag id e) = cc_hdrStream c. Proof. cc_unf. Qed.
Lemma cc_hdrPrev_cl_finish (c : cconn hstate) tag id e : cc_hdrPrev (cl_finish c tag id e) = cc_hdrPrev c. Proof. cc_unf. Qed.
Lemma cc_hdrFields_cl_finish (c : cconn hstate) tag id e : cc_hdrFields (cl_finish c tag id e) = cc_hdrFields c. Proof. cc_unf. Qed.
Lemma cc_hdrEndStream_cl_finish (c : cconn hstate) tag id e : cc_hdrEndStream (cl_finish c tag id e) = cc_hdrEndStream c. Proof. cc_unf. Qed.
Lemma cc_hdrRegularSeen_cl_finish (c : cconn hstate) tag id e : cc_hdrRegularSeen (cl_finish c tag id e) = cc_hdrRegularSeen c. Proof. cc_unf. Qed.
Lemma cc_hdrStatus_cl_finish (c : cconn hstate) tag id e : cc_hdrStatus (cl_finish c tag id e) = cc_hdrStatus c. Proof. cc_unf. Qed.
Lemma cc_hdrErr_cl_finish (c : cconn hstate) tag id e : cc_hdrErr (cl_finish c tag id e) = cc_hdrErr c. Proof. cc_unf. Qed.
Lemma cc_stateClosed_cl_finish (c : cconn hstate) tag id e : cc_stateClosed (cl_finish c tag id e) = cc_stateClosed c. Proof. cc_unf. Qed.
Lemma cc_closeRef_cl_finish (c : cconn hstate) tag id e : cc_closeRef (cl_finish c tag id e) = cc_closeRef c. Proof. cc_unf. Qed.
Lemma cc_connWindow_cl_finish (c : cconn hstate) tag id e : cc_connWindow (cl_finish c tag id e) = cc_connWindow c. Proof. cc_unf. Qed.
Lemma cc_streamWindow_cl_finish (c : cconn hstate) tag id e : cc_streamWindow (cl_finish c tag id e) = cc_streamWindow c. Proof. cc_unf. Qed.
Lemma cc_inQ_cl_finish (c : cconn hstate) tag id e : cc_inQ (cl_finish c tag id e) = cc_inQ c. Proof. cc_unf. Qed.
Lemma cc_outQ_cl_finish (c : cconn hstate) tag id e : cc_outQ (cl_finish c tag id e) = cc_outQ c. Proof. cc_unf. Qed.
Lemma cc_winCh_cl_finish (c : cconn hstate) tag id e : cc_winCh (cl_finish c tag id e) = cc_winCh c. Proof. cc_unf. Qed.
Lemma cc_lastErr_cl_finish (c : cconn hstate) tag id e : cc_lastErr (cl_finish c tag id e) = cc_lastErr c. Proof. cc_unf. Qed.
Lemma cc_unacks_cl_finish (c : cconn hstate) tag id e : cc_unacks (cl_finish c tag id e) = cc_unacks c. Proof. cc_unf. Qed.
Lemma cc_rl_done_cl_finish (c : cconn hstate) tag id e : cc_rl_done (cl_finish c tag id e) = cc_rl_done c. Proof. cc_unf. Qed.
Lemma cc_wl_done_cl_finish (c : cconn hstate) tag id e : cc_wl_done (cl_finish c tag id e) = cc_wl_done c. Proof. cc_unf. Qed.
Lemma cc_rl_stuck_cl_finish (c : cconn hstate) tag id e : cc_rl_stuck (cl_finish c tag id e) = cc_rl_stuck c. Proof. cc_unf. Qed.
Lemma cc_wl_stuck_cl_finish (c : cconn hstate) tag id e : cc_wl_stuck (cl_finish c tag id e) = cc_wl_stuck c. Proof. cc_unf. Qed.
(* END GENERATED fun *)
End Proj.
(* BEGIN GENERATED hints (tools/gen_clibase.sh) *)
#[export] Hint Rewrite @cc_ctxs_ccu_ctxs @cc_nextID_ccu_ctxs @cc_open_ccu_ctxs @cc_maxStreams_ccu_ctxs @cc_maxFrame_ccu_ctxs @cc_goAway_ccu_ctxs @cc_closed_ccu_ctxs @cc_closing_ccu_ctxs : cc.
#[export] Hint Rewrite @cc_netClosed_ccu_ctxs @cc_writeFail_ccu_ctxs @cc_enc_ccu_ctxs @cc_encTableSize_ccu_ctxs @cc_encTableSeen_ccu_ctxs @cc_dec_ccu_ctxs @cc_currentWindow_ccu_ctxs @cc_serverS_ccu_ctxs : cc.
#[export] Hint Rewrite @cc_hdrStream_ccu_ctxs @cc_hdrPrev_ccu_ctxs @cc_hdrFields_ccu_ctxs @cc_hdrEndStream_ccu_ctxs @cc_hdrRegularSeen_ccu_ctxs @cc_hdrStatus_ccu_ctxs @cc_hdrErr_ccu_ctxs @cc_stateClosed_ccu_ctxs : cc.
#[export] Hint Rewrite @cc_closeRef_ccu_ctxs @cc_reqQueued_ccu_ctxs @cc_pending_ccu_ctxs @cc_connWindow_ccu_ctxs @cc_streamWindow_ccu_ctxs @cc_inQ_ccu_ctxs @cc_outQ_ccu_ctxs @cc_winCh_ccu_ctxs : cc.
#[export] Hint Rewrite @cc_lastErr_ccu_ctxs @cc_unacks_ccu_ctxs @cc_rl_done_ccu_ctxs @cc_wl_done_ccu_ctxs @cc_rl_stuck_ccu_ctxs @cc_wl_stuck_ccu_ctxs @cc_out_ccu_ctxs @cc_ctxs_ccu_nextID : cc.
#[export] Hint Rewrite @cc_nextID_ccu_nextID @cc_open_ccu_nextID @cc_maxStreams_ccu_nextID @cc_maxFrame_ccu_nextID @cc_goAway_ccu_nextID @cc_closed_ccu_nextID @cc_closing_ccu_nextID @cc_netClosed_ccu_nextID : cc.
#[export] Hint Rewrite @cc_writeFail_ccu_nextID @cc_enc_ccu_nextID @cc_encTableSize_ccu_nextID @cc_encTableSeen_ccu_nextID @cc_dec_ccu_nextID @cc_currentWindow_ccu_nextID @cc_serverS_ccu_nextID @cc_hdrStream_ccu_nextID : cc.
#[export] Hint Rewrite @cc_hdrPrev_ccu_nextID @cc_hdrFields_ccu_nextID @cc_hdrEndStream_ccu_nextID @cc_hdrRegularSeen_ccu_nextID @cc_hdrStatus_ccu_nextID @cc_hdrErr_ccu_nextID @cc_stateClosed_ccu_nextID @cc_closeRef_ccu_nextID : cc.
#[export] Hint Rewrite @cc_reqQueued_ccu_nextID @cc_pending_ccu_nextID @cc_connWindow_ccu_nextID @cc_streamWindow_ccu_nextID @cc_inQ_ccu_nextID @cc_outQ_ccu_nextID @cc_winCh_ccu_nextID @cc_lastErr_ccu_nextID : cc.
#[export] Hint Rewrite @cc_unacks_ccu_nextID @cc_rl_done_ccu_nextID @cc_wl_done_ccu_nextID @cc_rl_stuck_ccu_nextID @cc_wl_stuck_ccu_nextID @cc_out_ccu_nextID @cc_ctxs_ccu_open @cc_nextID_ccu_open : cc.
#[export] Hint Rewrite @cc_open_ccu_open @cc_maxStreams_ccu_open @cc_maxFrame_ccu_open @cc_goAway_ccu_open @cc_closed_ccu_open @cc_closing_ccu_open @cc_netClosed_ccu_open @cc_writeFail_ccu_open : cc.
#[export] Hint Rewrite @cc_enc_ccu_open @cc_encTableSize_ccu_open @cc_encTableSeen_ccu_open @cc_dec_ccu_open @cc_currentWindow_ccu_open @cc_serverS_ccu_open @cc_hdrStream_ccu_open @cc_hdrPrev_ccu_open : cc.
#[export] Hint Rewrite @cc_hdrFields_ccu_open @cc_hdrEndStream_ccu_open @cc_hdrRegularSeen_ccu_open @cc_hdrStatus_ccu_open @cc_hdrErr_ccu_open @cc_stateClosed_ccu_open @cc_closeRef_ccu_open @cc_reqQueued_ccu_open : cc.
#[export] Hint Rewrite @cc_pending_ccu_open @cc_connWindow_ccu_open @cc_streamWindow_ccu_open @cc_inQ_ccu_open @cc_outQ_ccu_open @cc_winCh_ccu_open @cc_lastErr_ccu_open @cc_unacks_ccu_open : cc.
#[export] Hint Rewrite @cc_rl_done_ccu_open @cc_wl_done_ccu_open @cc_rl_stuck_ccu_open @cc_wl_stuck_ccu_open @cc_out_ccu_open @cc_ctxs_ccu_maxStreams @cc_nextID_ccu_maxStreams @cc_open_ccu_maxStreams : cc.
#[export] Hint Rewrite @cc_maxStreams_ccu_maxStreams @cc_maxFrame_ccu_maxStreams @cc_goAway_ccu_maxStreams @cc_closed_ccu_maxStreams @cc_closing_ccu_maxStreams @cc_netClosed_ccu_maxStreams @cc_writeFail_ccu_maxStreams @cc_enc_ccu_maxStreams : cc.
#[export] Hint Rewrite @cc_encTableSize_ccu_maxStreams @cc_encTableSeen_ccu_maxStreams @cc_dec_ccu_maxStreams @cc_currentWindow_ccu_maxStreams @cc_serverS_ccu_maxStreams @cc_hdrStream_ccu_maxStreams @cc_hdrPrev_ccu_maxStreams @cc_hdrFields_ccu_maxStreams : cc.
#[export] Hint Rewrite @cc_hdrEndStream_ccu_maxStreams @cc_hdrRegularSeen_ccu_maxStreams @cc_hdrStatus_ccu_maxStreams @cc_hdrErr_ccu_maxStreams @cc_stateClosed_ccu_maxStreams @cc_closeRef_ccu_maxStreams @cc_reqQueued_ccu_maxStreams @cc_pending_ccu_maxStreams : cc.
#[export] Hint Rewrite @cc_connWindow_ccu_maxStreams @cc_streamWindow_ccu_maxStreams @cc_inQ_ccu_maxStreams @cc_outQ_ccu_maxStreams @cc_winCh_ccu_maxStreams @cc_lastErr_ccu_maxStreams @cc_unacks_ccu_maxStreams @cc_rl_done_ccu_maxStreams : cc.
#[export] Hint Rewrite @cc_wl_done_ccu_maxStreams @cc_rl_stuck_ccu_maxStreams @cc_wl_stuck_ccu_maxStreams @cc_out_ccu_maxStreams @cc_ctxs_ccu_maxFrame @cc_nextID_ccu_maxFrame @cc_open_ccu_maxFrame @cc_maxStreams_ccu_maxFrame : cc.
#[export] Hint Rewrite @cc_maxFrame_ccu_maxFrame @cc_goAway_ccu_maxFrame @cc_closed_ccu_maxFrame @cc_closing_ccu_maxFrame @cc_netClosed_ccu_maxFrame @cc_writeFail_ccu_maxFrame @cc_enc_ccu_maxFrame @cc_encTableSize_ccu_maxFrame : cc.
#[export] Hint Rewrite @cc_encTableSeen_ccu_maxFrame @cc_dec_ccu_maxFrame @cc_currentWindow_ccu_maxFrame @cc_serverS_ccu_maxFrame @cc_hdrStream_ccu_maxFrame @cc_hdrPrev_ccu_maxFrame @cc_hdrFields_ccu_maxFrame @cc_hdrEndStream_ccu_maxFrame : cc.
#[export] Hint Rewrite @cc_hdrRegularSeen_ccu_maxFrame @cc_hdrStatus_ccu_maxFrame @cc_hdrErr_ccu_maxFrame @cc_stateClosed_ccu_maxFrame @cc_closeRef_ccu_maxFrame @cc_reqQueued_ccu_maxFrame @cc_pending_ccu_maxFrame @cc_connWindow_ccu_maxFrame : cc.
#[export] Hint Rewrite @cc_streamWindow_ccu_maxFrame @cc_inQ_ccu_maxFrame @cc_outQ_ccu_maxFrame @cc_winCh_ccu_maxFrame @cc_lastErr_ccu_maxFrame @cc_unacks_ccu_maxFrame @cc_rl_done_ccu_maxFrame @cc_wl_done_ccu_maxFrame : cc.
#[export] Hint Rewrite @cc_rl_stuck_ccu_maxFrame @cc_wl_stuck_ccu_maxFrame @cc_out_ccu_maxFrame @cc_ctxs_ccu_goAway @cc_nextID_ccu_goAway @cc_open_ccu_goAway @cc_maxStreams_ccu_goAway @cc_maxFrame_ccu_goAway : cc.
#[export] Hint Rewrite @cc_goAway_ccu_goAway @cc_closed_ccu_goAway @cc_closing_ccu_goAway @cc_netClosed_ccu_goAway @cc_writeFail_ccu_goAway @cc_enc_ccu_goAway @cc_encTableSize_ccu_goAway @cc_encTableSeen_ccu_goAway : cc.
#[export] Hint Rewrite @cc_dec_ccu_goAway @cc_currentWindow_ccu_goAway @cc_serverS_ccu_goAway @cc_hdrStream_ccu_goAway @cc_hdrPrev_ccu_goAway @cc_hdrFields_ccu_goAway @cc_hdrEndStream_ccu_goAway @cc_hdrRegularSeen_ccu_goAway : cc.
#[export] Hint Rewrite @cc_hdrStatus_ccu_goAway @cc_hdrErr_ccu_goAway @cc_stateClosed_ccu_goAway @cc_closeRef_ccu_goAway @cc_reqQueued_ccu_goAway @cc_pending_ccu_goAway @cc_connWindow_ccu_goAway @cc_streamWindow_ccu_goAway : cc.
#[export] Hint Rewrite @cc_inQ_ccu_goAway @cc_outQ_ccu_goAway @cc_winCh_ccu_goAway @cc_lastErr_ccu_goAway @cc_unacks_ccu_goAway @cc_rl_done_ccu_goAway @cc_wl_done_ccu_goAway @cc_rl_stuck_ccu_goAway : cc.
#[export] Hint Rewrite @cc_wl_stuck_ccu_goAway @cc_out_ccu_goAway @cc_ctxs_ccu_closed @cc_nextID_ccu_closed @cc_open_ccu_closed @cc_maxStreams_ccu_closed @cc_maxFrame_ccu_closed @cc_goAway_ccu_closed : cc.
#[export] Hint Rewrite @cc_closed_ccu_closed @cc_closing_ccu_closed @cc_netClosed_ccu_closed @cc_writeFail_ccu_closed @cc_enc_ccu_closed @cc_encTableSize_ccu_closed @cc_encTableSeen_ccu_closed @cc_dec_ccu_closed : cc.
#[export] Hint Rewrite @cc_currentWindow_ccu_closed @cc_serverS_ccu_closed @cc_hdrStream_ccu_closed @cc_hdrPrev_ccu_closed @cc_hdrFields_ccu_closed @cc_hdrEndStream_ccu_closed @cc_hdrRegularSeen_ccu_closed @cc_hdrStatus_ccu_closed : cc.
#[export] Hint Rewrite @cc_hdrErr_ccu_closed @cc_stateClosed_ccu_closed @cc_closeRef_ccu_closed @cc_reqQueued_ccu_closed @cc_pending_ccu_closed @cc_connWindow_ccu_closed @cc_streamWindow_ccu_closed @cc_inQ_ccu_closed : cc.
#[export] Hint Rewrite @cc_outQ_ccu_closed @cc_winCh_ccu_closed @cc_lastErr_ccu_closed @cc_unacks_ccu_closed @cc_rl_done_ccu_closed @cc_wl_done_ccu_closed @cc_rl_stuck_ccu_closed @cc_wl_stuck_ccu_closed : cc.
#[export] Hint Rewrite @cc_out_ccu_closed @cc_ctxs_ccu_closing @cc_nextID_ccu_closing @cc_open_ccu_closing @cc_maxStreams_ccu_closing @cc_maxFrame_ccu_closing @cc_goAway_ccu_closing @cc_closed_ccu_closing : cc.
#[export] Hint Rewrite @cc_closing_ccu_closing @cc_netClosed_ccu_closing @cc_writeFail_ccu_closing @cc_enc_ccu_closing @cc_encTableSize_ccu_closing @cc_encTableSeen_ccu_closing @cc_dec_ccu_closing @cc_currentWindow_ccu_closing : cc.
#[export] Hint Rewrite @cc_serverS_ccu_closing @cc_hdrStream_ccu_closing @cc_hdrPrev_ccu_closing @cc_hdrFields_ccu_closing @cc_hdrEndStream_ccu_closing @cc_hdrRegularSeen_ccu_closing @cc_hdrStatus_ccu_closing @cc_hdrErr_ccu_closing : cc.
#[export] Hint Rewrite @cc_stateClosed_ccu_closing @cc_closeRef_ccu_closing @cc_reqQueued_ccu_closing @cc_pending_ccu_closing @cc_connWindow_ccu_closing @cc_streamWindow_ccu_closing @cc_inQ_ccu_closing @cc_outQ_ccu_closing : cc.
#[export] Hint Rewrite @cc_winCh_ccu_closing @cc_lastErr_ccu_closing @cc_unacks_ccu_closing @cc_rl_done_ccu_closing @cc_wl_done_ccu_closing @cc_rl_stuck_ccu_closing @cc_wl_stuck_ccu_closing @cc_out_ccu_closing : cc.
#[export] Hint Rewrite @cc_ctxs_ccu_netClosed @cc_nextID_ccu_netClosed @cc_open_ccu_netClosed @cc_maxStreams_ccu_netClosed @cc_maxFrame_ccu_netClosed @cc_goAway_ccu_netClosed @cc_closed_ccu_netClosed @cc_closing_ccu_netClosed : cc.
#[export] Hint Rewrite @cc_netClosed_ccu_netClosed @cc_writeFail_ccu_netClosed @cc_enc_ccu_netClosed @cc_encTableSize_ccu_netClosed @cc_encTableSeen_ccu_netClosed @cc_dec_ccu_netClosed @cc_currentWindow_ccu_netClosed @cc_serverS_ccu_netClosed : cc.
#[export] Hint Rewrite @cc_hdrStream_ccu_netClosed @cc_hdrPrev_ccu_netClosed @cc_hdrFields_ccu_netClosed @cc_hdrEndStream_ccu_netClosed @cc_hdrRegularSeen_ccu_netClosed @cc_hdrStatus_ccu_netClosed @cc_hdrErr_ccu_netClosed @cc_stateClosed_ccu_netClosed : cc.
#[export] Hint Rewrite @cc_closeRef_ccu_netClosed @cc_reqQueued_ccu_netClosed @cc_pending_ccu_netClosed @cc_connWindow_ccu_netClosed @cc_streamWindow_ccu_netClosed @cc_inQ_ccu_netClosed @cc_outQ_ccu_netClosed @cc_winCh_ccu_netClosed : cc.
#[export] Hint Rewrite @cc_lastErr_ccu_netClosed @cc_unacks_ccu_netClosed @cc_rl_done_ccu_netClosed @cc_wl_done_ccu_netClosed @cc_rl_stuck_ccu_netClosed @cc_wl_stuck_ccu_netClosed @cc_out_ccu_netClosed @cc_ctxs_ccu_writeFail : cc.
#[export] Hint Rewrite @cc_nextID_ccu_writeFail @cc_open_ccu_writeFail @cc_maxStreams_ccu_writeFail @cc_maxFrame_ccu_writeFail @cc_goAway_ccu_writeFail @cc_closed_ccu_writeFail @cc_closing_ccu_writeFail @cc_netClosed_ccu_writeFail : cc.
#[export] Hint Rewrite @cc_writeFail_ccu_writeFail @cc_enc_ccu_writeFail @cc_encTableSize_ccu_writeFail @cc_encTableSeen_ccu_writeFail @cc_dec_ccu_writeFail @cc_currentWindow_ccu_writeFail @cc_serverS_ccu_writeFail @cc_hdrStream_ccu_writeFail : cc.
#[export] Hint Rewrite @cc_hdrPrev_ccu_writeFail @cc_hdrFields_ccu_writeFail @cc_hdrEndStream_ccu_writeFail @cc_hdrRegularSeen_ccu_writeFail @cc_hdrStatus_ccu_writeFail @cc_hdrErr_ccu_writeFail @cc_stateClosed_ccu_writeFail @cc_closeRef_ccu_writeFail : cc.
#[export] Hint Rewrite @cc_reqQueued_ccu_writeFail @cc_pending_ccu_writeFail @cc_connWindow_ccu_writeFail @cc_streamWindow_ccu_writeFail @cc_inQ_ccu_writeFail @cc_outQ_ccu_writeFail @cc_winCh_ccu_writeFail @cc_lastErr_ccu_writeFail : cc.
#[export] Hint Rewrite @cc_unacks_ccu_writeFail @cc_rl_done_ccu_writeFail @cc_wl_done_ccu_writeFail @cc_rl_stuck_ccu_writeFail @cc_wl_stuck_ccu_writeFail @cc_out_ccu_writeFail @cc_ctxs_ccu_enc @cc_nextID_ccu_enc : cc.
#[export] Hint Rewrite @cc_open_ccu_enc @cc_maxStreams_ccu_enc @cc_maxFrame_ccu_enc @cc_goAway_ccu_enc @cc_closed_ccu_enc @cc_closing_ccu_enc @cc_netClosed_ccu_enc @cc_writeFail_ccu_enc : cc.
#[export] Hint Rewrite @cc_enc_ccu_enc @cc_encTableSize_ccu_enc @cc_encTableSeen_ccu_enc @cc_dec_ccu_enc @cc_currentWindow_ccu_enc @cc_serverS_ccu_enc @cc_hdrStream_ccu_enc @cc_hdrPrev_ccu_enc : cc.
#[export] Hint Rewrite @cc_hdrFields_ccu_enc @cc_hdrEndStream_ccu_enc @cc_hdrRegularSeen_ccu_enc @cc_hdrStatus_ccu_enc @cc_hdrErr_ccu_enc @cc_stateClosed_ccu_enc @cc_closeRef_ccu_enc @cc_reqQueued_ccu_enc : cc.
#[export] Hint Rewrite @cc_pending_ccu_enc @cc_connWindow_ccu_enc @cc_streamWindow_ccu_enc @cc_inQ_ccu_enc @cc_outQ_ccu_enc @cc_winCh_ccu_enc @cc_lastErr_ccu_enc @cc_unacks_ccu_enc : cc.
#[export] Hint Rewrite @cc_rl_done_ccu_enc @cc_wl_done_ccu_enc @cc_rl_stuck_ccu_enc @cc_wl_stuck_ccu_enc @cc_out_ccu_enc @cc_ctxs_ccu_encTableSize @cc_nextID_ccu_encTableSize @cc_open_ccu_encTableSize : cc.
#[export] Hint Rewrite @cc_maxStreams_ccu_encTableSize @cc_maxFrame_ccu_encTableSize @cc_goAway_ccu_encTableSize @cc_closed_ccu_encTableSize @cc_closing_ccu_encTableSize @cc_netClosed_ccu_encTableSize @cc_writeFail_ccu_encTableSize @cc_enc_ccu_encTableSize : cc.
#[export] Hint Rewrite @cc_encTableSize_ccu_encTableSize @cc_encTableSeen_ccu_encTableSize @cc_dec_ccu_encTableSize @cc_currentWindow_ccu_encTableSize @cc_serverS_ccu_encTableSize @cc_hdrStream_ccu_encTableSize @cc_hdrPrev_ccu_encTableSize @cc_hdrFields_ccu_encTableSize : cc.
#[export] Hint Rewrite @cc_hdrEndStream_ccu_encTableSize @cc_hdrRegularSeen_ccu_encTableSize @cc_hdrStatus_ccu_encTableSize @cc_hdrErr_ccu_encTableSize @cc_stateClosed_ccu_encTableSize @cc_closeRef_ccu_encTableSize @cc_reqQueued_ccu_encTableSize @cc_pending_ccu_encTableSize : cc.
#[export] Hint Rewrite @cc_connWindow_ccu_encTableSize @cc_streamWindow_ccu_encTableSize @cc_inQ_ccu_encTableSize @cc_outQ_ccu_encTableSize @cc_winCh_ccu_encTableSize @cc_lastErr_ccu_encTableSize @cc_unacks_ccu_encTableSize @cc_rl_done_ccu_encTableSize : cc.
#[export] Hint Rewrite @cc_wl_done_ccu_encTableSize @cc_rl_stuck_ccu_encTableSize @cc_wl_stuck_ccu_encTableSize @cc_out_ccu_encTableSize @cc_ctxs_ccu_encTableSeen @cc_nextID_ccu_encTableSeen @cc_open_ccu_encTableSeen @cc_maxStreams_ccu_encTableSeen : cc.
#[export] Hint Rewrite @cc_maxFrame_ccu_encTableSeen @cc_goAway_ccu_encTableSeen @cc_closed_ccu_encTableSeen @cc_closing_ccu_encTableSeen @cc_netClosed_ccu_encTableSeen @cc_writeFail_ccu_encTableSeen @cc_enc_ccu_encTableSeen @cc_encTableSize_ccu_encTableSeen : cc.
#[export] Hint Rewrite @cc_encTableSeen_ccu_encTableSeen @cc_dec_ccu_encTableSeen @cc_currentWindow_ccu_encTableSeen @cc_serverS_ccu_encTableSeen @cc_hdrStream_ccu_encTableSeen @cc_hdrPrev_ccu_encTableSeen @cc_hdrFields_ccu_encTableSeen @cc_hdrEndStream_ccu_encTableSeen : cc.
#[export] Hint Rewrite @cc_hdrRegularSeen_ccu_encTableSeen @cc_hdrStatus_ccu_encTableSeen @cc_hdrErr_ccu_encTableSeen @cc_stateClosed_ccu_encTableSeen @cc_closeRef_ccu_encTableSeen @cc_reqQueued_ccu_encTableSeen @cc_pending_ccu_encTableSeen @cc_connWindow_ccu_encTableSeen : cc.
#[export] Hint Rewrite @cc_streamWindow_ccu_encTableSeen @cc_inQ_ccu_encTableSeen @cc_outQ_ccu_encTableSeen @cc_winCh_ccu_encTableSeen @cc_lastErr_ccu_encTableSeen @cc_unacks_ccu_encTableSeen @cc_rl_done_ccu_encTableSeen @cc_wl_done_ccu_encTableSeen : cc.
#[export] Hint Rewrite @cc_rl_stuck_ccu_encTableSeen @cc_wl_stuck_ccu_encTableSeen @cc_out_ccu_encTableSeen @cc_ctxs_ccu_dec @cc_nextID_ccu_dec @cc_open_ccu_dec @cc_maxStreams_ccu_dec @cc_maxFrame_ccu_dec : cc.
#[export] Hint Rewrite @cc_goAway_ccu_dec @cc_closed_ccu_dec @cc_closing_ccu_dec @cc_netClosed_ccu_dec @cc_writeFail_ccu_dec @cc_enc_ccu_dec @cc_encTableSize_ccu_dec @cc_encTableSeen_ccu_dec : cc.
#[export] Hint Rewrite @cc_dec_ccu_dec @cc_currentWindow_ccu_dec @cc_serverS_ccu_dec @cc_hdrStream_ccu_dec @cc_hdrPrev_ccu_dec @cc_hdrFields_ccu_dec @cc_hdrEndStream_ccu_dec @cc_hdrRegularSeen_ccu_dec : cc.
#[export] Hint Rewrite @cc_hdrStatus_ccu_dec @cc_hdrErr_ccu_dec @cc_stateClosed_ccu_dec @cc_closeRef_ccu_dec @cc_reqQueued_ccu_dec @cc_pending_ccu_dec @cc_connWindow_ccu_dec @cc_streamWindow_ccu_dec : cc.
#[export] Hint Rewrite @cc_inQ_ccu_dec @cc_outQ_ccu_dec @cc_winCh_ccu_dec @cc_lastErr_ccu_dec @cc_unacks_ccu_dec @cc_rl_done_ccu_dec @cc_wl_done_ccu_dec @cc_rl_stuck_ccu_dec : cc.
#[export] Hint Rewrite @cc_wl_stuck_ccu_dec @cc_out_ccu_dec @cc_ctxs_ccu_currentWindow @cc_nextID_ccu_currentWindow @cc_open_ccu_currentWindow @cc_maxStreams_ccu_currentWindow @cc_maxFrame_ccu_currentWindow @cc_goAway_ccu_currentWindow : cc.
#[export] Hint Rewrite @cc_closed_ccu_currentWindow @cc_closing_ccu_currentWindow @cc_netClosed_ccu_currentWindow @cc_writeFail_ccu_currentWindow @cc_enc_ccu_currentWindow @cc_encTableSize_ccu_currentWindow @cc_encTableSeen_ccu_currentWindow @cc_dec_ccu_currentWindow : cc.
#[export] Hint Rewrite @cc_currentWindow_ccu_currentWindow @cc_serverS_ccu_currentWindow @cc_hdrStream_ccu_currentWindow @cc_hdrPrev_ccu_currentWindow @cc_hdrFields_ccu_currentWindow @cc_hdrEndStream_ccu_currentWindow @cc_hdrRegularSeen_ccu_currentWindow @cc_hdrStatus_ccu_currentWindow : cc.
#[export] Hint Rewrite @cc_hdrErr_ccu_currentWindow @cc_stateClosed_ccu_currentWindow @cc_closeRef_ccu_currentWindow @cc_reqQueued_ccu_currentWindow @cc_pending_ccu_currentWindow @cc_connWindow_ccu_currentWindow @cc_streamWindow_ccu_currentWindow @cc_inQ_ccu_currentWindow : cc.
#[export] Hint Rewrite @cc_outQ_ccu_currentWindow @cc_winCh_ccu_currentWindow @cc_lastErr_ccu_currentWindow @cc_unacks_ccu_currentWindow @cc_rl_done_ccu_currentWindow @cc_wl_done_ccu_currentWindow @cc_rl_stuck_ccu_currentWindow @cc_wl_stuck_ccu_currentWindow : cc.
#[export] Hint Rewrite @cc_out_ccu_currentWindow @cc_ctxs_ccu_serverS @cc_nextID_ccu_serverS @cc_open_ccu_serverS @cc_maxStreams_ccu_serverS @cc_maxFrame_ccu_serverS @cc_goAway_ccu_serverS @cc_closed_ccu_serverS : cc.
#[export] Hint Rewrite @cc_closing_ccu_serverS @cc_netClosed_ccu_serverS @cc_writeFail_ccu_serverS @cc_enc_ccu_serverS @cc_encTableSize_ccu_serverS @cc_encTableSeen_ccu_serverS @cc_dec_ccu_serverS @cc_currentWindow_ccu_serverS : cc.
#[export] Hint Rewrite @cc_serverS_ccu_serverS @cc_hdrStream_ccu_serverS @cc_hdrPrev_ccu_serverS @cc_hdrFields_ccu_serverS @cc_hdrEndStream_ccu_serverS @cc_hdrRegularSeen_ccu_serverS @cc_hdrStatus_ccu_serverS @cc_hdrErr_ccu_serverS : cc.
#[export] Hint Rewrite @cc_stateClosed_ccu_serverS @cc_closeRef_ccu_serverS @cc_reqQueued_ccu_serverS @cc_pending_ccu_serverS @cc_connWindow_ccu_serverS @cc_streamWindow_ccu_serverS @cc_inQ_ccu_serverS @cc_outQ_ccu_serverS : cc.
#[export] Hint Rewrite @cc_winCh_ccu_serverS @cc_lastErr_ccu_serverS @cc_unacks_ccu_serverS @cc_rl_done_ccu_serverS @cc_wl_done_ccu_serverS @cc_rl_stuck_ccu_serverS @cc_wl_stuck_ccu_serverS @cc_out_ccu_serverS : cc.
#[export] Hint Rewrite @cc_ctxs_ccu_hdrStream @cc_nextID_ccu_hdrStream @cc_open_ccu_hdrStream @cc_maxStreams_ccu_hdrStream @cc_maxFrame_ccu_hdrStream @cc_goAway_ccu_hdrStream @cc_closed_ccu_hdrStream @cc_closing_ccu_hdrStream : cc.
#[export] Hint Rewrite @cc_netClosed_ccu_hdrStream @cc_writeFail_ccu_hdrStream @cc_enc_ccu_hdrStream @cc_encTableSize_ccu_hdrStream @cc_encTableSeen_ccu_hdrStream @cc_dec_ccu_hdrStream @cc_currentWindow_ccu_hdrStream @cc_serverS_ccu_hdrStream : cc.
#[export] Hint Rewrite @cc_hdrStream_ccu_hdrStream @cc_hdrPrev_ccu_hdrStream @cc_hdrFields_ccu_hdrStream @cc_hdrEndStream_ccu_hdrStream @cc_hdrRegularSeen_ccu_hdrStream @cc_hdrStatus_ccu_hdrStream @cc_hdrErr_ccu_hdrStream @cc_stateClosed_ccu_hdrStream : cc.
#[export] Hint Rewrite @cc_closeRef_ccu_hdrStream @cc_reqQueued_ccu_hdrStream @cc_pending_ccu_hdrStream @cc_connWindow_ccu_hdrStream @cc_streamWindow_ccu_hdrStream @cc_inQ_ccu_hdrStream @cc_outQ_ccu_hdrStream @cc_winCh_ccu_hdrStream : cc.
#[export] Hint Rewrite @cc_lastErr_ccu_hdrStream @cc_unacks_ccu_hdrStream @cc_rl_done_ccu_hdrStream @cc_wl_done_ccu_hdrStream @cc_rl_stuck_ccu_hdrStream @cc_wl_stuck_ccu_hdrStream @cc_out_ccu_hdrStream @cc_ctxs_ccu_hdrPrev : cc.
#[export] Hint Rewrite @cc_nextID_ccu_hdrPrev @cc_open_ccu_hdrPrev @cc_maxStreams_ccu_hdrPrev @cc_maxFrame_ccu_hdrPrev @cc_goAway_ccu_hdrPrev @cc_closed_ccu_hdrPrev @cc_closing_ccu_hdrPrev @cc_netClosed_ccu_hdrPrev : cc.
#[export] Hint Rewrite @cc_writeFail_ccu_hdrPrev @cc_enc_ccu_hdrPrev @cc_encTableSize_ccu_hdrPrev @cc_encTableSeen_ccu_hdrPrev @cc_dec_ccu_hdrPrev @cc_currentWindow_ccu_hdrPrev @cc_serverS_ccu_hdrPrev @cc_hdrStream_ccu_hdrPrev : cc.
#[export] Hint Rewrite @cc_hdrPrev_ccu_hdrPrev @cc_hdrFields_ccu_hdrPrev @cc_hdrEndStream_ccu_hdrPrev @cc_hdrRegularSeen_ccu_hdrPrev @cc_hdrStatus_ccu_hdrPrev @cc_hdrErr_ccu_hdrPrev @cc_stateClosed_ccu_hdrPrev @cc_closeRef_ccu_hdrPrev : cc.
#[export] Hint Rewrite @cc_reqQueued_ccu_hdrPrev @cc_pending_ccu_hdrPrev @cc_connWindow_ccu_hdrPrev @cc_streamWindow_ccu_hdrPrev @cc_inQ_ccu_hdrPrev @cc_outQ_ccu_hdrPrev @cc_winCh_ccu_hdrPrev @cc_lastErr_ccu_hdrPrev : cc.
#[export] Hint Rewrite @cc_unacks_ccu_hdrPrev @cc_rl_done_ccu_hdrPrev @cc_wl_done_ccu_hdrPrev @cc_rl_stuck_ccu_hdrPrev @cc_wl_stuck_ccu_hdrPrev @cc_out_ccu_hdrPrev @cc_ctxs_ccu_hdrFields @cc_nextID_ccu_hdrFields : cc.
#[export] Hint Rewrite @cc_open_ccu_hdrFields @cc_maxStreams_ccu_hdrFields @cc_maxFrame_ccu_hdrFields @cc_goAway_ccu_hdrFields @cc_closed_ccu_hdrFields @cc_closing_ccu_hdrFields @cc_netClosed_ccu_hdrFields @cc_writeFail_ccu_hdrFields : cc.
#[export] Hint Rewrite @cc_enc_ccu_hdrFields @cc_encTableSize_ccu_hdrFields @cc_encTableSeen_ccu_hdrFields @cc_dec_ccu_hdrFields @cc_currentWindow_ccu_hdrFields @cc_serverS_ccu_hdrFields @cc_hdrStream_ccu_hdrFields @cc_hdrPrev_ccu_hdrFields : cc.
#[export] Hint Rewrite @cc_hdrFields_ccu_hdrFields @cc_hdrEndStream_ccu_hdrFields @cc_hdrRegularSeen_ccu_hdrFields @cc_hdrStatus_ccu_hdrFields @cc_hdrErr_ccu_hdrFields @cc_stateClosed_ccu_hdrFields @cc_closeRef_ccu_hdrFields @cc_reqQueued_ccu_hdrFields : cc.
#[export] Hint Rewrite @cc_pending_ccu_hdrFields @cc_connWindow_ccu_hdrFields @cc_streamWindow_ccu_hdrFields @cc_inQ_ccu_hdrFields @cc_outQ_ccu_hdrFields @cc_winCh_ccu_hdrFields @cc_lastErr_ccu_hdrFields @cc_unacks_ccu_hdrFields : cc.
#[export] Hint Rewrite @cc_rl_done_ccu_hdrFields @cc_wl_done_ccu_hdrFields @cc_rl_stuck_ccu_hdrFields @cc_wl_stuck_ccu_hdrFields @cc_out_ccu_hdrFields @cc_ctxs_ccu_hdrEndStream @cc_nextID_ccu_hdrEndStream @cc_open_ccu_hdrEndStream : cc.
#[export] Hint Rewrite @cc_maxStreams_ccu_hdrEndStream @cc_maxFrame_ccu_hdrEndStream @cc_goAway_ccu_hdrEndStream @cc_closed_ccu_hdrEndStream @cc_closing_ccu_hdrEndStream @cc_netClosed_ccu_hdrEndStream @cc_writeFail_ccu_hdrEndStream @cc_enc_ccu_hdrEndStream : cc.
#[export] Hint Rewrite @cc_encTableSize_ccu_hdrEndStream @cc_encTableSeen_ccu_hdrEndStream @cc_dec_ccu_hdrEndStream @cc_currentWindow_ccu_hdrEndStream @cc_serverS_ccu_hdrEndStream @cc_hdrStream_ccu_hdrEndStream @cc_hdrPrev_ccu_hdrEndStream @cc_hdrFields_ccu_hdrEndStream : cc.
#[export] Hint Rewrite @cc_hdrEndStream_ccu_hdrEndStream @cc_hdrRegularSeen_ccu_hdrEndStream @cc_hdrStatus_ccu_hdrEndStream @cc_hdrErr_ccu_hdrEndStream @cc_stateClosed_ccu_hdrEndStream @cc_closeRef_ccu_hdrEndStream @cc_reqQueued_ccu_hdrEndStream @cc_pending_ccu_hdrEndStream : cc.
#[export] Hint Rewrite @cc_connWindow_ccu_hdrEndStream @cc_streamWindow_ccu_hdrEndStream @cc_inQ_ccu_hdrEndStream @cc_outQ_ccu_hdrEndStream @cc_winCh_ccu_hdrEndStream @cc_lastErr_ccu_hdrEndStream @cc_unacks_ccu_hdrEndStream @cc_rl_done_ccu_hdrEndStream : cc.
#[export] Hint Rewrite @cc_wl_done_ccu_hdrEndStream @cc_rl_stuck_ccu_hdrEndStream @cc_wl_stuck_ccu_hdrEndStream @cc_out_ccu_hdrEndStream @cc_ctxs_ccu_hdrRegularSeen @cc_nextID_ccu_hdrRegularSeen @cc_open_ccu_hdrRegularSeen @cc_maxStreams_ccu_hdrRegularSeen : cc.
#[export] Hint Rewrite @cc_maxFrame_ccu_hdrRegularSeen @cc_goAway_ccu_hdrRegularSeen @cc_closed_ccu_hdrRegularSeen @cc_closing_ccu_hdrRegularSeen @cc_netClosed_ccu_hdrRegularSeen @cc_writeFail_ccu_hdrRegularSeen @cc_enc_ccu_hdrRegularSeen @cc_encTableSize_ccu_hdrRegularSeen : cc.
#[export] Hint Rewrite @cc_encTableSeen_ccu_hdrRegularSeen @cc_dec_ccu_hdrRegularSeen @cc_currentWindow_ccu_hdrRegularSeen @cc_serverS_ccu_hdrRegularSeen @cc_hdrStream_ccu_hdrRegularSeen @cc_hdrPrev_ccu_hdrRegularSeen @cc_hdrFields_ccu_hdrRegularSeen @cc_hdrEndStream_ccu_hdrRegularSeen : cc.
#[export] Hint Rewrite @cc_hdrRegularSeen_ccu_hdrRegularSeen @cc_hdrStatus_ccu_hdrRegularSeen @cc_hdrErr_ccu_hdrRegularSeen @cc_stateClosed_ccu_hdrRegularSeen @cc_closeRef_ccu_hdrRegularSeen @cc_reqQueued_ccu_hdrRegularSeen @cc_pending_ccu_hdrRegularSeen @cc_connWindow_ccu_hdrRegularSeen : cc.
#[export] Hint Rewrite @cc_streamWindow_ccu_hdrRegularSeen @cc_inQ_ccu_hdrRegularSeen @cc_outQ_ccu_hdrRegularSeen @cc_winCh_ccu_hdrRegularSeen @cc_lastErr_ccu_hdrRegularSeen @cc_unacks_ccu_hdrRegularSeen @cc_rl_done_ccu_hdrRegularSeen @cc_wl_done_ccu_hdrRegularSeen : cc.
#[export] Hint Rewrite @cc_rl_stuck_ccu_hdrRegularSeen @cc_wl_stuck_ccu_hdrRegularSeen @cc_out_ccu_hdrRegularSeen @cc_ctxs_ccu_hdrStatus @cc_nextID_ccu_hdrStatus @cc_open_ccu_hdrStatus @cc_maxStreams_ccu_hdrStatus @cc_maxFrame_ccu_hdrStatus : cc.
#[export] Hint Rewrite @cc_goAway_ccu_hdrStatus @cc_closed_ccu_hdrStatus @cc_closing_ccu_hdrStatus @cc_netClosed_ccu_hdrStatus @cc_writeFail_ccu_hdrStatus @cc_enc_ccu_hdrStatus @cc_encTableSize_ccu_hdrStatus @cc_encTableSeen_ccu_hdrStatus : cc.
#[export] Hint Rewrite @cc_dec_ccu_hdrStatus @cc_currentWindow_ccu_hdrStatus @cc_serverS_ccu_hdrStatus @cc_hdrStream_ccu_hdrStatus @cc_hdrPrev_ccu_hdrStatus @cc_hdrFields_ccu_hdrStatus @cc_hdrEndStream_ccu_hdrStatus @cc_hdrRegularSeen_ccu_hdrStatus : cc.
#[export] Hint Rewrite @cc_hdrStatus_ccu_hdrStatus @cc_hdrErr_ccu_hdrStatus @cc_stateClosed_ccu_hdrStatus @cc_closeRef_ccu_hdrStatus @cc_reqQueued_ccu_hdrStatus @cc_pending_ccu_hdrStatus @cc_connWindow_ccu_hdrStatus @cc_streamWindow_ccu_hdrStatus : cc.
#[export] Hint Rewrite @cc_inQ_ccu_hdrStatus @cc_outQ_ccu_hdrStatus @cc_winCh_ccu_hdrStatus @cc_lastErr_ccu_hdrStatus @cc_unacks_ccu_hdrStatus @cc_rl_done_ccu_hdrStatus @cc_wl_done_ccu_hdrStatus @cc_rl_stuck_ccu_hdrStatus : cc.
#[export] Hint Rewrite @cc_wl_stuck_ccu_hdrStatus @cc_out_ccu_hdrStatus @cc_ctxs_ccu_hdrErr @cc_nextID_ccu_hdrErr @cc_open_ccu_hdrErr @cc_maxStreams_ccu_hdrErr @cc_maxFrame_ccu_hdrErr @cc_goAway_ccu_hdrErr : cc.
#[export] Hint Rewrite @cc_closed_ccu_hdrErr @cc_closing_ccu_hdrErr @cc_netClosed_ccu_hdrErr @cc_writeFail_ccu_hdrErr @cc_enc_ccu_hdrErr @cc_encTableSize_ccu_hdrErr @cc_encTableSeen_ccu_hdrErr @cc_dec_ccu_hdrErr : cc.
#[export] Hint Rewrite @cc_currentWindow_ccu_hdrErr @cc_serverS_ccu_hdrErr @cc_hdrStream_ccu_hdrErr @cc_hdrPrev_ccu_hdrErr @cc_hdrFields_ccu_hdrErr @cc_hdrEndStream_ccu_hdrErr @cc_hdrRegularSeen_ccu_hdrErr @cc_hdrStatus_ccu_hdrErr : cc.
#[export] Hint Rewrite @cc_hdrErr_ccu_hdrErr @cc_stateClosed_ccu_hdrErr @cc_closeRef_ccu_hdrErr @cc_reqQueued_ccu_hdrErr @cc_pending_ccu_hdrErr @cc_connWindow_ccu_hdrErr @cc_streamWindow_ccu_hdrErr @cc_inQ_ccu_hdrErr : cc.
#[export] Hint Rewrite @cc_outQ_ccu_hdrErr @cc_winCh_ccu_hdrErr @cc_lastErr_ccu_hdrErr @cc_unacks_ccu_hdrErr @cc_rl_done_ccu_hdrErr @cc_wl_done_ccu_hdrErr @cc_rl_stuck_ccu_hdrErr @cc_wl_stuck_ccu_hdrErr : cc.
#[export] Hint Rewrite @cc_out_ccu_hdrErr @cc_ctxs_ccu_stateClosed @cc_nextID_ccu_stateClosed @cc_open_ccu_stateClosed @cc_maxStreams_ccu_stateClosed @cc_maxFrame_ccu_stateClosed @cc_goAway_ccu_stateClosed @cc_closed_ccu_stateClosed : cc.
#[export] Hint Rewrite @cc_closing_ccu_stateClosed @cc_netClosed_ccu_stateClosed @cc_writeFail_ccu_stateClosed @cc_enc_ccu_stateClosed @cc_encTableSize_ccu_stateClosed @cc_encTableSeen_ccu_stateClosed @cc_dec_ccu_stateClosed @cc_currentWindow_ccu_stateClosed : cc.
#[export] Hint Rewrite @cc_serverS_ccu_stateClosed @cc_hdrStream_ccu_stateClosed @cc_hdrPrev_ccu_stateClosed @cc_hdrFields_ccu_stateClosed @cc_hdrEndStream_ccu_stateClosed @cc_hdrRegularSeen_ccu_stateClosed @cc_hdrStatus_ccu_stateClosed @cc_hdrErr_ccu_stateClosed : cc.
#[export] Hint Rewrite @cc_stateClosed_ccu_stateClosed @cc_closeRef_ccu_stateClosed @cc_reqQueued_ccu_stateClosed @cc_pending_ccu_stateClosed @cc_connWindow_ccu_stateClosed @cc_streamWindow_ccu_stateClosed @cc_inQ_ccu_stateClosed @cc_outQ_ccu_stateClosed : cc.
#[export] Hint Rewrite @cc_winCh_ccu_stateClosed @cc_lastErr_ccu_stateClosed @cc_unacks_ccu_stateClosed @cc_rl_done_ccu_stateClosed @cc_wl_done_ccu_stateClosed @cc_rl_stuck_ccu_stateClosed @cc_wl_stuck_ccu_stateClosed @cc_out_ccu_stateClosed : cc.
#[export] Hint Rewrite @cc_ctxs_ccu_closeRef @cc_nextID_ccu_closeRef @cc_open_ccu_closeRef @cc_maxStreams_ccu_closeRef @cc_maxFrame_ccu_closeRef @cc_goAway_ccu_closeRef @cc_closed_ccu_closeRef @cc_closing_ccu_closeRef : cc.
#[export] Hint Rewrite @cc_netClosed_ccu_closeRef @cc_writeFail_ccu_closeRef @cc_enc_ccu_closeRef @cc_encTableSize_ccu_closeRef @cc_encTableSeen_ccu_closeRef @cc_dec_ccu_closeRef @cc_currentWindow_ccu_closeRef @cc_serverS_ccu_closeRef : cc.
#[export] Hint Rewrite @cc_hdrStream_ccu_closeRef @cc_hdrPrev_ccu_closeRef @cc_hdrFields_ccu_closeRef @cc_hdrEndStream_ccu_closeRef @cc_hdrRegularSeen_ccu_closeRef @cc_hdrStatus_ccu_closeRef @cc_hdrErr_ccu_closeRef @cc_stateClosed_ccu_closeRef : cc.
#[export] Hint Rewrite @cc_closeRef_ccu_closeRef @cc_reqQueued_ccu_closeRef @cc_pending_ccu_closeRef @cc_connWindow_ccu_closeRef @cc_streamWindow_ccu_closeRef @cc_inQ_ccu_closeRef @cc_outQ_ccu_closeRef @cc_winCh_ccu_closeRef : cc.
#[export] Hint Rewrite @cc_lastErr_ccu_closeRef @cc_unacks_ccu_closeRef @cc_rl_done_ccu_closeRef @cc_wl_done_ccu_closeRef @cc_rl_stuck_ccu_closeRef @cc_wl_stuck_ccu_closeRef @cc_out_ccu_closeRef @cc_ctxs_ccu_reqQueued : cc.
#[export] Hint Rewrite @cc_nextID_ccu_reqQueued @cc_open_ccu_reqQueued @cc_maxStreams_ccu_reqQueued @cc_maxFrame_ccu_reqQueued @cc_goAway_ccu_reqQueued @cc_closed_ccu_reqQueued @cc_closing_ccu_reqQueued @cc_netClosed_ccu_reqQueued : cc.
#[export] Hint Rewrite @cc_writeFail_ccu_reqQueued @cc_enc_ccu_reqQueued @cc_encTableSize_ccu_reqQueued @cc_encTableSeen_ccu_reqQueued @cc_dec_ccu_reqQueued @cc_currentWindow_ccu_reqQueued @cc_serverS_ccu_reqQueued @cc_hdrStream_ccu_reqQueued : cc.
#[export] Hint Rewrite @cc_hdrPrev_ccu_reqQueued @cc_hdrFields_ccu_reqQueued @cc_hdrEndStream_ccu_reqQueued @cc_hdrRegularSeen_ccu_reqQueued @cc_hdrStatus_ccu_reqQueued @cc_hdrErr_ccu_reqQueued @cc_stateClosed_ccu_reqQueued @cc_closeRef_ccu_reqQueued : cc.
#[export] Hint Rewrite @cc_reqQueued_ccu_reqQueued @cc_pending_ccu_reqQueued @cc_connWindow_ccu_reqQueued @cc_streamWindow_ccu_reqQueued @cc_inQ_ccu_reqQueued @cc_outQ_ccu_reqQueued @cc_winCh_ccu_reqQueued @cc_lastErr_ccu_reqQueued : cc.
#[export] Hint Rewrite @cc_unacks_ccu_reqQueued @cc_rl_done_ccu_reqQueued @cc_wl_done_ccu_reqQueued @cc_rl_stuck_ccu_reqQueued @cc_wl_stuck_ccu_reqQueued @cc_out_ccu_reqQueued @cc_ctxs_ccu_pending @cc_nextID_ccu_pending : cc.
#[export] Hint Rewrite @cc_open_ccu_pending @cc_maxStreams_ccu_pending @cc_maxFrame_ccu_pending @cc_goAway_ccu_pending @cc_closed_ccu_pending @cc_closing_ccu_pending @cc_netClosed_ccu_pending @cc_writeFail_ccu_pending : cc.
#[export] Hint Rewrite @cc_enc_ccu_pending @cc_encTableSize_ccu_pending @cc_encTableSeen_ccu_pending @cc_dec_ccu_pending @cc_currentWindow_ccu_pending @cc_serverS_ccu_pending @cc_hdrStream_ccu_pending @cc_hdrPrev_ccu_pending : cc.
#[export] Hint Rewrite @cc_hdrFields_ccu_pending @cc_hdrEndStream_ccu_pending @cc_hdrRegularSeen_ccu_pending @cc_hdrStatus_ccu_pending @cc_hdrErr_ccu_pending @cc_stateClosed_ccu_pending @cc_closeRef_ccu_pending @cc_reqQueued_ccu_pending : cc.
#[export] Hint Rewrite @cc_pending_ccu_pending @cc_connWindow_ccu_pending @cc_streamWindow_ccu_pending @cc_inQ_ccu_pending @cc_outQ_ccu_pending @cc_winCh_ccu_pending @cc_lastErr_ccu_pending @cc_unacks_ccu_pending : cc.
#[export] Hint Rewrite @cc_rl_done_ccu_pending @cc_wl_done_ccu_pending @cc_rl_stuck_ccu_pending @cc_wl_stuck_ccu_pending @cc_out_ccu_pending @cc_ctxs_ccu_connWindow @cc_nextID_ccu_connWindow @cc_open_ccu_connWindow : cc.
#[export] Hint Rewrite @cc_maxStreams_ccu_connWindow @cc_maxFrame_ccu_connWindow @cc_goAway_ccu_connWindow @cc_closed_ccu_connWindow @cc_closing_ccu_connWindow @cc_netClosed_ccu_connWindow @cc_writeFail_ccu_connWindow @cc_enc_ccu_connWindow : cc.
#[export] Hint Rewrite @cc_encTableSize_ccu_connWindow @cc_encTableSeen_ccu_connWindow @cc_dec_ccu_connWindow @cc_currentWindow_ccu_connWindow @cc_serverS_ccu_connWindow @cc_hdrStream_ccu_connWindow @cc_hdrPrev_ccu_connWindow @cc_hdrFields_ccu_connWindow : cc.
#[export] Hint Rewrite @cc_hdrEndStream_ccu_connWindow @cc_hdrRegularSeen_ccu_connWindow @cc_hdrStatus_ccu_connWindow @cc_hdrErr_ccu_connWindow @cc_stateClosed_ccu_connWindow @cc_closeRef_ccu_connWindow @cc_reqQueued_ccu_connWindow @cc_pending_ccu_connWindow : cc.
#[export] Hint Rewrite @cc_connWindow_ccu_connWindow @cc_streamWindow_ccu_connWindow @cc_inQ_ccu_connWindow @cc_outQ_ccu_connWindow @cc_winCh_ccu_connWindow @cc_lastErr_ccu_connWindow @cc_unacks_ccu_connWindow @cc_rl_done_ccu_connWindow : cc.
#[export] Hint Rewrite @cc_wl_done_ccu_connWindow @cc_rl_stuck_ccu_connWindow @cc_wl_stuck_ccu_connWindow @cc_out_ccu_connWindow @cc_ctxs_ccu_streamWindow @cc_nextID_ccu_streamWindow @cc_open_ccu_streamWindow @cc_maxStreams_ccu_streamWindow : cc.
#[export] Hint Rewrite @cc_maxFrame_ccu_streamWindow @cc_goAway_ccu_streamWindow @cc_closed_ccu_streamWindow @cc_closing_ccu_streamWindow @cc_netClosed_ccu_streamWindow @cc_writeFail_ccu_streamWindow @cc_enc_ccu_streamWindow @cc_encTableSize_ccu_streamWindow : cc.
#[export] Hint Rewrite @cc_encTableSeen_ccu_streamWindow @cc_dec_ccu_streamWindow @cc_currentWindow_ccu_streamWindow @cc_serverS_ccu_streamWindow @cc_hdrStream_ccu_streamWindow @cc_hdrPrev_ccu_streamWindow @cc_hdrFields_ccu_streamWindow @cc_hdrEndStream_ccu_streamWindow : cc.
#[export] Hint Rewrite @cc_hdrRegularSeen_ccu_streamWindow @cc_hdrStatus_ccu_streamWindow @cc_hdrErr_ccu_streamWindow @cc_stateClosed_ccu_streamWindow @cc_closeRef_ccu_streamWindow @cc_reqQueued_ccu_streamWindow @cc_pending_ccu_streamWindow @cc_connWindow_ccu_streamWindow : cc.
#[export] Hint Rewrite @cc_streamWindow_ccu_streamWindow @cc_inQ_ccu_streamWindow @cc_outQ_ccu_streamWindow @cc_winCh_ccu_streamWindow @cc_lastErr_ccu_streamWindow @cc_unacks_ccu_streamWindow @cc_rl_done_ccu_streamWindow @cc_wl_done_ccu_streamWindow : cc.
#[export] Hint Rewrite @cc_rl_stuck_ccu_streamWindow @cc_wl_stuck_ccu_streamWindow @cc_out_ccu_streamWindow @cc_ctxs_ccu_inQ @cc_nextID_ccu_inQ @cc_open_ccu_inQ @cc_maxStreams_ccu_inQ @cc_maxFrame_ccu_inQ : cc.
#[export] Hint Rewrite @cc_goAway_ccu_inQ @cc_closed_ccu_inQ @cc_closing_ccu_inQ @cc_netClosed_ccu_inQ @cc_writeFail_ccu_inQ @cc_enc_ccu_inQ @cc_encTableSize_ccu_inQ @cc_encTableSeen_ccu_inQ : cc.
#[export] Hint Rewrite @cc_dec_ccu_inQ @cc_currentWindow_ccu_inQ @cc_serverS_ccu_inQ @cc_hdrStream_ccu_inQ @cc_hdrPrev_ccu_inQ @cc_hdrFields_ccu_inQ @cc_hdrEndStream_ccu_inQ @cc_hdrRegularSeen_ccu_inQ : cc.
#[export] Hint Rewrite @cc_hdrStatus_ccu_inQ @cc_hdrErr_ccu_inQ @cc_stateClosed_ccu_inQ @cc_closeRef_ccu_inQ @cc_reqQueued_ccu_inQ @cc_pending_ccu_inQ @cc_connWindow_ccu_inQ @cc_streamWindow_ccu_inQ : cc.
#[export] Hint Rewrite @cc_inQ_ccu_inQ @cc_outQ_ccu_inQ @cc_winCh_ccu_inQ @cc_lastErr_ccu_inQ @cc_unacks_ccu_inQ @cc_rl_done_ccu_inQ @cc_wl_done_ccu_inQ @cc_rl_stuck_ccu_inQ : cc.
#[export] Hint Rewrite @cc_wl_stuck_ccu_inQ @cc_out_ccu_inQ @cc_ctxs_ccu_outQ @cc_nextID_ccu_outQ @cc_open_ccu_outQ @cc_maxStreams_ccu_outQ @cc_maxFrame_ccu_outQ @cc_goAway_ccu_outQ : cc.
#[export] Hint Rewrite @cc_closed_ccu_outQ @cc_closing_ccu_outQ @cc_netClosed_ccu_outQ @cc_writeFail_ccu_outQ @cc_enc_ccu_outQ @cc_encTableSize_ccu_outQ @cc_encTableSeen_ccu_outQ @cc_dec_ccu_outQ : cc.
#[export] Hint Rewrite @cc_currentWindow_ccu_outQ @cc_serverS_ccu_outQ @cc_hdrStream_ccu_outQ @cc_hdrPrev_ccu_outQ @cc_hdrFields_ccu_outQ @cc_hdrEndStream_ccu_outQ @cc_hdrRegularSeen_ccu_outQ @cc_hdrStatus_ccu_outQ : cc.
#[export] Hint Rewrite @cc_hdrErr_ccu_outQ @cc_stateClosed_ccu_outQ @cc_closeRef_ccu_outQ @cc_reqQueued_ccu_outQ @cc_pending_ccu_outQ @cc_connWindow_ccu_outQ @cc_streamWindow_ccu_outQ @cc_inQ_ccu_outQ : cc.
#[export] Hint Rewrite @cc_outQ_ccu_outQ @cc_winCh_ccu_outQ @cc_lastErr_ccu_outQ @cc_unacks_ccu_outQ @cc_rl_done_ccu_outQ @cc_wl_done_ccu_outQ @cc_rl_stuck_ccu_outQ @cc_wl_stuck_ccu_outQ : cc.
#[export] Hint Rewrite @cc_out_ccu_outQ @cc_ctxs_ccu_winCh @cc_nextID_ccu_winCh @cc_open_ccu_winCh @cc_maxStreams_ccu_winCh @cc_maxFrame_ccu_winCh @cc_goAway_ccu_winCh @cc_closed_ccu_winCh : cc.
#[export] Hint Rewrite @cc_closing_ccu_winCh @cc_netClosed_ccu_winCh @cc_writeFail_ccu_winCh @cc_enc_ccu_winCh @cc_encTableSize_ccu_winCh @cc_encTableSeen_ccu_winCh @cc_dec_ccu_winCh @cc_currentWindow_ccu_winCh : cc.
#[export] Hint Rewrite @cc_serverS_ccu_winCh @cc_hdrStream_ccu_winCh @cc_hdrPrev_ccu_winCh @cc_hdrFields_ccu_winCh @cc_hdrEndStream_ccu_winCh @cc_hdrRegularSeen_ccu_winCh @cc_hdrStatus_ccu_winCh @cc_hdrErr_ccu_winCh : cc.
#[export] Hint Rewrite @cc_stateClosed_ccu_winCh @cc_closeRef_ccu_winCh @cc_reqQueued_ccu_winCh @cc_pending_ccu_winCh @cc_connWindow_ccu_winCh @cc_streamWindow_ccu_winCh @cc_inQ_ccu_winCh @cc_outQ_ccu_winCh : cc.
#[export] Hint Rewrite @cc_winCh_ccu_winCh @cc_lastErr_ccu_winCh @cc_unacks_ccu_winCh @cc_rl_done_ccu_winCh @cc_wl_done_ccu_winCh @cc_rl_stuck_ccu_winCh @cc_wl_stuck_ccu_winCh @cc_out_ccu_winCh : cc.
#[export] Hint Rewrite @cc_ctxs_ccu_lastErr @cc_nextID_ccu_lastErr @cc_open_ccu_lastErr @cc_maxStreams_ccu_lastErr @cc_maxFrame_ccu_lastErr @cc_goAway_ccu_lastErr @cc_closed_ccu_lastErr @cc_closing_ccu_lastErr : cc.
#[export] Hint Rewrite @cc_netClosed_ccu_lastErr @cc_writeFail_ccu_lastErr @cc_enc_ccu_lastErr @cc_encTableSize_ccu_lastErr @cc_encTableSeen_ccu_lastErr @cc_dec_ccu_lastErr @cc_currentWindow_ccu_lastErr @cc_serverS_ccu_lastErr : cc.
#[export] Hint Rewrite @cc_hdrStream_ccu_lastErr @cc_hdrPrev_ccu_lastErr @cc_hdrFields_ccu_lastErr @cc_hdrEndStream_ccu_lastErr @cc_hdrRegularSeen_ccu_lastErr @cc_hdrStatus_ccu_lastErr @cc_hdrErr_ccu_lastErr @cc_stateClosed_ccu_lastErr : cc.
#[export] Hint Rewrite @cc_closeRef_ccu_lastErr @cc_reqQueued_ccu_lastErr @cc_pending_ccu_lastErr @cc_connWindow_ccu_lastErr @cc_streamWindow_ccu_lastErr @cc_inQ_ccu_lastErr @cc_outQ_ccu_lastErr @cc_winCh_ccu_lastErr : cc.
#[export] Hint Rewrite @cc_lastErr_ccu_lastErr @cc_unacks_ccu_lastErr @cc_rl_done_ccu_lastErr @cc_wl_done_ccu_lastErr @cc_rl_stuck_ccu_lastErr @cc_wl_stuck_ccu_lastErr @cc_out_ccu_lastErr @cc_ctxs_ccu_unacks : cc.
#[export] Hint Rewrite @cc_nextID_ccu_unacks @cc_open_ccu_unacks @cc_maxStreams_ccu_unacks @cc_maxFrame_ccu_unacks @cc_goAway_ccu_unacks @cc_closed_ccu_unacks @cc_closing_ccu_unacks @cc_netClosed_ccu_unacks : cc.
#[export] Hint Rewrite @cc_writeFail_ccu_unacks @cc_enc_ccu_unacks @cc_encTableSize_ccu_unacks @cc_encTableSeen_ccu_unacks @cc_dec_ccu_unacks @cc_currentWindow_ccu_unacks @cc_serverS_ccu_unacks @cc_hdrStream_ccu_unacks : cc.
#[export] Hint Rewrite @cc_hdrPrev_ccu_unacks @cc_hdrFields_ccu_unacks @cc_hdrEndStream_ccu_unacks @cc_hdrRegularSeen_ccu_unacks @cc_hdrStatus_ccu_unacks @cc_hdrErr_ccu_unacks @cc_stateClosed_ccu_unacks @cc_closeRef_ccu_unacks : cc.
#[export] Hint Rewrite @cc_reqQueued_ccu_unacks @cc_pending_ccu_unacks @cc_connWindow_ccu_unacks @cc_streamWindow_ccu_unacks @cc_inQ_ccu_unacks @cc_outQ_ccu_unacks @cc_winCh_ccu_unacks @cc_lastErr_ccu_unacks : cc.
#[export] Hint Rewrite @cc_unacks_ccu_unacks @cc_rl_done_ccu_unacks @cc_wl_done_ccu_unacks @cc_rl_stuck_ccu_unacks @cc_wl_stuck_ccu_unacks @cc_out_ccu_unacks @cc_ctxs_ccu_rl_done @cc_nextID_ccu_rl_done : cc.
#[export] Hint Rewrite @cc_open_ccu_rl_done @cc_maxStreams_ccu_rl_done @cc_maxFrame_ccu_rl_done @cc_goAway_ccu_rl_done @cc_closed_ccu_rl_done @cc_closing_ccu_rl_done @cc_netClosed_ccu_rl_done @cc_writeFail_ccu_rl_done : cc.
#[export] Hint Rewrite @cc_enc_ccu_rl_done @cc_encTableSize_ccu_rl_done @cc_encTableSeen_ccu_rl_done @cc_dec_ccu_rl_done @cc_currentWindow_ccu_rl_done @cc_serverS_ccu_rl_done @cc_hdrStream_ccu_rl_done @cc_hdrPrev_ccu_rl_done : cc.
#[export] Hint Rewrite @cc_hdrFields_ccu_rl_done @cc_hdrEndStream_ccu_rl_done @cc_hdrRegularSeen_ccu_rl_done @cc_hdrStatus_ccu_rl_done @cc_hdrErr_ccu_rl_done @cc_stateClosed_ccu_rl_done @cc_closeRef_ccu_rl_done @cc_reqQueued_ccu_rl_done : cc.
#[export] Hint Rewrite @cc_pending_ccu_rl_done @cc_connWindow_ccu_rl_done @cc_streamWindow_ccu_rl_done @cc_inQ_ccu_rl_done @cc_outQ_ccu_rl_done @cc_winCh_ccu_rl_done @cc_lastErr_ccu_rl_done @cc_unacks_ccu_rl_done : cc.
#[export] Hint Rewrite @cc_rl_done_ccu_rl_done @cc_wl_done_ccu_rl_done @cc_rl_stuck_ccu_rl_done @cc_wl_stuck_ccu_rl_done @cc_out_ccu_rl_done @cc_ctxs_ccu_wl_done @cc_nextID_ccu_wl_done @cc_open_ccu_wl_done : cc.
#[export] Hint Rewrite @cc_maxStreams_ccu_wl_done @cc_maxFrame_ccu_wl_done @cc_goAway_ccu_wl_done @cc_closed_ccu_wl_done @cc_closing_ccu_wl_done @cc_netClosed_ccu_wl_done @cc_writeFail_ccu_wl_done @cc_enc_ccu_wl_done : cc.
#[export] Hint Rewrite @cc_encTableSize_ccu_wl_done @cc_encTableSeen_ccu_wl_done @cc_dec_ccu_wl_done @cc_currentWindow_ccu_wl_done @cc_serverS_ccu_wl_done @cc_hdrStream_ccu_wl_done @cc_hdrPrev_ccu_wl_done @cc_hdrFields_ccu_wl_done : cc.
#[export] Hint Rewrite @cc_hdrEndStream_ccu_wl_done @cc_hdrRegularSeen_ccu_wl_done @cc_hdrStatus_ccu_wl_done @cc_hdrErr_ccu_wl_done @cc_stateClosed_ccu_wl_done @cc_closeRef_ccu_wl_done @cc_reqQueued_ccu_wl_done @cc_pending_ccu_wl_done : cc.
#[export] Hint Rewrite @cc_connWindow_ccu_wl_done @cc_streamWindow_ccu_wl_done @cc_inQ_ccu_wl_done @cc_outQ_ccu_wl_done @cc_winCh_ccu_wl_done @cc_lastErr_ccu_wl_done @cc_unacks_ccu_wl_done @cc_rl_done_ccu_wl_done : cc.
#[export] Hint Rewrite @cc_wl_done_ccu_wl_done @cc_rl_stuck_ccu_wl_done @cc_wl_stuck_ccu_wl_done @cc_out_ccu_wl_done @cc_ctxs_ccu_rl_stuck @cc_nextID_ccu_rl_stuck @cc_open_ccu_rl_stuck @cc_maxStreams_ccu_rl_stuck : cc.
#[export] Hint Rewrite @cc_maxFrame_ccu_rl_stuck @cc_goAway_ccu_rl_stuck @cc_closed_ccu_rl_stuck @cc_closing_ccu_rl_stuck @cc_netClosed_ccu_rl_stuck @cc_writeFail_ccu_rl_stuck @cc_enc_ccu_rl_stuck @cc_encTableSize_ccu_rl_stuck : cc.
#[export] Hint Rewrite @cc_encTableSeen_ccu_rl_stuck @cc_dec_ccu_rl_stuck @cc_currentWindow_ccu_rl_stuck @cc_serverS_ccu_rl_stuck @cc_hdrStream_ccu_rl_stuck @cc_hdrPrev_ccu_rl_stuck @cc_hdrFields_ccu_rl_stuck @cc_hdrEndStream_ccu_rl_stuck : cc.
#[export] Hint Rewrite @cc_hdrRegularSeen_ccu_rl_stuck @cc_hdrStatus_ccu_rl_stuck @cc_hdrErr_ccu_rl_stuck @cc_stateClosed_ccu_rl_stuck @cc_closeRef_ccu_rl_stuck @cc_reqQueued_ccu_rl_stuck @cc_pending_ccu_rl_stuck @cc_connWindow_ccu_rl_stuck : cc.
#[export] Hint Rewrite @cc_streamWindow_ccu_rl_stuck @cc_inQ_ccu_rl_stuck @cc_outQ_ccu_rl_stuck @cc_winCh_ccu_rl_stuck @cc_lastErr_ccu_rl_stuck @cc_unacks_ccu_rl_stuck @cc_rl_done_ccu_rl_stuck @cc_wl_done_ccu_rl_stuck : cc.
#[export] Hint Rewrite @cc_rl_stuck_ccu_rl_stuck @cc_wl_stuck_ccu_rl_stuck @cc_out_ccu_rl_stuck @cc_ctxs_ccu_wl_stuck @cc_nextID_ccu_wl_stuck @cc_open_ccu_wl_stuck @cc_maxStreams_ccu_wl_stuck @cc_maxFrame_ccu_wl_stuck : cc.
#[export] Hint Rewrite @cc_goAway_ccu_wl_stuck @cc_closed_ccu_wl_stuck @cc_closing_ccu_wl_stuck @cc_netClosed_ccu_wl_stuck @cc_writeFail_ccu_wl_stuck @cc_enc_ccu_wl_stuck @cc_encTableSize_ccu_wl_stuck @cc_encTableSeen_ccu_wl_stuck : cc.
#[export] Hint Rewrite @cc_dec_ccu_wl_stuck @cc_currentWindow_ccu_wl_stuck @cc_serverS_ccu_wl_stuck @cc_hdrStream_ccu_wl_stuck @cc_hdrPrev_ccu_wl_stuck @cc_hdrFields_ccu_wl_stuck @cc_hdrEndStream_ccu_wl_stuck @cc_hdrRegularSeen_ccu_wl_stuck : cc.
#[export] Hint Rewrite @cc_hdrStatus_ccu_wl_stuck @cc_hdrErr_ccu_wl_stuck @cc_stateClosed_ccu_wl_stuck @cc_closeRef_ccu_wl_stuck @cc_reqQueued_ccu_wl_stuck @cc_pending_ccu_wl_stuck @cc_connWindow_ccu_wl_stuck @cc_streamWindow_ccu_wl_stuck : cc.
#[export] Hint Rewrite @cc_inQ_ccu_wl_stuck @cc_outQ_ccu_wl_stuck @cc_winCh_ccu_wl_stuck @cc_lastErr_ccu_wl_stuck @cc_unacks_ccu_wl_stuck @cc_rl_done_ccu_wl_stuck @cc_wl_done_ccu_wl_stuck @cc_rl_stuck_ccu_wl_stuck : cc.
#[export] Hint Rewrite @cc_wl_stuck_ccu_wl_stuck @cc_out_ccu_wl_stuck @cc_ctxs_ccu_out @cc_nextID_ccu_out @cc_open_ccu_out @cc_maxStreams_ccu_out @cc_maxFrame_ccu_out @cc_goAway_ccu_out : cc.
#[export] Hint Rewrite @cc_closed_ccu_out @cc_closing_ccu_out @cc_netClosed_ccu_out @cc_writeFail_ccu_out @cc_enc_ccu_out @cc_encTableSize_ccu_out @cc_encTableSeen_ccu_out @cc_dec_ccu_out : cc.
#[export] Hint Rewrite @cc_currentWindow_ccu_out @cc_serverS_ccu_out @cc_hdrStream_ccu_out @cc_hdrPrev_ccu_out @cc_hdrFields_ccu_out @cc_hdrEndStream_ccu_out @cc_hdrRegularSeen_ccu_out @cc_hdrStatus_ccu_out : cc.
#[export] Hint Rewrite @cc_hdrErr_ccu_out @cc_stateClosed_ccu_out @cc_closeRef_ccu_out @cc_reqQueued_ccu_out @cc_pending_ccu_out @cc_connWindow_ccu_out @cc_streamWindow_ccu_out @cc_inQ_ccu_out : cc.
#[export] Hint Rewrite @cc_outQ_ccu_out @cc_winCh_ccu_out @cc_lastErr_ccu_out @cc_unacks_ccu_out @cc_rl_done_ccu_out @cc_wl_done_ccu_out @cc_rl_stuck_ccu_out @cc_wl_stuck_ccu_out : cc.
#[export] Hint Rewrite @cc_out_ccu_out @cc_ctxs_cl_note @cc_nextID_cl_note @cc_open_cl_note @cc_maxStreams_cl_note @cc_maxFrame_cl_note @cc_goAway_cl_note @cc_closed_cl_note : cc.
#[export] Hint Rewrite @cc_closing_cl_note @cc_netClosed_cl_note @cc_writeFail_cl_note @cc_enc_cl_note @cc_encTableSize_cl_note @cc_encTableSeen_cl_note @cc_dec_cl_note @cc_currentWindow_cl_note : cc.
#[export] Hint Rewrite @cc_serverS_cl_note @cc_hdrStream_cl_note @cc_hdrPrev_cl_note @cc_hdrFields_cl_note @cc_hdrEndStream_cl_note @cc_hdrRegularSeen_cl_note @cc_hdrStatus_cl_note @cc_hdrErr_cl_note : cc.
#[export] Hint Rewrite @cc_stateClosed_cl_note @cc_closeRef_cl_note @cc_reqQueued_cl_note @cc_pending_cl_note @cc_connWindow_cl_note @cc_streamWindow_cl_note @cc_inQ_cl_note @cc_outQ_cl_note : cc.
#[export] Hint Rewrite @cc_winCh_cl_note @cc_lastErr_cl_note @cc_unacks_cl_note @cc_rl_done_cl_note @cc_wl_done_cl_note @cc_rl_stuck_cl_note @cc_wl_stuck_cl_note @cc_ctxs_cl_notes : cc.
#[export] Hint Rewrite @cc_nextID_cl_notes @cc_open_cl_notes @cc_maxStreams_cl_notes @cc_maxFrame_cl_notes @cc_goAway_cl_notes @cc_closed_cl_notes @cc_closing_cl_notes @cc_netClosed_cl_notes : cc.
#[export] Hint Rewrite @cc_writeFail_cl_notes @cc_enc_cl_notes @cc_encTableSize_cl_notes @cc_encTableSeen_cl_notes @cc_dec_cl_notes @cc_currentWindow_cl_notes @cc_serverS_cl_notes @cc_hdrStream_cl_notes : cc.
#[export] Hint Rewrite @cc_hdrPrev_cl_notes @cc_hdrFields_cl_notes @cc_hdrEndStream_cl_notes @cc_hdrRegularSeen_cl_notes @cc_hdrStatus_cl_notes @cc_hdrErr_cl_notes @cc_stateClosed_cl_notes @cc_closeRef_cl_notes : cc.
#[export] Hint Rewrite @cc_reqQueued_cl_notes @cc_pending_cl_notes @cc_connWindow_cl_notes @cc_streamWindow_cl_notes @cc_inQ_cl_notes @cc_outQ_cl_notes @cc_winCh_cl_notes @cc_lastErr_cl_notes : cc.
#[export] Hint Rewrite @cc_unacks_cl_notes @cc_rl_done_cl_notes @cc_wl_done_cl_notes @cc_rl_stuck_cl_notes @cc_wl_stuck_cl_notes @cc_nextID_cl_ctx_put @cc_open_cl_ctx_put @cc_maxStreams_cl_ctx_put : cc.
#[export] Hint Rewrite @cc_maxFrame_cl_ctx_put @cc_goAway_cl_ctx_put @cc_closed_cl_ctx_put @cc_closing_cl_ctx_put @cc_netClosed_cl_ctx_put @cc_writeFail_cl_ctx_put @cc_enc_cl_ctx_put @cc_encTableSize_cl_ctx_put : cc.
#[export] Hint Rewrite @cc_encTableSeen_cl_ctx_put @cc_dec_cl_ctx_put @cc_currentWindow_cl_ctx_put @cc_serverS_cl_ctx_put @cc_hdrStream_cl_ctx_put @cc_hdrPrev_cl_ctx_put @cc_hdrFields_cl_ctx_put @cc_hdrEndStream_cl_ctx_put : cc.
#[export] Hint Rewrite @cc_hdrRegularSeen_cl_ctx_put @cc_hdrStatus_cl_ctx_put @cc_hdrErr_cl_ctx_put @cc_stateClosed_cl_ctx_put @cc_closeRef_cl_ctx_put @cc_reqQueued_cl_ctx_put @cc_pending_cl_ctx_put @cc_connWindow_cl_ctx_put : cc.
#[export] Hint Rewrite @cc_streamWindow_cl_ctx_put @cc_inQ_cl_ctx_put @cc_outQ_cl_ctx_put @cc_winCh_cl_ctx_put @cc_lastErr_cl_ctx_put @cc_unacks_cl_ctx_put @cc_rl_done_cl_ctx_put @cc_wl_done_cl_ctx_put : cc.
#[export] Hint Rewrite @cc_rl_stuck_cl_ctx_put @cc_wl_stuck_cl_ctx_put @cc_out_cl_ctx_put @cc_nextID_cl_ctx_upd @cc_open_cl_ctx_upd @cc_maxStreams_cl_ctx_upd @cc_maxFrame_cl_ctx_upd @cc_goAway_cl_ctx_upd : cc.
#[export] Hint Rewrite @cc_closed_cl_ctx_upd @cc_closing_cl_ctx_upd @cc_netClosed_cl_ctx_upd @cc_writeFail_cl_ctx_upd @cc_enc_cl_ctx_upd @cc_encTableSize_cl_ctx_upd @cc_encTableSeen_cl_ctx_upd @cc_dec_cl_ctx_upd : cc.
#[export] Hint Rewrite @cc_currentWindow_cl_ctx_upd @cc_serverS_cl_ctx_upd @cc_hdrStream_cl_ctx_upd @cc_hdrPrev_cl_ctx_upd @cc_hdrFields_cl_ctx_upd @cc_hdrEndStream_cl_ctx_upd @cc_hdrRegularSeen_cl_ctx_upd @cc_hdrStatus_cl_ctx_upd : cc.
#[export] Hint Rewrite @cc_hdrErr_cl_ctx_upd @cc_stateClosed_cl_ctx_upd @cc_closeRef_cl_ctx_upd @cc_reqQueued_cl_ctx_upd @cc_pending_cl_ctx_upd @cc_connWindow_cl_ctx_upd @cc_streamWindow_cl_ctx_upd @cc_inQ_cl_ctx_upd : cc.
#[export] Hint Rewrite @cc_outQ_cl_ctx_upd @cc_winCh_cl_ctx_upd @cc_lastErr_cl_ctx_upd @cc_unacks_cl_ctx_upd @cc_rl_done_cl_ctx_upd @cc_wl_done_cl_ctx_upd @cc_rl_stuck_cl_ctx_upd @cc_wl_stuck_cl_ctx_upd : cc.
#[export] Hint Rewrite @cc_out_cl_ctx_upd @cc_nextID_cl_resolve @cc_open_cl_resolve @cc_maxStreams_cl_resolve @cc_maxFrame_cl_resolve @cc_goAway_cl_resolve @cc_closed_cl_resolve @cc_closing_cl_resolve : cc.
#[export] Hint Rewrite @cc_netClosed_cl_resolve @cc_writeFail_cl_resolve @cc_enc_cl_resolve @cc_encTableSize_cl_resolve @cc_encTableSeen_cl_resolve @cc_dec_cl_resolve @cc_currentWindow_cl_resolve @cc_serverS_cl_resolve : cc.
#[export] Hint Rewrite @cc_hdrStream_cl_resolve @cc_hdrPrev_cl_resolve @cc_hdrFields_cl_resolve @cc_hdrEndStream_cl_resolve @cc_hdrRegularSeen_cl_resolve @cc_hdrStatus_cl_resolve @cc_hdrErr_cl_resolve @cc_stateClosed_cl_resolve : cc.
#[export] Hint Rewrite @cc_closeRef_cl_resolve @cc_reqQueued_cl_resolve @cc_pending_cl_resolve @cc_connWindow_cl_resolve @cc_streamWindow_cl_resolve @cc_inQ_cl_resolve @cc_outQ_cl_resolve @cc_winCh_cl_resolve : cc.
#[export] Hint Rewrite @cc_lastErr_cl_resolve @cc_unacks_cl_resolve @cc_rl_done_cl_resolve @cc_wl_done_cl_resolve @cc_rl_stuck_cl_resolve @cc_wl_stuck_cl_resolve @cc_out_cl_resolve @cc_nextID_cl_resolve_all : cc.
#[export] Hint Rewrite @cc_open_cl_resolve_all @cc_maxStreams_cl_resolve_all @cc_maxFrame_cl_resolve_all @cc_goAway_cl_resolve_all @cc_closed_cl_resolve_all @cc_closing_cl_resolve_all @cc_netClosed_cl_resolve_all @cc_writeFail_cl_resolve_all : cc.
#[export] Hint Rewrite @cc_enc_cl_resolve_all @cc_encTableSize_cl_resolve_all @cc_encTableSeen_cl_resolve_all @cc_dec_cl_resolve_all @cc_currentWindow_cl_resolve_all @cc_serverS_cl_resolve_all @cc_hdrStream_cl_resolve_all @cc_hdrPrev_cl_resolve_all : cc.
#[export] Hint Rewrite @cc_hdrFields_cl_resolve_all @cc_hdrEndStream_cl_resolve_all @cc_hdrRegularSeen_cl_resolve_all @cc_hdrStatus_cl_resolve_all @cc_hdrErr_cl_resolve_all @cc_stateClosed_cl_resolve_all @cc_closeRef_cl_resolve_all @cc_reqQueued_cl_resolve_all : cc.
#[export] Hint Rewrite @cc_pending_cl_resolve_all @cc_connWindow_cl_resolve_all @cc_streamWindow_cl_resolve_all @cc_inQ_cl_resolve_all @cc_outQ_cl_resolve_all @cc_winCh_cl_resolve_all @cc_lastErr_cl_resolve_all @cc_unacks_cl_resolve_all : cc.
#[export] Hint Rewrite @cc_rl_done_cl_resolve_all @cc_wl_done_cl_resolve_all @cc_rl_stuck_cl_resolve_all @cc_wl_stuck_cl_resolve_all @cc_out_cl_resolve_all @cc_ctxs_cl_set_last_err @cc_nextID_cl_set_last_err @cc_open_cl_set_last_err : cc.
#[export] Hint Rewrite @cc_maxStreams_cl_set_last_err @cc_maxFrame_cl_set_last_err @cc_goAway_cl_set_last_err @cc_closed_cl_set_last_err @cc_closing_cl_set_last_err @cc_netClosed_cl_set_last_err @cc_writeFail_cl_set_last_err @cc_enc_cl_set_last_err : cc.
#[export] Hint Rewrite @cc_encTableSize_cl_set_last_err @cc_encTableSeen_cl_set_last_err @cc_dec_cl_set_last_err @cc_currentWindow_cl_set_last_err @cc_serverS_cl_set_last_err @cc_hdrStream_cl_set_last_err @cc_hdrPrev_cl_set_last_err @cc_hdrFields_cl_set_last_err : cc.
#[export] Hint Rewrite @cc_hdrEndStream_cl_set_last_err @cc_hdrRegularSeen_cl_set_last_err @cc_hdrStatus_cl_set_last_err @cc_hdrErr_cl_set_last_err @cc_stateClosed_cl_set_last_err @cc_closeRef_cl_set_last_err @cc_reqQueued_cl_set_last_err @cc_pending_cl_set_last_err : cc.
#[export] Hint Rewrite @cc_connWindow_cl_set_last_err @cc_streamWindow_cl_set_last_err @cc_inQ_cl_set_last_err @cc_outQ_cl_set_last_err @cc_winCh_cl_set_last_err @cc_unacks_cl_set_last_err @cc_rl_done_cl_set_last_err @cc_wl_done_cl_set_last_err : cc.
#[export] Hint Rewrite @cc_rl_stuck_cl_set_last_err @cc_wl_stuck_cl_set_last_err @cc_out_cl_set_last_err @cc_ctxs_cl_req_del @cc_nextID_cl_req_del @cc_open_cl_req_del @cc_maxStreams_cl_req_del @cc_maxFrame_cl_req_del : cc.
#[export] Hint Rewrite @cc_goAway_cl_req_del @cc_closed_cl_req_del @cc_closing_cl_req_del @cc_netClosed_cl_req_del @cc_writeFail_cl_req_del @cc_enc_cl_req_del @cc_encTableSize_cl_req_del @cc_encTableSeen_cl_req_del : cc.
#[export] Hint Rewrite @cc_dec_cl_req_del @cc_currentWindow_cl_req_del @cc_serverS_cl_req_del @cc_hdrStream_cl_req_del @cc_hdrPrev_cl_req_del @cc_hdrFields_cl_req_del @cc_hdrEndStream_cl_req_del @cc_hdrRegularSeen_cl_req_del : cc.
#[export] Hint Rewrite @cc_hdrStatus_cl_req_del @cc_hdrErr_cl_req_del @cc_stateClosed_cl_req_del @cc_closeRef_cl_req_del @cc_pending_cl_req_del @cc_connWindow_cl_req_del @cc_streamWindow_cl_req_del @cc_inQ_cl_req_del : cc.
#[export] Hint Rewrite @cc_outQ_cl_req_del @cc_winCh_cl_req_del @cc_lastErr_cl_req_del @cc_unacks_cl_req_del @cc_rl_done_cl_req_del @cc_wl_done_cl_req_del @cc_rl_stuck_cl_req_del @cc_wl_stuck_cl_req_del : cc.
#[export] Hint Rewrite @cc_out_cl_req_del @cc_ctxs_cl_take_req_count @cc_nextID_cl_take_req_count @cc_maxStreams_cl_take_req_count @cc_maxFrame_cl_take_req_count @cc_goAway_cl_take_req_count @cc_closed_cl_take_req_count @cc_closing_cl_take_req_count : cc.
#[export] Hint Rewrite @cc_netClosed_cl_take_req_count @cc_writeFail_cl_take_req_count @cc_enc_cl_take_req_count @cc_encTableSize_cl_take_req_count @cc_encTableSeen_cl_take_req_count @cc_dec_cl_take_req_count @cc_currentWindow_cl_take_req_count @cc_serverS_cl_take_req_count : cc.
#[export] Hint Rewrite @cc_hdrStream_cl_take_req_count @cc_hdrPrev_cl_take_req_count @cc_hdrFields_cl_take_req_count @cc_hdrEndStream_cl_take_req_count @cc_hdrRegularSeen_cl_take_req_count @cc_hdrStatus_cl_take_req_count @cc_hdrErr_cl_take_req_count @cc_stateClosed_cl_take_req_count : cc.
#[export] Hint Rewrite @cc_closeRef_cl_take_req_count @cc_pending_cl_take_req_count @cc_connWindow_cl_take_req_count @cc_streamWindow_cl_take_req_count @cc_inQ_cl_take_req_count @cc_outQ_cl_take_req_count @cc_winCh_cl_take_req_count @cc_lastErr_cl_take_req_count : cc.
#[export] Hint Rewrite @cc_unacks_cl_take_req_count @cc_rl_done_cl_take_req_count @cc_wl_done_cl_take_req_count @cc_rl_stuck_cl_take_req_count @cc_wl_stuck_cl_take_req_count @cc_out_cl_take_req_count @cc_ctxs_cl_write_out @cc_nextID_cl_write_out : cc.
#[export] Hint Rewrite @cc_open_cl_write_out @cc_maxStreams_cl_write_out @cc_maxFrame_cl_write_out @cc_goAway_cl_write_out @cc_closed_cl_write_out @cc_closing_cl_write_out @cc_netClosed_cl_write_out @cc_writeFail_cl_write_out : cc.
#[export] Hint Rewrite @cc_enc_cl_write_out @cc_encTableSize_cl_write_out @cc_encTableSeen_cl_write_out @cc_dec_cl_write_out @cc_currentWindow_cl_write_out @cc_serverS_cl_write_out @cc_hdrStream_cl_write_out @cc_hdrPrev_cl_write_out : cc.
#[export] Hint Rewrite @cc_hdrFields_cl_write_out @cc_hdrEndStream_cl_write_out @cc_hdrRegularSeen_cl_write_out @cc_hdrStatus_cl_write_out @cc_hdrErr_cl_write_out @cc_stateClosed_cl_write_out @cc_closeRef_cl_write_out @cc_reqQueued_cl_write_out : cc.
#[export] Hint Rewrite @cc_pending_cl_write_out @cc_connWindow_cl_write_out @cc_streamWindow_cl_write_out @cc_inQ_cl_write_out @cc_winCh_cl_write_out @cc_lastErr_cl_write_out @cc_unacks_cl_write_out @cc_rl_done_cl_write_out : cc.
#[export] Hint Rewrite @cc_wl_done_cl_write_out @cc_rl_stuck_cl_write_out @cc_wl_stuck_cl_write_out @cc_out_cl_write_out @cc_ctxs_cl_signal_window @cc_nextID_cl_signal_window @cc_open_cl_signal_window @cc_maxStreams_cl_signal_window : cc.
#[export] Hint Rewrite @cc_maxFrame_cl_signal_window @cc_goAway_cl_signal_window @cc_closed_cl_signal_window @cc_closing_cl_signal_window @cc_netClosed_cl_signal_window @cc_writeFail_cl_signal_window @cc_enc_cl_signal_window @cc_encTableSize_cl_signal_window : cc.
#[export] Hint Rewrite @cc_encTableSeen_cl_signal_window @cc_dec_cl_signal_window @cc_currentWindow_cl_signal_window @cc_serverS_cl_signal_window @cc_hdrStream_cl_signal_window @cc_hdrPrev_cl_signal_window @cc_hdrFields_cl_signal_window @cc_hdrEndStream_cl_signal_window : cc.
#[export] Hint Rewrite @cc_hdrRegularSeen_cl_signal_window @cc_hdrStatus_cl_signal_window @cc_hdrErr_cl_signal_window @cc_stateClosed_cl_signal_window @cc_closeRef_cl_signal_window @cc_reqQueued_cl_signal_window @cc_pending_cl_signal_window @cc_connWindow_cl_signal_window : cc.
#[export] Hint Rewrite @cc_streamWindow_cl_signal_window @cc_inQ_cl_signal_window @cc_outQ_cl_signal_window @cc_lastErr_cl_signal_window @cc_unacks_cl_signal_window @cc_rl_done_cl_signal_window @cc_wl_done_cl_signal_window @cc_rl_stuck_cl_signal_window : cc.
#[export] Hint Rewrite @cc_wl_stuck_cl_signal_window @cc_out_cl_signal_window @cc_ctxs_cl_close_begin @cc_nextID_cl_close_begin @cc_open_cl_close_begin @cc_maxStreams_cl_close_begin @cc_maxFrame_cl_close_begin @cc_goAway_cl_close_begin : cc.
#[export] Hint Rewrite @cc_closing_cl_close_begin @cc_netClosed_cl_close_begin @cc_writeFail_cl_close_begin @cc_enc_cl_close_begin @cc_encTableSize_cl_close_begin @cc_encTableSeen_cl_close_begin @cc_dec_cl_close_begin @cc_currentWindow_cl_close_begin : cc.
#[export] Hint Rewrite @cc_serverS_cl_close_begin @cc_hdrStream_cl_close_begin @cc_hdrPrev_cl_close_begin @cc_hdrFields_cl_close_begin @cc_hdrEndStream_cl_close_begin @cc_hdrRegularSeen_cl_close_begin @cc_hdrStatus_cl_close_begin @cc_hdrErr_cl_close_begin : cc.
#[export] Hint Rewrite @cc_stateClosed_cl_close_begin @cc_closeRef_cl_close_begin @cc_reqQueued_cl_close_begin @cc_pending_cl_close_begin @cc_connWindow_cl_close_begin @cc_streamWindow_cl_close_begin @cc_inQ_cl_close_begin @cc_outQ_cl_close_begin : cc.
#[export] Hint Rewrite @cc_winCh_cl_close_begin @cc_lastErr_cl_close_begin @cc_unacks_cl_close_begin @cc_rl_done_cl_close_begin @cc_wl_done_cl_close_begin @cc_rl_stuck_cl_close_begin @cc_wl_stuck_cl_close_begin @cc_out_cl_close_begin : cc.
#[export] Hint Rewrite @cc_ctxs_cl_close_net @cc_nextID_cl_close_net @cc_open_cl_close_net @cc_maxStreams_cl_close_net @cc_maxFrame_cl_close_net @cc_goAway_cl_close_net @cc_closed_cl_close_net @cc_closing_cl_close_net : cc.
#[export] Hint Rewrite @cc_writeFail_cl_close_net @cc_enc_cl_close_net @cc_encTableSize_cl_close_net @cc_encTableSeen_cl_close_net @cc_dec_cl_close_net @cc_currentWindow_cl_close_net @cc_serverS_cl_close_net @cc_hdrStream_cl_close_net : cc.
#[export] Hint Rewrite @cc_hdrPrev_cl_close_net @cc_hdrFields_cl_close_net @cc_hdrEndStream_cl_close_net @cc_hdrRegularSeen_cl_close_net @cc_hdrStatus_cl_close_net @cc_hdrErr_cl_close_net @cc_stateClosed_cl_close_net @cc_closeRef_cl_close_net : cc.
#[export] Hint Rewrite @cc_reqQueued_cl_close_net @cc_pending_cl_close_net @cc_connWindow_cl_close_net @cc_streamWindow_cl_close_net @cc_inQ_cl_close_net @cc_outQ_cl_close_net @cc_winCh_cl_close_net @cc_lastErr_cl_close_net : cc.
#[export] Hint Rewrite @cc_unacks_cl_close_net @cc_rl_done_cl_close_net @cc_wl_done_cl_close_net @cc_rl_stuck_cl_close_net @cc_wl_stuck_cl_close_net @cc_ctxs_cl_conn_close @cc_nextID_cl_conn_close @cc_open_cl_conn_close : cc.
#[export] Hint Rewrite @cc_maxStreams_cl_conn_close @cc_maxFrame_cl_conn_close @cc_goAway_cl_conn_close @cc_closing_cl_conn_close @cc_writeFail_cl_conn_close @cc_enc_cl_conn_close @cc_encTableSize_cl_conn_close @cc_encTableSeen_cl_conn_close : cc.
#[export] Hint Rewrite @cc_dec_cl_conn_close @cc_currentWindow_cl_conn_close @cc_serverS_cl_conn_close @cc_hdrStream_cl_conn_close @cc_hdrPrev_cl_conn_close @cc_hdrFields_cl_conn_close @cc_hdrEndStream_cl_conn_close @cc_hdrRegularSeen_cl_conn_close : cc.
#[export] Hint Rewrite @cc_hdrStatus_cl_conn_close @cc_hdrErr_cl_conn_close @cc_stateClosed_cl_conn_close @cc_closeRef_cl_conn_close @cc_reqQueued_cl_conn_close @cc_pending_cl_conn_close @cc_connWindow_cl_conn_close @cc_streamWindow_cl_conn_close : cc.
#[export] Hint Rewrite @cc_inQ_cl_conn_close @cc_outQ_cl_conn_close @cc_winCh_cl_conn_close @cc_lastErr_cl_conn_close @cc_unacks_cl_conn_close @cc_rl_done_cl_conn_close @cc_wl_done_cl_conn_close @cc_rl_stuck_cl_conn_close : cc.
#[export] Hint Rewrite @cc_wl_stuck_cl_conn_close @cc_nextID_cl_go_stuck @cc_open_cl_go_stuck @cc_maxStreams_cl_go_stuck @cc_maxFrame_cl_go_stuck @cc_goAway_cl_go_stuck @cc_closed_cl_go_stuck @cc_closing_cl_go_stuck : cc.
#[export] Hint Rewrite @cc_netClosed_cl_go_stuck @cc_writeFail_cl_go_stuck @cc_enc_cl_go_stuck @cc_encTableSize_cl_go_stuck @cc_encTableSeen_cl_go_stuck @cc_dec_cl_go_stuck @cc_currentWindow_cl_go_stuck @cc_serverS_cl_go_stuck : cc.
#[export] Hint Rewrite @cc_hdrStream_cl_go_stuck @cc_hdrPrev_cl_go_stuck @cc_hdrFields_cl_go_stuck @cc_hdrEndStream_cl_go_stuck @cc_hdrRegularSeen_cl_go_stuck @cc_hdrStatus_cl_go_stuck @cc_hdrErr_cl_go_stuck @cc_stateClosed_cl_go_stuck : cc.
#[export] Hint Rewrite @cc_closeRef_cl_go_stuck @cc_reqQueued_cl_go_stuck @cc_pending_cl_go_stuck @cc_connWindow_cl_go_stuck @cc_streamWindow_cl_go_stuck @cc_inQ_cl_go_stuck @cc_outQ_cl_go_stuck @cc_winCh_cl_go_stuck : cc.
#[export] Hint Rewrite @cc_lastErr_cl_go_stuck @cc_unacks_cl_go_stuck @cc_rl_done_cl_go_stuck @cc_wl_done_cl_go_stuck @cc_nextID_cl_close_body @cc_open_cl_close_body @cc_maxStreams_cl_close_body @cc_maxFrame_cl_close_body : cc.
#[export] Hint Rewrite @cc_goAway_cl_close_body @cc_closed_cl_close_body @cc_closing_cl_close_body @cc_netClosed_cl_close_body @cc_writeFail_cl_close_body @cc_enc_cl_close_body @cc_encTableSize_cl_close_body @cc_encTableSeen_cl_close_body : cc.
#[export] Hint Rewrite @cc_dec_cl_close_body @cc_currentWindow_cl_close_body @cc_serverS_cl_close_body @cc_hdrStream_cl_close_body @cc_hdrPrev_cl_close_body @cc_hdrFields_cl_close_body @cc_hdrEndStream_cl_close_body @cc_hdrRegularSeen_cl_close_body : cc.
#[export] Hint Rewrite @cc_hdrStatus_cl_close_body @cc_hdrErr_cl_close_body @cc_stateClosed_cl_close_body @cc_closeRef_cl_close_body @cc_reqQueued_cl_close_body @cc_pending_cl_close_body @cc_connWindow_cl_close_body @cc_streamWindow_cl_close_body : cc.
#[export] Hint Rewrite @cc_inQ_cl_close_body @cc_outQ_cl_close_body @cc_winCh_cl_close_body @cc_lastErr_cl_close_body @cc_unacks_cl_close_body @cc_rl_done_cl_close_body @cc_wl_done_cl_close_body @cc_rl_stuck_cl_close_body : cc.
#[export] Hint Rewrite @cc_wl_stuck_cl_close_body @cc_nextID_cl_delete_pending @cc_open_cl_delete_pending @cc_maxStreams_cl_delete_pending @cc_maxFrame_cl_delete_pending @cc_goAway_cl_delete_pending @cc_closed_cl_delete_pending @cc_closing_cl_delete_pending : cc.
#[export] Hint Rewrite @cc_netClosed_cl_delete_pending @cc_writeFail_cl_delete_pending @cc_enc_cl_delete_pending @cc_encTableSize_cl_delete_pending @cc_encTableSeen_cl_delete_pending @cc_dec_cl_delete_pending @cc_currentWindow_cl_delete_pending @cc_serverS_cl_delete_pending : cc.
#[export] Hint Rewrite @cc_hdrStream_cl_delete_pending @cc_hdrPrev_cl_delete_pending @cc_hdrFields_cl_delete_pending @cc_hdrEndStream_cl_delete_pending @cc_hdrRegularSeen_cl_delete_pending @cc_hdrStatus_cl_delete_pending @cc_hdrErr_cl_delete_pending @cc_stateClosed_cl_delete_pending : cc.
#[export] Hint Rewrite @cc_closeRef_cl_delete_pending @cc_reqQueued_cl_delete_pending @cc_connWindow_cl_delete_pending @cc_streamWindow_cl_delete_pending @cc_inQ_cl_delete_pending @cc_outQ_cl_delete_pending @cc_winCh_cl_delete_pending @cc_lastErr_cl_delete_pending : cc.
#[export] Hint Rewrite @cc_unacks_cl_delete_pending @cc_rl_done_cl_delete_pending @cc_wl_done_cl_delete_pending @cc_ctxs_cl_cancel_stream @cc_nextID_cl_cancel_stream @cc_open_cl_cancel_stream @cc_maxStreams_cl_cancel_stream @cc_maxFrame_cl_cancel_stream : cc.
#[export] Hint Rewrite @cc_goAway_cl_cancel_stream @cc_closed_cl_cancel_stream @cc_closing_cl_cancel_stream @cc_netClosed_cl_cancel_stream @cc_writeFail_cl_cancel_stream @cc_enc_cl_cancel_stream @cc_encTableSize_cl_cancel_stream @cc_encTableSeen_cl_cancel_stream : cc.
#[export] Hint Rewrite @cc_dec_cl_cancel_stream @cc_currentWindow_cl_cancel_stream @cc_serverS_cl_cancel_stream @cc_hdrStream_cl_cancel_stream @cc_hdrPrev_cl_cancel_stream @cc_hdrFields_cl_cancel_stream @cc_hdrEndStream_cl_cancel_stream @cc_hdrRegularSeen_cl_cancel_stream : cc.
#[export] Hint Rewrite @cc_hdrStatus_cl_cancel_stream @cc_hdrErr_cl_cancel_stream @cc_stateClosed_cl_cancel_stream @cc_closeRef_cl_cancel_stream @cc_reqQueued_cl_cancel_stream @cc_pending_cl_cancel_stream @cc_connWindow_cl_cancel_stream @cc_streamWindow_cl_cancel_stream : cc.
#[export] Hint Rewrite @cc_inQ_cl_cancel_stream @cc_winCh_cl_cancel_stream @cc_lastErr_cl_cancel_stream @cc_unacks_cl_cancel_stream @cc_rl_done_cl_cancel_stream @cc_wl_done_cl_cancel_stream @cc_rl_stuck_cl_cancel_stream @cc_wl_stuck_cl_cancel_stream : cc.
#[export] Hint Rewrite @cc_out_cl_cancel_stream @cc_ctxs_cl_apply_initial_window @cc_nextID_cl_apply_initial_window @cc_open_cl_apply_initial_window @cc_maxStreams_cl_apply_initial_window @cc_maxFrame_cl_apply_initial_window @cc_goAway_cl_apply_initial_window @cc_closed_cl_apply_initial_window : cc.
#[export] Hint Rewrite @cc_closing_cl_apply_initial_window @cc_netClosed_cl_apply_initial_window @cc_writeFail_cl_apply_initial_window @cc_enc_cl_apply_initial_window @cc_encTableSize_cl_apply_initial_window @cc_encTableSeen_cl_apply_initial_window @cc_dec_cl_apply_initial_window @cc_currentWindow_cl_apply_initial_window : cc.
#[export] Hint Rewrite @cc_serverS_cl_apply_initial_window @cc_hdrStream_cl_apply_initial_window @cc_hdrPrev_cl_apply_initial_window @cc_hdrFields_cl_apply_initial_window @cc_hdrEndStream_cl_apply_initial_window @cc_hdrRegularSeen_cl_apply_initial_window @cc_hdrStatus_cl_apply_initial_window @cc_hdrErr_cl_apply_initial_window : cc.
#[export] Hint Rewrite @cc_stateClosed_cl_apply_initial_window @cc_closeRef_cl_apply_initial_window @cc_reqQueued_cl_apply_initial_window @cc_connWindow_cl_apply_initial_window @cc_inQ_cl_apply_initial_window @cc_outQ_cl_apply_initial_window @cc_lastErr_cl_apply_initial_window @cc_unacks_cl_apply_initial_window : cc.
#[export] Hint Rewrite @cc_rl_done_cl_apply_initial_window @cc_wl_done_cl_apply_initial_window @cc_rl_stuck_cl_apply_initial_window @cc_wl_stuck_cl_apply_initial_window @cc_out_cl_apply_initial_window @cc_ctxs_cl_add_window @cc_nextID_cl_add_window @cc_open_cl_add_window : cc.
#[export] Hint Rewrite @cc_maxStreams_cl_add_window @cc_maxFrame_cl_add_window @cc_goAway_cl_add_window @cc_closed_cl_add_window @cc_closing_cl_add_window @cc_netClosed_cl_add_window @cc_writeFail_cl_add_window @cc_enc_cl_add_window : cc.
#[export] Hint Rewrite @cc_encTableSize_cl_add_window @cc_encTableSeen_cl_add_window @cc_dec_cl_add_window @cc_currentWindow_cl_add_window @cc_serverS_cl_add_window @cc_hdrStream_cl_add_window @cc_hdrPrev_cl_add_window @cc_hdrFields_cl_add_window : cc.
#[export] Hint Rewrite @cc_hdrEndStream_cl_add_window @cc_hdrRegularSeen_cl_add_window @cc_hdrStatus_cl_add_window @cc_hdrErr_cl_add_window @cc_stateClosed_cl_add_window @cc_closeRef_cl_add_window @cc_reqQueued_cl_add_window @cc_streamWindow_cl_add_window : cc.
#[export] Hint Rewrite @cc_inQ_cl_add_window @cc_outQ_cl_add_window @cc_lastErr_cl_add_window @cc_unacks_cl_add_window @cc_rl_done_cl_add_window @cc_wl_done_cl_add_window @cc_rl_stuck_cl_add_window @cc_wl_stuck_cl_add_window : cc.
#[export] Hint Rewrite @cc_out_cl_add_window @cc_ctxs_cl_update_window @cc_nextID_cl_update_window @cc_open_cl_update_window @cc_maxStreams_cl_update_window @cc_maxFrame_cl_update_window @cc_goAway_cl_update_window @cc_closed_cl_update_window : cc.
#[export] Hint Rewrite @cc_closing_cl_update_window @cc_netClosed_cl_update_window @cc_writeFail_cl_update_window @cc_enc_cl_update_window @cc_encTableSize_cl_update_window @cc_encTableSeen_cl_update_window @cc_dec_cl_update_window @cc_currentWindow_cl_update_window : cc.
#[export] Hint Rewrite @cc_serverS_cl_update_window @cc_hdrStream_cl_update_window @cc_hdrPrev_cl_update_window @cc_hdrFields_cl_update_window @cc_hdrEndStream_cl_update_window @cc_hdrRegularSeen_cl_update_window @cc_hdrStatus_cl_update_window @cc_hdrErr_cl_update_window : cc.
#[export] Hint Rewrite @cc_stateClosed_cl_update_window @cc_closeRef_cl_update_window @cc_reqQueued_cl_update_window @cc_pending_cl_update_window @cc_connWindow_cl_update_window @cc_streamWindow_cl_update_window @cc_inQ_cl_update_window @cc_winCh_cl_update_window : cc.
#[export] Hint Rewrite @cc_lastErr_cl_update_window @cc_unacks_cl_update_window @cc_rl_done_cl_update_window @cc_wl_done_cl_update_window @cc_rl_stuck_cl_update_window @cc_wl_stuck_cl_update_window @cc_out_cl_update_window @cc_ctxs_cl_handle_settings : cc.
#[export] Hint Rewrite @cc_nextID_cl_handle_settings @cc_open_cl_handle_settings @cc_goAway_cl_handle_settings @cc_closed_cl_handle_settings @cc_closing_cl_handle_settings @cc_netClosed_cl_handle_settings @cc_writeFail_cl_handle_settings @cc_enc_cl_handle_settings : cc.
#[export] Hint Rewrite @cc_encTableSeen_cl_handle_settings @cc_dec_cl_handle_settings @cc_currentWindow_cl_handle_settings @cc_hdrStream_cl_handle_settings @cc_hdrPrev_cl_handle_settings @cc_hdrFields_cl_handle_settings @cc_hdrEndStream_cl_handle_settings @cc_hdrRegularSeen_cl_handle_settings : cc.
#[export] Hint Rewrite @cc_hdrStatus_cl_handle_settings @cc_hdrErr_cl_handle_settings @cc_stateClosed_cl_handle_settings @cc_closeRef_cl_handle_settings @cc_reqQueued_cl_handle_settings @cc_connWindow_cl_handle_settings @cc_inQ_cl_handle_settings @cc_lastErr_cl_handle_settings : cc.
#[export] Hint Rewrite @cc_unacks_cl_handle_settings @cc_rl_done_cl_handle_settings @cc_wl_done_cl_handle_settings @cc_rl_stuck_cl_handle_settings @cc_wl_stuck_cl_handle_settings @cc_out_cl_handle_settings @cc_nextID_cl_finish @cc_maxStreams_cl_finish : cc.
#[export] Hint Rewrite @cc_maxFrame_cl_finish @cc_goAway_cl_finish @cc_closed_cl_finish @cc_closing_cl_finish @cc_netClosed_cl_finish @cc_writeFail_cl_finish @cc_enc_cl_finish @cc_encTableSize_cl_finish : cc.
#[export] Hint Rewrite @cc_encTableSeen_cl_finish @cc_dec_cl_finish @cc_currentWindow_cl_finish @cc_serverS_cl_finish @cc_hdrStream_cl_finish @cc_hdrPrev_cl_finish @cc_hdrFields_cl_finish @cc_hdrEndStream_cl_finish : cc.
#[export] Hint Rewrite @cc_hdrRegularSeen_cl_finish @cc_hdrStatus_cl_finish @cc_hdrErr_cl_finish @cc_stateClosed_cl_finish @cc_closeRef_cl_finish @cc_connWindow_cl_finish @cc_streamWindow_cl_finish @cc_inQ_cl_finish : cc.
#[export] Hint Rewrite @cc_outQ_cl_finish @cc_winCh_cl_finish @cc_lastErr_cl_finish @cc_unacks_cl_finish @cc_rl_done_cl_finish @cc_wl_done_cl_finish @cc_rl_stuck_cl_finish @cc_wl_stuck_cl_finish : cc.
#[export] Hint Rewrite ct_tag_ctu_tag ct_req_ctu_tag ct_resp_ctu_tag ct_sid_ctu_tag ct_conn_ctu_tag ct_done_ctu_tag ct_resolved_ctu_tag ct_finished_ctu_tag : cc.
#[export] Hint Rewrite ct_err_ctu_tag ct_armed_ctu_tag ct_fired_ctu_tag ct_cancelled_ctu_tag ct_gotStatus_ctu_tag ct_bodyClosed_ctu_tag ct_writing_ctu_tag ct_returned_ctu_tag : cc.
#[export] Hint Rewrite ct_pooled_ctu_tag ct_lckStuck_ctu_tag ct_tag_ctu_req ct_req_ctu_req ct_resp_ctu_req ct_sid_ctu_req ct_conn_ctu_req ct_done_ctu_req : cc.
#[export] Hint Rewrite ct_resolved_ctu_req ct_finished_ctu_req ct_err_ctu_req ct_armed_ctu_req ct_fired_ctu_req ct_cancelled_ctu_req ct_gotStatus_ctu_req ct_bodyClosed_ctu_req : cc.
#[export] Hint Rewrite ct_writing_ctu_req ct_returned_ctu_req ct_pooled_ctu_req ct_lckStuck_ctu_req ct_tag_ctu_resp ct_req_ctu_resp ct_resp_ctu_resp ct_sid_ctu_resp : cc.
#[export] Hint Rewrite ct_conn_ctu_resp ct_done_ctu_resp ct_resolved_ctu_resp ct_finished_ctu_resp ct_err_ctu_resp ct_armed_ctu_resp ct_fired_ctu_resp ct_cancelled_ctu_resp : cc.
#[export] Hint Rewrite ct_gotStatus_ctu_resp ct_bodyClosed_ctu_resp ct_writing_ctu_resp ct_returned_ctu_resp ct_pooled_ctu_resp ct_lckStuck_ctu_resp ct_tag_ctu_sid ct_req_ctu_sid : cc.
#[export] Hint Rewrite ct_resp_ctu_sid ct_sid_ctu_sid ct_conn_ctu_sid ct_done_ctu_sid ct_resolved_ctu_sid ct_finished_ctu_sid ct_err_ctu_sid ct_armed_ctu_sid : cc.
#[export] Hint Rewrite ct_fired_ctu_sid ct_cancelled_ctu_sid ct_gotStatus_ctu_sid ct_bodyClosed_ctu_sid ct_writing_ctu_sid ct_returned_ctu_sid ct_pooled_ctu_sid ct_lckStuck_ctu_sid : cc.
#[export] Hint Rewrite ct_tag_ctu_conn ct_req_ctu_conn ct_resp_ctu_conn ct_sid_ctu_conn ct_conn_ctu_conn ct_done_ctu_conn ct_resolved_ctu_conn ct_finished_ctu_conn : cc.
#[export] Hint Rewrite ct_err_ctu_conn ct_armed_ctu_conn ct_fired_ctu_conn ct_cancelled_ctu_conn ct_gotStatus_ctu_conn ct_bodyClosed_ctu_conn ct_writing_ctu_conn ct_returned_ctu_conn : cc.
#[export] Hint Rewrite ct_pooled_ctu_conn ct_lckStuck_ctu_conn ct_tag_ctu_done ct_req_ctu_done ct_resp_ctu_done ct_sid_ctu_done ct_conn_ctu_done ct_done_ctu_done : cc.
#[export] Hint Rewrite ct_resolved_ctu_done ct_finished_ctu_done ct_err_ctu_done ct_armed_ctu_done ct_fired_ctu_done ct_cancelled_ctu_done ct_gotStatus_ctu_done ct_bodyClosed_ctu_done : cc.
#[export] Hint Rewrite ct_writing_ctu_done ct_returned_ctu_done ct_pooled_ctu_done ct_lckStuck_ctu_done ct_tag_ctu_resolved ct_req_ctu_resolved ct_resp_ctu_resolved ct_sid_ctu_resolved : cc.
#[export] Hint Rewrite ct_conn_ctu_resolved ct_done_ctu_resolved ct_resolved_ctu_resolved ct_finished_ctu_resolved ct_err_ctu_resolved ct_armed_ctu_resolved ct_fired_ctu_resolved ct_cancelled_ctu_resolved : cc.
#[export] Hint Rewrite ct_gotStatus_ctu_resolved ct_bodyClosed_ctu_resolved ct_writing_ctu_resolved ct_returned_ctu_resolved ct_pooled_ctu_resolved ct_lckStuck_ctu_resolved ct_tag_ctu_finished ct_req_ctu_finished : cc.
#[export] Hint Rewrite ct_resp_ctu_finished ct_sid_ctu_finished ct_conn_ctu_finished ct_done_ctu_finished ct_resolved_ctu_finished ct_finished_ctu_finished ct_err_ctu_finished ct_armed_ctu_finished : cc.
#[export] Hint Rewrite ct_fired_ctu_finished ct_cancelled_ctu_finished ct_gotStatus_ctu_finished ct_bodyClosed_ctu_finished ct_writing_ctu_finished ct_returned_ctu_finished ct_pooled_ctu_finished ct_lckStuck_ctu_finished : cc.
#[export] Hint Rewrite ct_tag_ctu_err ct_req_ctu_err ct_resp_ctu_err ct_sid_ctu_err ct_conn_ctu_err ct_done_ctu_err ct_resolved_ctu_err ct_finished_ctu_err : cc.
#[export] Hint Rewrite ct_err_ctu_err ct_armed_ctu_err ct_fired_ctu_err ct_cancelled_ctu_err ct_gotStatus_ctu_err ct_bodyClosed_ctu_err ct_writing_ctu_err ct_returned_ctu_err : cc.
#[export] Hint Rewrite ct_pooled_ctu_err ct_lckStuck_ctu_err ct_tag_ctu_armed ct_req_ctu_armed ct_resp_ctu_armed ct_sid_ctu_armed ct_conn_ctu_armed ct_done_ctu_armed : cc.
#[export] Hint Rewrite ct_resolved_ctu_armed ct_finished_ctu_armed ct_err_ctu_armed ct_armed_ctu_armed ct_fired_ctu_armed ct_cancelled_ctu_armed ct_gotStatus_ctu_armed ct_bodyClosed_ctu_armed : cc.
#[export] Hint Rewrite ct_writing_ctu_armed ct_returned_ctu_armed ct_pooled_ctu_armed ct_lckStuck_ctu_armed ct_tag_ctu_fired ct_req_ctu_fired ct_resp_ctu_fired ct_sid_ctu_fired : cc.
#[export] Hint Rewrite ct_conn_ctu_fired ct_done_ctu_fired ct_resolved_ctu_fired ct_finished_ctu_fired ct_err_ctu_fired ct_armed_ctu_fired ct_fired_ctu_fired ct_cancelled_ctu_fired : cc.
#[export] Hint Rewrite ct_gotStatus_ctu_fired ct_bodyClosed_ctu_fired ct_writing_ctu_fired ct_returned_ctu_fired ct_pooled_ctu_fired ct_lckStuck_ctu_fired ct_tag_ctu_cancelled ct_req_ctu_cancelled : cc.
#[export] Hint Rewrite ct_resp_ctu_cancelled ct_sid_ctu_cancelled ct_conn_ctu_cancelled ct_done_ctu_cancelled ct_resolved_ctu_cancelled ct_finished_ctu_cancelled ct_err_ctu_cancelled ct_armed_ctu_cancelled : cc.
#[export] Hint Rewrite ct_fired_ctu_cancelled ct_cancelled_ctu_cancelled ct_gotStatus_ctu_cancelled ct_bodyClosed_ctu_cancelled ct_writing_ctu_cancelled ct_returned_ctu_cancelled ct_pooled_ctu_cancelled ct_lckStuck_ctu_cancelled : cc.
#[export] Hint Rewrite ct_tag_ctu_gotStatus ct_req_ctu_gotStatus ct_resp_ctu_gotStatus ct_sid_ctu_gotStatus ct_conn_ctu_gotStatus ct_done_ctu_gotStatus ct_resolved_ctu_gotStatus ct_finished_ctu_gotStatus : cc.
#[export] Hint Rewrite ct_err_ctu_gotStatus ct_armed_ctu_gotStatus ct_fired_ctu_gotStatus ct_cancelled_ctu_gotStatus ct_gotStatus_ctu_gotStatus ct_bodyClosed_ctu_gotStatus ct_writing_ctu_gotStatus ct_returned_ctu_gotStatus : cc.
#[export] Hint Rewrite ct_pooled_ctu_gotStatus ct_lckStuck_ctu_gotStatus ct_tag_ctu_bodyClosed ct_req_ctu_bodyClosed ct_resp_ctu_bodyClosed ct_sid_ctu_bodyClosed ct_conn_ctu_bodyClosed ct_done_ctu_bodyClosed : cc.
#[export] Hint Rewrite ct_resolved_ctu_bodyClosed ct_finished_ctu_bodyClosed ct_err_ctu_bodyClosed ct_armed_ctu_bodyClosed ct_fired_ctu_bodyClosed ct_cancelled_ctu_bodyClosed ct_gotStatus_ctu_bodyClosed ct_bodyClosed_ctu_bodyClosed : cc.
#[export] Hint Rewrite ct_writing_ctu_bodyClosed ct_returned_ctu_bodyClosed ct_pooled_ctu_bodyClosed ct_lckStuck_ctu_bodyClosed ct_tag_ctu_writing ct_req_ctu_writing ct_resp_ctu_writing ct_sid_ctu_writing : cc.
#[export] Hint Rewrite ct_conn_ctu_writing ct_done_ctu_writing ct_resolved_ctu_writing ct_finished_ctu_writing ct_err_ctu_writing ct_armed_ctu_writing ct_fired_ctu_writing ct_cancelled_ctu_writing : cc.
#[export] Hint Rewrite ct_gotStatus_ctu_writing ct_bodyClosed_ctu_writing ct_writing_ctu_writing ct_returned_ctu_writing ct_pooled_ctu_writing ct_lckStuck_ctu_writing ct_tag_ctu_returned ct_req_ctu_returned : cc.
#[export] Hint Rewrite ct_resp_ctu_returned ct_sid_ctu_returned ct_conn_ctu_returned ct_done_ctu_returned ct_resolved_ctu_returned ct_finished_ctu_returned ct_err_ctu_returned ct_armed_ctu_returned : cc.
#[export] Hint Rewrite ct_fired_ctu_returned ct_cancelled_ctu_returned ct_gotStatus_ctu_returned ct_bodyClosed_ctu_returned ct_writing_ctu_returned ct_returned_ctu_returned ct_pooled_ctu_returned ct_lckStuck_ctu_returned : cc.
#[export] Hint Rewrite ct_tag_ctu_pooled ct_req_ctu_pooled ct_resp_ctu_pooled ct_sid_ctu_pooled ct_conn_ctu_pooled ct_done_ctu_pooled ct_resolved_ctu_pooled ct_finished_ctu_pooled : cc.
#[export] Hint Rewrite ct_err_ctu_pooled ct_armed_ctu_pooled ct_fired_ctu_pooled ct_cancelled_ctu_pooled ct_gotStatus_ctu_pooled ct_bodyClosed_ctu_pooled ct_writing_ctu_pooled ct_returned_ctu_pooled : cc.
#[export] Hint Rewrite ct_pooled_ctu_pooled ct_lckStuck_ctu_pooled ct_tag_ctu_lckStuck ct_req_ctu_lckStuck ct_resp_ctu_lckStuck ct_sid_ctu_lckStuck ct_conn_ctu_lckStuck ct_done_ctu_lckStuck : cc.
#[export] Hint Rewrite ct_resolved_ctu_lckStuck ct_finished_ctu_lckStuck ct_err_ctu_lckStuck ct_armed_ctu_lckStuck ct_fired_ctu_lckStuck ct_cancelled_ctu_lckStuck ct_gotStatus_ctu_lckStuck ct_bodyClosed_ctu_lckStuck : cc.
#[export] Hint Rewrite ct_writing_ctu_lckStuck ct_returned_ctu_lckStuck ct_pooled_ctu_lckStuck ct_lckStuck_ctu_lckStuck pb_id_pbu_id pb_tag_pbu_id pb_body_pbu_id pb_window_pbu_id : cc.
#[export] Hint Rewrite pb_stream_pbu_id pb_size_pbu_id pb_read_pbu_id pb_drained_pbu_id pb_id_pbu_tag pb_tag_pbu_tag pb_body_pbu_tag pb_window_pbu_tag : cc.
#[export] Hint Rewrite pb_stream_pbu_tag pb_size_pbu_tag pb_read_pbu_tag pb_drained_pbu_tag pb_id_pbu_body pb_tag_pbu_body pb_body_pbu_body pb_window_pbu_body : cc.
#[export] Hint Rewrite pb_stream_pbu_body pb_size_pbu_body pb_read_pbu_body pb_drained_pbu_body pb_id_pbu_window pb_tag_pbu_window pb_body_pbu_window pb_window_pbu_window : cc.
#[export] Hint Rewrite pb_stream_pbu_window pb_size_pbu_window pb_read_pbu_window pb_drained_pbu_window pb_id_pbu_stream pb_tag_pbu_stream pb_body_pbu_stream pb_window_pbu_stream : cc.
#[export] Hint Rewrite pb_stream_pbu_stream pb_size_pbu_stream pb_read_pbu_stream pb_drained_pbu_stream pb_id_pbu_size pb_tag_pbu_size pb_body_pbu_size pb_window_pbu_size : cc.
#[export] Hint Rewrite pb_stream_pbu_size pb_size_pbu_size pb_read_pbu_size pb_drained_pbu_size pb_id_pbu_read pb_tag_pbu_read pb_body_pbu_read pb_window_pbu_read : cc.
#[export] Hint Rewrite pb_stream_pbu_read pb_size_pbu_read pb_read_pbu_read pb_drained_pbu_read pb_id_pbu_drained pb_tag_pbu_drained pb_body_pbu_drained pb_window_pbu_drained : cc.
#[export] Hint Rewrite pb_stream_pbu_drained pb_size_pbu_drained pb_read_pbu_drained pb_drained_pbu_drained : cc.
(* END GENERATED hints *)

