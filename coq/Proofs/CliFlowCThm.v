(* Proofs/CliFlowCThm.v - C07, "and finishes": the whole-run theorems.
   UP: a request that is still on the request table and whose Ctx is still the caller's has its body pending or
   END_STREAM written. With the bookkeeping of Proofs/CliFlowCRun.v, the no-stall theorem of Proofs/CliFlowStall.v
   and the window bounds of Proofs/CliFlowCWin.v: upload_whole_run and completes_when_granted. *)
From H2V Require Import Base.Bytes Base.MachineInt Base.Result Gen.GenConsts Impl.ServerConn Impl.ClientConn
     Proofs.CliBase Proofs.CliResInv Proofs.CliResStep Proofs.CliResMoves Proofs.CliResThms
     Proofs.CliDefs Spec.FlowLedger Proofs.SrvFlowLedger Proofs.CliFlowMoves Proofs.CliFlowOut Proofs.CliFlowSettings Proofs.CliFlowSafe Proofs.CliFlowEs
     Proofs.CliFlowStall Proofs.CliFlowCBody Proofs.CliFlowCInv Proofs.CliFlowCSend Proofs.CliFlowCStep Proofs.CliFlowCRun
     Proofs.CliFlowCCov Proofs.CliFlowCWin Proofs.CliFlowCExact.
From Coq Require Import ZArith Lia ZifyN ZifyNat ZifyBool List Bool.
Import ListNotations.
Local Open Scope N_scope.

Section Thm.
Variable hstate : Type.
Variable dec_field : hstate -> N -> bytes -> dec_res hstate.
Variable enc_field : hstate -> bytes -> bytes -> bool -> bytes * hstate.
Variable enc_set_max : hstate -> N -> hstate.
Variable cfg : cl_config.
Variable h0 : hstate.
Variable first : bytes.
Notation cconn := (cconn hstate).
Notation move := (move hstate).
Notation apply := (apply hstate enc_field enc_set_max).
Notation valid := (valid hstate).
Notation mvs := (mvs enc_field enc_set_max).
Notation step := (cl_step dec_field enc_field enc_set_max cfg).
Notation run := (cl_run dec_field enc_field enc_set_max cfg h0 first).
Notation Bk := (Bk hstate).
Notation pget := (pget hstate).
Notation tbl := (tbl hstate).

(* ---------- the request table grows only by the stream writeRequest opens ---------- *)

Lemma mv_tbl m (c : cconn) i t : In (i, t) (cc_reqQueued (apply m c)) -> In (i, t) (cc_reqQueued c) \/ cc_nextID c <= i.
Proof.
  assert (SAME : cc_reqQueued (apply m c) = cc_reqQueued c -> In (i, t) (cc_reqQueued (apply m c)) -> In (i, t) (cc_reqQueued c) \/ cc_nextID c <= i).
  { intros ->. auto. }
  destruct m; try (apply SAME; reflexivity).
  - apply SAME. cbn [CliFlowMoves.apply]. destruct (quietb o); reflexivity.
  - cbn [CliFlowMoves.apply]. rewrite cc_reqQueued_cl_take_req_count. intro H. apply filter_In in H. left. apply H.
  - cbn [CliFlowMoves.apply]. cbn [cc_reqQueued ccu_open ccu_reqQueued]. intro H. apply in_app_or in H.
    destruct H as [H|[H|[]]]; [left; exact H | right; inversion H; apply N.le_refl].
  - cbn [CliFlowMoves.apply]. cbn [cc_reqQueued ccu_reqQueued]. intro H. apply filter_In in H. left. apply H.
  - cbn [CliFlowMoves.apply]. cbn [cc_reqQueued ccu_reqQueued]. intros [].
  - apply SAME. cbn [CliFlowMoves.apply]. destruct (pushb o); [|reflexivity]. apply cc_reqQueued_cl_write_out.
  - apply SAME. cbn [CliFlowMoves.apply]. destruct (cc_outQ c); reflexivity.
  - apply SAME. cbn [CliFlowMoves.apply]. unfold recv_data, cl_update_window, cl_write_out. cc_cbn.
    repeat match goal with |- context [if ?b then _ else _] => destruct b end; reflexivity.
  - apply SAME. cbn [CliFlowMoves.apply]. destruct (cl_settings_deserialize false payload); [apply cc_reqQueued_cl_handle_settings | reflexivity].
  - apply SAME. cbn [CliFlowMoves.apply]. apply cc_reqQueued_cl_add_window.
  - apply SAME. cbn [CliFlowMoves.apply]. destruct (cl_pend_get _ _) as [pb|]; [|reflexivity]. destruct (cl_refill pb); reflexivity.
  - apply SAME. cbn [CliFlowMoves.apply]. destruct (cl_pend_get _ _) as [pb|]; [|reflexivity].
    destruct wr; [rewrite cc_reqQueued_cl_notes|]; unfold cs_conn; destruct (cs_end c pb); reflexivity.
  - apply SAME. cbn [CliFlowMoves.apply]. destruct (cl_pend_get _ _) as [pb|]; [|reflexivity]. sb_cases c pb; reflexivity.
  - apply SAME. cbn [CliFlowMoves.apply]. destruct (negb _); reflexivity.
  - apply SAME. cbn [CliFlowMoves.apply]. destruct opb; reflexivity.
Qed.

Lemma mvs_tbl (c : cconn) ms c' : mvs c ms c' -> forall i t, In (i, t) (cc_reqQueued c') -> In (i, t) (cc_reqQueued c) \/ cc_nextID c <= i.
Proof.
  induction 1 as [c|c m ms c' V M IH]; intros i t H; [left; exact H|].
  destruct (IH i t H) as [X|X].
  - apply (mv_tbl m c i t X).
  - right. pose proof (proj1 (apply_ids hstate enc_field enc_set_max m c V)). lia.
Qed.

Lemma step_tbl (c : cconn) e i t : In (i, t) (cc_reqQueued (step c e)) -> In (i, t) (cc_reqQueued c) \/ cc_nextID c <= i.
Proof. destruct (step_D hstate dec_field enc_field enc_set_max cfg c e) as (ms & M & _). apply (mvs_tbl c ms _ M). Qed.

Lemma step_esn_mono (c : cconn) e id : (esn id (cc_out c) <= esn id (cc_out (step c e)))%nat.
Proof.
  destruct (step_D hstate dec_field enc_field enc_set_max cfg c e) as (ms & M & _).
  rewrite (mvs_out _ _ _ _ _ _ M), esn_app. lia.
Qed.

Lemma step_live (c : cconn) e : cl_wl_live (step c e) = true -> cl_wl_live c = true.
Proof. destruct (step_D hstate dec_field enc_field enc_set_max cfg c e) as (ms & M & _). apply (mvs_live hstate enc_field enc_set_max _ _ _ M). Qed.

(* ---------- a request on the table keeps its body pending until END_STREAM ---------- *)

Definition UP (c : cconn) : Prop :=
  forall id tag x, In (id, tag) (cc_reqQueued c) -> cl_ctx_get c tag = Some x -> ct_done x = false -> cl_wl_live c = true ->
    pget c id <> None \/ esn id (cc_out c) = 1%nat.

Lemma Bk_esn_le (ex : Prop) B ok id (c : cconn) : Bk ex B ok id c -> (esn id (cc_out c) <= 1)%nat.
Proof. intros [_ _ [X|(X & _)] _]; lia. Qed.

Theorem UP_run evs : UP (run evs).
Proof.
  induction evs as [|e evs IH] using rev_ind.
  - intros id tag x H. exfalso. revert H. unfold cl_run, cl_init. cbn [fold_left].
    destruct (cl_settings_deserialize false first); cbn; auto.
  - rewrite (run_snoc hstate). set (c := run evs) in *.
    pose proof (inv_run dec_field enc_field enc_set_max cfg h0 first evs) as Hi. fold c in Hi.
    pose proof (inv_run dec_field enc_field enc_set_max cfg h0 first (evs ++ [e])) as Hi'. rewrite (run_snoc hstate) in Hi'. fold c in Hi'.
    pose proof (LK_run hstate dec_field enc_field enc_set_max cfg h0 first (evs ++ [e])) as LK'. rewrite (run_snoc hstate) in LK'. fold c in LK'.
    pose proof (ES_run hstate dec_field enc_field enc_set_max cfg h0 first evs) as E. fold c in E.
    destruct (NS_RNG_run hstate dec_field enc_field enc_set_max cfg h0 first evs) as [R NSc]. fold c in R, NSc.
    pose proof (sum_any dec_field enc_field enc_set_max cfg c e Hi) as SS.
    destruct Hi as [S A]. destruct Hi' as [S' A'].
    intros id tag x' HT G' DN' LV'.
    destruct (s_rq _ S' id tag HT) as (x2 & G2 & SD' & CN' & NZ & LT'). rewrite G' in G2. inversion G2. subst x2. clear G2.
    pose proof (LK' tag x' G' CN') as K'. rewrite SD' in K'. pose proof (Bk_esn_le _ _ _ _ _ K') as LE1.
    (* the Ctx before the step *)
    destruct (cl_ctx_get c tag) as [x|] eqn:G.
    2:{ destruct (ss_new _ _ _ _ SS tag x' G G') as (rq & q & _ & _ & SZ & _). congruence. }
    destruct (ss_old _ _ _ _ SS tag x G) as (x'' & G'' & M). rewrite G' in G''. inversion G''. subst x''. clear G''.
    destruct (cmove_keeps hstate c e tag x x' M) as (_ & DM & KEEP).
    assert (DN : ct_done x = false) by (destruct (ct_done x); [rewrite (DM eq_refl) in DN'; discriminate | reflexivity]).
    pose proof (step_live c e LV') as LV.
    destruct (step_tbl c e id tag HT) as [HT0|NEW].
    + (* the request was on the table *)
      destruct (IH id tag x HT0 G DN LV) as [PG|ES1].
      * destruct (pget c id) as [pb|] eqn:GP; [|congruence].
        destruct (pget (step c e) id) as [pb'|] eqn:GP'; [left; discriminate|]. right.
        destruct (step_Cw hstate dec_field enc_field enc_set_max cfg c e S R E id pb GP GP') as [X|[X|(x0 & X1 & X2)]].
        -- pose proof (step_esn_mono c e id). lia.
        -- exfalso. apply X. unfold CliFlowCCov.tbl. apply in_map_iff. exists (id, tag). split; [reflexivity | exact HT].
        -- exfalso. apply pend_get_In in GP. destruct GP as [HI EI].
           assert (TG : tag = pb_tag pb) by (apply (proj2 (s_pending _ S pb HI)); rewrite EI; exact HT0).
           rewrite <- TG, G in X1. inversion X1. subst x0. congruence.
      * right. pose proof (step_esn_mono c e id). lia.
    + (* the step has opened its stream *)
      destruct KEEP as [[CC SD]|(EW & LV0 & (q & Q) & _ & SD)].
      * exfalso. pose proof (proj1 (s_sid _ S tag x G)). lia.
      * subst e. assert (IDE : id = cc_nextID c) by congruence. rewrite IDE in *. clear IDE.
        cbn [cl_step] in *. rewrite LV0 in *.
        destruct (wl_in_new hstate dec_field enc_field enc_set_max cfg c tag q x S R E NSc LV0 Q G LT' LV') as [X|[X|X]].
        -- left. exact X.
        -- right. lia.
        -- exfalso. apply X. unfold CliFlowCCov.tbl. apply in_map_iff. exists (cc_nextID c, tag). split; [reflexivity | exact HT].
Qed.

(* ---------- the Request of a Ctx is the one its caller submitted ---------- *)

Lemma submit_req (c : cconn) tag rq q x : cl_ctx_get c tag = None -> cl_ctx_get (cl_submit cfg c tag rq q) tag = Some x -> ct_req x = rq.
Proof.
  intros G. unfold cl_submit. rewrite G. cbv zeta.
  set (c1 := ccu_ctxs c (cc_ctxs c ++ [cl_new_ctx tag rq (ccf_armTimers cfg)])).
  assert (G1 : cl_ctx_get c1 tag = Some (cl_new_ctx tag rq (ccf_armTimers cfg))).
  { unfold cl_ctx_get, c1. cbn [cc_ctxs ccu_ctxs]. rewrite cl_ctxs_get_app. unfold cl_ctx_get in G. rewrite G. cbn [cl_ctxs_get cl_new_ctx ct_tag].
    rewrite N.eqb_refl. reflexivity. }
  destruct (_ && _).
  - unfold cl_resolve. rewrite cl_ctx_get_upd by (intro y; apply ct_tag_cl_ctx_resolve). rewrite N.eqb_refl, G1.
    intro H. inversion H. rewrite (proj1 (resolve_keeps _ _)). reflexivity.
  - rewrite cl_ctx_get_upd by (intro y; reflexivity). rewrite N.eqb_refl.
    assert (G2 : cl_ctx_get (ccu_inQ c1 (cc_inQ c1 ++ [tag])) tag = Some (cl_new_ctx tag rq (ccf_armTimers cfg))) by exact G1.
    rewrite G2. intro H. inversion H. reflexivity.
Qed.

Theorem ctx_submitted evs tag x : cl_ctx_get (run evs) tag = Some x ->
  exists pre rq q post, evs = pre ++ CEvSubmit tag rq q :: post /\ cl_ctx_get (run pre) tag = None /\ ct_req x = rq.
Proof.
  revert x. induction evs as [|e evs IH] using rev_ind; intros x G.
  - exfalso. revert G. unfold cl_run, cl_init. cbn [fold_left]. destruct (cl_settings_deserialize false first); cbn; discriminate.
  - rewrite (run_snoc hstate) in G. set (c := run evs) in *.
    pose proof (inv_run dec_field enc_field enc_set_max cfg h0 first evs) as Hi. fold c in Hi.
    pose proof (sum_any dec_field enc_field enc_set_max cfg c e Hi) as SS.
    destruct (cl_ctx_get c tag) as [x0|] eqn:G0.
    + destruct (ss_old _ _ _ _ SS tag x0 G0) as (x'' & G'' & M). rewrite G in G''. inversion G''. subst x''.
      destruct (cmove_keeps hstate c e tag x0 x M) as (RQ & _).
      destruct (IH x0 eq_refl) as (pre & rq & q & post & EQ & GN & RQ0).
      exists pre, rq, q, (post ++ [e]). split; [rewrite EQ, <- app_assoc; reflexivity|]. split; [exact GN | congruence].
    + destruct (ss_new _ _ _ _ SS tag x G0 G) as (rq & q & EE & _). subst e. cbn [cl_step] in G.
      exists evs, rq, q, []. split; [reflexivity|]. split; [exact G0 | apply (submit_req c tag rq q x G0 G)].
Qed.

(* ---------- C07, "and finishes", over all event lists ---------- *)

Lemma trace_data (c : cconn) id : data_bytes id (cl_trace c) = dbytes id (cc_out c).
Proof. apply dbytes_data_bytes. Qed.
Lemma trace_es (c : cconn) id : end_streams id (cl_trace c) = esn id (cc_out c).
Proof. apply esn_end_streams. Qed.

(* the request of tag has been given stream ct_sid x; B: its body as the connection sees it *)
Theorem upload_whole_run evs tag x :
  let c := run evs in
  cl_ctx_get c tag = Some x -> ct_conn x = true ->
  let id := ct_sid x in
  let B := fst (rq_body (ct_req x)) in
  let ok := snd (rq_body (ct_req x)) in
  (exists rest, data_bytes id (cl_trace c) ++ rest = B) /\
  (end_streams id (cl_trace c) <= 1)%nat /\
  (end_streams id (cl_trace c) = 1%nat -> data_bytes id (cl_trace c) = B /\ ok = true /\ cl_pend_get (cc_pending c) id = None) /\
  (cl_wl_live c = true -> forall pb, cl_pend_get (cc_pending c) id = Some pb ->
     end_streams id (cl_trace c) = 0%nat /\ data_bytes id (cl_trace c) ++ pb_all pb = B /\ pb_ok pb = ok /\
     (cc_winCh c = false -> pb_body pb <> [] /\ (cl_zmin (pb_window pb) (cc_connWindow c) <= 0)%Z)) /\
  (cl_wl_live c = true -> In (id, tag) (cc_reqQueued c) -> ct_done x = false ->
     cl_pend_get (cc_pending c) id <> None \/ end_streams id (cl_trace c) = 1%nat).
Proof.
  cbv zeta. intros G CN. rewrite !trace_data, !trace_es.
  pose proof (LK_run hstate dec_field enc_field enc_set_max cfg h0 first evs tag x G CN) as K.
  pose proof (Bk_esn_le _ _ _ _ _ K) as LE. destruct K as [k1 k2 k3 k4].
  split; [exact k2|]. split; [exact LE|]. split.
  { intro E1. destruct k3 as [Z|(_ & A & B & C)]; [rewrite Z in E1; discriminate|]. repeat split; assumption. }
  split.
  - intros LV pb GP. destruct (k4 LV pb GP) as [A B].
    assert (E0 : esn (ct_sid x) (cc_out (run evs)) = 0%nat).
    { destruct k3 as [Z|(_ & _ & _ & C)]; [exact Z|]. unfold CliFlowCInv.pget in C. congruence. }
    split; [exact E0|]. split; [exact A|]. split; [exact B|]. intro WC.
    apply (no_stall hstate dec_field enc_field enc_set_max cfg h0 first evs pb LV WC). apply pend_get_In in GP. apply GP.
  - intros LV HT DN. apply (UP_run evs (ct_sid x) tag x HT G DN LV).
Qed.

(* while the request is on the request table and the caller has not taken its Ctx back, the write loop is alive and
   has caught up (no winCh token): either all of the body and END_STREAM are out, or the rest is pending and a window
   is not positive *)
Theorem upload_dichotomy evs tag x :
  let c := run evs in
  cl_ctx_get c tag = Some x -> cl_wl_live c = true -> cc_winCh c = false ->
  In (ct_sid x, tag) (cc_reqQueued c) -> ct_done x = false ->
  let id := ct_sid x in
  let B := fst (rq_body (ct_req x)) in
  (data_bytes id (cl_trace c) = B /\ end_streams id (cl_trace c) = 1%nat /\ snd (rq_body (ct_req x)) = true /\
   cl_pend_get (cc_pending c) id = None) \/
  (exists pb, cl_pend_get (cc_pending c) id = Some pb /\ data_bytes id (cl_trace c) ++ pb_all pb = B /\
              end_streams id (cl_trace c) = 0%nat /\ pb_body pb <> [] /\ (cl_zmin (pb_window pb) (cc_connWindow c) <= 0)%Z).
Proof.
  cbv zeta. intros G LV WC HT DN.
  destruct (s_rq _ (proj1 (inv_run dec_field enc_field enc_set_max cfg h0 first evs)) _ _ HT) as (x2 & G2 & _ & CN & _).
  rewrite G in G2. inversion G2. subst x2.
  destruct (upload_whole_run evs tag x G CN) as (_ & _ & U3 & U4 & U5).
  destruct (cl_pend_get (cc_pending (run evs)) (ct_sid x)) as [pb|] eqn:GP.
  - right. exists pb. destruct (U4 LV pb eq_refl) as (A & B & _ & C). destruct (C WC) as [C1 C2]. repeat split; assumption.
  - left. destruct (U5 LV HT DN) as [X|X]; [congruence|]. destruct (U3 X) as (A & B & C). repeat split; assumption.
Qed.

(* the corollary, in terms of what the server granted: if in the server's ledger the connection window and the stream's
   window are positive, the whole body and END_STREAM have been sent (while the write loop runs the client's windows are
   the ledger's: Proofs/CliFlowCExact.v) *)
Theorem completes_when_granted evs tag x w :
  let c := run evs in
  let L := lrun ledger0 (g_ledger hstate dec_field enc_field enc_set_max cfg h0 first evs) in
  cl_settings_deserialize false first <> None ->
  GOK ledger0 (g_ledger hstate dec_field enc_field enc_set_max cfg h0 first evs) ->
  cl_ctx_get c tag = Some x -> cl_wl_live c = true -> cc_winCh c = false ->
  In (ct_sid x, tag) (cc_reqQueued c) -> ct_done x = false ->
  (0 < l_conn L)%Z -> l_strm L (ct_sid x) = Some w -> (0 < w)%Z ->
  data_bytes (ct_sid x) (cl_trace c) = fst (rq_body (ct_req x)) /\ end_streams (ct_sid x) (cl_trace c) = 1%nat /\
  cl_pend_get (cc_pending c) (ct_sid x) = None.
Proof.
  cbv zeta. intros NN GK G LV WC HT DN CP SW WP.
  destruct (upload_dichotomy evs tag x G LV WC HT DN) as [(A & B & _ & C)|(pb & GP & _ & _ & _ & BL)]; [repeat split; assumption|].
  exfalso. destruct (windows_exact hstate dec_field enc_field enc_set_max cfg h0 first evs NN GK LV) as [CWE WV].
  apply pend_get_In in GP. destruct GP as [HI EI]. pose proof (WV pb HI) as W1. rewrite EI, SW in W1. inversion W1 as [W2].
  rewrite CWE, <- W2 in BL. rewrite zmin_min in BL. clear - BL CP WP. lia.
Qed.

End Thm.
