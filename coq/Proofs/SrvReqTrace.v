(* Proofs/SrvReqTrace.v - C01, the trace-level statement for one request (Props/C01.v, theorems C01_request_integrity_progress and C01_request_integrity_hpack):
   from any state reached by a clean run that is ready for a new request on sid, the frames of one well-formed request,
   fed in lock-step, make the trace gain exactly one ODispatch sid rq, rq = the fields of the block read as a request
   with the DATA payloads as body.
   Route: (1) such a state is `ready` in the sense of Proofs/SrvMsgStream.v (the invariants of clean runs: Proofs/SrvIsoRun.v
   run_inv, Proofs/SrvInvSlots.v, and Proofs/SrvReqTraceI.v for the two facts nobody had); (2) the reference decoding of the
   statement is the decoding relation of Proofs/SrvMsgDefs.v when every decoded field consumes input (hypothesis `progress`;
   Proofs/SrvIsoInst.v srv_dec_shrinks for the real HPACK decoder); (3) what hfold accepts is what the validation automaton
   accepts; (4) a clean run carries nothing over the header-list limit across a frame boundary (Proofs/SrvReqTraceB.v);
   then Proofs/SrvMsgReq.v request_run gives the dispatch, the window updates before it, and nothing else. *)
From H2V Require Import Base.Bytes Base.MachineInt Base.Result Gen.GenConsts Impl.ServerConn Spec.Http2Messages
  Proofs.SrvBase Proofs.SrvMsgDefs Proofs.SrvMsgPure Proofs.SrvMsgLoop Proofs.SrvMsgStream Proofs.SrvMsgPhase
  Proofs.SrvMsgReq Proofs.SrvMsgC20 Proofs.SrvInvSlots Proofs.SrvIsoRef Proofs.SrvIsoMoves Proofs.SrvIsoSteps Proofs.SrvIsoHdr
  Proofs.SrvIsoHdrStep Proofs.SrvIsoRun Proofs.SrvIsoReq.
From H2V Require Import Proofs.SrvReqTraceA Proofs.SrvReqTraceB Proofs.SrvReqTraceI.
From H2V Require Import Impl.Hpack Impl.ServerInst Proofs.SrvIsoInst.
From Coq Require Import ZArith Lia ZifyN ZifyNat ZifyBool List.
Import ListNotations.
Local Open Scope N_scope.

Section C.
Variable hstate : Type.
Variable dec_field : hstate -> N -> bytes -> dec_res hstate.
Variable enc_field : hstate -> bytes -> bytes -> bool -> bytes * hstate.
Variable enc_set_max : hstate -> N -> hstate.
Variable cfg : config.
Variable h0 : hstate.
Hypothesis progress : forall d n b k v rest d1, dec_field d n b = DField hstate k v rest d1 -> (length rest < length b)%nat.
Notation sconn := (sconn hstate).
Notation run := (run dec_field enc_field enc_set_max cfg h0).
Notation run_from := (run_from dec_field enc_field enc_set_max cfg).
Notation clean := (clean dec_field enc_field enc_set_max cfg h0).
Notation feeds := (feeds dec_field enc_field enc_set_max cfg).

(* a state reached by a clean run, ready in the sense of the statement, is `ready` *)
Lemma ready_of_clean evs0 sid :
  clean evs0 ->
  N.land sid 1 = 1 -> sc_highestID (run evs0) < sid -> (sc_open (run evs0) < cf_maxStreams cfg)%Z -> sc_closing (run evs0) = false ->
  sc_sl_done (run evs0) = false -> sc_rl_done (run evs0) = false -> sc_wl_dead (run evs0) = false ->
  sc_readerQ (run evs0) = [] -> sc_expectCont (run evs0) = 0 ->
  ready cfg (run evs0) sid.
Proof.
  intros CL O HI OP NC Hsl Hrl Hwl RQ EC.
  destruct (RES_run _ dec_field enc_field enc_set_max cfg h0 evs0 CL) as [OLD NI]. specialize (NI Hsl).
  assert (NZ : sid <> 0) by (intro; subst; discriminate).
  destruct (run_inv _ dec_field enc_field enc_set_max cfg h0 evs0 CL) as (n & carry & _ & IHd).
  destruct (IHd Hsl) as [G (fin & Wk & F)]. rewrite RQ in Wk. cbn [qwalk] in Wk. inversion Wk as [E]. specialize (F Hrl).
  assert (C0 : cur_of (hframes dec_field enc_field enc_set_max cfg h0 evs0) = 0) by congruence.
  pose proof (hg_inv _ _ _ _ _ G) as HV. rewrite C0 in HV. destruct HV as [ND FP IDS LAST DISC RING].
  assert (AH : forall s, In s (sc_strms (run evs0)) -> st_headersFinished s = true).
  { apply all_hf_of_P0; [intros s Is; apply IDS; exact Is | exact FP]. }
  apply (ready_reachable _ dec_field enc_field enc_set_max cfg h0); try assumption.
  - apply run_reachable.
  - destruct (in_ring (run evs0) sid) eqn:IR; [|reflexivity]. exfalso.
    unfold in_ring in IR. apply existsb_exists in IR. destruct IR as (e & Ie & Ee). specialize (RING e Ie). lia.
  - intro Ed. assert (D0 : sc_discardID (run evs0) <> 0) by congruence. destruct (DISC D0) as [_ LE]. lia.
  - apply Forall_forall. intros x Ix _. split; [apply AH; exact Ix|]. rewrite Forall_forall in NI. apply NI. exact Ix.
Qed.

Lemma lockstep_app a b : lockstep (a ++ b) = lockstep a ++ lockstep b.
Proof. unfold lockstep. apply flat_map_app. Qed.

Lemma lo0 : list_over cfg 0 = false.
Proof. unfold list_over. lia. Qed.

Theorem request_integrity_core evs0 sid hfrags chunks fs n1 hF :
  let c0 := run evs0 in
  let evs := flat_map (fun f => [EvRL (RFrame f); EvSL]) (req_frames1 sid hfrags chunks) in
  clean (evs0 ++ evs) ->
  N.land sid 1 = 1 -> sc_highestID c0 < sid -> (sc_open c0 < cf_maxStreams cfg)%Z -> sc_closing c0 = false ->
  sc_sl_done c0 = false -> sc_rl_done c0 = false -> sc_wl_dead c0 = false -> sc_readerQ c0 = [] -> sc_expectCont c0 = 0 ->
  ref_frames_fs dec_field (sc_dec c0, 0, []) (filter is_hdr_frame (req_frames1 sid hfrags chunks)) fs
                (sc_dec (run (evs0 ++ evs)), n1, []) ->
  hfold cfg (hh1 (new_stream sid (sc_initWin c0)) (mkSFrame KHeaders 0 sid 0 [] 0 0 0 false 0 false 0)) fs = Some hF ->
  hd_pMethod hF = true -> hd_pScheme hF = true -> hd_pPath hF = true -> hd_path hF <> [] ->
  ((0 <? cf_maxBody cfg) && (cf_maxBody cfg <? Z.of_N (len (concat chunks))))%Z = false ->
  (hd_hasCL hF = true -> hd_contentLength hF = Z.of_N (len (concat chunks))) ->
  exists pre post,
    trace (run (evs0 ++ evs)) =
    trace c0 ++ pre ++ ODispatch sid (rq_append_body (request_of empty_req fs) (concat chunks)) :: post /\
    (forall rq, ~ In (ODispatch sid rq) (pre ++ post)).
Proof.
  intros c0 evs CL O HI OP NC Hsl Hrl Hwl RQ EC RF HFo PM PS PP PT BL CLn.
  change (hh1 (new_stream sid (sc_initWin c0)) (mkSFrame KHeaders 0 sid 0 [] 0 0 0 false 0 false 0)) with h_init in HFo.
  assert (NZ : sid <> 0) by (intro; subst; discriminate).
  assert (NE : hfrags <> []).
  { (* no HEADERS frame: nothing decodes to an accepted request *)
    intro EHf. rewrite EHf in RF. cbn [req_frames1 filter] in RF. destruct (rff_nil_inv _ _ _ _ _ RF) as [-> _].
    cbn [hfold] in HFo. inversion HFo; subst hF. discriminate PM. }
  unfold evs in *. rewrite (req_frames1_eq sid hfrags chunks NE) in *. fold (lockstep (req_frames sid hfrags chunks None)) in *.
  pose proof (proj1 (clean_from_app _ _ _ _ _ _ _ _) CL) as [CL0 _].
  pose proof (ready_of_clean evs0 sid CL0 O HI OP NC Hsl Hrl Hwl RQ EC) as R0. fold c0 in R0.
  (* the block decodes, in the vocabulary of the lock-step development *)
  rewrite (filter_req_frames sid hfrags chunks NZ) in RF.
  destruct (block_frames_block_dec _ dec_field progress sid (is_nil chunks) hfrags (sc_dec c0) fs _ NE RF eq_refl) as (carries & B).
  cbn [fst snd] in B. set (d' := sc_dec (run (evs0 ++ lockstep (req_frames sid hfrags chunks None)))) in *.
  (* every field is accepted *)
  destruct (hfold_vrun cfg fs h_init hF HFo lo0) as (st' & VR & EhF).
  change (vabs h_init) with v0 in VR. change (hd_headerListSize h_init) with 0%Z in EhF.
  pose proof (hfold_size cfg fs h_init hF HFo lo0) as LO. change (hd_headerListSize h_init) with 0%Z in LO. rewrite Z.add_0_l in LO.
  (* nothing over the limit is carried over a frame boundary *)
  assert (CO : carries_over cfg carries = false).
  { apply (block_carries _ dec_field enc_field enc_set_max cfg h0 c0 sid R0 evs0 (is_nil chunks) hfrags fs d' carries st' eq_refl B);
      [|exact LO | exact VR].
    unfold req_frames in CL. rewrite lockstep_app, app_assoc in CL.
    exact (proj1 (proj1 (clean_from_app _ _ _ _ _ _ _ _) CL)). }
  pose proof (request_run _ dec_field enc_field enc_set_max cfg c0 sid R0 hfrags chunks None fs [] d' d' carries [] B
                          (conj eq_refl (conj eq_refl eq_refl))) as OUT.
  cbv zeta in OUT.
  assert (LIM : within_limits cfg fs [] (carries ++ []) (len (concat chunks)) = true).
  { rewrite within_limits_eq. unfold hlimit. cbn [fsize fold_right carries_over existsb]. rewrite Z.add_0_r, LO, CO.
    unfold body_over. rewrite BL. reflexivity. }
  assert (ACC : vacc2 cfg v0 fs [] (len (concat chunks)) = true).
  { unfold vacc2. rewrite VR. unfold vacc. cbn [vrun].
    assert (E1 : v_m st' = true) by (rewrite <- PM, EhF; reflexivity).
    assert (E2 : v_s st' = true) by (rewrite <- PS, EhF; reflexivity).
    assert (E3 : v_p st' = true) by (rewrite <- PP, EhF; reflexivity).
    assert (E4 : v_path st' <> []) by (intro X; apply PT; rewrite EhF; exact X).
    unfold v_valid. rewrite E1, E2, E3. destruct (v_path st') eqn:VP; [congruence|]. cbn [is_nil negb andb].
    unfold v_cl_ok, v_setr. cbn [v_has v_cl]. destruct (v_has st') eqn:VH; [|reflexivity].
    assert (E5 : hd_hasCL hF = true) by (rewrite EhF; exact VH).
    specialize (CLn E5). rewrite EhF in CLn. cbn [hdr_of hd_contentLength] in CLn. rewrite CLn. apply Z.eqb_refl. }
  unfold outcome in OUT. rewrite LIM, ACC in OUT. cbn [andb] in OUT.
  destruct OUT as (st & size & nf & _ & _ & _ & _ & _ & l & Eo & Fo).
  rewrite <- (run_from_lockstep _ dec_field enc_field enc_set_max cfg) in Eo. unfold c0 in Eo. rewrite <- run_app in Eo.
  (* the request *)
  assert (RQe : final_req fs chunks [] = rq_append_body (request_of empty_req fs) (concat chunks)).
  { unfold final_req. cbn [req_fold fold_left]. f_equal.
    destruct (hfold_request cfg h_init fs hF HFo eq_refl eq_refl eq_refl eq_refl) as (Er & _).
    change (hd_req h_init) with empty_req in Er. rewrite <- Er, EhF. reflexivity. }
  exists (rev l), []. split.
  - unfold trace. rewrite Eo, RQe. cbn [rev]. rewrite rev_app_distr, <- app_assoc. reflexivity.
  - intros rq I. rewrite app_nil_r in I. apply in_rev in I. rewrite Forall_forall in Fo. exact (Fo _ I).
Qed.

End C.

(* ---------- the real HPACK decoder: no hypothesis on the coder is left ---------- *)
Definition request_integrity_hpack :=
  fun enc_field enc_set_max cfg h0 => request_integrity_core hpack_state srv_dec_field enc_field enc_set_max cfg h0 srv_dec_shrinks.
