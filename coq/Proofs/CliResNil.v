(* Proofs/CliResNil.v - C12 (b): a nil result only for a response the server completed: the step that put nil into Err is
   the read loop taking in a frame of the request's stream that carries (or completes a header block that carried)
   END_STREAM, with a status seen. *)
From H2V Require Import Base.Bytes Base.MachineInt Base.Result Gen.GenConsts Impl.ServerConn Impl.ClientConn Proofs.CliBase
     Proofs.CliResInv Proofs.CliResStep Proofs.CliResMoves Proofs.CliResThms Proofs.CliResGoAway.
From Coq Require Import ZArith Lia ZifyN ZifyNat ZifyBool List Bool.
Import ListNotations.
Local Open Scope N_scope.

Section Nil.
Context {hstate : Type}.
Variable dec_field : hstate -> N -> bytes -> dec_res hstate.
Variable enc_field : hstate -> bytes -> bytes -> bool -> bytes * hstate.
Variable enc_set_max : hstate -> N -> hstate.
Variable cfg : cl_config.
Variable h0 : hstate.
Variable first : bytes.
Implicit Types c : cconn hstate.

Notation step := (cl_step dec_field enc_field enc_set_max cfg).
Notation run := (cl_run dec_field enc_field enc_set_max cfg h0 first).
Notation reach := (cl_reachable dec_field enc_field enc_set_max cfg h0 first).

(* END_STREAM seen: on this DATA frame, on this HEADERS frame (which also ends its block), or on the HEADERS frame whose
   block this CONTINUATION ends (the connection's hdrEndStream register) *)
Definition es_seen c (fr : sframe) : Prop :=
  (sf_kind fr = KData /\ flag_has (sf_flags fr) FL_ES = true) \/
  (sf_kind fr = KHeaders /\ flag_has (sf_flags fr) FL_EH = true /\ flag_has (sf_flags fr) FL_ES = true) \/
  (sf_kind fr = KCont /\ flag_has (sf_flags fr) FL_EH = true /\ cc_hdrEndStream c = true).

(* a FINAL status seen: earlier (gotStatus), or the header block this frame completes carries a :status >= 200
   (an interim 1xx block that ends the stream is malformed) *)
Definition status_seen c (fr : sframe) (x : cctx) : Prop :=
  ct_gotStatus x = true \/
  ((sf_kind fr = KHeaders \/ sf_kind fr = KCont) /\
   (200 <= cc_hdrStatus (rs_conn (cl_read_stream dec_field c fr (Some (ct_resp x)))))%Z).


Lemma rhf_ended c0 id frag eh res :
  snd (fst (cl_read_header_fragment dec_field c0 id frag eh res)) = true ->
  eh = true /\ cc_hdrEndStream c0 = true /\
  cc_hdrStream (rs_conn (cl_read_header_fragment dec_field c0 id frag eh res)) = 0 /\
  snd (cl_read_header_fragment dec_field c0 id frag eh res) = CRSNone /\
  cc_hdrEndStream (rs_conn (cl_read_header_fragment dec_field c0 id frag eh res)) = true.
Proof.
  unfold cl_read_header_fragment, rs_conn.
  destruct (cl_hdr_loop dec_field _ eh (cc_dec c0) (cc_hdrFields c0) (cc_hdrRegularSeen c0) (cc_hdrStatus c0) (cc_hdrErr c0) res _)
    as [[[[[[[d' fields] rseen] status] herr] res'] prev] e].
  destruct e; [destruct eh; cbn [negb]; [destruct herr | destruct (cl_maxHeaderPrev <? len prev)] | | |]; cbn [fst snd]; try discriminate.
  cbn. auto.
Qed.

Lemma chk_nil c1 fr x1 : cc_hdrStream c1 = 0 -> cc_hdrEndStream c1 = true -> (sf_kind fr = KHeaders \/ sf_kind fr = KCont) ->
  fst (disp_chk c1 fr (Some x1) CRSNone) <> None ->
  disp_err3 fr (fst (disp_chk c1 fr (Some x1) CRSNone)) (snd (disp_chk c1 fr (Some x1) CRSNone)) = CRSNone ->
  ct_gotStatus x1 = true \/ (200 <= cc_hdrStatus c1)%Z.
Proof.
  intros Z ES K _ H. unfold disp_chk in H. rewrite Z, ES in H. cbn [N.eqb] in H.
  replace (fkind_eqb (sf_kind fr) KHeaders || fkind_eqb (sf_kind fr) KCont) with true in H by (destruct K as [-> | ->]; reflexivity).
  cbn [andb] in H. destruct (ct_gotStatus x1) eqn:GS; [left; reflexivity|]. right.
  destruct (cc_hdrStatus c1 =? 0)%Z eqn:S0; [cbn [negb orb fst snd] in H; unfold disp_err3 in H; discriminate|].
  cbv zeta in H. destruct (200 <=? cc_hdrStatus c1)%Z eqn:F; [clear - F; lia|].
  cbn [negb andb fst snd] in H. unfold disp_err3 in H. discriminate.
Qed.

Lemma nil_at_facts c fr : st_ok c -> nil_at dec_field c fr ->
  sf_sid fr <> 0 /\ es_seen c fr /\
  exists t x, In (sf_sid fr, t) (cc_reqQueued c) /\ cl_ctx_get c t = Some x /\ ct_done x = false /\ status_seen c fr x.
Proof.
  intros St H. unfold nil_at, disp_pre in H.
  destruct (cl_req_find (cc_reqQueued c) (sf_sid fr)) as [tag|] eqn:F.
  2:{ exfalso. destruct (cl_read_stream dec_field c fr None) as [[[c1 res'] ended] err]. cbn in H. destruct err; cbn in H; destruct H as [H _]; congruence. }
  pose proof (cl_req_find_In _ _ _ F) as I. destruct (s_rq _ St _ _ I) as (x & G & Sx & Cx & NZ & _).
  unfold cl_acquire_for in H. rewrite G in H. cbn [existsb] in H. rewrite (proj1 (s_nostuck _ St) _ _ G), Sx, Cx, N.eqb_refl in H.
  cbn [negb orb] in H. rewrite orb_false_r in H. destruct (ct_done x) eqn:D; cbn [orb] in H; cbv iota beta in H.
  { exfalso. destruct (cl_read_stream dec_field (cl_take_req_count c (sf_sid fr)) fr None) as [[[c1 res'] ended] err]. cbn in H.
    destruct H as [H _]; congruence. }
  split; [exact NZ|].
  assert (RS : rs_conn (cl_read_stream dec_field c fr (Some (ct_resp x))) = fst (fst (fst (cl_read_stream dec_field c fr (Some (ct_resp x)))))) by reflexivity.
  assert (Goal' : es_seen c fr /\ status_seen c fr x); [|destruct Goal'; split; [assumption|]; exists tag, x; auto].
  unfold status_seen. rewrite RS. clear RS.
  unfold cl_read_stream in *. destruct (sf_kind fr) eqn:K; cbv iota beta in H;
    try (exfalso; match type of H with context [disp_chk ?a ?b ?c ?d] => destruct (disp_chk a b c d) as [ok2 err2] end;
         destruct H as (_ & H & _); discriminate).
  - (* DATA *)
    match type of H with context [disp_chk ?a fr _ CRSNone] => generalize dependent a; intros c3 H end.
    assert (GS : ct_gotStatus x = true).
    { unfold disp_chk, disp_ok1 in H. rewrite K in H. cbn [fkind_eqb orb] in H. rewrite andb_false_r in H.
      destruct (cl_is_nil (sf_payload fr)); cbv iota beta in H; destruct H as (_ & _ & H3); unfold disp_err3 in H3; rewrite K in H3;
        cbn [fkind_eqb andb ct_gotStatus ctu_resp] in H3; destruct (ct_gotStatus x); try reflexivity; discriminate. }
    assert (ES : flag_has (sf_flags fr) FL_ES = true).
    { destruct (disp_chk c3 fr _ CRSNone) as [ok2 err2]. apply H. }
    split; [left; split; [exact K | exact ES] | left; exact GS].
  - (* HEADERS *)
    match goal with |- context [cl_read_header_fragment dec_field ?a _ _ _ _] => set (c0 := a) in * end.
    pose proof (rhf_ended c0 (sf_sid fr) (sf_payload fr) (flag_has (sf_flags fr) FL_EH) (Some (ct_resp x))) as RE.
    unfold rs_conn in RE.
    destruct (cl_read_header_fragment dec_field c0 (sf_sid fr) (sf_payload fr) (flag_has (sf_flags fr) FL_EH) (Some (ct_resp x)))
      as [[[c1 res'] ended] err]. cbn [fst snd] in *.
    assert (EN : ended = true) by (destruct (disp_chk c1 fr _ err) as [ok2 err2]; apply H).
    destruct (RE EN) as (EH & ES & Z1 & -> & ES1).
    split; [right; left; split; [exact K | split; [exact EH | exact ES]]|].
    set (x1 := match res' with Some r => ctu_resp x r | None => x end).
    assert (OK1 : disp_ok1 (Some x) res' = Some x1) by (unfold disp_ok1, x1; destruct res'; reflexivity).
    rewrite OK1 in H.
    destruct (chk_nil c1 fr x1 Z1 ES1 (or_introl K)) as [GS|HS].
    + destruct (disp_chk c1 fr (Some x1) CRSNone) as [ok2 err2]. apply H.
    + destruct (disp_chk c1 fr (Some x1) CRSNone) as [ok2 err2]. apply H.
    + left. unfold x1 in GS. destruct res'; exact GS.
    + right. split; [left; reflexivity | exact HS].
  - (* CONTINUATION *)
    pose proof (rhf_ended c (sf_sid fr) (sf_payload fr) (flag_has (sf_flags fr) FL_EH) (Some (ct_resp x))) as RE.
    unfold rs_conn in RE.
    destruct (cl_read_header_fragment dec_field c (sf_sid fr) (sf_payload fr) (flag_has (sf_flags fr) FL_EH) (Some (ct_resp x)))
      as [[[c1 res'] ended] err]. cbn [fst snd] in *.
    assert (EN : ended = true) by (destruct (disp_chk c1 fr _ err) as [ok2 err2]; apply H).
    destruct (RE EN) as (EH & ES & Z1 & -> & ES1).
    split; [right; right; split; [exact K | split; [exact EH | exact ES]]|].
    set (x1 := match res' with Some r => ctu_resp x r | None => x end).
    assert (OK1 : disp_ok1 (Some x) res' = Some x1) by (unfold disp_ok1, x1; destruct res'; reflexivity).
    rewrite OK1 in H.
    destruct (chk_nil c1 fr x1 Z1 ES1 (or_intror K)) as [GS|HS].
    + destruct (disp_chk c1 fr (Some x1) CRSNone) as [ok2 err2]. apply H.
    + destruct (disp_chk c1 fr (Some x1) CRSNone) as [ok2 err2]. apply H.
    + left. unfold x1 in GS. destruct res'; exact GS.
    + right. split; [right; reflexivity | exact HS].
Qed.


(* a dispatch that ends with nil is one of a DATA, HEADERS or CONTINUATION frame (whatever the state) *)
Lemma nil_at_kind c fr : nil_at dec_field c fr -> sf_kind fr = KData \/ sf_kind fr = KHeaders \/ sf_kind fr = KCont.
Proof.
  intro H. unfold nil_at in H. destruct (disp_pre c (sf_sid fr)) as [[c0 ok]|]; [|destruct H].
  unfold cl_read_stream in H. destruct (sf_kind fr) eqn:K; auto; exfalso; cbv iota beta in H;
    match type of H with context [disp_chk ?a ?b ?c ?d] => destruct (disp_chk a b c d) as [ok2 err2] end;
    destruct H as (_ & H & _); discriminate.
Qed.

(* this step takes in a frame on stream sid whose dispatch ends the request with nil *)
Definition nil_now c (e : cevent) (sid : N) : Prop :=
  exists fr, e = CEvRL (RFrame fr) /\ sf_sid fr = sid /\ cl_rl_live c = true /\ cc_netClosed c = false /\
    exists c1, (sf_kind fr <> KWinUpd -> sf_kind fr <> KGoAway -> c1 = c) /\ nil_at dec_field c1 fr.

Lemma nil_now_facts c e sid : st_ok c -> nil_now c e sid ->
  sid <> 0 /\ exists fr, e = CEvRL (RFrame fr) /\ sf_sid fr = sid /\ cl_rl_live c = true /\ cc_netClosed c = false /\ es_seen c fr /\
    exists t x, In (sid, t) (cc_reqQueued c) /\ cl_ctx_get c t = Some x /\ ct_done x = false /\ status_seen c fr x.
Proof.
  intros St (fr & -> & <- & RL & NC & c1 & Hc & Hn).
  assert (c1 = c) by (apply Hc; destruct (nil_at_kind c1 fr Hn) as [K|[K|K]]; rewrite K; discriminate). subst c1.
  destruct (nil_at_facts c fr St Hn) as (NZ & ES & t & x & F). split; [exact NZ|]. exists fr. repeat split; auto. exists t, x. exact F.
Qed.

Definition cp_nil c (e : cevent) : cparams.
Proof.
  refine {| Eok := fun sid er => er <> CENil \/ nil_now c e sid; Vok := fun _ _ => True; Wok := fun _ _ _ => True |}; auto.
Defined.
Instance cplain_nil c e : cplain (cp_nil c e).
Proof. intros sid er A B. left. exact B. Qed.

Lemma sum_nil c e : inv c -> step_sum (CP:=cp_nil c e) dec_field c e (step c e).
Proof.
  intro Hi. apply step_moves; [exact Hi|]. intros i Ei. repeat split; try (intros; exact I).
  - intros fr Hf RL NC c1 Hc Hn. right. exists fr. subst i. repeat split; auto. exists c1. auto.
  - intros fr Hf K Z RL NC id L. left. discriminate.
Qed.

Definition nil_origin (evs : list cevent) (sid : N) : Prop :=
  exists pre fr post, evs = pre ++ CEvRL (RFrame fr) :: post /\ nil_now (run pre) (CEvRL (RFrame fr)) sid.

Lemma nil_origin_snoc evs e sid : nil_origin evs sid -> nil_origin (evs ++ [e]) sid.
Proof. intros (pre & fr & post & -> & H). exists pre, fr, (post ++ [e]). rewrite <- app_assoc. split; [reflexivity | exact H]. Qed.

Lemma nil_origin_nonzero evs : ~ nil_origin evs 0.
Proof.
  intros (pre & fr & post & _ & H). destruct (nil_now_facts _ _ _ (proj1 (inv_run dec_field enc_field enc_set_max cfg h0 first pre)) H) as [NZ _].
  apply NZ. reflexivity.
Qed.

Definition nil_inv (evs : list cevent) : Prop :=
  let c := run evs in
  (forall t x, cl_ctx_get c t = Some x -> ct_err x = Some CENil -> nil_origin evs (ct_sid x)) /\
  (forall t r resp, In (COResult t r CENil resp) (cc_out c) ->
     exists x, cl_ctx_get c t = Some x /\ ct_done x = true /\ nil_origin evs (ct_sid x)).

Theorem nil_inv_run evs : nil_inv evs.
Proof.
  induction evs as [|e evs IH] using rev_ind.
  { split.
    - intros t x G. exfalso. unfold cl_ctx_get, cl_run, cl_init in G. cbn [fold_left] in G.
      destruct (cl_settings_deserialize false first); discriminate.
    - intros t r resp H. exfalso. unfold cl_run, cl_init in H. cbn [fold_left] in H.
      destruct (cl_settings_deserialize false first); destruct H. }
  unfold nil_inv. rewrite cl_run_snoc. destruct IH as [IH1 IH2]. set (c := run evs) in *.
  assert (R : reach c) by apply cl_run_reachable. pose proof (inv_reach _ _ _ _ _ _ c R) as Hi. destruct Hi as [St A].
  pose proof (sum_nil c e (conj St A)) as S. set (c' := step c e) in *.
  assert (CE : cl_close_err c <> CENil).
  { unfold cl_close_err. pose proof (s_lastErr _ St) as L. destruct (cc_lastErr c); [congruence | discriminate]. }
  assert (P1 : forall t x', cl_ctx_get c' t = Some x' -> ct_err x' = Some CENil -> nil_origin (evs ++ [e]) (ct_sid x')).
  { intros t x' G' E'. destruct (cl_ctx_get c t) as [x|] eqn:G.
    2:{ exfalso. destruct (ss_new _ _ _ _ S _ _ G G') as (rq & q & _ & _ & _ & _ & _ & _ & _ & _ & _ & _ & [(En & _)|(En & _)]); congruence. }
    destruct (ss_old _ _ _ _ S _ _ G) as (x'' & G'' & M). rewrite G' in G''. inversion G''; subst x''. clear G''.
    assert (KEEP : forall y, ct_err y = ct_err x -> ct_sid y = ct_sid x -> cev (CP:=cp_nil c e) y x' -> nil_origin (evs ++ [e]) (ct_sid x')).
    { intros y Ey Sy V. destruct (cev_err _ _ V) as [Es|(En & _ & e0 & Es & Eo)].
      - rewrite Es, Ey in E'. rewrite (cev_sid _ _ V), Sy. apply nil_origin_snoc, (IH1 t x G E').
      - rewrite Es in E'. inversion E'; subst e0. cbn in Eo. destruct Eo as [F|Hn]; [congruence|].
        rewrite (cev_sid _ _ V). destruct Hn as (fr & -> & Hn). exists evs, fr, []. split; [reflexivity|]. exists fr. split; [reflexivity | exact Hn]. }
    destruct M as [V|Ee Wr [->|(CL & Z & ->)]|Ee Ar Fi ->|Ee Fi Ca V|Ee Rr En ->|Ee WL (q & IQ) Dn Z GA V|Ee WL (q & IQ) CO Z ->].
    - apply (KEEP x); auto.
    - apply (KEEP (ctu_writing x false)); auto. apply cev_refl.
    - destruct (resolve_err_cases (ctu_done (ctu_writing x false) true) (cl_close_err c)) as [Es|[_ Es]]; [|rewrite Es in E'; congruence].
      cbn in Es. rewrite Es in E'. rewrite resolve_sid. apply nil_origin_snoc, (IH1 t x G E').
    - destruct (resolve_err_cases (ctu_fired x true) CETimeout) as [Es|[_ Es]]; [|rewrite Es in E'; discriminate].
      cbn in Es. rewrite Es in E'. rewrite resolve_sid. apply nil_origin_snoc, (IH1 t x G E').
    - apply (KEEP (ctu_cancelled x true)); auto.
    - discriminate.
    - exfalso. destruct (cev_err _ _ V) as [Es|(En & _ & e0 & Es & Eo)].
      + cbn in Es. rewrite Es in E'. apply (nil_origin_nonzero evs). rewrite <- Z. apply (IH1 t x G E').
      + rewrite Es in E'. inversion E'; subst e0. cbn in Eo. destruct Eo as [F|(fr & Ef & _)]; [congruence | subst e; discriminate].
    - destruct (resolve_err_cases x CENoStreams) as [Es|[_ Es]]; [|rewrite Es in E'; discriminate].
      rewrite Es in E'. rewrite resolve_sid. apply nil_origin_snoc, (IH1 t x G E'). }
  split; [exact P1|].
  intros t r resp H. destruct (ss_out _ _ _ _ S) as (l & Hl & Fl & _). rewrite Hl in H. apply in_app_iff in H.
  destruct H as [H|H].
  - rewrite Forall_forall in Fl. destruct (Fl _ H) as [B|(Ee & x & G & Rr & Ex & _)]; [discriminate|].
    destruct (ss_res _ _ _ _ S t r CENil resp) as (x0 & G0 & G0').
    + rewrite Hl. apply in_app_iff. left. exact H.
    + intro J. pose proof (results_exact dec_field enc_field enc_set_max cfg h0 first evs t) as RE. fold c in RE.
      unfold ret_flag in RE. rewrite G, Rr in RE. unfold res_count in RE. apply length_zero_iff_nil in RE.
      assert (In (COResult t r CENil resp) (filter (is_res_of t) (cc_out c))) by (apply filter_In; split; [exact J | cbn; apply N.eqb_refl]).
      rewrite RE in H0. destruct H0.
    + rewrite G in G0. inversion G0; subst x0. exists (recv_ctx x). split; [exact G0'|]. split; [reflexivity|].
      apply nil_origin_snoc, (IH1 t x G Ex).
  - destruct (IH2 t r resp H) as (x & G & Dn & Hs). destruct (ss_old _ _ _ _ S _ _ G) as (x' & G' & M).
    assert (K : ct_done x' = true /\ ct_sid x' = ct_sid x).
    { destruct M as [V|Ee Wr [->|(CL & Z & ->)]|Ee Ar Fi ->|Ee Fi Ca V|Ee Rr En ->|Ee WL (q & IQ) Dn' Z GA V|Ee WL (q & IQ) CO Z ->].
      - rewrite (cev_done _ _ V), (cev_sid _ _ V). auto.
      - auto.
      - rewrite resolve_done, resolve_sid. auto.
      - rewrite resolve_done, resolve_sid. auto.
      - rewrite (cev_done _ _ V), (cev_sid _ _ V). auto.
      - auto.
      - congruence.
      - rewrite resolve_done, resolve_sid. auto. }
    destruct K as [K1 K2]. exists x'. split; [exact G'|]. split; [exact K1|]. rewrite K2. apply nil_origin_snoc, Hs.
Qed.

(* C12 (b): a nil result is only ever given for a response the server completed *)
Theorem nil_complete evs t r resp : In (COResult t r CENil resp) (cc_out (run evs)) ->
  exists x, cl_ctx_get (run evs) t = Some x /\ ct_sid x <> 0 /\
    exists pre fr post, evs = pre ++ CEvRL (RFrame fr) :: post /\ sf_sid fr = ct_sid x /\
      cl_rl_live (run pre) = true /\ cc_netClosed (run pre) = false /\ es_seen (run pre) fr /\
      exists t0 x0, In (ct_sid x, t0) (cc_reqQueued (run pre)) /\ cl_ctx_get (run pre) t0 = Some x0 /\ ct_done x0 = false /\
                    status_seen (run pre) fr x0.
Proof.
  intro H. destruct (proj2 (nil_inv_run evs) t r resp H) as (x & G & _ & (pre & fr & post & -> & Hn)).
  destruct (nil_now_facts _ _ _ (proj1 (inv_run dec_field enc_field enc_set_max cfg h0 first pre)) Hn)
    as (NZ & fr' & Ef & Sf & RL & NC & ES & F). inversion Ef; subst fr'.
  exists x. split; [exact G|]. split; [exact NZ|]. exists pre, fr, post. repeat split; auto.
Qed.

End Nil.
