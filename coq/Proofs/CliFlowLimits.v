(* Proofs/CliFlowLimits.v - C18, client role: SETTINGS acknowledged once, in order, after the values are merged;
   invalid SETTINGS end the connection; the server's limits (MAX_CONCURRENT_STREAMS, HEADER_TABLE_SIZE) and the
   client's own settings (ENABLE_PUSH = 0) as the connection enforces them. *)
From H2V Require Import Base.Bytes Base.MachineInt Base.Result Gen.GenConsts Impl.ServerConn Impl.ClientConn
     Proofs.CliDefs Spec.FlowLedger Spec.Rfc7540Frames Proofs.CliFlowMoves Proofs.CliFlowOut Proofs.CliFlowSettings
     Proofs.CliFlowSafe Proofs.CliFlowEs.
From Coq Require Import ZArith Lia ZifyN ZifyNat ZifyBool List Bool.
Import ListNotations.
Local Open Scope N_scope.
Set Default Proof Using "Type".

Definition is_ack (o : coutev) : bool := match o with COSettingsAck => true | _ => false end.
Definition acks (l : list coutev) : nat := length (filter is_ack l).

Lemma acks_app a b : acks (a ++ b) = (acks a + acks b)%nat.
Proof. unfold acks. rewrite filter_app, app_length. reflexivity. Qed.

Lemma acks_frames sid l : acks (frames_of sid l) = 0%nat.
Proof. unfold acks, frames_of. induction l as [|x t IH]; cbn [map filter is_ack]; [reflexivity | exact IH]. Qed.

Section Limits.
Variable hstate : Type.
Variable dec_field : hstate -> N -> bytes -> dec_res hstate.
Variable enc_field : hstate -> bytes -> bytes -> bool -> bytes * hstate.
Variable enc_set_max : hstate -> N -> hstate.
Variable cfg : cl_config.
Variable h0 : hstate.
Variable first : bytes.
Notation cconn := (cconn hstate).
Notation move := (move hstate).
Notation apply := (apply hstate enc_field enc_set_max).
Notation valid := (valid hstate).
Notation items := (items hstate).
Notation mvs := (mvs enc_field enc_set_max).
Notation mitems := (mitems hstate enc_field enc_set_max).
Notation step := (cl_step dec_field enc_field enc_set_max cfg).
Notation run := (cl_run dec_field enc_field enc_set_max cfg h0 first).
Notation init := (cl_init enc_set_max h0 first).

(* ---------- the step that takes a SETTINGS frame in ---------- *)

(* a SETTINGS frame that is not an ACK, on stream 0, taken in by a running read loop *)
Definition settings_taken (c : cconn) (fr : sframe) : Prop :=
  cl_rl_live c = true /\ cc_netClosed c = false /\ sf_kind fr = KSettings /\ sf_sid fr = 0 /\ flag_has (sf_flags fr) FL_ES = false.

Lemma rl_step_settings (c : cconn) fr st : settings_taken c fr -> cl_settings_deserialize false (sf_payload fr) = Some st ->
  step c (CEvRL (RFrame fr)) = cl_handle_settings c st.
Proof.
  intros (LV & NC & K & S0 & ACK) DS. cbn [cl_step]. rewrite LV. unfold cl_rl_step. rewrite NC, S0, K, ACK. cbn [N.eqb]. rewrite DS. reflexivity.
Qed.

Lemma rl_step_settings_invalid (c : cconn) fr : settings_taken c fr -> cl_settings_deserialize false (sf_payload fr) = None ->
  step c (CEvRL (RFrame fr)) = cl_rl_fail c.
Proof.
  intros (LV & NC & K & S0 & ACK) DS. cbn [cl_step]. rewrite LV. unfold cl_rl_step. rewrite NC, S0, K, ACK. cbn [N.eqb]. rewrite DS. reflexivity.
Qed.

(* C18 (client): the SETTINGS frame is merged into what the client knows of the server (only the parameters
   present change, each to the last value sent for it), the atomics the write loop reads are stored, the send
   windows are adjusted, and then one ACK is queued behind whatever is already in c.out; nothing is written *)
Theorem settings_ack_step (c : cconn) fr st :
  settings_taken c fr -> cl_settings_deserialize false (sf_payload fr) = Some st ->
  let c' := step c (CEvRL (RFrame fr)) in
  let ps := settings_pairs (sf_payload fr) in
  cc_serverS c' = cl_settings_merge st (cc_serverS c) /\
  cc_maxStreams c' = pairs_last ps 3 (cs_streams (cc_serverS c)) /\
  cc_maxFrame c' = pairs_last ps 5 (cs_frame (cc_serverS c)) /\
  cc_encTableSize c' = (if pairs_has ps 1 then pairs_last ps 1 0 else cc_encTableSize c) /\
  cc_streamWindow c' = (if pairs_has ps 4 then Z.of_N (pairs_last ps 4 0) else cc_streamWindow c) /\
  cc_out c' = cc_out c /\
  cc_outQ c' = (if cc_closed c then cc_outQ c else cc_outQ c ++ [COSettingsAck]).
Proof.
  intros T DS. cbv zeta. rewrite (rl_step_settings c fr st T DS).
  pose proof (settings_merge_delta _ _ (cc_serverS c) DS) as MD.
  destruct (deserialize_facts _ _ DS) as (E & _ & _ & HW & HAS).
  assert (H1 : cl_settings_has st c_HeaderTableSize = pairs_has (settings_pairs (sf_payload fr)) 1) by (apply HAS; clear; lia).
  destruct (deserialize_win _ _ DS) as [_ WS]. unfold win_of in WS.
  unfold cl_handle_settings, cl_apply_initial_window, cl_signal_window, cl_write_out. rewrite H1, HW.
  assert (TB : cs_table st = pairs_last (settings_pairs (sf_payload fr)) 1 (cs_table cl_settings_default)) by (rewrite E; reflexivity).
  assert (WN : cs_window st = pairs_last (settings_pairs (sf_payload fr)) 4 (cs_window cl_settings_default)) by (rewrite E; reflexivity).
  destruct (pairs_has (settings_pairs (sf_payload fr)) 1) eqn:P1, (pairs_has (settings_pairs (sf_payload fr)) 4) eqn:P4; cc_cbn;
    destruct (cc_closed c) eqn:CL; cc_cbn; rewrite ?CL; cc_cbn; rewrite MD; cbn [cs_streams cs_frame];
    repeat split; try reflexivity;
    try (rewrite TB; unfold pairs_last; apply plast_present; exact P1);
    try (rewrite HW in WS; cbn [win_small] in WS; rewrite cl_i32_id by flia; rewrite WN; f_equal; unfold pairs_last; apply plast_present; exact P4).
Qed.

(* invalid values (ENABLE_PUSH above 1, INITIAL_WINDOW_SIZE above 2^31-1, MAX_FRAME_SIZE outside 2^14 .. 2^24-1) or
   a payload that is not a multiple of six bytes: the read loop returns and the connection is closed *)
Theorem settings_invalid_step (c : cconn) fr :
  settings_taken c fr ->
  (len (sf_payload fr) mod 6 =? 0) && forallb setting_valid (settings_pairs (sf_payload fr)) = false ->
  let c' := step c (CEvRL (RFrame fr)) in
  cc_rl_done c' = true /\ cc_closed c' = true /\ (cc_closed c = false -> cc_netClosed c' = true) /\ cc_lastErr c' <> None /\
  cc_outQ c' = cc_outQ c /\ acks (cc_out c') = acks (cc_out c).
Proof.
  intros T BAD. cbv zeta.
  assert (DS : cl_settings_deserialize false (sf_payload fr) = None) by (rewrite settings_deserialize_spec, BAD; reflexivity).
  rewrite (rl_step_settings_invalid c fr T DS).
  unfold cl_rl_fail, cl_rl_exit, cl_conn_close, cl_close_begin, cl_close_net, cl_set_last_err.
  destruct (cc_lastErr c) eqn:LE; cc_cbn; destruct (cc_closed c) eqn:CL; cc_cbn; rewrite ?LE, ?CL; cc_cbn;
    try (destruct (cl_can_write _); cc_cbn); repeat split; try discriminate; try reflexivity; try (rewrite LE; discriminate).
Qed.

(* ---------- one ACK per SETTINGS frame ---------- *)

(* the move applies a SETTINGS payload *)
Definition eff (m : move) : nat :=
  match m with
  | MSettings p => match cl_settings_deserialize false p with Some _ => 1 | None => 0 end
  | _ => 0
  end.

Record KInv (c : cconn) (n : nat) : Prop := mkKInv {
  k_le : (acks (cc_out c) + acks (cc_outQ c) <= n)%nat;
  k_eq : cc_closed c = false -> cl_can_write c = true -> (acks (cc_out c) + acks (cc_outQ c))%nat = n
}.

Lemma KInv_same (c c' : cconn) n :
  cc_out c' = cc_out c -> cc_outQ c' = cc_outQ c -> (cc_closed c' = false -> cc_closed c = false) ->
  (cl_can_write c' = true -> cl_can_write c = true) -> KInv c n -> KInv c' n.
Proof. intros A B C Dd [k1 k2]. constructor; rewrite ?A, ?B; auto. Qed.

Lemma acks_cons o l : acks (o :: l) = ((if is_ack o then 1 else 0) + acks l)%nat.
Proof. unfold acks. cbn [filter]. destruct (is_ack o); reflexivity. Qed.

Lemma mv_K m (c : cconn) n : valid m c -> KInv c n -> KInv (apply m c) (n + eff m).
Proof.
  intros V K. destruct m; cbn [eff]; rewrite ?Nat.add_0_r;
    try (apply (KInv_same c); try reflexivity; auto; fail).
  - (* MNote *)
    cbn [apply]. destruct (quietb o) eqn:Q; [|exact K]. destruct K as [k1 k2].
    assert (E : acks (o :: cc_out c) = acks (cc_out c)) by (rewrite acks_cons; destruct o; try discriminate; reflexivity).
    constructor; cc_cbn; rewrite E; auto.
  - (* MClosed *) apply (KInv_same c); try reflexivity; auto. cbn [apply]. cc_cbn. discriminate.
  - (* MNetClosed *) apply (KInv_same c); try reflexivity; auto. unfold cl_can_write. cbn [apply]. cc_cbn. rewrite andb_false_r. discriminate.
  - (* MWriteFail *) apply (KInv_same c); try reflexivity; auto. unfold cl_can_write. cbn [apply]. cc_cbn. discriminate.
  - (* MReqTake *)
    cbn [apply]. unfold cl_take_req_count. destruct (cl_req_find _ _); [|exact K]. apply (KInv_same c); try reflexivity; auto.
  - (* MQClear *)
    cbn [valid] in V. destruct K as [k1 k2]. constructor; cbn [apply]; cc_cbn; [unfold acks at 2; cbn [filter length]; flia|].
    intro X. congruence.
  - (* MOutQPush *)
    cbn [apply]. destruct (pushb o) eqn:Q; [|exact K]. unfold cl_write_out. destruct (cc_closed c) eqn:CL; [exact K|].
    destruct K as [k1 k2].
    assert (E : acks (cc_outQ c ++ [o]) = acks (cc_outQ c)).
    { rewrite acks_app, acks_cons. destruct o; try discriminate; cbn; flia. }
    constructor; cc_cbn; rewrite E; auto.
  - (* MWlWrite *)
    destruct V as [CW NE]. destruct K as [k1 k2]. cbn [apply]. destruct (cc_outQ c) as [|o q] eqn:Q; [congruence|].
    rewrite acks_cons in k1, k2. constructor; cc_cbn; rewrite acks_cons; [flia|]. intros X Y. specialize (k2 X Y). flia.
  - (* MWlReset *)
    cbn [apply]. destruct K as [k1 k2]. constructor; cc_cbn; rewrite acks_cons; cbn [is_ack Nat.add]; auto.
  - (* MOutQDrop *)
    cbn [valid] in V. destruct K as [k1 k2]. constructor; cbn [apply]; cc_cbn.
    + destruct (cc_outQ c) as [|o q]; cbn [tl]; [exact k1|]. rewrite acks_cons in k1. flia.
    + intros _ X. unfold cl_can_write in *. cc_cbn_in X. congruence.
  - (* MRecvData *)
    cbn [apply]. destruct K as [k1 k2].
    assert (E : cc_out (recv_data c fr has_res) = cc_out c /\ acks (cc_outQ (recv_data c fr has_res)) = acks (cc_outQ c) /\
                cc_closed (recv_data c fr has_res) = cc_closed c /\ cl_can_write (recv_data c fr has_res) = cl_can_write c).
    { unfold recv_data, cl_update_window, cl_write_out, cl_can_write. cc_cbn.
      repeat match goal with |- context [if ?b then _ else _] => destruct b eqn:? end; cc_cbn; repeat split; try reflexivity; try congruence;
        unfold acks; rewrite ?filter_app, ?app_length; cbn [filter is_ack length]; flia. }
    destruct E as (E1 & E2 & E3 & E4). constructor; rewrite E1, E2, ?E3, ?E4; auto.
  - (* MSettings *)
    cbn [apply]. destruct (cl_settings_deserialize false payload) as [st|]; [|rewrite Nat.add_0_r; exact K].
    destruct K as [k1 k2].
    unfold cl_handle_settings, cl_apply_initial_window, cl_signal_window, cl_write_out, cl_can_write. cc_cbn.
    destruct (cl_settings_has st c_HeaderTableSize), (cs_hasWin st); cc_cbn;
      destruct (cc_closed c) eqn:CL; constructor; cc_cbn; rewrite ?acks_app; cbn [acks filter is_ack length];
      try flia; intros X Y; try congruence; unfold cl_can_write in k2; specialize (k2 eq_refl Y); flia.
  - (* MAddWindow *)
    cbn [apply]. unfold cl_add_window, cl_signal_window. destruct (sid =? 0); [apply (KInv_same c); try reflexivity; auto|].
    destruct (cl_pend_get _ _); apply (KInv_same c); try reflexivity; auto.
  - (* MRefill *)
    cbn [apply]. destruct (cl_pend_get _ _) as [pb|]; [|exact K]. destruct (cl_refill pb); [|exact K]. apply (KInv_same c); try reflexivity; auto.
  - (* MSend *)
    cbn [apply]. destruct (cl_pend_get _ _) as [pb|]; [|exact K].
    assert (X : KInv (cs_conn c pb id) n) by (apply (KInv_same c); unfold cs_conn; destruct (cs_end c pb); try reflexivity; auto).
    destruct wr; [|exact X].
    destruct (write_data_shape (cc_maxFrame (cs_conn c pb id)) id (cs_chunk c pb) (cs_end c pb)) as (l & E & _).
    rewrite E. destruct X as [k1 k2].
    destruct (notes_fields hstate (frames_of id l) (cs_conn c pb id)) as (_ & _ & F3).
    assert (E2 : cc_closed (cl_notes (cs_conn c pb id) (frames_of id l)) = cc_closed (cs_conn c pb id) /\
                 cl_can_write (cl_notes (cs_conn c pb id) (frames_of id l)) = cl_can_write (cs_conn c pb id)).
    { generalize (frames_of id l). generalize (cs_conn c pb id). intros c0 l0. revert c0. induction l0 as [|o t IH]; intro c0; [split; reflexivity|].
      cbn [cl_notes]. destruct (IH (cl_note c0 o)) as [A B]. rewrite A, B. split; reflexivity. }
    destruct E2 as [E21 E22].
    constructor; rewrite (out_notes hstate), F3, acks_app, ?E21, ?E22; unfold acks at 1; rewrite <- (rev_length (filter is_ack (rev (frames_of id l))));
      fold (acks (frames_of id l)).
    all: assert (Z0 : length (filter is_ack (rev (frames_of id l))) = 0%nat)
        by (clear; unfold frames_of; induction l as [|x t IH]; cbn [map rev]; [reflexivity|]; rewrite filter_app, app_length, IH; reflexivity).
    all: rewrite rev_length, Z0; cbn [Nat.add]; assumption.
  - (* MSendBack *)
    cbn [apply]. destruct (cl_pend_get _ _) as [pb|]; [|exact K]. sb_cases c pb; apply (KInv_same c); try reflexivity; auto.
  - (* MEncSync *) cbn [apply]. destruct (negb _); [|exact K]. apply (KInv_same c); try reflexivity; auto.
  - (* MHeaders *)
    cbn [apply]. destruct K as [k1 k2]. destruct opb; constructor; cc_cbn; rewrite acks_cons; cbn [is_ack Nat.add]; auto.
Qed.

Fixpoint sum_eff (ms : list move) : nat := match ms with [] => 0 | m :: t => eff m + sum_eff t end.

Lemma mvs_K (c : cconn) ms c' : mvs c ms c' -> forall n, KInv c n -> KInv c' (n + sum_eff ms).
Proof.
  induction 1 as [c|c m ms c' V M IH]; intros n K; cbn [sum_eff]; [rewrite Nat.add_0_r; exact K|].
  rewrite Nat.add_assoc. apply IH. apply mv_K; assumption.
Qed.

Lemma sum_eff0 ms : Forall (fun m => eff m = 0%nat) ms -> sum_eff ms = 0%nat.
Proof. induction 1 as [|m t H Ht IH]; cbn [sum_eff]; [reflexivity|]. rewrite H, IH. reflexivity. Qed.

(* the step takes a valid SETTINGS frame in *)
Definition nset (c : cconn) (e : cevent) : nat :=
  match e with
  | CEvRL (RFrame fr) =>
    if cl_rl_live c && negb (cc_netClosed c) && fkind_eqb (sf_kind fr) KSettings && (sf_sid fr =? 0) && negb (flag_has (sf_flags fr) FL_ES)
    then match cl_settings_deserialize false (sf_payload fr) with Some _ => 1 | None => 0 end
    else 0
  | _ => 0
  end.

Lemma D_eff0_K (c c' : cconn) g n : D enc_field enc_set_max (fun m => eff m = 0%nat) g c c' -> KInv c n -> KInv c' n.
Proof.
  intros (ms & M & F & _) K. pose proof (mvs_K c ms c' M n K) as H. rewrite (sum_eff0 ms F), Nat.add_0_r in H. exact H.
Qed.

Lemma step_K (c : cconn) e n : KInv c n -> KInv (step c e) (n + nset c e).
Proof.
  intro K.
  destruct (step_D hstate dec_field enc_field enc_set_max cfg c e) as (ms & M & F & _).
  (* unless the event is a SETTINGS frame for the connection that is not an ACK, no move applies settings *)
  assert (GEN : (forall fr, e = CEvRL (RFrame fr) -> sf_kind fr = KSettings -> sf_sid fr = 0 -> flag_has (sf_flags fr) FL_ES = false ->
                            cl_settings_deserialize false (sf_payload fr) = None) ->
                KInv (step c e) n).
  { intro H. pose proof (mvs_K c ms _ M n K) as X. rewrite sum_eff0, Nat.add_0_r in X; [exact X|].
    eapply Forall_impl; [|exact F]. intros m E. destruct m; try reflexivity. cbn in E. destruct E as (fr & E1 & E2 & E3 & E4 & ->).
    cbn [eff]. rewrite (H fr E1 E2 E3 E4). reflexivity. }
  destruct e as [| | | | | | |i| | | | | |]; cbn [nset]; rewrite ?Nat.add_0_r; try (apply GEN; intros fr X; discriminate).
  destruct i as [fr| | |]; rewrite ?Nat.add_0_r; try (apply GEN; intros fr X; discriminate).
  destruct (fkind_eqb (sf_kind fr) KSettings) eqn:KS; rewrite ?andb_false_r; cbn [andb]; rewrite ?Nat.add_0_r;
    [apply fkind_eqb_eq in KS | apply GEN; intros fr' X Y; inversion X; subst fr'; rewrite Y in KS; discriminate].
  destruct (sf_sid fr =? 0) eqn:S0; rewrite ?andb_false_r; cbn [andb]; rewrite ?Nat.add_0_r;
    [apply N.eqb_eq in S0 | apply GEN; intros fr' X _ Y; inversion X; subst fr'; rewrite Y in S0; discriminate].
  destruct (flag_has (sf_flags fr) FL_ES) eqn:ACK; rewrite ?andb_false_r; cbn [negb andb]; rewrite ?Nat.add_0_r;
    [apply GEN; intros fr' X _ _ Y; inversion X; subst fr'; congruence|].
  destruct (cl_settings_deserialize false (sf_payload fr)) as [st|] eqn:DS;
    [|destruct (_ && _); rewrite Nat.add_0_r; apply GEN; intros fr' X _ _ _; inversion X; subst fr'; exact DS].
  destruct (cl_rl_live c) eqn:LV; cbn [andb]; [|rewrite Nat.add_0_r; cbn [cl_step]; rewrite LV; exact K].
  destruct (cc_netClosed c) eqn:NC; cbn [negb andb].
  - rewrite Nat.add_0_r. cbn [cl_step]. rewrite LV. unfold cl_rl_step. rewrite NC.
    apply (D_eff0_K c _ []); [|exact K]. apply rl_fail_DP; [intros m A; destruct m; try reflexivity; destruct A | reflexivity].
  - assert (T : settings_taken c fr) by (repeat split; assumption).
    rewrite (rl_step_settings c fr st T DS).
    pose proof (mv_K (MSettings (sf_payload fr)) c n I K) as X. cbn [apply eff] in X. rewrite DS in X. exact X.
Qed.

Fixpoint nsets_from (c : cconn) (evs : list cevent) : nat :=
  match evs with
  | [] => 0
  | e :: t => nset c e + nsets_from (step c e) t
  end.

Lemma K_from evs : forall (c : cconn) n, KInv c n -> KInv (fold_left step evs c) (n + nsets_from c evs).
Proof.
  induction evs as [|e t IH]; intros c n K; cbn [fold_left nsets_from]; [rewrite Nat.add_0_r; exact K|].
  rewrite Nat.add_assoc. apply IH. apply step_K. exact K.
Qed.

(* C18 (client): exactly one ACK per SETTINGS frame taken in. The ACKs written plus those waiting in c.out never
   exceed the number of valid non-ACK SETTINGS frames the read loop has taken in, and are exactly as many while the
   connection has not been closed and writes reach the socket. (They leave c.out in the order they were queued:
   the write loop takes the head of the queue, MWlWrite.) *)
Theorem settings_acks evs :
  let c := run evs in
  (acks (cl_trace c) + acks (cc_outQ c) <= nsets_from init evs)%nat /\
  (cc_closed c = false -> cl_can_write c = true -> (acks (cl_trace c) + acks (cc_outQ c))%nat = nsets_from init evs).
Proof.
  cbv zeta. assert (K0 : KInv init 0).
  { unfold cl_init. destruct (cl_settings_deserialize false first); constructor; cc_cbn; intros; reflexivity. }
  destruct (K_from evs init 0 K0) as [k1 k2]. fold (run evs) in *. cbn [Nat.add] in *.
  assert (E : acks (cl_trace (run evs)) = acks (cc_out (run evs))).
  { unfold cl_trace, acks. rewrite <- (rev_length (filter is_ack (rev _))).
    generalize (cc_out (run evs)). clear. intro l. induction l as [|o t IH]; [reflexivity|].
    cbn [rev]. rewrite filter_app, rev_app_distr. cbn [filter]. destruct (is_ack o); cbn [rev app length]; rewrite IH; reflexivity. }
  rewrite E. split; assumption.
Qed.

(* ---------- nothing is written once the socket is closed ---------- *)

Lemma notes_flags l : forall (c : cconn),
  cc_netClosed (cl_notes c l) = cc_netClosed c /\ cc_encTableSeen (cl_notes c l) = cc_encTableSeen c /\
  cc_encTableSize (cl_notes c l) = cc_encTableSize c /\ cc_enc (cl_notes c l) = cc_enc c /\
  cc_reqQueued (cl_notes c l) = cc_reqQueued c /\ cc_open (cl_notes c l) = cc_open c /\ cc_goAway (cl_notes c l) = cc_goAway c.
Proof.
  induction l as [|o t IH]; intro c; cbn [cl_notes]; [repeat split|].
  destruct (IH (cl_note c o)) as (A & B & C & Dd & E & F & G). rewrite A, B, C, Dd, E, F, G. repeat split.
Qed.

(* the fields the limits are about, move by move: what each move can change *)
Lemma apply_fields m (c : cconn) :
  (cc_netClosed c = true -> cc_netClosed (apply m c) = true) /\
  ((forall p, m <> MSettings p) -> cc_encTableSize (apply m c) = cc_encTableSize c) /\
  (m <> MEncSync -> cc_encTableSeen (apply m c) = cc_encTableSeen c) /\
  (m <> MEncSync -> (forall rq, m <> MEnc rq) -> cc_enc (apply m c) = cc_enc c).
Proof.
  destruct m; cbn [apply]; try (repeat split; auto; fail).
  - destruct (quietb o); repeat split; auto.
  - unfold cl_take_req_count. destruct (cl_req_find _ _); repeat split; auto.
  - destruct (pushb o); [|repeat split; auto]. unfold cl_write_out. destruct (cc_closed c); repeat split; auto.
  - destruct (cc_outQ c); repeat split; auto.
  - unfold recv_data, cl_update_window, cl_write_out. cc_cbn.
    repeat match goal with |- context [if ?b then _ else _] => destruct b end; repeat split; auto.
  - destruct (cl_settings_deserialize false payload) as [st|]; [|repeat split; auto].
    unfold cl_handle_settings, cl_apply_initial_window, cl_signal_window, cl_write_out. cc_cbn.
    destruct (cl_settings_has st c_HeaderTableSize), (cs_hasWin st); cc_cbn;
      match goal with |- context [if ?b then _ else _] => destruct b end; repeat split; auto;
      intro H; exfalso; exact (H payload eq_refl).
  - unfold cl_add_window, cl_signal_window. destruct (sid =? 0); [repeat split; auto|]. destruct (cl_pend_get _ _); repeat split; auto.
  - destruct (cl_pend_get _ _) as [pb|]; [|repeat split; auto]. destruct (cl_refill pb); repeat split; auto.
  - destruct (cl_pend_get _ _) as [pb|]; [|repeat split; auto].
    assert (X : cc_netClosed (cs_conn c pb id) = cc_netClosed c /\ cc_encTableSeen (cs_conn c pb id) = cc_encTableSeen c /\
                cc_encTableSize (cs_conn c pb id) = cc_encTableSize c /\ cc_enc (cs_conn c pb id) = cc_enc c)
      by (unfold cs_conn; destruct (cs_end c pb); repeat split).
    destruct X as (X1 & X2 & X3 & X4). destruct wr.
    + destruct (notes_flags (cl_write_data (cc_maxFrame (cs_conn c pb id)) id (cs_chunk c pb) (cs_end c pb)) (cs_conn c pb id)) as (A & B & C & Dd & _).
      rewrite A, B, C, Dd, X1, X2, X3, X4. repeat split; auto.
    + rewrite X1, X2, X3, X4. repeat split; auto.
  - destruct (cl_pend_get _ _) as [pb|]; [|repeat split; auto]. sb_cases c pb; repeat split; auto.
  - destruct (negb _); repeat split; auto; intro H; exfalso; apply H; reflexivity.
  - repeat split; auto. intros _ H. exfalso. exact (H rq eq_refl).
  - destruct opb; repeat split; auto.
Qed.

Lemma netclosed_items m (c : cconn) : valid m c -> cc_netClosed c = true -> Forall (fun o => quietb o = true) (items m c).
Proof.
  intros V NC. assert (CW : cl_can_write c = false) by (unfold cl_can_write; rewrite NC, andb_false_r; reflexivity).
  destruct m; cbn [items]; try constructor.
  - destruct (quietb o) eqn:Q; constructor; [exact Q | constructor].
  - destruct V as [X _]. congruence.
  - (* MWlReset *) cbn [valid] in V. congruence.
  - constructor.
  - destruct V as (pb & G & _ & WR). rewrite G. destruct wr; [|constructor]. destruct (WR eq_refl) as [X _]. congruence.
  - destruct V as (X & _). congruence.
  - constructor.
Qed.

(* C18 (client): once c.c.Close() has been called - by the read loop's own Close when it is the first to close the
   connection, otherwise by the second half of the caller's Close - nothing is written any more: the items a step
   adds to the trace are results and notes, never frames *)
Theorem no_frames_after_close (c : cconn) e : cc_netClosed c = true ->
  cc_netClosed (step c e) = true /\ Forall (fun o => quietb o = true) (g_new hstate c (step c e)).
Proof.
  intro NC. destruct (step_D hstate dec_field enc_field enc_set_max cfg c e) as (ms & M & _).
  rewrite (mvs_new _ _ _ _ _ _ M). generalize dependent (step c e). intros cf M.
  induction M as [c|c m ms c' V M IH]; cbn [CliFlowOut.mitems]; [split; [exact NC | constructor]|].
  destruct (apply_fields m c) as (A & _). destruct (IH (A NC)) as [X Y]. split; [exact X|].
  apply Forall_app. split; [apply netclosed_items; assumption | exact Y].
Qed.

(* ---------- SETTINGS_MAX_CONCURRENT_STREAMS ---------- *)

(* while the server has not sent GOAWAY the counter the client checks is at least the number of streams on its table *)
Definition OInv (c : cconn) : Prop := cc_goAway c = false -> (Z.of_nat (length (cc_reqQueued c)) <= cc_open c)%Z.

Lemma filter_find_length (l : list (N * N)) id t : cl_req_find l id = Some t ->
  (S (length (filter (fun e => negb (fst e =? id)%N) l)) <= length l)%nat.
Proof.
  induction l as [|[i t0] r IH]; cbn [cl_req_find filter fst length]; [discriminate|].
  destruct (i =? id); cbn [negb].
  - intros _. assert (X : forall (f : N * N -> bool) (r0 : list (N * N)), (length (filter f r0) <= length r0)%nat).
    { clear. intros f r0. induction r0 as [|a t IH]; cbn [filter length]; [lia|]. destruct (f a); cbn [length]; lia. }
    pose proof (X (fun e => negb (fst e =? id)) r). flia.
  - intro H. specialize (IH H). cbn [length]. flia.
Qed.

Lemma mv_O m (c : cconn) : valid m c -> OInv c -> OInv (apply m c).
Proof.
  intros V O. unfold OInv in *.
  destruct m; cbn [apply]; try exact O.
  - destruct (quietb o); exact O.
  - cc_cbn. discriminate.
  - unfold cl_take_req_count, cl_req_del. destruct (cl_req_find _ _) eqn:F; [|exact O]. cc_cbn. intro G. specialize (O G).
    pose proof (filter_find_length _ _ _ F). flia.
  - cc_cbn. intro G. specialize (O G). rewrite app_length. cbn [length]. flia.
  - cbn [valid] in V. cc_cbn. congruence.
  - cbn [valid] in V. cc_cbn. congruence.
  - cc_cbn. intro G. specialize (O G). cbn [length]. flia.
  - destruct (pushb o); [|exact O]. unfold cl_write_out. destruct (cc_closed c); exact O.
  - destruct (cc_outQ c); exact O.
  - unfold recv_data, cl_update_window, cl_write_out. cc_cbn.
    repeat match goal with |- context [if ?b then _ else _] => destruct b end; exact O.
  - destruct (cl_settings_deserialize false payload) as [st|]; [|exact O].
    unfold cl_handle_settings, cl_apply_initial_window, cl_signal_window, cl_write_out. cc_cbn.
    destruct (cl_settings_has st c_HeaderTableSize), (cs_hasWin st); cc_cbn;
      match goal with |- context [if ?b then _ else _] => destruct b end; exact O.
  - unfold cl_add_window, cl_signal_window. destruct (sid =? 0); [exact O|]. destruct (cl_pend_get _ _); exact O.
  - destruct (cl_pend_get _ _) as [pb|]; [|exact O]. destruct (cl_refill pb); exact O.
  - destruct (cl_pend_get _ _) as [pb|]; [|exact O].
    assert (X : cc_goAway (cs_conn c pb id) = cc_goAway c /\ cc_reqQueued (cs_conn c pb id) = cc_reqQueued c /\ cc_open (cs_conn c pb id) = cc_open c)
      by (unfold cs_conn; destruct (cs_end c pb); repeat split).
    destruct X as (X1 & X2 & X3). destruct wr.
    + destruct (notes_flags (cl_write_data (cc_maxFrame (cs_conn c pb id)) id (cs_chunk c pb) (cs_end c pb)) (cs_conn c pb id)) as (_ & _ & _ & _ & E & F & G).
      rewrite E, F, G, X1, X2, X3. exact O.
    + rewrite X1, X2, X3. exact O.
  - destruct (cl_pend_get _ _) as [pb|]; [|exact O]. sb_cases c pb; exact O.
  - destruct (negb _); exact O.
  - destruct opb; exact O.
Qed.

Lemma O_run evs : OInv (run evs).
Proof.
  apply (run_inv hstate dec_field enc_field enc_set_max cfg h0 first); [|exact mv_O].
  unfold OInv, cl_init. destruct (cl_settings_deserialize false first); cc_cbn; intros _; cbn [length]; clear; lia.
Qed.

(* HEADERS is written by the write loop's case ctx := <-c.in only, after CanOpenStream said yes *)
Lemma mitems_headers e (c : cconn) ms c' sid es blk : mvs c ms c' -> Forall (ev_ok e) ms -> ES hstate c ->
  In (COHeaders sid es blk) (mitems c ms) -> e = CEvWLIn.
Proof.
  induction 1 as [c|c m ms c' V M IH]; intros F E HI; cbn [CliFlowOut.mitems] in HI; [destruct HI|].
  inversion F as [|? ? F1 F2]; subst. apply in_app_or in HI. destruct HI as [HI|HI]; [|exact (IH F2 (mv_ES hstate enc_field enc_set_max m c V E) HI)].
  destruct m; cbn [items] in HI; try (destruct HI; fail).
  - destruct (quietb o) eqn:Q; [|destruct HI]. destruct HI as [->|[]]. discriminate.
  - destruct (cc_outQ c) as [|o q] eqn:Q; [destruct HI|]. destruct HI as [->|[]].
    pose proof (es_q _ _ E) as QQ. rewrite Q in QQ. inversion QQ as [|? ? QO QT]. destruct QO.
  - (* MWlReset *) destruct HI as [X|[]]. discriminate.
  - destruct (cl_pend_get _ _) as [pb|]; [|destruct HI]. destruct wr; [|destruct HI].
    destruct (write_data_shape (cc_maxFrame c) id (cs_chunk c pb) (cs_end c pb)) as (l & A & _). rewrite A in HI.
    apply in_frames_of in HI. destruct HI as (x & _ & X). discriminate.
  - exact F1.
Qed.

Lemma wl_in_no_open (c : cconn) : cl_can_open_stream c = false -> cc_out (cl_wl_in enc_field enc_set_max cfg c) = cc_out c.
Proof.
  intro CO. unfold cl_wl_in. destruct (cc_inQ c) as [|tag q]; [reflexivity|]. unfold cl_write_request.
  change (cl_can_open_stream (ccu_inQ c q)) with (cl_can_open_stream c). rewrite CO. cbn [negb].
  unfold cl_resolve, cl_ctx_upd. destruct (cl_ctx_get _ _); reflexivity.
Qed.

(* C18 (client), MAX_CONCURRENT_STREAMS: a step that writes HEADERS is the write loop's case ctx := <-c.in, and when
   it starts the counter openStreams is below the server's SETTINGS_MAX_CONCURRENT_STREAMS as last merged, no GOAWAY
   has been seen, and the streams on the client's table are at most that counter: with the new one, at most the limit.
   (A SETTINGS frame that lowers the limit later closes nothing: it only stops new streams from being opened.) *)
Theorem headers_within_limit evs e sid es blk : cl_settings_deserialize false first <> None ->
  In (COHeaders sid es blk) (g_new hstate (run evs) (step (run evs) e)) ->
  let c := run evs in
  e = CEvWLIn /\ cl_wl_live c = true /\ cc_goAway c = false /\
  (Z.of_nat (length (cc_reqQueued c)) <= cc_open c < Z.of_N (cc_maxStreams c))%Z /\
  cc_maxStreams c = cs_streams (cc_serverS c).
Proof.
  intros NN HI. cbv zeta. set (c := run evs) in *.
  destruct (step_D hstate dec_field enc_field enc_set_max cfg c e) as (ms & M & F & _).
  pose proof HI as HI2. rewrite (mvs_new _ _ _ _ _ _ M) in HI2.
  pose proof (mitems_headers e c ms _ sid es blk M F (ES_run hstate dec_field enc_field enc_set_max cfg h0 first evs) HI2) as EW.
  subst e. split; [reflexivity|]. cbn [cl_step] in HI.
  destruct (cl_wl_live c) eqn:LV; [|rewrite (g_new_ext hstate c c []) in HI by reflexivity; destruct HI].
  split; [reflexivity|].
  destruct (cl_can_open_stream c) eqn:CO; [|rewrite (g_new_ext hstate c _ []) in HI by (rewrite wl_in_no_open by exact CO; reflexivity); destruct HI].
  unfold cl_can_open_stream in CO. apply andb_prop in CO. destruct CO as [CO C3]. apply andb_prop in CO. destruct CO as [C1 C2].
  apply negb_true_iff in C1. apply Z.ltb_lt in C3.
  split; [exact C1|]. split; [split; [apply (O_run evs); exact C1 | exact C3]|].
  apply (fs_streams _ _ (FS_run hstate dec_field enc_field enc_set_max cfg h0 first evs NN)).
Qed.

(* ---------- SETTINGS_HEADER_TABLE_SIZE ---------- *)

(* the encoder's history: m is the last maximum the write loop gave it with SetMaxTableSize (4096 before any) *)
Inductive enc_hist : hstate -> N -> Prop :=
| eh_init : enc_hist h0 c_defaultHeaderTableSize
| eh_set h n m : enc_hist h n -> enc_hist (enc_set_max h m) m
| eh_field h n k v b : enc_hist h n -> enc_hist (snd (enc_field h k v b)) n.

Lemma enc_req_fields_hist l : forall h n, enc_hist h n -> enc_hist (snd (cl_enc_req_fields enc_field h l)) n.
Proof.
  induction l as [|[k v] t IH]; intros h n H; cbn [cl_enc_req_fields snd]; [exact H|].
  destruct (cl_is_user_agent k); [apply IH; exact H|]. destruct (is_connection_specific _); [apply IH; exact H|].
  pose proof (eh_field h n (cl_to_lower k) v false H) as H1. destruct (enc_field h (cl_to_lower k) v false) as [b1 e1]. cbn [snd] in H1.
  specialize (IH e1 n H1). destruct (cl_enc_req_fields enc_field e1 t) as [b2 e2]. exact IH.
Qed.

Lemma request_block_hist h n rq : enc_hist h n -> enc_hist (snd (cl_request_block enc_field h rq)) n.
Proof.
  intro H. unfold cl_request_block.
  pose proof (eh_field h n S_authority (cq_host rq) true H) as H1. destruct (enc_field h S_authority (cq_host rq) true) as [b1 e1]. cbn [snd] in H1.
  pose proof (eh_field e1 n S_method (cq_method rq) true H1) as H2. destruct (enc_field e1 S_method (cq_method rq) true) as [b2 e2]. cbn [snd] in H2.
  pose proof (eh_field e2 n S_path (cq_path rq) true H2) as H3. destruct (enc_field e2 S_path (cq_path rq) true) as [b3 e3]. cbn [snd] in H3.
  pose proof (eh_field e3 n S_scheme (cq_scheme rq) true H3) as H4. destruct (enc_field e3 S_scheme (cq_scheme rq) true) as [b4 e4]. cbn [snd] in H4.
  pose proof (eh_field e4 n S_user_agent (cq_ua rq) true H4) as H5. destruct (enc_field e4 S_user_agent (cq_ua rq) true) as [b5 e5]. cbn [snd] in H5.
  pose proof (enc_req_fields_hist (cq_fields rq) e5 n H5) as H6. destruct (cl_enc_req_fields enc_field e5 (cq_fields rq)) as [b6 e6]. exact H6.
Qed.

Definition TI (c : cconn) : Prop := enc_hist (cc_enc c) (cc_encTableSeen c).

Lemma mv_TI m (c : cconn) : valid m c -> TI c -> TI (apply m c).
Proof.
  intros V T. unfold TI in *. destruct (apply_fields m c) as (_ & _ & A & B).
  assert (CASES : m = MEncSync \/ (exists rq, m = MEnc rq) \/ (m <> MEncSync /\ forall rq, m <> MEnc rq)).
  { destruct m; try (right; right; split; [discriminate | intros; discriminate]); [left; reflexivity | right; left; eexists; reflexivity]. }
  destruct CASES as [->|[(rq & ->)|[N1 N2]]].
  - cbn [apply]. destruct (negb _); [|exact T]. cc_cbn. eapply eh_set. exact T.
  - cbn [apply]. cc_cbn. apply request_block_hist. exact T.
  - rewrite (A N1), (B N1 N2). exact T.
Qed.

Lemma TI_run evs : TI (run evs).
Proof.
  apply (run_inv hstate dec_field enc_field enc_set_max cfg h0 first); [|exact mv_TI].
  unfold TI, cl_init. destruct (cl_settings_deserialize false first) as [st|]; cc_cbn; [|apply eh_init].
  destruct (cs_table st <=? c_defaultHeaderTableSize); [eapply eh_set; apply eh_init | apply eh_init].
Qed.

(* within a step of the write loop the stored size does not change, and once the encoder is in step with it, it stays *)
Lemma mvs_sync (c : cconn) ms c' : mvs c ms c' -> Forall (ev_ok CEvWLIn) ms -> ES hstate c ->
  cc_encTableSize c' = cc_encTableSize c /\
  (cc_encTableSeen c = cc_encTableSize c -> cc_encTableSeen c' = cc_encTableSize c') /\
  (forall sid es blk, In (COHeaders sid es blk) (mitems c ms) -> cc_encTableSeen c' = cc_encTableSize c').
Proof.
  induction 1 as [c|c m ms c' V M IH]; intros F E; cbn [CliFlowOut.mitems].
  - split; [reflexivity|]. split; [auto | intros ? ? ? []].
  - inversion F as [|? ? F1 F2]; subst.
    destruct (IH F2 (mv_ES hstate enc_field enc_set_max m c V E)) as (I1 & I2 & I3).
    destruct (apply_fields m c) as (_ & A & B & _).
    assert (NS : forall p, m <> MSettings p) by (intros p ->; cbn in F1; destruct F1 as (fr & X & _); discriminate).
    specialize (A NS).
    assert (KEEP : cc_encTableSeen c = cc_encTableSize c -> cc_encTableSeen (apply m c) = cc_encTableSize (apply m c)).
    { intro H. rewrite A. destruct m; try (rewrite B by discriminate; exact H).
      cbn [apply]. destruct (cc_encTableSize c =? cc_encTableSeen c) eqn:X; cbn [negb]; [exact H | reflexivity]. }
    split; [rewrite I1; exact A|]. split; [intro H; apply I2, KEEP, H|].
    intros sid es blk HI. apply in_app_or in HI. destruct HI as [HI|HI]; [|exact (I3 _ _ _ HI)].
    apply I2, KEEP. destruct m; cbn [items] in HI; try (destruct HI; fail).
    + destruct (quietb o) eqn:Q; [|destruct HI]. destruct HI as [->|[]]. discriminate.
    + destruct (cc_outQ c) as [|o q] eqn:Q; [destruct HI|]. destruct HI as [->|[]].
      pose proof (es_q _ _ E) as QQ. rewrite Q in QQ. inversion QQ as [|? ? QO QT]. destruct QO.
    + (* MWlReset *) destruct HI as [X|[]]. discriminate.
    + destruct (cl_pend_get _ _) as [pb|]; [|destruct HI]. destruct wr; [|destruct HI].
      destruct (write_data_shape (cc_maxFrame c) id (cs_chunk c pb) (cs_end c pb)) as (l & X & _). rewrite X in HI.
      apply in_frames_of in HI. destruct HI as (x & _ & Y). discriminate.
    + destruct V as (_ & _ & _ & _ & _ & _ & SY). exact SY.
Qed.

(* C18 (client), HEADER_TABLE_SIZE: after a step that writes HEADERS, the encoder that produced the block has as its
   maximum table size the value the read loop had last stored when the step started (encTableSize: the last
   SETTINGS_HEADER_TABLE_SIZE received, settings_ack_step; at the handshake the server's value if it is at most 4096,
   else 4096): the write loop calls SetMaxTableSize before it encodes the next block *)
Theorem table_size_in_force evs e sid es blk :
  In (COHeaders sid es blk) (g_new hstate (run evs) (step (run evs) e)) ->
  let c := run evs in let c' := step c e in
  enc_hist (cc_enc c') (cc_encTableSize c) /\ cc_encTableSeen c' = cc_encTableSize c /\ cc_encTableSize c' = cc_encTableSize c.
Proof.
  intros HI. cbv zeta. set (c := run evs) in *.
  destruct (step_D hstate dec_field enc_field enc_set_max cfg c e) as (ms & M & F & _).
  pose proof HI as HI2. rewrite (mvs_new _ _ _ _ _ _ M) in HI2.
  pose proof (ES_run hstate dec_field enc_field enc_set_max cfg h0 first evs) as E. fold c in E.
  pose proof (mitems_headers e c ms _ sid es blk M F E HI2) as EW. subst e.
  destruct (mvs_sync c ms _ M F E) as (S1 & _ & S3). specialize (S3 _ _ _ HI2).
  pose proof (TI_run (evs ++ [CEvWLIn])) as T. unfold cl_run in T. rewrite fold_left_app in T. cbn [fold_left] in T. fold (run evs) in T. fold c in T.
  unfold TI in T. rewrite S3, S1 in T. split; [exact T|]. split; [rewrite S3; exact S1 | exact S1].
Qed.

Theorem handshake_table_size st : cl_settings_deserialize false first = Some st ->
  cc_encTableSize init = (if cs_table st <=? c_defaultHeaderTableSize then cs_table st else c_defaultHeaderTableSize) /\
  cc_encTableSeen init = cc_encTableSize init /\ cc_encTableSize init <= c_defaultHeaderTableSize.
Proof.
  intro DS. unfold cl_init. rewrite DS. cc_cbn. split; [reflexivity|]. split; [reflexivity|].
  destruct (cs_table st <=? c_defaultHeaderTableSize) eqn:E; [apply N.leb_le in E; exact E | apply N.le_refl].
Qed.

(* ---------- the client's own settings ---------- *)

(* ENABLE_PUSH = 0 is what the client announces: a PUSH_PROMISE frame on a stream ends the connection *)
Theorem push_promise_is_connection_error (c : cconn) fr :
  cl_rl_live c = true -> cc_netClosed c = false -> sf_kind fr = KPush -> sf_sid fr <> 0 ->
  let c' := step c (CEvRL (RFrame fr)) in
  cc_rl_done c' = true /\ cc_closed c' = true /\ (cc_closed c = false -> cc_netClosed c' = true) /\ cc_lastErr c' <> None.
Proof.
  intros LV NC K NZ. cbv zeta. cbn [cl_step]. rewrite LV. unfold cl_rl_step. rewrite NC. apply N.eqb_neq in NZ. rewrite NZ.
  unfold cl_rl_frame. rewrite K. cbn [fkind_eqb].
  unfold cl_rl_exit, cl_conn_close, cl_close_begin, cl_close_net, cl_set_last_err.
  destruct (cc_lastErr c) eqn:LE; cc_cbn; destruct (cc_closed c) eqn:CL; cc_cbn; rewrite ?LE, ?CL; cc_cbn;
    try (destruct (cl_can_write _); cc_cbn); repeat split; try discriminate; try reflexivity; try (rewrite LE; discriminate).
Qed.

(* a frame the reader refuses (above the client's MAX_FRAME_SIZE of 16384, which is what it announces by leaving the
   default, or malformed) ends the connection *)
Theorem bad_frame_is_connection_error (c : cconn) code :
  cl_rl_live c = true ->
  let c' := step c (CEvRL (RBadFrame code)) in
  cc_rl_done c' = true /\ cc_closed c' = true /\ (cc_closed c = false -> cc_netClosed c' = true) /\ cc_lastErr c' <> None.
Proof.
  intros LV. cbv zeta. cbn [cl_step]. rewrite LV. unfold cl_rl_step.
  assert (X : (if cc_netClosed c then cl_rl_fail c else cl_rl_fail c) = cl_rl_fail c) by (destruct (cc_netClosed c); reflexivity).
  rewrite X. unfold cl_rl_fail, cl_rl_exit, cl_conn_close, cl_close_begin, cl_close_net, cl_set_last_err.
  destruct (cc_lastErr c) eqn:LE; cc_cbn; destruct (cc_closed c) eqn:CL; cc_cbn; rewrite ?LE, ?CL; cc_cbn;
    try (destruct (cl_can_write _); cc_cbn); repeat split; try discriminate; try reflexivity; try (rewrite LE; discriminate).
Qed.

End Limits.
