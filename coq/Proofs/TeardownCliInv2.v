(* Proofs/TeardownCliInv2.v -- blocking-structure model (Impl/Teardown.v), client: the Close-protocol invariants are inductive.
   Statements: Props/Teardown.v; overview: Proofs/TeardownProofs.v. *)
From Coq Require Import Arith Lia Bool List.
From RecordUpdate Require Import RecordSet.
Import RecordSetNotations.
Import ListNotations.
From H2V Require Import Impl.Teardown Proofs.TeardownCliInv.

Module CliPi2.
Import Cli CliP.
Ltac unf := unfold lx_of, bcount, wl_hold, rl_hold, rl_k, rl_stop, bw_of_state, midn, cpc, xin, resolveX, release, set_cpc, end_cpc,
  bw_of, dead in *.
Ltac act_cases a :=
  destruct a;
  try match goal with p : nat |- _ => destruct p as [|[|[|p]]] end.
Ltac dm :=
  match goal with
  | |- context[match ?x with _ => _ end] =>
      lazymatch x with
      | context[match _ with _ => _ end] => fail
      | _ => destruct x eqn:?
      end
  | H : context[match ?x with _ => _ end] |- _ =>
      lazymatch x with
      | context[match _ with _ => _ end] => fail
      | _ => destruct x eqn:?
      end
  end.
Ltac easy_fin := solve [auto | congruence | lia | tauto | (intuition congruence) ].
Ltac fwd :=
  repeat match goal with
         | H : ?A -> _, H' : ?A |- _ => specialize (H H')
         | H : ?x = ?x -> _ |- _ => specialize (H eq_refl)
         end.
Ltac rwx :=
  repeat match goal with
         | H : xloc ?s = _ |- _ => progress (rewrite H in * )
         end.
Ltac fin := cbn in *; intros; subst; rwk; rwx; fwd; rwk; cbn in *; rewrite ?orb_false_r in *;
  first [ easy_fin | dm; fin ].
Ltac prep G := cbn in G; break; try lia;
  repeat match goal with b : bool |- _ => destruct b | h : hold |- _ => destruct h end;
  unf; rwk; cbn in *; unf;
  try match goal with |- context[xres ?s] => destruct (xres s) eqn:? end; cbn in *.


Section P.
Variable cap : nat.
Notation guard := (Cli.guard cap).
Local Arguments cpc : simpl never.
Ltac refold1 p s :=
  let t := eval cbv beta iota delta [cpc] in (cpc p s) in progress (change t with (cpc p s) in * ).
Ltac refold :=
  repeat match goal with
         | s : state |- _ => first [ refold1 0 s | refold1 1 s | refold1 2 s ]
         end.
Ltac dcpc :=
  match goal with
  | |- context[cpc ?p ?s] => destruct (cpc p s) as [[]|] eqn:?
  | H : context[cpc ?p ?s] |- _ => destruct (cpc p s) as [[]|] eqn:?
  end.
Ltac fin2 := cbn in *; intros; subst; fwd; cbn in *; rewrite ?orb_false_r in *;
  first [ easy_fin | dcpc; fin2 ].

Lemma inv2_step : forall s a, inv2 s -> guard a s -> inv2 (eff a s).
Proof.
  intros s a I G. destruct I.
  act_cases a; cbn in G; break; try lia;
    repeat match goal with
           | H : cpc _ _ = Some _ |- _ => unfold cpc in H
           | H : match ?x with _ => _ end = Some _ |- _ =>
               destruct x eqn:?; try discriminate H; inversion H; clear H; subst
           end;
    repeat match goal with b : bool |- _ => destruct b | h : hold |- _ => destruct h end;
    unfold midn, cpc, resolveX, release, set_cpc, end_cpc, bw_of, dead, wl_hold, rl_hold, rl_k, rl_stop in *;
    rwk; cbn in *; unfold resolveX, release, rl_stop, rl_k, wl_hold, rl_hold in *; rwk; cbn in *;
    repeat match goal with
           | |- context[if xres ?s' then _ else _] => destruct (xres s')
           | |- context[if xsid ?s' then _ else _] => destruct (xsid s')
           | |- context[match xloc ?s' with _ => _ end] => destruct (xloc s')
           end; cbn in *; refold;
    constructor; cbn; unfold midn, cpc; cbn; rwk; cbn; refold; auto; try congruence; try lia.
  all: try (destruct (done s) eqn:?; destruct (closed s) eqn:?; try (destruct (raced s) eqn:?); timeout 30 fin2).
Qed.
End P.
End CliPi2.
