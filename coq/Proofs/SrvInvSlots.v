(* Proofs/SrvInvSlots.v - the structural invariant SI of the server connection (slots, stream table, closed-stream
   ring, stream ids), proved for every event list by closure under the moves of Proofs/SrvInvSteps.v. *)
From H2V Require Import Base.Bytes Base.MachineInt Base.Result Gen.GenConsts Impl.ServerConn Proofs.SrvBase
  Proofs.SrvInvMoves Proofs.SrvInvDecomp Proofs.SrvInvSteps.
From Coq Require Import ZArith Lia ZifyN ZifyNat ZifyBool Permutation.
Local Open Scope N_scope.

(* ---------- counting ---------- *)
Definition is_hdr (s : stream) : bool := fkind_eqb (st_orig s) KHeaders.
Definition count_hdr (l : list stream) : Z := Z.of_nat (length (filter is_hdr l)).
Definition count_running (l : list stream) : Z := Z.of_nat (length (filter st_handlerRunning l)).

Lemma fkind_eqb_eq a b : fkind_eqb a b = true <-> a = b.
Proof. destruct a, b; cbn; split; congruence. Qed.

Lemma is_hdr_true s : is_hdr s = true <-> st_orig s = KHeaders.
Proof. apply fkind_eqb_eq. Qed.

Lemma count_hdr_cons s l : count_hdr (s :: l) = ((if is_hdr s then 1 else 0) + count_hdr l)%Z.
Proof. unfold count_hdr. cbn [filter]. destruct (is_hdr s); cbn [length]; lia. Qed.
Lemma count_hdr_app l l' : count_hdr (l ++ l') = (count_hdr l + count_hdr l')%Z.
Proof. unfold count_hdr. rewrite filter_app, app_length. lia. Qed.
Lemma count_hdr_nonneg l : (0 <= count_hdr l)%Z.
Proof. unfold count_hdr. lia. Qed.
Lemma count_hdr_le l : (count_hdr l <= Z.of_nat (length l))%Z.
Proof. unfold count_hdr. induction l as [|a l IH]; cbn [filter length]; [lia|]. destruct (is_hdr a); cbn [length]; lia. Qed.
Lemma count_hdr_all l : Forall (fun s => st_orig s = KHeaders) l -> count_hdr l = Z.of_nat (length l).
Proof.
  induction 1 as [|s l H _ IH]; [reflexivity|]. rewrite count_hdr_cons, IH.
  apply is_hdr_true in H. rewrite H. cbn [length]. lia.
Qed.

Lemma count_running_cons s l : count_running (s :: l) = ((if st_handlerRunning s then 1 else 0) + count_running l)%Z.
Proof. unfold count_running. cbn [filter]. destruct (st_handlerRunning s); cbn [length]; lia. Qed.

Lemma count_running_le_hdr l :
  Forall (fun s => st_handlerRunning s = true -> st_orig s = KHeaders /\ st_responded s = true) l ->
  (count_running l <= count_hdr l)%Z.
Proof.
  induction 1 as [|s l H _ IH]; [reflexivity|]. rewrite count_hdr_cons, count_running_cons.
  destruct (st_handlerRunning s); [|destruct (is_hdr s); lia].
  destruct (H eq_refl) as [H1 _]. apply is_hdr_true in H1. rewrite H1. lia.
Qed.

(* tables related pointwise on ids and origins have the same shape *)
Definition slocw (a b : stream) : Prop := st_id b = st_id a /\ st_orig b = st_orig a.

Lemma sloc_slocw l l' : Forall2 sloc l l' -> Forall2 slocw l l'.
Proof. induction 1 as [|a b l l' S _ IH]; constructor; [|assumption]. destruct S as (A & B & _). split; assumption. Qed.

Lemma put_slocw l x old : strms_search l (st_id x) = Some old -> st_orig x = st_orig old -> Forall2 slocw l (strms_put l x).
Proof.
  induction l as [|y t IH]; cbn [strms_search strms_put]; [discriminate|].
  destruct (st_id y =? st_id x) eqn:E; intros H S.
  - inversion H; subst. constructor; [split; [lia | assumption]|]. clear. induction t; constructor; [split; reflexivity | assumption].
  - constructor; [split; reflexivity | auto].
Qed.

Lemma slocw_count_hdr l l' : Forall2 slocw l l' -> count_hdr l' = count_hdr l.
Proof.
  induction 1 as [|a b l l' S _ IH]; [reflexivity|]. rewrite !count_hdr_cons, IH.
  destruct S as (_ & So). unfold is_hdr. rewrite So. reflexivity.
Qed.
Lemma slocw_length l l' : Forall2 slocw l l' -> length l' = length l.
Proof. induction 1; cbn [length]; congruence. Qed.
Lemma slocw_ids l l' : Forall2 slocw l l' -> map st_id l' = map st_id l.
Proof. induction 1 as [|a b l l' S _ IH]; [reflexivity|]. cbn [map]. destruct S as (Si & _). congruence. Qed.
Lemma slocw_Forall_orig l l' : Forall2 slocw l l' ->
  Forall (fun s => st_orig s = KHeaders) l -> Forall (fun s => st_orig s = KHeaders) l'.
Proof.
  induction 1 as [|a b l l' S _ IH]; intro F; [constructor|]. inversion F; subst.
  constructor; [destruct S as (_ & So); congruence | auto].
Qed.
Lemma slocw_Forall_le l l' m : Forall2 slocw l l' ->
  (forall s, In s l -> st_id s <= m) -> (forall s, In s l' -> st_id s <= m).
Proof.
  intros F H s I. assert (I' : In (st_id s) (map st_id l')) by (apply in_map; assumption).
  rewrite (slocw_ids _ _ F) in I'. apply in_map_iff in I'. destruct I' as (y & E & Iy). rewrite <- E. auto.
Qed.
Lemma sloc_Forall_run l l' : Forall2 sloc l l' ->
  Forall (fun s => st_handlerRunning s = true -> st_orig s = KHeaders /\ st_responded s = true) l ->
  Forall (fun s => st_handlerRunning s = true -> st_orig s = KHeaders /\ st_responded s = true) l'.
Proof.
  induction 1 as [|a b l l' S _ IH]; intro F; [constructor|]. inversion F as [|? ? Ha Hl]; subst.
  constructor; [|auto]. destruct S as (_ & So & Sr & Sp). intro R. rewrite Sr in R. destruct (Ha R). split; [congruence | auto].
Qed.

(* removing a stream from the table *)
Lemma del_perm l id old : strms_search l id = Some old -> Permutation l (old :: strms_del l id).
Proof.
  induction l as [|y t IH]; cbn [strms_search strms_del]; [discriminate|].
  destruct (st_id y =? id); intro H.
  - inversion H; subst. apply Permutation_refl.
  - eapply perm_trans; [apply perm_skip, IH; assumption | apply perm_swap].
Qed.

Lemma count_hdr_perm l l' : Permutation l l' -> count_hdr l = count_hdr l'.
Proof.
  induction 1 as [|x l l' _ IH|x y l|l l' l'' _ IH1 _ IH2]; rewrite ?count_hdr_cons; lia.
Qed.

Lemma count_hdr_del l id old : strms_search l id = Some old ->
  count_hdr (strms_del l id) = (count_hdr l - (if is_hdr old then 1 else 0))%Z.
Proof. intro H. rewrite (count_hdr_perm _ _ (del_perm _ _ _ H)), count_hdr_cons. lia. Qed.

Lemma length_del l id old : strms_search l id = Some old -> length l = S (length (strms_del l id)).
Proof. intro H. rewrite (Permutation_length (del_perm _ _ _ H)). reflexivity. Qed.

Lemma NoDup_app_l (A : Type) (l l' : list A) : NoDup (l ++ l') -> NoDup l.
Proof.
  induction l as [|a l IH]; cbn [app]; intro H; [constructor|]. inversion H; subst. constructor; [|auto].
  intro I. apply H2. apply in_or_app. left. assumption.
Qed.
Lemma NoDup_app_r (A : Type) (l l' : list A) : NoDup (l ++ l') -> NoDup l'.
Proof. induction l as [|a l IH]; cbn [app]; intro H; [assumption|]. inversion H; subst. auto. Qed.

Lemma take_perm l id s rest : take_stream l id = Some (s, rest) -> Permutation l (s :: rest).
Proof.
  revert s rest. induction l as [|y t IH]; cbn [take_stream]; [discriminate|]. intros s rest.
  destruct (st_id y =? id).
  - intro H; inversion H; subst. apply Permutation_refl.
  - destruct (take_stream t id) as [[x t']|] eqn:T; [|discriminate]. intro H; inversion H; subst.
    eapply perm_trans; [apply perm_skip, IH; reflexivity | apply perm_swap].
Qed.

Section Slots.
Variable hstate : Type.
Variable dec_field : hstate -> N -> bytes -> dec_res hstate.
Variable enc_field : hstate -> bytes -> bytes -> bool -> bytes * hstate.
Variable enc_set_max : hstate -> N -> hstate.
Variable cfg : config.
Variable Q : stream -> Prop.
Notation sconn := (sconn hstate).
Notation mv := (mv hstate dec_field cfg Q).
Notation gmv := (gmv hstate dec_field cfg Q).
Notation gmvs := (gmvs hstate dec_field cfg Q).
Implicit Types c : sconn.

Definition run_ok (s : stream) : Prop :=
  st_handlerRunning s = true -> st_orig s = KHeaders /\ st_responded s = true.

Record SI (c : sconn) : Prop := mkSI {
  si_open : sc_open c = (count_hdr (sc_strms c) + Z.of_nat (length (sc_gone c)))%Z;
  si_gone : Forall (fun s => st_orig s = KHeaders /\ st_handlerRunning s = true) (sc_gone c);
  si_hdrs : sc_sl_done c = false -> Forall (fun s => st_orig s = KHeaders) (sc_strms c);
  si_len : (Z.of_nat (length (sc_strms c)) <= count_hdr (sc_strms c) + 1)%Z;
  si_max : (sc_open c <= Z.max 0 (cf_maxStreams cfg))%Z;
  si_run : Forall run_ok (sc_strms c);
  si_ring : (length (sc_ring c) <= 256)%nat;
  si_hi : sc_lastID c <= sc_highestID c;
  si_ids : sc_sl_done c = false ->
           NoDup (map st_id (sc_strms c ++ sc_gone c)) /\
           (forall s, In s (sc_strms c ++ sc_gone c) -> st_id s <= sc_lastID c);
  si_Q : sc_sl_done c = false -> Forall Q (sc_strms c)
}.

(* SI only looks at these components *)
Definition view (c : sconn) :=
  (sc_strms c, sc_gone c, sc_open c, sc_ring c, sc_lastID c, sc_highestID c, sc_sl_done c).

Lemma SI_view c c' : view c' = view c -> SI c -> SI c'.
Proof.
  unfold view. intro E. inversion E as [[E1 E2 E3 E4 E5 E6 E7]]. intros [].
  constructor; rewrite ?E1, ?E2, ?E3, ?E4, ?E5, ?E6, ?E7; assumption.
Qed.

Lemma SI_ids_ok c : SI c -> sc_sl_done c = false -> ids_ok c.
Proof.
  intros H Hd. destruct (si_ids c H Hd) as [ND LE]. repeat split.
  - rewrite map_app in ND. eapply NoDup_app_l. exact ND.
  - intros s I. apply LE. apply in_or_app. left. assumption.
  - apply (si_hi c H).
Qed.

Lemma SI_init h0 : SI (init_conn cfg h0).
Proof.
  constructor; unfold init_conn; sc_cbn.
  - reflexivity.
  - constructor.
  - intros _. constructor.
  - cbn. lia.
  - lia.
  - constructor.
  - cbn. lia.
  - lia.
  - intros _. split; [constructor | intros s []].
  - intros _. constructor.
Qed.

Lemma lite_view c c' : lite cfg c c' -> view c' = view c.
Proof. intros [H _]. unfold same_core in H. decompose [and] H. unfold view. congruence. Qed.

(* ---------- closure under the stream-loop moves ---------- *)
Lemma SI_mv o a b : mv o a b -> SI a -> SI b.
Proof.
  intros M H. destruct M.
  - (* lite *) eapply SI_view; [apply lite_view; eassumption | assumption].
  - (* goaway *) eapply SI_view; [|exact H]. unfold view. sc_rw. reflexivity.
  - (* mark *)
    destruct H. constructor; sc_rw; try assumption.
    apply (mark_closed_ring_length _ c id w). assumption.
  - (* highest *)
    destruct H. constructor; sc_cbn; try assumption. lia.
  - (* strms *)
    destruct H. rename H1 into F2'. rename H2 into FQ. pose proof (sloc_slocw _ _ F2') as F2.
    constructor; sc_cbn; try assumption.
    + rewrite (slocw_count_hdr _ _ F2). assumption.
    + intro Hd. eapply slocw_Forall_orig; eauto.
    + rewrite (slocw_count_hdr _ _ F2), (slocw_length _ _ F2). assumption.
    + eapply sloc_Forall_run; eauto.
    + intro Hd. destruct (si_ids0 Hd) as [ND LE]. rewrite map_app, (slocw_ids _ _ F2), <- map_app. split; [assumption|].
      intros s I. apply in_app_or in I. destruct I as [I|I].
      * eapply slocw_Forall_le; [exact F2 | | exact I]. intros; apply LE, in_or_app; left; assumption.
      * apply LE, in_or_app. right. assumption.
    + auto.
  - (* dispatch *)
    rename H1 into SS. rename H2 into Eo. rename H3 into Ro. rename H4 into Rx. rename H5 into Px. rename H6 into HQ.
    assert (F2 : Forall2 slocw (sc_strms c) (strms_put (sc_strms c) x)) by (eapply put_slocw; eassumption).
    destruct H. constructor; sc_rw; rewrite ?sc_strms_put; sc_rw; try assumption.
    + rewrite (slocw_count_hdr _ _ F2). assumption.
    + intro Hd. eapply slocw_Forall_orig; eauto.
    + rewrite (slocw_count_hdr _ _ F2), (slocw_length _ _ F2). assumption.
    + apply strms_put_Forall; [assumption|]. intros _. split; [|assumption].
      rewrite Eo. specialize (si_hdrs0 H0). rewrite Forall_forall in si_hdrs0. apply si_hdrs0.
      apply strms_search_In in SS. tauto.
    + intro Hd. destruct (si_ids0 Hd) as [ND LE]. rewrite map_app, (slocw_ids _ _ F2), <- map_app. split; [assumption|].
      intros s I. apply in_app_or in I. destruct I as [I|I].
      * eapply slocw_Forall_le; [exact F2 | | exact I]. intros; apply LE, in_or_app; left; assumption.
      * apply LE, in_or_app. right. assumption.
    + intro Hd. apply strms_put_Forall; [auto|]. apply HQ. specialize (si_Q0 Hd). rewrite Forall_forall in si_Q0.
      apply si_Q0. apply strms_search_In in SS. tauto.
  - (* create *)
    rename H3 into HI. rename H4 into Ei. rename H5 into Eo. rename H6 into Er. rename H8 into Qs.
    assert (Hh : is_hdr s = true) by (apply is_hdr_true; assumption).
    destruct H. constructor; sc_cbn; try assumption.
    + rewrite count_hdr_app, count_hdr_cons, Hh. unfold count_hdr at 2. cbn [filter length]. lia.
    + intro Hd. apply Forall_app. split; [auto | repeat constructor; assumption].
    + rewrite count_hdr_app, count_hdr_cons, Hh, app_length. unfold count_hdr at 2. cbn [filter length]. lia.
    + lia.
    + apply Forall_app. split; [assumption|]. constructor; [intro R; congruence | constructor].
    + lia.
    + intro Hd. destruct (si_ids0 Hd) as [ND LE]. split.
      * rewrite <- app_assoc. cbn [app]. rewrite map_app. cbn [map]. rewrite Ei.
        eapply Permutation_NoDup; [apply Permutation_middle|]. rewrite <- map_app. constructor; [|assumption].
        intro I. apply in_map_iff in I. destruct I as (y & Ey & Iy). specialize (LE y Iy). lia.
      * intros y I. rewrite <- app_assoc in I. apply in_app_or in I. cbn [app] in I.
        destruct I as [I|[I|I]]; [| subst; lia |].
        -- specialize (LE y (in_or_app _ _ _ (or_introl I))). lia.
        -- specialize (LE y (in_or_app _ _ _ (or_intror I))). lia.
    + intro Hd. apply Forall_app. split; [auto | repeat constructor; assumption].
  - (* close *)
    rename H1 into SS. rename H2 into SL. destruct SL as (Si & So & Sr & Sp).
    pose proof (strms_search_In _ _ _ SS) as [Iold Eid].
    destruct H.
    assert (Ho : st_orig old = KHeaders).
    { specialize (si_hdrs0 H0). rewrite Forall_forall in si_hdrs0. auto. }
    assert (Hh : is_hdr old = true) by (apply is_hdr_true; assumption).
    assert (Hx : fkind_eqb (st_orig x) KHeaders = true) by (rewrite So; exact Hh).
    destruct (si_ids0 H0) as [ND LE].
    pose proof (del_perm _ _ _ SS) as PM.
    constructor; rewrite ?sc_strms_close_stream, ?sc_gone_close_stream, ?sc_open_close_stream, ?sc_ring_close_stream;
      sc_rw.
    + rewrite (count_hdr_del _ _ _ SS), Hh, Hx. destruct (st_handlerRunning x); cbn [length]; lia.
    + destruct (st_handlerRunning x); [|assumption]. constructor; [|assumption]. split; [|reflexivity].
      cbn [set_flags st_orig]. unfold closed_body. cbn [set_snd st_orig]. congruence.
    + intro. apply strms_del_Forall. auto.
    + rewrite (count_hdr_del _ _ _ SS), Hh. pose proof (length_del _ _ _ SS). lia.
    + rewrite Hx. destruct (st_handlerRunning x); lia.
    + apply strms_del_Forall. assumption.
    + apply (mark_closed_ring_length _ c (st_id x) (st_weReset x)). assumption.
    + assumption.
    + intros _. destruct (st_handlerRunning x).
      * split.
        -- eapply Permutation_NoDup; [|exact ND]. rewrite !map_app. cbn [map].
           replace (st_id (set_flags (closed_body x) (st_responded x) true true)) with (st_id old)
             by (unfold closed_body; cbn [set_flags set_snd st_id]; congruence).
           eapply perm_trans; [apply Permutation_app_tail, Permutation_map, PM|]. cbn [map app].
           apply Permutation_middle.
        -- intros y I. apply in_app_or in I. destruct I as [I|[I|I]].
           ++ apply LE, in_or_app. left. eapply strms_del_In. eassumption.
           ++ subst y. unfold closed_body. cbn [set_flags set_snd st_id]. rewrite Si. apply LE, in_or_app. left. assumption.
           ++ apply LE, in_or_app. right. assumption.
      * split.
        -- assert (P2 : Permutation (map st_id (sc_strms c ++ sc_gone c))
                                     (st_id old :: map st_id (strms_del (sc_strms c) (st_id x) ++ sc_gone c))).
           { rewrite !map_app. eapply perm_trans; [apply Permutation_app_tail, Permutation_map, PM|]. reflexivity. }
           pose proof (Permutation_NoDup P2 ND) as ND2. inversion ND2; assumption.
        -- intros y I. apply in_app_or in I. destruct I as [I|I].
           ++ apply LE, in_or_app. left. eapply strms_del_In. eassumption.
           ++ apply LE, in_or_app. right. assumption.
    + intro. apply strms_del_Forall. auto.
  - (* a handler of an abandoned stream has returned *)
    rename H1 into TS. destruct (take_stream_Some _ _ _ _ TS) as (Ei & Is & Len & Sub & Sup).
    pose proof (take_perm _ _ _ _ TS) as PM.
    destruct H.
    assert (Ho : st_orig s = KHeaders) by (rewrite Forall_forall in si_gone0; apply si_gone0; assumption).
    constructor; sc_rw; rewrite ?sc_open_release_stream; sc_cbn; try assumption.
    + cbn [set_flags st_orig]. rewrite Ho. cbn [fkind_eqb]. rewrite Len in si_open0. lia.
    + rewrite Forall_forall in *. auto.
    + cbn [set_flags st_orig]. rewrite Ho. cbn [fkind_eqb]. lia.
    + intro Hd. destruct (si_ids0 Hd) as [ND LE]. split.
      * assert (P2 : Permutation (map st_id (sc_strms c ++ sc_gone c)) (st_id s :: map st_id (sc_strms c ++ rest))).
        { rewrite !map_app. eapply perm_trans; [apply Permutation_app_head, Permutation_map, PM|]. cbn [map].
          symmetry. apply Permutation_middle. }
        pose proof (Permutation_NoDup P2 ND) as ND2. inversion ND2; assumption.
      * intros y I. apply LE. apply in_app_or in I. apply in_or_app. destruct I; auto.
  - (* a handler has returned *)
    rename H2 into SS. rename H4 into Eo. rename H5 into Ro. rename H6 into Rx. rename H8 into HQ.
    rename H1 into L. pose proof (lite_view _ _ L) as V. unfold view in V. inversion V as [[V1 V2 V3 V4 V5 V6 V7]].
    assert (F2 : Forall2 slocw (sc_strms c) (strms_put (sc_strms c) x)) by (eapply put_slocw; eassumption).
    destruct H. constructor; rewrite ?sc_strms_put; sc_rw; rewrite ?V1, ?V2, ?V3, ?V4, ?V5, ?V6, ?V7; try assumption.
    + rewrite (slocw_count_hdr _ _ F2). assumption.
    + intro Hd. eapply slocw_Forall_orig; eauto.
    + rewrite (slocw_count_hdr _ _ F2), (slocw_length _ _ F2). assumption.
    + apply strms_put_Forall; [assumption|]. intro R. congruence.
    + intro Hd. destruct (si_ids0 Hd) as [ND LE]. rewrite map_app, (slocw_ids _ _ F2), <- map_app. split; [assumption|].
      intros s I. apply in_app_or in I. destruct I as [I|I].
      * eapply slocw_Forall_le; [exact F2 | | exact I]. intros; apply LE, in_or_app; left; assumption.
      * apply LE, in_or_app. right. assumption.
    + intro Hd. apply strms_put_Forall; [auto|]. apply HQ. specialize (si_Q0 Hd). rewrite Forall_forall in si_Q0.
      apply si_Q0. apply strms_search_In in SS. tauto.
  - (* break *)
    destruct H. constructor; unfold brk, note; sc_cbn; try assumption; try discriminate.
  - (* fatal *)
    rename H1 into F2'. rename H2 into EX. pose proof (sloc_slocw _ _ F2') as F2. destruct H.
    pose proof (si_hdrs0 H0) as AH.
    assert (CE : count_hdr extra = 0%Z /\ Forall run_ok extra /\
                 (Z.of_nat (length (sc_strms c ++ extra)) <= count_hdr (sc_strms c) + 1)%Z).
    { destruct EX as [->|(s & -> & No & Nr & _)].
      - rewrite app_nil_r. repeat split; [constructor | assumption].
      - rewrite count_hdr_cons. assert (is_hdr s = false).
        { destruct (is_hdr s) eqn:E; [|reflexivity]. apply is_hdr_true in E. contradiction. }
        rewrite H. repeat split.
        + constructor; [intro R; congruence | constructor].
        + rewrite app_length, (count_hdr_all _ AH). cbn [length]. lia. }
    destruct CE as (C0 & CR & CL).
    constructor; unfold brk, note; sc_cbn; try assumption; try discriminate.
    + rewrite (slocw_count_hdr _ _ F2), count_hdr_app. lia.
    + rewrite (slocw_count_hdr _ _ F2), (slocw_length _ _ F2), count_hdr_app. lia.
    + eapply sloc_Forall_run; [exact F2'|]. apply Forall_app. split; assumption.
  - (* panic *) eapply SI_view; [|exact H]. reflexivity.
  - (* post: the loop has ended, nothing SI looks at changes *)
    destruct H1 as [SC _]. unfold same_core in SC. destruct SC as (S1 & S2 & S3 & S4 & S5 & S6 & S7 & S8 & S9 & S10 & S11 & S12 & S13 & S14 & S15).
    eapply SI_view; [|exact H]. unfold view. rewrite S1, S2, S3, S4, S5, S6, S12. reflexivity.
Qed.

(* ---------- closure under all moves ---------- *)
Lemma SI_omv pc a b : omv hstate pc a b -> SI a -> SI b.
Proof.
  intros M H. destruct M.
  - eapply SI_view; [|exact H]. reflexivity.
  - destruct H. constructor; unfold note; sc_cbn; try assumption; try discriminate.
  - eapply SI_view; [|exact H]. unfold view. sc_rw. reflexivity.
  - eapply SI_view; [|exact H]. unfold view. sc_rw. reflexivity.
  - eapply SI_view; [|exact H]. reflexivity.
  - eapply SI_view; [|exact H]. reflexivity.
  - eapply SI_view; [|exact H]. unfold view. sc_rw. reflexivity.
  - eapply SI_view; [|exact H]. unfold view. sc_rw. reflexivity.
  - eapply SI_view; [|exact H]. reflexivity.
  - eapply SI_view; [|exact H]. reflexivity.
Qed.

Lemma SI_gmv pc a b : gmv pc a b -> SI a -> SI b.
Proof. intros M H. destruct M; [eapply SI_mv | eapply SI_omv]; eassumption. Qed.

Lemma SI_mvs l a b : mvs hstate dec_field cfg Q l a b -> SI a -> SI b.
Proof. intros M. induction M; intro HS; [assumption|]. eauto using SI_mv. Qed.
Lemma SI_omvs pc a b : omvs hstate pc a b -> SI a -> SI b.
Proof. intros M. induction M; intro HS; [assumption|]. eauto using SI_omv. Qed.

(* ---------- every event list ---------- *)
Hypothesis HQc : Qclosed hstate dec_field cfg Q.

Notation step := (step dec_field enc_field enc_set_max cfg).
Notation run := (run dec_field enc_field enc_set_max cfg).

Theorem SI_step c e : SI c -> SI (step c e).
Proof.
  apply (inv_step hstate dec_field enc_field enc_set_max cfg Q HQc SI).
  - apply SI_ids_ok.
  - apply SI_gmv.
Qed.

Theorem SI_run h0 evs : SI (run h0 evs).
Proof. apply run_ind; [apply SI_init | intros c e; apply SI_step]. Qed.

Theorem SI_reachable h0 c : reachable dec_field enc_field enc_set_max cfg h0 c -> SI c.
Proof. intro R. induction R; [apply SI_init | apply SI_step; assumption]. Qed.

(* every step is a sequence of moves (for relational facts) *)
Theorem SI_gmvs_step c e : SI c -> gmvs (parser_code e) c (step c e).
Proof.
  intro H. apply (gmvs_step hstate dec_field enc_field enc_set_max cfg Q HQc). apply SI_ids_ok. assumption.
Qed.

End Slots.

Arguments SI {hstate}. Arguments view {hstate}.

(* ---------- the instance without a per-stream predicate, and its corollaries ---------- *)
Section SlotsTrue.
Variable hstate : Type.
Variable dec_field : hstate -> N -> bytes -> dec_res hstate.
Variable enc_field : hstate -> bytes -> bytes -> bool -> bytes * hstate.
Variable enc_set_max : hstate -> N -> hstate.
Variable cfg : config.
Variable h0 : hstate.
Notation run := (run dec_field enc_field enc_set_max cfg h0).
Notation sconn := (sconn hstate).

Definition QT (s : stream) : Prop := True.

Lemma QT_closed : Qclosed hstate dec_field cfg QT.
Proof. constructor; intros; try exact I. destruct e as [[| |]|]; exact I. Qed.

Theorem SI_run_T evs : SI cfg QT (run evs).
Proof. apply SI_run. apply QT_closed. Qed.

Theorem SI_reachable_T c : reachable dec_field enc_field enc_set_max cfg h0 c -> SI cfg QT c.
Proof. apply SI_reachable. apply QT_closed. Qed.

(* handlers running for the connection: those of table streams and those of abandoned streams *)
Definition running (c : sconn) : Z := (count_running (sc_strms c) + Z.of_nat (length (sc_gone c)))%Z.

Lemma SI_slots c (Q : stream -> Prop) : SI cfg Q c -> (0 <= running c <= sc_open c)%Z /\ (sc_open c <= Z.max 0 (cf_maxStreams cfg))%Z.
Proof.
  intros []. unfold running. pose proof (count_running_le_hdr _ si_run0).
  assert (0 <= count_running (sc_strms c))%Z by (unfold count_running; lia). lia.
Qed.

(* the invariant other proofs ask for: distinct ids in the table, none above lastID *)
Theorem reach_ids c : reachable dec_field enc_field enc_set_max cfg h0 c ->
  sc_sl_done c = true \/
  (NoDup (map st_id (sc_strms c)) /\ Forall (fun s => st_id s <= sc_lastID c) (sc_strms c)).
Proof.
  intro R. pose proof (SI_reachable_T c R) as H. destruct (sc_sl_done c) eqn:Hd; [left; reflexivity | right].
  destruct (SI_ids_ok _ _ _ _ H Hd) as (ND & LE & _). split; [assumption | apply Forall_forall; assumption].
Qed.

End SlotsTrue.
Arguments running {hstate}.
