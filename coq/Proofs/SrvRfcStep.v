(* Proofs/SrvRfcStep.v - C08: the shape of the step lemma. What has to be shown about one
   item of the schedule (step_goal), the same thing stated on an explicit description of
   what the model did (G, live_tuple), and the structural lemmas about the table and ring. *)
From H2V Require Import Base.Bytes Base.MachineInt Base.Result Gen.GenConsts Impl.ServerConn.
From H2V Require Import Proofs.SrvBase Proofs.SrvRfcDefs Proofs.SrvRfcSpec Proofs.SrvRfcModel Proofs.SrvRfcSim Proofs.SrvRfcEff.
From Coq Require Import ZArith Lia ZifyN ZifyNat ZifyBool.
Local Open Scope N_scope.

Section Step.
Variable hstate : Type.
Variable dec_field : hstate -> N -> bytes -> dec_res hstate.
Variable enc_field : hstate -> bytes -> bytes -> bool -> bytes * hstate.
Variable enc_set_max : hstate -> N -> hstate.
Variable cfg : config.
Notation sconn := (sconn hstate).
Notation step := (step dec_field enc_field enc_set_max cfg).
Notation feed := (feed hstate dec_field enc_field enc_set_max cfg).
Notation spec_feed := (spec_feed hstate dec_field enc_field enc_set_max cfg).
Notation item_ok := (item_ok hstate dec_field enc_field enc_set_max cfg).
Notation view := (view hstate).
Notation tbl := (tbl hstate).
Notation new_out := (new_out hstate).
Notation Post := (Post hstate).
Notation Sim := (Sim hstate).
Notation Aux := (Aux hstate).
Notation AuxT := (AuxT hstate).
Notation AuxH := (AuxH hstate).
Implicit Types c : sconn.

(* the ghost phase of each stream id follows the frames *)
Definition ph_next (ph : N -> RS.phase) (it : item) : N -> RS.phase :=
  match it with
  | IIn (RFrame f) => fun id => if id =? sf_sid f then RS.request_step (ph id) (abs_frame f) else ph id
  | _ => ph
  end.

Definition step_goal c (s : RS.state) (ph : N -> RS.phase) (it : item) : Prop :=
  let c' := feed c it in
  (sc_sl_done c = false ->
   match it with IIn i => item_ok c it s = true \/ known_deviation hstate c s i = true | _ => True end) /\
  Post c' (spec_feed c it s) (ph_next ph it) /\
  (forall sid rq, In (ODispatch sid rq) (new_out c c') -> ph_next ph it sid = RS.PDone) /\
  (exists d, sc_out c' = d ++ sc_out c).

(* what makes Sim again, before the closed streams the ring dropped are forgotten *)
Definition live_tuple c' (s2 : RS.state) (ph' : N -> RS.phase) : Prop :=
  Aux c' /\ (forall id, N.odd id = true -> rel1 (view c' id) (RS.st_of s2 id)) /\ R_block hstate c' s2 /\
  RS.goaway s2 = sc_closing c' /\ RS.highest s2 = sc_highestID c' /\
  (sc_expectCont c' <> 0 -> tbl c' (sc_expectCont c') = None -> sc_discardID c' = sc_expectCont c' \/ RS.dead s2 = true) /\
  (forall st, In st (sc_strms c') -> ph' (st_id st) = phase_of st) /\
  (sc_closing c' = false -> forall id, N.odd id = true -> sc_highestID c' < id -> ph' id = RS.PStart).

(* d: what the step added to the outputs, newest first; only the "noisy" ones count *)
Definition after_outs (s1 : RS.state) (d : list outev) : RS.state :=
  fold_left RS.spec_sent (flat_map sent_of (rev (filter noisy d))) s1.

Definition G c (s : RS.state) (ph : N -> RS.phase) (i : rl_input) c' : Prop :=
  exists d, sc_out c' = d ++ sc_out c /\
  let ai := abs_input i in
  let r := resolve s ai (classify (input_sid i) (rev (filter noisy d))) in
  (RS.allowed s ai r = true \/ known_deviation hstate c s i = true) /\
  (if sc_sl_done c' then RS.dead (after_outs (RS.spec_next s ai r) d) = true
   else live_tuple c' (after_outs (RS.spec_next s ai r) d) (ph_next ph (IIn i))) /\
  (forall sid rq, In (ODispatch sid rq) d -> ph_next ph (IIn i) sid = RS.PDone).

Lemma wf_after_outs s1 d : wf s1 -> wf (after_outs s1 d).
Proof. apply wf_fold_sent. Qed.

Lemma G_goal c s ph i : wf s -> G c s ph i (feed c (IIn i)) -> step_goal c s ph (IIn i).
Proof.
  intros W (d & Hd & Ha & Hp & Hdisp). unfold step_goal. cbv zeta.
  pose proof (new_out_ext hstate _ _ _ Hd) as NO.
  assert (RE : reaction_of hstate c i (feed c (IIn i)) = classify (input_sid i) (rev (filter noisy d))).
  { unfold reaction_of. rewrite NO, classify_filter, filter_rev. reflexivity. }
  assert (SF : spec_feed c (IIn i) s =
               sync_forget hstate (feed c (IIn i))
                 (after_outs (RS.spec_next s (abs_input i) (resolve s (abs_input i) (classify (input_sid i) (rev (filter noisy d))))) d)).
  { unfold spec_feed, after_outs. cbv zeta. rewrite NO, RE, sents_filter, filter_rev. reflexivity. }
  split; [|split].
  - intros _. unfold item_ok. rewrite RE. exact Ha.
  - rewrite SF. set (s1 := RS.spec_next s _ _) in *.
    assert (W2 : wf (after_outs s1 d)) by (apply wf_after_outs, wf_spec_next, W).
    destruct (sync_forget_props hstate (feed c (IIn i)) _ W2) as (W' & _ & _ & _ & D' & _).
    split; [exact W'|]. destruct (sc_sl_done (feed c (IIn i))).
    + rewrite D'. exact Hp.
    + destruct Hp as (A & B & C & D & E & F & P1 & P2). apply Sim_intro; assumption.
  - split; [|exists d; exact Hd]. intros sid rq Hin. apply (Hdisp sid rq). rewrite NO in Hin. apply in_rev in Hin. exact Hin.
Qed.

(* ---------- the same for items that are not inputs ---------- *)

Definition Gloc c (s : RS.state) (ph : N -> RS.phase) c' : Prop :=
  exists d, sc_out c' = d ++ sc_out c /\
  (if sc_sl_done c' then RS.dead (after_outs s d) = true else live_tuple c' (after_outs s d) ph) /\
  (forall sid rq, ~ In (ODispatch sid rq) d).

Lemma Gloc_goal c s ph it : wf s -> (forall i, it <> IIn i) -> Gloc c s ph (feed c it) -> step_goal c s ph it.
Proof.
  intros W Hit (d & Hd & Hp & Hdisp). unfold step_goal. cbv zeta.
  pose proof (new_out_ext hstate _ _ _ Hd) as NO.
  assert (PH : ph_next ph it = ph) by (destruct it as [i| |]; [exfalso; eapply Hit; reflexivity | reflexivity | reflexivity]).
  assert (SF : spec_feed c it s = sync_forget hstate (feed c it) (after_outs s d)).
  { unfold spec_feed, after_outs. cbv zeta. rewrite NO, sents_filter, filter_rev.
    destruct it as [i| |]; [exfalso; eapply Hit; reflexivity | reflexivity | reflexivity]. }
  split; [|split].
  - intros _. destruct it as [i| |]; [exfalso; eapply Hit; reflexivity | exact I | exact I].
  - rewrite SF, PH.
    assert (W2 : wf (after_outs s d)) by (apply wf_after_outs, W).
    destruct (sync_forget_props hstate (feed c it) _ W2) as (W' & _ & _ & _ & D' & _).
    split; [exact W'|]. destruct (sc_sl_done (feed c it)).
    + rewrite D'. exact Hp.
    + destruct Hp as (A & B & C & D & E & F & P1 & P2). apply Sim_intro; assumption.
  - split; [|exists d; exact Hd]. intros sid rq Hin. exfalso. apply (Hdisp sid rq). rewrite NO in Hin. apply in_rev in Hin. exact Hin.
Qed.

(* ---------- the second half of a lockstep pair ---------- *)

Lemma upd_readerQ_nil c : sc_readerQ c = [] -> upd_readerQ c [] = c.
Proof. destruct c; cbn. intros ->. reflexivity. Qed.

(* the read loop has just ended: the stream loop finds the reader closed *)
Lemma sl_after_exit c0 : sc_sl_done c0 = false -> sc_rl_done c0 = true -> sc_readerQ c0 = [] ->
  step c0 EvSL = note (upd_done c0 true true) (OExit 1 1).
Proof. intros A B C. rewrite step_EvSL, A, C, B. reflexivity. Qed.

(* nothing was forwarded *)
Lemma sl_after_stay c0 : sc_sl_done c0 = false -> sc_rl_done c0 = false -> sc_readerQ c0 = [] -> step c0 EvSL = c0.
Proof. intros A B C. rewrite step_EvSL, A, C, B. reflexivity. Qed.

(* the frame was forwarded: the stream loop takes it *)
Lemma sl_after_forward c1 fr : sc_sl_done c1 = false -> sc_readerQ c1 = [] ->
  step (forward c1 fr) EvSL = fst (sl_frame dec_field enc_set_max cfg c1 fr).
Proof.
  intros A C. unfold forward. rewrite A, step_EvSL. sc_cbn. rewrite A, C. cbn [app].
  replace (upd_readerQ (upd_readerQ c1 [fr]) []) with c1; [reflexivity|].
  destruct c1; cbn in *. subst. reflexivity.
Qed.

End Step.
