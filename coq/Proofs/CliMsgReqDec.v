(* Proofs/CliMsgReqDec.v - C02 (b): an RFC 7541 decoder that reads the header blocks of the HEADERS frames the client
   writes, in order, gets exactly the requests' field lists.

   The client's encoder (Impl/Hpack.v: append_header, set_max_table_size) against the decoder of Spec/Rfc7541.v; the
   encoder side is Proofs/HpackEncBlock.v (Inv, set_max_step, block_step). The decoder's limit (dt_limit: the
   SETTINGS_HEADER_TABLE_SIZE it has announced and the encoder has acknowledged, RFC 7541 4.2) is set with
   spec_set_limit at the points where the encoder is given the new size. *)
From Coq Require Import List NArith ZArith Bool Lia.
From H2V Require Import Base.Bytes Base.MachineInt Base.Result Gen.GenConsts Gen.GenStatic
     Impl.Huffman Impl.Hpack Spec.Rfc7541Huffman Spec.Rfc7541
     Proofs.HpackDefs Proofs.HpackEncHeader Proofs.HpackEncDefs Proofs.HpackEncBlock
     Impl.ServerConn Impl.ServerInst Impl.ClientConn Impl.ClientInst Proofs.CliBase Proofs.CliDefs
     Proofs.CliMsgMoves Proofs.CliMsgDisp Proofs.CliMsgStep Proofs.CliMsgIds Proofs.CliMsgReq Proofs.CliFlowCThm Proofs.CliResInv Proofs.CliResStep Props.C02_statements.
From H2V Require Import Proofs.CliMsgReqDecSz.
Import ListNotations.
Local Open Scope N_scope.

(* ---------- a request block is one encode_block of the encoder model ---------- *)
Definition req_extra (l : list (bytes * bytes)) : list (field * bool) :=
  flat_map (fun kv => if cl_is_user_agent (fst kv) then []
                      else if is_connection_specific (cl_to_lower (fst kv)) then []
                      else [(mkF (cl_to_lower (fst kv)) (snd kv) false, false)]) l.
Definition req_flist (rq : crequest) : list (field * bool) :=
  [(mkF S_authority (cq_host rq) false, true); (mkF S_method (cq_method rq) false, true); (mkF S_path (cq_path rq) false, true);
   (mkF S_scheme (cq_scheme rq) false, true); (mkF S_user_agent (cq_ua rq) false, true)] ++ req_extra (cq_fields rq).

Lemma cli_enc_field_ahdr hp k v s : cli_enc_field hp k v s = ahdr hp (mkF k v false) s.
Proof.
  unfold cli_enc_field, srv_enc_field. rewrite append_header_app. cbn [app]. destruct (ahdr hp (mkF k v false) s). reflexivity.
Qed.

Lemma enc_req_fields_afields l : forall e, cl_enc_req_fields cli_enc_field e l = afields e (req_extra l).
Proof.
  induction l as [|[k v] t IH]; intro e; [reflexivity|]. cbn [cl_enc_req_fields req_extra flat_map fst snd].
  destruct (cl_is_user_agent k); [exact (IH e)|]. destruct (is_connection_specific (cl_to_lower k)); [exact (IH e)|].
  cbn [app afields]. rewrite cli_enc_field_ahdr. destruct (ahdr e (mkF (cl_to_lower k) v false) false) as [b1 e1].
  fold (req_extra t). rewrite IH. reflexivity.
Qed.

Lemma request_block_afields e rq : cl_request_block cli_enc_field e rq = afields e (req_flist rq).
Proof.
  unfold cl_request_block, req_flist. cbn [app afields]. rewrite !cli_enc_field_ahdr.
  destruct (ahdr e _ true) as [b1 e1]. rewrite !cli_enc_field_ahdr. destruct (ahdr e1 _ true) as [b2 e2].
  rewrite !cli_enc_field_ahdr. destruct (ahdr e2 _ true) as [b3 e3]. rewrite !cli_enc_field_ahdr. destruct (ahdr e3 _ true) as [b4 e4].
  rewrite !cli_enc_field_ahdr. destruct (ahdr e4 _ true) as [b5 e5]. rewrite enc_req_fields_afields.
  destruct (afields e5 (req_extra (cq_fields rq))) as [b6 e6]. reflexivity.
Qed.

Definition triple (kv : bytes * bytes) : hfield := (fst kv, snd kv, false).

Lemma req_flist_fields rq : map (fun p => triple_of (fst p)) (req_flist rq) = map triple (request_fields rq).
Proof.
  unfold req_flist, request_fields. rewrite !map_app. f_equal. unfold req_extra.
  induction (cq_fields rq) as [|[k v] t IH]; [reflexivity|]. cbn [flat_map fst snd]. rewrite !map_app, IH. f_equal.
  unfold cl_is_user_agent, cl_to_lower, cl_fold_ascii, ascii_lower.
  destruct (bytes_eqb _ S_user_agent); [reflexivity|]. cbn [orb]. destruct (is_connection_specific _); reflexivity.
Qed.

Lemma enc_ok_flist rq : enc_ok rq = true -> forallb enc_field_ok (req_flist rq) = true.
Proof.
  unfold enc_ok. intro H.
  assert (E : forallb enc_field_ok (req_flist rq) = forallb (fun t : hfield => bytes_ok (fst (fst t)) && bytes_ok (snd (fst t)) && (len (fst (fst t)) + len (snd (fst t)) + 32 <? 2 ^ 31)) (map (fun p => triple_of (fst p)) (req_flist rq))).
  { induction (req_flist rq) as [|[f s] l IH]; [reflexivity|]. cbn [forallb map]. rewrite IH. reflexivity. }
  rewrite E, req_flist_fields. clear E. induction (request_fields rq) as [|kv l IH]; [reflexivity|].
  cbn [forallb map] in *. apply andb_prop in H. destruct H as [H1 H2]. rewrite (IH H2), andb_true_r. exact H1.
Qed.

(* ---------- the decoder along the chain ---------- *)
(* what the server's HPACK decoder sees: inl n = it learns that the client has taken its SETTINGS_HEADER_TABLE_SIZE n
   (RFC 7541 4.2: from then on a size update up to n is legal); inr b = the header block b *)
Notation dop := (N + bytes)%type.
Fixpoint dec_ops (d : dtable) (ops : list dop) : option (list (list hfield) * dtable) :=
  match ops with
  | [] => Some ([], d)
  | inl n :: t => dec_ops (spec_set_limit d n) t
  | inr b :: t =>
    match spec_decode_block d b with
    | Some (fs, d') => match dec_ops d' t with Some (l, d'') => Some (fs :: l, d'') | None => None end
    | None => None
    end
  end.

Lemma dec_ops_app a : forall d b,
  dec_ops d (a ++ b) = match dec_ops d a with
                       | Some (la, d') => match dec_ops d' b with Some (lb, d'') => Some (la ++ lb, d'') | None => None end
                       | None => None
                       end.
Proof.
  induction a as [|[n|blk] a IH]; intros d b; cbn [app dec_ops].
  - destruct (dec_ops d b) as [[lb d'']|]; reflexivity.
  - apply IH.
  - destruct (spec_decode_block d blk) as [[fs d']|]; [|reflexivity]. rewrite IH.
    destruct (dec_ops d' a) as [[la d1]|]; [|reflexivity]. destruct (dec_ops d1 b) as [[lb d2]|]; reflexivity.
Qed.

Definition eop_dop (o : eop) : dop := match o with inl n => inl n | inr rb => inr (snd rb) end.

Notation chain := (enc_chain_s cli_enc_field set_max_table_size).

Lemma Inv_sync enc dec pend : Inv enc dec pend -> h_pending enc = false -> dec = abs enc.
Proof. intros (_ & _ & H) E. rewrite E in H. exact (proj1 H). Qed.

Theorem chain_decodes e0 ops e : chain e0 ops e ->
  forall d0 pend0, Inv e0 d0 pend0 -> Forall (fun n => n < 2 ^ 31) (sizes_of ops) ->
  Forall (fun rb => enc_ok (fst rb) = true) (rights_of ops) ->
  exists d pend,
    dec_ops d0 (map eop_dop ops) = Some (map (fun rb => map triple (request_fields (fst rb))) (rights_of ops), d) /\ Inv e d pend.
Proof.
  induction 1 as [|l e n H IH|l e rq blk e' H IH RB]; intros d0 pend0 I0 HS HR.
  - exists d0, pend0. split; [reflexivity | exact I0].
  - rewrite sizes_of_app in HS. apply Forall_app in HS. destruct HS as [HS HN]. inversion HN as [|? ? Hn _]; subst.
    rewrite rights_of_app in HR |- *. cbn [rights_of flat_map app] in HR |- *. rewrite app_nil_r in HR |- *.
    destruct (IH d0 pend0 I0 HS HR) as (d & pend & D & I1).
    destruct (set_max_step e d pend n I1 Hn) as [I2 _].
    exists (spec_set_limit d n), (pend ++ [n]). split; [|exact I2].
    rewrite map_app, dec_ops_app, D. cbn [map eop_dop dec_ops]. rewrite app_nil_r. reflexivity.
  - rewrite sizes_of_app in HS. cbn [sizes_of flat_map app] in HS. rewrite app_nil_r in HS.
    rewrite rights_of_app in HR |- *. cbn [rights_of flat_map app] in HR |- *. apply Forall_app in HR. destruct HR as [HR HQ].
    inversion HQ as [|? ? Hq _]; subst. cbn [fst] in Hq.
    destruct (IH d0 pend0 I0 HS HR) as (d & pend & D & I1).
    destruct (block_step e d pend (req_flist rq) I1 (enc_ok_flist rq Hq)) as [rs enc' E DB _ _ _ _ I2].
    rewrite encode_block_pure, <- request_block_afields, RB in E. inversion E; subst blk enc'.
    change (is_nil (req_flist rq)) with false in DB, I2. cbv iota in DB, I2.
    exists (abs e'), []. split; [|exact I2].
    rewrite map_app, dec_ops_app, D. cbn [map eop_dop dec_ops snd]. rewrite DB, req_flist_fields, map_app. reflexivity.
Qed.

(* ---------- the decoder's limit: it never changes inside a block, and a larger one changes nothing else ---------- *)
Lemma spec_step_limit t a r f t' : spec_step t a r = Some (f, t') -> dt_limit t' = dt_limit t.
Proof.
  destruct r as [i|m nr hn hv v|n]; cbn [spec_step].
  - destruct (lookup t i) as [[k v]|]; [|discriminate]. intro H. inversion H. reflexivity.
  - destruct (match nr with NameLit n => Some n | NameIdx i => match lookup t i with Some (n, _) => Some n | None => None end end); [|discriminate].
    destruct m; intro H; inversion H; reflexivity.
  - destruct (a && (n <=? dt_limit t)); [|discriminate]. intro H. inversion H. reflexivity.
Qed.

Lemma sem_from_limit rs : forall t a fs t', sem_from t a rs = Some (fs, t') -> dt_limit t' = dt_limit t.
Proof.
  induction rs as [|r rs IH]; intros t a fs t'; cbn [sem_from]; [intro H; inversion H; reflexivity|].
  destruct (spec_step t a r) as [[[f|] t1]|] eqn:S; [| |discriminate].
  - destruct (sem_from t1 false rs) as [[fs1 t2]|] eqn:R; [|discriminate]. intro H. inversion H; subst.
    rewrite (IH _ _ _ _ R). exact (spec_step_limit _ _ _ _ _ S).
  - intro H. rewrite (IH _ _ _ _ H). exact (spec_step_limit _ _ _ _ _ S).
Qed.

Lemma spec_decode_block_limit t b fs t' : spec_decode_block t b = Some (fs, t') -> dt_limit t' = dt_limit t.
Proof. unfold spec_decode_block, spec_sem. destruct (spec_parse_block b); [apply sem_from_limit | discriminate]. Qed.

Lemma spec_step_mono L t a r f t' : dt_limit t <= L -> spec_step t a r = Some (f, t') ->
  spec_step (spec_set_limit t L) a r = Some (f, spec_set_limit t' L).
Proof.
  intro LE. destruct r as [i|m nr hn hv v|n]; cbn [spec_step].
  - change (lookup (spec_set_limit t L) i) with (lookup t i). destruct (lookup t i) as [[k v]|]; [|discriminate]. intro H. inversion H. reflexivity.
  - change (lookup (spec_set_limit t L)) with (lookup t).
    destruct (match nr with NameLit n => Some n | NameIdx i => match lookup t i with Some (n, _) => Some n | None => None end end); [|discriminate].
    destruct m; intro H; inversion H; reflexivity.
  - cbn [spec_set_limit dt_limit]. destruct a; cbn [andb]; [|discriminate]. destruct (n <=? dt_limit t) eqn:E; [|discriminate].
    replace (n <=? L) with true by (symmetry; apply N.leb_le; apply N.leb_le in E; lia). intro H. inversion H. reflexivity.
Qed.

Lemma sem_from_mono L rs : forall t a fs t', dt_limit t <= L -> sem_from t a rs = Some (fs, t') ->
  sem_from (spec_set_limit t L) a rs = Some (fs, spec_set_limit t' L).
Proof.
  induction rs as [|r rs IH]; intros t a fs t' LE; cbn [sem_from]; [intro H; inversion H; reflexivity|].
  destruct (spec_step t a r) as [[[f|] t1]|] eqn:S; [| |discriminate]; rewrite (spec_step_mono L _ _ _ _ _ LE S);
    pose proof (spec_step_limit _ _ _ _ _ S) as EL.
  - destruct (sem_from t1 false rs) as [[fs1 t2]|] eqn:R; [|discriminate]. intro H. inversion H; subst.
    rewrite (IH _ _ _ _ ltac:(rewrite EL; exact LE) R). reflexivity.
  - intro H. exact (IH _ _ _ _ ltac:(rewrite EL; exact LE) H).
Qed.

Lemma spec_decode_block_mono L t b fs t' : dt_limit t <= L -> spec_decode_block t b = Some (fs, t') ->
  spec_decode_block (spec_set_limit t L) b = Some (fs, spec_set_limit t' L).
Proof. unfold spec_decode_block, spec_sem. intro LE. destruct (spec_parse_block b); [apply sem_from_mono, LE | discriminate]. Qed.

Lemma spec_decode_blocks_mono L bs : forall t l t', dt_limit t <= L -> spec_decode_blocks t bs = Some (l, t') ->
  spec_decode_blocks (spec_set_limit t L) bs = Some (l, spec_set_limit t' L).
Proof.
  induction bs as [|b bs IH]; intros t l t' LE; cbn [spec_decode_blocks]; [intro H; inversion H; reflexivity|].
  destruct (spec_decode_block t b) as [[fs t1]|] eqn:D; [|discriminate]. rewrite (spec_decode_block_mono L _ _ _ _ LE D).
  destruct (spec_decode_blocks t1 bs) as [[l1 t2]|] eqn:R; [|discriminate]. intro H. inversion H; subst.
  rewrite (IH _ _ _ ltac:(rewrite (spec_decode_block_limit _ _ _ _ D); exact LE) R). reflexivity.
Qed.

(* when every size the decoder is told is the limit it already has, dec_ops is spec_decode_blocks *)
Lemma dec_ops_fixed L ops : forall d l d', dt_limit d = L -> Forall (eq L) (sizes_of ops) -> dec_ops d ops = Some (l, d') ->
  spec_decode_blocks d (rights_of ops) = Some (l, d').
Proof.
  induction ops as [|[n|b] ops IH]; intros d l d' EL HS.
  - auto.
  - change (rights_of (inl n :: ops)) with (rights_of (A:=N) ops). change (sizes_of (inl n :: ops)) with (n :: sizes_of (B:=bytes) ops) in HS. cbn [dec_ops].
    inversion HS as [|? ? Hn HS']. rewrite <- Hn, <- EL. replace (spec_set_limit d (dt_limit d)) with d by (destruct d; reflexivity). apply IH; [exact EL | exact HS'].
  - change (rights_of (inr b :: ops)) with (b :: rights_of (A:=N) ops). change (sizes_of (inr b :: ops)) with (sizes_of (B:=bytes) ops) in HS. cbn [dec_ops spec_decode_blocks].
    destruct (spec_decode_block d b) as [[fs d1]|] eqn:D; [|discriminate].
    destruct (dec_ops d1 ops) as [[l1 d2]|] eqn:R; [|discriminate]. intro H. inversion H as [[H1 H2]]. rewrite H2 in R.
    rewrite (IH d1 l1 d' ltac:(rewrite (spec_decode_block_limit _ _ _ _ D); exact EL) HS R). reflexivity.
Qed.

(* ---------- the start: the encoder after the handshake, the decoder with the limit the client has taken ---------- *)
Definition cli_dec0 (first : bytes) : dtable :=
  match cl_settings_deserialize false first with
  | Some st => if cs_table st <=? c_defaultHeaderTableSize
               then spec_set_limit (dtable_init c_defaultHeaderTableSize) (cs_table st)
               else dtable_init c_defaultHeaderTableSize
  | None => dtable_init c_defaultHeaderTableSize
  end.

Lemma Inv_cli_init first : exists pend, Inv (cc_enc (cli_init first)) (cli_dec0 first) pend.
Proof.
  unfold cli_init, cl_init, cli_dec0. destruct (cl_settings_deserialize false first) as [st|]; cbn [cc_enc].
  - destruct (cs_table st <=? c_defaultHeaderTableSize) eqn:E.
    + eexists. refine (proj1 (set_max_step _ _ _ (cs_table st) (Inv_init false false) _)).
      apply N.leb_le in E. unfold c_defaultHeaderTableSize in E. change (2 ^ 31) with 2147483648. lia.
    + exists []. apply Inv_init.
  - exists []. apply Inv_init.
Qed.

Lemma cli_init_size first : cc_encTableSize (cli_init first) <= c_defaultHeaderTableSize /\ dt_limit (cli_dec0 first) = cc_encTableSize (cli_init first).
Proof.
  unfold cli_init, cl_init, cli_dec0. destruct (cl_settings_deserialize false first) as [st|]; cbn [cc_encTableSize].
  - destruct (cs_table st <=? c_defaultHeaderTableSize) eqn:E; [apply N.leb_le in E|]; split; try reflexivity; lia.
  - split; [lia | reflexivity].
Qed.

(* ---------- the run ---------- *)
Definition rop_dop (o : rop) : dop := match o with inl n => inl n | inr r => inr (snd r) end.
Definition re_rq (r : rentry) : crequest := snd (fst r).

(* a SETTINGS frame (not an ACK, on stream 0, well formed) of the event list that carries HEADER_TABLE_SIZE = n *)
Definition table_size_frame (evs : list cevent) (n : N) : Prop :=
  exists fr st, In (CEvRL (RFrame fr)) evs /\ sf_sid fr = 0 /\ sf_kind fr = KSettings /\ flag_has (sf_flags fr) FL_ES = false /\
                cl_settings_deserialize false (sf_payload fr) = Some st /\ cl_settings_has st c_HeaderTableSize = true /\ n = cs_table st.
(* the sizes the client's encoder can be given: the one of the handshake, or one the server sent later *)
Definition announced (first : bytes) (evs : list cevent) (n : N) : Prop :=
  n = cc_encTableSize (cli_init first) \/ table_size_frame evs n.
(* HYPOTHESIS ON THE SERVER: every HEADER_TABLE_SIZE it sends after the handshake is below 2^31 *)
Definition sizes_small (evs : list cevent) : Prop := forall n, table_size_frame evs n -> n < 2 ^ 31.
(* HYPOTHESIS ON THE CALLERS (requests_ok, Props/C02_statements.v): every request submitted is made of bytes, each field
   shorter than 2^31 - 32 *)

Lemma run_sizes cfg first evs (P : N -> Prop) :
  P (cc_encTableSize (cli_init first)) -> (forall n, table_size_frame evs n -> P n) ->
  forall pre post, evs = pre ++ post -> P (cc_encTableSize (cli_run cfg first pre)).
Proof.
  intros P0 PF pre post E. unfold cli_run. apply ets_run; [exact P0|].
  intros fr st I S0 K A D HT. apply PF. exists fr, st. rewrite E. repeat split; try assumption. apply in_or_app. left. exact I.
Qed.

Lemma rop_dop_eop ops : map eop_dop (map rop_eop ops) = map rop_dop ops.
Proof. rewrite map_map. apply map_ext. intros [n|[[[id tag] rq] blk]]; reflexivity. Qed.

Theorem cli_requests_decode cfg first evs :
  sizes_small evs -> requests_ok evs ->
  exists ops : list rop,
    headers_of (cli_tr cfg first evs) = map re_hdr (rights_of ops) /\
    (forall id tag rq blk, In (id, tag, rq, blk) (rights_of ops) ->
       id <> 0 /\ exists x, cst_ctx (cli_run cfg first evs) tag = Some x /\ ct_sid x = id /\ ct_req x = rq) /\
    Forall (announced first evs) (sizes_of ops) /\
    exists d pend,
      dec_ops (cli_dec0 first) (map rop_dop ops) = Some (map (fun r => map triple (request_fields (re_rq r))) (rights_of ops), d) /\
      (cl_wl_live (cli_run cfg first evs) = true ->
       Inv (cc_enc (cli_run cfg first evs)) d pend /\ (h_pending (cc_enc (cli_run cfg first evs)) = false -> in_sync (cc_enc (cli_run cfg first evs)) d = true)).
Proof.
  intros HS HR.
  set (Psz := fun n => announced first evs n /\ n < 2 ^ 31).
  assert (HP : forall pre post, evs = pre ++ post -> Psz (cc_encTableSize (cli_run cfg first pre))).
  { apply run_sizes.
    - split; [left; reflexivity|]. pose proof (proj1 (cli_init_size first)) as B. unfold c_defaultHeaderTableSize in B. change (2 ^ 31) with 2147483648. lia.
    - intros n F. split; [right; exact F | exact (HS n F)]. }
  destruct (request_blocks_sizes cli_dec_field cli_enc_field set_max_table_size cfg cli_init_hpack first Psz evs HP) as (ops & H1 & H2 & H3 & e & H4 & H5).
  exists ops. split; [exact H1|]. split; [exact H2|]. split; [eapply Forall_impl; [|exact H3]; intros n [A _]; exact A|].
  destruct (Inv_cli_init first) as (pend0 & I0).
  destruct (chain_decodes _ _ _ H4 _ _ I0) as (d & pend & D & I1).
  - rewrite sizes_of_rop. eapply Forall_impl; [|exact H3]. intros n [_ B]; exact B.
  - rewrite rights_of_rop. apply Forall_forall. intros rb I. apply in_map_iff in I. destruct I as ([[[id tag] rq] blk] & <- & I). cbn [re_rb fst].
    destruct (H2 id tag rq blk I) as (_ & x & G & _ & R).
    destruct (ctx_submitted _ _ _ _ _ _ _ _ _ _ G) as (pre & rq' & q & post & E & _ & R'). apply (HR tag rq q). rewrite E. apply in_or_app. right. left. congruence.
  - exists d, pend. split.
    + rewrite <- rop_dop_eop, D, rights_of_rop, map_map. do 2 f_equal. apply map_ext. intros [[[id tag] rq] blk]. reflexivity.
    + intro L. unfold cli_run. rewrite <- (H5 L). split; [exact I1|]. intro NP. rewrite (Inv_sync _ _ _ I1 NP). apply in_sync_abs.
Qed.

(* the blocks the decoder is given are the payloads of the HEADERS frames, in order *)
Lemma header_blocks_ops tr (ops : list rop) : headers_of tr = map re_hdr (rights_of ops) -> header_blocks tr = rights_of (map rop_dop ops).
Proof.
  unfold header_blocks. intros ->. rewrite map_map. induction ops as [|[n|[[[id tag] rq] blk]] ops IH]; [reflexivity | exact IH|].
  cbn [map rop_dop rights_of flat_map app re_hdr snd]. f_equal. exact IH.
Qed.

(* ---------- the server never changes HEADER_TABLE_SIZE after the handshake ---------- *)
Lemma fixed_no_frame evs n : table_size_fixed evs -> ~ table_size_frame evs n.
Proof.
  intros TF (fr & st & I & _ & K & _ & D & HT & _). destruct (proj2 (settings_table_pairs _ _ _ D) HT) as (kv & Ikv & E).
  exact (TF fr I K kv Ikv E).
Qed.

Lemma request_on_ctx cfg first evs tag x :
  cst_ctx (cli_run cfg first evs) tag = Some x -> ct_sid x <> 0 -> request_on (cli_run cfg first evs) (ct_sid x) = Some (ct_req x).
Proof.
  intros G NZ. destruct (inv_run cli_dec_field cli_enc_field set_max_table_size cfg cli_init_hpack first evs) as [St _].
  fold (cli_run cfg first evs) in St. set (c := cli_run cfg first evs) in *. unfold request_on.
  destruct (cl_ctxs_get_In _ _ _ G) as [Ix _].
  destruct (find (fun y => ct_sid y =? ct_sid x) (cc_ctxs c)) as [y|] eqn:F.
  - apply find_some in F. destruct F as [Iy Ey]. apply N.eqb_eq in Ey.
    pose proof (cl_ctxs_get_NoDup _ _ (s_tags _ St) Iy) as Gy.
    pose proof (s_sid_unique _ St (ct_tag y) tag y x Gy G Ey ltac:(rewrite Ey; exact NZ)) as ET.
    rewrite ET in Gy. unfold cst_ctx in G. rewrite G in Gy. inversion Gy. reflexivity.
  - exfalso. pose proof (find_none _ _ F x Ix) as E. cbn beta in E. rewrite N.eqb_refl in E. discriminate.
Qed.

Lemma server_limit_dec0 first : cl_settings_deserialize false first <> None ->
  dt_limit (cli_dec0 first) <= server_table_limit first /\
  spec_set_limit (cli_dec0 first) (server_table_limit first) = spec_set_limit (dtable_init c_defaultHeaderTableSize) (server_table_limit first).
Proof.
  intro NN. unfold cli_dec0, server_table_limit. destruct (cl_settings_deserialize false first) as [st|] eqn:D; [|congruence].
  rewrite <- (proj1 (settings_table_pairs _ _ _ D)). destruct (cs_table st <=? c_defaultHeaderTableSize) eqn:E.
  - split; [cbn; lia | reflexivity].
  - apply N.leb_gt in E. split; [cbn [dtable_init dt_limit]; lia | reflexivity].
Qed.

Theorem cli_requests_intact : c02_requests_intact.
Proof.
  intros cfg first evs NN TF HR c tr.
  destruct (cli_requests_decode cfg first evs) as (ops & H1 & H2 & H3 & d & pend & D & _); [intros n F; destruct (fixed_no_frame _ _ TF F) | exact HR|].
  fold c in H2. change (cli_tr cfg first evs) with tr in H1.
  assert (HS : Forall (eq (dt_limit (cli_dec0 first))) (sizes_of (map rop_dop ops))).
  { replace (sizes_of (map rop_dop ops)) with (sizes_of ops) by (clear; induction ops as [|[n|r] ops IH]; [reflexivity | cbn [map rop_dop sizes_of flat_map app]; f_equal; exact IH | exact IH]).
    eapply Forall_impl; [|exact H3]. intros n [A|A]; [rewrite (proj2 (cli_init_size first)); symmetry; exact A | destruct (fixed_no_frame _ _ TF A)]. }
  pose proof (dec_ops_fixed _ _ _ _ _ eq_refl HS D) as DB. rewrite <- (header_blocks_ops tr ops H1) in DB.
  destruct (server_limit_dec0 first NN) as [LE EQ].
  exists (spec_set_limit d (server_table_limit first)). rewrite <- EQ, (spec_decode_blocks_mono _ _ _ _ _ LE DB). do 2 f_equal.
  unfold header_ids. rewrite H1, !map_map. apply map_ext_in. intros [[[id tag] rq] blk] I. cbn [re_hdr fst re_rq snd].
  destruct (H2 id tag rq blk I) as (NZ & x & G & S & R). pose proof (request_on_ctx cfg first evs tag x G ltac:(rewrite S; exact NZ)) as RO. fold c in RO.
  rewrite <- S, RO, R. reflexivity.
Qed.

(* ---------- a sample run: the hypotheses hold, the dynamic table and a size change are in play ---------- *)
(* GET https://h/ with user agent "u", "X-A: 1" and "Connection: x" (dropped) *)
Definition ex_rq_xa : crequest :=
  mkCReq [104] [71; 69; 84] [47] [104; 116; 116; 112; 115] [117]
         [([88; 45; 65], [49]); ([67; 111; 110; 110; 101; 99; 116; 105; 111; 110], [120])] (CBuf []).
(* the same request twice, the server lowering HEADER_TABLE_SIZE to 100 in between, then a POST *)
Definition ex_dec_evs : list cevent :=
  [CEvSubmit 0 ex_rq_xa true; CEvWLIn; CEvRL (ex_settings 1 100); CEvSubmit 1 ex_rq_xa true; CEvWLIn;
   CEvSubmit 2 (ex_post (CBuf [1; 2])) true; CEvWLIn].

Example ex_dec_hyps : sizes_small ex_dec_evs /\ requests_ok ex_dec_evs /\ table_size_frame ex_dec_evs 100.
Proof.
  split; [|split].
  - intros n (fr & st & I & _ & _ & _ & D & _ & ->). cbn [ex_dec_evs In] in I.
    repeat (destruct I as [I|I]; [try discriminate|]); [|contradiction]. inversion I; subst fr. vm_compute in D. inversion D. reflexivity.
  - intros tag rq q I. cbn [ex_dec_evs In] in I.
    repeat (destruct I as [I|I]; [try discriminate; inversion I; subst; vm_compute; reflexivity|]). contradiction.
  - eexists _, _. split; [right; right; left; reflexivity|]. repeat split; vm_compute; reflexivity.
Qed.

(* the three blocks: the second starts with the size update 100 (63 69) and refers to the entries the first one
   created (191 = index 63, 190 = index 62), the third still finds :authority and user-agent... in a table of 100 bytes *)
Example ex_dec_run :
  headers_of (cli_tr ex_cfg [] ex_dec_evs) =
    [(1, true, [65; 129; 159; 130; 132; 135; 122; 129; 183; 0; 131; 242; 176; 255; 129; 15]);
     (3, true, [63; 69; 191; 130; 132; 135; 190; 0; 131; 242; 176; 255; 129; 15]);
     (5, false, [191; 131; 132; 135; 186])] /\
  (exists d, dec_ops (cli_dec0 []) (inr (A:=N) [65; 129; 159; 130; 132; 135; 122; 129; 183; 0; 131; 242; 176; 255; 129; 15] :: inl 100 ::
                                 inr [63; 69; 191; 130; 132; 135; 190; 0; 131; 242; 176; 255; 129; 15] :: inr [191; 131; 132; 135; 186] :: nil)
             = Some (map (fun rq => map triple (request_fields rq)) [ex_rq_xa; ex_rq_xa; ex_post (CBuf [1; 2])], d) /\
             in_sync (cc_enc (cli_run ex_cfg [] ex_dec_evs)) d = true /\ dt_max d = 100 /\ length (dt_entries d) = 2%nat) /\
  request_fields ex_rq_xa = [(S_authority, [104]); (S_method, [71; 69; 84]); (S_path, [47]); (S_scheme, [104; 116; 116; 112; 115]);
                             (S_user_agent, [117]); ([120; 45; 97], [49])].
Proof.
  split; [vm_compute; reflexivity|]. split; [|reflexivity]. eexists. split; [vm_compute; reflexivity|]. repeat split; vm_compute; reflexivity.
Qed.

(* OBSERVATION: the table size the server asks for is handed to the write loop before the SETTINGS ACK is queued, and
   writeRequest applies it whenever it runs next: the header block that carries the size update 8192 is on the wire
   BEFORE the ACK (RFC 7541 4.2 has the update follow the acknowledgment). A decoder that only raises its limit when
   the ACK arrives sees an update above its limit. *)
Example ex_size_update_before_ack :
  let evs := [CEvSubmit 0 ex_get true; CEvRL (ex_settings 1 8192); CEvWLIn] in
  (exists b, headers_of (cli_tr ex_cfg [] evs) = [(1, true, 63 :: 225 :: 63 :: b)]) /\
  existsb (fun o => match o with COSettingsAck => true | _ => false end) (cli_tr ex_cfg [] evs) = false /\
  cc_outQ (cli_run ex_cfg [] evs) = [COSettingsAck] /\
  spec_decode_block (dtable_init 4096) (snd (hd (0, true, []) (headers_of (cli_tr ex_cfg [] evs)))) = None.
Proof. cbv zeta. split; [eexists; vm_compute; reflexivity|]. repeat split; vm_compute; reflexivity. Qed.

(* the hypotheses of cli_requests_intact hold of the two requests of ex_two_ok (Props/C02_statements.v) *)
Example ex_intact_hyps : cl_settings_deserialize false [] <> None /\ table_size_fixed ex_two_ok /\ requests_ok ex_two_ok.
Proof.
  split; [vm_compute; discriminate|]. split.
  - intros fr I K. cbv [ex_two_ok ex_headers ex_frame ex_data In] in I.
    repeat (destruct I as [I|I]; [try discriminate; inversion I; subst fr; discriminate K|]). contradiction.
  - intros tag rq q I. cbv [ex_two_ok In] in I.
    repeat (destruct I as [I|I]; [try discriminate; inversion I; subst; vm_compute; reflexivity|]). contradiction.
Qed.
