(* Proofs/SrvMsgC20.v - C20, server half: the statements of Props/C20.v.

   A request is the frames  HEADERS CONTINUATION* DATA* [HEADERS(END_STREAM) CONTINUATION*]  on a fresh stream id,
   fed in lockstep (read loop, stream loop) to a connection in any state that is `ready` for it.  The decoder is the
   abstract one; "the blocks decode to the header list fs and the trailer list tr" is the hypothesis request_decodes. *)
From H2V Require Import Base.Bytes Base.MachineInt Base.Result Gen.GenConsts Impl.ServerConn Spec.Http2Messages
     Proofs.SrvBase Proofs.SrvMsgDefs Proofs.SrvMsgPure Proofs.SrvMsgLoop Proofs.SrvMsgStream Proofs.SrvMsgPhase
     Proofs.SrvMsgReq Proofs.SrvInvSlots.
From Coq Require Import ZArith Lia ZifyN ZifyNat ZifyBool.
Local Open Scope N_scope.

Section C20.
Variable hstate : Type.
Variable dec_field : hstate -> N -> bytes -> dec_res hstate.
Variable enc_field : hstate -> bytes -> bytes -> bool -> bytes * hstate.
Variable enc_set_max : hstate -> N -> hstate.
Variable cfg : config.
Notation sconn := (sconn hstate).
Notation run_from := (run_from dec_field enc_field enc_set_max cfg).
Notation run := (run dec_field enc_field enc_set_max cfg).
Implicit Types c : sconn.

(* the header block decodes to fs, the trailer block (if any) to tr, leaving the decoder in d2;
   carries: what each frame boundary cut off *)
Definition request_decodes (d : hstate) (hfrags : list bytes) (tfrags : option (list bytes))
           (fs tr : list field) (d2 : hstate) (carries : list bytes) : Prop :=
  exists d1 k1 k2,
    decodes dec_field d hfrags fs d1 k1 /\
    match tfrags with
    | Some tf => decodes dec_field d1 tf tr d2 k2
    | None => tr = [] /\ d2 = d1 /\ k2 = []
    end /\
    carries = k1 ++ k2.

(* what the connection has put out since c0 (newest first) is l *)
Definition since (c0 c' : sconn) (l : list outev) : Prop := sc_out c' = l ++ sc_out c0.

(* the handler of sid was started between c0 and c' *)
Definition dispatched (c0 c' : sconn) (sid : N) : Prop := exists l rq, since c0 c' l /\ In (ODispatch sid rq) l.

Definition is_winupd (o : outev) : Prop := match o with OWinUpd _ _ => True | _ => False end.
(* the outputs of a refusal: RST_STREAM(code) on sid, the release of the stream, window updates *)
Definition refusal_out (sid code : N) (o : outev) : Prop :=
  match o with
  | OWinUpd _ _ => True
  | ORst s cd => s = sid /\ cd = code
  | ORelease s w => s = sid /\ w = true
  | _ => False
  end.

(* the part of the size policy that is enforced with GOAWAY: the header list and the partial fields carried over *)
Definition header_limits (fs tr : list field) (carries : list bytes) : bool :=
  negb (list_over cfg (fsize (fs ++ tr))) && forallb (fun x => negb (list_over cfg (Z.of_N (len x)))) carries.

Lemma within_limits_split fs tr carries n :
  within_limits cfg fs tr carries n = header_limits fs tr carries && negb (body_over cfg (Z.of_N n)).
Proof. reflexivity. Qed.

Lemma hlimit_header_limits fs tr k1 k2 : hlimit cfg fs tr k1 k2 = header_limits fs tr (k1 ++ k2).
Proof.
  unfold hlimit, header_limits. rewrite fsize_app, <- andb_assoc, <- negb_orb, <- carries_over_app.
  unfold carries_over, carry_over. rewrite <- forallb_negb_existsb. reflexivity.
Qed.

Definition the_request (fs : list field) (chunks : list bytes) (tr : list field) : request := final_req fs chunks tr.

(* the fields of the connection that a request must leave alone, whatever its fate *)
Definition untouched (c0 c' : sconn) : Prop :=
  sc_closing c' = sc_closing c0 /\ sc_closeRef c' = sc_closeRef c0 /\
  sc_sl_done c' = false /\ sc_rl_done c' = false /\ sc_wl_dead c' = false /\ sc_closer c' = sc_closer c0 /\
  sc_readerQ c' = [] /\ sc_expectCont c' = 0 /\
  sc_gone c' = sc_gone c0 /\ sc_enc c' = sc_enc c0 /\ sc_initWin c' = sc_initWin c0 /\
  sc_clientWindow c' = sc_clientWindow c0 /\ sc_now c' = sc_now c0.

Section Run.
Variable c0 : sconn.
Variable sid : N.
Hypothesis R0 : ready cfg c0 sid.
Variables (hfrags chunks : list bytes) (tfrags : option (list bytes)).
Variables (fs tr : list field) (d2 : hstate) (carries : list bytes).
Hypothesis DEC : request_decodes (sc_dec c0) hfrags tfrags fs tr d2 carries.
Let n := len (concat chunks).
Let c' := run_from c0 (lockstep (req_frames sid hfrags chunks tfrags)).

Lemma base_untouched ec c : base c0 sid c ec -> ec = 0 -> sc_closing c0 = false -> untouched c0 c.
Proof. intros [] -> C. unfold untouched. rewrite C. repeat split; assumption. Qed.

Lemma run_outcome :
  exists k1 k2, carries = k1 ++ k2 /\
  outcome hstate cfg c0 sid (within_limits cfg fs tr carries n) (hlimit cfg fs tr k1 k2) (vacc2 cfg v0 fs tr n) fs chunks tr d2 c'.
Proof.
  destruct DEC as (d1 & k1 & k2 & D1 & D2 & ->). exists k1, k2. split; [reflexivity|].
  unfold c'. rewrite run_from_lockstep.
  apply (request_run _ dec_field enc_field enc_set_max cfg c0 sid R0 hfrags chunks tfrags fs tr d1 d2 k1 k2 D1).
  destruct tfrags; exact D2.
Qed.

(* (a) within the size policy, the handler runs iff the request is well formed *)
Theorem server_iff :
  (Z.of_N n <= MAXINT)%Z -> within_limits cfg fs tr carries n = true ->
  (dispatched c0 c' sid <-> wf_request fs tr n = true).
Proof.
  intros Hn L. destruct run_outcome as (k1 & k2 & E & O). unfold outcome in O. rewrite L in O. cbn [andb] in O.
  assert (B : body_over cfg (Z.of_N n) = false).
  { unfold within_limits in L. apply andb_true_iff in L. destruct L as [_ L]. apply negb_true_iff in L. exact L. }
  rewrite (vacc2_wf cfg n B Hn) in O.
  destruct (wf_request fs tr n).
  - split; [reflexivity|]. intros _. destruct O as (st & size & nf & _ & _ & _ & _ & _ & l & Eo & _).
    exists (ODispatch sid (final_req fs chunks tr) :: l), (final_req fs chunks tr). split; [exact Eo | left; reflexivity].
  - split; [|discriminate]. intros (l & rq & S & I). exfalso.
    destruct O as [[[_ (l' & E' & F')] | [code D]] _].
    + unfold since in S. rewrite E' in S. apply app_inv_tail in S. subst l'.
      rewrite Forall_forall in F'. exact (F' _ I rq eq_refl).
    + cbn [holds] in D. destruct D as [_ _ _ _ _ (l' & E' & F' & _)].
      unfold since in S. rewrite E' in S. apply app_inv_tail in S. subst l'.
      rewrite Forall_forall in F'. specialize (F' _ I). exact F'.
Qed.

Lemma not_dispatched_gone c : gone c0 sid c -> ~ dispatched c0 c sid.
Proof.
  intros [_ (l' & E' & F')] (l & rq & S & I).
  unfold since in S. rewrite E' in S. apply app_inv_tail in S. subst l'.
  rewrite Forall_forall in F'. exact (F' _ I rq eq_refl).
Qed.
Lemma not_dispatched_dead c ec code d : dead c0 sid c ec code d -> ~ dispatched c0 c sid.
Proof.
  intros [_ _ _ _ _ (l' & E' & F' & _)] (l & rq & S & I).
  unfold since in S. rewrite E' in S. apply app_inv_tail in S. subst l'.
  rewrite Forall_forall in F'. exact (F' _ I).
Qed.
Lemma not_dispatched_rej c d : rej hstate cfg c0 sid c d -> ~ dispatched c0 c sid.
Proof. intros [G | [code D]]; [apply not_dispatched_gone; exact G | eapply not_dispatched_dead; exact D]. Qed.

(* over the size policy: never dispatched *)
Theorem server_over_limits : within_limits cfg fs tr carries n = false -> ~ dispatched c0 c' sid.
Proof.
  intros L. destruct run_outcome as (k1 & k2 & E & O). unfold outcome in O. rewrite L in O. cbn [andb] in O.
  destruct O as [RJ _]. apply (not_dispatched_rej _ _ RJ).
Qed.

(* a well-formed request: exactly what happens *)
Theorem server_accepts :
  (Z.of_N n <= MAXINT)%Z -> within_limits cfg fs tr carries n = true -> wf_request fs tr n = true ->
  exists l s',
    since c0 c' (ODispatch sid (the_request fs chunks tr) :: l) /\ Forall is_winupd l /\
    sc_strms c' = sc_strms c0 ++ [s'] /\ st_id s' = sid /\ st_handlerRunning s' = true /\ st_state s' = SHalfClosed /\
    st_req s' = the_request fs chunks tr /\
    sc_dec c' = d2 /\ sc_ring c' = sc_ring c0 /\ sc_open c' = (sc_open c0 + 1)%Z /\
    sc_lastID c' = sid /\ sc_highestID c' = sid /\ untouched c0 c'.
Proof.
  intros Hn L W. destruct run_outcome as (k1 & k2 & E & O). unfold outcome in O. rewrite L in O. cbn [andb] in O.
  assert (B : body_over cfg (Z.of_N n) = false).
  { unfold within_limits in L. apply andb_true_iff in L. destruct L as [_ L]. apply negb_true_iff in L. exact L. }
  rewrite (vacc2_wf cfg n B Hn), W in O.
  destruct O as (st & size & nf & Bs & St & De & Ri & Op & l & Eo & Fo).
  exists l, (D_of hstate c0 sid (H_of true [] st size nf (final_req fs chunks tr)) (bytes_len chunks)).
  assert (U : untouched c0 c') by (apply (base_untouched 0 c' Bs eq_refl), (rd_closing _ _ _ _ (proj1 R0))).
  destruct Bs.
  split; [exact Eo|]. split; [eapply Forall_impl; [|exact Fo]; intros o Ho; destruct o; exact Ho|].
  split; [exact St|]. do 4 (split; [reflexivity|]).
  repeat (split; [assumption|]). exact U.
Qed.

(* a malformed request within the header-list policy: the stream alone is refused *)
Theorem server_refuses :
  header_limits fs tr carries = true ->
  (Z.of_N n <= MAXINT)%Z ->
  within_limits cfg fs tr carries n && wf_request fs tr n = false ->
  exists code l,
    (code = c_ProtocolError \/ code = c_EnhanceYourCalm) /\
    since c0 c' l /\ In (ORst sid code) l /\ Forall (refusal_out sid code) l /\
    sc_strms c' = sc_strms c0 /\ ring_find c' sid = Some true /\
    sc_dec c' = d2 /\ sc_open c' = sc_open c0 /\
    sc_lastID c' = sid /\ sc_highestID c' = sid /\ untouched c0 c'.
Proof.
  intros HL Hn F.
  destruct DEC as (d1 & k1' & k2' & D1 & D2 & Ec).
  assert (O : outcome hstate cfg c0 sid (within_limits cfg fs tr carries n) (hlimit cfg fs tr k1' k2') (vacc2 cfg v0 fs tr n)
                      fs chunks tr d2 c').
  { subst carries. unfold c'. rewrite run_from_lockstep.
    apply (request_run _ dec_field enc_field enc_set_max cfg c0 sid R0 hfrags chunks tfrags fs tr d1 d2 k1' k2' D1).
    destruct tfrags; exact D2. }
  assert (HL' : hlimit cfg fs tr k1' k2' = true) by (rewrite hlimit_header_limits, <- Ec; exact HL).
  unfold outcome in O.
  assert (F' : within_limits cfg fs tr carries n && vacc2 cfg v0 fs tr n = false).
  { destruct (within_limits cfg fs tr carries n) eqn:L; [|reflexivity]. cbn [andb] in *.
    assert (B : body_over cfg (Z.of_N n) = false).
    { unfold within_limits in L. apply andb_true_iff in L. destruct L as [_ L]. apply negb_true_iff in L. exact L. }
    rewrite (vacc2_wf cfg n B Hn). exact F. }
  rewrite F' in O. destruct O as [_ O]. destruct (O HL') as (code & K & D).
  cbn [holds] in D. pose proof D as D'. destruct D' as [Bs St Ri De Op (l & Eo & Fo & Io)].
  exists code, l.
  assert (U : untouched c0 c') by (apply (base_untouched 0 c' Bs eq_refl), (rd_closing _ _ _ _ (proj1 R0))).
  destruct Bs.
  split; [exact K|]. split; [exact Eo|]. split; [exact Io|].
  split; [eapply Forall_impl; [|exact Fo]; intros o Ho; destruct o; exact Ho|].
  repeat (split; [assumption|]). exact U.
Qed.

End Run.
End C20.

(* ---------- positions in a connection's history ---------- *)
Section Positions.
Variable hstate : Type.
Variable cfg : config.

(* a new connection is ready for any odd stream id *)
Lemma ready_init (h0 : hstate) sid : N.land sid 1 = 1 -> (0 < cf_maxStreams cfg)%Z -> ready cfg (init_conn cfg h0) sid.
Proof.
  intros O M. assert (NZ : sid <> 0) by (intro; subst; discriminate).
  split; [|repeat split]. constructor; unfold init_conn; sc_cbn; try reflexivity; try assumption.
  all: try (unfold closedStrmsCap; lia). constructor.
Qed.

End Positions.

(* in a state reached by ANY history, the table part of `ready` comes for free (the structural invariant SI of C13:
   every id in the table is at most sc_lastID <= sc_highestID): what is left to check is the rest *)
Section Reachable.
Variable hstate : Type.
Variable dec_field : hstate -> N -> bytes -> dec_res hstate.
Variable enc_field : hstate -> bytes -> bytes -> bool -> bytes * hstate.
Variable enc_set_max : hstate -> N -> hstate.
Variable cfg : config.
Variable h0 : hstate.

Theorem ready_reachable (c : sconn hstate) sid :
  reachable dec_field enc_field enc_set_max cfg h0 c ->
  N.land sid 1 = 1 -> sc_highestID c < sid ->
  in_ring c sid = false -> sc_oldest c < closedStrmsCap -> sc_discardID c <> sid ->
  Forall quiet (sc_strms c) -> (sc_open c < cf_maxStreams cfg)%Z -> sc_closing c = false ->
  sc_sl_done c = false -> sc_wl_dead c = false -> sc_rl_done c = false -> sc_readerQ c = [] -> sc_expectCont c = 0 ->
  ready cfg c sid.
Proof.
  intros RC O F R OL D Q SL CL S W RL RQ EC.
  pose proof (SI_reachable_T hstate dec_field enc_field enc_set_max cfg h0 c RC) as SI.
  destruct SI as [_ _ _ _ _ _ _ HI IDS _]. destruct (IDS S) as [_ LE].
  split; [|repeat split; assumption]. constructor; try assumption.
  apply (Proofs.SrvInvDecomp.search_none_gt (sc_strms c) (sc_lastID c) sid); [|lia].
  intros s I. apply LE. apply in_or_app. left. exact I.
Qed.
End Reachable.

Arguments request_decodes {hstate}. Arguments since {hstate}. Arguments dispatched {hstate}. Arguments untouched {hstate}.
