(* Proofs/SrvFlowDone.v - C06 completion, for a buffered response body: what one call of sendData puts on the wire,
   exactly; when the windows cover what is left, the response is finished with a single END_STREAM. *)
From H2V Require Import Base.Bytes Base.MachineInt Base.Result Gen.GenConsts Impl.ServerConn Proofs.SrvBase
  Proofs.SrvFlowSend Proofs.SrvFlowFuel.
From Coq Require Import ZArith Lia ZifyN ZifyNat ZifyBool List.
Import ListNotations.
Local Open Scope N_scope.
Set Default Proof Using "Type".

Definition frames_out (sid : N) (frames : list (bool * bytes)) : list outev :=
  map (fun f => OData sid (fst f) (snd f)) frames.

(* END_STREAM flags of a run of DATA frames: none, or only on the last one *)
Definition es_shape (frames : list (bool * bytes)) (fin : bool) : Prop :=
  map fst frames = repeat false (length frames - (if fin then 1 else 0)) ++ (if fin then [true] else []).

Lemma skipn_add {A} (a b : nat) (l : list A) : skipn a (skipn b l) = skipn (b + a) l.
Proof.
  revert l. induction b as [|b IH]; intro l; [reflexivity|]. destruct l; [rewrite !skipn_nil; reflexivity|]. cbn [skipn Nat.add]. apply IH.
Qed.

Lemma takeN_nil k : takeN k [] = [].
Proof. unfold takeN. apply firstn_nil. Qed.
Lemma dropN_nil k : dropN k [] = [].
Proof. unfold dropN. apply skipn_nil. Qed.

Section Done.
Variable hstate : Type.
Notation sconn := (sconn hstate).
Implicit Types c : sconn.

(* how many bytes sendData can send now *)
Definition sd_quota c (n : sendst) : N := Z.to_N (Z.max 0 (Z.min (Z.of_N (len (sn_pending n))) (sd_avail c n))).

Lemma SDL_buffered sid c n r k : SDL sid c n r k -> k = false ->
  sn_bodyStream n = None -> sn_pendingEnd n = true -> sc_wl_dead c = false -> sc_sl_done c = false ->
  let c' := fst (fst (fst r)) in let n' := snd (fst (fst r)) in let fin := snd (fst r) in
  exists frames,
    sc_out c' = rev (frames_out sid frames) ++ sc_out c /\
    concat (map snd frames) = takeN (sd_quota c n) (sn_pending n) /\
    sn_pending n' = dropN (sd_quota c n) (sn_pending n) /\
    Forall (fun f => 0 < len (snd f) <= 16384) frames /\
    es_shape frames (fin && negb (match sn_pending n with [] => true | _ => false end)) /\
    fin = (sd_quota c n =? len (sn_pending n)) /\
    sn_window n' = (sn_window n - Z.of_N (sd_quota c n))%Z /\
    sc_clientWindow c' = (sc_clientWindow c - Z.of_N (sd_quota c n))%Z /\
    sn_bodyStream n' = None /\ sn_pendingEnd n' = true /\ sc_wl_dead c' = false /\ sc_sl_done c' = false.
Proof.
  induction 1; intros Ek BS PE WD SD; cbv zeta; cbn [fst snd]; try discriminate.
  - (* nothing pending *)
    exists []. assert (Q : sd_quota c n = 0) by (unfold sd_quota; rewrite H; change (len []) with 0; lia).
    rewrite Q, H. rewrite takeN_nil, dropN_nil. cbn [frames_out map rev app concat].
    split; [reflexivity|]. split; [reflexivity|]. split; [reflexivity|]. split; [constructor|].
    split; [reflexivity|]. split; [reflexivity|]. split; [lia|]. split; [lia|]. auto.
  - congruence.
  - congruence.
  - (* blocked *)
    destruct H as [P|]; [|congruence].
    exists []. assert (Q : sd_quota c n = 0) by (unfold sd_quota; lia). rewrite Q.
    cbn [frames_out map rev app concat takeN dropN firstn skipn N.to_nat].
    assert (LP : len (sn_pending n) <> 0) by (rewrite len_nil_iff; exact P).
    split; [reflexivity|]. split; [reflexivity|]. split; [reflexivity|]. split; [constructor|].
    split; [reflexivity|]. split; [symmetry; apply N.eqb_neq; lia|]. split; [lia|]. split; [lia|]. auto.
  - (* the last chunk *)
    destruct H as [P|]; [|congruence].
    destruct (sd_step_bounds _ c n P H0) as (B1 & B2 & B3 & B4 & B5).
    unfold sd_es in H1. rewrite PE in H1. cbn [andb] in H1.
    assert (R : sd_rest c n = []) by (destruct (sd_rest c n); [reflexivity | discriminate]).
    assert (LR : len (sd_rest c n) = len (sn_pending n) - Z.to_N (sd_step c n)) by (unfold sd_rest; apply len_dropN).
    rewrite R in LR. change (len []) with 0 in LR.
    assert (ST : sd_step c n = Z.of_N (len (sn_pending n))) by lia.
    assert (Q : sd_quota c n = len (sn_pending n)).
    { unfold sd_quota. unfold sd_step in ST. rewrite !zmin_min in ST. lia. }
    assert (CH : sd_chunk c n = sn_pending n).
    { pose proof (sd_chunk_rest _ c n) as X. rewrite R, app_nil_r in X. exact X. }
    exists [(true, sn_pending n)]. unfold sd_c2, sd_n'. sc_cbn. cbn [sn_pending sn_window sn_bodyStream sn_pendingEnd].
    rewrite sc_out_emit, WD, SD, Q, R, CH. unfold sd_es. rewrite PE, R. cbn [andb frames_out map rev app fst snd concat].
    assert (LP : len (sn_pending n) <> 0) by (rewrite len_nil_iff; exact P).
    rewrite app_nil_r. unfold takeN, dropN. rewrite firstn_all2, skipn_all2 by (unfold len; lia).
    split; [reflexivity|]. split; [reflexivity|]. split; [reflexivity|].
    split; [repeat constructor; cbn [snd]; lia|].
    split; [destruct (sn_pending n); [congruence | reflexivity]|].
    split; [symmetry; apply N.eqb_refl|]. rewrite ST, ?sc_wl_dead_emit, ?sc_sl_done_emit. repeat split; try assumption; lia.
  - (* a chunk, and on *)
    destruct H as [P|]; [|congruence].
    destruct (sd_step_bounds _ c n P H0) as (B1 & B2 & B3 & B4 & B5).
    pose proof (sd_chunk_len _ c n P H0) as CL.
    unfold sd_es in H1. rewrite PE in H1. cbn [andb] in H1.
    assert (R : sd_rest c n <> []) by (intro X; rewrite X in H1; discriminate).
    assert (LR : len (sd_rest c n) = len (sn_pending n) - Z.to_N (sd_step c n)) by (unfold sd_rest; apply len_dropN).
    assert (LR0 : len (sd_rest c n) <> 0) by (rewrite len_nil_iff; exact R).
    destruct (IHSDL Ek) as (frames & E & CC & PD & FA & ES & FN & W & CW & B' & P' & W' & S'); clear IHSDL.
    { exact BS. } { exact PE. }
    { unfold sd_c2. sc_cbn. rewrite sc_wl_dead_emit. exact WD. }
    { unfold sd_c2. sc_cbn. rewrite sc_sl_done_emit. exact SD. }
    cbv zeta in E, CC, PD, ES, FN, W, CW.
    (* the quota splits *)
    assert (AV' : sd_avail (sd_c2 c sid n) (sd_n' c n) = (sd_avail c n - sd_step c n)%Z).
    { unfold sd_avail, sd_c2, sd_n'. sc_cbn. cbn [sn_window]. rewrite !zmin_min. lia. }
    assert (Q : sd_quota c n = Z.to_N (sd_step c n) + sd_quota (sd_c2 c sid n) (sd_n' c n)).
    { unfold sd_quota. rewrite AV'. unfold sd_n' at 1. cbn [sn_pending]. rewrite LR.
      unfold sd_step in *. rewrite !zmin_min in *. lia. }
    set (q' := sd_quota (sd_c2 c sid n) (sd_n' c n)) in *.
    exists ((false, sd_chunk c n) :: frames).
    assert (O1 : sc_out (sd_c2 c sid n) = OData sid false (sd_chunk c n) :: sc_out c).
    { unfold sd_c2. sc_cbn. rewrite sc_out_emit, WD, SD. unfold sd_es. rewrite PE. cbn [andb].
      destruct (sd_rest c n); [congruence | reflexivity]. }
    split; [rewrite E, O1; cbn [frames_out map rev fst snd]; rewrite <- app_assoc; reflexivity|].
    assert (TK : takeN (Z.to_N (sd_step c n) + q') (sn_pending n) = sd_chunk c n ++ takeN q' (sd_rest c n)).
    { unfold takeN, sd_chunk, sd_rest, dropN. rewrite N2Nat.inj_add. 
      rewrite <- (firstn_skipn (N.to_nat (Z.to_N (sd_step c n))) (sn_pending n)) at 1.
      rewrite firstn_app. rewrite firstn_length.
      replace (Init.Nat.min (N.to_nat (Z.to_N (sd_step c n))) (length (sn_pending n))) with (N.to_nat (Z.to_N (sd_step c n))) by (unfold len in *; lia).
      rewrite firstn_firstn.
      replace (Init.Nat.min (N.to_nat (Z.to_N (sd_step c n)) + N.to_nat q') (N.to_nat (Z.to_N (sd_step c n)))) with (N.to_nat (Z.to_N (sd_step c n))) by lia.
      replace (N.to_nat (Z.to_N (sd_step c n)) + N.to_nat q' - N.to_nat (Z.to_N (sd_step c n)))%nat with (N.to_nat q') by lia.
      reflexivity. }
    assert (DK : dropN (Z.to_N (sd_step c n) + q') (sn_pending n) = dropN q' (sd_rest c n)).
    { unfold dropN, sd_rest, dropN. rewrite N2Nat.inj_add. rewrite skipn_add. reflexivity. }
    unfold sd_n' in CC, PD. cbn [sn_pending] in CC, PD.
    split; [cbn [map snd concat]; rewrite CC, Q, TK; reflexivity|].
    split; [rewrite PD, Q, DK; reflexivity|].
    split; [constructor; [cbn [snd]; lia | exact FA]|].
    split.
    { (* END_STREAM only on the last frame *)
      unfold sd_n' in ES. cbn [sn_pending] in ES.
      replace (match sd_rest c n with [] => true | _ => false end) with false in ES by (destruct (sd_rest c n); [congruence | reflexivity]).
      replace (match sn_pending n with [] => true | _ => false end) with false by (destruct (sn_pending n); [congruence | reflexivity]).
      unfold es_shape in *. cbn [map fst length]. rewrite ES. rewrite Bool.andb_true_r.
      destruct (snd (fst r)).
      - cbn [andb negb] in ES |- *. destruct frames as [|f fs]; [cbn in ES; discriminate|].
        cbn [length]. replace (S (S (length fs)) - 1)%nat with (S (S (length fs) - 1)) by lia. reflexivity.
      - cbn [andb]. rewrite !Nat.sub_0_r. reflexivity. }
    split.
    { rewrite FN. unfold sd_n'. cbn [sn_pending]. rewrite Q, LR. 
      destruct (q' =? len (sn_pending n) - Z.to_N (sd_step c n)) eqn:E1; symmetry; [apply N.eqb_eq | apply N.eqb_neq]; lia. }
    unfold sd_n' in W. cbn [sn_window] in W. unfold sd_c2 in CW. sc_cbn_in CW.
    split; [rewrite W, Q; lia|]. split; [rewrite CW, Q; lia|]. auto.
Qed.

(* one call of sendData on a stream with a buffered body *)
Theorem send_data_buffered c s :
  st_bodyStream s = None -> st_pendingEnd s = true -> sc_wl_dead c = false -> sc_sl_done c = false ->
  let q := Z.to_N (Z.max 0 (Z.min (Z.of_N (len (st_pending s))) (Z.min (st_window s) (sc_clientWindow c)))) in
  let r := send_data c s in
  exists frames,
    sc_out (fst (fst r)) = rev (frames_out (st_id s) frames) ++ sc_out c /\
    concat (map snd frames) = takeN q (st_pending s) /\
    st_pending (snd (fst r)) = dropN q (st_pending s) /\
    Forall (fun f => 0 < len (snd f) <= 16384) frames /\
    es_shape frames (snd r && negb (match st_pending s with [] => true | _ => false end)) /\
    snd r = (q =? len (st_pending s)) /\
    st_window (snd (fst r)) = (st_window s - Z.of_N q)%Z /\
    sc_clientWindow (fst (fst r)) = (sc_clientWindow c - Z.of_N q)%Z.
Proof.
  intros BS PE WD SD. cbv zeta. unfold send_data.
  pose proof (send_data_SDL _ (st_id s) c (get_snd s)) as H.
  destruct (SDL_buffered _ _ _ _ _ H eq_refl BS PE WD SD) as (frames & E & CC & PD & FA & ES & FN & W & CW & _).
  cbv zeta in E, CC, PD, ES, FN, W, CW.
  destruct (send_data_loop (send_data_fuel (get_snd s)) c (st_id s) (get_snd s)) as [[[c1 n1] done] wr].
  cbn [fst snd] in *. unfold sd_quota, sd_avail in *. rewrite zmin_min in *. cbn [get_snd sn_pending sn_window] in *.
  exists frames. split; [exact E|]. split; [exact CC|].
  split; [destruct wr, done; cbn [st_pending set_weReset set_snd sn_pending]; exact PD|].
  split; [exact FA|]. split; [exact ES|]. split; [exact FN|].
  split; [destruct wr, done; cbn [st_window set_weReset set_snd sn_window]; exact W | exact CW].
Qed.

(* the stream sendData hands back: only the window and the buffer have moved *)
Lemma send_data_buffered_stream c s :
  st_bodyStream s = None -> st_pendingEnd s = true -> sc_wl_dead c = false -> sc_sl_done c = false ->
  let s' := snd (fst (send_data c s)) in
  st_id s' = st_id s /\ st_state s' = st_state s /\ st_headersFinished s' = st_headersFinished s /\
  st_responded s' = st_responded s /\ st_handlerRunning s' = st_handlerRunning s /\
  st_bodyStream s' = None /\ st_pendingEnd s' = true /\
  sc_strms (fst (fst (send_data c s))) = sc_strms c /\ sc_sl_done (fst (fst (send_data c s))) = false /\
  sc_wl_dead (fst (fst (send_data c s))) = false /\ sc_closing (fst (fst (send_data c s))) = sc_closing c /\
  sc_closeRef (fst (fst (send_data c s))) = sc_closeRef c.
Proof.
  intros BS PE WD SD. cbv zeta. unfold send_data.
  pose proof (send_data_SDL _ (st_id s) c (get_snd s)) as H.
  destruct (SDL_buffered _ _ _ _ _ H eq_refl BS PE WD SD) as (frames & _ & _ & _ & _ & _ & _ & _ & _ & B' & P' & W' & S').
  pose proof (SDL_nf _ _ _ _ _ _ H) as NF.
  destruct (send_data_loop (send_data_fuel (get_snd s)) c (st_id s) (get_snd s)) as [[[c1 n1] done] wr].
  cbn [fst snd] in *.
  assert (F : sc_strms c1 = sc_strms c /\ sc_closing c1 = sc_closing c /\ sc_closeRef c1 = sc_closeRef c)
    by (rewrite NF; repeat split).
  destruct F as (F1 & F2 & F3).
  destruct wr, done; cbn [st_id st_state st_headersFinished st_responded st_handlerRunning st_bodyStream st_pendingEnd
                          set_weReset set_snd sn_bodyStream sn_pendingEnd]; repeat split; assumption.
Qed.

(* completion: when both windows cover what is left of the body, it all goes out now, in frames of at most 16384
   bytes, the last one and only the last one with END_STREAM, and sendData reports the response finished *)
Corollary send_data_completes c s :
  st_bodyStream s = None -> st_pendingEnd s = true -> sc_wl_dead c = false -> sc_sl_done c = false ->
  st_pending s <> [] ->
  (Z.of_N (len (st_pending s)) <= st_window s)%Z -> (Z.of_N (len (st_pending s)) <= sc_clientWindow c)%Z ->
  let r := send_data c s in
  snd r = true /\ st_pending (snd (fst r)) = [] /\
  exists frames,
    sc_out (fst (fst r)) = rev (frames_out (st_id s) frames) ++ sc_out c /\
    concat (map snd frames) = st_pending s /\
    Forall (fun f => 0 < len (snd f) <= 16384) frames /\ es_shape frames true.
Proof.
  intros BS PE WD SD P W1 W2. cbv zeta.
  destruct (send_data_buffered c s BS PE WD SD) as (frames & E & CC & PD & FA & ES & FN & _). cbv zeta in *.
  assert (Q : Z.to_N (Z.max 0 (Z.min (Z.of_N (len (st_pending s))) (Z.min (st_window s) (sc_clientWindow c)))) = len (st_pending s)) by lia.
  rewrite Q in *. rewrite N.eqb_refl in FN. rewrite FN in ES.
  replace (match st_pending s with [] => true | _ => false end) with false in ES by (destruct (st_pending s); [congruence | reflexivity]).
  unfold takeN, dropN in *. rewrite firstn_all2 in CC by (unfold len; lia). rewrite skipn_all2 in PD by (unfold len; lia).
  split; [exact FN|]. split; [exact PD|]. exists frames. auto.
Qed.

End Done.
