(* Proofs/SrvFlowRecv.v - C14 (server): the credit the server hands back for the DATA it receives. *)
From H2V Require Import Base.Bytes Base.MachineInt Base.Result Gen.GenConsts Impl.ServerConn Proofs.SrvBase
  Spec.FlowLedger Proofs.SrvFlowLedger Proofs.SrvFlowDefs Proofs.SrvFlowSend Proofs.SrvFlowEff.
From Coq Require Import ZArith Lia ZifyN ZifyNat ZifyBool List.
Import ListNotations.
Local Open Scope N_scope.
Set Default Proof Using "Type".

(* outputs other than WINDOW_UPDATE *)
Definition nowu_out (o : outev) : Prop := match strip o with OWinUpd _ _ => False | _ => True end.

Lemma quiet_nowu o : quiet_out o -> nowu_out o.
Proof. unfold quiet_out, nowu_out. destruct (strip o); auto. Qed.

Lemma rcredits_nowu new : Forall nowu_out new -> rcredits new = [].
Proof.
  induction 1 as [|o l Ho _ IH]; [reflexivity|]. rewrite rcredits_cons, IH, app_nil_r.
  unfold rcredit_of. unfold nowu_out in Ho. destruct (strip o); try reflexivity; contradiction.
Qed.

Section NoCredit.
Variable hstate : Type.
Variable enc_field : hstate -> bytes -> bytes -> bool -> bytes * hstate.
Variable cfg : config.
Notation sconn := (sconn hstate).
Implicit Types c : sconn.

(* the send side and the bookkeeping of streams: no credit is given, the receive window does not move *)
Definition NoCredit c c' : Prop := Frame c c' /\ out_ext nowu_out c c'.

Lemma NoCredit_refl c : NoCredit c c.
Proof. split; [apply Frame_refl | apply out_ext_refl]. Qed.
Lemma NoCredit_trans a b c : NoCredit a b -> NoCredit b c -> NoCredit a c.
Proof. intros [A1 A2] [B1 B2]. split; [eapply Frame_trans | eapply out_ext_trans]; eassumption. Qed.
Lemma NoCredit_Quiet c c' : Quiet c c' -> NoCredit c c'.
Proof. intro Q. split; [apply Quiet_Frame, Q | eapply out_ext_weaken; [apply quiet_nowu | apply Q]]. Qed.
Lemma NoCredit_Closes c c' : Closes c c' -> NoCredit c c'.
Proof. intro Q. split; [apply Q | eapply out_ext_weaken; [apply quiet_nowu | apply Q]]. Qed.
Lemma NoCredit_put c x : NoCredit c (put c x).
Proof. split; [apply Frame_put | apply out_ext_same; reflexivity]. Qed.
Lemma NoCredit_emit c o : nowu_out o -> NoCredit c (emit c o).
Proof. intro H. split; [apply Frame_emit | apply out_ext_emit; exact H]. Qed.
Lemma NoCredit_upd_enc c e : NoCredit c (upd_enc c e).
Proof. split; [apply Frame_upd_enc | apply out_ext_same; reflexivity]. Qed.
Lemma NoCredit_upd_clientWindow c w : NoCredit c (upd_clientWindow c w).
Proof. split; [apply Frame_upd_clientWindow | apply out_ext_same; reflexivity]. Qed.

Lemma NoCredit_sd_c2 c sid n : NoCredit c (sd_c2 c sid n).
Proof.
  unfold sd_c2. eapply NoCredit_trans; [apply (NoCredit_emit c (OData sid (sd_es c n) (sd_chunk c n)) I) | apply NoCredit_upd_clientWindow].
Qed.

Lemma SDL_NoCredit sid c n r k : SDL sid c n r k -> NoCredit c (fst (fst (fst r))).
Proof.
  induction 1; cbn [fst]; try apply NoCredit_refl.
  - apply NoCredit_Quiet, Quiet_write_reset.
  - destruct (sn_pendingEnd n1); [apply (NoCredit_emit c (OData sid true []) I) | apply NoCredit_refl].
  - apply NoCredit_sd_c2.
  - eapply NoCredit_trans; [apply NoCredit_sd_c2 | exact IHSDL].
Qed.

Lemma send_data_NoCredit c s : NoCredit c (fst (fst (send_data c s))).
Proof.
  unfold send_data. destruct (send_data_loop_SDL _ (st_id s) (send_data_fuel (get_snd s)) c (get_snd s)) as [k H].
  apply SDL_NoCredit in H. destruct (send_data_loop _ c (st_id s) (get_snd s)) as [[[c1 n1] done] wr]. exact H.
Qed.

Lemma finish_request_NoCredit c s r : NoCredit c (fst (fst (finish_request enc_field c s r))).
Proof.
  unfold finish_request. destruct (response_block enc_field (sc_enc c) r) as [blk e'].
  match goal with |- context [emit ?x ?o] => assert (N1 : NoCredit c (emit x o)) end.
  { eapply NoCredit_trans; [apply NoCredit_upd_enc | apply (NoCredit_emit _ (OHeaders _ _ _) I)]. }
  match goal with |- context [if ?b then _ else _] => destruct b end; cbn [fst]; [exact N1|].
  eapply NoCredit_trans; [exact N1 | apply send_data_NoCredit].
Qed.

Lemma flush_loop_NoCredit ids : forall c done, NoCredit c (fst (flush_loop c ids done)).
Proof.
  induction ids as [|id t IH]; intros c done; cbn [flush_loop]; [apply NoCredit_refl|].
  destruct (strms_search (sc_strms c) id) as [s|]; [|apply IH].
  destruct (st_responded s && negb (st_handlerRunning s) && has_more_to_send s); [|apply IH].
  pose proof (send_data_NoCredit c s) as N1. destruct (send_data c s) as [[c1 s1] fin]. cbn [fst] in N1.
  eapply NoCredit_trans; [exact N1|]. eapply NoCredit_trans; [apply NoCredit_put | apply IH].
Qed.

Lemma flush_streams_NoCredit c : NoCredit c (flush_streams c).
Proof.
  unfold flush_streams. pose proof (flush_loop_NoCredit (map st_id (sc_strms c)) c []) as N1.
  destruct (flush_loop c (map st_id (sc_strms c)) []) as [c1 done]. cbn [fst] in N1.
  eapply NoCredit_trans; [exact N1 | apply NoCredit_Closes, close_all_Closes].
Qed.

Lemma after_frame_NoCredit c s fr wc : NoCredit c (fst (after_frame cfg c s fr wc)).
Proof.
  unfold after_frame. cbv zeta.
  match goal with |- context [let '(c2, s2) := ?X in _] => assert (M : NoCredit c (fst X)) end.
  { repeat match goal with |- context [if ?b then _ else _] => destruct b end; cbn [fst]; try apply NoCredit_refl.
    - apply NoCredit_Quiet, Quiet_write_reset.
    - apply NoCredit_Quiet. apply (Quiet_note _ _ (ODispatch _ _) I).
    - pose proof (send_data_NoCredit c (handle_state fr s)) as N1.
      destruct (send_data c (handle_state fr s)) as [[c1 s2] fin]. exact N1. }
  match goal with |- context [let '(c2, s2) := ?X in _] => destruct X as [c2 s2] end. cbn [fst] in M.
  assert (G : NoCredit c (if sstate_eqb (st_state s2) SClosed then close_stream (put c2 s2) s2 else put c2 s2)).
  { eapply NoCredit_trans; [exact M|]. destruct (sstate_eqb (st_state s2) SClosed).
    - eapply NoCredit_trans; [apply NoCredit_put | apply NoCredit_Closes, Closes_close_stream].
    - apply NoCredit_put. }
  match goal with |- context [if ?b then brk ?x else cont ?x] => destruct b end; cbn [fst cont]; [|exact G].
  eapply NoCredit_trans; [exact G | apply NoCredit_Quiet, Quiet_brk].
Qed.

End NoCredit.

(* ---------- accounting ---------- *)

Fixpoint conn_credit (l : list revent) : Z :=
  match l with
  | [] => 0
  | RCredit sid inc :: t => (if N.eqb sid 0 then inc else 0) + conn_credit t
  | RData _ _ :: t => conn_credit t
  end.

Lemma conn_credit_app a b : conn_credit (a ++ b) = (conn_credit a + conn_credit b)%Z.
Proof. induction a as [|[] a IH]; cbn [app conn_credit]; lia. Qed.

Definition only_credits (l : list revent) : Prop := Forall (fun e => match e with RCredit _ _ => True | _ => False end) l.

Lemma rcredits_only l : only_credits (rcredits l).
Proof.
  induction l as [|o l IH]; [constructor|]. rewrite rcredits_cons. apply Forall_app. split; [|exact IH].
  unfold rcredit_of. destruct (strip o); repeat constructor.
Qed.

Lemma peer_conn_window_credits l : only_credits l -> forall w, peer_conn_window w l = (w + conn_credit l)%Z.
Proof.
  induction 1 as [|e l He _ IH]; intro w; cbn [peer_conn_window conn_credit]; [lia|].
  destruct e as [sid inc|]; [|contradiction]. rewrite IH. destruct (N.eqb sid 0); lia.
Qed.

Definition credit_ok_out (o : outev) : Prop := forall sid inc, strip o = OWinUpd sid inc -> credit_ok inc.

Lemma nowu_credit_ok o : nowu_out o -> credit_ok_out o.
Proof. unfold nowu_out, credit_ok_out. intros H sid inc E. rewrite E in H. contradiction. Qed.

(* configuration: serverConn.go sets maxWindow = 1<<22 *)
Definition cfg_ok (cfg : config) : Prop := (0 <= cf_maxWindow cfg <= MAXWIN)%Z.
Definition FRAME_LEN_LIMIT : Z := 16777216.   (* 2^24: the frame length field has 24 bits *)

Section Acc.
Variable hstate : Type.
Variable cfg : config.
Notation sconn := (sconn hstate).
Implicit Types c : sconn.

Definition cw_bounds c : Prop := (cf_maxWindow cfg / 2 <= sc_currentWindow c <= cf_maxWindow cfg)%Z.

(* a piece of a step that debits d bytes of received DATA *)
Record CStep c c' (d : Z) : Prop := mkCStep {
  cs_nonneg : (0 <= d)%Z;
  cs_readerQ : sc_readerQ c' = sc_readerQ c;
  cs_rl_done : sc_rl_done c' = sc_rl_done c;
  cs_wl_dead : sc_wl_dead c' = sc_wl_dead c;
  cs_sl_done : sc_sl_done c' = sc_sl_done c \/ sc_sl_done c' = true;
  cs_closing : sc_closing c = true -> sc_closing c' = true;
  cs_acc : exists new, sc_out c' = new ++ sc_out c /\
    (cfg_ok cfg -> cw_bounds c -> (d < FRAME_LEN_LIMIT)%Z -> cw_bounds c' /\ Forall credit_ok_out new) /\
    (sc_currentWindow c - d <= sc_currentWindow c' - conn_credit (rcredits (rev new)))%Z /\
    (sc_wl_dead c = false -> (sc_currentWindow c' - conn_credit (rcredits (rev new)) = sc_currentWindow c - d)%Z)
}.

Lemma CStep_trans a b c d1 d2 : CStep a b d1 -> CStep b c d2 -> CStep a c (d1 + d2).
Proof.
  intros [a0 a1 a2 a3 a4 a5 (n1 & E1 & B1 & I1 & Q1)] [b0 b1 b2 b3 b4 b5 (n2 & E2 & B2 & I2 & Q2)]. constructor.
  - clear - a0 b0. lia.
  - rewrite b1; exact a1.
  - rewrite b2; exact a2.
  - rewrite b3; exact a3.
  - destruct b4 as [E|E]; [rewrite E; exact a4 | right; exact E].
  - auto.
  - exists (n2 ++ n1). rewrite rev_app_distr, rcredits_app, conn_credit_app.
    split; [rewrite E2, E1, app_assoc; reflexivity|]. split; [|split].
    + intros C Bd Hd. destruct (B1 C Bd) as [Bb F1]; [clear - Hd a0 b0; lia|]. destruct (B2 C Bb) as [Bc F2]; [clear - Hd a0 b0; lia|].
      split; [exact Bc | apply Forall_app; split; assumption].
    + clear - I1 I2. lia.
    + intro W. specialize (Q1 W). assert (W' : sc_wl_dead b = false) by (rewrite a3; exact W). specialize (Q2 W'). clear - Q1 Q2. lia.
Qed.

Lemma CStep_eq c c' d d' : d = d' -> CStep c c' d -> CStep c c' d'.
Proof. intros ->. auto. Qed.

Lemma CStep_NoCredit c c' : NoCredit hstate c c' -> CStep c c' 0.
Proof.
  intros [[f1 f2 f3 f4 f5 f6 f7 f8] (new & E & F)]. constructor; try assumption; [lia|].
  exists new. split; [exact E|].
  assert (R : rcredits (rev new) = []).
  { apply rcredits_nowu. apply Forall_forall. intros o Ho. rewrite Forall_forall in F. apply F, in_rev, Ho. }
  rewrite R. cbn [conn_credit]. split; [|split; [lia | intros _; lia]].
  intros _ Bd _. split; [unfold cw_bounds in *; rewrite f1; exact Bd|].
  eapply Forall_impl; [|exact F]. apply nowu_credit_ok.
Qed.

Lemma CStep_Recv_fields c c' (d : Z) : Recv c c' -> (0 <= d)%Z ->
  (exists new, sc_out c' = new ++ sc_out c /\
    (cfg_ok cfg -> cw_bounds c -> (d < FRAME_LEN_LIMIT)%Z -> cw_bounds c' /\ Forall credit_ok_out new) /\
    (sc_currentWindow c - d <= sc_currentWindow c' - conn_credit (rcredits (rev new)))%Z /\
    (sc_wl_dead c = false -> (sc_currentWindow c' - conn_credit (rcredits (rev new)) = sc_currentWindow c - d)%Z)) ->
  CStep c c' d.
Proof.
  intros [r1 r2 r3 r4 r5 r6 r7 r8 r9 r10 r11] Hd A. constructor; try assumption.
  - left. exact r8.
  - intro. rewrite r10. assumption.
Qed.

(* one WINDOW_UPDATE: queued, queued late, or dropped *)
Lemma wu_cases c sid inc :
  exists pre, sc_out (write_window_update c sid inc) = pre ++ sc_out c /\
    ((pre = [] /\ sc_wl_dead c = true) \/ ((pre = [OWinUpd sid inc] \/ pre = [OLate (OWinUpd sid inc)]) /\ sc_wl_dead c = false)).
Proof.
  unfold write_window_update. rewrite sc_out_emit. destruct (sc_wl_dead c); [exists []; auto|].
  destruct (sc_sl_done c); [exists [OLate (OWinUpd sid inc)] | exists [OWinUpd sid inc]]; auto.
Qed.

Lemma credit_cstep c n : cfg_ok cfg -> (0 <= n)%Z -> CStep c (credit_conn_window cfg c n) n.
Proof.
  intros [C1 C2] Hn. apply CStep_Recv_fields; [apply Recv_credit | exact Hn|].
  unfold credit_conn_window. destruct (n <=? 0)%Z eqn:E0.
  - exists []. split; [reflexivity|]. cbn. split; [intros; split; [assumption | constructor]|]. split; [lia | intros _; lia].
  - destruct (sc_currentWindow c - n <? cf_maxWindow cfg / 2)%Z eqn:E1.
    + destruct (wu_cases (upd_currentWindow c (cf_maxWindow cfg)) 0 (cf_maxWindow cfg - (sc_currentWindow c - n))) as (pre & E & Hpre).
      exists pre. split; [exact E|]. unfold write_window_update. rewrite sc_currentWindow_emit. sc_cbn.
      split; [|split].
      * intros _ [B1 B2] Hd. split; [unfold cw_bounds; rewrite sc_currentWindow_emit; sc_cbn;
          split; [apply Z.div_le_upper_bound; lia | lia]|].
        assert (OK : credit_ok (cf_maxWindow cfg - (sc_currentWindow c - n))).
        { unfold credit_ok, MAX_WINDOW. unfold MAXWIN, FRAME_LEN_LIMIT in *.
          assert (cf_maxWindow cfg / 2 * 2 <= cf_maxWindow cfg)%Z by (pose proof (Z.mul_div_le (cf_maxWindow cfg) 2); lia).
          assert (cf_maxWindow cfg < (cf_maxWindow cfg / 2 + 1) * 2)%Z by (pose proof (Z.mul_succ_div_gt (cf_maxWindow cfg) 2); lia).
          lia. }
        destruct Hpre as [[-> _]|[[->| ->] _]]; [constructor | |]; (constructor; [|constructor]; intros s i X; cbn in X; inversion X; subst; exact OK).
      * assert (cf_maxWindow cfg / 2 <= cf_maxWindow cfg)%Z by (apply Z.div_le_upper_bound; lia).
        destruct Hpre as [[-> _]|[[->| ->] _]]; cbn; lia.
      * intro W. sc_cbn_in Hpre. destruct Hpre as [[_ X]|[[->| ->] _]]; [congruence | cbn; lia | cbn; lia].
    + exists []. split; [reflexivity|]. sc_cbn. cbn [rev rcredits flat_map conn_credit]. split; [|split; [lia | intros _; lia]].
      intros _ [B1 B2] _. split; [unfold cw_bounds; sc_cbn; lia | constructor].
Qed.

Lemma consume_cstep c s fr n : cfg_ok cfg -> (0 <= n < FRAME_LEN_LIMIT)%Z -> st_id s <> 0 -> CStep c (consume_recv_window cfg c s fr n) n.
Proof.
  intros Cfg [Hn Hlim] NZ. unfold consume_recv_window. destruct (n <=? 0)%Z eqn:E0.
  - assert (n = 0)%Z by lia. subst n. apply CStep_NoCredit, NoCredit_refl.
  - destruct (flag_has (sf_flags fr) FL_ES); [apply credit_cstep; assumption|].
    cut (CStep c (credit_conn_window cfg (write_window_update c (st_id s) n) n) (0 + n)); [intro X; exact X|].
    eapply CStep_trans; [|apply credit_cstep; assumption].
    apply CStep_Recv_fields; [apply Recv_write_window_update | lia|].
    destruct (wu_cases c (st_id s) n) as (pre & E & Hpre). exists pre. split; [exact E|].
    unfold write_window_update. rewrite sc_currentWindow_emit.
    assert (CC : conn_credit (rcredits (rev pre)) = 0%Z).
    { destruct Hpre as [[-> _]|[[->| ->] _]]; cbn; try reflexivity; destruct (N.eqb (st_id s) 0) eqn:Z; try reflexivity; lia. }
    rewrite CC. split; [|split; [lia | intros _; lia]].
    intros _ Bd _. split; [unfold cw_bounds in *; rewrite sc_currentWindow_emit; exact Bd|].
    assert (OK : credit_ok n) by (unfold credit_ok, MAX_WINDOW, FRAME_LEN_LIMIT in *; lia).
    destruct Hpre as [[-> _]|[[->| ->] _]]; [constructor | |]; (constructor; [|constructor]; intros s0 i X; cbn in X; inversion X; subst; exact OK).
Qed.

End Acc.

Definition dlen (fr : sframe) : Z := match sf_kind fr with KData => Z.of_N (sf_len fr) | _ => 0%Z end.
Definition wire_ok (fr : sframe) : Prop := (Z.of_N (sf_len fr) < FRAME_LEN_LIMIT)%Z.

Section Walk.
Variable hstate : Type.
Variable dec_field : hstate -> N -> bytes -> dec_res hstate.
Variable enc_field : hstate -> bytes -> bytes -> bool -> bytes * hstate.
Variable enc_set_max : hstate -> N -> hstate.
Variable cfg : config.
Notation sconn := (sconn hstate).
Implicit Types c : sconn.
Notation CStep := (CStep hstate cfg).
Notation NoCredit := (NoCredit hstate).

Lemma Origin_id c fr c1 s : Origin c fr c1 s -> st_id s = sf_sid fr.
Proof. destruct 1 as [s LE F|]; [apply strms_search_In in F; apply F | reflexivity]. Qed.

Lemma Origin_NoCredit c fr c1 s : Origin c fr c1 s -> NoCredit c c1.
Proof.
  intro O. destruct (Origin_Frame _ _ _ _ _ O) as [F Q]. split; [exact F | eapply out_ext_weaken; [apply quiet_nowu | exact Q]].
Qed.

Lemma dlen_nonneg fr : (0 <= dlen fr)%Z.
Proof. unfold dlen. destruct (sf_kind fr); flia. Qed.

Lemma sl_frame_cstep c fr : cfg_ok cfg -> fwd_ok fr -> wire_ok fr ->
  exists d, CStep c (fst (sl_frame dec_field enc_set_max cfg c fr)) d /\
    (d = dlen fr \/ (d = 0%Z /\ (sc_closing (fst (sl_frame dec_field enc_set_max cfg c fr)) = true \/
                                 sc_sl_done (fst (sl_frame dec_field enc_set_max cfg c fr)) = true))).
Proof.
  intros Cfg FW WO.
  destruct (sl_frame_SLF _ dec_field enc_set_max cfg c fr)
    as [c' Q D P3 | c' F O SD | Z K HW c0 newInit delta Fa | Z K W | NZ K | c1 s p NZ Or KH Hp | c1 s c2 cX sX NZ Or CL HF].
  - exists 0%Z. split; [apply CStep_NoCredit, NoCredit_Quiet, Q|].
    unfold dlen. destruct (sf_kind fr) eqn:K; auto. right. split; [reflexivity|]. apply D; [reflexivity|].
    intro Z. destruct (FW Z); congruence.
  - exists 0%Z. split; [apply CStep_NoCredit; split; [exact F | eapply out_ext_weaken; [apply quiet_nowu | exact O]]|].
    right. auto.
  - exists 0%Z. split; [|left; unfold dlen; rewrite K; reflexivity].
    apply CStep_NoCredit. eapply NoCredit_trans; [|apply flush_streams_NoCredit].
    eapply NoCredit_trans; [|apply (NoCredit_emit _ _ OSettingsAck I)].
    split; [|apply out_ext_same; sc_cbn; unfold c0, settings_c0; destruct (sf_set_hastable fr); reflexivity].
    eapply Frame_trans; [|apply Frame_upd_strms]. eapply Frame_trans; [|apply Frame_upd_initWin].
    unfold c0, settings_c0. destruct (sf_set_hastable fr); [apply Frame_upd_enc | apply Frame_refl].
  - exists 0%Z. split; [|left; unfold dlen; rewrite K; reflexivity].
    apply CStep_NoCredit. eapply NoCredit_trans; [apply NoCredit_upd_clientWindow | apply flush_streams_NoCredit].
  - exists (Z.of_N (sf_len fr)). split; [apply credit_cstep; [exact Cfg | flia]|]. left. unfold dlen. rewrite K. reflexivity.
  - exists 0%Z. split; [|left; unfold dlen; rewrite KH; reflexivity].
    apply CStep_NoCredit. eapply NoCredit_trans; [apply (Origin_NoCredit _ _ _ _ Or)|].
    eapply NoCredit_trans; [apply NoCredit_Quiet, Quiet_write_goaway | apply NoCredit_put].
  - (* the frame is handled on its stream *)
    pose proof (Origin_id _ _ _ _ Or) as Id.
    assert (M : CStep c2 cX (dlen fr)).
    { unfold HFok in HF. unfold dlen.
      destruct (fkind_eqb (sf_kind fr) KData) eqn:K.
      - assert (K' : sf_kind fr = KData) by (destruct (sf_kind fr); try discriminate; reflexivity). rewrite K'.
        pose proof (handle_frame_data _ dec_field cfg c2 s fr K') as Dt. cbv zeta in Dt. destruct (data_accepts s).
        + rewrite Dt in HF. match type of HF with context [if ?b then _ else _] => destruct b end.
          * destruct HF as (-> & _). eapply (CStep_eq _ _ _ _ (Z.of_N (sf_len fr) + 0)%Z); [flia|].
            eapply CStep_trans; [apply credit_cstep; [exact Cfg | flia] | apply CStep_NoCredit, NoCredit_Quiet, Quiet_write_reset].
          * destruct HF as (-> & _). apply consume_cstep; [exact Cfg | unfold wire_ok in WO; flia|].
            cbn [st_id set_recv]. rewrite Id. exact NZ.
        + destruct Dt as (code & NE & Dt). rewrite Dt in HF. destruct HF as (E & _). contradiction.
      - assert (ND : sf_kind fr <> KData) by (intro X; rewrite X in K; discriminate).
        replace (match sf_kind fr with KData => Z.of_N (sf_len fr) | _ => 0%Z end) with 0%Z by (destruct (sf_kind fr); try reflexivity; contradiction).
        pose proof (handle_frame_eff _ dec_field cfg c2 s fr) as (_ & _ & DDc). specialize (DDc ND).
        destruct (handle_frame dec_field cfg c2 s fr) as [[c3 s3] e]. cbn [fst] in DDc.
        apply CStep_NoCredit. eapply NoCredit_trans; [apply NoCredit_Quiet, DD_Quiet, DDc|].
        destruct e as [[code|code|]|].
        + destruct HF as (_ & -> & _). apply NoCredit_Quiet, Quiet_write_goaway.
        + destruct HF as (-> & _). apply NoCredit_Quiet, Quiet_write_reset.
        + contradiction.
        + destruct HF as (-> & _). apply NoCredit_refl. }
    exists (dlen fr). split; [|left; reflexivity].
    eapply (CStep_eq _ _ _ _ (0 + (0 + (dlen fr + 0)))%Z); [flia|].
    eapply CStep_trans; [apply CStep_NoCredit, (Origin_NoCredit _ _ _ _ Or)|].
    eapply CStep_trans; [apply CStep_NoCredit, NoCredit_Closes, CL|].
    eapply CStep_trans; [exact M|]. apply CStep_NoCredit, after_frame_NoCredit.
Qed.

End Walk.

Section Thm.
Variable hstate : Type.
Variable dec_field : hstate -> N -> bytes -> dec_res hstate.
Variable enc_field : hstate -> bytes -> bytes -> bool -> bytes * hstate.
Variable enc_set_max : hstate -> N -> hstate.
Variable cfg : config.
Variable h0 : hstate.
Notation sconn := (sconn hstate).
Implicit Types c : sconn.
Notation CStep := (CStep hstate cfg).
Notation NoCredit := (NoCredit hstate).
Notation step := (step dec_field enc_field enc_set_max cfg).
Notation run := (run dec_field enc_field enc_set_max cfg h0).
Notation cwb := (cw_bounds hstate cfg).

Lemma sl_done_NoCredit c sid r : NoCredit c (fst (sl_done enc_field cfg c sid r)).
Proof.
  unfold sl_done. destruct (take_stream (sc_gone c) sid) as [[s rest]|].
  - cbn [fst cont]. split.
    + eapply Frame_trans; [apply Frame_upd_gone | apply Frame_release_stream].
    + eapply out_ext_cons; [rewrite sc_out_release_stream; reflexivity | exact I].
  - destruct (strms_search (sc_strms c) sid) as [s|]; [|apply NoCredit_refl].
    destruct (negb (st_handlerRunning s)); [apply NoCredit_refl|].
    pose proof (finish_request_NoCredit _ enc_field c (set_flags s (st_responded s) false (st_abandoned s)) r) as N1.
    destruct (finish_request enc_field c _ r) as [[c1 s2] fin]. cbn [fst] in N1.
    match goal with |- context [if ?b then brk ?x else cont ?x] => assert (G : NoCredit c x) end.
    { eapply NoCredit_trans; [exact N1|]. destruct fin.
      - eapply NoCredit_trans; [apply NoCredit_put | apply NoCredit_Closes, Closes_close_stream].
      - apply NoCredit_put. }
    match goal with |- context [if ?b then brk ?x else cont ?x] => destruct b end; cbn [fst cont]; [|exact G].
    eapply NoCredit_trans; [exact G | apply NoCredit_Quiet, Quiet_brk].
Qed.

Lemma sl_timer_NoCredit c : NoCredit c (fst (sl_timer cfg c)).
Proof.
  unfold sl_timer. destruct (cf_maxRequestTime cfg <=? 0)%Z; cbn [fst cont]; [apply NoCredit_refl|].
  apply NoCredit_Closes, close_heads_Closes.
Qed.

(* ---------- (a), (b): the increments and the receive window ---------- *)

Definition AInv c : Prop :=
  cwb c /\ Forall wire_ok (sc_readerQ c) /\ Forall fwd_ok (sc_readerQ c) /\ Forall credit_ok_out (sc_out c).

(* every frame handed to the read loop has a length that fits the 24-bit length field *)
Definition wire_ev (e : event) : Prop := match e with EvRL (RFrame fr) => wire_ok fr | _ => True end.

Lemma AInv_cstep c c' d : cfg_ok cfg -> (d < FRAME_LEN_LIMIT)%Z -> CStep c c' d -> AInv c -> AInv c'.
Proof.
  intros Cfg Hd [c0 c1 c2 c3 c4 c5 (new & E & B & _)] (A1 & A2 & A3 & A4).
  destruct (B Cfg A1 Hd) as [B1 B2]. split; [exact B1|]. rewrite c1. split; [exact A2|]. split; [exact A3|].
  rewrite E. apply Forall_app. split; assumption.
Qed.

Lemma AInv_same c c' : sc_currentWindow c' = sc_currentWindow c -> sc_readerQ c' = sc_readerQ c -> sc_out c' = sc_out c ->
  AInv c -> AInv c'.
Proof. intros E1 E2 E3 (A1 & A2 & A3 & A4). unfold AInv, cw_bounds. rewrite E1, E2, E3. auto. Qed.

Lemma quiet_credit_ok new : Forall quiet_out new -> Forall credit_ok_out new.
Proof. apply Forall_impl. intros o H. apply nowu_credit_ok, quiet_nowu, H. Qed.

Lemma step_AInv c e : cfg_ok cfg -> wire_ev e -> AInv c -> AInv (step c e).
Proof.
  intros Cfg WE A. destruct e as [i| |sid r|t| | | |].
  - rewrite step_EvRL. destruct (sc_rl_done c); [exact A|].
    destruct (rl_step_eff _ cfg c i) as [[r1 r2 r3 r4 r5 r6 r7 r8 r9 (new & E & F)] Q].
    destruct A as (A1 & A2 & A3 & A4). split; [unfold cw_bounds; rewrite r4; exact A1|].
    assert (A4' : Forall credit_ok_out (sc_out (rl_step cfg c i))).
    { rewrite E. apply Forall_app. split; [apply quiet_credit_ok, F | exact A4]. }
    destruct Q as [[Q _]|(fr & -> & Q & FW & _)].
    + rewrite Q. auto.
    + rewrite Q. split; [apply Forall_app; split; [exact A2 | constructor; [exact WE | constructor]]|].
      split; [apply Forall_app; split; [exact A3 | constructor; [exact FW | constructor]] | exact A4'].
  - rewrite step_EvSL. destruct (sc_sl_done c); [exact A|].
    destruct (sc_readerQ c) as [|fr q] eqn:EQ.
    + destruct (sc_rl_done c); [|exact A].
      destruct A as (A1 & A2 & A3 & A4). split; [exact A1|]. cbn [sc_readerQ note upd_done upd_out]. rewrite EQ.
      split; [constructor|]. split; [constructor|]. cbn [sc_out]. constructor; [intros s i X; discriminate | exact A4].
    + destruct A as (A1 & A2 & A3 & A4). rewrite EQ in A2, A3. inversion A2; subst. inversion A3; subst.
      destruct (sl_frame_cstep _ dec_field enc_set_max cfg (upd_readerQ c q) fr Cfg) as (d & CS & Hd); try assumption.
      eapply (AInv_cstep (upd_readerQ c q)); [exact Cfg | | exact CS|].
      * destruct Hd as [->|[-> _]]; [unfold dlen; destruct (sf_kind fr); try (unfold FRAME_LEN_LIMIT; flia); assumption | unfold FRAME_LEN_LIMIT; flia].
      * split; [exact A1|]. sc_cbn. auto.
  - rewrite step_EvDone. destruct (sc_sl_done c); [exact A|].
    eapply AInv_cstep; [exact Cfg | | apply CStep_NoCredit, sl_done_NoCredit | exact A]. unfold FRAME_LEN_LIMIT; flia.
  - rewrite step_EvClock. destruct (sc_now c <? t)%Z; [|exact A]. eapply AInv_same; [..|exact A]; reflexivity.
  - rewrite step_EvTimer. destruct (sc_sl_done c); [exact A|].
    eapply AInv_cstep; [exact Cfg | | apply CStep_NoCredit, sl_timer_NoCredit | exact A]. unfold FRAME_LEN_LIMIT; flia.
  - rewrite step_EvIdle.
    assert (Q : Quiet c (upd_closer (write_goaway c 0 c_NoError) true)).
    { eapply Quiet_trans; [apply Quiet_write_goaway|].
      constructor; sc_cbn; first [reflexivity | flia | (left; reflexivity) | (intro; assumption) | (apply out_ext_same; reflexivity)]. }
    eapply AInv_cstep; [exact Cfg | | apply CStep_NoCredit, NoCredit_Quiet, Q | exact A]. unfold FRAME_LEN_LIMIT; flia.
  - rewrite step_EvCloser. destruct (sc_closer c && negb (sc_sl_done c)); [|exact A].
    eapply AInv_cstep; [exact Cfg | | apply CStep_NoCredit, NoCredit_Quiet, Quiet_brk | exact A]. unfold FRAME_LEN_LIMIT; flia.
  - rewrite step_EvWriteFail. eapply AInv_same; [..|exact A]; reflexivity.
Qed.

Lemma AInv_init : cfg_ok cfg -> AInv (init_conn cfg h0).
Proof.
  intros [C1 C2]. split; [|split; [constructor | split; constructor]].
  unfold cw_bounds. cbn. split; [apply Z.div_le_upper_bound; flia | flia].
Qed.

Lemma AInv_run evs : cfg_ok cfg -> Forall wire_ev evs -> AInv (run evs).
Proof.
  intros Cfg. induction evs as [|e evs IH] using rev_ind; intro W; [apply AInv_init; exact Cfg|].
  apply Forall_app in W. destruct W as [W1 W2]. inversion W2; subst.
  rewrite run_snoc. apply step_AInv; auto.
Qed.

(* C14 (a): every WINDOW_UPDATE the server queues has an increment in 1 .. 2^31-1 *)
Theorem window_update_increments evs o sid inc : cfg_ok cfg -> Forall wire_ev evs ->
  In o (trace (run evs)) -> strip o = OWinUpd sid inc -> (0 < inc <= 2147483647)%Z.
Proof.
  intros Cfg W Hin Hs. apply trace_In in Hin. destruct (AInv_run evs Cfg W) as (_ & _ & _ & A4).
  rewrite Forall_forall in A4. exact (A4 o Hin sid inc Hs).
Qed.

(* C14 (b): the receive window stays between half of sc.maxWindow and sc.maxWindow *)
Theorem receive_window_bounds evs : cfg_ok cfg -> Forall wire_ev evs ->
  (cf_maxWindow cfg / 2 <= sc_currentWindow (run evs) <= cf_maxWindow cfg)%Z.
Proof. intros Cfg W. apply (AInv_run evs Cfg W). Qed.

End Thm.
