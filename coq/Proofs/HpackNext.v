(* C03: the structure of nextField. A call scans the dynamic table size updates the input starts
   with ([scan], a function of the bytes and the SETTINGS limit only), applies them
   ([apply_upd]), and decodes at most one field ([one_field], no loop). *)
From Coq Require Import List NArith ZArith Bool Lia.
From H2V Require Import Base.Bytes Base.MachineInt Base.Result Gen.GenConsts Gen.GenStatic
     Impl.Huffman Impl.Hpack Proofs.HpackDefs Proofs.HpackBytes Proofs.HpackInt Proofs.HpackStr
     Proofs.HpackTable.
Import ListNotations.
Local Open Scope N_scope.
Local Opaque huffman_root.

Arguments N.land : simpl never.
Arguments N.pow : simpl never.

(* ---- the two literal cases ---- *)

(* "Reading value" *)
Definition read_value (hf1 : field) (b1 : bytes) : field * result bytes :=
  match read_string b1 with
  | Err e => (hf1, Err e)
  | Panic w => (hf1, Panic w)
  | Ok (b2, dst) => (set_value hf1 dst, Ok b2)
  end.

Lemma read_literal_index hp hf bits b :
  read_literal hp hf true bits b =
  match read_int bits b with
  | Err e => (hf, Err e)
  | Panic w => (hf, Panic w)
  | Ok (b1, n) =>
      match peek hp n with
      | None => (hf, Err E_index_not_found)
      | Some hf2 => read_value (set_key hf (f_key hf2)) b1
      end
  end.
Proof.
  unfold read_literal, read_value.
  destruct (read_int bits b) as [[b1 n]|e|w]; try reflexivity.
  destruct (peek hp n) as [hf2|]; [|reflexivity].
  destruct b1 as [|x b1]; reflexivity.
Qed.

Lemma read_literal_name hp hf bits c b1 :
  read_literal hp hf false bits (c :: b1) =
  match read_string b1 with
  | Err e => (hf, Err e)
  | Panic w => (hf, Panic w)
  | Ok (b2, dst) => read_value (set_key hf dst) b2
  end.
Proof.
  unfold read_literal, read_value.
  destruct (read_string b1) as [[b2 dst]|e|w]; try reflexivity.
  destruct b2 as [|x b2]; reflexivity.
Qed.

(* ---- one field, no loop ---- *)

Definition is_upd (c : N) : bool :=
  negb (N.land c 128 =? 128) && negb (N.land c 64 =? 64) && negb (N.land c 240 =? 16) &&
  negb (N.land c 240 =? 0) && (N.land c 32 =? 32).

Definition one_field (hp : hpack_state) (hf0 : field) (b : bytes) : nf_out :=
  match b with
  | [] => mkNF hp hf0 (Ok ([], false))
  | c :: _ =>
      let hf := set_sens hf0 false in
      if N.land c 128 =? 128 then
        match read_int 7 b with
        | Err e => mkNF hp hf (Err e)
        | Panic w => mkNF hp hf (Panic w)
        | Ok (b1, n) =>
            match peek hp n with
            | None => mkNF hp hf (Err E_index_not_found)
            | Some hf2 => mkNF hp hf2 (Ok (b1, true))
            end
        end
      else if N.land c 64 =? 64 then
        match read_literal hp hf (negb (c =? 64)) 6 b with
        | (hf1, Ok b1) => mkNF (add_dynamic hp hf1) hf1 (Ok (b1, true))
        | (hf1, r) => nf_done hp hf1 r
        end
      else if N.land c 240 =? 16 then
        let '(hf1, r) := read_literal hp (set_sens hf true) (negb (N.land c 15 =? 0)) 4 b in
        nf_done hp hf1 r
      else if N.land c 240 =? 0 then
        let '(hf1, r) := read_literal hp hf (negb (N.land c 15 =? 0)) 4 b in
        nf_done hp hf1 r
      else mkNF hp hf (Ok (b, true))
  end.

(* hp.maxTableSize = uint32(n); hp.shrink() *)
Definition upd (hp : hpack_state) (n : N) : hpack_state := shrink (with_max hp n).

Lemma nfl_cons fuel hp hf bs fp c r :
  next_field_loop fuel hp hf bs fp (c :: r) =
  if is_upd c then
    match read_int 5 (c :: r) with
    | Err e => mkNF hp (set_sens hf false) (Err e)
    | Panic w => mkNF hp (set_sens hf false) (Panic w)
    | Ok (b1, n) =>
        if negb bs || (0 <? fp) then mkNF hp (set_sens hf false) (Err E_dynamic_update)
        else if h_max_settings hp <? n then mkNF hp (set_sens hf false) (Err E_dynamic_update_max)
        else match fuel with
             | O => mkNF hp (set_sens hf false) (Panic P_fuel)
             | S fuel' => next_field_loop fuel' (upd hp (u32 n)) (set_sens hf false) bs fp b1
             end
    end
  else one_field hp hf (c :: r).
Proof.
  unfold is_upd, one_field.
  destruct fuel as [|fuel]; cbn [next_field_loop];
    destruct (N.land c 128 =? 128); cbn [negb andb]; try reflexivity;
    destruct (N.land c 64 =? 64); cbn [negb andb]; try reflexivity;
    destruct (N.land c 240 =? 16); cbn [negb andb]; try reflexivity;
    destruct (N.land c 240 =? 0); cbn [negb andb]; try reflexivity;
    destruct (N.land c 32 =? 32); reflexivity.
Qed.

Lemma nfl_nil fuel hp hf bs fp : next_field_loop fuel hp hf bs fp [] = mkNF hp hf (Ok ([], false)).
Proof. destruct fuel; reflexivity. Qed.

(* ---- the size updates a call starts with ---- *)

Inductive scan_end : Type :=
| SEnd                      (* the input is used up: return b, false, nil *)
| SErr (e : N)
| SPanic (w : N)
| SField (b : bytes).       (* b starts with an octet that is not a size update *)

Fixpoint scan (fuel : nat) (lim : N) (allowed : bool) (b : bytes) : list N * scan_end :=
  match b with
  | [] => ([], SEnd)
  | c :: _ =>
      if is_upd c then
        match read_int 5 b with
        | Err e => ([], SErr e)
        | Panic w => ([], SPanic w)
        | Ok (b1, n) =>
            if negb allowed then ([], SErr E_dynamic_update)
            else if lim <? n then ([], SErr E_dynamic_update_max)
            else match fuel with
                 | O => ([], SPanic P_fuel)
                 | S fuel' => let '(ns, e) := scan fuel' lim allowed b1 in (u32 n :: ns, e)
                 end
        end
      else ([], SField b)
  end.

Definition apply_upd (hp : hpack_state) (ns : list N) : hpack_state := fold_left upd ns hp.

Definition allowed_of (bs : bool) (fp : N) : bool := bs && (fp =? 0).

(* the HeaderField after the scan: sensible is cleared at the top of the loop *)
Definition hf_after (hf : field) (b : bytes) : field :=
  match b with [] => hf | _ :: _ => set_sens hf false end.

Definition nf_of_scan (hp : hpack_state) (hf : field) (b : bytes) (s : list N * scan_end) : nf_out :=
  let hp' := apply_upd hp (fst s) in
  match snd s with
  | SEnd => mkNF hp' (hf_after hf b) (Ok ([], false))
  | SErr e => mkNF hp' (hf_after hf b) (Err e)
  | SPanic w => mkNF hp' (hf_after hf b) (Panic w)
  | SField b' => one_field hp' (hf_after hf b) b'
  end.

Lemma upd_settings hp n : h_max_settings (upd hp n) = h_max_settings hp.
Proof. reflexivity. Qed.

Lemma apply_upd_settings : forall ns hp, h_max_settings (apply_upd hp ns) = h_max_settings hp.
Proof.
  induction ns as [|n ns IH]; intros hp; [reflexivity|]. cbn [apply_upd fold_left].
  change (fold_left upd ns (upd hp n)) with (apply_upd (upd hp n) ns). rewrite IH. reflexivity.
Qed.

Lemma set_sens_idem hf : set_sens (set_sens hf false) false = set_sens hf false.
Proof. reflexivity. Qed.

Lemma one_field_set_sens hp hf c r : one_field hp (set_sens hf false) (c :: r) = one_field hp hf (c :: r).
Proof. reflexivity. Qed.

Theorem nfl_scan : forall fuel hp hf bs fp b,
  next_field_loop fuel hp hf bs fp b =
  nf_of_scan hp hf b (scan fuel (h_max_settings hp) (allowed_of bs fp) b).
Proof.
  induction fuel as [|fuel IH]; intros hp hf bs fp b.
  - destruct b as [|c r]; [reflexivity|]. rewrite nfl_cons. cbn [scan].
    destruct (is_upd c) eqn:Eu; [|reflexivity].
    destruct (read_int 5 (c :: r)) as [[b1 n]|e|w]; try reflexivity.
    unfold allowed_of. replace (0 <? fp) with (negb (fp =? 0))
      by (destruct (N.eqb_spec fp 0), (N.ltb_spec 0 fp); try reflexivity; lia).
    rewrite <- negb_andb. destruct (negb (bs && (fp =? 0))); [reflexivity|].
    destruct (h_max_settings hp <? n); reflexivity.
  - destruct b as [|c r]; [reflexivity|]. rewrite nfl_cons. cbn [scan].
    destruct (is_upd c) eqn:Eu; [|reflexivity].
    destruct (read_int 5 (c :: r)) as [[b1 n]|e|w]; try reflexivity.
    unfold allowed_of. replace (0 <? fp) with (negb (fp =? 0))
      by (destruct (N.eqb_spec fp 0), (N.ltb_spec 0 fp); try reflexivity; lia).
    rewrite <- negb_andb. destruct (negb (bs && (fp =? 0))) eqn:Ea; [reflexivity|].
    destruct (h_max_settings hp <? n); [reflexivity|].
    rewrite IH. rewrite upd_settings. unfold allowed_of.
    destruct (scan fuel (h_max_settings hp) (bs && (fp =? 0)) b1) as [ns e].
    unfold nf_of_scan. cbn [fst snd apply_upd fold_left].
    destruct e as [|e|w|b']; destruct b1; reflexivity.
Qed.

Lemma next_field_scan hp hf bs fp b :
  next_field hp hf bs fp b =
  nf_of_scan hp hf b (scan (S (length b)) (h_max_settings hp) (allowed_of bs fp) b).
Proof. apply nfl_scan. Qed.

(* ---- every first octet has a case: the switch has no default ---- *)

Definition kind_okb (c : N) : bool :=
  (N.land c 128 =? 128) || (N.land c 64 =? 64) || (N.land c 240 =? 16) || (N.land c 240 =? 0) ||
  (N.land c 32 =? 32).

Lemma kind_table : forallb kind_okb (map N.of_nat (seq 0 256)) = true.
Proof. vm_compute. reflexivity. Qed.

Lemma kind_ok c : kind_okb c = true.
Proof.
  unfold kind_okb. rewrite (land_low8 c 128), (land_low8 c 64), (land_low8 c 240), (land_low8 c 32)
    by (compute; reflexivity).
  apply (byte_table _ kind_table). apply N.mod_lt. discriminate.
Qed.

(* not a size update: one of the four field cases applies *)
Lemma not_upd_cases c : is_upd c = false ->
  N.land c 128 =? 128 = true \/
  (N.land c 128 =? 128 = false /\ N.land c 64 =? 64 = true) \/
  (N.land c 128 =? 128 = false /\ N.land c 64 =? 64 = false /\ N.land c 240 =? 16 = true) \/
  (N.land c 128 =? 128 = false /\ N.land c 64 =? 64 = false /\ N.land c 240 =? 16 = false /\
   N.land c 240 =? 0 = true).
Proof.
  intros H. pose proof (kind_ok c) as K. unfold is_upd in H. unfold kind_okb in K.
  destruct (N.land c 128 =? 128); [auto|].
  destruct (N.land c 64 =? 64); [auto|].
  destruct (N.land c 240 =? 16); [auto 6|].
  destruct (N.land c 240 =? 0); [auto 8|].
  destruct (N.land c 32 =? 32); discriminate.
Qed.

(* ---- the pure core of a literal and of a field ---- *)

(* key, value, rest *)
Definition rl_core (hp : hpack_state) (by_index : bool) (bits : N) (b : bytes) : result (bytes * bytes * bytes) :=
  if by_index then
    match read_int bits b with
    | Err e => Err e
    | Panic w => Panic w
    | Ok (b1, n) =>
        match peek hp n with
        | None => Err E_index_not_found
        | Some hf2 =>
            match read_string b1 with
            | Err e => Err e
            | Panic w => Panic w
            | Ok (b2, v) => Ok (f_key hf2, v, b2)
            end
        end
    end
  else
    match b with
    | [] => Panic P_hpack_index
    | _ :: b1 =>
        match read_string b1 with
        | Err e => Err e
        | Panic w => Panic w
        | Ok (b2, k) =>
            match read_string b2 with
            | Err e => Err e
            | Panic w => Panic w
            | Ok (b3, v) => Ok (k, v, b3)
            end
        end
    end.

Lemma read_literal_core hp hf by_index bits b :
  match rl_core hp by_index bits b with
  | Ok (k, v, rest) => read_literal hp hf by_index bits b = (mkF k v (f_sens hf), Ok rest)
  | Err e => snd (read_literal hp hf by_index bits b) = Err e
  | Panic w => snd (read_literal hp hf by_index bits b) = Panic w
  end.
Proof.
  unfold rl_core. destruct by_index.
  - rewrite read_literal_index.
    destruct (read_int bits b) as [[b1 n]|e|w]; try reflexivity.
    destruct (peek hp n) as [hf2|]; [|reflexivity]. unfold read_value.
    destruct (read_string b1) as [[b2 v]|e|w]; reflexivity.
  - destruct b as [|c b1]; [reflexivity|]. rewrite read_literal_name.
    destruct (read_string b1) as [[b2 k]|e|w]; try reflexivity. unfold read_value.
    destruct (read_string b2) as [[b3 v]|e|w]; reflexivity.
Qed.

(* the field, the rest, whether the field is added to the table *)
Definition lit_core (hp : hpack_state) (by_index : bool) (bits : N) (b : bytes) (sens store : bool)
  : result (field * bytes * bool) :=
  match rl_core hp by_index bits b with
  | Ok (k, v, rest) => Ok (mkF k v sens, rest, store)
  | Err e => Err e
  | Panic w => Panic w
  end.

Definition one_core (hp : hpack_state) (b : bytes) : result (field * bytes * bool) :=
  match b with
  | [] => Panic P_hpack_index
  | c :: _ =>
      if N.land c 128 =? 128 then
        match read_int 7 b with
        | Err e => Err e
        | Panic w => Panic w
        | Ok (b1, n) =>
            match peek hp n with
            | None => Err E_index_not_found
            | Some hf2 => Ok (hf2, b1, false)
            end
        end
      else if N.land c 64 =? 64 then lit_core hp (negb (c =? 64)) 6 b false true
      else if N.land c 240 =? 16 then lit_core hp (negb (N.land c 15 =? 0)) 4 b true false
      else lit_core hp (negb (N.land c 15 =? 0)) 4 b false false
  end.

Definition nf_of_core (hp : hpack_state) (r : result (field * bytes * bool)) (o : nf_out) : Prop :=
  match r with
  | Ok (f, rest, store) => o = mkNF (if store then add_dynamic hp f else hp) f (Ok (rest, true))
  | Err e => nf_res o = Err e /\ nf_hp o = hp
  | Panic w => nf_res o = Panic w /\ nf_hp o = hp
  end.

Theorem one_field_core hp hf c r : is_upd c = false ->
  nf_of_core hp (one_core hp (c :: r)) (one_field hp hf (c :: r)).
Proof.
  intros Hu. unfold one_field, one_core.
  destruct (not_upd_cases c Hu) as [H1 | [[H1 H2] | [[H1 [H2 H3]] | [H1 [H2 [H3 H4]]]]]].
  - rewrite H1. destruct (read_int 7 (c :: r)) as [[b1 n]|e|w]; try (split; reflexivity).
    destruct (peek hp n) as [hf2|]; [reflexivity | split; reflexivity].
  - rewrite H1, H2. unfold lit_core.
    pose proof (read_literal_core hp (set_sens hf false) (negb (c =? 64)) 6 (c :: r)) as L.
    destruct (rl_core hp (negb (c =? 64)) 6 (c :: r)) as [[[k v] rest]|e|w].
    + rewrite L. reflexivity.
    + destruct (read_literal hp (set_sens hf false) (negb (c =? 64)) 6 (c :: r)) as [hf1 res].
      cbn [snd] in L. subst res. split; reflexivity.
    + destruct (read_literal hp (set_sens hf false) (negb (c =? 64)) 6 (c :: r)) as [hf1 res].
      cbn [snd] in L. subst res. split; reflexivity.
  - rewrite H1, H2, H3. unfold lit_core.
    pose proof (read_literal_core hp (set_sens (set_sens hf false) true) (negb (N.land c 15 =? 0)) 4 (c :: r)) as L.
    destruct (rl_core hp (negb (N.land c 15 =? 0)) 4 (c :: r)) as [[[k v] rest]|e|w].
    + rewrite L. reflexivity.
    + destruct (read_literal hp _ _ 4 (c :: r)) as [hf1 res]. cbn [snd] in L. subst res. split; reflexivity.
    + destruct (read_literal hp _ _ 4 (c :: r)) as [hf1 res]. cbn [snd] in L. subst res. split; reflexivity.
  - rewrite H1, H2, H3, H4. unfold lit_core.
    pose proof (read_literal_core hp (set_sens hf false) (negb (N.land c 15 =? 0)) 4 (c :: r)) as L.
    destruct (rl_core hp (negb (N.land c 15 =? 0)) 4 (c :: r)) as [[[k v] rest]|e|w].
    + rewrite L. reflexivity.
    + destruct (read_literal hp _ _ 4 (c :: r)) as [hf1 res]. cbn [snd] in L. subst res. split; reflexivity.
    + destruct (read_literal hp _ _ 4 (c :: r)) as [hf1 res]. cbn [snd] in L. subst res. split; reflexivity.
Qed.
