(* Proofs/TeardownCliLive3.v -- blocking-structure model (Impl/Teardown.v), client, S3 liveness (3): the write loop reaches its teardown.
   Statements: Props/Teardown.v; overview: Proofs/TeardownProofs.v. *)
From Coq Require Import Arith Lia Bool List.
From RecordUpdate Require Import RecordSet.
Import RecordSetNotations.
Import ListNotations.
From H2V Require Import Impl.Teardown Proofs.TeardownGen Proofs.TeardownCliInv Proofs.TeardownCliInv1 Proofs.TeardownCliInv2 Proofs.TeardownCliInv3 Proofs.TeardownCliInv4 Proofs.TeardownCliLocks Proofs.TeardownCliInv5 Proofs.TeardownCliLive1 Proofs.TeardownCliLive2a Proofs.TeardownCliLive2b Proofs.TeardownCliLive2c Proofs.TeardownCliLive2d.

Module CliL4.
Import Cli CliP CliP2 CliL CliL2 CliL3a CliL3b CliL3c CliL3d.

Ltac easy_fin ::= solve [auto | congruence | lia | tauto | (intuition congruence)
                         | (intuition (try congruence; try lia))
                         | (repeat split; eauto; try congruence; try lia)
                         | (left; repeat split; eauto; try congruence; try lia)
                         | (right; right; right; repeat split; eauto; try congruence; try lia) ].
Ltac solve_side ::= cbn; unf; rwk; rwx; cbn;
  first [ solve [repeat split; eauto; try congruence; try lia]
        | match goal with |- _ \/ _ => first [ solve [left; solve_side] | solve [right; solve_side] ] end
        | solve [timeout 10 fin] ].
Ltac wunf := unfold iterQ, wl_t, wl_iter, wm, pcw in *.

Section P.
Variable cap : nat.
Hypothesis cap_pos : 1 <= cap.
Notation guard := (Cli.guard cap).
Notation reachable := (Cli.reachable cap).
Notation inv := (CliP.inv cap).
Variable r : run guard eff.
Hypothesis F : fair_run cap r.
Hypothesis R0 : reachable (st r 0).
Hypothesis NS : forall i, stalled (st r i) = false \/ dead (st r i) = true.

Notation Inv_run := (CliL2.Inv_run cap cap_pos r R0 NS).
Notation "P ~> Q" := (leadsto r P Q) (at level 70).
Notation ensures := (lt_ensures guard eff r (Inv cap) Inv_run).
Notation ensures_s := (lt_ensures_s guard eff r (Inv cap) Inv_run).
Let Fwl : sfair g_wl r := proj1 (proj2 (proj2 (proj2 F))).
Let Fbody : sfair g_body r := proj1 (proj2 (proj2 (proj2 (proj2 (proj2 (proj2 (proj2 F))))))).
Let Wwl := sfair_fair guard eff r g_wl Fwl.
Let Wbody := sfair_fair guard eff r g_body Fbody.
Notation rl_release := (CliL2.rl_release cap cap_pos r F R0 NS).

Notation cwrite_release := (CliL2.cwrite_release cap cap_pos r F R0 NS).
Notation done_stable := (CliL2.done_stable cap cap_pos r NS).
Let Fsd : sfair g_seldone r := proj1 (proj2 (proj2 (proj2 (proj2 (proj2 (proj2 F)))))).

Lemma bw_holder : forall s, inv1 s ->
  (bw s = BwRl -> cpc 1 s = Some CWrite) /\ (bw s = BwUc -> cpc 2 s = Some CWrite) /\
  ((exists h, wl s = LLockB h) -> bw s <> BwWl).
Proof.
  intros s I. pose proof (i_bw _ I) as H. unfold bw_of_state, cpc in *.
  repeat split.
  - intros E; rewrite E in H. destruct (wl s) as [| | |?|?| | |[]| | |]; try discriminate;
      destruct (rl s) as [|?| |?|? ?|? ?| | |[]|]; try discriminate; auto;
      destruct (uc s) as [|[]|]; discriminate.
  - intros E; rewrite E in H. destruct (wl s) as [| | |?|?| | |[]| | |]; try discriminate;
      destruct (rl s) as [|?| |?|? ?|? ?| | |[]|]; try discriminate;
      destruct (uc s) as [|[]|]; try discriminate; auto.
  - intros (h & E) Hb. rewrite E, Hb in H.
    destruct (rl s) as [|?| |?|? ?|? ?| | |[]|]; try discriminate;
      destruct (uc s) as [|[]|]; discriminate.
Qed.

Lemma it_LLockB : forall n,
  (fun s => (True /\ exists h, wl s = LLockB h) /\ wm s = n) ~> iterQ n.
Proof.
  intros n. apply (ensures_s g_wl); auto.
  - apply (CliL3c.llock_unless cap cap_pos r NS).
  - wunf; cens2.
  - intros i HP.
    assert (forall s, ((True /\ exists h, wl s = LLockB h) /\ wm s = n) -> bw s = BwNone ->
              exists a, g_wl a /\ guard a s) as En.
    { intros s ((Hd & h & Hw) & Hn) Hb. exists LLock; cbn; eauto. }
    destruct (Inv_run i) as ((I1 & _) & _). destruct (bw_holder _ I1) as (B1 & B2 & B3).
    destruct (bw (st r i)) eqn:Eb.
    + exists i; split; auto.
    + exfalso. apply B3; auto. apply HP.
    + destruct (lt_unless guard eff r (Inv cap) Inv_run _ _ _ _
                  (CliL3c.llock_unless cap cap_pos r NS n) (cwrite_release 1 ltac:(lia)) i)
        as (j & Hj & [Hq|(HP' & Hr)]); [split; auto | exists j; auto | exists j; split; auto].
    + destruct (lt_unless guard eff r (Inv cap) Inv_run _ _ _ _
                  (CliL3c.llock_unless cap cap_pos r NS n) (cwrite_release 2 ltac:(lia)) i)
        as (j & Hj & [Hq|(HP' & Hr)]); [split; auto | exists j; auto | exists j; split; auto].
Qed.

Lemma wl_iter_step : forall n,
  (fun s => (True /\ wl_iter s) /\ wm s = n) ~> iterQ n.
Proof.
  intros n i ((Hd & Hi) & Hn). unfold wl_iter in Hi.
  destruct (wl (st r i)) eqn:E; try contradiction.
  - apply (CliL2.it_LIter cap cap_pos r F R0 NS n); auto.
  - apply (CliL3b.it_LAcq cap cap_pos r F R0 NS n); auto.
  - apply (it_LLockB n); eauto.
  - apply (CliL3a.it_LWrite cap cap_pos r F R0 NS n); eauto.
  - apply (CliL3d.it_LRefill cap cap_pos r F R0 NS n); auto.
Qed.

Lemma wl_iter_end : (fun s => True /\ wl_iter s) ~> (fun s => wl s = LSel \/ wl_t s).
Proof.
  apply (lt_variant guard eff r _ _ wm). intros n i H.
  destruct (wl_iter_step n i H) as (j & Hj & Hq). exists j; split; auto.
  unfold iterQ in Hq. tauto.
Qed.

Definition wl_loop (s : state) : Prop := done s = true /\ (wl s = LSel \/ wl_iter s).

Lemma wl_loop_unless : forall s a, Inv cap s -> wl_loop s -> guard a s ->
  wl_loop (eff a s) \/ wl_t (eff a s).
Proof. unfold wl_loop; wunf; cens1. Qed.

Lemma wl_to_t : (fun s => done s = true) ~> wl_t.
Proof.
  assert (wl_loop ~> wl_t) as K.
  { apply (ensures_s g_seldone); auto.
    - apply wl_loop_unless.
    - unfold wl_loop; wunf; cens2.
    - intros i (Hd & [Hs|Hi]).
      + exists i; split; auto. right. exists LSelDone; cbn; auto.
      + destruct (lt_stable guard eff r (Inv cap) Inv_run _ _ _ wl_iter_end done_stable i)
          as (j & Hj & [Hs|Ht] & Hd'); [tauto| |].
        * exists j; split; auto. right. exists LSelDone; cbn; auto.
        * exists j; auto. }
  intros i Hd. destruct (wl (st r i)) eqn:E.
  1-6: apply K; split; auto; unfold wl_iter; rewrite E; auto.
  all: exists i; split; auto; unfold wl_t; rewrite E; auto.
Qed.
End P.
End CliL4.
