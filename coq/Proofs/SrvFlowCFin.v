(* Proofs/SrvFlowCFin.v - C06 completion, the whole-run theorems: a buffered response is sent in order, and at any
   moment it is either complete (END_STREAM on its last frame) or waiting with the rest of the body while one of the
   two windows OF THE PEER'S LEDGER is not positive. *)
From H2V Require Import Base.Bytes Base.MachineInt Base.Result Gen.GenConsts Impl.ServerConn Proofs.SrvBase
  Spec.FlowLedger Proofs.SrvFlowLedger Proofs.SrvFlowDefs Proofs.SrvFlowSend Proofs.SrvFlowEff Proofs.SrvFlowSafe
  Proofs.SrvFlowSafeB Proofs.SrvFlowSafeC Proofs.SrvFlowEs Proofs.SrvFlowRecv Proofs.SrvFlowStall Proofs.SrvFlowFuel
  Proofs.SrvFlowDone Proofs.SrvFlowCDecomp Proofs.SrvFlowCRing Proofs.SrvFlowCMono Proofs.SrvFlowCExact Proofs.SrvFlowCExactB
  Proofs.SrvFlowCExactC Proofs.SrvFlowCView Proofs.SrvFlowCEarly Proofs.SrvFlowCTrack Proofs.SrvFlowCTrackB Proofs.SrvFlowCTrackC.
From Coq Require Import ZArith Lia ZifyN ZifyNat ZifyBool List.
Import ListNotations.
Local Open Scope N_scope.
Set Default Proof Using "Type".

Section Fin.
Variable hstate : Type.
Variable dec_field : hstate -> N -> bytes -> dec_res hstate.
Variable enc_field : hstate -> bytes -> bytes -> bool -> bytes * hstate.
Variable enc_set_max : hstate -> N -> hstate.
Variable cfg : config.
Variable h0 : hstate.
Notation sconn := (sconn hstate).
Implicit Types c : sconn.
Notation Sim := (SimX hstate None).
Notation step := (step dec_field enc_field enc_set_max cfg).
Notation run := (run dec_field enc_field enc_set_max cfg h0).
Notation run_from := (run_from dec_field enc_field enc_set_max cfg).
Notation timeline := (timeline hstate dec_field enc_field enc_set_max cfg h0).
Notation Inv := (Inv hstate).
Notation NEInv := (NEInv hstate).
Notation Track := (Track hstate).
Notation AbortS := (AbortS hstate).

(* the frames the stream loop takes off sc.reader during the events, in order *)
Fixpoint taken_from c (evs : list event) : list sframe :=
  match evs with
  | [] => []
  | e :: t => match sl_takes hstate c e with Some fr => [fr] | None => [] end ++ taken_from (step c e) t
  end.

Lemma step_Track sid B c e L : Inv c L -> NEInv c -> Track sid B c ->
  (forall fr, sl_takes hstate c e = Some fr -> sf_sid fr = sid -> sf_kind fr <> KRst) -> Track sid B (step c e).
Proof.
  intros HI HN H NR. pose proof (step_Mono _ dec_field enc_field enc_set_max cfg c e) as M.
  destruct (sc_sl_done c) eqn:SD; [left; left; apply (m_sl _ _ _ M SD)|].
  destruct HI as [HI|S]; [congruence|]. destruct HN as [HN|HN]; [congruence|].
  destruct e as [i| |sid' r|t| | | |].
  - rewrite step_EvRL. destruct (sc_rl_done c); [exact H|].
    destruct (rl_step_eff _ cfg c i) as [[r1 r2 r3 r4 r5 r6 r7 r8 r9 r10] _].
    eapply Track_Keeps; [| |exact H].
    + constructor; [rewrite r1; reflexivity | | rewrite r6; flia].
      destruct (out_quiet_noframe _ _ _ r10) as (new & E & Fn). rewrite E, rf_app, (rf_noframe _ _ Fn). reflexivity.
    + constructor; [exact r8 | left; exact r7 | exact r9 | rewrite r6; flia | eapply out_any, r10].
  - rewrite step_EvSL, SD. cbn [sl_takes] in NR. rewrite SD in NR. destruct (sc_readerQ c) as [|fr q] eqn:RQ.
    + destruct (sc_rl_done c); [left; left; reflexivity | exact H].
    + apply (sl_frame_Track _ dec_field enc_set_max cfg sid B (upd_readerQ c q) fr L).
      * eapply SimX_same; [..|exact S]; reflexivity.
      * revert HN. apply NE_noframe; sc_cbn; auto; [flia | unfold closing_mono; auto | apply out_ext_same; reflexivity].
      * eapply Track_Keeps; [| |exact H]; [constructor; sc_cbn; try reflexivity; try flia|].
        constructor; sc_cbn; auto; [flia | apply out_ext_same; reflexivity].
      * apply NR. reflexivity.
  - rewrite step_EvDone, SD. apply sl_done_Track, H.
  - rewrite step_EvClock. destruct (sc_now c <? t)%Z; [|exact H].
    eapply Track_Keeps; [| |exact H]; [constructor; sc_cbn; try reflexivity; try flia|].
    constructor; sc_cbn; auto; [flia | apply out_ext_same; reflexivity].
  - rewrite step_EvTimer, SD. unfold sl_timer. destruct (cf_maxRequestTime cfg <=? 0)%Z; cbn [fst cont]; [exact H|].
    eapply Track_ClosesR; [apply close_heads_ClosesR | exact H].
  - rewrite step_EvIdle. left. right; right; left. sc_cbn. apply sc_closing_write_goaway.
  - rewrite step_EvCloser. destruct (sc_closer c && negb (sc_sl_done c)); [left; left; reflexivity | exact H].
  - rewrite step_EvWriteFail. left. right; left. reflexivity.
Qed.

Lemma Track_from sid B evs : forall c L, Inv c L -> NEInv c -> Track sid B c ->
  (forall fr, In fr (taken_from c evs) -> sf_sid fr = sid -> sf_kind fr <> KRst) -> Track sid B (run_from c evs).
Proof.
  induction evs as [|e evs IH]; intros c L HI HN H NR; [exact H|]. rewrite run_from_cons.
  destruct (StepOK_tl _ dec_field enc_field enc_set_max cfg c e L HI) as (_ & HI' & _).
  eapply IH; [exact HI' | eapply step_NE; eassumption | |].
  - eapply step_Track; try eassumption. intros fr T. apply NR. cbn [taken_from]. rewrite T. left. reflexivity.
  - intros fr Hin. apply NR. cbn [taken_from]. apply in_or_app. right. exact Hin.
Qed.

Lemma Inv_run evs : Inv (run evs) (lrun ledger0 (timeline evs)).
Proof.
  assert (G : forall evs c L, Inv c L -> Inv (run_from c evs) (lrun L (timeline_from hstate dec_field enc_field enc_set_max cfg c evs))).
  { clear evs. induction evs as [|e evs IH]; intros c L HI; [exact HI|]. rewrite run_from_cons. cbn [timeline_from]. rewrite lrun_app.
    destruct (StepOK_tl _ dec_field enc_field enc_set_max cfg c e L HI) as (_ & HI' & _). apply IH, HI'. }
  rewrite run_eq. apply G, Inv_init.
Qed.

Definition wants (s : stream) : bool := st_responded s && negb (st_handlerRunning s) && has_more_to_send s.

(* C06, progress in the peer's terms (any kind of body): while both loops run, a stream whose response has bytes
   left is held back by a window of the PEER'S LEDGER that is not positive, and the server's windows are that ledger's *)
Theorem waiting_blocked_by_ledger evs s :
  let c := run evs in
  let L := lrun ledger0 (timeline evs) in
  sc_sl_done c = false -> sc_wl_dead c = false -> In s (sc_strms c) -> wants s = true ->
  l_conn L = sc_clientWindow c /\ l_strm L (st_id s) = Some (st_window s) /\
  ((st_window s <= 0)%Z \/ (l_conn L <= 0)%Z).
Proof.
  cbv zeta. intros SD WD Hin W.
  destruct (windows_exact _ dec_field enc_field enc_set_max cfg h0 evs SD WD) as [XC XS].
  pose proof (no_stall _ dec_field enc_field enc_set_max cfg h0 evs s SD Hin W) as NS. rewrite zmin_min in NS.
  split; [exact XC|]. split; [apply XS, Hin|]. rewrite XC. flia.
Qed.

(* C06, the "and finishes" half. *)
Theorem response_progress evs1 sid r B evs2 :
  let c1 := run evs1 in
  let evs := evs1 ++ EvDone sid r :: evs2 in
  let c := run evs in
  let L := lrun ledger0 (timeline evs) in
  rs_body r = BBuffered B ->
  (* the handler of sid returns while its stream is in the table *)
  sc_sl_done c1 = false -> take_stream (sc_gone c1) sid = None ->
  (exists s, strms_search (sc_strms c1) sid = Some s /\ st_handlerRunning s = true) ->
  (* now: both loops run, no GOAWAY, nobody has reset the stream *)
  sc_sl_done c = false -> sc_wl_dead c = false -> sc_closing c = false ->
  (forall o code, In o (trace c) -> strip o <> ORst sid code) ->
  (forall fr, In fr (taken_from (step c1 (EvDone sid r)) evs2) -> sf_sid fr = sid -> sf_kind fr <> KRst) ->
  exists blk frames,
    rf sid (trace c) = OHeaders sid (isnil B) blk :: frames_out sid frames /\ Forall small frames /\
    ((strms_search (sc_strms c) sid = None /\ concat (map snd frames) = B /\ es_shape frames (negb (isnil B)))
     \/
     (exists s, strms_search (sc_strms c) sid = Some s /\ st_pending s <> [] /\ concat (map snd frames) ++ st_pending s = B /\
                st_bodyStream s = None /\ es_shape frames false /\
                ((st_window s <= 0)%Z \/ (sc_clientWindow c <= 0)%Z) /\
                l_strm L sid = Some (st_window s) /\ l_conn L = sc_clientWindow c)).
Proof.
  cbv zeta. intros RB SD1 TG HS SD WD CLO NoR NoP.
  set (c1 := run evs1) in *. set (evs := evs1 ++ EvDone sid r :: evs2) in *.
  assert (RE : run evs = run_from (step c1 (EvDone sid r)) evs2).
  { unfold evs, c1. rewrite run_app, run_from_cons. reflexivity. }
  pose proof (Inv_run evs1) as I1. fold c1 in I1.
  pose proof (NE_run _ dec_field enc_field enc_set_max cfg h0 evs1) as N1. fold c1 in N1.
  destruct I1 as [I1|S1]; [congruence|]. destruct N1 as [N1|N1]; [congruence|].
  assert (T1 : Track sid B (step c1 (EvDone sid r))).
  { rewrite step_EvDone, SD1. eapply sl_done_start; eassumption. }
  destruct (StepOK_tl _ dec_field enc_field enc_set_max cfg c1 (EvDone sid r) _ (or_intror S1)) as (_ & I2 & _).
  pose proof (step_NE _ dec_field enc_field enc_set_max cfg c1 (EvDone sid r) _ (or_intror S1) (or_intror N1)) as N2.
  pose proof (Track_from sid B evs2 _ _ I2 N2 T1 NoP) as T. rewrite <- RE in T.
  set (c := run evs) in *.
  assert (RV : forall out, rf sid (rev out) = rev (rf sid out)) by (intro; apply rf_rev).
  destruct T as [Ab|[Lv|Cp]].
  - exfalso. destruct Ab as [X|[X|[X|(o & code & Hin & Ho)]]]; try congruence.
    apply (NoR o code); [unfold trace; apply in_rev in Hin; rewrite <- in_rev; apply in_rev; exact Hin | exact Ho].
  - destruct Lv as (s & frames & F & PT & BS & PE & PN & (blk & Q) & CB & ES & FS).
    assert (NB : isnil B = false).
    { apply isnil_false. intro X. rewrite X in CB. apply app_eq_nil in CB. destruct CB. contradiction. }
    pose proof (strms_search_In _ _ _ F) as [Hin Hid].
    assert (W : wants s = true).
    { unfold wants. unfold phase in PT. rewrite PT. apply has_more_pending, PN. }
    destruct (waiting_blocked_by_ledger evs s SD WD Hin W) as (XC & XS & NS). fold c in XC, XS, NS.
    exists blk, frames. split; [unfold trace; rewrite RV, Q, rev_app_distr, rev_involutive, NB; reflexivity|].
    split; [exact FS|]. right. exists s. rewrite <- Hid at 2. rewrite XS, XC.
    repeat (split; [assumption|]). split; [rewrite <- XC; exact NS | split; reflexivity].
  - destruct Cp as (F & _ & (frames & (blk & Q) & CB & ES & FS)).
    exists blk, frames. split; [unfold trace; rewrite RV, Q, rev_app_distr, rev_involutive; reflexivity|].
    split; [exact FS|]. left. auto.
Qed.

(* so: when the grants the stream loop has applied leave both windows of the peer's ledger positive, the response
   is complete: all of the body sent in order, END_STREAM on the last frame and nowhere else *)
Corollary completes_when_granted evs1 sid r B evs2 :
  let c1 := run evs1 in
  let evs := evs1 ++ EvDone sid r :: evs2 in
  let c := run evs in
  let L := lrun ledger0 (timeline evs) in
  rs_body r = BBuffered B ->
  sc_sl_done c1 = false -> take_stream (sc_gone c1) sid = None ->
  (exists s, strms_search (sc_strms c1) sid = Some s /\ st_handlerRunning s = true) ->
  sc_sl_done c = false -> sc_wl_dead c = false -> sc_closing c = false ->
  (forall o code, In o (trace c) -> strip o <> ORst sid code) ->
  (forall fr, In fr (taken_from (step c1 (EvDone sid r)) evs2) -> sf_sid fr = sid -> sf_kind fr <> KRst) ->
  (0 < l_conn L)%Z -> (forall w, l_strm L sid = Some w -> (0 < w)%Z) ->
  exists blk frames,
    rf sid (trace c) = OHeaders sid (isnil B) blk :: frames_out sid frames /\ Forall small frames /\
    strms_search (sc_strms c) sid = None /\ concat (map snd frames) = B /\ es_shape frames (negb (isnil B)).
Proof.
  cbv zeta. intros RB SD1 TG HS SD WD CLO NoR NoP GC GS.
  destruct (response_progress evs1 sid r B evs2 RB SD1 TG HS SD WD CLO NoR NoP) as (blk & frames & Q & FS & [X|X]).
  - exists blk, frames. tauto.
  - exfalso. destruct X as (s & _ & _ & _ & _ & _ & NS & XS & XC). specialize (GS _ XS). rewrite XC in GC. flia.
Qed.

End Fin.
