(* Proofs/SrvFlowFuel.v - sendData always runs to completion: the fuel of the model's loop is never exhausted, so
   it stops only when the response is finished or one of the two windows is used up. *)
From H2V Require Import Base.Bytes Base.MachineInt Base.Result Gen.GenConsts Impl.ServerConn Proofs.SrvBase
  Proofs.SrvFlowSend.
From Coq Require Import ZArith Lia ZifyN ZifyNat ZifyBool List.
Import ListNotations.
Local Open Scope N_scope.
Set Default Proof Using "Type".

Definition reads_measure (r : list (bytes * rerr)) : N :=
  fold_right (fun x acc => len (fst x) / 16384 + 3 + acc) 0 r.

Definition sd_measure (n : sendst) : N :=
  len (sn_pending n) / 16384 + (match sn_pending n with [] => 0 | _ => 1 end) + 2
  + match sn_bodyStream n with Some r => reads_measure r | None => 0 end.

Lemma fuel_enough n : (N.to_nat (sd_measure n) <= send_data_fuel n)%nat.
Proof.
  unfold sd_measure, send_data_fuel, maxDataFrameSize.
  assert (R : forall r, N.to_nat (reads_measure r) =
                        (2 * length r + N.to_nat (fold_right (fun x acc => (len (fst x) / 16384 + 1 + acc)%N) 0%N r))%nat).
  { induction r as [|x r IH]; cbn [reads_measure fold_right length]; [reflexivity|]. fold (reads_measure r). lia. }
  destruct (sn_bodyStream n) as [r|]; [rewrite N2Nat.inj_add, R|]; destruct (sn_pending n); lia.
Qed.

Lemma refill_measure n n1 : sn_pending n = [] -> refill_pending n = Some n1 -> sn_pending n1 <> [] ->
  sd_measure n1 + 2 <= sd_measure n.
Proof.
  unfold refill_pending, sd_measure. intros P R P1. rewrite P.
  destruct (sn_bodyStream n) as [reads|]; [|inversion R; subst; congruence].
  destruct reads as [|[ch e] t].
  - inversion R; subst. cbn [sn_pending] in P1. congruence.
  - destruct e; [destruct ch as [|b ch]; [discriminate|]| |discriminate]; inversion R; subst;
      cbn [sn_pending sn_bodyStream reads_measure fold_right fst] in *; fold (reads_measure t).
    + cbn [len length]. lia.
    + destruct ch as [|b ch]; [congruence|]. cbn [len length]. lia.
Qed.

Section Fuel.
Variable hstate : Type.
Notation sconn := (sconn hstate).
Implicit Types c : sconn.

Lemma sd_n'_measure c n : sn_pending n <> [] -> (0 < sd_avail c n)%Z ->
  (sd_step c n = 16384%Z \/ sd_rest c n = []) -> sd_measure (sd_n' c n) + 1 <= sd_measure n.
Proof.
  intros P A H. destruct (sd_step_bounds _ c n P A) as (B1 & B2 & B3 & B4 & B5).
  unfold sd_measure, sd_n'. cbn [sn_pending sn_bodyStream].
  assert (L : len (sd_rest c n) = len (sn_pending n) - Z.to_N (sd_step c n)) by (unfold sd_rest; apply len_dropN).
  assert (LP : len (sn_pending n) <> 0) by (rewrite len_nil_iff; exact P).
  replace (match sn_pending n with [] => 0 | _ => 1 end) with 1 by (destruct (sn_pending n); [congruence | reflexivity]).
  destruct H as [H|H].
  - rewrite H in L. assert (match sd_rest c n with [] => 0 | _ => 1 end <= 1) by (destruct (sd_rest c n); lia). lia.
  - rewrite H in *. change (len []) with 0 in *. lia.
Qed.

Lemma sdl_S_nonempty fuel c sid n : sn_pending n <> [] -> send_data_loop (S fuel) c sid n = sd_go fuel c sid n.
Proof. intro P. rewrite send_data_loop_S. destruct (sn_pending n); [congruence | reflexivity]. Qed.

Lemma go_fuel sid fuel :
  (forall c n, (N.to_nat (sd_measure n) <= fuel)%nat -> SDL sid c n (send_data_loop fuel c sid n) false) ->
  forall c n n1, sd_src n n1 -> (N.to_nat (sd_measure n1) <= S fuel)%nat -> SDL sid c n (sd_go fuel c sid n1) false.
Proof.
  intros IH c n n1 Hs M. unfold sd_go. pose proof (sd_src_pending _ _ Hs) as P1.
  destruct (sd_avail c n1 <=? 0)%Z eqn:A; [apply SDL_blocked; [assumption | lia]|].
  assert (A' : (0 < sd_avail c n1)%Z) by lia.
  destruct (sd_es c n1) eqn:E; [apply SDL_last; assumption|].
  eapply SDL_more; try eassumption.
  destruct (sd_step_bounds _ c n1 P1 A') as (B1 & B2 & B3 & B4 & B5).
  destruct (Z.eq_dec (sd_step c n1) 16384) as [S16|S16]; [apply IH; pose proof (sd_n'_measure c n1 P1 A' (or_introl S16)); lia|].
  destruct (sd_rest c n1) as [|b rest] eqn:ER; [apply IH; pose proof (sd_n'_measure c n1 P1 A' (or_intror ER)); lia|].
  (* a short frame that does not empty the buffer: it used up a window, the next iteration stops *)
  assert (F : (2 <= fuel)%nat).
  { unfold sd_measure in M. destruct (sn_pending n1); [congruence | lia]. }
  destruct fuel as [|f]; [lia|].
  assert (PN : sn_pending (sd_n' c n1) <> []) by (unfold sd_n'; cbn [sn_pending]; rewrite ER; discriminate).
  rewrite (sdl_S_nonempty _ _ _ _ PN).
  assert (AV : (sd_avail (sd_c2 c sid n1) (sd_n' c n1) <= 0)%Z).
  { assert (L : len (sd_rest c n1) = len (sn_pending n1) - Z.to_N (sd_step c n1)) by (unfold sd_rest; apply len_dropN).
    rewrite ER in L. assert (L1 : 1 <= len (b :: rest)) by (unfold len; cbn [length]; lia).
    unfold sd_avail, sd_c2, sd_n'. sc_cbn. cbn [sn_window].
    unfold sd_step, sd_avail in *. rewrite !zmin_min in *. unfold maxDataFrameSize in *. lia. }
  unfold sd_go. assert (X : (sd_avail (sd_c2 c sid n1) (sd_n' c n1) <=? 0)%Z = true) by lia. rewrite X.
  apply SDL_blocked; [|exact AV]. apply src_same. exact PN.
Qed.

Lemma send_data_loop_fuel sid fuel : forall c n, (N.to_nat (sd_measure n) <= fuel)%nat ->
  SDL sid c n (send_data_loop fuel c sid n) false.
Proof.
  induction fuel as [|fuel IH]; intros c n M.
  - unfold sd_measure in M. lia.
  - rewrite send_data_loop_S. destruct (sn_pending n) eqn:P.
    + destruct (sn_bodyStream n) eqn:B; [|constructor; assumption].
      destruct (refill_pending n) as [n1|] eqn:R.
      * destruct (sn_pending n1) eqn:P1.
        -- apply SDL_eof; try assumption. congruence.
        -- apply go_fuel; [exact IH | apply src_refill; try assumption; congruence|].
           pose proof (refill_measure n n1 P R ltac:(congruence)). lia.
      * apply SDL_fail; try assumption. congruence.
    + apply go_fuel; [exact IH | apply src_same; congruence | lia].
Qed.

Lemma send_data_SDL sid c n : SDL sid c n (send_data_loop (send_data_fuel n) c sid n) false.
Proof. apply send_data_loop_fuel, fuel_enough. Qed.

(* without running out of fuel, sendData ends with the response finished or a window used up; the client window
   never grows *)
Lemma SDL_stalls sid c n r : SDL sid c n r false ->
  (snd (fst r) = true \/ (sd_avail (fst (fst (fst r))) (snd (fst (fst r))) <= 0)%Z) /\
  (sc_clientWindow (fst (fst (fst r))) <= sc_clientWindow c)%Z.
Proof.
  remember false as k eqn:Ek. induction 1; cbn [fst snd]; try discriminate.
  - split; [left; reflexivity | lia].
  - split; [left; reflexivity | unfold write_reset; rewrite sc_clientWindow_emit; lia].
  - split; [left; reflexivity|]. destruct (sn_pendingEnd n1); [rewrite sc_clientWindow_emit|]; lia.
  - split; [right; assumption | lia].
  - split; [left; reflexivity|]. pose proof (sd_src_pending _ _ H) as P1.
    destruct (sd_step_bounds _ c n1 P1 H0) as (B1 & _). unfold sd_c2. sc_cbn. lia.
  - destruct (IHSDL Ek) as [A B]. split; [exact A|]. pose proof (sd_src_pending _ _ H) as P1.
    destruct (sd_step_bounds _ c n1 P1 H0) as (B1 & _). unfold sd_c2 in B. sc_cbn_in B. lia.
Qed.

End Fuel.
