(* Proofs/SrvIsoExamples.v - concrete event lists for the theorems of C09 (and C01), on the model instantiated
   with the real HPACK model (Impl/ServerInst.v). Everything here is by computation. *)
From H2V Require Import Base.Bytes Base.MachineInt Base.Result Gen.GenConsts Impl.Hpack Impl.ServerConn Impl.ServerInst
  Proofs.SrvBase Proofs.SrvIsoRef Proofs.SrvIsoMoves Proofs.SrvIsoSteps Proofs.SrvIsoHdr Proofs.SrvIsoHdrStep
  Proofs.SrvIsoRun Proofs.SrvIsoErr.
Local Open Scope N_scope.

Definition xfr (k : fkind) (fl sid : N) (payload : bytes) : sframe :=
  mkSFrame k fl sid (len payload) payload 0 0 0 false 0 false 0.
(* the read loop gets the frame, the stream loop handles it *)
Definition rx (f : sframe) : list event := [EvRL (RFrame f); EvSL].

Notation s_clean := (clean srv_dec_field srv_enc_field set_max_table_size).
Notation s_cleanb := (cleanb _ srv_dec_field srv_enc_field set_max_table_size).
Notation s_hframes := (hframes srv_dec_field srv_enc_field set_max_table_size).

(* ---- one connection, at most 2 concurrent streams:
   stream 1: a request whose body never comes (stays open), its block adds ("a","b") to the dynamic table;
   stream 3: HEADERS without END_HEADERS whose second field has an upper-case name (stream error), cut in the
             middle of a third field that adds ("c","d"); the CONTINUATION brings the rest;
   stream 5: a request that refers to ("c","d") by index 62 - it decodes only if the block of stream 3 was
             decoded to its end;
   stream 7: refused (two streams are open); its block adds ("g","h");
   stream 5 is answered; stream 9: refers to ("g","h") by index 62. ---- *)
Definition ex_cfg : config := mkCfg 2 0 0 0 65535.
Definition ex_evs : list event :=
  rx (xfr KHeaders 4 1 [130;132;135; 64;1;97;1;98]) ++
  rx (xfr KHeaders 0 3 [130; 0;1;65;1;98; 64;1;99]) ++ rx (xfr KCont 4 3 [1;100]) ++
  rx (xfr KHeaders 5 5 [130;132;135;190]) ++
  rx (xfr KHeaders 5 7 [64;1;103;1;104]) ++
  [EvDone 5 (mkResp 200 [] (BBuffered [1;2;3]))] ++
  rx (xfr KHeaders 5 9 [130;132;135;190]).

Definition ex_req (f : list (bytes * bytes)) : request := mkReq [71;69;84] [47] [104;116;116;112;115] None f [].

Lemma ex_trace : srv_trace (srv_run ex_cfg ex_evs) =
  [ORst 3 c_ProtocolError; ORelease 3 true; ODispatch 5 (ex_req [([99],[100])]); ORst 7 c_RefusedStreamError;
   OHeaders 5 false [136]; OData 5 true [1;2;3]; ORelease 5 true; ODispatch 9 (ex_req [([103],[104])])].
Proof. vm_compute. reflexivity. Qed.

Lemma ex_cleanb : s_cleanb ex_cfg srv_init_hpack ex_evs = true.
Proof. vm_compute. reflexivity. Qed.

Lemma ex_clean : s_clean ex_cfg srv_init_hpack ex_evs.
Proof. apply cleanb_sound. exact ex_cleanb. Qed.

Lemma ex_frags : map frag (s_hframes ex_cfg srv_init_hpack ex_evs) =
  [(false, true, [130;132;135; 64;1;97;1;98]); (false, false, [130; 0;1;65;1;98; 64;1;99]); (true, true, [1;100]);
   (false, true, [130;132;135;190]); (false, true, [64;1;103;1;104]); (false, true, [130;132;135;190])].
Proof. vm_compute. reflexivity. Qed.

(* the decoder state after the run is the reference folded over the six fragments *)
Lemma ex_reference :
  ref_fold _ srv_dec_field (srv_init_hpack, 0, []) (s_hframes ex_cfg srv_init_hpack ex_evs) =
  Some (sc_dec (srv_run ex_cfg ex_evs), 4, []).
Proof. vm_compute. reflexivity. Qed.

Lemma ex_dynamic_table : map (fun f => (f_key f, f_value f)) (h_dynamic (sc_dec (srv_run ex_cfg ex_evs))) =
  [([97],[98]); ([99],[100]); ([103],[104])].
Proof. vm_compute. reflexivity. Qed.

(* ---- a second run: other limits (4 concurrent streams: nothing is refused), other fates; the stream loop
   handles the same fragments in the same order ---- *)
Definition ex_cfg' : config := mkCfg 4 0 0 0 65535.
Definition ex_evs' : list event :=
  rx (xfr KHeaders 5 1 [130;132;135; 64;1;97;1;98]) ++
  [EvDone 1 (mkResp 204 [] (BBuffered []))] ++
  rx (xfr KHeaders 0 3 [130; 0;1;65;1;98; 64;1;99]) ++ rx (xfr KCont 4 3 [1;100]) ++
  rx (xfr KHeaders 5 5 [130;132;135;190]) ++
  rx (xfr KHeaders 5 7 [64;1;103;1;104]) ++
  rx (xfr KHeaders 5 9 [130;132;135;190]).

Lemma ex_cleanb' : s_cleanb ex_cfg' srv_init_hpack ex_evs' = true.
Proof. vm_compute. reflexivity. Qed.
Lemma ex_frags' : map frag (s_hframes ex_cfg' srv_init_hpack ex_evs') = map frag (s_hframes ex_cfg srv_init_hpack ex_evs).
Proof. vm_compute. reflexivity. Qed.
Lemma ex_trace' : srv_trace (srv_run ex_cfg' ex_evs') =
  [ODispatch 1 (ex_req [([97],[98])]); OHeaders 1 true [137]; ORelease 1 true;
   ORst 3 c_ProtocolError; ORelease 3 true; ODispatch 5 (ex_req [([99],[100])]);
   ORst 7 c_ProtocolError; ORelease 7 true; ODispatch 9 (ex_req [([103],[104])])].
Proof. vm_compute. reflexivity. Qed.

(* ---- the finding: an oversized header LIST is a connection error (serverConn.go:1419) ---- *)
Definition ex_cfg_limit : config := mkCfg 10 200 0 0 65535.
Definition ex_evs_oversized : list event :=
  rx (xfr KHeaders 4 1 [130;132;135]) ++
  rx (xfr KHeaders 5 3 [130;132;135; 0;1;97;1;98; 0;1;99;1;100; 0;1;101;1;102]).
Lemma ex_oversized_header_list : srv_trace (srv_run ex_cfg_limit ex_evs_oversized) = [OGoAway 3 c_EnhanceYourCalm; OExit 1 0].
Proof. vm_compute. reflexivity. Qed.

(* ---------------- C01: multiplexed requests ---------------- *)
From H2V Require Import Proofs.SrvIsoReq Proofs.SrvFlowSend Proofs.SrvIsoResp Proofs.SrvIsoNI.

(* a frame with a padded length and a priority dependency *)
Definition pfr (k : fkind) (fl sid len_ : N) (payload : bytes) (dep : N) : sframe :=
  mkSFrame k fl sid len_ payload dep 0 0 false 0 false 0.
Definition m_cfg : config := mkCfg 10 0 0 0 65535.
(* stream 1: POST / https, content-length: 5, x: y; the block cut in three (inside the content-length literal);
   HEADERS padded; body "hello" as DATA "he" (padded), "" , "llo" (END_STREAM), then trailers are not used here.
   stream 3: GET / https with :authority h, END_STREAM on HEADERS, with a priority field (depends on 1).
   stream 5: POST with a body "ab" and a trailer block t: u (HEADERS with END_STREAM), cut in two.
   Interleaved; the handlers finish 3, 5, 1. *)
Definition m_b1 : bytes := [131;132;135; 92;1;53; 64;1;120;1;121].
Definition m_b3 : bytes := [130;132;135; 65;1;104].
Definition m_b5 : bytes := [131;132;135].
Definition m_t5 : bytes := [0;1;116;1;117].
Definition m_evs : list event :=
  rx (pfr KHeaders 0 1 9 (firstn 4 m_b1) 0) ++
  rx (xfr KCont 0 1 (firstn 3 (skipn 4 m_b1))) ++
  rx (xfr KCont 4 1 (skipn 7 m_b1)) ++
  rx (pfr KHeaders 5 3 11 m_b3 1) ++
  rx (xfr KHeaders 4 5 m_b5) ++
  rx (pfr KData 0 1 7 [104;101] 0) ++
  rx (xfr KData 0 5 [97;98]) ++
  rx (xfr KData 0 1 []) ++
  [EvDone 3 (mkResp 200 [([88],[49])] (BBuffered [111;107]))] ++
  rx (xfr KHeaders 1 5 (firstn 2 m_t5)) ++ rx (xfr KCont 4 5 (skipn 2 m_t5)) ++
  [EvDone 5 (mkResp 201 [] (BBuffered [33]))] ++
  rx (xfr KData 1 1 [108;108;111]) ++
  [EvDone 1 (mkResp 204 [] (BBuffered []))].

Definition m_rq1 : request :=
  mkReq [80;79;83;84] [47] [104;116;116;112;115] None
        [([99;111;110;116;101;110;116;45;108;101;110;103;116;104], [53]); ([120],[121])] [104;101;108;108;111].
Definition m_rq3 : request := mkReq [71;69;84] [47] [104;116;116;112;115] (Some [104]) [] [].
Definition m_rq5 : request := mkReq [80;79;83;84] [47] [104;116;116;112;115] None [([116],[117])] [97;98].

Lemma m_trace : srv_trace (srv_run m_cfg m_evs) =
  [ODispatch 3 m_rq3; OWinUpd 1 7; OWinUpd 5 2;
   OHeaders 3 false [136;0;129;243;129;15]; OData 3 true [111;107]; ORelease 3 true;
   ODispatch 5 m_rq5; OHeaders 5 false [72;130;16;3]; OData 5 true [33]; ORelease 5 true;
   ODispatch 1 m_rq1; OHeaders 1 true [137]; ORelease 1 true].
Proof. vm_compute. reflexivity. Qed.

Lemma m_cleanb : s_cleanb m_cfg srv_init_hpack m_evs = true.
Proof. vm_compute. reflexivity. Qed.

(* the response blocks are response_block of what the handlers returned *)
Lemma m_resp_block3 :
  fst (response_block srv_enc_field srv_init_hpack (mkResp 200 [([88],[49])] (BBuffered [111;107]))) = [136;0;129;243;129;15].
Proof. vm_compute. reflexivity. Qed.

(* the request the field list of stream 1 stands for *)
Lemma m_request_of :
  request_of empty_req [([58;109;101;116;104;111;100],[80;79;83;84]); ([58;112;97;116;104],[47]);
                        ([58;115;99;104;101;109;101],[104;116;116;112;115]);
                        ([99;111;110;116;101;110;116;45;108;101;110;103;116;104],[53]); ([120],[121])] =
  mkReq [80;79;83;84] [47] [104;116;116;112;115] None
        [([99;111;110;116;101;110;116;45;108;101;110;103;116;104], [53]); ([120],[121])] [].
Proof. vm_compute. reflexivity. Qed.

(* C09 (c): in-flight frames on a stream the server has reset leave the others alone - the same run with and
   without DATA / trailers arriving for stream 3 after its reset gives the same outputs for streams 1 and 5
   (the difference: the connection window is credited for the dropped DATA) *)
Definition n_cfg : config := mkCfg 10 0 0 0 65535.
Definition n_common1 : list event :=
  rx (xfr KHeaders 4 1 [131;132;135; 64;1;97;1;98]) ++            (* stream 1: POST, body to come *)
  rx (xfr KHeaders 4 3 [131;132;135; 0;1;65;1;98]).              (* stream 3: upper-case field name: reset *)
Definition n_inflight : list event :=
  rx (xfr KData 0 3 [1;2;3]) ++ rx (xfr KHeaders 5 3 [64;1;116;1;117]).  (* DATA and trailers for stream 3, still in flight *)
Definition n_common2 : list event :=
  rx (xfr KHeaders 5 5 [130;132;135; 190]) ++                    (* stream 5 refers to the newest table entry *)
  rx (xfr KData 1 1 [120]) ++
  [EvDone 5 (mkResp 200 [] (BBuffered [53])); EvDone 1 (mkResp 200 [] (BBuffered [49]))].
Definition about (ids : list N) (o : outev) : bool :=
  match o with
  | OHeaders s _ _ | OData s _ _ | ORst s _ | ODispatch s _ | ORelease s _ => existsb (N.eqb s) ids
  | _ => false
  end.
Lemma n_with_inflight :
  filter (about [1;5]) (srv_trace (srv_run n_cfg (n_common1 ++ n_inflight ++ n_common2))) =
  [ODispatch 5 (ex_req [([116],[117])]); ODispatch 1 (mkReq [80;79;83;84] [47] [104;116;116;112;115] None [([97],[98])] [120]);
   OHeaders 5 false [136]; OData 5 true [53]; ORelease 5 true; OHeaders 1 false [136]; OData 1 true [49]; ORelease 1 true].
Proof. vm_compute. reflexivity. Qed.

(* C09 (b): "sc_sl_done is unchanged by a stream error" is false - after a GOAWAY that left the loop running (DATA
   on the closed stream 3), the stream error of the last open stream completes the shutdown in the same step *)
Definition sd_evs : list event :=
  rx (xfr KHeaders 4 1 [131;132;135]) ++
  rx (xfr KHeaders 5 3 [130;132;135]) ++ [EvDone 3 (mkResp 204 [] (BBuffered []))] ++
  rx (xfr KData 0 3 [1]) ++
  rx (xfr KHeaders 5 1 [0;1;65;1;98]).
Lemma sd_before : srv_trace (srv_run ex_cfg' (removelast sd_evs)) =
  [ODispatch 3 (ex_req []); OHeaders 3 true [137]; ORelease 3 true; OGoAway 3 c_StreamClosedError].
Proof. vm_compute. reflexivity. Qed.
Lemma sd_after : srv_trace (srv_run ex_cfg' sd_evs) =
  [ODispatch 3 (ex_req []); OHeaders 3 true [137]; ORelease 3 true; OGoAway 3 c_StreamClosedError;
   ORst 1 c_ProtocolError; ORelease 1 true; OExit 1 0].
Proof. vm_compute. reflexivity. Qed.

(* C01_assembled_request on the three fragments of stream 1's block in m_evs and its DATA frames *)
From H2V Require Import Proofs.SrvIsoOwn Proofs.SrvIsoLog.
Definition a_f1 : sframe := pfr KHeaders 0 1 9 (firstn 4 m_b1) 0.
Definition a_f2 : sframe := xfr KCont 0 1 (firstn 3 (skipn 4 m_b1)).
Definition a_f3 : sframe := xfr KCont 4 1 (skipn 7 m_b1).
Definition a_frs : list (sframe * list (bytes * bytes) * bytes) :=
  [(a_f1, [(S_method, [80;79;83;84]); (S_path, [47]); (S_scheme, [104;116;116;112;115])], [92]);
   (a_f2, [(S_content_length, [53])], [64]);
   (a_f3, [([120],[121])], [])].
Definition a_ds : list sframe := [pfr KData 0 1 7 [104;101] 0; xfr KData 0 1 []; xfr KData 1 1 [108;108;111]].
Lemma a_block : block_items true a_frs.
Proof. repeat split. Qed.
Lemma a_accepted : exists hF, hfold m_cfg hdr0 (fields_of a_frs) = Some hF.
Proof. eexists. vm_compute. reflexivity. Qed.
Lemma a_request : hd_req (fst (asm m_cfg (items_of a_frs ++ map LD a_ds))) = m_rq1.
Proof. vm_compute. reflexivity. Qed.
