(* Proofs/SrvIsoErr.v - C09 (b): stream errors stay stream errors.
   1. Theorem stream_errors_stay: a step of the stream loop (a frame, a handler completion, the request timer -
      the only steps that send RST_STREAM) that produces no error output (GOAWAY, panic) leaves sc_closing,
      sc_closeRef and sc_rl_done alone, and ends the stream loop only to complete a shutdown that was already
      under way.
   2. The catalogue: which stream-scoped failure produces which reaction (Lemmas cat_...). *)
From H2V Require Import Base.Bytes Base.MachineInt Base.Result Gen.GenConsts Impl.ServerConn Proofs.SrvBase
  Proofs.SrvIsoRef Proofs.SrvIsoMoves Proofs.SrvIsoSteps Proofs.SrvIsoHdr Proofs.SrvIsoHdrStep Proofs.SrvIsoRun.
From Coq Require Import ZArith Lia ZifyN ZifyNat ZifyBool.
Local Open Scope N_scope.

Section Err.
Variable hstate : Type.
Variable dec_field : hstate -> N -> bytes -> dec_res hstate.
Variable enc_field : hstate -> bytes -> bytes -> bool -> bytes * hstate.
Variable enc_set_max : hstate -> N -> hstate.
Variable cfg : config.
Variable h0 : hstate.
Notation sconn := (sconn hstate).
Notation step := (step dec_field enc_field enc_set_max cfg).
Notation run := (run dec_field enc_field enc_set_max cfg h0).
Implicit Types c : sconn.

Definition sl_event (e : event) : Prop := e = EvSL \/ (exists sid r, e = EvDone sid r) \/ e = EvTimer.

Theorem stream_errors_stay evs e :
  clean dec_field enc_field enc_set_max cfg h0 evs -> sl_event e ->
  sc_wl_dead (run evs) = false ->
  (gcount (sc_out (step (run evs) e)) <= gcount (sc_out (run evs)))%nat ->
  sc_closing (step (run evs) e) = sc_closing (run evs) /\
  sc_closeRef (step (run evs) e) = sc_closeRef (run evs) /\
  sc_rl_done (step (run evs) e) = sc_rl_done (run evs) /\
  (sc_sl_done (step (run evs) e) = sc_sl_done (run evs) \/
   (sc_sl_done (step (run evs) e) = true /\
    (sc_closing (run evs) = true \/ (e = EvSL /\ sc_readerQ (run evs) = [] /\ sc_rl_done (run evs) = true)))).
Proof.
  intros CL SE W G. set (c := run evs) in *.
  assert (EC : forall c0, sc_closing c0 = sc_closing c -> sc_closeRef c0 = sc_closeRef c -> sc_rl_done c0 = sc_rl_done c ->
               sc_sl_done c0 = sc_sl_done c -> sc_wl_dead c0 = false -> sc_out c0 = sc_out c ->
               eff c0 (step c e) ->
               sc_closing (step c e) = sc_closing c /\ sc_closeRef (step c e) = sc_closeRef c /\
               sc_rl_done (step c e) = sc_rl_done c /\
               (sc_sl_done (step c e) = sc_sl_done c \/ (sc_sl_done (step c e) = true /\
                 (sc_closing c = true \/ (e = EvSL /\ sc_readerQ c = [] /\ sc_rl_done c = true))))).
  { intros c0 E1 E2 E3 E4 W0 EO EF. rewrite <- EO in G.
    destruct (eff_clean _ _ _ EF W0 G) as (C1 & C2 & D). destruct EF as ((_ & _ & B3 & _) & _).
    repeat split; try congruence. destruct D as [D|[D1 D2]]; [left | right; split; [|left]]; congruence. }
  destruct SE as [->|[(sid & r & ->)| ->]].
  - destruct (sc_sl_done c) eqn:Hd.
    { rewrite step_EvSL, Hd. repeat split; auto; rewrite ?Hd; auto. }
    destruct (sc_readerQ c) as [|fr q] eqn:RQ.
    { rewrite step_EvSL, Hd, RQ. destruct (sc_rl_done c) eqn:Hr; [|repeat split; auto; rewrite ?Hd; auto].
      unfold note. sc_cbn. repeat split; auto. right. split; [reflexivity|]. right. auto. }
    apply (EC (upd_readerQ c q)); try reflexivity; [exact Hd | exact W|].
    destruct (is_hdr_frame fr) eqn:IHF.
    + destruct (hdr_step_reference _ dec_field enc_field enc_set_max cfg h0 evs fr q CL Hd RQ IHF W G)
        as (n & carry & _ & (fs & n' & carry' & _ & EF & _)). exact EF.
    + rewrite step_EvSL, Hd, RQ. eapply hmvs_eff.
      apply (hmvs_sl_frame_other _ dec_field enc_set_max cfg (sf_sid fr) false _ fr IHF (fun _ => eq_refl) (no_open_block_false _ _)).
  - destruct (sc_sl_done c) eqn:Hd.
    { rewrite step_EvDone, Hd. repeat split; auto; rewrite ?Hd; auto. }
    apply (EC c); try reflexivity; [exact Hd | exact W|]. rewrite step_EvDone, Hd. eapply (hmvs_eff _ sid false).
    apply hmvs_sl_done. intro K; discriminate K.
  - destruct (sc_sl_done c) eqn:Hd.
    { rewrite step_EvTimer, Hd. repeat split; auto; rewrite ?Hd; auto. }
    apply (EC c); try reflexivity; [exact Hd | exact W|]. rewrite step_EvTimer, Hd. eapply (hmvs_eff _ 0 false). apply hmvs_sl_timer.
Qed.

End Err.

(* ---------- the catalogue ---------- *)
Section Cat.
Set Default Proof Using "Type".
Variable hstate : Type.
Variable dec_field : hstate -> N -> bytes -> dec_res hstate.
Variable enc_set_max : hstate -> N -> hstate.
Variable cfg : config.
Notation sconn := (sconn hstate).
Implicit Types c : sconn.


(* 1. a malformed request: the field that is refused gives PROTOCOL_ERROR (or ENHANCE_YOUR_CALM for a
   content-length above the body limit); by handle_frame_hdr_spec (hfo_reset) the whole block has been decoded
   by then, and the reaction is RST_STREAM on that stream, which is closed *)
Lemma cat_malformed_field h k v code : header_field cfg h k v = inl (EReset code) ->
  code = c_ProtocolError \/ (code = c_EnhanceYourCalm /\ bytes_eqb k S_content_length = true).
Proof.
  unfold header_field.
  repeat match goal with
         | |- context [if ?b then _ else _] => destruct b eqn:?
         | |- context [match parse_uint ?v with _ => _ end] => destruct (parse_uint v)
         end; intro H; inversion H; subst; auto.
Qed.

Lemma cat_stream_error_reaction c3 s3 code fr wc :
  fkind_eqb (sf_kind fr) KRst = false -> st_responded s3 = false ->
  ftail_rest cfg c3 s3 (Some (EReset code)) fr wc =
  (let s5 := set_state (set_state (set_weReset s3) SClosed) SClosed in
   let cc := close_stream (put (write_reset c3 (st_id s3) code) s5) s5 in
   if wc && can_close_after_goaway cc then brk cc else cont cc).
Proof. intros NR R. unfold ftail_rest. cbn [write_error]. apply after_frame_closed; [exact NR | reflexivity | exact R]. Qed.

(* 2. a request body over the limit: RST_STREAM(ENHANCE_YOUR_CALM), the connection window is credited *)
Lemma cat_body_over_limit c s fr :
  sf_kind fr = KData -> verify_state s fr = None -> st_headersFinished s = true -> sstate_rank (st_state s) < 3 ->
  (0 < cf_maxBody cfg)%Z -> (cf_maxBody cfg < st_recvBody s + Z.of_N (len (sf_payload fr)))%Z ->
  handle_frame dec_field cfg c s fr =
  (credit_conn_window cfg c (Z.of_N (sf_len fr)),
   set_recv s (st_recvBody s + Z.of_N (len (sf_payload fr)))%Z (st_req s), Some (EReset c_EnhanceYourCalm)).
Proof.
  intros K V HF RK M1 M2. unfold handle_frame. rewrite V, K, HF. cbn [negb].
  replace (3 <=? sstate_rank (st_state s)) with false by lia.
  replace ((0 <? cf_maxBody cfg)%Z && (cf_maxBody cfg <? st_recvBody s + Z.of_N (len (sf_payload fr)))%Z)%bool with true by lia.
  reflexivity.
Qed.

(* 3. a refused stream (concurrency limit, or the connection is closing): RST_STREAM(REFUSED_STREAM), the id is
   remembered as reset by the server, and the header block is decoded and dropped *)
Lemma cat_refused c fr :
  sf_kind fr = KHeaders -> sf_sid fr <> 0 ->
  (if sf_sid fr <=? sc_lastID c then strms_search (sc_strms c) (sf_sid fr) else None) = None ->
  in_ring c (sf_sid fr) = false -> sc_highestID c < sf_sid fr ->
  ((cf_maxStreams cfg <=? sc_open c)%Z || sc_closing c)%bool = true ->
  sl_frame dec_field enc_set_max cfg c fr =
  discard_or_break (discard_header_block dec_field cfg
    (mark_closed (write_reset (upd_highestID c (sf_sid fr)) (sf_sid fr) c_RefusedStreamError) (sf_sid fr) true) fr).
Proof.
  intros K NZ NF NR HI RF. unfold sl_frame. replace (sf_sid fr =? 0) with false by lia. rewrite K. cbn [fkind_eqb andb].
  rewrite NF, NR. cbn [andb]. replace (sf_sid fr <=? sc_highestID c) with false by lia. sc_cbn. rewrite RF. reflexivity.
Qed.

(* 4. the peer cancels a stream (RST_STREAM on a stream that is not idle): nothing is sent, the stream is closed
   (close_stream keeps its slot while the handler runs: sc_gone_close_stream, sc_open_close_stream) *)
Lemma cat_peer_rst c s fr : sf_kind fr = KRst -> st_state s <> SIdle ->
  handle_frame dec_field cfg c s fr = (c, s, None) /\ handle_state fr s = set_state s SClosed.
Proof.
  intros K NI. split.
  - unfold handle_frame, verify_state, continuing_headers. rewrite K. cbn [fkind_eqb andb orb].
    destruct (st_state s) eqn:E; try congruence; reflexivity.
  - unfold handle_state. rewrite K. reflexivity.
Qed.

Lemma cat_peer_rst_close c s fr wc : sf_kind fr = KRst ->
  (st_responded s && negb (st_handlerRunning s) && has_more_to_send s)%bool = false ->
  after_frame cfg c s fr wc =
  (let s' := set_state s SClosed in let cc := close_stream (put c s') s' in
   if wc && can_close_after_goaway cc then brk cc else cont cc).
Proof.
  intros K NS. unfold after_frame. unfold handle_state. rewrite K. cbn [fkind_eqb st_state set_state].
  unfold sstate_eqb. cbn [sstate_rank st_state set_state st_responded st_handlerRunning st_headersFinished].
  change (4 =? 3) with false. cbn [andb].
  replace (has_more_to_send (set_state s SClosed)) with (has_more_to_send s) by reflexivity. rewrite NS.
  cbn [st_state set_state sstate_rank]. change (4 =? 4) with true. reflexivity.
Qed.

(* 5. a WINDOW_UPDATE that takes a stream window over 2^31-1: RST_STREAM(FLOW_CONTROL_ERROR) *)
Lemma cat_window_overflow c s fr :
  sf_kind fr = KWinUpd -> verify_state s fr = None -> st_state s <> SIdle -> sf_inc fr <> 0 ->
  (MAXWIN < st_window s + Z.of_N (sf_inc fr))%Z ->
  handle_frame dec_field cfg c s fr = (c, set_window s (st_window s + Z.of_N (sf_inc fr)), Some (EReset c_FlowControlError)).
Proof.
  intros K V NI NZ OV. unfold handle_frame. rewrite V, K.
  replace (sstate_eqb (st_state s) SIdle) with false by (destruct (st_state s); try reflexivity; congruence).
  replace (sf_inc fr =? 0) with false by lia. cbv zeta.
  replace (MAXWIN <? st_window s + Z.of_N (sf_inc fr))%Z with true by lia. reflexivity.
Qed.

(* 6. frames still in flight for a stream the server has reset (the ring says weReset): DATA is dropped and the
   connection window credited; a header block is decoded and dropped; never a GOAWAY (unless the block itself
   does not decode: discard_fragment_spec) *)
Lemma cat_inflight_data c fr :
  sf_kind fr = KData -> sf_sid fr <> 0 ->
  (if sf_sid fr <=? sc_lastID c then strms_search (sc_strms c) (sf_sid fr) else None) = None ->
  in_ring c (sf_sid fr) = true -> ring_find c (sf_sid fr) = Some true ->
  sl_frame dec_field enc_set_max cfg c fr = cont (credit_conn_window cfg c (Z.of_N (sf_len fr))).
Proof.
  intros K NZ NF IR RFi. unfold sl_frame. replace (sf_sid fr =? 0) with false by lia. rewrite K. cbn [fkind_eqb andb].
  rewrite NF, IR, RFi. reflexivity.
Qed.

Lemma cat_inflight_headers c fr :
  sf_kind fr = KHeaders -> sf_sid fr <> 0 ->
  (if sf_sid fr <=? sc_lastID c then strms_search (sc_strms c) (sf_sid fr) else None) = None ->
  in_ring c (sf_sid fr) = true -> ring_find c (sf_sid fr) = Some true ->
  sl_frame dec_field enc_set_max cfg c fr = discard_or_break (discard_header_block dec_field cfg c fr).
Proof.
  intros K NZ NF IR RFi. unfold sl_frame. replace (sf_sid fr =? 0) with false by lia. rewrite K. cbn [fkind_eqb andb].
  rewrite NF, IR, RFi. reflexivity.
Qed.

Lemma cat_inflight_continuation c fr :
  sf_kind fr = KCont -> sf_sid fr <> 0 -> sc_discardID c = sf_sid fr ->
  sl_frame dec_field enc_set_max cfg c fr = discard_or_break (discard_header_block dec_field cfg c fr).
Proof.
  intros K NZ ED. unfold sl_frame. replace (sf_sid fr =? 0) with false by lia. rewrite K, ED. cbn [fkind_eqb andb].
  replace (negb (sf_sid fr =? 0)) with true by (symmetry; apply negb_true_iff; lia). rewrite N.eqb_refl. reflexivity.
Qed.

(* ... and a block that is dropped either decodes (the decoder and the carry follow the reference) or ends the
   connection because it does NOT decode: there is no third way *)
Lemma cat_discard_outcome c fr :
  df_out dec_field (if fkind_eqb (sf_kind fr) KCont then c else upd_discard c (sc_discardID c) [] 0) (sf_sid fr) (sf_payload fr)
         (flag_has (sf_flags fr) FL_EH)
         (fst (discard_header_block dec_field cfg c fr)) (snd (discard_header_block dec_field cfg c fr)).
Proof. apply dd_discard_header_block. Qed.

End Cat.

(* ---------- the one exception: the header LIST limit is a connection error (known finding) ---------- *)
Section Limit.
Variable cfg : config.

(* the exception, decidable: a size (of the header list so far, or of a carried incomplete field) above a
   configured limit *)
Definition over_header_list_limit (size : Z) : bool := ((0 <? cf_maxHeaderList cfg) && (cf_maxHeaderList cfg <? size))%Z.

Definition field_size (k v : bytes) : Z := (Z.of_N (len k) + Z.of_N (len v) + 32)%Z.
Fixpoint fields_size (fs : list (bytes * bytes)) : Z :=
  match fs with [] => 0 | (k, v) :: t => field_size k v + fields_size t end%Z.
Lemma fields_size_nonneg fs : (0 <= fields_size fs)%Z.
Proof. induction fs as [|[k v] t IH]; cbn [fields_size]; unfold field_size; lia. Qed.
Lemma over_mono a b : (a <= b)%Z -> over_header_list_limit b = false -> over_header_list_limit a = false.
Proof. unfold over_header_list_limit. lia. Qed.

(* header_field raises a connection error exactly when the list is over the limit *)
Lemma header_field_goaway_iff h k v code :
  header_field cfg h k v = inl (EGoAway code) <->
  code = c_EnhanceYourCalm /\ over_header_list_limit (hd_headerListSize h + field_size k v) = true.
Proof.
  unfold header_field, over_header_list_limit, field_size. cbv zeta.
  replace (hd_headerListSize h + (Z.of_N (len k) + Z.of_N (len v) + 32))%Z with (hd_headerListSize h + Z.of_N (len k) + Z.of_N (len v) + 32)%Z by lia.
  destruct ((0 <? cf_maxHeaderList cfg)%Z && (cf_maxHeaderList cfg <? hd_headerListSize h + Z.of_N (len k) + Z.of_N (len v) + 32)%Z)%bool.
  - split; [intro H; inversion H; auto | intros [-> _]; reflexivity].
  - split; [|intros [_ H]; discriminate H].
    repeat match goal with
           | |- context [if ?b then _ else _] => destruct b
           | |- context [match parse_uint ?v with _ => _ end] => destruct (parse_uint v)
           end; intro H; discriminate H.
Qed.

Lemma header_field_size h k v h' : header_field cfg h k v = inr h' ->
  hd_headerListSize h' = (hd_headerListSize h + field_size k v)%Z.
Proof.
  unfold header_field, field_size.
  repeat match goal with
         | |- context [if ?b then _ else _] => destruct b
         | |- context [match parse_uint ?v with _ => _ end] => destruct (parse_uint v)
         end; intro H; inversion H; subst; cbn; lia.
Qed.

Variable hstate : Type.
Variable dec_field : hstate -> N -> bytes -> dec_res hstate.

(* the decoder consumes input: every decoded field takes at least one octet (for the real HPACK model:
   C03_next_field_progress) *)
Hypothesis dec_shrinks : forall d n b k v rest d', dec_field d n b = DField _ k v rest d' -> (length rest < length b)%nat.

Lemma ref_pre_len d n b fs d' n' rest : ref_pre dec_field d n b fs d' n' rest -> (length rest + length fs <= length b)%nat.
Proof using dec_shrinks.
  induction 1 as [|d n b k v rest0 dm fs d' n' rest' Hb E H IH]; cbn [length]; [lia|].
  pose proof (dec_shrinks _ _ _ _ _ _ _ E). lia.
Qed.
Lemma ref_run_len eh d n b fs d' n' carry : ref_run dec_field eh d n b fs d' n' carry -> (length fs <= length b)%nat.
Proof using dec_shrinks.
  induction 1 as [d n|d n b d' Hb E|d n b d' Hb He E|d n b k v rest dm fs d' n' carry Hb E H IH]; cbn [length]; try lia.
  pose proof (dec_shrinks _ _ _ _ _ _ _ E). lia.
Qed.

(* OUTSIDE THE EXCEPTION a header block that decodes never ends the connection: whatever is wrong with its fields is
   a stream error. The loop: *)
Lemma header_loop_not_fatal eh d n b fs d' n' carry :
  ref_run dec_field eh d n b fs d' n' carry ->
  forall fuel h, hd_blockFields h = n -> (length fs < fuel)%nat ->
  over_header_list_limit (hd_headerListSize h + fields_size fs) = false ->
  let r := header_loop dec_field fuel cfg eh d h b in
  snd (fst r) = None \/ exists code, snd (fst r) = Some (EReset code).
Proof.
  clear dec_shrinks.
  induction 1 as [d n|d n b d' Hb E|d n b d' Hb He E|d n b k v rest dm fs d' n' carry Hb E H IH];
    intros [|fuel] h Hn Hf OV; try (cbn [length] in Hf; lia); cbn [header_loop]; cbv zeta.
  - left. reflexivity.
  - destruct b; [congruence|]. rewrite Hn, E. left. reflexivity.
  - destruct b; [congruence|]. rewrite Hn, E, He. left. reflexivity.
  - destruct b; [congruence|]. rewrite Hn, E. cbn [fields_size] in OV.
    destruct (header_field cfg h k v) as [e|h1] eqn:HF.
    + cbn [fst snd]. destruct (header_field_err cfg _ _ _ _ HF) as [F|[code ->]]; [|right; eexists; reflexivity].
      exfalso. destruct e as [code|code|]; cbn [fatal_err] in F; [|destruct F|].
      * apply header_field_goaway_iff in HF. destruct HF as [_ HF].
        pose proof (fields_size_nonneg fs) as NN.
        assert (OK : over_header_list_limit (hd_headerListSize h + field_size k v) = false) by (eapply over_mono; [|exact OV]; lia).
        congruence.
      * unfold header_field in HF.
        repeat match type of HF with
               | context [if ?b then _ else _] => destruct b
               | context [match parse_uint ?v with _ => _ end] => destruct (parse_uint v)
               end; discriminate HF.
    + apply IH.
      * destruct (header_field_inr cfg _ _ _ _ HF) as (_ & B & _). lia.
      * cbn [length] in Hf. lia.
      * rewrite (header_field_size _ _ _ _ HF). rewrite <- OV. f_equal. lia.
Qed.

Lemma ref_run_split d n b fs1 d1 n1 rest : ref_pre dec_field d n b fs1 d1 n1 rest ->
  forall eh fs d' n' carry, ref_run dec_field eh d n b fs d' n' carry ->
  exists fs2, fs = fs1 ++ fs2 /\ ref_run dec_field eh d1 n1 rest fs2 d' n' carry.
Proof.
  clear dec_shrinks.
  induction 1 as [|d n b k v rest0 dm fs1 d1 n1 rest' Hb E H IH]; intros eh fs d' n' carry R; [exists fs; auto|].
  inversion R as [d0 n0|d0 n0 b0 d0' Hb0 E0|d0 n0 b0 d0' Hb0 He0 E0|d0 n0 b0 k0 v0 rest1 dm0 fs0 d0' n0' carry0 Hb0 E0 R0]; subst; try congruence.
  rewrite E in E0. inversion E0; subst. destruct (IH _ _ _ _ _ R0) as (fs2 & -> & R2). exists fs2. auto.
Qed.

(* ... and the frame: a HEADERS / CONTINUATION frame that is acceptable in its stream's state and whose fragment
   decodes, with the header list and the carried bytes within the limit, never gives a connection error *)
Theorem header_frame_not_fatal (c : sconn hstate) s fr fs d' n' carry' :
  is_hdr_kind (sf_kind fr) = true -> verify_state s fr = None -> rank_ok s fr -> trailer_ok s fr ->
  (fkind_eqb (sf_kind fr) KHeaders && (sf_dep fr =? st_id s))%bool = false ->
  ref_run dec_field (eh_of fr) (sc_dec c) (hn0 s fr) (hb0 s fr) fs d' n' carry' ->
  over_header_list_limit (st_headerListSize s + fields_size fs) = false ->
  over_header_list_limit (Z.of_N (len carry')) = false ->
  snd (handle_frame dec_field cfg c s fr) = None \/ exists code, snd (handle_frame dec_field cfg c s fr) = Some (EReset code).
Proof using dec_shrinks.
  intros HK V [RK _] TO DEP R OV OC.
  assert (HH : snd (handle_header_frame dec_field cfg c s fr) = None \/ exists code, snd (handle_header_frame dec_field cfg c s fr) = Some (EReset code)).
  { unfold handle_header_frame. unfold trailer_ok in TO. rewrite TO, DEP. cbv zeta.
    fold (hh1 s fr). change (hd_prev (get_hdr s) ++ sf_payload fr) with (hb0 s fr). change (flag_has (sf_flags fr) FL_EH) with (eh_of fr).
    pose proof (ref_run_len _ _ _ _ _ _ _ _ R) as LEN.
    pose proof (header_loop_not_fatal _ _ _ _ _ _ _ _ R (S (length (hb0 s fr))) (hh1 s fr) (hh1_bf s fr)) as NF.
    cbv zeta in NF.
    destruct (header_loop dec_field (S (length (hb0 s fr))) cfg (eh_of fr) (sc_dec c) (hh1 s fr) (hb0 s fr)) as [[[d1 h2] e0] rest] eqn:HL.
    cbn [fst snd] in NF. specialize (NF ltac:(lia) OV).
    pose proof (header_loop_ref _ dec_field cfg _ _ _ _ _ _ _ _ _ HL) as SP. unfold header_loop_spec in SP.
    destruct NF as [->|[code ->]].
    - destruct SP as (fs' & hF & carry'' & R' & HF & -> & _). rewrite hh1_bf in R'.
      destruct (ref_run_det _ dec_field _ _ _ _ _ _ _ _ _ _ _ _ R R') as (_ & _ & _ & <-).
      destruct (hfold_frame cfg _ _ _ HF) as (PV & _ & _). cbn [hh1 hd_prev] in PV.
      cbn [hd_set_prev hd_prev]. rewrite PV. cbn [app]. unfold over_header_list_limit in OC. rewrite OC. left. reflexivity.
    - destruct SP as [(fs1 & k & v & RP & HF & FE)|[_ []]]. rewrite hh1_bf in RP.
      destruct (ref_run_split _ _ _ _ _ _ _ RP _ _ _ _ _ R) as (fs2 & _ & R2).
      pose proof (ref_run_len _ _ _ _ _ _ _ _ R2) as LEN2.
      unfold discard_fragment. sc_cbn. cbn [app].
      rewrite (discard_loop_complete _ dec_field _ _ _ _ _ _ _ _ R2 (S (length rest))) by lia.
      destruct (eh_of fr); cbn [fst snd]; [right; eexists; reflexivity|].
      unfold over_header_list_limit in OC. rewrite OC. cbn [fst snd]. right. eexists. reflexivity. }
  unfold handle_frame. rewrite V. rewrite RK.
  assert (G : snd (let '(c1, s1, e) := handle_header_frame dec_field cfg c s fr in
        match e with
        | Some e => (c1, s1, Some e)
        | None =>
          if flag_has (sf_flags fr) FL_EH then
            let fin := match st_prev s1 with [] => true | _ => false end in
            let s2 := set_headers_finished s1 fin in
            if negb fin then (c1, s2, Some (EGoAway c_ProtocolError))
            else
              match validate_request_pseudo_headers s2 with
              | Some e => (c1, s2, Some e)
              | None => (c1, s2, None)
              end
          else (c1, s1, None)
        end) = None \/ exists code, snd (let '(c1, s1, e) := handle_header_frame dec_field cfg c s fr in
        match e with
        | Some e => (c1, s1, Some e)
        | None =>
          if flag_has (sf_flags fr) FL_EH then
            let fin := match st_prev s1 with [] => true | _ => false end in
            let s2 := set_headers_finished s1 fin in
            if negb fin then (c1, s2, Some (EGoAway c_ProtocolError))
            else
              match validate_request_pseudo_headers s2 with
              | Some e => (c1, s2, Some e)
              | None => (c1, s2, None)
              end
          else (c1, s1, None)
        end) = Some (EReset code)).
  { pose proof (handle_header_frame_spec _ dec_field cfg c s fr) as HS.
    destruct (handle_header_frame dec_field cfg c s fr) as [[c1 s1] e]. cbn [fst snd] in *.
    destruct HH as [->|[code ->]]; [|right; eexists; reflexivity].
    inversion HS as [| fs' hF d1 n1 carry1 TO' R' HF|]; subst.
    fold (eh_of fr). destruct (eh_of fr) eqn:EH; [|left; reflexivity].
    pose proof (ref_run_eh_carry _ _ _ _ _ _ _ _ _ R') as ->.
    cbn [set_hdr st_prev hd_set_prev hd_prev negb]. cbv zeta.
    destruct (validate_request_pseudo_headers _) as [e|] eqn:VR; [|left; reflexivity].
    apply validate_err in VR. subst e. right. eexists. reflexivity. }
  unfold is_hdr_kind in HK. destruct (sf_kind fr); try discriminate HK; exact G.
Qed.

End Limit.
