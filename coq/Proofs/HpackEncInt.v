(* C04, part 1: appendInt (hpack.go) writes the RFC 7541 5.1 integer representation.

   [aint p bits v] is what appendInt leaves in place of the last octet p of dst, as a pure
   function; [append_int_app] says so for every dst, every prefix size and every value (no
   hypothesis: this is also the no-panic and the "dst is only a prefix" argument), and
   [aint_is_spec] identifies it with [spec_enc_int] on the domain of the specification. *)
From Coq Require Import List NArith ZArith Bool Lia.
From Coq Require Import ZifyN ZifyNat ZifyBool.
From H2V Require Import Base.Bytes Base.MachineInt Base.Result Impl.Huffman Impl.Hpack Spec.Rfc7541.
Import ListNotations.
Local Open Scope N_scope.
Ltac Zify.zify_post_hook ::= Z.div_mod_to_equations.

(* ---- bit operations as arithmetic ---- *)

Lemma land_127 x : N.land x 127 = x mod 128.
Proof. change 127 with (N.ones 7). rewrite N.land_ones. reflexivity. Qed.

Lemma shiftr_7 x : N.shiftr x 7 = x / 128.
Proof. rewrite N.shiftr_div_pow2. reflexivity. Qed.

Lemma land_mul_pow2_low a b k : b < 2 ^ k -> N.land (a * 2 ^ k) b = 0.
Proof.
  intros H. apply N.bits_inj. intros n. rewrite N.land_spec, N.bits_0.
  destruct (N.lt_ge_cases n k) as [L|G].
  - rewrite N.mul_pow2_bits_low by assumption. reflexivity.
  - replace (N.testbit b n) with false; [apply andb_false_r|].
    symmetry. rewrite <- (N.mod_small b (2 ^ k)) by assumption.
    apply N.mod_pow2_bits_high. assumption.
Qed.

Lemma lor_mul_pow2_add a b k : b < 2 ^ k -> N.lor (a * 2 ^ k) b = a * 2 ^ k + b.
Proof.
  intros H. pose proof (land_mul_pow2_low a b k H) as L.
  rewrite (N.add_nocarry_lxor _ _ L). symmetry. apply N.lxor_lor. assumption.
Qed.

(* a multiple of 2^k or-ed with something below 2^k *)
Lemma lor_disjoint_add p b k : p mod 2 ^ k = 0 -> b < 2 ^ k -> N.lor p b = p + b.
Proof.
  intros Hp Hb.
  assert (2 ^ k <> 0) as Hk by (apply N.pow_nonzero; discriminate).
  assert (p = (p / 2 ^ k) * 2 ^ k) as E.
  { rewrite (N.div_mod p (2 ^ k) Hk) at 1. rewrite Hp. lia. }
  rewrite E. apply lor_mul_pow2_add. assumption.
Qed.

Lemma lor_128_low x : x < 128 -> N.lor 128 x = 128 + x.
Proof. intros H. apply (lor_disjoint_add 128 x 7); [reflexivity | exact H]. Qed.

Lemma u8_small x : x < 256 -> u8 x = x.
Proof. intros H. unfold u8, wrap. apply N.mod_small. exact H. Qed.

Lemma u8_lt x : u8 x < 256.
Proof. unfold u8, wrap. apply N.mod_lt. discriminate. Qed.

(* ---- dst[len(dst)-1] |= v and &= v ---- *)

Lemma or_last_snoc pre x v : or_last (pre ++ [x]) v = Ok (pre ++ [N.lor x v]).
Proof.
  unfold or_last. rewrite rev_app_distr. cbn [rev app].
  rewrite rev_involutive. reflexivity.
Qed.

Lemma and_last_snoc pre x v : and_last (pre ++ [x]) v = Ok (pre ++ [N.land x v]).
Proof.
  unfold and_last. rewrite rev_app_distr. cbn [rev app].
  rewrite rev_involutive. reflexivity.
Qed.

(* ---- the continuation loop as a pure function ---- *)

(* the octets the loop appends *)
Fixpoint cont_bytes (fuel : nat) (index : N) : bytes :=
  if index =? 0 then []
  else match fuel with
       | O => []
       | S f => N.lor 128 (u8 (N.land index 127)) :: cont_bytes f (N.shiftr index 7)
       end.

(* the same with the last octet masked by 127 (index <> 0) *)
Fixpoint cont_masked (fuel : nat) (index : N) : bytes :=
  match fuel with
  | O => []
  | S f =>
      if N.shiftr index 7 =? 0 then [N.land (N.lor 128 (u8 (N.land index 127))) 127]
      else N.lor 128 (u8 (N.land index 127)) :: cont_masked f (N.shiftr index 7)
  end.

Lemma append_int_loop_pure : forall fuel dst index, index < 2 ^ (7 * N.of_nat fuel) ->
  append_int_loop fuel dst index = Ok (dst ++ cont_bytes fuel index).
Proof.
  induction fuel as [|f IH]; intros dst index H.
  - change (2 ^ (7 * N.of_nat 0)) with 1 in H. assert (index = 0) as -> by lia.
    cbn. rewrite app_nil_r. reflexivity.
  - cbn [append_int_loop cont_bytes]. destruct (index =? 0) eqn:E.
    + rewrite app_nil_r. reflexivity.
    + rewrite IH.
      * rewrite <- app_assoc. reflexivity.
      * rewrite shiftr_7.
        replace (7 * N.of_nat (S f)) with (7 + 7 * N.of_nat f) in H by lia.
        rewrite N.pow_add_r in H. change (2 ^ 7) with 128 in H.
        apply N.div_lt_upper_bound; [discriminate | exact H].
Qed.

Lemma cont_split : forall fuel index, index <> 0 -> index < 2 ^ (7 * N.of_nat fuel) ->
  exists pre x, cont_bytes fuel index = pre ++ [x] /\ cont_masked fuel index = pre ++ [N.land x 127].
Proof.
  induction fuel as [|f IH]; intros index Hnz H.
  - change (2 ^ (7 * N.of_nat 0)) with 1 in H. lia.
  - cbn [cont_bytes cont_masked]. apply N.eqb_neq in Hnz. rewrite Hnz.
    destruct (N.shiftr index 7 =? 0) eqn:E.
    + apply N.eqb_eq in E. rewrite E.
      exists [], (N.lor 128 (u8 (N.land index 127))). split; [|reflexivity].
      destruct f; reflexivity.
    + apply N.eqb_neq in E.
      destruct (IH (N.shiftr index 7) E) as [pre [x [E1 E2]]].
      * rewrite shiftr_7.
        replace (7 * N.of_nat (S f)) with (7 + 7 * N.of_nat f) in H by lia.
        rewrite N.pow_add_r in H. change (2 ^ 7) with 128 in H.
        apply N.div_lt_upper_bound; [discriminate | exact H].
      * exists (N.lor 128 (u8 (N.land index 127)) :: pre), x. rewrite E1, E2. split; reflexivity.
Qed.

(* ---- appendInt as a pure function of the last octet ---- *)

Definition aint (p bits v : N) : bytes :=
  let b0 := subw 64 (shlw 64 1 bits) 1 in
  if v <? b0 then [N.lor p (u8 v)]
  else
    let i := subw 64 v b0 in
    N.lor p (u8 b0) :: (if i =? 0 then [0] else cont_masked 11 i).

Lemma subw64_lt a b : subw 64 a b < 2 ^ 64.
Proof. unfold subw. apply N.mod_lt. discriminate. Qed.

Theorem append_int_app dst p bits v : append_int (dst ++ [p]) bits v = Ok (dst ++ aint p bits v).
Proof.
  unfold append_int, aint.
  replace (match dst ++ [p] with [] => [0] | _ :: _ => dst ++ [p] end) with (dst ++ [p])
    by (destruct dst; reflexivity).
  set (b0 := subw 64 (shlw 64 1 bits) 1).
  destruct (v <? b0).
  - apply or_last_snoc.
  - rewrite or_last_snoc. cbn [bind].
    set (i := subw 64 v b0).
    destruct (i =? 0) eqn:E.
    + rewrite <- app_assoc. reflexivity.
    + apply N.eqb_neq in E.
      assert (i < 2 ^ (7 * N.of_nat 11)) as Hi.
      { apply N.lt_trans with (2 ^ 64); [apply subw64_lt|]. apply N.pow_lt_mono_r; lia. }
      rewrite append_int_loop_pure by exact Hi. cbn [bind].
      destruct (cont_split 11 i E Hi) as [pre [x [E1 E2]]].
      rewrite E1, E2.
      replace ((dst ++ [N.lor p (u8 b0)]) ++ pre ++ [x]) with ((dst ++ N.lor p (u8 b0) :: pre) ++ [x])
        by (rewrite <- !app_assoc; reflexivity).
      rewrite and_last_snoc. rewrite <- !app_assoc. reflexivity.
Qed.

Lemma aint_nonempty p bits v : exists x tl, aint p bits v = x :: tl.
Proof.
  unfold aint. destruct (v <? _); eexists; eexists; reflexivity.
Qed.

(* appendInt with an empty dst: dst = append(dst, 0) *)
Lemma append_int_nil bits v : append_int [] bits v = Ok (aint 0 bits v).
Proof. exact (append_int_app [] 0 bits v). Qed.

(* ---- ... and the specification ---- *)

Lemma pos_size_nat_gt p : N.pos p < 2 ^ N.of_nat (Pos.size_nat p).
Proof.
  induction p as [p IH|p IH|]; cbn [Pos.size_nat].
  - rewrite Nat2N.inj_succ, N.pow_succ_r'. lia.
  - rewrite Nat2N.inj_succ, N.pow_succ_r'. lia.
  - reflexivity.
Qed.

Lemma size_nat_gt n : n < 2 ^ N.of_nat (N.size_nat n).
Proof. destruct n as [|p]; [reflexivity | apply pos_size_nat_gt]. Qed.

Lemma cont_masked_enc : forall f1 f2 i, 0 < i -> i < 2 ^ (7 * N.of_nat f1) -> i < 2 ^ N.of_nat f2 ->
  cont_masked f1 i = enc_cont f2 i.
Proof.
  induction f1 as [|f1 IH]; intros f2 i Hpos H1 H2.
  - change (2 ^ (7 * N.of_nat 0)) with 1 in H1. lia.
  - destruct f2 as [|f2]; [change (2 ^ N.of_nat 0) with 1 in H2; lia|].
    cbn [cont_masked enc_cont]. rewrite shiftr_7, !land_127.
    assert (i mod 128 < 128) as Hm by (apply N.mod_lt; discriminate).
    rewrite (u8_small (i mod 128)) by lia.
    rewrite lor_128_low by exact Hm.
    destruct (i <? 128) eqn:E.
    + apply N.ltb_lt in E. rewrite N.div_small by exact E. cbn [N.eqb].
      f_equal. rewrite (N.mod_small i 128) by exact E.
      rewrite <- N.add_mod_idemp_l by discriminate. change (128 mod 128) with 0.
      rewrite N.add_0_l. apply N.mod_small. exact E.
    + apply N.ltb_ge in E.
      assert (0 < i / 128) as Hq by (apply N.div_str_pos; lia).
      replace (i / 128 =? 0) with false by (symmetry; apply N.eqb_neq; lia).
      rewrite (N.add_comm 128). f_equal.
      apply IH.
      * exact Hq.
      * replace (7 * N.of_nat (S f1)) with (7 + 7 * N.of_nat f1) in H1 by lia.
        rewrite N.pow_add_r in H1. change (2 ^ 7) with 128 in H1.
        apply N.div_lt_upper_bound; [discriminate | exact H1].
      * rewrite Nat2N.inj_succ, N.pow_succ_r' in H2.
        apply N.div_lt_upper_bound; [discriminate|]. lia.
Qed.

Lemma b0_value bits : bits < 64 -> subw 64 (shlw 64 1 bits) 1 = 2 ^ bits - 1.
Proof.
  intros H. unfold subw, shlw, wrap. rewrite N.shiftl_1_l.
  assert (2 ^ bits < 2 ^ 64) as Hlt by (apply N.pow_lt_mono_r; lia).
  assert (0 < 2 ^ bits) as Hpos by (apply N.neq_0_lt_0, N.pow_nonzero; discriminate).
  rewrite (N.mod_small (2 ^ bits)) by exact Hlt.
  change (1 mod 2 ^ 64) with 1.
  replace (2 ^ bits + 2 ^ 64 - 1) with ((2 ^ bits - 1) + 1 * 2 ^ 64) by lia.
  rewrite N.mod_add by discriminate. apply N.mod_small. lia.
Qed.

Theorem aint_is_spec bits pattern v :
  1 <= bits <= 8 -> pattern < 256 -> pattern mod 2 ^ bits = 0 -> v < 2 ^ 64 ->
  aint pattern bits v = spec_enc_int bits pattern v.
Proof.
  intros Hb Hp Hm Hv. unfold aint, spec_enc_int.
  rewrite b0_value by lia.
  assert (2 ^ bits <= 2 ^ 8) as Hle by (apply N.pow_le_mono_r; lia).
  change (2 ^ 8) with 256 in Hle.
  assert (0 < 2 ^ bits) as Hpos by (apply N.neq_0_lt_0, N.pow_nonzero; discriminate).
  destruct (v <? 2 ^ bits - 1) eqn:E.
  - apply N.ltb_lt in E. rewrite u8_small by lia.
    rewrite (lor_disjoint_add pattern v bits) by (assumption || lia). reflexivity.
  - apply N.ltb_ge in E. rewrite u8_small by lia.
    rewrite (lor_disjoint_add pattern (2 ^ bits - 1) bits) by (assumption || lia).
    f_equal.
    assert (subw 64 v (2 ^ bits - 1) = v - (2 ^ bits - 1)) as ->.
    { unfold subw. rewrite (N.mod_small (2 ^ bits - 1)) by (change (2 ^ 64) with 18446744073709551616; lia).
      replace (v + 2 ^ 64 - (2 ^ bits - 1)) with ((v - (2 ^ bits - 1)) + 1 * 2 ^ 64) by lia.
      rewrite N.mod_add by discriminate. apply N.mod_small. lia. }
    set (i := v - (2 ^ bits - 1)).
    destruct (i =? 0) eqn:Ei.
    + apply N.eqb_eq in Ei. rewrite Ei. reflexivity.
    + apply N.eqb_neq in Ei. apply cont_masked_enc.
      * lia.
      * apply N.lt_trans with (2 ^ 64); [lia|]. apply N.pow_lt_mono_r; lia.
      * rewrite Nat2N.inj_succ, N.pow_succ_r'. pose proof (size_nat_gt i). lia.
Qed.

(* C04_append_int_is_spec *)
Theorem append_int_is_spec : forall bits pattern v,
  1 <= bits <= 8 -> pattern < 256 -> pattern mod 2 ^ bits = 0 -> v < 2 ^ 64 ->
  append_int [pattern] bits v = Ok (spec_enc_int bits pattern v).
Proof.
  intros bits pattern v Hb Hp Hm Hv.
  rewrite <- (aint_is_spec bits pattern v Hb Hp Hm Hv).
  exact (append_int_app [] pattern bits v).
Qed.
