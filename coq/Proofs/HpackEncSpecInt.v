(* Specification-level facts about RFC 7541 5.1 integers and the length of Huffman-coded strings:
   [spec_dec_int] inverts [spec_enc_int] (whatever follows), and [spec_encode s] is at most
   30/8 of s. Nothing here mentions the implementation model of hpack.go. *)
From Coq Require Import List NArith ZArith Bool Lia.
From Coq Require Import ZifyN ZifyNat ZifyBool.
From H2V Require Import Base.Bytes Spec.Rfc7541Huffman Spec.Rfc7541
     Proofs.HuffmanBits Proofs.HuffmanTable Proofs.HuffmanEncode Proofs.HuffmanDecode.
Import ListNotations.
Local Open Scope N_scope.
Ltac Zify.zify_post_hook ::= Z.div_mod_to_equations.

(* ---- 5.1 ---- *)

Lemma pos_size_nat_gt' p : N.pos p < 2 ^ N.of_nat (Pos.size_nat p).
Proof.
  induction p as [p IH|p IH|]; cbn [Pos.size_nat].
  - rewrite Nat2N.inj_succ, N.pow_succ_r'. lia.
  - rewrite Nat2N.inj_succ, N.pow_succ_r'. lia.
  - reflexivity.
Qed.

Lemma size_nat_gt' n : n < 2 ^ N.of_nat (N.size_nat n).
Proof. destruct n as [|p]; [reflexivity | apply pos_size_nat_gt']. Qed.

Lemma pow7S a : 2 ^ (7 * N.of_nat (S a)) = 128 * 2 ^ (7 * N.of_nat a).
Proof.
  replace (7 * N.of_nat (S a)) with (7 + 7 * N.of_nat a) by lia.
  rewrite N.pow_add_r. reflexivity.
Qed.

Lemma dec_cont_cons a x rest m : dec_cont (S a) (x :: rest) m =
  if x <? 128 then Some (x * 2 ^ m, rest)
  else match dec_cont a rest (m + 7) with
       | Some (v, r) => Some ((x - 128) * 2 ^ m + v, r)
       | None => None
       end.
Proof. reflexivity. Qed.

Lemma dec_enc_cont : forall a f w m rest,
  w < 2 ^ (7 * N.of_nat (S a)) -> w < 2 ^ N.of_nat (S f) ->
  dec_cont (S a) (enc_cont (S f) w ++ rest) m = Some (w * 2 ^ m, rest).
Proof.
  induction a as [|a IH]; intros f w m rest H1 H2.
  - change (2 ^ (7 * N.of_nat 1)) with 128 in H1.
    cbn [enc_cont]. apply N.ltb_lt in H1. rewrite H1. cbn [app]. rewrite dec_cont_cons, H1. reflexivity.
  - cbn [enc_cont]. destruct (w <? 128) eqn:E.
    + cbn [app]. rewrite dec_cont_cons, E. reflexivity.
    + apply N.ltb_ge in E.
      assert (w mod 128 < 128) as Hm by (apply N.mod_lt; discriminate).
      destruct f as [|f].
      { change (2 ^ N.of_nat 1) with 2 in H2. lia. }
      cbn [app]. rewrite dec_cont_cons.
      replace (w mod 128 + 128 <? 128) with false by (symmetry; apply N.ltb_ge; lia).
      rewrite IH.
      * f_equal. f_equal. rewrite N.add_sub, N.pow_add_r. change (2 ^ 7) with 128.
        rewrite (N.div_mod w 128) at 3 by discriminate. ring.
      * rewrite pow7S in H1. apply N.div_lt_upper_bound; [discriminate | exact H1].
      * rewrite Nat2N.inj_succ, N.pow_succ_r' in H2.
        apply N.div_lt_upper_bound; [discriminate|]. lia.
Qed.

Lemma mod_pattern_add pat v n : pat mod 2 ^ n = 0 -> v < 2 ^ n -> (pat + v) mod 2 ^ n = v.
Proof.
  intros Hp Hv. assert (2 ^ n <> 0) as Hk by (apply N.pow_nonzero; discriminate).
  rewrite <- N.add_mod_idemp_l by exact Hk. rewrite Hp, N.add_0_l. apply N.mod_small. exact Hv.
Qed.

Theorem spec_dec_enc_int n pat v rest :
  pat mod 2 ^ n = 0 -> v < 2 ^ 63 ->
  spec_dec_int n (spec_enc_int n pat v ++ rest) = Some (v, rest).
Proof.
  intros Hp Hv. unfold spec_enc_int.
  assert (0 < 2 ^ n) as Hpos by (apply N.neq_0_lt_0, N.pow_nonzero; discriminate).
  destruct (v <? 2 ^ n - 1) eqn:E.
  - cbn [app spec_dec_int]. apply N.ltb_lt in E.
    rewrite mod_pattern_add by (assumption || lia).
    apply N.ltb_lt in E. rewrite E. reflexivity.
  - cbn [app spec_dec_int]. apply N.ltb_ge in E.
    rewrite mod_pattern_add by (assumption || lia).
    rewrite N.ltb_irrefl.
    set (w := v - (2 ^ n - 1)).
    unfold max_cont_octets. rewrite dec_enc_cont.
    + f_equal. f_equal. change (2 ^ 0) with 1. lia.
    + apply N.le_lt_trans with v; [lia|]. exact Hv.
    + apply N.lt_le_trans with (2 ^ N.of_nat (N.size_nat w)); [apply size_nat_gt'|].
      apply N.pow_le_mono_r; lia.
Qed.

(* the first octet carries the pattern: what the dispatch on the first octet looks at *)
Lemma spec_enc_int_head n pat v :
  exists x tl, spec_enc_int n pat v = x :: tl /\
               (x = pat + v /\ v < 2 ^ n - 1 \/ x = pat + (2 ^ n - 1)).
Proof.
  unfold spec_enc_int. destruct (v <? 2 ^ n - 1) eqn:E.
  - apply N.ltb_lt in E. eexists; eexists; split; [reflexivity|]. left. split; [reflexivity | exact E].
  - eexists; eexists; split; [reflexivity|]. right. reflexivity.
Qed.

Lemma spec_enc_int_head_range n pat v x tl : 0 < n ->
  spec_enc_int n pat v = x :: tl -> pat <= x < pat + 2 ^ n.
Proof.
  intros Hn H. destruct (spec_enc_int_head n pat v) as [x' [tl' [E R]]].
  rewrite H in E. injection E as -> ->.
  assert (0 < 2 ^ n) as Hpos by (apply N.neq_0_lt_0, N.pow_nonzero; discriminate).
  destruct R as [[-> L] | ->]; lia.
Qed.

(* ---- 5.2: length of a Huffman-coded string ---- *)

Lemma code_string_length_le t : bytes_ok t = true -> (length (code_string t) <= 30 * length t)%nat.
Proof.
  induction t as [|a t IH]; intros H; [simpl; lia|].
  cbn [bytes_ok forallb] in H. apply andb_prop in H. destruct H as [Ha Ht].
  apply N.ltb_lt in Ha. fold (bytes_ok t) in Ht.
  rewrite code_string_cons, app_length. pose proof (code_bits_len_bounds a Ha).
  specialize (IH Ht). simpl length. lia.
Qed.

Lemma spec_encode_length s : bytes_ok s = true -> (length (spec_encode s) <= 4 * length s)%nat.
Proof.
  intros H. pose proof (code_string_length_le s H) as L.
  pose proof (f_equal (@length bool) (spec_encode_bits s)) as E.
  rewrite bytes_bits_length, app_length, ones_length in E.
  destruct (pad_len_props (length (code_string s))) as [P1 P2].
  destruct s as [|a s]; [reflexivity|]. simpl length in *. lia.
Qed.

Lemma spec_encode_len s : bytes_ok s = true -> len (spec_encode s) <= 4 * len s.
Proof. intros H. pose proof (spec_encode_length s H). unfold len. lia. Qed.
