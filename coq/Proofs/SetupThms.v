(* Theorems about the server's configuration glue and handshake (Impl/ServerSetup.v): for EVERY user configuration. *)
From Coq Require Import List NArith ZArith Bool Lia.
From H2V Require Import Base.Bytes Base.MachineInt Base.Result Gen.GenConsts Gen.GenSetup Impl.Frames Impl.ServerConn Impl.ServerSetup.
Import ListNotations.
Local Open Scope Z_scope.

Definition two32 : Z := 4294967296.

Lemma to_u32_small z : 0 <= z < two32 -> Z.of_N (to_u32 z) = z.
Proof. intro H. unfold to_u32. rewrite Z.mod_small by exact H. apply Z2N.id. lia. Qed.

Lemma configure_streams ac u :
  fst (srv_configure ac u) = if ac || (su_maxStreams u <=? 0) then c_srvDefaultMaxStreams else su_maxStreams u.
Proof. unfold srv_configure, srv_defaults. destruct ac; cbn [orb fst]; [reflexivity|]. destruct (su_maxStreams u <=? 0); reflexivity. Qed.

Lemma configure_header_list ac u :
  snd (srv_configure ac u) = if ac || (su_maxHeaderList u =? 0) then c_srvDefaultMaxHeaderListSize else su_maxHeaderList u.
Proof. unfold srv_configure, srv_defaults. destruct ac; cbn [orb snd]; [reflexivity|]. destruct (su_maxHeaderList u =? 0); reflexivity. Qed.

Lemma own_settings_streams ac u : st_maxStreams (srv_own_settings ac u) = to_u32 (fst (srv_configure ac u)).
Proof. unfold srv_own_settings. destruct (srv_configure ac u) as [ms hl]. cbn [fst]. destruct (0 <? hl); reflexivity. Qed.

Lemma own_settings_window ac u : st_windowSize (srv_own_settings ac u) = to_u32 srv_max_window.
Proof. unfold srv_own_settings. destruct (srv_configure ac u) as [ms hl]. destruct (0 <? hl); reflexivity. Qed.

Lemma own_settings_header ac u :
  st_headerSize (srv_own_settings ac u) = if 0 <? snd (srv_configure ac u) then to_u32 (snd (srv_configure ac u)) else 0%N.
Proof. unfold srv_own_settings. destruct (srv_configure ac u) as [ms hl]. cbn [snd]. destruct (0 <? hl); reflexivity. Qed.

Lemma own_settings_rest ac u : let st := srv_own_settings ac u in
  st_ack st = false /\ st_tableSize st = c_defaultHeaderTableSize /\ st_enablePush st = false /\ st_frameSize st = c_defaultDataFrameSize.
Proof. cbv zeta. unfold srv_own_settings. destruct (srv_configure ac u) as [ms hl]. destruct (0 <? hl); cbn; auto. Qed.

(* ---- the stream limit: what a user gets, and that it is never zero for want of configuration ---- *)
Theorem setup_streams ac u : su_maxStreams u < two32 ->
  cf_maxStreams (srv_serve_config ac u) = (if ac || (su_maxStreams u <=? 0) then c_srvDefaultMaxStreams else su_maxStreams u) /\
  1 <= cf_maxStreams (srv_serve_config ac u).
Proof.
  intro B. unfold srv_serve_config. pose proof (own_settings_streams ac u) as S. pose proof (configure_streams ac u) as C.
  destruct (srv_configure ac u) as [ms hl] eqn:E. cbn [cf_maxStreams fst] in *. rewrite S, C.
  destruct (ac || (su_maxStreams u <=? 0)) eqn:D.
  - split; [reflexivity|]. vm_compute. discriminate.
  - apply orb_false_iff in D. destruct D as [_ D]. apply Z.leb_gt in D. rewrite to_u32_small by (unfold two32 in *; lia). lia.
Qed.

(* without the bound the Go conversion uint32(int) bites: 2^32 streams configured, none allowed *)
Example setup_streams_wraps : cf_maxStreams (srv_serve_config false (mkSrvUser two32 0 0 0)) = 0.
Proof. vm_compute. reflexivity. Qed.

(* ---- the header list limit: zero means the default (the CONTINUATION flood guard is on unless switched off) ---- *)
Theorem setup_header_list ac u :
  cf_maxHeaderList (srv_serve_config ac u) =
    (if ac || (su_maxHeaderList u =? 0) then c_srvDefaultMaxHeaderListSize else su_maxHeaderList u) /\
  (0 <= su_maxHeaderList u \/ ac = true -> 0 < cf_maxHeaderList (srv_serve_config ac u)).
Proof.
  unfold srv_serve_config. pose proof (configure_header_list ac u) as C.
  destruct (srv_configure ac u) as [ms hl] eqn:E. cbn [cf_maxHeaderList snd] in *. rewrite C. split; [reflexivity|].
  intro H. destruct ac; cbn [orb]; [vm_compute; reflexivity|]. destruct H as [H|H]; [|discriminate].
  destruct (su_maxHeaderList u =? 0) eqn:Z; [vm_compute; reflexivity|]. apply Z.eqb_neq in Z. lia.
Qed.

Theorem setup_body ac u : cf_maxBody (srv_serve_config ac u) = (if 0 <? su_maxBody u then su_maxBody u else c_fasthttpDefaultMaxBody) /\
  0 < cf_maxBody (srv_serve_config ac u).
Proof.
  unfold srv_serve_config. destruct (srv_configure ac u) as [ms hl]. cbn [cf_maxBody]. unfold srv_max_body. split; [reflexivity|].
  destruct (0 <? su_maxBody u) eqn:D; [apply Z.ltb_lt in D; exact D | vm_compute; reflexivity].
Qed.

(* ---- advertised = enforced: every value of the handshake's SETTINGS frame is the one the connection enforces ---- *)
Theorem setup_announced_is_enforced ac u : su_maxStreams u < two32 -> su_maxHeaderList u < two32 ->
  let cfg := srv_serve_config ac u in
  srv_announced ac u =
    [(c_EnablePush, 0%N); (c_MaxConcurrentStreams, Z.to_N (cf_maxStreams cfg)); (c_MaxWindowSize, Z.to_N (cf_maxWindow cfg))]
    ++ (if 0 <? cf_maxHeaderList cfg then [(c_MaxHeaderListSize, Z.to_N (cf_maxHeaderList cfg))] else []).
Proof.
  intros B1 B2. cbv zeta. unfold srv_announced, srv_serve_config.
  pose proof (own_settings_streams ac u) as S. pose proof (own_settings_window ac u) as W. pose proof (own_settings_header ac u) as Hd.
  pose proof (configure_header_list ac u) as C.
  destruct (srv_configure ac u) as [ms hl] eqn:E. cbn [cf_maxStreams cf_maxWindow cf_maxHeaderList fst snd] in *.
  rewrite N2Z.id. rewrite W. f_equal. rewrite Hd.
  destruct (0 <? hl) eqn:P; [|reflexivity]. apply Z.ltb_lt in P.
  assert (hl < two32).
  { rewrite C. destruct (ac || (su_maxHeaderList u =? 0)); [vm_compute; reflexivity | exact B2]. }
  assert (Q : Z.of_N (to_u32 hl) = hl) by (apply to_u32_small; lia).
  assert (NZ : (to_u32 hl =? 0)%N = false). { apply N.eqb_neq. intro X. rewrite X in Q. cbn in Q. lia. }
  rewrite NZ. cbn [negb]. rewrite <- Q at 2. rewrite N2Z.id. reflexivity.
Qed.

(* ---- the bytes of the handshake ---- *)
Definition entries (l : list (N * N)) : bytes := flat_map (fun kv => setting_entry (fst kv) (snd kv)) l.

Lemma encode_own ac u : settings_encode (srv_own_settings ac u) = entries (srv_announced ac u).
Proof.
  unfold settings_encode, srv_announced, entries. destruct (own_settings_rest ac u) as (_ & T & P & F).
  rewrite T, P, F, (own_settings_window ac u). rewrite N.eqb_refl.
  replace (to_u32 srv_max_window =? c_defaultWindowSize)%N with false by (vm_compute; reflexivity).
  replace (c_defaultDataFrameSize =? 0)%N with false by (vm_compute; reflexivity).
  rewrite N.eqb_refl. cbn [negb andb].
  destruct (st_headerSize (srv_own_settings ac u) =? 0)%N; cbn [negb flat_map app fst snd]; rewrite ?app_nil_r, <- ?app_assoc; reflexivity.
Qed.

Theorem setup_handshake_bytes ac u : (len (entries (srv_announced ac u)) < 2 ^ 24)%N ->
  srv_handshake_bytes ac u =
    Ok (uint24_to_bytes (len (entries (srv_announced ac u))) ++ [4%N; 0%N; 0%N; 0%N; 0%N; 0%N] ++ entries (srv_announced ac u)
        ++ [0%N; 0%N; 4%N; 8%N; 0%N; 0%N; 0%N; 0%N; 0%N] ++ [0%N; 64%N; 0%N; 0%N]).
Proof.
  intro L. unfold srv_handshake_bytes, write_to, build. cbn [set_body set_stream set_flags fh_body acquire_header].
  destruct (own_settings_rest ac u) as (A & _). cbn [serialize]. cbn [fh_flags set_flags].
  rewrite A. cbn [with_flag]. rewrite (encode_own ac u).
  set (E := entries (srv_announced ac u)) in *.
  cbn -[E uint24_to_bytes len N.pow]. unfold parse_header_bytes. cbn -[E uint24_to_bytes len N.pow].
  f_equal. rewrite <- !app_assoc. cbn -[E uint24_to_bytes len N.pow].
  replace (u32 (len E)) with (len E); [reflexivity|]. unfold u32. symmetry. apply N.mod_small. cbn in L |- *. lia.
Qed.

(* the announced list has three or four entries: the bound above always holds *)
Lemma announced_len ac u : (len (entries (srv_announced ac u)) < 2 ^ 24)%N.
Proof.
  unfold srv_announced, entries. destruct (negb (st_headerSize (srv_own_settings ac u) =? 0)%N); cbn; lia.
Qed.

(* the WINDOW_UPDATE of the handshake: never 0, never above 2^31-1 *)
Theorem setup_window_update : 0 < srv_max_window <= 2147483647 /\ forall ac u, cf_maxWindow (srv_serve_config ac u) = srv_max_window.
Proof. split; [vm_compute; split; [reflexivity|discriminate]|]. intros ac u. unfold srv_serve_config. destruct (srv_configure ac u); reflexivity. Qed.

(* ---- examples ---- *)
Example ex_and_config : srv_serve_config true (mkSrvUser 0 0 0 0) =
  {| cf_maxStreams := 1024; cf_maxHeaderList := 1048576; cf_maxBody := 4194304; cf_maxRequestTime := 0; cf_maxWindow := 4194304 |}.
Proof. vm_compute. reflexivity. Qed.

Example ex_announced : srv_announced false (mkSrvUser 0 400 0 0) = [(2%N, 0%N); (3%N, 1024%N); (4%N, 4194304%N); (6%N, 400%N)].
Proof. vm_compute. reflexivity. Qed.
