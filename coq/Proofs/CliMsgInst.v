(* Proofs/CliMsgInst.v - C02 / C20 (client): the theorems of Proofs/CliMsgThm.v, CliMsgIds.v for the client instantiated
   with the real HPACK model (Impl/ClientInst.v), in the vocabulary of Proofs/CliDefs.v; sample runs. *)
From H2V Require Import Base.Bytes Base.MachineInt Base.Result Gen.GenConsts Impl.Hpack Impl.ServerConn Impl.ServerInst
  Impl.ClientConn Impl.ClientInst Spec.Http2Messages Spec.Http2Responses Proofs.CliBase Proofs.CliDefs Proofs.SrvIsoRef
  Proofs.CliMsgRef Proofs.CliMsgAuto Proofs.CliMsgMoves Proofs.CliMsgDisp Proofs.CliMsgStep Proofs.CliMsgInv Proofs.CliMsgFeed
  Proofs.CliMsgRun Proofs.CliMsgIds Proofs.CliMsgThm Proofs.CliMsgReq.
From Coq Require Import ZArith Lia ZifyN ZifyNat ZifyBool List Sorted String.
Local Open Scope string_scope.
Import ListNotations.
Local Open Scope N_scope.

(* ---------- the instance ---------- *)
Definition cli_ghost (cfg : cl_config) (first : bytes) (evs : list cevent) : gst :=
  cl_ghost cli_dec_field cli_enc_field set_max_table_size cfg cli_init_hpack first evs.
(* what has been received on stream id: complete header blocks (decoded by the reference decoder, in the one
   connection-wide context) and DATA frames, in order *)
Definition cli_items (cfg : cl_config) (first : bytes) (evs : list cevent) (id : N) : list ritem :=
  own id (g_items (cli_ghost cfg first evs)).
Definition cli_never_idle (cfg : cl_config) (first : bytes) (evs : list cevent) : Prop :=
  never_idle cli_dec_field cli_enc_field set_max_table_size cfg cli_init_hpack first evs.
Definition cli_never_idleb (cfg : cl_config) (first : bytes) (evs : list cevent) : bool :=
  never_idleb cli_dec_field cli_enc_field set_max_table_size cfg cli_init_hpack first evs.
Definition cli_takens (cfg : cl_config) (first : bytes) (evs : list cevent) : list sframe :=
  cl_takens cli_dec_field cli_enc_field set_max_table_size cfg cli_init_hpack first evs.

Lemma cli_never_idleb_ok cfg first evs : cli_never_idleb cfg first evs = true -> cli_never_idle cfg first evs.
Proof. apply never_idleb_ok. Qed.

Lemma header_ids_hdr_ids tr : header_ids tr = hdr_ids tr.
Proof.
  unfold header_ids, headers_of, hdr_ids. induction tr as [|o t IH]; [reflexivity|]. cbn [flat_map]. rewrite map_app, IH.
  destruct o; reflexivity.
Qed.

(* ---------- C02 (a) ---------- *)
Theorem cli_stream_ids cfg first evs :
  exists k, header_ids (cli_tr cfg first evs) = odds k /\ (2 * N.of_nat k <= cl_maxStreamID + 1).
Proof.
  destruct (stream_ids cli_dec_field cli_enc_field set_max_table_size cfg cli_init_hpack first evs) as (k & A & B & _).
  exists k. split; [rewrite header_ids_hdr_ids; exact A | exact B].
Qed.

Lemma sorted_snoc (l : list N) a : StronglySorted N.lt l -> Forall (fun b => b < a) l -> StronglySorted N.lt (l ++ [a]).
Proof.
  induction l as [|b l IH]; intros S F; cbn [app]; [constructor; constructor|].
  inversion S; subst. inversion F; subst. constructor; [apply IH; assumption|].
  apply Forall_app. split; [assumption | constructor; [assumption | constructor]].
Qed.

Lemma odds_sorted k : StronglySorted N.lt (odds k) /\ Forall (fun id => N.odd id = true /\ id < 2 * N.of_nat k) (odds k).
Proof.
  induction k as [|k [IH1 IH2]]; [split; constructor|]. rewrite odds_S. split.
  - apply sorted_snoc; [exact IH1|]. eapply Forall_impl; [|exact IH2]. intros a [_ B]. lia.
  - apply Forall_app. split.
    + eapply Forall_impl; [|exact IH2]. intros a [A B]. split; [exact A | lia].
    + constructor; [|constructor]. split; [|lia]. rewrite N.add_comm, N.odd_add_mul_2. reflexivity.
Qed.

(* the statement of Props/C02_statements.v: odd, strictly increasing *)
Theorem cli_stream_ids_sorted cfg first evs :
  let ids := header_ids (cli_tr cfg first evs) in
  StronglySorted N.lt ids /\ Forall (fun id => N.odd id = true) ids /\ Forall (fun id => id <= cl_maxStreamID) ids.
Proof.
  destruct (cli_stream_ids cfg first evs) as (k & A & B). cbv zeta. rewrite A. destruct (odds_sorted k) as [S F].
  split; [exact S|]. split; eapply Forall_impl; try exact F; intros a [X Y]; [exact X | unfold cl_maxStreamID in *; lia].
Qed.

(* ---------- C02 (c), C20 ---------- *)
Theorem cli_own_response cfg first evs tag r resp :
  cli_never_idle cfg first evs -> In (tag, r, CENil, resp) (results_of (cli_tr cfg first evs)) ->
  let mine := first_end (cli_items cfg first evs (cst_sid (cli_run cfg first evs) tag)) in
  cst_sid (cli_run cfg first evs) tag <> 0 /\ lax_response mine = true /\ resp = asm cl_empty_resp mine.
Proof.
  intros NI H.
  assert (H' : In (COResult tag r CENil resp) (cli_tr cfg first evs)).
  { unfold results_of in H. apply in_flat_map in H. destruct H as (o & Ho & Hi). destruct o; try contradiction. destruct Hi as [Hi|[]]. inversion Hi; subst. exact Ho. }
  destruct (own_response cli_dec_field cli_enc_field set_max_table_size cfg cli_init_hpack first evs tag r resp NI H') as (x & G & S & L & R).
  unfold cst_sid, cst_ctx. change (cl_ctxs_get (cc_ctxs (cli_run cfg first evs)) tag) with (cl_ctx_get (cli_run cfg first evs) tag).
  unfold cli_run. rewrite G. cbv zeta. repeat split; assumption.
Qed.

Lemma lax_cl_fits_fields fs : cl_small fs = true -> cl_fits_fields fs = true.
Proof.
  unfold cl_small, cl_fits_fields. induction fs as [|f t IH]; [reflexivity|]. cbn [forallb]. intro H.
  apply andb_true_iff in H. destruct H as [H1 H2]. rewrite (IH H2), andb_true_r.
  destruct (has_name H_content_length f); [|reflexivity]. rewrite parse_uint_decimal in H1. destruct (decimal (snd f)) as [n|]; [|reflexivity].
  destruct (Z.of_N n <=? MAXINT)%Z; [reflexivity | discriminate].
Qed.

Lemma lax_after_final_cl_fits items : lax_after_final items = true -> cl_fits items = true.
Proof.
  induction items as [|i t IH]; [reflexivity|]. cbn [lax_after_final cl_fits forallb]. destruct i as [fs es|d es].
  - destruct es; [|discriminate]. intro H. apply andb_true_iff in H. destruct H as [H1 H2]. destruct t; [|discriminate].
    unfold lax_trailers, lax_common in H1. rewrite !andb_true_iff in H1. rewrite lax_cl_fits_fields by tauto. reflexivity.
  - destruct es; [destruct t; [reflexivity | discriminate]|]. exact IH.
Qed.

Lemma lax_response_cl_fits items : lax_response items = true -> cl_fits items = true.
Proof.
  induction items as [|i t IH]; [reflexivity|]. cbn [lax_response cl_fits forallb]. destruct i as [fs es|d es]; [|discriminate].
  intro H. apply andb_true_iff in H. destruct H as [H1 H2].
  assert (F : cl_fits_fields fs = true) by (unfold lax_head, lax_common in H1; rewrite !andb_true_iff in H1; apply lax_cl_fits_fields; tauto).
  rewrite F. cbn [andb]. destruct (lax_status_of fs <? 200)%Z; destruct es; try (destruct t; [reflexivity | discriminate]).
  - exact (IH H2).
  - exact (lax_after_final_cl_fits _ H2).
Qed.

(* ... in the words of RFC 7540: the response on that stream is well formed, and the caller holds its status, its
   fields in order (those of informational blocks and trailers included, content-length apart) and its body *)
Theorem cli_own_response_rfc cfg first evs tag r resp :
  cli_never_idle cfg first evs -> In (tag, r, CENil, resp) (results_of (cli_tr cfg first evs)) ->
  let mine := first_end (cli_items cfg first evs (cst_sid (cli_run cfg first evs) tag)) in
  wf_response mine = true /\
  cr_fields resp = kept_items mine /\ cl_resp_body resp = body_of mine /\
  forall n fs, final_head mine = Some (n, fs) -> cr_status resp = Z.of_N n.
Proof.
  intros NI H mine. destruct (cli_own_response cfg first evs tag r resp NI H) as (_ & L & R). fold mine in L, R.
  pose proof (lax_response_wf _ L) as W. split; [exact W|].
  destruct (asm_fields_body mine cl_empty_resp) as [A B]. rewrite R. split; [exact A|]. split; [exact B|].
  intros n fs FH. exact (asm_status mine cl_empty_resp n fs W (lax_response_cl_fits _ L) FH).
Qed.

Theorem cli_waiting_prefix cfg first evs id tag :
  cli_never_idle cfg first evs -> In (id, tag) (cc_reqQueued (cli_run cfg first evs)) ->
  existsb item_es (cli_items cfg first evs id) = false /\ exists p, run_items rinit (cli_items cfg first evs id) = ICont p.
Proof.
  intros NI H. destruct (waiting_prefix cli_dec_field cli_enc_field set_max_table_size cfg cli_init_hpack first evs id tag NI H) as (x & p & _ & _ & A & B).
  split; [exact B | exists p; exact A].
Qed.

Theorem cli_complete_response_delivered cfg first evs fr tag x r :
  let e := CEvRL (RFrame fr) in
  cli_never_idle cfg first (evs ++ [e]) -> cl_taken (cli_run cfg first evs) e = Some fr ->
  cl_req_find (cc_reqQueued (cli_run cfg first evs)) (sf_sid fr) = Some tag -> cl_acquire_for [] (cli_run cfg first evs) tag (sf_sid fr) = CLOk ->
  cst_ctx (cli_run cfg first evs) tag = Some x -> ct_err x = None -> ct_resolved x = false ->
  run_items rinit (cli_items cfg first (evs ++ [e]) (sf_sid fr)) = IDone r ->
  exists x3, cst_ctx (cli_run cfg first (evs ++ [e])) tag = Some x3 /\ ct_err x3 = Some CENil /\ ct_resp x3 = r /\
             cl_req_find (cc_reqQueued (cli_run cfg first (evs ++ [e]))) (sf_sid fr) = None.
Proof. apply complete_response_delivered. Qed.

(* ---------- sample runs ---------- *)
(* ":status 100" / ":status 0200" as literals with the indexed name :status (static index 8);
   "content-length: 5" and "content-length: 7" with the indexed name content-length (static index 28) *)
Definition ex_block_100 : bytes := [8; 3; 49; 48; 48].
Definition ex_block_0200 : bytes := [8; 4; 48; 50; 48; 48].
Definition ex_block_200_cl_cl : bytes := [136; 15; 13; 1; 53; 15; 13; 1; 55].
Definition ex_block_xa_200 : bytes := [0; 3; 120; 45; 97; 1; 49; 136].          (* "x-a: 1" then ":status 200" *)
Definition ex_block_200_empty_name : bytes := [136; 0; 0; 1; 120].               (* ":status 200" then "": "x" *)

Definition ex_one (fs : list rl_input) : list cevent :=
  [CEvSubmit 0 ex_get true; CEvWLIn] ++ map CEvRL fs ++ [CEvReceive 0].

Definition ex_summary (evs : list cevent) :=
  (map (fun r => (fst (fst (fst r)), snd (fst r), cr_status (snd r), cr_cl (snd r), cr_fields (snd r), cl_resp_body (snd r)))
       (results_of (cli_tr ex_cfg [] evs)),
   cli_never_idleb ex_cfg [] evs).

(* two requests; the server answers the second first, interleaves the two responses and cuts the first one's header
   block in the middle of a field (HEADERS + CONTINUATION) *)
Definition ex_two_ok : list cevent :=
  [CEvSubmit 0 ex_get true; CEvWLIn; CEvSubmit 1 (ex_post (CBuf [1; 2; 3])) true; CEvWLIn;
   CEvRL (ex_headers 3 false ex_block_404);
   CEvRL (ex_frame KHeaders 0 1 [136; 0; 3; 120] 0 0 0);
   CEvRL (ex_frame KCont 4 1 [45; 97; 1; 49] 0 0 0);
   CEvRL (ex_data 3 false [110; 111]);
   CEvRL (ex_data 1 true [104; 105]);
   CEvRL (ex_data 3 true [116]);
   CEvReceive 0; CEvReceive 1].

Example ex_two_ids : header_ids (cli_tr ex_cfg [] ex_two_ok) = [1; 3] /\ odds 2 = [1; 3].
Proof. split; vm_compute; reflexivity. Qed.

Example ex_two_results :
  ex_summary ex_two_ok =
  ([(0, CENil, 200%Z, (-3)%Z, [([120; 45; 97], [49])], [104; 105]); (1, CENil, 404%Z, (-3)%Z, [], [110; 111; 116])], true).
Proof. vm_compute. reflexivity. Qed.

Example ex_two_items :
  cli_items ex_cfg [] ex_two_ok 1 = [RBlock [(octets ":status", octets "200"); (octets "x-a", octets "1")] false; RData [104; 105] true] /\
  cli_items ex_cfg [] ex_two_ok 3 = [RBlock [(octets ":status", octets "404")] false; RData [110; 111] false; RData [116] true] /\
  wf_response (cli_items ex_cfg [] ex_two_ok 1) = true /\ wf_response (cli_items ex_cfg [] ex_two_ok 3) = true /\
  cst_sid (cli_run ex_cfg [] ex_two_ok) 0 = 1 /\ cst_sid (cli_run ex_cfg [] ex_two_ok) 1 = 3.
Proof. repeat split; vm_compute; reflexivity. Qed.

(* a request still waiting: the response headers are in, the body is not *)
Definition ex_waiting : list cevent := [CEvSubmit 0 ex_get true; CEvWLIn; CEvRL (ex_headers 1 false ex_block_200_xa)].
Example ex_waiting_hyps :
  cli_never_idleb ex_cfg [] ex_waiting = true /\ In (1, 0) (cc_reqQueued (cli_run ex_cfg [] ex_waiting)) /\
  cli_items ex_cfg [] ex_waiting 1 = [RBlock [(octets ":status", octets "200"); (octets "x-a", octets "1")] false].
Proof. split; [vm_compute; reflexivity|]. split; [vm_compute; left; reflexivity | vm_compute; reflexivity]. Qed.

(* ... and the DATA frame that completes it: every hypothesis of cli_complete_response_delivered *)
Example ex_delivered_hyps :
  let fr := mkSFrame KData 1 1 2 [104; 105] 0 0 0 false 0 false 0 in
  let e := CEvRL (RFrame fr) in
  cli_never_idleb ex_cfg [] (ex_waiting ++ [e]) = true /\ cl_taken (cli_run ex_cfg [] ex_waiting) e = Some fr /\
  cl_req_find (cc_reqQueued (cli_run ex_cfg [] ex_waiting)) 1 = Some 0 /\ cl_acquire_for [] (cli_run ex_cfg [] ex_waiting) 0 1 = CLOk /\
  (exists x, cst_ctx (cli_run ex_cfg [] ex_waiting) 0 = Some x /\ ct_err x = None /\ ct_resolved x = false) /\
  run_items rinit (cli_items ex_cfg [] (ex_waiting ++ [e]) 1) = IDone (mkCResp 200 (-3) [(octets "x-a", octets "1")] [[104; 105]]) /\
  cst_ctx (cli_run ex_cfg [] (ex_waiting ++ [e])) 0 <> None.
Proof.
  cbv zeta. repeat split; try (vm_compute; reflexivity).
  - eexists. split; [vm_compute; reflexivity|]. split; reflexivity.
  - vm_compute. discriminate.
Qed.

(* ---------- the known observations ---------- *)
(* D3 (repaired in /repo aaab76f): an informational block with END_STREAM used to be delivered as the response (nil,
   status 100); it is refused now, the request alone *)
Example ex_interim_end_refused :
  let evs := ex_one [ex_headers 1 true ex_block_100] in
  ex_summary evs = ([(0, CEMalformed, 100%Z, (-3)%Z, [], [])], true) /\
  cli_items ex_cfg [] evs 1 = [RBlock [(octets ":status", octets "100")] true] /\
  wf_response (cli_items ex_cfg [] evs 1) = false /\ lax_response (cli_items ex_cfg [] evs 1) = false.
Proof. cbv zeta. repeat split; vm_compute; reflexivity. Qed.

(* D1 (repaired in /repo 03dd30d): ":status: 0200" is not a three-digit status code; it used to be delivered as 200 *)
Example ex_status_digits_refused :
  let evs := ex_one [ex_headers 1 true ex_block_0200] in
  ex_summary evs = ([(0, CEMalformed, 0%Z, (-3)%Z, [], [])], true) /\
  cli_items ex_cfg [] evs 1 = [RBlock [(octets ":status", octets "0200")] true] /\
  wf_response (cli_items ex_cfg [] evs 1) = false /\ lax_response (cli_items ex_cfg [] evs 1) = false.
Proof. cbv zeta. repeat split; vm_compute; reflexivity. Qed.

(* conflicting content-length fields: accepted, the last one wins (well formed by the letter of 8.1.2, not by RFC 7230 3.3.2) *)
Example ex_two_content_lengths :
  let evs := ex_one [ex_headers 1 true ex_block_200_cl_cl] in
  ex_summary evs = ([(0, CENil, 200%Z, 7%Z, [], [])], true) /\
  wf_response (cli_items ex_cfg [] evs 1) = true /\ wf_response_strict (cli_items ex_cfg [] evs 1) = false.
Proof. cbv zeta. repeat split; vm_compute; reflexivity. Qed.

(* refused, the request alone: DATA before any HEADERS; :status after a regular field *)
Example ex_data_first : ex_summary (ex_one [ex_data 1 true [1; 2]]) = ([(0, CEMalformed, 0%Z, (-3)%Z, [], [1; 2])], true).
Proof. vm_compute. reflexivity. Qed.
Example ex_status_after_regular :
  ex_summary (ex_one [ex_headers 1 true ex_block_xa_200]) = ([(0, CEMalformed, 0%Z, (-3)%Z, [(octets "x-a", octets "1")], [])], true).
Proof. vm_compute. reflexivity. Qed.
(* an empty field name goes through (out of the scope of wf_response, as of wf_request) *)
Example ex_empty_name :
  ex_summary (ex_one [ex_headers 1 true ex_block_200_empty_name]) = ([(0, CENil, 200%Z, (-3)%Z, [([], [120])], [])], true).
Proof. vm_compute. reflexivity. Qed.

(* the hypothesis on the server does exclude something: a frame on stream 1 before the client has opened it *)
Example ex_idle_stream : cli_never_idleb ex_cfg [] [CEvRL (ex_headers 1 true ex_block_404); CEvSubmit 0 ex_get true; CEvWLIn] = false.
Proof. vm_compute. reflexivity. Qed.

(* statements free of the section's unused parameters *)
Lemma write_request_never_no_ids hstate enc_field enc_set_max (c : cconn hstate) tag :
  snd (cl_write_request enc_field enc_set_max c tag) <> CWRErr CENoIDs.
Proof. exact (write_request_no_ids (fun d _ _ => DNone hstate d) enc_field enc_set_max (cc_dec c) [] c tag). Qed.

(* the RFC's own examples (8.1.3) are well formed, accepted, and run to nil *)
Example ex_rfc_examples :
  wf_response ex_304 = true /\ wf_response ex_200 = true /\ wf_response ex_100_200_trailers = true /\
  lax_response ex_100_200_trailers = true /\
  (exists r, run_items rinit ex_100_200_trailers = IDone r /\ cr_status r = 200%Z /\ cl_resp_body r = [1; 2; 3]).
Proof. repeat split; try reflexivity. eexists. split; [vm_compute; reflexivity | split; reflexivity]. Qed.

(* ---------- C02 (b): the header blocks ---------- *)
Theorem cli_request_blocks cfg first evs :
  exists l : list rentry,
    headers_of (cli_tr cfg first evs) = map re_hdr l /\
    (forall id tag rq blk, In (id, tag, rq, blk) l ->
       id <> 0 /\ exists x, cst_ctx (cli_run cfg first evs) tag = Some x /\ ct_sid x = id /\ ct_req x = rq) /\
    exists e, enc_chain cli_enc_field set_max_table_size (cc_enc (cli_init first)) (map re_rb l) e /\
              (cl_wl_live (cli_run cfg first evs) = true -> e = cc_enc (cli_run cfg first evs)).
Proof. exact (request_blocks cli_dec_field cli_enc_field set_max_table_size cfg cli_init_hpack first evs). Qed.

(* the two requests of ex_two_ok: GET without a body (END_STREAM on HEADERS), POST with one; the second block is encoded
   in the state the first one left the encoder in *)
Example ex_two_blocks :
  let e0 := cc_enc (cli_init []) in
  let b1 := cl_request_block cli_enc_field e0 ex_get in
  let b2 := cl_request_block cli_enc_field (snd b1) (ex_post (CBuf [1; 2; 3])) in
  headers_of (cli_tr ex_cfg [] ex_two_ok) = [(1, true, fst b1); (3, false, fst b2)] /\
  cc_enc (cli_run ex_cfg [] ex_two_ok) = snd b2 /\
  data_of 3 (cli_tr ex_cfg [] ex_two_ok) = [(true, [1; 2; 3])] /\ data_of 1 (cli_tr ex_cfg [] ex_two_ok) = [].
Proof. cbv zeta. repeat split; vm_compute; reflexivity. Qed.

(* ---------- C02 (d): cancellation and timeouts in between ---------- *)
Lemma update_window_cw hstate (c : cconn hstate) s n :
  cc_currentWindow (cl_update_window c s n) = cc_currentWindow c /\ cc_closed (cl_update_window c s n) = cc_closed c.
Proof. unfold cl_update_window, cl_write_out. destruct (cc_closed c) eqn:E; [split; [reflexivity | exact E] | split; [reflexivity | exact E]]. Qed.

(* DATA counts against the connection window whether or not a request is still waiting on its stream: the read loop's
   window after the frame does not depend on the Response, and neither does the connection-level WINDOW_UPDATE *)
Lemma data_window_counted hstate (dec_field : hstate -> N -> bytes -> dec_res hstate) (c : cconn hstate) fr res :
  sf_kind fr = KData ->
  let cur := cl_i32 (cc_currentWindow c - Z.of_N (sf_len fr)) in
  cc_currentWindow (fst (fst (fst (cl_read_stream dec_field c fr res)))) = (if (cur <? cl_maxWindow / 2)%Z then cl_maxWindow else cur) /\
  (cc_closed c = false -> (cur <? cl_maxWindow / 2)%Z = true ->
   exists q, cc_outQ (fst (fst (fst (cl_read_stream dec_field c fr res)))) = (q ++ [COWinUpd 0 (cl_maxWindow - cur)])%list).
Proof.
  intros K cur. unfold cl_read_stream. rewrite K. cbn [fst]. fold cur.
  set (c1 := ccu_currentWindow c cur).
  set (c2 := match res with
             | Some _ => if negb (sf_len fr =? 0) && negb (flag_has (sf_flags fr) FL_ES) then cl_update_window c1 (sf_sid fr) (Z.of_N (sf_len fr)) else c1
             | None => c1 end).
  assert (E : cc_currentWindow c2 = cur /\ cc_closed c2 = cc_closed c).
  { subst c2. destruct res; [destruct (negb (sf_len fr =? 0) && negb (flag_has (sf_flags fr) FL_ES))|]; try (split; reflexivity).
    destruct (update_window_cw hstate c1 (sf_sid fr) (Z.of_N (sf_len fr))) as [A B]. rewrite A, B. split; reflexivity. }
  destruct E as [E1 E2]. destruct (cur <? cl_maxWindow / 2)%Z eqn:LOW.
  - split.
    + destruct (update_window_cw hstate (ccu_currentWindow c2 cl_maxWindow) 0 (cl_maxWindow - cur)) as [A _]. rewrite A. reflexivity.
    + intros NC _. unfold cl_update_window, cl_write_out. change (cc_closed (ccu_currentWindow c2 cl_maxWindow)) with (cc_closed c2). rewrite E2, NC.
      exists (cc_outQ c2). reflexivity.
  - split; [exact E1 | discriminate].
Qed.

Lemma timeout_quiet hstate (c : cconn hstate) tag : qm q2 c (cl_timeout_fire c tag) /\ qm q2 c (cl_timeout_cancel c tag).
Proof. split; [apply qm_timeout_fire | apply qm_timeout_cancel]. Qed.
Lemma close_quiet hstate (c : cconn hstate) : qm q2 c (cl_close_call c) /\ qm q2 c (cl_close_finish c).
Proof. split; [apply qm_close_call | apply qm_close_finish]. Qed.

(* a cancelled request in the middle of its response, another one after it *)
Definition ex_summary_armed (evs : list cevent) :=
  (map (fun r => (fst (fst (fst r)), snd (fst r), cr_status (snd r), cr_cl (snd r), cr_fields (snd r), cl_resp_body (snd r)))
       (results_of (cli_tr ex_cfg_armed [] evs)),
   cli_never_idleb ex_cfg_armed [] evs).
(* ":status 200" then "x-a: 1" with incremental indexing (0x40): enters the dynamic table as index 62 *)
Definition ex_block_200_xa_indexed : bytes := [136; 64; 3; 120; 45; 97; 1; 49].
Definition ex_cancelled : list cevent :=
  [CEvSubmit 0 ex_get true; CEvWLIn; CEvSubmit 1 ex_get true; CEvWLIn;
   CEvTimeout 0; CEvTimeoutCancel 0; CEvReceive 0;
   CEvRL (ex_headers 1 false ex_block_200_xa_indexed);        (* for the cancelled request: decoded, dropped *)
   CEvRL (ex_data 1 true [104; 105]);
   CEvRL (ex_headers 3 false [136; 190]);                     (* ":status 200", then index 62 = x-a: 1 *)
   CEvRL (ex_data 3 true [104; 105]);
   CEvReceive 1].
Example ex_cancelled_ok :
  ex_summary_armed ex_cancelled =
  ([(0, CETimeout, 0%Z, (-3)%Z, [], []); (1, CENil, 200%Z, (-3)%Z, [([120; 45; 97], [49])], [104; 105])], true) /\
  cli_items ex_cfg_armed [] ex_cancelled 3 = [RBlock [(octets ":status", octets "200"); (octets "x-a", octets "1")] false; RData [104; 105] true] /\
  cli_items ex_cfg_armed [] ex_cancelled 1 = [RBlock [(octets ":status", octets "200"); (octets "x-a", octets "1")] false; RData [104; 105] true].
Proof. repeat split; vm_compute; reflexivity. Qed.
