(* Proofs/SrvRfcDefs.v - C08: how the server model is observed against Spec/Rfc7540Streams.v.
   - abs_frame / abs_input : what the specification sees of a frame;
   - feed                  : the lockstep schedule (EvRL i; EvSL) and handler completions;
   - new_out, reaction_of  : what the model did with a frame, read off the trace delta;
   - spec_feed             : the specification state following the model (the frame's
                             reaction, then everything the server sent on its own account);
   - R                     : the abstraction relation (DESIGN.md Appendix F);
   - check_run             : an executable check of "every reaction is allowed" used to search
                             for counterexamples by vm_compute. *)
From H2V Require Import Base.Bytes Base.MachineInt Base.Result Gen.GenConsts Impl.ServerConn Proofs.SrvBase.
From H2V Require Spec.Rfc7540Streams.
From Coq Require Import ZArith Lia.
Local Open Scope N_scope.

Module RS := H2V.Spec.Rfc7540Streams.

(* ---------- abstraction of inputs ---------- *)

Definition abs_kind (k : fkind) : RS.kind :=
  match k with
  | KData => RS.DATA | KHeaders => RS.HEADERS | KPriority => RS.PRIORITY | KRst => RS.RST_STREAM
  | KSettings => RS.SETTINGS | KPush => RS.PUSH_PROMISE | KPing => RS.PING | KGoAway => RS.GOAWAY
  | KWinUpd => RS.WINDOW_UPDATE | KCont => RS.CONTINUATION
  end.

(* The flag bits are handed over as they are on the wire, whatever the frame type: the
   specification reads END_STREAM on DATA and HEADERS only, END_HEADERS on HEADERS and
   CONTINUATION only. *)
Definition abs_frame (f : sframe) : RS.frame :=
  RS.mkF (abs_kind (sf_kind f)) (sf_sid f) (flag_has (sf_flags f) FL_ES) (flag_has (sf_flags f) FL_EH)
         (match sf_kind f with KHeaders | KPriority => sf_dep f =? sf_sid f | _ => false end)
         (sf_inc f).

(* RBadFrame None: the frame reader failed without naming a code (short fixed-size frame,
   bad padding): the model closes; any code would do for the specification. *)
Definition abs_input (i : rl_input) : RS.input :=
  match i with
  | RFrame f => RS.Frame (abs_frame f)
  | RUnknownType => RS.UnknownType
  | RBadFrame (Some c) => RS.Malformed c
  | RBadFrame None => RS.Malformed c_FrameSizeError
  | RLEof => RS.Eof
  end.

Definition input_sid (i : rl_input) : N := match i with RFrame f => sf_sid f | _ => 0 end.

(* ---------- reading the trace ---------- *)

Fixpoint strip_late (o : outev) : outev := match o with OLate o' => strip_late o' | _ => o end.

Definition is_goaway (o : outev) : option N := match strip_late o with OGoAway _ code => Some code | _ => None end.
Definition is_exit (o : outev) : bool := match strip_late o with OExit _ _ | OPanic _ _ => true | _ => false end.
Definition is_rst (sid : N) (o : outev) : option N :=
  match strip_late o with ORst s code => if s =? sid then Some code else None | _ => None end.

Fixpoint first_some {A} (f : outev -> option A) (l : list outev) : option A :=
  match l with
  | [] => None
  | o :: t => match f o with Some x => Some x | None => first_some f t end
  end.

(* d: the outputs of the steps that dealt with the frame, oldest first.
   Process stands for "no error signalled": whether the frame took effect or was dropped
   cannot be read off the outputs; `resolve` lets the specification decide, and the
   relation R then checks that the model's stream state moved accordingly. *)
Definition classify (sid : N) (d : list outev) : RS.reaction :=
  match first_some is_goaway d with
  | Some code => RS.ConnErr code
  | None =>
    if existsb is_exit d then RS.ConnClose
    else match (if sid =? 0 then None else first_some (is_rst sid) d) with
         | Some code => RS.StreamErr code
         | None => RS.Process
         end
  end.

Definition resolve (s : RS.state) (i : RS.input) (r : RS.reaction) : RS.reaction :=
  match r with
  | RS.Process => if RS.may_process s i then RS.Process else RS.Ignore
  | _ => r
  end.

Definition sent_of (o : outev) : list RS.sent :=
  match strip_late o with
  | OHeaders sid true _ | OData sid true _ => [RS.SentEndStream sid]
  | ORst sid _ => [RS.SentRst sid]
  | OGoAway _ _ => [RS.SentGoAway]
  | OExit _ _ | OPanic _ _ => [RS.Closed_connection]
  | _ => []
  end.

Section Obs.
Variable hstate : Type.
Variable dec_field : hstate -> N -> bytes -> dec_res hstate.
Variable enc_field : hstate -> bytes -> bytes -> bool -> bytes * hstate.
Variable enc_set_max : hstate -> N -> hstate.
Variable cfg : config.
Notation sconn := (sconn hstate).
Notation step := (step dec_field enc_field enc_set_max cfg).

(* ---------- the schedule ---------- *)

Inductive local : Type := LClock (t : Z) | LTimer | LIdle | LCloser.
Definition local_event (l : local) : event :=
  match l with LClock t => EvClock t | LTimer => EvTimer | LIdle => EvIdle | LCloser => EvCloser end.

Inductive item : Type :=
| IIn (i : rl_input)                 (* the peer's next frame: read loop, then stream loop *)
| IDone (sid : N) (r : response)     (* a handler returns *)
| ILocal (l : local).                (* time passes, timers fire *)

Definition feed (c : sconn) (it : item) : sconn :=
  match it with
  | IIn i => step (step c (EvRL i)) EvSL
  | IDone sid r => step c (EvDone sid r)
  | ILocal l => step c (local_event l)
  end.

(* outputs added between c and c', oldest first *)
Definition new_out (c c' : sconn) : list outev :=
  rev (firstn (length (sc_out c') - length (sc_out c)) (sc_out c')).

Definition reaction_of (c : sconn) (i : rl_input) (c' : sconn) : RS.reaction :=
  classify (input_sid i) (new_out c c').

(* The closed streams the model no longer remembers are forgotten by the specification too
   (RFC 5.1: "an endpoint MAY choose to limit the period over which it ignores frames"): the
   period is the time the id stays in the 256-entry ring. *)
Definition sync_forget (c' : sconn) (s : RS.state) : RS.state :=
  fold_left (fun s id => if in_ring c' id then s else RS.forget s id) (map fst (RS.known s)) s.

(* the specification follows: the reaction to the frame, then what the server sent on its
   own account in the same steps, then the closed streams it has stopped remembering *)
Definition spec_feed (c : sconn) (it : item) (s : RS.state) : RS.state :=
  let c' := feed c it in
  let s1 := match it with
            | IIn i => RS.spec_next s (abs_input i) (resolve s (abs_input i) (reaction_of c i c'))
            | _ => s
            end in
  sync_forget c' (fold_left RS.spec_sent (flat_map sent_of (new_out c c')) s1).

Definition item_ok (c : sconn) (it : item) (s : RS.state) : bool :=
  match it with
  | IIn i => RS.allowed s (abs_input i) (resolve s (abs_input i) (reaction_of c i (feed c it)))
  | _ => true
  end.

(* ---------- the places where the model is known to differ from the RFC ---------- *)

(* D1: a PRIORITY frame on an even stream id (an idle stream of the server's own id space,
       RFC 6.3 allows it) is a connection error in the read loop.
   D3: a WINDOW_UPDATE on a stream the peer itself closed with RST_STREAM is ignored
       (RFC 5.1: stream error STREAM_CLOSED); the ring does not record who closed.
   D6: a SETTINGS or GOAWAY frame carrying the id of a recently closed or half-closed stream is
       answered with GOAWAY(STREAM_CLOSED); RFC 6.5/6.8 name PROTOCOL_ERROR.
   D7: the peer resets a stream whose response still has bytes to send: sendData runs once more on it, and if the
       body reader fails right then RST_STREAM(INTERNAL_ERROR) goes out in the same step as the peer's RST_STREAM
       is processed (RFC 6.4).  Only when no read bytes are waiting or both send windows are open at that moment:
       the stream loop leaves no stream in such a state (sendData only stops on a closed window with bytes in hand;
       the window half is C06_no_stall), but that invariant is not part of this proof, and the bounded search never
       meets the case. *)
Definition known_deviation (c : sconn) (s : RS.state) (i : rl_input) : bool :=
  match i with
  | RFrame f =>
    match sf_kind f with
    | KPriority => N.even (sf_sid f) && negb (sf_sid f =? 0)
    | KSettings | KGoAway =>
      negb (sf_sid f =? 0) &&
      (in_ring c (sf_sid f) ||
       match strms_search (sc_strms c) (sf_sid f) with Some st => sstate_eqb (st_state st) SHalfClosed | None => false end)
    | KRst =>
      match strms_search (sc_strms c) (sf_sid f) with
      | Some st => st_responded st && negb (st_handlerRunning st) && has_more_to_send st &&
                   (match st_pending st with [] => true | _ => false end || (0 <? zmin (st_window st) (sc_clientWindow c))%Z)
      | None => false
      end
    | KWinUpd =>
      match ring_find c (sf_sid f), RS.st_of s (sf_sid f) with
      | Some false, RS.Closed RS.PeerRst => true
      | _, _ => false
      end
    | _ => false
    end
  | _ => false
  end.

(* ---------- the frames seen on each stream ---------- *)

Definition frames_on (sid : N) (its : list item) : list RS.frame :=
  flat_map (fun it => match it with
                      | IIn (RFrame f) => if sf_sid f =? sid then [abs_frame f] else []
                      | _ => []
                      end) its.

(* ---------- the abstraction relation ---------- *)

Definition tbl (c : sconn) (id : N) : option stream := strms_search (sc_strms c) id.

(* how one stream id looks in the model *)
Inductive mview : Type :=
| MTbl (st : sstate)     (* in the stream table, with this state *)
| MRing (weReset : bool) (* closed and remembered in the ring; reset by the server or not *)
| MOld                   (* not above the highest id the peer has used, and forgotten *)
| MNew.                  (* above the highest id the peer has used *)

Definition view (c : sconn) (id : N) : mview :=
  match tbl c id with
  | Some st => MTbl (st_state st)
  | None =>
    match ring_find c id with
    | Some b => MRing b
    | None => if id <=? sc_highestID c then MOld else MNew
    end
  end.

(* ... and what the specification must think of it *)
Definition rel (m : mview) (x : RS.sstate) : Prop :=
  match m with
  | MTbl SOpen => x = RS.Open
  | MTbl SHalfClosed => x = RS.HalfClosedRemote
  | MTbl _ => False
  | MRing true => x = RS.Closed RS.WeRst
  | MRing false => x = RS.Closed RS.PeerEnd \/ x = RS.Closed RS.PeerRst
  | MOld => x = RS.Closed RS.Implicit
  | MNew => x = RS.Idle
  end.

Definition R_stream (c : sconn) (s : RS.state) (id : N) : Prop := rel (view c id) (RS.st_of s id).

Definition R_block (c : sconn) (s : RS.state) : Prop :=
  RS.block s = if sc_expectCont c =? 0 then None else Some (sc_expectCont c).

(* While both loops run: between two items of the lockstep schedule the forwarding queue
   is empty and every stream id looks the same on both sides.  Once a loop has ended nothing
   is processed any more, and the specification has seen the connection die. *)
Definition over (c : sconn) : bool := sc_sl_done c || sc_rl_done c.

Definition R (c : sconn) (s : RS.state) : Prop :=
  if over c then RS.dead s = true
  else sc_readerQ c = [] /\ (forall id, N.odd id = true -> R_stream c s id) /\ R_block c s /\
       RS.goaway s = sc_closing c /\ RS.highest s = sc_highestID c.

(* the same, decidable on a finite set of ids (for the search) *)
Definition sstate_eqb' (a b : RS.sstate) : bool :=
  match a, b with
  | RS.Idle, RS.Idle | RS.Open, RS.Open | RS.HalfClosedRemote, RS.HalfClosedRemote
  | RS.HalfClosedLocal, RS.HalfClosedLocal => true
  | RS.Closed RS.PeerEnd, RS.Closed RS.PeerEnd | RS.Closed RS.PeerRst, RS.Closed RS.PeerRst
  | RS.Closed RS.WeRst, RS.Closed RS.WeRst | RS.Closed RS.Implicit, RS.Closed RS.Implicit => true
  | _, _ => false
  end.
Definition is_closed (x : RS.sstate) : bool := match x with RS.Closed _ => true | _ => false end.

Definition rel_b (m : mview) (x : RS.sstate) : bool :=
  match m with
  | MTbl SOpen => sstate_eqb' x RS.Open
  | MTbl SHalfClosed => sstate_eqb' x RS.HalfClosedRemote
  | MTbl _ => false
  | MRing true => sstate_eqb' x (RS.Closed RS.WeRst)
  | MRing false => sstate_eqb' x (RS.Closed RS.PeerEnd) || sstate_eqb' x (RS.Closed RS.PeerRst)
  | MOld => sstate_eqb' x (RS.Closed RS.Implicit)
  | MNew => sstate_eqb' x RS.Idle
  end.
Definition R_stream_b (c : sconn) (s : RS.state) (id : N) : bool := rel_b (view c id) (RS.st_of s id).

Definition R_b (ids : list N) (c : sconn) (s : RS.state) : bool :=
  if over c then RS.dead s
  else forallb (fun id => negb (N.odd id) || R_stream_b c s id) ids
   && match RS.block s with None => sc_expectCont c =? 0 | Some b => negb (b =? 0) && (sc_expectCont c =? b) end
   && Bool.eqb (RS.goaway s) (sc_closing c) && (RS.highest s =? sc_highestID c)
   && match sc_readerQ c with [] => true | _ => false end.

(* ---------- running both side by side ---------- *)

(* 0: fine; k+1: the k-th item (from 0) got a reaction the specification does not allow;
   1000+k+1: R fails (on `ids`) after the k-th item *)
Fixpoint check_from (ids : list N) (k : nat) (c : sconn) (s : RS.state) (its : list item) : nat :=
  match its with
  | [] => O
  | it :: t =>
    if negb (item_ok c it s) then S k
    else
      let c' := feed c it in
      let s' := spec_feed c it s in
      if negb (R_b ids c' s') then (1000 + S k)%nat else check_from ids (S k) c' s' t
  end.

Fixpoint run_items (c : sconn) (s : RS.state) (its : list item) : sconn * RS.state :=
  match its with
  | [] => (c, s)
  | it :: t => run_items (feed c it) (spec_feed c it s) t
  end.

End Obs.
